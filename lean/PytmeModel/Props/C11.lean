import PytmeModel.Model.C11
import PytmeModel.Proofs.C11
import PytmeModel.Proofs.C11Star
import PytmeModel.Proofs.C11Perm
import PytmeModel.Proofs.C11Extract

/-! # C11 — orientation tables round-trip; subsetting; extraction windows -/
namespace Pm.C11

/-! ## extraction windows (per axis: every target extent `T`, box extent `e`, pick `p`) -/

/-- source and destination windows always have the same extent -/
theorem window_extents_eq (T e : Nat) (p : Int) :
    candEnd T e p - candBeg e p = obsEnd T e p - obsBeg e p := by
  unfold candEnd candBeg; omega

/-- the source window never leaves the target; for a pick inside the target it is a proper
(possibly empty) interval -/
theorem window_in_target (T e : Nat) (p : Int) :
    0 ≤ obsBeg e p ∧ obsEnd T e p ≤ T ∧ (0 ≤ p → p ≤ T → obsBeg e p ≤ obsEnd T e p) := by
  unfold obsBeg obsEnd leftPad rightPad; omega

/-- the destination window never leaves the box, whatever the parities, also when the box is
larger than the target -/
theorem window_in_box (T e : Nat) (p : Int) :
    0 ≤ candBeg e p ∧ candEnd T e p ≤ e ∧ (0 ≤ p → p ≤ T → candBeg e p ≤ candEnd T e p) := by
  unfold candBeg candEnd obsBeg obsEnd leftPad rightPad; omega

/-- the per-axis keep test holds exactly when the window has the full box extent -/
theorem kept_iff_full (T e : Nat) (p : Int) :
    keepAxis T e p = true ↔ candEnd T e p - candBeg e p = e := by
  have h := window_in_box T e p
  unfold keepAxis
  simp only [Bool.and_eq_true, beq_iff_eq]
  omega

/-- … and then the source window is the whole box-sized neighbourhood `[p - ⌈e/2⌉, p + ⌊e/2⌋)` -/
theorem kept_window (T e : Nat) (p : Int) (h : keepAxis T e p = true) :
    obsBeg e p = p - leftPad e ∧ obsEnd T e p = p + rightPad e ∧ obsEnd T e p - obsBeg e p = e := by
  have h1 := (kept_iff_full T e p).mp h
  have h2 := window_extents_eq T e p
  have h3 := window_in_box T e p
  unfold candBeg candEnd at *
  unfold obsBeg obsEnd leftPad rightPad at *
  omega

/-- which picks are kept: exactly those whose box `[p - ⌈e/2⌉, p + ⌊e/2⌋)` fits into the target -/
theorem keep_iff_fits (T e : Nat) (p : Int) :
    keepAxis T e p = true ↔ (leftPad e ≤ p ∧ p + rightPad e ≤ T) := by
  unfold keepAxis candBeg candEnd obsBeg obsEnd leftPad rightPad
  simp only [Bool.and_eq_true, beq_iff_eq]
  omega

/-- in particular a pick at least `⌈e/2⌉` away from both faces of the target is never dropped -/
theorem interior_kept (T e : Nat) (p : Int) (h1 : leftPad e ≤ p) (h2 : p + leftPad e ≤ T) :
    keepAxis T e p = true := by
  rw [keep_iff_fits]
  unfold leftPad rightPad at *
  omega

/-- n-D: a pick is kept exactly when every axis has the full extent -/
theorem keepPick_iff_full (T e : List Nat) (p : List Int) (h1 : T.length = e.length) (h2 : e.length = p.length) :
    keepPick T e p = true ↔
      ∀ w ∈ (windowAxes T e p).zip e, w.1.2.1 - w.1.1 = (w.2 : Int) := by
  induction T generalizing e p with
  | nil =>
    cases e with
    | nil => cases p <;> simp [keepPick, windowAxes]
    | cons => simp at h1
  | cons T Ts ih =>
    cases e with
    | nil => simp at h1
    | cons e es =>
      cases p with
      | nil => simp at h2
      | cons p ps =>
        simp only [List.length_cons, Nat.add_right_cancel_iff] at h1 h2
        simp only [keepPick, windowAxes, Bool.and_eq_true, List.zip_cons_cons, List.mem_cons, forall_eq_or_imp]
        rw [ih es ps h1 h2, kept_iff_full]

/-- n-D: every window produced for a pick satisfies the three per-axis clauses -/
theorem windowAxes_spec (T e : List Nat) (p : List Int) :
    ∀ w ∈ windowAxes T e p, w.2.1 - w.1 = w.2.2.2 - w.2.2.1 ∧ 0 ≤ w.1 ∧ 0 ≤ w.2.2.1 := by
  induction T generalizing e p with
  | nil => intro w hw; cases e <;> cases p <;> simp [windowAxes] at hw
  | cons T Ts ih =>
    cases e with
    | nil => intro w hw; simp [windowAxes] at hw
    | cons e es =>
      cases p with
      | nil => intro w hw; simp [windowAxes] at hw
      | cons p ps =>
        intro w hw
        simp only [windowAxes, List.mem_cons] at hw
        rcases hw with rfl | hw
        · exact ⟨window_extents_eq T e p, (window_in_box T e p).1, (window_in_target T e p).1⟩
        · exact ih es ps w hw

/-- one window per axis -/
theorem windowAxes_length (T e : List Nat) (p : List Int) (h1 : T.length = e.length) (h2 : e.length = p.length) :
    (windowAxes T e p).length = T.length := by
  induction T generalizing e p with
  | nil => cases e <;> cases p <;> simp [windowAxes]
  | cons T Ts ih =>
    cases e with
    | nil => simp at h1
    | cons e es =>
      cases p with
      | nil => simp at h2
      | cons p ps =>
        simp only [List.length_cons, Nat.add_right_cancel_iff] at h1 h2
        simp [windowAxes, ih es ps h1 h2]

example : windowAxes [10, 9] [4, 5] [0, 8] = [(2, 4, 0, 2), (0, 4, 5, 9)] := by decide
example : keepPick [10, 9] [4, 5] [5, 5] = true ∧ keepPick [10, 9] [4, 5] [0, 5] = false := by decide
example : keepAxis 3 7 1 = false ∧ candBeg 7 1 = 3 ∧ candEnd 3 7 1 = 6 := by decide


/-! ## native text format -/

/-- a row as the writer emits it: `d` translation and `r` angle tokens, every token a non-empty
whitespace-free string (what `str(np.float32)` produces) -/
structure RowWf (d r : Nat) (row : Row) : Prop extends RowOk d r row where
  toks : ∀ t ∈ row.tokens, tokWf t

/-- **text round trip**: for every number of translation (`d ≤ 26`) and angle (`1 ≤ r ≤ 26`)
columns and every table of 0..N rows, reading the written file gives back the same number of
rows in the same order, translation columns in the stored axis order, and angle / score /
detail tokens unchanged (bit-identity of the numbers = numpy's print/parse, trusted) -/
theorem text_roundtrip (d r : Nat) (hd : d ≤ 26) (hr1 : 1 ≤ r) (hr : r ≤ 26) (rows : List Row)
    (h : ∀ row ∈ rows, RowWf d r row) :
    readText (writeText d r rows) = .ok (Table.ofRows d r rows) := by
  have hw : ∀ toks ∈ textHeader d r :: rows.map Row.tokens, rowWf toks := by
    intro toks ht
    rcases List.mem_cons.mp ht with rfl | ht
    · exact header_rowWf d r
    · obtain ⟨row, hrow, rfl⟩ := List.mem_map.mp ht
      exact ⟨by simp [Row.tokens], (h row hrow).toks⟩
  unfold readText writeText
  rw [parseLines_renderLines '\t' (by decide) (by decide) _ hw]
  exact readTable_written d r hd hr1 hr rows (fun row hm => (h row hm).toRowOk)

/-- number of entries and order: the table read back has exactly the written rows -/
theorem text_roundtrip_count (d r : Nat) (hd : d ≤ 26) (hr1 : 1 ≤ r) (hr : r ≤ 26) (rows : List Row)
    (h : ∀ row ∈ rows, RowWf d r row) :
    ∃ t, readText (writeText d r rows) = .ok t ∧ t.trans.length = rows.length ∧ t.transCols = d ∧
      t.rotCols = r ∧ ∀ i (hi : i < rows.length), t.trans[i]? = some rows[i].trans ∧
        t.rot[i]? = some rows[i].rot ∧ t.score[i]? = some rows[i].score ∧ t.detail[i]? = some rows[i].detail := by
  refine ⟨_, text_roundtrip d r hd hr1 hr rows h, by simp [Table.ofRows], rfl, rfl, ?_⟩
  intro i hi
  simp [Table.ofRows, hi]

/-- **text files with permuted named columns**: a file that carries the writer's `d + r` column names in *any*
order `perm` (translation and angle columns may be interleaved; score and detail last), each row's tokens in the
same order, is read into exactly the table the canonical file gives: the reader's header-driven order
(`sorted(zip(names, range), reverse=True)` on the translation names and on the `euler_*` names) undoes every
permutation, for every number of rows.  (`text_roundtrip` is the case `perm = 0, 1, …` — `text_permuted_identity`.) -/
theorem text_roundtrip_permuted (d r : Nat) (hd : d ≤ 26) (hr1 : 1 ≤ r) (hr : r ≤ 26) (perm : List Nat)
    (hp : perm.Perm (List.range (d + r))) (rows : List Row) (h : ∀ row ∈ rows, RowWf d r row) :
    readText (writeTextPerm d r perm rows) = .ok (Table.ofRows d r rows) := by
  have hperm : ∀ k ∈ perm, k < d + r := fun k hk => List.mem_range.mp (hp.subset hk)
  have hw : ∀ toks ∈ permHeader d r perm :: rows.map (permTokens perm), rowWf toks := by
    intro toks ht
    rcases List.mem_cons.mp ht with rfl | ht
    · exact permHeader_rowWf d r hd hr perm hperm
    · obtain ⟨row, hrow, rfl⟩ := List.mem_map.mp ht
      exact permTokens_rowWf d r perm hperm row (h row hrow).toRowOk (h row hrow).toks
  unfold readText writeTextPerm
  rw [parseLines_renderLines '\t' (by decide) (by decide) _ hw]
  exact readTable_permuted d r hd hr1 hr perm hp rows (fun row hm => (h row hm).toRowOk)

/-- the identity order is the writer's own file, so the permuted statement contains the plain round trip -/
theorem text_permuted_identity (d r : Nat) (hd : d ≤ 26) (hr : r ≤ 26) (rows : List Row)
    (h : ∀ row ∈ rows, RowWf d r row) : writeTextPerm d r (List.range (d + r)) rows = writeText d r rows :=
  writeTextPerm_id d r hd hr rows (fun row hm => (h row hm).toRowOk)

/-- the order the reader computes, in general: for names that are the images of any permutation `ks` of `0..n-1`
under a key map on which Python's string order reverses the index order, gathering a row's values in the
computed order restores `0..n-1` -/
theorem text_sort_order_restores (ks : List Nat) (n : Nat) (hp : ks.Perm (List.range n)) (nm : Nat → Str)
    (hnm : ∀ a, a < n → ∀ b, b < n → strLt (nm a) (nm b) = decide (b < a)) (v : Nat → Str) :
    pick (ks.map v) (sortOrder (ks.map nm)) = .ok ((List.range n).map v) :=
  (sortOrder_restores ks n hp nm hnm v).1

/-- all hypotheses of `text_roundtrip_permuted` together -/
example : readText (writeTextPerm 3 2 [3, 0, 4, 2, 1] [⟨[['1'], ['2'], ['3']], [['8'], ['9']], ['5'], ['7']⟩]) =
    .ok ⟨[[['1'], ['2'], ['3']]], 3, [[['8'], ['9']]], 2, [['5']], [['7']]⟩ := by
  refine text_roundtrip_permuted 3 2 (by omega) (by omega) (by omega) _ (by decide) _ ?_
  intro row hr
  simp only [List.mem_cons, List.mem_nil_iff, or_false] at hr
  subst hr
  exact { lt := rfl, lr := rfl, toks := by decide }
example : [3, 0, 4, 2, 1].Perm (List.range (3 + 2)) := by decide
example : writeTextPerm 3 2 [3, 0, 4, 2, 1] [⟨[['1'], ['2'], ['3']], [['8'], ['9']], ['5'], ['7']⟩] =
    "euler_z\tz\teuler_y\tx\ty\tscore\tdetail\n8\t1\t9\t3\t2\t5\t7\n".toList := by decide
example : readText (writeTextPerm 3 2 [3, 0, 4, 2, 1] [⟨[['1'], ['2'], ['3']], [['8'], ['9']], ['5'], ['7']⟩]) =
    .ok (Table.ofRows 3 2 [⟨[['1'], ['2'], ['3']], [['8'], ['9']], ['5'], ['7']⟩]) := by decide
example : [2, 0, 1].Perm (List.range 3) ∧
    (∀ a, a < 3 → ∀ b, b < 3 → strLt (tnF a) (tnF b) = decide (b < a)) := by decide

/-- the header-driven column order: a file whose translation / angle columns are written in
another order (`x y z`, `euler_x …`) is read into the stored `z y x` order -/
theorem text_header_order :
    sortOrder [['x'], ['y'], ['z']] = [2, 1, 0] ∧ sortOrder [['z'], ['y'], ['x']] = [0, 1, 2] ∧
    sortOrder [['y'], ['x'], ['z']] = [2, 0, 1] := by decide

/-- the reader as it was before `fix: text orientation reader accepts files without data rows`:
a written table with no rows could not be read back (`np.vstack([])`) -/
theorem text_zero_rows_old_defect :
    readTextOld (writeText 3 3 []) = .error .valueError ∧
    readText (writeText 3 3 []) = .ok (Table.ofRows 3 3 []) := by
  constructor
  · decide
  · exact text_roundtrip 3 3 (by omega) (by omega) (by omega) [] (by simp)

example : RowWf 2 1 ⟨[['1','.','5'], ['2','.','0']], [['9','0','.','0']], ['0','.','5'], ['-','1','.','0']⟩ :=
  { lt := rfl, lr := rfl, toks := by decide }
example : writeText 2 1 [⟨[['1'], ['2']], [['9']], ['5'], ['7']⟩] =
    "z\ty\teuler_z\tscore\tdetail\n1\t2\t9\t5\t7\n".toList := by decide

/-! ## Dynamo table -/

/-- **Dynamo round trip** (token level): every written row comes back, in order, with the
translation restored to the stored z, y, x order (columns 26, 25, 24 ← `translation[::-1]`),
the three angle tokens of columns 7–9 and the score of column 10 -/
theorem tbl_roundtrip (sampling : Str) (hs : tokWf sampling) (rows : List TblRow) (h : ∀ r ∈ rows, TblWf r) :
    readTbl (writeTbl sampling rows) = .ok (rows.map TblRow.out) := by
  have hw : ∀ toks ∈ rows.map (TblRow.tokens sampling), rowWf toks := by
    intro toks ht
    obtain ⟨r, hr, rfl⟩ := List.mem_map.mp ht
    exact tblTokens_rowWf r sampling (h r hr) hs
  unfold readTbl writeTbl
  rw [splitOn_nl_renderLines ' ' (by decide) (by decide) _ hw]
  have hfil : (List.map (joinSep ' ') (rows.map (TblRow.tokens sampling)) ++ [[]]).filter
      (fun l => !(strip l).isEmpty) =
      List.map (joinSep ' ') (rows.map (TblRow.tokens sampling)) := by
    rw [List.filter_append, List.filter_eq_self.mpr]
    · simp [List.filter, strip, lstrip, rstrip]
    · intro l hl
      obtain ⟨toks, ht, rfl⟩ := List.mem_map.mp hl
      have hwf := hw toks ht
      rw [strip_joinSep ' ' toks hwf]
      cases toks with
      | nil => exact absurd rfl hwf.1
      | cons t ts =>
        have := joinSep_ne_nil ' ' t ts (hwf.2 t (by simp)).1
        cases hj : joinSep ' ' (t :: ts) with
        | nil => exact absurd hj this
        | cons => rfl
  have hmap : (List.map (joinSep ' ') (rows.map (TblRow.tokens sampling))).map
      (fun l => splitOn ' ' (strip l)) = rows.map (TblRow.tokens sampling) := by
    rw [List.map_map]
    conv => rhs; rw [← List.map_id (rows.map _)]
    apply List.map_congr_left
    intro toks ht
    exact splitOn_joinSep ' ' (by decide) toks (hw toks ht)
  simp only [hfil, hmap]
  cases rows with
  | nil => rfl
  | cons r rs =>
    simp only [List.map_cons]
    have h38 := (readTblRow_written r sampling (h r (by simp))).2
    simp only [h38, bne_self_eq_false, Bool.false_eq_true, if_false]
    rw [← List.map_cons (f := TblRow.tokens sampling), List.mapM_map,
      mapM_ok (readTblRow ∘ TblRow.tokens sampling) TblRow.out (r :: rs) (fun x hx => (readTblRow_written x sampling (h x hx)).1)]
    rfl

/-- the same for every value of the writer's further keyword arguments `name_prefix` and `subtomogram_size`
(accepted, never written): the table and what is read back do not depend on them -/
theorem tbl_roundtrip_opts (namePrefix size : Option Str) (sampling : Str) (hs : tokWf sampling) (rows : List TblRow)
    (h : ∀ r ∈ rows, TblWf r) :
    writeTblOpts namePrefix sampling size rows = writeTbl sampling rows ∧
    readTbl (writeTblOpts namePrefix sampling size rows) = .ok (rows.map TblRow.out) :=
  ⟨rfl, tbl_roundtrip sampling hs rows h⟩

/-- number of entries and order of the Dynamo round trip: one output row per written row, the i-th one carrying the
i-th row's translation (stored z, y, x order), angle tokens and score -/
theorem tbl_roundtrip_count (namePrefix size : Option Str) (sampling : Str) (hs : tokWf sampling) (rows : List TblRow)
    (h : ∀ r ∈ rows, TblWf r) :
    ∃ out, readTbl (writeTblOpts namePrefix sampling size rows) = .ok out ∧ out.length = rows.length ∧
      ∀ i (hi : i < rows.length), out[i]? = some ⟨rows[i].trans, rows[i].ang, rows[i].score⟩ := by
  refine ⟨_, (tbl_roundtrip_opts namePrefix size sampling hs rows h).2, by simp, ?_⟩
  intro i hi
  simp [hi, TblRow.out]

example : TblWf ⟨['0'], [['1','0','.','5'], ['9','0','.','0'], ['0','.','0']], [['1','.','5'], ['2','.','5'], ['3','.','5']], ['0','.','9']⟩ :=
  { ang := rfl, trans := rfl, toks := by decide }
example : (readTbl (writeTblOpts (some ['s','u','b']) ['1','.','0'] (some ['1','6'])
      [⟨['0'], [['7'], ['8'], ['9']], [['1'], ['2'], ['3']], ['5']⟩])) =
    .ok [⟨[['1'], ['2'], ['3']], [['7'], ['8'], ['9']], ['5']⟩] := by decide
example : (readTbl (writeTbl ['1','.','0'] [⟨['0'], [['7'], ['8'], ['9']], [['1'], ['2'], ['3']], ['5']⟩])) =
    .ok [⟨[['1'], ['2'], ['3']], [['7'], ['8'], ['9']], ['5']⟩] := by decide

/-! ## RELION STAR

Full statement, proved below for every number of rows, every well-formed token list and every combination of
the optional arguments (`name` none / one string / a list, `ctf_image` none / given), for both ways the reader
is called (`delimiter=None`, `delimiter="\t"`):

    writeStar size sampling name ctf rows >>= readStar delim =
      .ok ⟨[rows.map z, rows.map y, rows.map x], [rows.map rot, rows.map tilt, rows.map psi]⟩

The proof evaluates the fixed header lines through the parser's state machine (`parseFold`) symbolically
(`parseStar_written` in Proofs/C11Star.lean: optics category flushed when `data_particles` opens, every `_rln…`
line adding its key, the particle lines appended to the block), shows that the final dictionary pairs the column
names in file order with the columns of the block (`buildDict_nodup`, `flush_columns`), and discharges the six
look-ups `_rlnCoordinateZ/Y/X`, `_rlnAngleRot/Tilt/Psi` for all six header layouts (`pcols_idx`).
What stays with the correspondence check (Leg B): that the model's writer / parser are the code's (bytes and
tokens compared on every run), numpy's printing / parsing of the numbers and scipy's Euler conversion. -/

/-- **STAR round trip** (`delimiter=None`): for every particle list (0..N rows) of well-formed tokens, every
`name` argument (absent, one token, one token per particle) and `ctf_image` (absent or a token), the writer
succeeds and the reader gives back the coordinate columns in the stored z, y, x order and the three angle
columns, one entry per particle in file order -/
theorem star_roundtrip (size sampling : Str) (name : NameArg) (ctf : Option Str) (rows : List StarRow)
    (hsz : tokWf size) (hsa : tokWf sampling) (hn : NameOk name rows.length) (hc : ∀ s, ctf = some s → tokWf s)
    (hr : ∀ r ∈ rows, StarWf r) :
    (writeStar size sampling name ctf rows).bind (readStar none) = .ok (StarOut.ofRows rows) := by
  obtain ⟨text, hw, hrd, _⟩ := star_written_read none (Or.inl rfl) size sampling name ctf rows hsz hsa hn hc hr
  rw [hw]; exact hrd

/-- the same with `delimiter="\t"` (how RELION files are usually read) -/
theorem star_roundtrip_tab (size sampling : Str) (name : NameArg) (ctf : Option Str) (rows : List StarRow)
    (hsz : tokWf size) (hsa : tokWf sampling) (hn : NameOk name rows.length) (hc : ∀ s, ctf = some s → tokWf s)
    (hr : ∀ r ∈ rows, StarWf r) :
    (writeStar size sampling name ctf rows).bind (readStar (some '\t')) = .ok (StarOut.ofRows rows) := by
  obtain ⟨text, hw, hrd, _⟩ := star_written_read (some '\t') (Or.inr rfl) size sampling name ctf rows hsz hsa hn hc hr
  rw [hw]; exact hrd

/-- in the form "whatever text the writer returned": writing succeeds, and every text it can return reads back -/
theorem star_roundtrip_text (size sampling : Str) (name : NameArg) (ctf : Option Str) (rows : List StarRow)
    (hsz : tokWf size) (hsa : tokWf sampling) (hn : NameOk name rows.length) (hc : ∀ s, ctf = some s → tokWf s)
    (hr : ∀ r ∈ rows, StarWf r) :
    (∃ text, writeStar size sampling name ctf rows = .ok text) ∧
    ∀ text, writeStar size sampling name ctf rows = .ok text →
      readStar none text = .ok (StarOut.ofRows rows) ∧ readStar (some '\t') text = .ok (StarOut.ofRows rows) := by
  obtain ⟨t1, hw1, hr1, _⟩ := star_written_read none (Or.inl rfl) size sampling name ctf rows hsz hsa hn hc hr
  obtain ⟨t2, hw2, hr2, _⟩ := star_written_read (some '\t') (Or.inr rfl) size sampling name ctf rows hsz hsa hn hc hr
  refine ⟨⟨t1, hw1⟩, ?_⟩
  intro text ht
  rw [ht] at hw1 hw2
  injection hw1 with hw1; injection hw2 with hw2
  subst hw1; subst hw2
  exact ⟨hr1, hr2⟩

/-- the whole `data_particles` dictionary of a written file: exactly the column names of the header in file
order (7, 8 or 9 of them, depending on `name` / `ctf_image`), each with one entry per particle -/
theorem star_particles_dict (size sampling : Str) (name : NameArg) (ctf : Option Str) (rows : List StarRow)
    (hsz : tokWf size) (hsa : tokWf sampling) (hn : NameOk name rows.length) (hc : ∀ s, ctf = some s → tokWf s)
    (hr : ∀ r ∈ rows, StarWf r) :
    ∃ text cols, writeStar size sampling name ctf rows = .ok text ∧
      particles none text = .ok ((pcols name ctf).zip cols) ∧ cols.length = (pcols name ctf).length ∧
      ∀ c ∈ cols, c.length = rows.length := by
  obtain ⟨text, hw, _, cols, hl, hc', hp⟩ := star_written_read none (Or.inl rfl) size sampling name ctf rows hsz hsa hn hc hr
  exact ⟨text, cols, hw, hp, by rw [hl, pcols_length], hc'⟩

/-- number of entries and order: what is read back has one entry per written particle in every column, and the
i-th entries are the i-th particle's coordinates (stored z, y, x order) and angles -/
theorem star_roundtrip_entries (rows : List StarRow) (hr : ∀ r ∈ rows, StarWf r) :
    (∀ c ∈ (StarOut.ofRows rows).trans ++ (StarOut.ofRows rows).ang, c.length = rows.length) ∧
    ∀ i (hi : i < rows.length), (StarOut.ofRows rows).trans.map (fun c => c.getD i []) = rows[i].trans ∧
      (StarOut.ofRows rows).ang.map (fun c => c.getD i []) = rows[i].ang := by
  refine ⟨by simp [StarOut.ofRows], ?_⟩
  intro i hi
  obtain ⟨ht, ha, _, _⟩ := hr rows[i] (List.getElem_mem hi)
  simp only [StarOut.ofRows, List.map_cons, List.map_nil, List.getD_eq_getElem?_getD, List.getElem?_map,
    List.getElem?_eq_getElem hi, Option.map_some, Option.getD_some]
  generalize rows[i] = r at ht ha ⊢
  obtain ⟨trans, ang⟩ := r
  simp only at ht ha
  match trans, ht, ang, ha with
  | [z, y, x], _, [a, b, c], _ => exact ⟨rfl, rfl⟩

/-- a `name` list shorter than the particle list is the writer's `IndexError`, not a damaged file -/
theorem star_name_list_too_short :
    writeStar ['0'] ['1','.','0'] (.many [['a']]) none
      [⟨[['1'],['2'],['3']], [['7'],['8'],['9']]⟩, ⟨[['4'],['5'],['6']], [['7'],['8'],['9']]⟩] = .error .indexError := by
  decide

/-- (corollary, kept from the partial result) every written particle line (tab-joined whitespace-free tokens, not
starting like a keyword) is split back into its tokens and appended to the block, order preserved, header state
untouched -/
theorem star_rows_partial (ret : Cats) (cat : Option Str) (blk : List (List Str)) (rows : List (List Str))
    (hw : ∀ toks ∈ rows, rowWf toks) (hl : ∀ toks ∈ rows, isDataLine (joinSep '\t' toks) = true) :
    parseFold none ⟨ret, cat, blk⟩ (rows.map (joinSep '\t')) = .ok ⟨ret, cat, blk ++ rows⟩ := by
  rw [parseFold_data ret cat blk _ (by
    intro l hm
    obtain ⟨toks, ht, rfl⟩ := List.mem_map.mp hm
    exact hl toks ht)]
  rw [List.map_map]
  have : rows.map (splitWs ∘ joinSep '\t') = rows.map id :=
    List.map_congr_left (fun toks ht => splitWs_joinSep '\t' (by decide) toks (hw toks ht))
  rw [this, List.map_id]

/-- (corollary, kept from the partial result) the columns of a rectangular block are the per-row projections,
rows in file order -/
theorem star_columns_partial (block : List (List Str)) (m : Nat) (hne : block ≠ [])
    (h : ∀ r ∈ block, r.length = m) :
    transpose block = (List.range m).map (fun j => block.map (fun r => r.getD j [])) :=
  transpose_uniform block m hne h

example : StarWf ⟨[['1','.','5'], ['-','2','.','0'], ['n','a','n']], [['9','0','.','0'], ['0','.','0'], ['-','4','5','.','5']]⟩ :=
  { trans := rfl, ang := rfl, toks := by decide, first := by decide }
example : NameOk (.many [['a','.','m','r','c'], ['b','.','m','r','c'], ['c']]) 2 := by
  intro k hk
  match k, hk with
  | 0, _ => exact ⟨_, rfl, by decide⟩
  | 1, _ => exact ⟨_, rfl, by decide⟩
example : NameOk (.single ['d','a','t','a','_','t','.','m','r','c']) 5 := by
  show tokWf _; decide
example : NameOk .none 3 := trivial
example : ∀ s, (some ['#','c','t','f'] : Option Str) = some s → tokWf s := by
  intro s hs; cases hs; decide
/-- all hypotheses of `star_roundtrip` together, on a two-particle file with per-particle names and a ctf image -/
example : (writeStar ['3','2'] ['2','.','5'] (.many [['a','.','m','r','c'], ['_','b']]) (some ['#','c'])
      [⟨[['1','.','5'],['2'],['i','n','f']], [['7'],['8'],['9']]⟩, ⟨[['4'],['5'],['-','6','e','-','0','5']], [['1','0'],['2','0'],['3','0']]⟩]).bind
      (readStar none) =
    .ok ⟨[[['1','.','5'],['4']], [['2'],['5']], [['i','n','f'],['-','6','e','-','0','5']]],
         [[['7'],['1','0']], [['8'],['2','0']], [['9'],['3','0']]]⟩ := by
  refine star_roundtrip _ _ _ _ _ (by decide) (by decide) ?_ (by intro s hs; cases hs; decide) ?_
  · intro k hk
    match k, hk with
    | 0, _ => exact ⟨_, rfl, by decide⟩
    | 1, _ => exact ⟨_, rfl, by decide⟩
  · intro r hr
    simp only [List.mem_cons, List.mem_nil_iff, or_false] at hr
    rcases hr with rfl | rfl
    · exact { trans := rfl, ang := rfl, toks := by decide, first := by decide }
    · exact { trans := rfl, ang := rfl, toks := by decide, first := by decide }
example : isDataLine (joinSep '\t' [['3','.','5'], ['2'], ['1'], ['9','0'], ['0'], ['0'], ['1']]) = true := by decide
example : (match writeStar ['0'] ['1','.','0'] .none none
      [⟨[['1'],['2'],['3']], [['7'],['8'],['9']]⟩, ⟨[['4'],['5'],['6']], [['1','0'],['2','0'],['3','0']]⟩] with
    | .ok t => readStar none t | .error e => .error e) =
    .ok ⟨[[['1'],['4']], [['2'],['5']], [['3'],['6']]], [[['7'],['1','0']], [['8'],['2','0']], [['9'],['3','0']]]⟩ := by decide
example : (match writeStar ['0'] ['1','.','0'] (.single ['t','.','m','r','c']) (some ['w'])
      [⟨[['1'],['2'],['3']], [['7'],['8'],['9']]⟩] with
    | .ok t => readStar none t | .error e => .error e) = .ok ⟨[[['1']], [['2']], [['3']]], [[['7']], [['8']], [['9']]]⟩ := by decide
example : (match writeStar ['0'] ['1','.','0'] .none none [] with
    | .ok t => readStar none t | .error e => .error e) = .ok ⟨[[], [], []], [[], [], []]⟩ := by decide
example : StarOut.ofRows [⟨[['1'],['2'],['3']], [['7'],['8'],['9']]⟩, ⟨[['4'],['5'],['6']], [['1','0'],['2','0'],['3','0']]⟩] =
    ⟨[[['1'],['4']], [['2'],['5']], [['3'],['6']]], [[['7'],['1','0']], [['8'],['2','0']], [['9'],['3','0']]]⟩ := by decide

/-! ## index-based subsetting -/

/-- **integer selection** returns exactly the selected rows: one output row per index, the k-th
being the source row at the k-th index (negative indices counted from the end) -/
theorem subset_rows_idx {α : Type} (l : List α) (idx : List Int) (out : List α) (h : takeIdx l idx = .ok out) :
    out.length = idx.length ∧
    ∀ k (hk : k < idx.length), ∃ j, j < l.length ∧ out[k]? = l[j]? ∧
      ((0 ≤ idx[k] ∧ (j : Int) = idx[k]) ∨ (idx[k] < 0 ∧ (j : Int) = idx[k] + l.length)) := by
  obtain ⟨h1, h2⟩ := takeIdx_spec l idx out h
  refine ⟨h1, ?_⟩
  intro k hk
  obtain ⟨j, hj, hlt, ho⟩ := h2 k hk
  exact ⟨j, hlt, ho, (normIndex_spec _ _ _ hj).2⟩

/-- … and succeeds for every index list within `[-n, n)` -/
theorem subset_rows_idx_total {α : Type} (l : List α) (idx : List Int)
    (h : ∀ i ∈ idx, -(l.length : Int) ≤ i ∧ i < l.length) : ∃ out, takeIdx l idx = .ok out :=
  takeIdx_ok l idx h

/-- **boolean selection** returns exactly the rows whose mask entry is true, in source order -/
theorem subset_rows_mask {α : Type} (l : List α) (mask : List Bool) (h : mask.length = l.length) :
    takeMask l mask = .ok (((l.zip mask).filter (·.2)).map (·.1)) ∧ (maskSel l mask).Sublist l :=
  ⟨takeMask_spec l mask h, maskSel_sublist l mask⟩

/-- the four arrays stay aligned: row `k` of every array of the subset comes from the same source row -/
theorem subset_aligned {τ ρ σ δ : Type} (o o' : Orient τ ρ σ δ) (idx : List Int)
    (hr : o.rotations.length = o.translations.length) (hs : o.scores.length = o.translations.length)
    (hd : o.details.length = o.translations.length) (h : o.getIdx idx = .ok o') :
    ∀ k (hk : k < idx.length), ∃ j, j < o.translations.length ∧ o'.translations[k]? = o.translations[j]? ∧
      o'.rotations[k]? = o.rotations[j]? ∧ o'.scores[k]? = o.scores[j]? ∧ o'.details[k]? = o.details[j]? := by
  unfold Orient.getIdx at h
  cases h1 : takeIdx o.translations idx with
  | error e => rw [h1] at h; cases h
  | ok a =>
    cases h2 : takeIdx o.rotations idx with
    | error e => rw [h1, h2] at h; cases h
    | ok b =>
      cases h3 : takeIdx o.scores idx with
      | error e => rw [h1, h2, h3] at h; cases h
      | ok c =>
        cases h4 : takeIdx o.details idx with
        | error e => rw [h1, h2, h3, h4] at h; cases h
        | ok d =>
          rw [h1, h2, h3, h4] at h
          injection h with h
          subst h
          intro k hk
          obtain ⟨j1, n1, l1, e1⟩ := (takeIdx_spec _ _ _ h1).2 k hk
          obtain ⟨j2, n2, _, e2⟩ := (takeIdx_spec _ _ _ h2).2 k hk
          obtain ⟨j3, n3, _, e3⟩ := (takeIdx_spec _ _ _ h3).2 k hk
          obtain ⟨j4, n4, _, e4⟩ := (takeIdx_spec _ _ _ h4).2 k hk
          rw [hr] at n2; rw [hs] at n3; rw [hd] at n4
          have a2 : j2 = j1 := by rw [n1] at n2; injection n2 with n2; exact n2.symm
          have a3 : j3 = j1 := by rw [n1] at n3; injection n3 with n3; exact n3.symm
          have a4 : j4 = j1 := by rw [n1] at n4; injection n4 with n4; exact n4.symm
          rw [a2] at e2; rw [a3] at e3; rw [a4] at e4
          exact ⟨j1, l1, e1, e2, e3, e4⟩

example : takeIdx [10, 20, 30, 40] [-1, 0, 2, 2] = .ok [40, 10, 30, 30] := by decide
example : takeIdx [10, 20, 30] [3] = .error .indexError := by decide
example : takeMask [10, 20, 30] [true, false, true] = .ok [10, 30] := by decide

/-! ## `get_extraction_slices` end to end: every pick, every axis, both `drop_out_of_box` settings -/

/-- **which entries are returned**: entry `(i, w)` is in the result exactly when pick `i` exists, passes the filter
(no filter without `drop_out_of_box`) and `w` is its list of per-axis windows -/
theorem extraction_entry_iff (T e : List Nat) (peaks : List (List Int)) (drop : Bool) (i : Nat)
    (w : List (Int × Int × Int × Int)) :
    (i, w) ∈ extraction T e peaks drop ↔
      ∃ p, peaks[i]? = some p ∧ (drop = false ∨ keepPick T e p = true) ∧ w = windowAxes T e p :=
  mem_extraction T e peaks drop i w

/-- **rows and slices stay together**: the positions returned are the ones numpy's `self[keep_peaks]` selects from
`0..n-1` (that selection succeeds: the mask has one entry per pick), the slices are those of the same picks in the
same order, and the positions are strictly increasing (source order, no pick twice) -/
theorem extraction_rows (T e : List Nat) (peaks : List (List Int)) (drop : Bool) :
    takeMask (List.range peaks.length) (keepMask T e peaks drop) = .ok ((extraction T e peaks drop).map (·.1)) ∧
    (extraction T e peaks drop).map (·.2) = (maskSel peaks (keepMask T e peaks drop)).map (windowAxes T e) ∧
    ((extraction T e peaks drop).map (·.1)).Pairwise (· < ·) := by
  have h1 : (extraction T e peaks drop).map (·.1) = maskSel (List.range peaks.length) (keepMask T e peaks drop) := by
    rw [extraction_eq, List.range_eq_range']; exact exStep_fst T e drop peaks 0
  have h2 : (extraction T e peaks drop).map (·.2) = (maskSel peaks (keepMask T e peaks drop)).map (windowAxes T e) := by
    rw [extraction_eq, List.range_eq_range']; exact exStep_snd T e drop peaks 0
  refine ⟨?_, h2, ?_⟩
  · rw [h1]; unfold takeMask; simp [keepMask, pure, Except.pure]
  · rw [h1]; exact List.Pairwise.sublist (maskSel_sublist _ _) List.pairwise_lt_range

/-- the orientation set returned next to the slices (`subset = self[keep_peaks]`): all four arrays are cut with the
same mask, so its `k`-th row belongs to the `k`-th pair of slices -/
theorem extraction_subset {τ ρ σ δ : Type} (o : Orient τ ρ σ δ) (T e : List Nat) (peaks : List (List Int)) (drop : Bool)
    (ht : o.translations.length = peaks.length) (hr : o.rotations.length = peaks.length)
    (hs : o.scores.length = peaks.length) (hd : o.details.length = peaks.length) :
    extractionSubset o T e peaks drop =
      .ok ⟨maskSel o.translations (keepMask T e peaks drop), maskSel o.rotations (keepMask T e peaks drop),
           maskSel o.scores (keepMask T e peaks drop), maskSel o.details (keepMask T e peaks drop)⟩ := by
  have hm : (keepMask T e peaks drop).length = peaks.length := by simp [keepMask]
  simp [extractionSubset, Orient.getMask, takeMask, hm, ht, hr, hs, hd, bind, Except.bind, pure, Except.pure]

/-- the `k`-th row of the returned orientation set is the row of the pick the `k`-th pair of slices was computed for -/
theorem extraction_subset_aligned {τ ρ σ δ : Type} (o o' : Orient τ ρ σ δ) (T e : List Nat) (peaks : List (List Int))
    (drop : Bool) (ht : o.translations.length = peaks.length) (hr : o.rotations.length = peaks.length)
    (hs : o.scores.length = peaks.length) (hd : o.details.length = peaks.length)
    (h : extractionSubset o T e peaks drop = .ok o') (k i : Nat) (w : List (Int × Int × Int × Int))
    (hk : (extraction T e peaks drop)[k]? = some (i, w)) :
    i < peaks.length ∧ (∃ p, peaks[i]? = some p ∧ w = windowAxes T e p) ∧
    o'.translations[k]? = o.translations[i]? ∧ o'.rotations[k]? = o.rotations[i]? ∧
    o'.scores[k]? = o.scores[i]? ∧ o'.details[k]? = o.details[i]? := by
  have h1 : (extraction T e peaks drop).map (·.1) = maskSel (List.range peaks.length) (keepMask T e peaks drop) := by
    rw [extraction_eq, List.range_eq_range']; exact exStep_fst T e drop peaks 0
  have hi : ((extraction T e peaks drop).map (·.1))[k]? = some i := by simp [hk]
  rw [h1, List.range_eq_range'] at hi
  have hmem : (i, w) ∈ extraction T e peaks drop := List.mem_of_getElem? hk
  obtain ⟨p, hp, _, hw⟩ := (mem_extraction T e peaks drop i w).mp hmem
  have hlt : i < peaks.length := (List.getElem?_eq_some_iff.mp hp).1
  rw [extraction_subset o T e peaks drop ht hr hs hd] at h
  injection h with h
  subst h
  have a1 := maskSel_index o.translations (keepMask T e peaks drop) 0 k i (by rw [ht]; exact hi)
  have a2 := maskSel_index o.rotations (keepMask T e peaks drop) 0 k i (by rw [hr]; exact hi)
  have a3 := maskSel_index o.scores (keepMask T e peaks drop) 0 k i (by rw [hs]; exact hi)
  have a4 := maskSel_index o.details (keepMask T e peaks drop) 0 k i (by rw [hd]; exact hi)
  exact ⟨hlt, ⟨p, hp, hw⟩, by simpa using a1.2.2, by simpa using a2.2.2, by simpa using a3.2.2, by simpa using a4.2.2⟩
example : extractionSubset (⟨[10, 11, 12], [20, 21, 22], [30, 31, 32], [40, 41, 42]⟩ : Orient Nat Nat Nat Nat)
      [10] [4] [[5], [0], [8]] true = .ok ⟨[10, 12], [20, 22], [30, 32], [40, 42]⟩ ∧
    (extraction [10] [4] [[5], [0], [8]] true)[1]? = some (2, [(0, 4, 6, 10)]) := by decide

/-- **without `drop_out_of_box`** (the padding mode) nothing is filtered: one entry per pick, in order, and the
orientation set comes back unchanged -/
theorem extraction_no_drop {τ ρ σ δ : Type} (o : Orient τ ρ σ δ) (T e : List Nat) (peaks : List (List Int))
    (ht : o.translations.length = peaks.length) (hr : o.rotations.length = peaks.length)
    (hs : o.scores.length = peaks.length) (hd : o.details.length = peaks.length) :
    (extraction T e peaks false).map (·.1) = List.range peaks.length ∧
    (extraction T e peaks false).map (·.2) = peaks.map (windowAxes T e) ∧
    extractionSubset o T e peaks false = .ok o := by
  have hm : (keepMask T e peaks false).length = peaks.length := by simp [keepMask]
  have ha : ∀ b ∈ keepMask T e peaks false, b = true := by simp [keepMask]
  obtain ⟨h1, h2, _⟩ := extraction_rows T e peaks false
  refine ⟨?_, ?_, ?_⟩
  · have h3 := takeMask_spec (List.range peaks.length) (keepMask T e peaks false) (by simp [keepMask])
    rw [h3] at h1
    injection h1 with h1
    rw [← h1, ← maskSel_eq_filter, maskSel_all _ _ (by simp [keepMask]) ha]
  · rw [h2, maskSel_all _ _ hm ha]
  · rw [extraction_subset o T e peaks false ht hr hs hd,
      maskSel_all _ _ (hm.trans ht.symm) ha, maskSel_all _ _ (hm.trans hr.symm) ha,
      maskSel_all _ _ (hm.trans hs.symm) ha, maskSel_all _ _ (hm.trans hd.symm) ha]

/-- **every returned window, every axis, both settings**: the window of axis `k` of a returned entry is computed from
the `k`-th target extent, box extent and coordinate of that pick; candidate (destination) and observation (source)
slices have equal extents, the observation slice lies in `[0, T_k]`, the candidate slice in `[0, e_k]`, and both are
proper intervals when the coordinate lies in the target -/
theorem extraction_windows_spec (T e : List Nat) (peaks : List (List Int)) (drop : Bool) (i : Nat)
    (w : List (Int × Int × Int × Int)) (hw : (i, w) ∈ extraction T e peaks drop)
    (k : Nat) (wk : Int × Int × Int × Int) (hk : w[k]? = some wk) :
    ∃ p Tk ek pk, peaks[i]? = some p ∧ T[k]? = some Tk ∧ e[k]? = some ek ∧ p[k]? = some pk ∧
      wk = (candBeg ek pk, candEnd Tk ek pk, obsBeg ek pk, obsEnd Tk ek pk) ∧
      wk.2.1 - wk.1 = wk.2.2.2 - wk.2.2.1 ∧
      0 ≤ wk.2.2.1 ∧ wk.2.2.2 ≤ Tk ∧ 0 ≤ wk.1 ∧ wk.2.1 ≤ ek ∧
      (0 ≤ pk → pk ≤ Tk → wk.2.2.1 ≤ wk.2.2.2 ∧ wk.1 ≤ wk.2.1) := by
  obtain ⟨p, hp, _, rfl⟩ := (mem_extraction T e peaks drop i w).mp hw
  obtain ⟨Tk, ek, pk, hT, he, hpk, rfl⟩ := (windowAxes_getElem? T e p k wk).mp hk
  have a := window_extents_eq Tk ek pk
  have b := window_in_target Tk ek pk
  have c := window_in_box Tk ek pk
  exact ⟨p, Tk, ek, pk, hp, hT, he, hpk, rfl, a, b.1, b.2.1, c.1, c.2.1, fun h0 h1 => ⟨b.2.2 h0 h1, c.2.2 h0 h1⟩⟩

/-- one window per axis for every returned entry (extents and coordinates of equal rank) -/
theorem extraction_rank (T e : List Nat) (peaks : List (List Int)) (drop : Bool) (h1 : T.length = e.length)
    (h2 : ∀ p ∈ peaks, p.length = e.length) :
    ∀ iw ∈ extraction T e peaks drop, iw.2.length = T.length := by
  rintro ⟨i, w⟩ hw
  obtain ⟨p, hp, _, rfl⟩ := (mem_extraction T e peaks drop i w).mp hw
  exact windowAxes_length T e p h1 (h2 p (List.mem_of_getElem? hp)).symm

/-- **with `drop_out_of_box`**: on every axis of every returned entry the box `[p_k - ⌈e_k/2⌉, p_k + ⌊e_k/2⌋)` lies
inside the target, the observation slice is that box and the candidate slice is the whole `[0, e_k)` -/
theorem extraction_drop_spec (T e : List Nat) (peaks : List (List Int)) (i : Nat)
    (w : List (Int × Int × Int × Int)) (hw : (i, w) ∈ extraction T e peaks true)
    (k : Nat) (wk : Int × Int × Int × Int) (hk : w[k]? = some wk) :
    ∃ p Tk ek pk, peaks[i]? = some p ∧ T[k]? = some Tk ∧ e[k]? = some ek ∧ p[k]? = some pk ∧
      0 ≤ pk - leftPad ek ∧ pk + rightPad ek ≤ Tk ∧
      wk = (0, (ek : Int), pk - leftPad ek, pk + rightPad ek) := by
  obtain ⟨p, hp, hkeep, rfl⟩ := (mem_extraction T e peaks true i w).mp hw
  have hkeep : keepPick T e p = true := hkeep.resolve_left (by decide)
  obtain ⟨Tk, ek, pk, hT, he, hpk, rfl⟩ := (windowAxes_getElem? T e p k wk).mp hk
  have ha := (keepPick_iff_axes T e p).mp hkeep k Tk ek pk hT he hpk
  have hf := (keep_iff_fits Tk ek pk).mp ha
  have hwin := kept_window Tk ek pk ha
  have hfull := (kept_iff_full Tk ek pk).mp ha
  have hbox := window_in_box Tk ek pk
  refine ⟨p, Tk, ek, pk, hp, hT, he, hpk, by omega, hf.2, ?_⟩
  have c0 : candBeg ek pk = 0 := by omega
  have c1 : candEnd Tk ek pk = ek := by omega
  rw [c0, c1, hwin.1, hwin.2.1]

/-- **kept ⇔ the box lies in the target**: with `drop_out_of_box` pick `i` is returned exactly when on every axis its
box fits into the target; nothing else is dropped and nothing else is kept -/
theorem extraction_drop_iff (T e : List Nat) (peaks : List (List Int)) (i : Nat) :
    (∃ w, (i, w) ∈ extraction T e peaks true) ↔
      ∃ p, peaks[i]? = some p ∧
        ∀ (k : Nat) Tk ek pk, T[k]? = some Tk → e[k]? = some ek → p[k]? = some pk →
          leftPad ek ≤ pk ∧ pk + rightPad ek ≤ Tk := by
  constructor
  · rintro ⟨w, hw⟩
    obtain ⟨p, hp, hkeep, rfl⟩ := (mem_extraction T e peaks true i w).mp hw
    have hkeep : keepPick T e p = true := hkeep.resolve_left (by decide)
    refine ⟨p, hp, ?_⟩
    intro k Tk ek pk hT he hpk
    exact (keep_iff_fits Tk ek pk).mp ((keepPick_iff_axes T e p).mp hkeep k Tk ek pk hT he hpk)
  · rintro ⟨p, hp, h⟩
    refine ⟨windowAxes T e p, (mem_extraction T e peaks true i _).mpr ⟨p, hp, Or.inr ?_, rfl⟩⟩
    rw [keepPick_iff_axes]
    intro k Tk ek pk hT he hpk
    exact (keep_iff_fits Tk ek pk).mpr (h k Tk ek pk hT he hpk)

/-- the axis-wise reading of the n-D functions used above (no rank hypotheses: `zip` stops at the shortest list) -/
theorem windowAxes_axis (T e : List Nat) (p : List Int) (k : Nat) (w : Int × Int × Int × Int) :
    (windowAxes T e p)[k]? = some w ↔
      ∃ Tk ek pk, T[k]? = some Tk ∧ e[k]? = some ek ∧ p[k]? = some pk ∧
        w = (candBeg ek pk, candEnd Tk ek pk, obsBeg ek pk, obsEnd Tk ek pk) :=
  windowAxes_getElem? T e p k w

theorem keepPick_axes (T e : List Nat) (p : List Int) :
    keepPick T e p = true ↔
      ∀ (k : Nat) Tk ek pk, T[k]? = some Tk → e[k]? = some ek → p[k]? = some pk → keepAxis Tk ek pk = true :=
  keepPick_iff_axes T e p

/-- 2-D, four picks (interior, on the lower border, outside the target, on the upper border), even and odd box extents:
padding mode returns all four, `drop_out_of_box` exactly the interior one with full windows -/
example : extraction [10, 9] [4, 5] [[5, 5], [0, 4], [-3, 20], [9, 8]] false =
    [(0, [(0, 4, 3, 7), (0, 5, 2, 7)]), (1, [(2, 4, 0, 2), (0, 5, 1, 6)]),
     (2, [(5, 4, 0, -1), (0, -8, 17, 9)]), (3, [(0, 3, 7, 10), (0, 4, 5, 9)])] := by decide
example : extraction [10, 9] [4, 5] [[5, 5], [0, 4], [-3, 20], [9, 8]] true = [(0, [(0, 4, 3, 7), (0, 5, 2, 7)])] := by decide
example : keepMask [10, 9] [4, 5] [[5, 5], [0, 4], [-3, 20], [9, 8]] true = [true, false, false, false] := by decide
example : (0, [(0, 4, 3, 7), (0, 5, 2, 7)]) ∈ extraction [10, 9] [4, 5] [[5, 5], [0, 4]] true := by decide
/-- 3-D, box larger than the target on one axis: every pick is dropped; 0 picks: nothing to return -/
example : extraction [6, 6, 6] [3, 8, 2] [[3, 3, 3], [2, 4, 1]] true = [] ∧ extraction [6, 6] [3, 3] [] false = [] := by decide
example : extractionSubset (⟨[10, 11, 12], [20, 21, 22], [30, 31, 32], [40, 41, 42]⟩ : Orient Nat Nat Nat Nat)
    [10] [4] [[5], [0], [8]] true = .ok ⟨[10, 12], [20, 22], [30, 32], [40, 42]⟩ := by decide
example : (extraction [10, 9] [4, 5] [[5, 5], [0, 4], [5, 4]] true).map (·.1) = [0, 2] := by decide
/-- the rank hypotheses of `extraction_rank` on a 2-D case -/
example : [10, 9].length = [4, 5].length ∧ ∀ p ∈ [[5, 5], [0, 4], [5, 4]], p.length = [4, 5].length := by decide
/-- `extraction_drop_iff` read on a concrete pick: `[5, 4]` (position 2) fits on both axes, hence is returned -/
example : ∃ w, (2, w) ∈ extraction [10, 9] [4, 5] [[5, 5], [0, 4], [5, 4]] true := by
  rw [extraction_drop_iff]
  refine ⟨[5, 4], rfl, ?_⟩
  intro k Tk ek pk hT he hp
  match k, hT, he, hp with
  | 0, hT, he, hp => cases hT; cases he; cases hp; decide
  | 1, hT, he, hp => cases hT; cases he; cases hp; decide
  | k + 2, hT, _, _ => simp at hT

/-! ## from stored translations to picks (`self.translations.astype(int)`) -/

/-- **truncation towards zero**: for a finite coordinate `x = m·2^e` the pick is `x` itself when `x` is an integer
(`e ≥ 0`), otherwise the integer next to `x` in the direction of zero (`q = 2^(-e)`: `p·q ≤ m < (p+1)·q` for `x ≥ 0`,
`(p-1)·q < m ≤ p·q` for `x ≤ 0`) -/
theorem truncPick_spec (m e : Int) :
    (0 ≤ e → truncPick m e = m * 2 ^ e.toNat) ∧
    (e < 0 →
      (0 ≤ m → truncPick m e * 2 ^ (-e).toNat ≤ m ∧ m < (truncPick m e + 1) * 2 ^ (-e).toNat) ∧
      (m ≤ 0 → (truncPick m e - 1) * 2 ^ (-e).toNat < m ∧ m ≤ truncPick m e * 2 ^ (-e).toNat)) := by
  refine ⟨fun h => by simp [truncPick, h], ?_⟩
  intro he
  have hq : (0 : Int) < 2 ^ (-e).toNat := by positivity
  have hb := tdiv_bounds m (2 ^ (-e).toNat) hq
  have hd : truncPick m e = Int.tdiv m (2 ^ (-e).toNat) := by simp [truncPick, Int.not_le.mpr he]
  rw [hd]
  exact ⟨fun h => ⟨(hb.1 h).1, (hb.1 h).2.1⟩, fun h => ⟨(hb.2 h).1, (hb.2 h).2.1⟩⟩

/-- a coordinate inside the target (`0 ≤ x ≤ T`, any fractional part) gives a pick inside the target -/
theorem truncPick_in_target (T : Nat) (m e : Int) (h0 : 0 ≤ m)
    (hT : if 0 ≤ e then m * 2 ^ e.toNat ≤ T else m ≤ T * 2 ^ (-e).toNat) :
    0 ≤ truncPick m e ∧ truncPick m e ≤ T := by
  by_cases he : 0 ≤ e
  · rw [if_pos he] at hT
    have hq : (0 : Int) < 2 ^ e.toNat := by positivity
    simp only [truncPick, if_pos he]
    exact ⟨Int.mul_nonneg h0 (Int.le_of_lt hq), hT⟩
  · rw [if_neg he] at hT
    have hq : (0 : Int) < 2 ^ (-e).toNat := by positivity
    have hb := (tdiv_bounds m (2 ^ (-e).toNat) hq).1 h0
    simp only [truncPick, if_neg he]
    exact ⟨hb.2.2, Int.le_of_mul_le_mul_right (Int.le_trans hb.1 hT) hq⟩

/-- … so both of its windows are proper (possibly empty) intervals on that axis, whatever the box extent -/
theorem window_of_translation (T b : Nat) (m e : Int) (h0 : 0 ≤ m)
    (hT : if 0 ≤ e then m * 2 ^ e.toNat ≤ T else m ≤ T * 2 ^ (-e).toNat) :
    obsBeg b (truncPick m e) ≤ obsEnd T b (truncPick m e) ∧ candBeg b (truncPick m e) ≤ candEnd T b (truncPick m e) := by
  obtain ⟨h1, h2⟩ := truncPick_in_target T m e h0 hT
  exact ⟨(window_in_target T b _).2.2 h1 h2, (window_in_box T b _).2.2 h1 h2⟩

/-- 2.75 = 11·2⁻², -2.75, 12 = 3·2², -0.5: picks 2, -2, 12, 0 -/
example : truncPeaks [[(11, -2), (-11, -2)], [(3, 2), (-1, -1)]] = [[2, -2], [12, 0]] := by decide
example : (if (0 : Int) ≤ -2 then (11 : Int) * 2 ^ (-2 : Int).toNat ≤ (3 : Nat) else (11 : Int) ≤ (3 : Nat) * 2 ^ (-(-2 : Int)).toNat) := by decide

/-! ## `copy`, `__iter__` -/

/-- `copy()` (= `self[np.arange(n)]`) succeeds and returns every row of all four arrays, in order -/
theorem copy_identity {τ ρ σ δ : Type} (o : Orient τ ρ σ δ)
    (ht : o.translations.length = o.scores.length) (hr : o.rotations.length = o.scores.length)
    (hd : o.details.length = o.scores.length) : o.copy = .ok o := by
  unfold Orient.copy Orient.getIdx
  have h1 := takeIdx_arange o.translations
  have h2 := takeIdx_arange o.rotations
  have h3 := takeIdx_arange o.scores
  have h4 := takeIdx_arange o.details
  rw [ht] at h1; rw [hr] at h2; rw [hd] at h4
  rw [h1, h2, h3, h4]
  rfl

/-- selecting `0, 1, …, n-1` from any array of length `n` is the identity -/
theorem subset_arange {α : Type} (l : List α) : takeIdx l (arange l.length) = .ok l := takeIdx_arange l

/-- iteration yields one tuple per orientation, the `k`-th made of the `k`-th entries of the four arrays -/
theorem iter_rows {τ ρ σ δ : Type} (o : Orient τ ρ σ δ)
    (hr : o.rotations.length = o.translations.length) (hs : o.scores.length = o.translations.length)
    (hd : o.details.length = o.translations.length) :
    o.iterRows.length = o.translations.length ∧
    ∀ k (hk : k < o.translations.length),
      o.iterRows[k]? = some (o.translations[k], o.rotations[k]'(hr ▸ hk), o.scores[k]'(hs ▸ hk), o.details[k]'(hd ▸ hk)) := by
  refine ⟨by simp [Orient.iterRows, hr, hs, hd], ?_⟩
  intro k hk
  have h2 : k < o.rotations.length := hr ▸ hk
  have h3 : k < o.scores.length := hs ▸ hk
  have h4 : k < o.details.length := hd ▸ hk
  simp [Orient.iterRows, hk, h2, h3, h4]

example : (⟨[1, 2, 3], [4, 5, 6], [7, 8, 9], [0, 0, 1]⟩ : Orient Nat Nat Nat Nat).copy = .ok ⟨[1, 2, 3], [4, 5, 6], [7, 8, 9], [0, 0, 1]⟩ := by
  decide
example : (⟨[1, 2], [4, 5], [7, 8], [0, 1]⟩ : Orient Nat Nat Nat Nat).iterRows = [(1, 4, 7, 0), (2, 5, 8, 1)] := by decide
example : takeIdx ['a', 'b', 'c'] (arange 3) = .ok ['a', 'b', 'c'] := by decide

/-! ## constructor validation (`__post_init__`), and why `__getitem__` / `copy` never trip it -/

/-- **accepted shapes**: the constructor accepts exactly the sets whose four arrays have at least one axis and the same
number of rows, with 2-D translations and 2-D rotations (the rank of scores / details beyond the first axis is not
examined by the code) -/
theorem postInit_ok_iff (t r s d : List Nat) :
    postInit t r s d = .ok () ↔
      ∃ n dt dr ss ds, t = [n, dt] ∧ r = [n, dr] ∧ s = n :: ss ∧ d = n :: ds := by
  constructor
  · intro h
    unfold postInit at h
    split at h
    · rename_i nt t' nr r' ns s' nd d'
      split at h
      · cases h
      · rename_i h1
        split at h
        · cases h
        · rename_i h2
          split at h
          · cases h
          · rename_i h3
            simp at h1 h2 h3
            obtain ⟨⟨rfl, rfl⟩, rfl⟩ := h1
            obtain ⟨dt, rfl⟩ := List.length_eq_one_iff.mp h2
            obtain ⟨dr, rfl⟩ := List.length_eq_one_iff.mp h3
            exact ⟨_, dt, dr, s', d', rfl, rfl, rfl, rfl⟩
    · cases h
  · rintro ⟨n, dt, dr, ss, ds, rfl, rfl, rfl, rfl⟩
    simp [postInit, pure, Except.pure]

/-- **which error**: a 0-d array among the four is an `IndexError` (whatever the others are); otherwise every
rejected set is a `ValueError` -/
theorem postInit_error_kind (t r s d : List Nat) :
    ((t = [] ∨ r = [] ∨ s = [] ∨ d = []) → postInit t r s d = .error .indexError) ∧
    (t ≠ [] → r ≠ [] → s ≠ [] → d ≠ [] → postInit t r s d = .ok () ∨ postInit t r s d = .error .valueError) := by
  constructor
  · intro h
    unfold postInit
    split
    · rename_i nt t' nr r' ns s' nd d'
      simp at h
    · rfl
  · intro ht hr hs hd
    match t, r, s, d, ht, hr, hs, hd with
    | nt :: t', nr :: r', ns :: s', nd :: d', _, _, _, _ =>
      unfold postInit
      simp only
      split
      · exact Or.inr rfl
      · split
        · exact Or.inr rfl
        · split
          · exact Or.inr rfl
          · exact Or.inl rfl

/-- **`__getitem__` re-validates and passes**: whatever integer selection succeeds on a validated set, the four
selected arrays all have one row per index, hence `self.__class__(**kwargs)` accepts them (`dt`, `dr` = column counts) -/
theorem getitem_idx_valid {τ ρ σ δ : Type} (o o' : Orient τ ρ σ δ) (idx : List Int) (dt dr : Nat)
    (h : o.getIdx idx = .ok o') :
    o'.translations.length = idx.length ∧ o'.rotations.length = idx.length ∧ o'.scores.length = idx.length ∧
    o'.details.length = idx.length ∧
    postInit [o'.translations.length, dt] [o'.rotations.length, dr] [o'.scores.length] [o'.details.length] = .ok () := by
  unfold Orient.getIdx at h
  cases h1 : takeIdx o.translations idx with
  | error e => rw [h1] at h; cases h
  | ok a =>
    cases h2 : takeIdx o.rotations idx with
    | error e => rw [h1, h2] at h; cases h
    | ok b =>
      cases h3 : takeIdx o.scores idx with
      | error e => rw [h1, h2, h3] at h; cases h
      | ok c =>
        cases h4 : takeIdx o.details idx with
        | error e => rw [h1, h2, h3, h4] at h; cases h
        | ok d =>
          rw [h1, h2, h3, h4] at h
          injection h with h
          subst h
          have l1 := (takeIdx_spec _ _ _ h1).1
          have l2 := (takeIdx_spec _ _ _ h2).1
          have l3 := (takeIdx_spec _ _ _ h3).1
          have l4 := (takeIdx_spec _ _ _ h4).1
          refine ⟨l1, l2, l3, l4, ?_⟩
          simp only [l1, l2, l3, l4]
          exact (postInit_ok_iff _ _ _ _).mpr ⟨_, _, _, _, _, rfl, rfl, rfl, rfl⟩

/-- the same for a boolean selection of a validated set (one mask entry per row): every array keeps one row per
true entry, so the new set is accepted -/
theorem getitem_mask_valid {τ ρ σ δ : Type} (o : Orient τ ρ σ δ) (m : List Bool) (dt dr : Nat)
    (ht : o.translations.length = m.length) (hr : o.rotations.length = m.length)
    (hs : o.scores.length = m.length) (hd : o.details.length = m.length) :
    ∃ o', o.getMask m = .ok o' ∧
      o'.translations.length = (m.filter id).length ∧ o'.rotations.length = (m.filter id).length ∧
      o'.scores.length = (m.filter id).length ∧ o'.details.length = (m.filter id).length ∧
      postInit [o'.translations.length, dt] [o'.rotations.length, dr] [o'.scores.length] [o'.details.length] = .ok () := by
  have len : ∀ {α : Type} (l : List α), l.length = m.length → (maskSel l m).length = (m.filter id).length :=
    fun l h => maskSel_length l m h
  refine ⟨⟨maskSel o.translations m, maskSel o.rotations m, maskSel o.scores m, maskSel o.details m⟩, ?_,
    len _ ht, len _ hr, len _ hs, len _ hd, ?_⟩
  · simp [Orient.getMask, takeMask, ht, hr, hs, hd, bind, Except.bind, pure, Except.pure]
  · simp only [len _ ht, len _ hr, len _ hs, len _ hd]
    exact (postInit_ok_iff _ _ _ _).mpr ⟨_, _, _, _, _, rfl, rfl, rfl, rfl⟩

example : postInit [4, 3] [4, 3] [4] [4] = .ok () ∧ postInit [0, 2] [0, 1] [0] [0] = .ok () ∧
    postInit [4, 3] [4, 3] [4, 7] [4] = .ok () := by decide
example : postInit [4, 3] [4, 3] [5] [4] = .error .valueError ∧ postInit [4] [4, 3] [4] [4] = .error .valueError ∧
    postInit [4, 3] [4, 3, 1] [4] [4] = .error .valueError ∧ postInit [4, 3] [4, 3] [] [4] = .error .indexError ∧
    postInit [] [5] [6] [7] = .error .indexError := by decide
example : (⟨[1, 2, 3], [4, 5, 6], [7, 8, 9], [0, 0, 1]⟩ : Orient Nat Nat Nat Nat).getIdx [-1, 0, 0, 2] =
    .ok ⟨[3, 1, 1, 3], [6, 4, 4, 6], [9, 7, 7, 9], [1, 0, 0, 1]⟩ := by decide
example : (⟨[1, 2, 3], [4, 5, 6], [7, 8, 9], [0, 0, 1]⟩ : Orient Nat Nat Nat Nat).getMask [true, false, true] =
    .ok ⟨[1, 3], [4, 6], [7, 9], [0, 1]⟩ := by decide

/-! ## format dispatch (`to_file(filename, file_format)` / `from_file(filename, file_format)`) -/

/-- with no format given, reading infers exactly the format that writing inferred, for every file name -/
theorem dispatch_inferred_same (f : Str) : readFmt f none = writeFmt f none := rfl

/-- each documented format name selects the same, existing, format on both sides, whatever the file name -/
theorem dispatch_named_same (f nm : Str) (h : nm = nmText ∨ nm = nmRelion ∨ nm = nmDynamo) :
    readFmt f (some nm) = writeFmt f (some nm) ∧ ∃ fmt, writeFmt f (some nm) = .ok fmt := by
  rcases h with rfl | rfl | rfl
  · exact ⟨rfl, _, rfl⟩
  · exact ⟨rfl, _, rfl⟩
  · exact ⟨rfl, _, rfl⟩

/-- the inference looks at the end of the lower-cased name only: any spelling of `.star` at the end
of any name selects RELION … -/
theorem infer_star (stem suf : Str) (h : lower suf = extStar) : inferFmt (stem ++ suf) = .relion := by
  unfold lower at h
  simp [inferFmt, endsWith, lower, List.map_append, h, extStar, List.isPrefixOf]

/-- … any spelling of `.tbl` Dynamo (such a name does not end in `.star`) … -/
theorem infer_tbl (stem suf : Str) (h : lower suf = extTbl) : inferFmt (stem ++ suf) = .dynamo := by
  unfold lower at h
  simp [inferFmt, endsWith, lower, List.map_append, h, extStar, extTbl, List.isPrefixOf]

/-- … and a name that merely *contains* them is a text file -/
theorem infer_text_examples :
    inferFmt "a.star.txt".toList = .text ∧ inferFmt "a.tbl.bak".toList = .text ∧ inferFmt "star".toList = .text ∧
    inferFmt "x.TBL".toList = .dynamo ∧ inferFmt "a.tbl.Star".toList = .relion ∧ inferFmt "a.star.tbl".toList = .dynamo := by
  decide

/-- `from_file` before `fix: from_file accepts the documented format name "dynamo"`: a table written
with `file_format="dynamo"` could not be read back under the same name -/
theorem dispatch_dynamo_name_old_defect :
    writeFmt [] (some nmDynamo) = .ok .dynamo ∧ readFmtOld [] (some nmDynamo) = .error .valueError ∧
    readFmt [] (some nmDynamo) = .ok .dynamo := by decide

example : lower ".StAr".toList = extStar := by decide
example : writeFmt "p.tbl".toList (some nmTbl) = .error .valueError ∧ readFmt "p.tbl".toList (some nmTbl) = .ok .dynamo := by decide

/-! ## deepening: clipping amounts, centre picks, monotonicity, translates, counts -/

/-- the two pads make up the box extent: `⌈e/2⌉ + ⌊e/2⌋ = e` -/
theorem pads_sum (e : Nat) : leftPad e + rightPad e = e := by
  unfold leftPad rightPad; omega

/-- source extent + amount clipped at the lower face + amount clipped at the upper face = box extent -/
theorem window_clip_sum (T e : Nat) (p : Int) :
    (obsEnd T e p - obsBeg e p) + (obsBeg e p - (p - leftPad e)) + ((p + rightPad e) - obsEnd T e p) = e := by
  unfold obsBeg obsEnd leftPad rightPad; omega

/-- the destination offsets are exactly the clipped amounts: `cand_beg` is what was cut at the lower face,
`e - cand_end` what was cut at the upper face (both non-negative) -/
theorem cand_is_clip (T e : Nat) (p : Int) :
    candBeg e p = obsBeg e p - (p - leftPad e) ∧ (e : Int) - candEnd T e p = (p + rightPad e) - obsEnd T e p ∧
    0 ≤ obsBeg e p - (p - leftPad e) ∧ 0 ≤ (p + rightPad e) - obsEnd T e p := by
  unfold candBeg candEnd obsBeg obsEnd leftPad rightPad; omega

/-- a pick at the (upper) centre `⌈T/2⌉` of the target is full-size whenever the box is not larger than the target -/
theorem centre_kept (T e : Nat) (h : e ≤ T) : keepAxis T e ((T - T / 2 : Nat) : Int) = true := by
  rw [keep_iff_fits]; unfold leftPad rightPad; omega

/-- … and so is the pick at the lower centre `⌊T/2⌋` when the box is strictly smaller -/
theorem centre_floor_kept (T e : Nat) (h : e < T) : keepAxis T e ((T / 2 : Nat) : Int) = true := by
  rw [keep_iff_fits]; unfold leftPad rightPad; omega

/-- a box larger than the target never fits: every pick is dropped on that axis -/
theorem box_too_large_dropped (T e : Nat) (p : Int) (h : T < e) : keepAxis T e p = false := by
  have := keep_iff_fits T e p
  unfold leftPad rightPad at this
  cases hk : keepAxis T e p with
  | false => rfl
  | true => rw [hk] at this; simp only [true_iff] at this; omega

/-- **monotone in the box size** (one axis): a pick kept for a box is kept for every smaller box -/
theorem keepAxis_mono (T e e' : Nat) (p : Int) (he : e ≤ e') (h : keepAxis T e' p = true) :
    keepAxis T e p = true := by
  rw [keep_iff_fits] at *; unfold leftPad rightPad at *; omega

/-- … and **monotone in the target size**: it stays kept when the target grows -/
theorem keepAxis_mono_target (T T' e : Nat) (p : Int) (hT : T ≤ T') (h : keepAxis T e p = true) :
    keepAxis T' e p = true := by
  rw [keep_iff_fits] at *; omega

/-- **translates**: two full-size picks differing by `t` have source windows that are translates by `t`
and identical destination windows -/
theorem window_translate (T e : Nat) (p t : Int) (h1 : keepAxis T e p = true) (h2 : keepAxis T e (p + t) = true) :
    obsBeg e (p + t) = obsBeg e p + t ∧ obsEnd T e (p + t) = obsEnd T e p + t ∧
    candBeg e (p + t) = candBeg e p ∧ candEnd T e (p + t) = candEnd T e p := by
  rw [keep_iff_fits] at h1 h2
  unfold candBeg candEnd obsBeg obsEnd leftPad rightPad at *; omega

example : keepAxis 10 4 3 = true ∧ keepAxis 10 4 (3 + 5) = true ∧ keepAxis 10 4 ((10 - 10 / 2 : Nat) : Int) = true := by decide

/-- never more windows than picks, and without `drop_out_of_box` exactly one per pick -/
theorem extraction_count (T e : List Nat) (peaks : List (List Int)) (drop : Bool) :
    (extraction T e peaks drop).length ≤ peaks.length ∧ (extraction T e peaks false).length = peaks.length := by
  constructor
  · unfold extraction
    refine Nat.le_trans (List.length_filterMap_le _ _) ?_
    simp
  · unfold extraction
    simp [List.filterMap_eq_map']

/-- everything returned with `drop_out_of_box` is also returned without it (same position, same windows) -/
theorem extraction_drop_subset (T e : List Nat) (peaks : List (List Int)) (i : Nat) (w : List (Int × Int × Int × Int))
    (h : (i, w) ∈ extraction T e peaks true) : (i, w) ∈ extraction T e peaks false := by
  rw [extraction_entry_iff] at *
  obtain ⟨p, hp, _, hw⟩ := h
  exact ⟨p, hp, Or.inl rfl, hw⟩

/-- **monotone in the box size** (all axes): a pick kept for boxes `e'` is kept for boxes `e ≤ e'` axis by axis -/
theorem keepPick_mono (T e e' : List Nat) (p : List Int) (he : List.Forall₂ (· ≤ ·) e e')
    (h : keepPick T e' p = true) : keepPick T e p = true := by
  induction he generalizing T p with
  | nil => cases T <;> simp [keepPick]
  | cons hab _ ih =>
    cases T with
    | nil => simp [keepPick]
    | cons t Ts =>
      cases p with
      | nil => simp [keepPick]
      | cons q ps =>
        simp only [keepPick, Bool.and_eq_true] at h ⊢
        exact ⟨keepAxis_mono _ _ _ _ hab h.1, ih _ _ h.2⟩

example : List.Forall₂ (· ≤ ·) [2, 3] [4, 3] ∧ keepPick [10, 10] [4, 3] [5, 5] = true := by
  refine ⟨?_, by decide⟩
  exact .cons (by decide) (.cons (by decide) .nil)

/-- the subset has as many rows as the index list is long, and the empty index list selects nothing -/
theorem subset_empty {α : Type} (l : List α) : takeIdx l [] = .ok [] := rfl

/-- **axis-order reversal** (zyx ↔ xyz, used by the STAR and Dynamo writers) is an involution in any dimension
and keeps the number of coordinates -/
theorem axis_reversal_involution (trans : List Str) :
    trans.reverse.reverse = trans ∧ trans.reverse.length = trans.length := by
  simp


/-- **subsetting composes** (`a[i1][i2] = a[i1[i2]]`): selecting by `idx1` and then by `idx2` is selecting once by the
composed index list `idx1[idx2]` (negative indices included; errors agree as well) -/
theorem subset_compose {α : Type} (l : List α) (idx1 idx2 : List Int) (l1 : List α) (idx12 : List Int)
    (h1 : takeIdx l idx1 = .ok l1) (h2 : takeIdx idx1 idx2 = .ok idx12) :
    takeIdx l1 idx2 = takeIdx l idx12 := by
  obtain ⟨hl, hk⟩ := takeIdx_spec l idx1 l1 h1
  induction idx2 generalizing idx12 with
  | nil =>
    simp [takeIdx, pure, Except.pure] at h2
    subst h2; rfl
  | cons i is ih =>
    rw [takeIdx_cons] at h2
    cases hn : normIndex idx1.length i with
    | error e => rw [hn] at h2; cases h2
    | ok j =>
      rw [hn] at h2
      have hj := (normIndex_spec _ _ _ hn).1
      simp only [bind, Except.bind, List.getElem?_eq_getElem hj, pure, Except.pure] at h2
      cases hr : takeIdx idx1 is with
      | error e => rw [hr] at h2; cases h2
      | ok rest =>
        rw [hr] at h2
        injection h2 with h2
        subst h2
        obtain ⟨j', hn', hj', ho⟩ := hk j hj
        have hjl : j < l1.length := by omega
        rw [List.getElem?_eq_getElem hjl, List.getElem?_eq_getElem hj'] at ho
        injection ho with ho
        rw [takeIdx_cons, takeIdx_cons, hl, hn, hn', ih rest hr]
        simp [bind, Except.bind, List.getElem?_eq_getElem hjl, List.getElem?_eq_getElem hj', pure, Except.pure, ho]

example : takeIdx ['a','b','c'] [2, -3] = .ok ['c','a'] ∧ takeIdx ([2, -3] : List Int) [-1] = .ok [-3] ∧
    takeIdx ['c','a'] [-1] = takeIdx ['a','b','c'] [-3] := by decide

/-- **subsetting is row-wise**: it commutes with any per-row map — in particular with writing the rows and reading them
back (`Table.ofRows` maps each field out of the rows), so subset-then-round-trip = round-trip-then-subset -/
theorem subset_map {α β : Type} (f : α → β) (l : List α) (idx : List Int) :
    takeIdx (l.map f) idx = (takeIdx l idx).map (List.map f) := by
  induction idx with
  | nil => rfl
  | cons i is ih =>
    rw [takeIdx_cons, takeIdx_cons, ih, List.length_map]
    cases normIndex l.length i with
    | error e => rfl
    | ok k =>
      simp only [bind, Except.bind, List.getElem?_map]
      cases l[k]? with
      | none => rfl
      | some x => cases takeIdx l is <;> rfl

/-- selecting by a concatenated index list concatenates the selections -/
theorem subset_append {α : Type} (l : List α) (a b : List Int) (x y : List α)
    (ha : takeIdx l a = .ok x) (hb : takeIdx l b = .ok y) : takeIdx l (a ++ b) = .ok (x ++ y) := by
  induction a generalizing x with
  | nil =>
    simp [takeIdx, pure, Except.pure] at ha
    subst ha; simpa using hb
  | cons i is ih =>
    rw [takeIdx_cons] at ha
    cases hn : normIndex l.length i with
    | error e => rw [hn] at ha; cases ha
    | ok j =>
      rw [hn] at ha
      have hj := (normIndex_spec _ _ _ hn).1
      simp only [bind, Except.bind, List.getElem?_eq_getElem hj, pure, Except.pure] at ha
      cases hr : takeIdx l is with
      | error e => rw [hr] at ha; cases ha
      | ok rest =>
        rw [hr] at ha
        injection ha with ha
        subst ha
        rw [List.cons_append, takeIdx_cons, hn, ih rest hr]
        simp [bind, Except.bind, List.getElem?_eq_getElem hj, pure, Except.pure]

example : takeIdx [10, 20, 30] [0, -1] = .ok [10, 30] ∧ takeIdx [10, 20, 30] [1] = .ok [20] := by decide


/-- **the kept set is monotone in the box size**: every pick returned under `drop_out_of_box` for boxes `e'` is also
returned for boxes `e ≤ e'` (axis by axis) -/
theorem extraction_mono_box (T e e' : List Nat) (peaks : List (List Int)) (i : Nat)
    (he : List.Forall₂ (· ≤ ·) e e') (h : ∃ w, (i, w) ∈ extraction T e' peaks true) :
    ∃ w, (i, w) ∈ extraction T e peaks true := by
  obtain ⟨w, hw⟩ := h
  rw [extraction_entry_iff] at hw
  obtain ⟨p, hp, hk, _⟩ := hw
  refine ⟨windowAxes T e p, ?_⟩
  rw [extraction_entry_iff]
  refine ⟨p, hp, Or.inr ?_, rfl⟩
  cases hk with
  | inl h => cases h
  | inr h => exact keepPick_mono T e e' p he h

/-- a negative index `i - n` selects the same row as `i` (numpy wrap-around) -/
theorem index_wrap (n : Nat) (i : Int) (h0 : 0 ≤ i) (h1 : i < n) : normIndex n (i - n) = normIndex n i := by
  have hl : normIndex n (i - n) = .ok i.toNat := by
    unfold normIndex
    rw [if_neg (by omega), if_pos (by omega)]
    have : i - n + n = i := by omega
    rw [this]; rfl
  have hr : normIndex n i = .ok i.toNat := by
    unfold normIndex
    rw [if_pos ⟨h0, h1⟩]; rfl
  rw [hl, hr]

example : normIndex 5 (2 - 5) = .ok 2 := by decide


/-- the rows of an integer selection are rows of the source -/
theorem subset_mem {α : Type} (l : List α) (idx : List Int) (out : List α) (h : takeIdx l idx = .ok out) :
    ∀ x ∈ out, x ∈ l := by
  intro x hm
  obtain ⟨k, hk, rfl⟩ := List.mem_iff_getElem.mp hm
  obtain ⟨hlen, hsp⟩ := subset_rows_idx l idx out h
  obtain ⟨j, hj, ho, _⟩ := hsp k (by omega)
  rw [List.getElem?_eq_getElem hk, List.getElem?_eq_getElem hj] at ho
  injection ho with ho
  rw [ho]; exact List.getElem_mem hj

/-- **subsetting commutes with the text round trip**: writing a subset and reading it back gives, array by array,
the same as subsetting (with the same indices) what is read back from the full file -/
theorem text_subset_commutes (d r : Nat) (hd : d ≤ 26) (hr1 : 1 ≤ r) (hr : r ≤ 26) (rows rows' : List Row)
    (idx : List Int) (h : ∀ row ∈ rows, RowWf d r row) (hs : takeIdx rows idx = .ok rows') :
    ∃ t t', readText (writeText d r rows) = .ok t ∧ readText (writeText d r rows') = .ok t' ∧
      takeIdx t.trans idx = .ok t'.trans ∧ takeIdx t.rot idx = .ok t'.rot ∧
      takeIdx t.score idx = .ok t'.score ∧ takeIdx t.detail idx = .ok t'.detail := by
  have h' : ∀ row ∈ rows', RowWf d r row := fun row hm => h row (subset_mem rows idx rows' hs row hm)
  refine ⟨_, _, text_roundtrip d r hd hr1 hr rows h, text_roundtrip d r hd hr1 hr rows' h', ?_, ?_, ?_, ?_⟩ <;>
  · simp only [Table.ofRows]
    rw [subset_map, hs]; rfl


end Pm.C11
