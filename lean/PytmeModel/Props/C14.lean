import PytmeModel.Model.C14
import PytmeModel.Proofs.Common
import Mathlib.Tactic.Ring
import Mathlib.Tactic.Linarith
import Mathlib.Data.List.Basic

/-! # C14 — tiling covers every voxel in bounds; schedules respect the limits -/
namespace Pm.C14

/-! ## ceil-division facts -/
theorem cdiv_pos (N k : Nat) (hk : 0 < k) (hN : 0 < N) : 0 < cdiv N k := by
  unfold cdiv; exact Nat.div_pos (by omega) hk

theorem cdiv_le (N k : Nat) (hk : 0 < k) (hN : 0 < N) : cdiv N k ≤ N := by
  unfold cdiv
  apply Nat.div_le_of_le_mul
  obtain ⟨k', rfl⟩ : ∃ k', k = k' + 1 := ⟨k - 1, by omega⟩
  obtain ⟨N', rfl⟩ : ∃ N', N = N' + 1 := ⟨N - 1, by omega⟩
  have : (k' + 1) * (N' + 1) = k' * N' + k' + N' + 1 := by ring
  have h2 : 0 ≤ k' * N' := Nat.zero_le _
  omega

theorem mul_cdiv_ge (N k : Nat) (hk : 0 < k) : N ≤ k * cdiv N k := by
  unfold cdiv
  have h := Nat.lt_mul_div_succ (N + k - 1) hk
  have : k * ((N + k - 1) / k + 1) = k * ((N + k - 1) / k) + k := by ring
  omega

/-! ## split_shape, one axis -/

/-- every tile is non-empty, in bounds and of the common extent `ceil(N/k)` -/
theorem tile_in_bounds (N k j : Nat) (hk : 0 < k) (hN : 0 < N) :
    (tile N k j).1 < (tile N k j).2 ∧ (tile N k j).2 ≤ N ∧
    (tile N k j).2 - (tile N k j).1 = tileLen N k := by
  have h1 := cdiv_le N k hk hN
  have h2 := cdiv_pos N k hk hN
  simp only [tile, tileStart, tileLen]
  omega

/-- the tiles cover the axis: every voxel lies in some tile `j < k` -/
theorem tiles_cover (N k x : Nat) (hk : 0 < k) (hx : x < N) :
    ∃ j, j < k ∧ (tile N k j).1 ≤ x ∧ x < (tile N k j).2 := by
  have hN : 0 < N := by omega
  have hL := cdiv_pos N k hk hN
  have hLN := cdiv_le N k hk hN
  have hkL := mul_cdiv_ge N k hk
  simp only [tile, tileStart, tileLen]
  set L := cdiv N k with hLdef
  refine ⟨x / L, ?_, ?_, ?_⟩
  · apply Nat.div_lt_of_lt_mul; rw [Nat.mul_comm]; omega
  · have h1 : x / L * L ≤ x := Nat.div_mul_le_self x L
    exact le_trans (min_le_left _ _) h1
  · have h1 : x / L * L ≤ x := Nat.div_mul_le_self x L
    have h2 : x < L * (x / L + 1) := Nat.lt_mul_div_succ x hL
    have h3 : L * (x / L + 1) = x / L * L + L := by ring
    generalize x / L * L = p at *
    by_cases hc : p ≤ N - L
    · rw [min_eq_left hc]; omega
    · rw [min_eq_right (by omega)]; omega

theorem splitAxis_length (N k : Nat) : (splitAxis N k).length = max k 1 := by
  simp [splitAxis]

theorem mem_splitAxis (N k : Nat) (t : Nat × Nat) :
    t ∈ splitAxis N k ↔ ∃ j, j < max k 1 ∧ t = tile N (max k 1) j := by
  simp only [splitAxis, List.mem_map, List.mem_range]
  constructor
  · rintro ⟨j, hj, rfl⟩; exact ⟨j, hj, rfl⟩
  · rintro ⟨j, hj, rfl⟩; exact ⟨j, hj, rfl⟩

/-- the pinned tree's tile start leaves the axis (`N=5,k=4`: tile `[4,6)`) or yields a tile that is
empty after slicing (`N=10,k=7`: tile `[10,12)`) — the defect repaired by the `fix:` commit -/
theorem splitShape_old_defect :
    tileOld 5 4 2 = (4, 6) ∧ tileOld 10 7 5 = (10, 12) := by decide

/-- the old start was right whenever the regular tiles fit: `(k-1)·⌈N/k⌉ ≤ N - ⌈N/k⌉` -/
theorem tileStartOld_eq_of_fits (N k j : Nat) (hj : j < k)
    (hfit : (k - 1) * tileLen N k ≤ N - tileLen N k) :
    tileStartOld N k j = tileStart N k j := by
  unfold tileStartOld tileStart
  split
  · rename_i h
    have : j * tileLen N k ≤ (k - 1) * tileLen N k := Nat.mul_le_mul_right _ (by omega)
    omega
  · have hj' : j = k - 1 := by omega
    have hk := mul_cdiv_ge N k (by omega)
    have e : k * cdiv N k = (k - 1) * cdiv N k + cdiv N k := by
      obtain ⟨k', rfl⟩ : ∃ k', k = k' + 1 := ⟨k - 1, by omega⟩
      simp; ring
    unfold tileLen at *
    rw [hj']; omega

/-! ## split_shape with `equal_shape=False`: a partition of the axis -/

theorem tileU_first (N k : Nat) : (tileU N k 0).1 = 0 := by
  unfold tileU; split <;> simp

theorem tileU_last (N k : Nat) : (tileU N k (k - 1)).2 = N := by
  unfold tileU; rw [if_neg (by omega)]

/-- consecutive tiles are adjacent (no gap, no overlap) -/
theorem tileU_adjacent (N k j : Nat) (hj : j + 1 < k) : (tileU N k j).2 = (tileU N k (j + 1)).1 := by
  unfold tileU
  rw [if_pos (by omega)]
  split <;> rfl

/-- for `k ≤ N` every tile is non-empty and in bounds -/
theorem tileU_nonempty (N k j : Nat) (hk : 0 < k) (hkN : k ≤ N) (hj : j < k) :
    (tileU N k j).1 < (tileU N k j).2 ∧ (tileU N k j).2 ≤ N := by
  have hL : 0 < N / k := Nat.div_pos hkN hk
  have hkL : k * (N / k) ≤ N := Nat.mul_div_le N k
  have e1 : (j + 1) * (N / k) = j * (N / k) + N / k := by ring
  have hjk : (j + 1) * (N / k) ≤ k * (N / k) := Nat.mul_le_mul_right _ (by omega)
  unfold tileU
  split
  · simp only; omega
  · simp only; omega

/-- the tiles cover the axis -/
theorem tilesU_cover (N k x : Nat) (hk : 0 < k) (hkN : k ≤ N) (hx : x < N) :
    ∃ j, j < k ∧ (tileU N k j).1 ≤ x ∧ x < (tileU N k j).2 := by
  have hL : 0 < N / k := Nat.div_pos hkN hk
  set L := N / k with hLdef
  by_cases hc : x / L < k - 1
  · refine ⟨x / L, by omega, ?_, ?_⟩
    · unfold tileU; rw [if_pos hc]; exact Nat.div_mul_le_self x L
    · unfold tileU; rw [if_pos hc]
      have h2 : x < L * (x / L + 1) := Nat.lt_mul_div_succ x hL
      simp only [← hLdef]
      rw [Nat.mul_comm]; exact h2
  · refine ⟨k - 1, by omega, ?_, ?_⟩
    · unfold tileU; rw [if_neg (by omega)]
      simp only [← hLdef]
      have h1 : x / L * L ≤ x := Nat.div_mul_le_self x L
      have h3 : (k - 1) * L ≤ x / L * L := Nat.mul_le_mul_right _ (by omega)
      omega
    · unfold tileU; rw [if_neg (by omega)]; exact hx

/-! ## split_shape, n-D -/

theorem mem_productL {α : Type} : ∀ (ls : List (List α)) (l : List α),
    l ∈ productL ls ↔ List.Forall₂ (· ∈ ·) l ls
  | [], l => by
      simp only [productL, List.mem_singleton]
      constructor
      · rintro rfl; exact List.Forall₂.nil
      · intro h; cases h; rfl
  | x :: xs, l => by
      simp only [productL, List.mem_flatMap, List.mem_map]
      constructor
      · rintro ⟨a, ha, r, hr, rfl⟩
        exact List.Forall₂.cons ha ((mem_productL xs r).mp hr)
      · intro h
        cases h with
        | cons ha hr => exact ⟨_, ha, _, (mem_productL xs _).mpr hr, rfl⟩

theorem length_flatMap_const {α β : Type} (l : List α) (f : α → List β) (c : Nat)
    (h : ∀ x ∈ l, (f x).length = c) : (l.flatMap f).length = l.length * c := by
  induction l with
  | nil => simp
  | cons x xs ih =>
    simp only [List.flatMap_cons, List.length_append, List.length_cons]
    rw [h x List.mem_cons_self, ih (fun y hy => h y (List.mem_cons_of_mem _ hy))]
    ring

theorem length_productL {α : Type} : ∀ (ls : List (List α)),
    (productL ls).length = prodL (ls.map List.length)
  | [] => rfl
  | x :: xs => by
      simp only [productL, List.map_cons, prodL]
      rw [length_flatMap_const x _ (prodL (xs.map List.length))]
      intro a _
      simp [length_productL xs]

/-- number of tiles = product of the per-axis part counts -/
theorem splitShape_length (shape splits : List Nat) (h : shape.length = splits.length) :
    (splitShape shape splits).length = prodL (splits.map (max · 1)) := by
  unfold splitShape
  rw [length_productL]
  congr 1
  induction shape generalizing splits with
  | nil => cases splits <;> simp_all
  | cons s ss ih =>
    cases splits with
    | nil => simp at h
    | cons k ks =>
      simp only [List.zipWith_cons_cons, List.map_cons, splitAxis_length]
      rw [ih ks (by simpa using h)]

/-- every tile of the split is a box that is non-empty, in bounds and of the common extent, per axis -/
theorem splitShape_tiles_ok (shape splits : List Nat) (h : shape.length = splits.length)
    (hpos : ∀ n ∈ shape, 0 < n) (t : List (Nat × Nat)) (ht : t ∈ splitShape shape splits) :
    List.Forall₂ (fun (r : Nat × Nat) (Nk : Nat × Nat) =>
      r.1 < r.2 ∧ r.2 ≤ Nk.1 ∧ r.2 - r.1 = tileLen Nk.1 (max Nk.2 1)) t (List.zip shape splits) := by
  unfold splitShape at ht
  rw [mem_productL] at ht
  induction shape generalizing splits t with
  | nil =>
    cases splits with
    | nil => cases ht; exact List.Forall₂.nil
    | cons => simp at h
  | cons s ss ih =>
    cases splits with
    | nil => simp at h
    | cons k ks =>
      simp only [List.zipWith_cons_cons] at ht
      cases ht with
      | cons ha hr =>
        simp only [List.zip_cons_cons]
        refine List.Forall₂.cons ?_ (ih ks (by simpa using h) (fun n hn => hpos n (List.mem_cons_of_mem _ hn)) _ hr)
        obtain ⟨j, _, rfl⟩ := (mem_splitAxis s k _).mp ha
        exact tile_in_bounds s (max k 1) j (by omega) (hpos s (List.mem_cons_self))

/-- the union of the tiles is the whole shape: every in-shape voxel lies in some tile -/
theorem splitShape_covers (shape splits idx : List Nat) (h : shape.length = splits.length)
    (hidx : inShape shape idx = true) :
    ∃ t ∈ splitShape shape splits,
      List.Forall₂ (fun (r : Nat × Nat) (i : Nat) => r.1 ≤ i ∧ i < r.2) t idx := by
  unfold splitShape
  induction shape generalizing splits idx with
  | nil =>
    cases idx with
    | nil =>
      cases splits with
      | nil => exact ⟨[], by simp [productL], List.Forall₂.nil⟩
      | cons => simp at h
    | cons => simp [inShape] at hidx
  | cons s ss ih =>
    cases idx with
    | nil => simp [inShape] at hidx
    | cons i is =>
      cases splits with
      | nil => simp at h
      | cons k ks =>
        obtain ⟨hi, hr⟩ := inShape_cons.mp hidx
        obtain ⟨t, ht, hcov⟩ := ih ks is (by simpa using h) hr
        obtain ⟨j, hj, hlo, hhi⟩ := tiles_cover s (max k 1) i (by omega) hi
        refine ⟨tile s (max k 1) j :: t, ?_, List.Forall₂.cons ⟨hlo, hhi⟩ hcov⟩
        simp only [List.zipWith_cons_cons, productL, List.mem_flatMap, List.mem_map]
        exact ⟨_, (mem_splitAxis s k _).mpr ⟨j, hj, rfl⟩, t, ht, rfl⟩

/-! ## tile extraction with margin (`subset_array`) -/

theorem emod_cases (x N : Int) (hN : 0 < N) (h1 : -N ≤ x) (h2 : x < N) :
    x % N = if x < 0 then x + N else x := by
  split
  · have : (x + N) % N = x + N := Int.emod_eq_of_lt (by omega) (by omega)
    rw [← this]; simp
  · exact Int.emod_eq_of_lt (by omega) h2

/-! ### numpy `reflect` index facts -/
theorem reflect_mid (n : Nat) (x : Int) (h0 : 0 ≤ x) (h1 : x < n) : (reflectIdx n x : Int) = x := by
  unfold reflectIdx
  split
  · omega
  · simp only
    rw [Int.emod_eq_of_lt h0 (by omega), if_pos h1]; omega

theorem reflect_lo (n : Nat) (x : Int) (h0 : x < 0) (h1 : -x ≤ (n : Int) - 1) : (reflectIdx n x : Int) = -x := by
  unfold reflectIdx
  split
  · omega
  · simp only
    rw [emod_cases x (2 * ((n:Int) - 1)) (by omega) (by omega) (by omega), if_pos h0]
    split <;> omega

theorem reflect_hi (n : Nat) (x : Int) (h0 : (n : Int) ≤ x) (h1 : x ≤ 2 * ((n : Int) - 1)) (hn : 2 ≤ n) :
    (reflectIdx n x : Int) = 2 * ((n : Int) - 1) - x := by
  unfold reflectIdx
  split
  · omega
  · simp only
    by_cases hx : x = 2 * ((n : Int) - 1)
    · subst hx; simp; omega
    · rw [Int.emod_eq_of_lt (by omega) (by omega)]
      split <;> omega

theorem reflect_lt (n : Nat) (x : Int) (hn : 0 < n) : reflectIdx n x < n := by
  unfold reflectIdx
  split
  · omega
  · simp only
    have hP : (0:Int) < 2 * ((n:Int) - 1) := by omega
    have ha := Int.emod_nonneg x (ne_of_gt hP)
    have hb := Int.emod_lt_of_pos x hP
    split <;> omega

/-- the bookkeeping of `subset_array` in linear form -/
theorem tileAxis_fields (N start stop p : Nat) (h1 : start ≤ stop) (h2 : stop ≤ N) :
    let t := tileAxis N start stop p
    let left := (p + p % 2) / 2
    t.arrStart + t.dl = start ∧ t.arrStop = stop + t.dr ∧ t.padLo + t.dl = left ∧ t.padHi + t.dr = left ∧
    (t.dl = start ∨ t.dl = left) ∧ t.dl ≤ start ∧ t.dl ≤ left ∧
    (t.dr = N - stop ∨ t.dr = left) ∧ t.dr ≤ N - stop ∧ t.dr ≤ left := by
  intro t left
  have e1 : t.arrStart = start - min start left := rfl
  have e2 : t.arrStop = stop + min (N - stop) left := rfl
  have e3 : t.dl = min start left := rfl
  have e4 : t.dr = min (N - stop) left := rfl
  have e5 : t.padLo = left - min start left := rfl
  have e6 : t.padHi = left - min (N - stop) left := rfl
  omega

/-- the tile has the addressed extent plus the requested margin on both sides -/
theorem tileAxis_extent (N start stop p : Nat) (h1 : start ≤ stop) (h2 : stop ≤ N) :
    (tileAxis N start stop p).extent = (stop - start) + 2 * ((p + p % 2) / 2) := by
  simp only [tileAxis, TileAxis.extent]; omega

/-- addressed voxels and real neighbours: wherever the virtual position `start - left + q` lies
inside the volume the tile holds exactly that voxel -/
theorem tileAxis_src_real (N start stop p q : Nat) (h1 : start < stop) (h2 : stop ≤ N)
    (pos : Int) (hpos : pos = (start : Int) - ((p + p % 2) / 2 : Nat) + q)
    (hin : 0 ≤ pos ∧ pos < N) (hq : q < (tileAxis N start stop p).extent) :
    ((tileAxis N start stop p).src q : Int) = pos := by
  have hf := tileAxis_fields N start stop p (by omega) h2
  simp only [TileAxis.src, TileAxis.extent] at *
  generalize tileAxis N start stop p = t at *
  generalize (p + p % 2) / 2 = left at *
  obtain ⟨f1, f2, f3, f4, f5, f6, f7, f8, f9, f10⟩ := hf
  push_cast
  rw [reflect_mid _ _ (by omega) (by omega)]
  omega

/-- mirrored data beyond the low volume edge: position `-d` (for `d` up to the extracted extent − 1)
holds voxel `d` -/
theorem tileAxis_src_mirror_lo (N start stop p q : Nat) (h1 : start < stop) (h2 : stop ≤ N)
    (pos : Int) (hpos : pos = (start : Int) - ((p + p % 2) / 2 : Nat) + q)
    (hlo : pos < 0)
    (hfar : -pos ≤ ((tileAxis N start stop p).arrStop : Int) - (tileAxis N start stop p).arrStart - 1) :
    ((tileAxis N start stop p).src q : Int) = -pos := by
  have hf := tileAxis_fields N start stop p (by omega) h2
  simp only [TileAxis.src] at *
  generalize tileAxis N start stop p = t at *
  generalize (p + p % 2) / 2 = left at *
  obtain ⟨f1, f2, f3, f4, f5, f6, f7, f8, f9, f10⟩ := hf
  push_cast
  rw [reflect_lo _ _ (by omega) (by omega)]
  omega

/-- mirrored data beyond the high volume edge: position `N-1+d` holds voxel `N-1-d` -/
theorem tileAxis_src_mirror_hi (N start stop p q : Nat) (h1 : start < stop) (h2 : stop ≤ N)
    (pos : Int) (hpos : pos = (start : Int) - ((p + p % 2) / 2 : Nat) + q)
    (hhi : (N : Int) ≤ pos) (hq : q < (tileAxis N start stop p).extent)
    (hfar : pos - ((N : Int) - 1) ≤ ((tileAxis N start stop p).arrStop : Int) - (tileAxis N start stop p).arrStart - 1) :
    ((tileAxis N start stop p).src q : Int) = 2 * ((N : Int) - 1) - pos := by
  have hf := tileAxis_fields N start stop p (by omega) h2
  simp only [TileAxis.src, TileAxis.extent] at *
  generalize tileAxis N start stop p = t at *
  generalize (p + p % 2) / 2 = left at *
  obtain ⟨f1, f2, f3, f4, f5, f6, f7, f8, f9, f10⟩ := hf
  push_cast
  rw [reflect_hi _ _ (by omega) (by omega) (by omega)]
  omega

/-- whatever the margin (also larger than the remaining data) the tile only reads voxels of the
extracted range, hence of the volume -/
theorem tileAxis_src_in_volume (N start stop p q : Nat) (h1 : start < stop) (h2 : stop ≤ N) :
    (tileAxis N start stop p).arrStart ≤ (tileAxis N start stop p).src q ∧
    (tileAxis N start stop p).src q < (tileAxis N start stop p).arrStop ∧
    (tileAxis N start stop p).arrStop ≤ N := by
  have hf := tileAxis_fields N start stop p (by omega) h2
  simp only [TileAxis.src] at *
  generalize tileAxis N start stop p = t at *
  generalize (p + p % 2) / 2 = left at *
  obtain ⟨f1, f2, f3, f4, f5, f6, f7, f8, f9, f10⟩ := hf
  have hr := reflect_lt (t.arrStop - t.arrStart) ((q:Int) - (t.padLo : Int)) (by omega)
  omega

/-- the tile's offset (its un-padded start) places its scores back at the right position:
with margin `left = (m - m%2)/2` on both sides and a `valid` crop of the padded tile's linear
convolution, score index `j` is the translation `start + j` of the full volume
(`vs` = start of the valid crop, `(m-1)/2` = start of the zero-translation in the convolution). -/
theorem tile_offset_places_scores (nt m start j left np conv ext vs : Nat) (hm : 0 < m) (hnt : 0 < nt)
    (hleft : left = (targetPadding m + targetPadding m % 2) / 2)
    (hnp : np = nt + 2 * left)               -- padded tile extent
    (hconv : conv = np + m - 1)
    (hext : ext = np - m + m % 2)            -- valid extent
    (hvs : vs = (conv - ext) / 2) :          -- start of the valid crop
    ext = nt ∧ ((start : Int) - left) + ((j + vs : Nat) - ((m - 1) / 2 : Nat)) = start + j := by
  unfold targetPadding at hleft
  subst hnp hconv hext hvs
  omega

/-- no margin along a batch axis; elsewhere the margin of the template extent -/
theorem targetPaddingB_spec (m : Nat) (b : Bool) :
    targetPaddingB m b = if b then 0 else m - m % 2 := by
  unfold targetPaddingB targetPadding; rfl

/-! ## memory model and schedule -/

theorem coreAssignments_prod (maxCores : Nat) (oo : Bool) (io : Nat × Nat)
    (h : io ∈ coreAssignments maxCores oo) : io.1 * io.2 = maxCores := by
  unfold coreAssignments at h
  split at h
  · simp at h; subst h; simp
  · simp only [List.mem_flatMap, List.mem_range] at h
    obtain ⟨i0, _, hmem⟩ := h
    split at hmem
    · rename_i hd
      have e : (i0 + 1) * (maxCores / (i0 + 1)) = maxCores := Nat.mul_div_cancel' (Nat.dvd_of_mod_eq_zero hd)
      simp at hmem
      rcases hmem with rfl | rfl
      · exact e
      · rw [Nat.mul_comm]; exact e
    · simp at hmem

/-- what every schedule candidate satisfies -/
def CandOk (P : Problem) (c : Cand) : Prop :=
  c.outer * c.inner = P.maxCores ∧ c.outer ≤ prodL c.splits ∧ c.nSplits = prodL c.splits ∧
  (let us := (P.widths c.splits).map (fun w => P.est w c.inner)
   maxGroupUsage us c.outer (us.length + 1) 0 < P.maxRam)

theorem candsFor_ok (P : Problem) (factor : List Nat) (c : Cand) (h : c ∈ candsFor P factor) :
    CandOk P c := by
  unfold candsFor at h
  simp only [List.mem_filterMap] at h
  obtain ⟨⟨inner, outer⟩, hmem, hsome⟩ := h
  have hp := coreAssignments_prod _ _ _ hmem
  simp only at hsome
  split at hsome
  · simp at hsome
  · rename_i hle
    split at hsome
    · rename_i hram
      simp at hsome
      subst hsome
      refine ⟨?_, by simp at hle ⊢; omega, rfl, hram⟩
      simp at hp ⊢; rw [Nat.mul_comm]; exact hp
    · simp at hsome

theorem searchLoop_ok (P : Problem) (fuel : Nat) (factor : List Nat) (ax ai np : Nat) (acc : List Cand)
    (hacc : ∀ c ∈ acc, CandOk P c) : ∀ c ∈ searchLoop P fuel factor ax ai np acc, CandOk P c := by
  induction fuel generalizing factor ax ai np acc with
  | zero => simpa [searchLoop] using hacc
  | succ f ih =>
    unfold searchLoop
    split
    · exact hacc
    · apply ih
      intro c hc
      rcases List.mem_append.mp hc with h | h
      · exact hacc c h
      · exact candsFor_ok P factor c h

theorem foldl_select_mem {α : Type} (f : α → α → α) (hf : ∀ b x, f b x = b ∨ f b x = x) :
    ∀ (ys : List α) (b : α), ys.foldl f b ∈ b :: ys
  | [], b => by simp
  | y :: ys, b => by
    simp only [List.foldl_cons]
    have := foldl_select_mem f hf ys (f b y)
    rcases List.mem_cons.mp this with h | h
    · rcases hf b y with e | e
      · rw [e] at h ⊢; simp [h]
      · rw [e] at h ⊢; simp [h]
    · simp [h]

theorem pickBest_mem : ∀ (l : List Cand) (c : Cand), pickBest l = some c → c ∈ l
  | [], _, h => by simp [pickBest] at h
  | x :: xs, c, h => by
    simp only [pickBest, Option.some.injEq] at h
    subst h
    apply foldl_select_mem
    intro b y
    split <;> simp

/-- **Schedule soundness** (for every problem, every memory estimator): a returned schedule uses exactly
the allowed cores (`outer·inner = max_cores`, so never more), plans no more concurrent tiles than exist,
and the search's own estimate for every group of concurrent tiles is below the limit. -/
theorem schedule_sound (P : Problem) (fa fi : Nat) (c : Cand) (h : schedule P fa fi = some c) :
    c.outer * c.inner = P.maxCores ∧ c.outer ≤ prodL c.splits ∧
    (let us := (P.widths c.splits).map (fun w => P.est w c.inner)
     maxGroupUsage us c.outer (us.length + 1) 0 < P.maxRam) := by
  have hm := pickBest_mem _ _ h
  have := searchLoop_ok P _ _ _ _ _ [] (by simp) c hm
  exact ⟨this.1, this.2.1, this.2.2.2⟩

/-- … or it reports that none exists, exactly when no candidate passed the limits -/
theorem schedule_none_iff (P : Problem) (fa fi : Nat) :
    schedule P fa fi = none ↔
      searchLoop P (P.maxSplits + 2) (List.replicate P.ndim 1) fa fi 0 [] = [] := by
  unfold schedule
  cases searchLoop P (P.maxSplits + 2) (List.replicate P.ndim 1) fa fi 0 [] <;> simp [pickBest]

/-- the peak group estimate dominates every group that runs concurrently -/
theorem maxGroupUsage_ge_acc (us : List Nat) (outer fuel acc : Nat) :
    acc ≤ maxGroupUsage us outer fuel acc := by
  induction fuel generalizing us acc with
  | zero => simp [maxGroupUsage]
  | succ f ih =>
    unfold maxGroupUsage
    cases us with
    | nil => simp
    | cons u us' => exact le_trans (le_max_left _ _) (ih _ _)

/-! ## non-vacuity -/
example : splitAxis 10 7 = [(0,2),(2,4),(4,6),(6,8),(8,10),(8,10),(8,10)] := by decide
example : splitAxisOld 10 7 = [(0,2),(2,4),(4,6),(6,8),(8,10),(10,12),(8,10)] := by decide
example : (splitShape [5,4] [2,2]).length = 4 := by decide
example : ((tileAxis 10 0 4 4).src 0, (tileAxis 10 0 4 4).src 1, (tileAxis 10 0 4 4).src 2, (tileAxis 10 0 4 4).extent) = (2, 1, 0, 8) := by decide
example : splitAxisU 10 7 = [(0,1),(1,2),(2,3),(3,4),(4,5),(5,6),(6,10)] := by decide
example : coreAssignments 12 false = [(1,12),(12,1),(2,6),(6,2),(3,4),(4,3)] := by decide +kernel

end Pm.C14
