import PytmeModel.Model.C14
import PytmeModel.Proofs.Common
import Mathlib.Tactic.Ring
import Mathlib.Tactic.Linarith
import Mathlib.Data.List.Basic

/-! # C14 — tiling covers every voxel in bounds; schedules respect the limits -/
namespace Pm.C14

/-! ## ceil-division facts -/
theorem cdiv_pos (N k : Nat) (hk : 0 < k) (hN : 0 < N) : 0 < cdiv N k := by
  unfold cdiv; exact Nat.div_pos (by omega) hk

theorem cdiv_le (N k : Nat) (hk : 0 < k) (hN : 0 < N) : cdiv N k ≤ N := by
  unfold cdiv
  apply Nat.div_le_of_le_mul
  obtain ⟨k', rfl⟩ : ∃ k', k = k' + 1 := ⟨k - 1, by omega⟩
  obtain ⟨N', rfl⟩ : ∃ N', N = N' + 1 := ⟨N - 1, by omega⟩
  have : (k' + 1) * (N' + 1) = k' * N' + k' + N' + 1 := by ring
  have h2 : 0 ≤ k' * N' := Nat.zero_le _
  omega

theorem mul_cdiv_ge (N k : Nat) (hk : 0 < k) : N ≤ k * cdiv N k := by
  unfold cdiv
  have h := Nat.lt_mul_div_succ (N + k - 1) hk
  have : k * ((N + k - 1) / k + 1) = k * ((N + k - 1) / k) + k := by ring
  omega

/-! ## split_shape, one axis -/

/-- every tile is non-empty, in bounds and of the common extent `ceil(N/k)` -/
theorem tile_in_bounds (N k j : Nat) (hk : 0 < k) (hN : 0 < N) :
    (tile N k j).1 < (tile N k j).2 ∧ (tile N k j).2 ≤ N ∧
    (tile N k j).2 - (tile N k j).1 = tileLen N k := by
  have h1 := cdiv_le N k hk hN
  have h2 := cdiv_pos N k hk hN
  simp only [tile, tileStart, tileLen]
  omega

/-- the tiles cover the axis: every voxel lies in some tile `j < k` -/
theorem tiles_cover (N k x : Nat) (hk : 0 < k) (hx : x < N) :
    ∃ j, j < k ∧ (tile N k j).1 ≤ x ∧ x < (tile N k j).2 := by
  have hN : 0 < N := by omega
  have hL := cdiv_pos N k hk hN
  have hLN := cdiv_le N k hk hN
  have hkL := mul_cdiv_ge N k hk
  simp only [tile, tileStart, tileLen]
  set L := cdiv N k with hLdef
  refine ⟨x / L, ?_, ?_, ?_⟩
  · apply Nat.div_lt_of_lt_mul; rw [Nat.mul_comm]; omega
  · have h1 : x / L * L ≤ x := Nat.div_mul_le_self x L
    exact le_trans (min_le_left _ _) h1
  · have h1 : x / L * L ≤ x := Nat.div_mul_le_self x L
    have h2 : x < L * (x / L + 1) := Nat.lt_mul_div_succ x hL
    have h3 : L * (x / L + 1) = x / L * L + L := by ring
    generalize x / L * L = p at *
    by_cases hc : p ≤ N - L
    · rw [min_eq_left hc]; omega
    · rw [min_eq_right (by omega)]; omega

theorem splitAxis_length (N k : Nat) : (splitAxis N k).length = max k 1 := by
  simp [splitAxis]

theorem mem_splitAxis (N k : Nat) (t : Nat × Nat) :
    t ∈ splitAxis N k ↔ ∃ j, j < max k 1 ∧ t = tile N (max k 1) j := by
  simp only [splitAxis, List.mem_map, List.mem_range]
  constructor
  · rintro ⟨j, hj, rfl⟩; exact ⟨j, hj, rfl⟩
  · rintro ⟨j, hj, rfl⟩; exact ⟨j, hj, rfl⟩

/-- the pinned tree's tile start leaves the axis (`N=5,k=4`: tile `[4,6)`) or yields a tile that is
empty after slicing (`N=10,k=7`: tile `[10,12)`) — the defect repaired by the `fix:` commit -/
theorem splitShape_old_defect :
    tileOld 5 4 2 = (4, 6) ∧ tileOld 10 7 5 = (10, 12) := by decide

/-- the old start was right whenever the regular tiles fit: `(k-1)·⌈N/k⌉ ≤ N - ⌈N/k⌉` -/
theorem tileStartOld_eq_of_fits (N k j : Nat) (hj : j < k)
    (hfit : (k - 1) * tileLen N k ≤ N - tileLen N k) :
    tileStartOld N k j = tileStart N k j := by
  unfold tileStartOld tileStart
  split
  · rename_i h
    have : j * tileLen N k ≤ (k - 1) * tileLen N k := Nat.mul_le_mul_right _ (by omega)
    omega
  · have hj' : j = k - 1 := by omega
    have hk := mul_cdiv_ge N k (by omega)
    have e : k * cdiv N k = (k - 1) * cdiv N k + cdiv N k := by
      obtain ⟨k', rfl⟩ : ∃ k', k = k' + 1 := ⟨k - 1, by omega⟩
      simp; ring
    unfold tileLen at *
    rw [hj']; omega

/-! ## split_shape with `equal_shape=False`: a partition of the axis -/

theorem tileU_first (N k : Nat) : (tileU N k 0).1 = 0 := by
  unfold tileU; split <;> simp

theorem tileU_last (N k : Nat) : (tileU N k (k - 1)).2 = N := by
  unfold tileU; rw [if_neg (by omega)]

/-- consecutive tiles are adjacent (no gap, no overlap) -/
theorem tileU_adjacent (N k j : Nat) (hj : j + 1 < k) : (tileU N k j).2 = (tileU N k (j + 1)).1 := by
  unfold tileU
  rw [if_pos (by omega)]
  split <;> rfl

/-- for `k ≤ N` every tile is non-empty and in bounds -/
theorem tileU_nonempty (N k j : Nat) (hk : 0 < k) (hkN : k ≤ N) (hj : j < k) :
    (tileU N k j).1 < (tileU N k j).2 ∧ (tileU N k j).2 ≤ N := by
  have hL : 0 < N / k := Nat.div_pos hkN hk
  have hkL : k * (N / k) ≤ N := Nat.mul_div_le N k
  have e1 : (j + 1) * (N / k) = j * (N / k) + N / k := by ring
  have hjk : (j + 1) * (N / k) ≤ k * (N / k) := Nat.mul_le_mul_right _ (by omega)
  unfold tileU
  split
  · simp only; omega
  · simp only; omega

/-- the tiles cover the axis -/
theorem tilesU_cover (N k x : Nat) (hk : 0 < k) (hkN : k ≤ N) (hx : x < N) :
    ∃ j, j < k ∧ (tileU N k j).1 ≤ x ∧ x < (tileU N k j).2 := by
  have hL : 0 < N / k := Nat.div_pos hkN hk
  set L := N / k with hLdef
  by_cases hc : x / L < k - 1
  · refine ⟨x / L, by omega, ?_, ?_⟩
    · unfold tileU; rw [if_pos hc]; exact Nat.div_mul_le_self x L
    · unfold tileU; rw [if_pos hc]
      have h2 : x < L * (x / L + 1) := Nat.lt_mul_div_succ x hL
      simp only [← hLdef]
      rw [Nat.mul_comm]; exact h2
  · refine ⟨k - 1, by omega, ?_, ?_⟩
    · unfold tileU; rw [if_neg (by omega)]
      simp only [← hLdef]
      have h1 : x / L * L ≤ x := Nat.div_mul_le_self x L
      have h3 : (k - 1) * L ≤ x / L * L := Nat.mul_le_mul_right _ (by omega)
      omega
    · unfold tileU; rw [if_neg (by omega)]; exact hx

/-! ## split_shape, n-D -/

theorem mem_productL {α : Type} : ∀ (ls : List (List α)) (l : List α),
    l ∈ productL ls ↔ List.Forall₂ (· ∈ ·) l ls
  | [], l => by
      simp only [productL, List.mem_singleton]
      constructor
      · rintro rfl; exact List.Forall₂.nil
      · intro h; cases h; rfl
  | x :: xs, l => by
      simp only [productL, List.mem_flatMap, List.mem_map]
      constructor
      · rintro ⟨a, ha, r, hr, rfl⟩
        exact List.Forall₂.cons ha ((mem_productL xs r).mp hr)
      · intro h
        cases h with
        | cons ha hr => exact ⟨_, ha, _, (mem_productL xs _).mpr hr, rfl⟩

theorem length_flatMap_const {α β : Type} (l : List α) (f : α → List β) (c : Nat)
    (h : ∀ x ∈ l, (f x).length = c) : (l.flatMap f).length = l.length * c := by
  induction l with
  | nil => simp
  | cons x xs ih =>
    simp only [List.flatMap_cons, List.length_append, List.length_cons]
    rw [h x List.mem_cons_self, ih (fun y hy => h y (List.mem_cons_of_mem _ hy))]
    ring

theorem length_productL {α : Type} : ∀ (ls : List (List α)),
    (productL ls).length = prodL (ls.map List.length)
  | [] => rfl
  | x :: xs => by
      simp only [productL, List.map_cons, prodL]
      rw [length_flatMap_const x _ (prodL (xs.map List.length))]
      intro a _
      simp [length_productL xs]

/-- number of tiles = product of the per-axis part counts -/
theorem splitShape_length (shape splits : List Nat) (h : shape.length = splits.length) :
    (splitShape shape splits).length = prodL (splits.map (max · 1)) := by
  unfold splitShape
  rw [length_productL]
  congr 1
  induction shape generalizing splits with
  | nil => cases splits <;> simp_all
  | cons s ss ih =>
    cases splits with
    | nil => simp at h
    | cons k ks =>
      simp only [List.zipWith_cons_cons, List.map_cons, splitAxis_length]
      rw [ih ks (by simpa using h)]

/-- every tile of the split is a box that is non-empty, in bounds and of the common extent, per axis -/
theorem splitShape_tiles_ok (shape splits : List Nat) (h : shape.length = splits.length)
    (hpos : ∀ n ∈ shape, 0 < n) (t : List (Nat × Nat)) (ht : t ∈ splitShape shape splits) :
    List.Forall₂ (fun (r : Nat × Nat) (Nk : Nat × Nat) =>
      r.1 < r.2 ∧ r.2 ≤ Nk.1 ∧ r.2 - r.1 = tileLen Nk.1 (max Nk.2 1)) t (List.zip shape splits) := by
  unfold splitShape at ht
  rw [mem_productL] at ht
  induction shape generalizing splits t with
  | nil =>
    cases splits with
    | nil => cases ht; exact List.Forall₂.nil
    | cons => simp at h
  | cons s ss ih =>
    cases splits with
    | nil => simp at h
    | cons k ks =>
      simp only [List.zipWith_cons_cons] at ht
      cases ht with
      | cons ha hr =>
        simp only [List.zip_cons_cons]
        refine List.Forall₂.cons ?_ (ih ks (by simpa using h) (fun n hn => hpos n (List.mem_cons_of_mem _ hn)) _ hr)
        obtain ⟨j, _, rfl⟩ := (mem_splitAxis s k _).mp ha
        exact tile_in_bounds s (max k 1) j (by omega) (hpos s (List.mem_cons_self))

/-- the union of the tiles is the whole shape: every in-shape voxel lies in some tile -/
theorem splitShape_covers (shape splits idx : List Nat) (h : shape.length = splits.length)
    (hidx : inShape shape idx = true) :
    ∃ t ∈ splitShape shape splits,
      List.Forall₂ (fun (r : Nat × Nat) (i : Nat) => r.1 ≤ i ∧ i < r.2) t idx := by
  unfold splitShape
  induction shape generalizing splits idx with
  | nil =>
    cases idx with
    | nil =>
      cases splits with
      | nil => exact ⟨[], by simp [productL], List.Forall₂.nil⟩
      | cons => simp at h
    | cons => simp [inShape] at hidx
  | cons s ss ih =>
    cases idx with
    | nil => simp [inShape] at hidx
    | cons i is =>
      cases splits with
      | nil => simp at h
      | cons k ks =>
        obtain ⟨hi, hr⟩ := inShape_cons.mp hidx
        obtain ⟨t, ht, hcov⟩ := ih ks is (by simpa using h) hr
        obtain ⟨j, hj, hlo, hhi⟩ := tiles_cover s (max k 1) i (by omega) hi
        refine ⟨tile s (max k 1) j :: t, ?_, List.Forall₂.cons ⟨hlo, hhi⟩ hcov⟩
        simp only [List.zipWith_cons_cons, productL, List.mem_flatMap, List.mem_map]
        exact ⟨_, (mem_splitAxis s k _).mpr ⟨j, hj, rfl⟩, t, ht, rfl⟩

/-! ## tile extraction with margin (`subset_array`) -/

theorem emod_cases (x N : Int) (hN : 0 < N) (h1 : -N ≤ x) (h2 : x < N) :
    x % N = if x < 0 then x + N else x := by
  split
  · have : (x + N) % N = x + N := Int.emod_eq_of_lt (by omega) (by omega)
    rw [← this]; simp
  · exact Int.emod_eq_of_lt (by omega) h2

/-! ### numpy `reflect` index facts -/
theorem reflect_mid (n : Nat) (x : Int) (h0 : 0 ≤ x) (h1 : x < n) : (reflectIdx n x : Int) = x := by
  unfold reflectIdx
  split
  · omega
  · simp only
    rw [Int.emod_eq_of_lt h0 (by omega), if_pos h1]; omega

theorem reflect_lo (n : Nat) (x : Int) (h0 : x < 0) (h1 : -x ≤ (n : Int) - 1) : (reflectIdx n x : Int) = -x := by
  unfold reflectIdx
  split
  · omega
  · simp only
    rw [emod_cases x (2 * ((n:Int) - 1)) (by omega) (by omega) (by omega), if_pos h0]
    split <;> omega

theorem reflect_hi (n : Nat) (x : Int) (h0 : (n : Int) ≤ x) (h1 : x ≤ 2 * ((n : Int) - 1)) (hn : 2 ≤ n) :
    (reflectIdx n x : Int) = 2 * ((n : Int) - 1) - x := by
  unfold reflectIdx
  split
  · omega
  · simp only
    by_cases hx : x = 2 * ((n : Int) - 1)
    · subst hx; simp; omega
    · rw [Int.emod_eq_of_lt (by omega) (by omega)]
      split <;> omega

theorem reflect_lt (n : Nat) (x : Int) (hn : 0 < n) : reflectIdx n x < n := by
  unfold reflectIdx
  split
  · omega
  · simp only
    have hP : (0:Int) < 2 * ((n:Int) - 1) := by omega
    have ha := Int.emod_nonneg x (ne_of_gt hP)
    have hb := Int.emod_lt_of_pos x hP
    split <;> omega

/-- the bookkeeping of `subset_array` in linear form -/
theorem tileAxis_fields (N start stop p : Nat) (h1 : start ≤ stop) (h2 : stop ≤ N) :
    let t := tileAxis N start stop p
    let left := (p + p % 2) / 2
    t.arrStart + t.dl = start ∧ t.arrStop = stop + t.dr ∧ t.padLo + t.dl = left ∧ t.padHi + t.dr = left ∧
    (t.dl = start ∨ t.dl = left) ∧ t.dl ≤ start ∧ t.dl ≤ left ∧
    (t.dr = N - stop ∨ t.dr = left) ∧ t.dr ≤ N - stop ∧ t.dr ≤ left := by
  intro t left
  have e1 : t.arrStart = start - min start left := rfl
  have e2 : t.arrStop = stop + min (N - stop) left := rfl
  have e3 : t.dl = min start left := rfl
  have e4 : t.dr = min (N - stop) left := rfl
  have e5 : t.padLo = left - min start left := rfl
  have e6 : t.padHi = left - min (N - stop) left := rfl
  omega

/-- the tile has the addressed extent plus the requested margin on both sides -/
theorem tileAxis_extent (N start stop p : Nat) (h1 : start ≤ stop) (h2 : stop ≤ N) :
    (tileAxis N start stop p).extent = (stop - start) + 2 * ((p + p % 2) / 2) := by
  simp only [tileAxis, TileAxis.extent]; omega

/-- addressed voxels and real neighbours: wherever the virtual position `start - left + q` lies
inside the volume the tile holds exactly that voxel -/
theorem tileAxis_src_real (N start stop p q : Nat) (h1 : start < stop) (h2 : stop ≤ N)
    (pos : Int) (hpos : pos = (start : Int) - ((p + p % 2) / 2 : Nat) + q)
    (hin : 0 ≤ pos ∧ pos < N) (hq : q < (tileAxis N start stop p).extent) :
    ((tileAxis N start stop p).src q : Int) = pos := by
  have hf := tileAxis_fields N start stop p (by omega) h2
  simp only [TileAxis.src, TileAxis.extent] at *
  generalize tileAxis N start stop p = t at *
  generalize (p + p % 2) / 2 = left at *
  obtain ⟨f1, f2, f3, f4, f5, f6, f7, f8, f9, f10⟩ := hf
  push_cast
  rw [reflect_mid _ _ (by omega) (by omega)]
  omega

/-- mirrored data beyond the low volume edge: position `-d` (for `d` up to the extracted extent − 1)
holds voxel `d` -/
theorem tileAxis_src_mirror_lo (N start stop p q : Nat) (h1 : start < stop) (h2 : stop ≤ N)
    (pos : Int) (hpos : pos = (start : Int) - ((p + p % 2) / 2 : Nat) + q)
    (hlo : pos < 0)
    (hfar : -pos ≤ ((tileAxis N start stop p).arrStop : Int) - (tileAxis N start stop p).arrStart - 1) :
    ((tileAxis N start stop p).src q : Int) = -pos := by
  have hf := tileAxis_fields N start stop p (by omega) h2
  simp only [TileAxis.src] at *
  generalize tileAxis N start stop p = t at *
  generalize (p + p % 2) / 2 = left at *
  obtain ⟨f1, f2, f3, f4, f5, f6, f7, f8, f9, f10⟩ := hf
  push_cast
  rw [reflect_lo _ _ (by omega) (by omega)]
  omega

/-- mirrored data beyond the high volume edge: position `N-1+d` holds voxel `N-1-d` -/
theorem tileAxis_src_mirror_hi (N start stop p q : Nat) (h1 : start < stop) (h2 : stop ≤ N)
    (pos : Int) (hpos : pos = (start : Int) - ((p + p % 2) / 2 : Nat) + q)
    (hhi : (N : Int) ≤ pos) (hq : q < (tileAxis N start stop p).extent)
    (hfar : pos - ((N : Int) - 1) ≤ ((tileAxis N start stop p).arrStop : Int) - (tileAxis N start stop p).arrStart - 1) :
    ((tileAxis N start stop p).src q : Int) = 2 * ((N : Int) - 1) - pos := by
  have hf := tileAxis_fields N start stop p (by omega) h2
  simp only [TileAxis.src, TileAxis.extent] at *
  generalize tileAxis N start stop p = t at *
  generalize (p + p % 2) / 2 = left at *
  obtain ⟨f1, f2, f3, f4, f5, f6, f7, f8, f9, f10⟩ := hf
  push_cast
  rw [reflect_hi _ _ (by omega) (by omega) (by omega)]
  omega

/-- whatever the margin (also larger than the remaining data) the tile only reads voxels of the
extracted range, hence of the volume -/
theorem tileAxis_src_in_volume (N start stop p q : Nat) (h1 : start < stop) (h2 : stop ≤ N) :
    (tileAxis N start stop p).arrStart ≤ (tileAxis N start stop p).src q ∧
    (tileAxis N start stop p).src q < (tileAxis N start stop p).arrStop ∧
    (tileAxis N start stop p).arrStop ≤ N := by
  have hf := tileAxis_fields N start stop p (by omega) h2
  simp only [TileAxis.src] at *
  generalize tileAxis N start stop p = t at *
  generalize (p + p % 2) / 2 = left at *
  obtain ⟨f1, f2, f3, f4, f5, f6, f7, f8, f9, f10⟩ := hf
  have hr := reflect_lt (t.arrStop - t.arrStart) ((q:Int) - (t.padLo : Int)) (by omega)
  omega

/-- the tile's offset (its un-padded start) places its scores back at the right position:
with margin `left = (m - m%2)/2` on both sides and a `valid` crop of the padded tile's linear
convolution, score index `j` is the translation `start + j` of the full volume
(`vs` = start of the valid crop, `(m-1)/2` = start of the zero-translation in the convolution). -/
theorem tile_offset_places_scores (nt m start j left np conv ext vs : Nat) (hm : 0 < m) (hnt : 0 < nt)
    (hleft : left = (targetPadding m + targetPadding m % 2) / 2)
    (hnp : np = nt + 2 * left)               -- padded tile extent
    (hconv : conv = np + m - 1)
    (hext : ext = np - m + m % 2)            -- valid extent
    (hvs : vs = (conv - ext) / 2) :          -- start of the valid crop
    ext = nt ∧ ((start : Int) - left) + ((j + vs : Nat) - ((m - 1) / 2 : Nat)) = start + j := by
  unfold targetPadding at hleft
  subst hnp hconv hext hvs
  omega

/-- no margin along a batch axis; elsewhere the margin of the template extent -/
theorem targetPaddingB_spec (m : Nat) (b : Bool) :
    targetPaddingB m b = if b then 0 else m - m % 2 := by
  unfold targetPaddingB targetPadding; rfl

/-! ## memory model and schedule -/

theorem coreAssignments_prod (maxCores : Nat) (oo : Bool) (io : Nat × Nat)
    (h : io ∈ coreAssignments maxCores oo) : io.1 * io.2 = maxCores := by
  unfold coreAssignments at h
  split at h
  · simp at h; subst h; simp
  · simp only [List.mem_flatMap, List.mem_range] at h
    obtain ⟨i0, _, hmem⟩ := h
    split at hmem
    · rename_i hd
      have e : (i0 + 1) * (maxCores / (i0 + 1)) = maxCores := Nat.mul_div_cancel' (Nat.dvd_of_mod_eq_zero hd)
      simp at hmem
      rcases hmem with rfl | rfl
      · exact e
      · rw [Nat.mul_comm]; exact e
    · simp at hmem

/-- what every schedule candidate satisfies -/
def CandOk (P : Problem) (c : Cand) : Prop :=
  c.outer * c.inner = P.maxCores ∧ c.outer ≤ prodL c.splits ∧ c.nSplits = prodL c.splits ∧
  (let us := (P.widths c.splits).map (fun w => P.est w c.inner)
   maxGroupUsage us c.outer (us.length + 1) 0 < P.maxRam)

theorem candsFor_ok (P : Problem) (factor : List Nat) (c : Cand) (h : c ∈ candsFor P factor) :
    CandOk P c := by
  unfold candsFor at h
  simp only [List.mem_filterMap] at h
  obtain ⟨⟨inner, outer⟩, hmem, hsome⟩ := h
  have hp := coreAssignments_prod _ _ _ hmem
  simp only at hsome
  split at hsome
  · simp at hsome
  · rename_i hle
    split at hsome
    · rename_i hram
      simp at hsome
      subst hsome
      refine ⟨?_, by simp at hle ⊢; omega, rfl, hram⟩
      simp at hp ⊢; rw [Nat.mul_comm]; exact hp
    · simp at hsome

theorem searchLoop_ok (P : Problem) (fuel : Nat) (factor : List Nat) (ax ai np : Nat) (acc : List Cand)
    (hacc : ∀ c ∈ acc, CandOk P c) : ∀ c ∈ searchLoop P fuel factor ax ai np acc, CandOk P c := by
  induction fuel generalizing factor ax ai np acc with
  | zero => simpa [searchLoop] using hacc
  | succ f ih =>
    unfold searchLoop
    split
    · exact hacc
    · apply ih
      intro c hc
      rcases List.mem_append.mp hc with h | h
      · exact hacc c h
      · exact candsFor_ok P factor c h

theorem foldl_select_mem {α : Type} (f : α → α → α) (hf : ∀ b x, f b x = b ∨ f b x = x) :
    ∀ (ys : List α) (b : α), ys.foldl f b ∈ b :: ys
  | [], b => by simp
  | y :: ys, b => by
    simp only [List.foldl_cons]
    have := foldl_select_mem f hf ys (f b y)
    rcases List.mem_cons.mp this with h | h
    · rcases hf b y with e | e
      · rw [e] at h ⊢; simp [h]
      · rw [e] at h ⊢; simp [h]
    · simp [h]

theorem pickBest_mem : ∀ (l : List Cand) (c : Cand), pickBest l = some c → c ∈ l
  | [], _, h => by simp [pickBest] at h
  | x :: xs, c, h => by
    simp only [pickBest, Option.some.injEq] at h
    subst h
    apply foldl_select_mem
    intro b y
    split <;> simp

/-- **Schedule soundness** (for every problem, every memory estimator): a returned schedule uses exactly
the allowed cores (`outer·inner = max_cores`, so never more), plans no more concurrent tiles than exist,
and the search's own estimate for every group of concurrent tiles is below the limit. -/
theorem schedule_sound (P : Problem) (fa fi : Nat) (c : Cand) (h : schedule P fa fi = some c) :
    c.outer * c.inner = P.maxCores ∧ c.outer ≤ prodL c.splits ∧
    (let us := (P.widths c.splits).map (fun w => P.est w c.inner)
     maxGroupUsage us c.outer (us.length + 1) 0 < P.maxRam) := by
  have hm := pickBest_mem _ _ h
  have := searchLoop_ok P _ _ _ _ _ [] (by simp) c hm
  exact ⟨this.1, this.2.1, this.2.2.2⟩

/-- … or it reports that none exists, exactly when no candidate passed the limits -/
theorem schedule_none_iff (P : Problem) (fa fi : Nat) :
    schedule P fa fi = none ↔
      searchLoop P (P.maxSplits + 2) (List.replicate P.ndim 1) fa fi 0 [] = [] := by
  unfold schedule
  cases searchLoop P (P.maxSplits + 2) (List.replicate P.ndim 1) fa fi 0 [] <;> simp [pickBest]

/-- the peak group estimate dominates every group that runs concurrently -/
theorem maxGroupUsage_ge_acc (us : List Nat) (outer fuel acc : Nat) :
    acc ≤ maxGroupUsage us outer fuel acc := by
  induction fuel generalizing us acc with
  | zero => simp [maxGroupUsage]
  | succ f ih =>
    unfold maxGroupUsage
    cases us with
    | nil => simp
    | cons u us' => exact le_trans (le_max_left _ _) (ih _ _)


/-! ## deepening: more split_shape / subset_array / schedule facts -/

/-- tile starts are monotone in the tile number: tiles are ordered along the axis -/
theorem tileStart_mono (N k j j' : Nat) (h : j ≤ j') : tileStart N k j ≤ tileStart N k j' := by
  unfold tileStart
  have := Nat.mul_le_mul_right (tileLen N k) h
  omega

/-- two tiles of one axis are either the same box or strictly ordered by their start -/
theorem tile_eq_or_ordered (N k j j' : Nat) (h : j ≤ j') :
    tile N k j = tile N k j' ∨ (tile N k j).1 < (tile N k j').1 := by
  have hm := tileStart_mono N k j j' h
  simp only [tile]
  rcases Nat.eq_or_lt_of_le hm with e | e
  · left; rw [e]
  · right; exact e

/-- the first tile starts at the origin of the axis -/
theorem tile_first (N k : Nat) : (tile N k 0).1 = 0 := by
  simp [tile, tileStart]

/-- the last tile ends at the end of the axis -/
theorem tile_last (N k : Nat) (hk : 0 < k) (hN : 0 < N) : (tile N k (k - 1)).2 = N := by
  have h1 := cdiv_le N k hk hN
  have h2 := mul_cdiv_ge N k hk
  have e : k * cdiv N k = (k - 1) * cdiv N k + cdiv N k := by
    obtain ⟨k', rfl⟩ : ∃ k', k = k' + 1 := ⟨k - 1, by omega⟩
    simp; ring
  simp only [tile, tileStart, tileLen]
  omega

/-- one part per axis (also for a missing / zero split count): the single tile is the whole axis -/
theorem splitAxis_one (N : Nat) : splitAxis N 1 = [(0, N)] ∧ splitAxis N 0 = [(0, N)] := by
  simp [splitAxis, tile, tileStart, tileLen, cdiv]

/-- at least as many parts as voxels: the common tile extent is one voxel -/
theorem tileLen_of_ge (N k : Nat) (hN : 0 < N) (hk : N ≤ k) : tileLen N k = 1 := by
  unfold tileLen cdiv
  apply Nat.div_eq_of_lt_le <;> omega

/-- … so every tile of such a split is a single voxel -/
theorem splitAxis_ge_single_voxel (N k : Nat) (hN : 0 < N) (hk : N ≤ k) (t : Nat × Nat)
    (ht : t ∈ splitAxis N k) : t.2 = t.1 + 1 ∧ t.1 < N := by
  obtain ⟨j, _, rfl⟩ := (mem_splitAxis N k t).mp ht
  have hb := tile_in_bounds N (max k 1) j (by omega) hN
  have hl := tileLen_of_ge N (max k 1) hN (by omega)
  omega

/-- voxel count of every tile of the n-D split = product of the per-axis extents `⌈N/k⌉` -/
theorem splitShape_tile_volume (shape splits : List Nat) (h : shape.length = splits.length)
    (hpos : ∀ n ∈ shape, 0 < n) (t : List (Nat × Nat)) (ht : t ∈ splitShape shape splits) :
    prodL (t.map (fun r => r.2 - r.1)) =
      prodL (List.zipWith (fun N k => tileLen N (max k 1)) shape splits) := by
  have hok := splitShape_tiles_ok shape splits h hpos t ht
  clear ht
  induction shape generalizing splits t with
  | nil =>
    cases splits with
    | nil => cases hok; rfl
    | cons => simp at h
  | cons s ss ih =>
    cases splits with
    | nil => simp at h
    | cons k ks =>
      simp only [List.zip_cons_cons] at hok
      cases hok with
      | cons ha hr =>
        simp only [List.map_cons, List.zipWith_cons_cons, prodL]
        rw [ih ks (by simpa using h) (fun n hn => hpos n (List.mem_cons_of_mem _ hn)) _ hr, ha.2.2]

/-- in-tile coordinates from a covering box: `start + j = voxel`, `j` inside the tile, per axis -/
theorem cover_to_local : ∀ (t : List (Nat × Nat)) (idx : List Nat),
    List.Forall₂ (fun (r : Nat × Nat) (i : Nat) => r.1 ≤ i ∧ i < r.2) t idx →
    ∃ js : List Nat, List.Forall₂ (fun (r : Nat × Nat) (j : Nat) => j < r.2 - r.1) t js ∧
      List.zipWith (fun (r : Nat × Nat) (j : Nat) => r.1 + j) t js = idx := by
  intro t idx hc
  induction hc with
  | nil => exact ⟨[], List.Forall₂.nil, rfl⟩
  | @cons r i rs is h _ ih =>
    obtain ⟨js, h1, h2⟩ := ih
    refine ⟨(i - r.1) :: js, List.Forall₂.cons (by omega) h1, ?_⟩
    simp only [List.zipWith_cons_cons, h2]
    congr 1; omega

/-- reassembly in n dimensions (offset clause): every voxel of the shape is `offset + j` for some tile
of the split and an in-tile index `j` -/
theorem splitShape_reassemble (shape splits idx : List Nat) (h : shape.length = splits.length)
    (hidx : inShape shape idx = true) :
    ∃ t ∈ splitShape shape splits, ∃ js : List Nat,
      List.Forall₂ (fun (r : Nat × Nat) (j : Nat) => j < r.2 - r.1) t js ∧
      List.zipWith (fun (r : Nat × Nat) (j : Nat) => r.1 + j) t js = idx := by
  obtain ⟨t, ht, hc⟩ := splitShape_covers shape splits idx h hidx
  exact ⟨t, ht, cover_to_local t idx hc⟩


/-- real neighbours where they exist: a tile whose margin fits inside the volume mirrors nothing and
extracts exactly `[start - left, stop + left)` -/
theorem tileAxis_interior (N start stop p : Nat) (h1 : start ≤ stop) (h2 : stop ≤ N)
    (hlo : (p + p % 2) / 2 ≤ start) (hhi : stop + (p + p % 2) / 2 ≤ N) :
    let t := tileAxis N start stop p
    t.padLo = 0 ∧ t.padHi = 0 ∧ t.arrStart = start - (p + p % 2) / 2 ∧
    t.arrStop = stop + (p + p % 2) / 2 := by
  simp only [tileAxis]; omega

/-- mirrored voxels appear only at a volume edge: a low pad means the extraction starts at voxel 0,
a high pad means it ends at voxel `N` -/
theorem tileAxis_pad_only_at_edge (N start stop p : Nat) (h1 : start ≤ stop) (h2 : stop ≤ N) :
    let t := tileAxis N start stop p
    (0 < t.padLo → t.arrStart = 0) ∧ (0 < t.padHi → t.arrStop = N) := by
  simp only [tileAxis]; omega

/-- without margin the tile is the addressed range itself: position `q` holds voxel `start + q` -/
theorem tileAxis_no_margin (N start stop q : Nat) (h1 : start < stop) (h2 : stop ≤ N)
    (hq : q < stop - start) :
    (tileAxis N start stop 0).extent = stop - start ∧ (tileAxis N start stop 0).src q = start + q := by
  have he := tileAxis_extent N start stop 0 (by omega) h2
  have hs := tileAxis_src_real N start stop 0 q h1 h2 ((start : Int) + q) (by simp) (by omega)
    (by rw [he]; omega)
  constructor
  · simpa using he
  · exact_mod_cast hs

/-- the margin requested by `target_padding` is even and at most the template extent -/
theorem targetPadding_even_le (m : Nat) : targetPadding m % 2 = 0 ∧ targetPadding m ≤ m ∧
    m ≤ targetPadding m + 1 := by
  unfold targetPadding; omega

/-- every core assignment uses positive core counts, none exceeding `max_cores` -/
theorem coreAssignments_bounds (maxCores : Nat) (oo : Bool) (io : Nat × Nat) (hm : 0 < maxCores)
    (h : io ∈ coreAssignments maxCores oo) :
    0 < io.1 ∧ io.1 ≤ maxCores ∧ 0 < io.2 ∧ io.2 ≤ maxCores := by
  have hp := coreAssignments_prod maxCores oo io h
  have h1 : 0 < io.1 := Nat.pos_of_ne_zero (by rintro e; rw [e] at hp; omega)
  have h2 : 0 < io.2 := Nat.pos_of_ne_zero (by rintro e; rw [e] at hp; omega)
  refine ⟨h1, ?_, h2, ?_⟩
  · exact Nat.le_of_dvd hm ⟨_, hp.symm⟩
  · exact Nat.le_of_dvd hm ⟨_, by rw [Nat.mul_comm]; exact hp.symm⟩

/-- `analyzer_method == "MaxScoreOverRotations"`-style outer-only mode: one core per tile -/
theorem coreAssignments_onlyOuter (maxCores : Nat) : coreAssignments maxCores true = [(1, maxCores)] := by
  simp [coreAssignments]

/-- the two extreme assignments (all cores inside one tile / one core per tile) are always tried -/
theorem coreAssignments_extremes (maxCores : Nat) (hm : 0 < maxCores) :
    (1, maxCores) ∈ coreAssignments maxCores false ∧ (maxCores, 1) ∈ coreAssignments maxCores false := by
  have hs : 0 < Nat.sqrt maxCores := Nat.sqrt_pos.mpr hm
  simp only [coreAssignments, Bool.false_eq_true, if_false, List.mem_flatMap, List.mem_range]
  constructor
  · exact ⟨0, hs, by simp [Nat.mod_one]⟩
  · exact ⟨0, hs, by simp [Nat.mod_one]⟩

/-- the assignment list is symmetric: with `(inner, outer)` also `(outer, inner)` is tried -/
theorem coreAssignments_symm (maxCores a b : Nat) (h : (a, b) ∈ coreAssignments maxCores false) :
    (b, a) ∈ coreAssignments maxCores false := by
  simp only [coreAssignments, Bool.false_eq_true, if_false, List.mem_flatMap, List.mem_range] at h ⊢
  obtain ⟨i0, hi, hmem⟩ := h
  refine ⟨i0, hi, ?_⟩
  split at hmem
  · rename_i hd
    rw [if_pos hd]
    simp only [List.mem_cons, Prod.mk.injEq, List.not_mem_nil, or_false] at hmem ⊢
    rcases hmem with ⟨rfl, rfl⟩ | ⟨rfl, rfl⟩
    · right; exact ⟨rfl, rfl⟩
    · left; exact ⟨rfl, rfl⟩
  · simp at hmem

/-- the peak group estimate is monotone in the running maximum -/
theorem maxGroupUsage_mono_acc (us : List Nat) (outer fuel acc acc' : Nat) (h : acc ≤ acc') :
    maxGroupUsage us outer fuel acc ≤ maxGroupUsage us outer fuel acc' := by
  induction fuel generalizing us acc acc' with
  | zero => simpa [maxGroupUsage] using h
  | succ f ih =>
    unfold maxGroupUsage
    cases us with
    | nil => simpa using h
    | cons u us' => exact ih _ _ _ (by omega)

/-- the peak dominates the first group of concurrent tiles -/
theorem maxGroupUsage_ge_first (us : List Nat) (outer fuel acc : Nat) (hne : us ≠ []) :
    (us.take outer).foldl (· + ·) 0 ≤ maxGroupUsage us outer (fuel + 1) acc := by
  unfold maxGroupUsage
  cases us with
  | nil => exact absurd rfl hne
  | cons u us' => exact le_trans (le_max_right _ _) (maxGroupUsage_ge_acc _ _ _ _)

/-- lexicographic order `(n_splits, inits)` used by `lexsort` -/
def candLe (c x : Cand) : Prop :=
  c.nSplits < x.nSplits ∨ (c.nSplits = x.nSplits ∧ c.inits ≤ x.inits)

theorem foldl_pick_le : ∀ (ys : List Cand) (b : Cand),
    candLe (ys.foldl (fun b x =>
      if x.nSplits < b.nSplits ∨ (x.nSplits = b.nSplits ∧ x.inits < b.inits) then x else b) b) b ∧
    ∀ y ∈ ys, candLe (ys.foldl (fun b x =>
      if x.nSplits < b.nSplits ∨ (x.nSplits = b.nSplits ∧ x.inits < b.inits) then x else b) b) y
  | [], b => by simp [candLe]
  | y :: ys, b => by
    simp only [List.foldl_cons, List.mem_cons]
    have ih := foldl_pick_le ys (if y.nSplits < b.nSplits ∨ (y.nSplits = b.nSplits ∧ y.inits < b.inits) then y else b)
    generalize List.foldl _ _ ys = r at ih ⊢
    obtain ⟨i1, i2⟩ := ih
    unfold candLe at *
    split at i1
    · refine ⟨by omega, ?_⟩
      rintro z (rfl | hz)
      · omega
      · exact i2 z hz
    · refine ⟨by omega, ?_⟩
      rintro z (rfl | hz)
      · omega
      · exact i2 z hz

/-- the selected schedule is minimal for `(n_splits, inits)` among all candidates -/
theorem pickBest_minimal (l : List Cand) (c : Cand) (h : pickBest l = some c) :
    ∀ x ∈ l, candLe c x := by
  cases l with
  | nil => simp [pickBest] at h
  | cons a as =>
    simp only [pickBest, Option.some.injEq] at h
    subst h
    have := foldl_pick_le as a
    intro x hx
    rcases List.mem_cons.mp hx with rfl | hx
    · exact this.1
    · exact this.2 x hx

/-- **Schedule optimality**: the returned schedule is one of the admissible candidates of the search and
no admissible candidate has fewer tiles, or as many tiles with fewer job initialisations -/
theorem schedule_minimal (P : Problem) (fa fi : Nat) (c : Cand) (h : schedule P fa fi = some c) :
    c ∈ searchLoop P (P.maxSplits + 2) (List.replicate P.ndim 1) fa fi 0 [] ∧
    ∀ x ∈ searchLoop P (P.maxSplits + 2) (List.replicate P.ndim 1) fa fi 0 [], candLe c x :=
  ⟨pickBest_mem _ _ h, pickBest_minimal _ _ h⟩

/-- candidates record `inits = n_splits / outer` and the tile count of their split vector -/
theorem candsFor_fields (P : Problem) (factor : List Nat) (c : Cand) (h : c ∈ candsFor P factor) :
    c.splits = factor ∧ c.nSplits = prodL factor ∧ c.inits = prodL factor / c.outer := by
  unfold candsFor at h
  simp only [List.mem_filterMap] at h
  obtain ⟨⟨inner, outer⟩, _, hsome⟩ := h
  simp only at hsome
  split at hsome
  · simp at hsome
  · split at hsome
    · simp at hsome; subst hsome; exact ⟨rfl, rfl, rfl⟩
    · simp at hsome


/-- start of the last tile: the axis end minus the common extent -/
theorem tileStart_last (N k : Nat) (hk : 0 < k) (hN : 0 < N) : tileStart N k (k - 1) = N - tileLen N k := by
  have h := tile_last N k hk hN
  have h1 := cdiv_le N k hk hN
  simp only [tile, tileStart, tileLen] at h ⊢
  omega

/-- tiles on the regular grid start at `j·⌈N/k⌉`; every tile that would leave the axis is shifted back
and coincides with the last tile (these are the duplicates of an over-split axis) -/
theorem tile_regular_or_last (N k j : Nat) (hk : 0 < k) (hN : 0 < N) :
    (tile N k j).1 = j * tileLen N k ∨ tile N k j = tile N k (k - 1) := by
  have hl := tileStart_last N k hk hN
  by_cases hc : j * tileLen N k ≤ N - tileLen N k
  · left; simp only [tile, tileStart]; omega
  · right
    have : tileStart N k j = N - tileLen N k := by unfold tileStart; omega
    simp only [tile, this, hl]

theorem maxGroupUsage_nil (outer fuel acc : Nat) : maxGroupUsage [] outer fuel acc = acc := by
  cases fuel <;> simp [maxGroupUsage]

/-- all tiles concurrent (`outer ≥` number of tiles): the estimate is the sum over all tiles -/
theorem maxGroupUsage_all_concurrent (us : List Nat) (outer fuel : Nat) (hne : us ≠ [])
    (ho : us.length ≤ outer) :
    maxGroupUsage us outer (fuel + 1) 0 = us.foldl (· + ·) 0 := by
  unfold maxGroupUsage
  cases us with
  | nil => exact absurd rfl hne
  | cons u us' =>
    simp only
    rw [List.take_of_length_le ho, List.drop_eq_nil_of_le (by omega), maxGroupUsage_nil]
    omega

/-- the peak dominates *every* group of concurrent tiles (group `i` = tiles `i·outer … i·outer+outer-1`) -/
theorem maxGroupUsage_ge_group (i : Nat) : ∀ (us : List Nat) (outer fuel acc : Nat), i < fuel →
    us.drop (i * max outer 1) ≠ [] →
    ((us.drop (i * max outer 1)).take outer).foldl (· + ·) 0 ≤ maxGroupUsage us outer fuel acc := by
  induction i with
  | zero =>
    intro us outer fuel acc hf hne
    obtain ⟨f, rfl⟩ : ∃ f, fuel = f + 1 := ⟨fuel - 1, by omega⟩
    simp only [Nat.zero_mul, List.drop_zero] at hne ⊢
    exact maxGroupUsage_ge_first us outer f acc hne
  | succ i ih =>
    intro us outer fuel acc hf hne
    obtain ⟨f, rfl⟩ : ∃ f, fuel = f + 1 := ⟨fuel - 1, by omega⟩
    have e : us.drop ((i + 1) * max outer 1) = (us.drop (max outer 1)).drop (i * max outer 1) := by
      rw [List.drop_drop]; congr 1; ring
    rw [e] at hne ⊢
    unfold maxGroupUsage
    cases us with
    | nil => simp at hne
    | cons u us' => exact ih _ outer f _ (by omega) hne

/-- candidates already collected are kept by the search -/
theorem searchLoop_keeps (P : Problem) (fuel : Nat) (factor : List Nat) (ax ai np : Nat) (acc : List Cand) :
    ∀ c ∈ acc, c ∈ searchLoop P fuel factor ax ai np acc := by
  induction fuel generalizing factor ax ai np acc with
  | zero => intro c hc; simpa [searchLoop] using hc
  | succ f ih =>
    intro c hc
    unfold searchLoop
    split
    · exact hc
    · exact ih _ _ _ _ _ c (List.mem_append_left _ hc)

theorem prodL_replicate_one (n : Nat) : prodL (List.replicate n 1) = 1 := by
  induction n with
  | zero => rfl
  | succ n ih => simp [List.replicate_succ, prodL, ih]

/-- the unsplit problem is always examined first: if some core assignment fits the limit without
splitting, a schedule is returned and it does not split (`n_splits = 1`) -/
theorem schedule_unsplit_preferred (P : Problem) (fa fi : Nat) (x : Cand)
    (hx : x ∈ candsFor P (List.replicate P.ndim 1)) :
    ∃ c, schedule P fa fi = some c ∧ c.nSplits ≤ 1 := by
  have hmem : x ∈ searchLoop P (P.maxSplits + 2) (List.replicate P.ndim 1) fa fi 0 [] := by
    rw [show P.maxSplits + 2 = (P.maxSplits + 1) + 1 from rfl]
    unfold searchLoop
    rw [if_neg (by omega)]
    exact searchLoop_keeps _ _ _ _ _ _ _ x (by simpa using hx)
  cases hs : schedule P fa fi with
  | none =>
    rw [schedule_none_iff] at hs
    rw [hs] at hmem; simp at hmem
  | some c =>
    refine ⟨c, rfl, ?_⟩
    have hmin := (schedule_minimal P fa fi c hs).2 x hmem
    have hf := candsFor_fields P _ x hx
    rw [prodL_replicate_one] at hf
    unfold candLe at hmin
    omega

/-- one part along every axis: the only tile is the whole shape -/
theorem splitShape_unsplit (shape : List Nat) :
    splitShape shape (List.replicate shape.length 1) = [shape.map (fun n => (0, n))] := by
  unfold splitShape
  induction shape with
  | nil => rfl
  | cons s ss ih =>
    simp only [List.length_cons, List.replicate_succ, List.zipWith_cons_cons, productL, ih,
      (splitAxis_one s).1]
    simp


/-- generic invariant of the search: whatever holds for the candidates of every split vector holds for
everything the search returns -/
theorem searchLoop_all (P : Problem) (Q : Cand → Prop)
    (hQ : ∀ factor c, c ∈ candsFor P factor → Q c) (fuel : Nat) (factor : List Nat) (ax ai np : Nat)
    (acc : List Cand) (hacc : ∀ c ∈ acc, Q c) : ∀ c ∈ searchLoop P fuel factor ax ai np acc, Q c := by
  induction fuel generalizing factor ax ai np acc with
  | zero => simpa [searchLoop] using hacc
  | succ f ih =>
    unfold searchLoop
    split
    · exact hacc
    · apply ih
      intro c hc
      rcases List.mem_append.mp hc with h | h
      · exact hacc c h
      · exact hQ factor c h

/-- the job count of a schedule: `inits = n_splits // outer`, at least one round, and the rounds of
`outer` concurrent tiles never exceed the tiles that exist -/
theorem schedule_inits (P : Problem) (fa fi : Nat) (c : Cand) (hm : 0 < P.maxCores)
    (h : schedule P fa fi = some c) :
    c.inits = c.nSplits / c.outer ∧ 1 ≤ c.inits ∧ c.inits * c.outer ≤ c.nSplits := by
  have hmem := pickBest_mem _ _ h
  have hf := searchLoop_all P (fun c => c.nSplits = prodL c.splits ∧ c.inits = c.nSplits / c.outer)
    (fun factor c hc => by
      have := candsFor_fields P factor c hc
      rw [this.1, this.2.1, this.2.2]; exact ⟨rfl, rfl⟩) _ _ _ _ _ [] (by simp) c hmem
  have hs := schedule_sound P fa fi c h
  have ho : 0 < c.outer := Nat.pos_of_ne_zero (by rintro e; rw [e] at hs; omega)
  obtain ⟨hn, hi⟩ := hf
  have hle : c.outer ≤ c.nSplits := by rw [hn]; exact hs.2.1
  refine ⟨hi, ?_, ?_⟩
  · rw [hi]; exact Nat.div_pos hle ho
  · rw [hi]; exact Nat.div_mul_le_self _ _

theorem length_bump (l : List Nat) (ax : Nat) : (bump l ax).length = l.length := by
  simp [bump]

/-- the split vector of every candidate has one entry per dimension -/
theorem searchLoop_splits_length (P : Problem) (fuel : Nat) (factor : List Nat) (ax ai np : Nat)
    (acc : List Cand) (n : Nat) (hfac : factor.length = n) (hacc : ∀ c ∈ acc, c.splits.length = n) :
    ∀ c ∈ searchLoop P fuel factor ax ai np acc, c.splits.length = n := by
  induction fuel generalizing factor ax ai np acc with
  | zero => simpa [searchLoop] using hacc
  | succ f ih =>
    unfold searchLoop
    split
    · exact hacc
    · apply ih _ _ _ _ _ (by rw [length_bump]; exact hfac)
      intro c hc
      rcases List.mem_append.mp hc with h | h
      · exact hacc c h
      · rw [(candsFor_fields P factor c h).1]; exact hfac

/-- a returned schedule gives a split count for each of the `ndim` axes -/
theorem schedule_splits_length (P : Problem) (fa fi : Nat) (c : Cand) (h : schedule P fa fi = some c) :
    c.splits.length = P.ndim :=
  searchLoop_splits_length P _ _ _ _ _ [] P.ndim (by simp) (by simp) c (pickBest_mem _ _ h)

/-! ### memory estimate -/

/-- `estimate_ram_usage` fails exactly for an unregistered score -/
theorem estimateRam_none_iff (s1 s2 : List Nat) (method : String) (nc : Nat) (an be : Option String)
    (fb cb : Nat) : estimateRam s1 s2 method nc an be fb cb = none ↔ lookupMem method = none := by
  unfold estimateRam
  cases lookupMem method <;> simp

/-- the per-class usage grows with the number of cores (`base + per_fork · ncores`) -/
theorem usage_mono_cores (c : MemCoef) (real cplx fb cb n n' : Nat) (h : n ≤ n') :
    usage c real cplx fb cb n ≤ usage c real cplx fb cb n' := by
  unfold usage
  exact Nat.add_le_add_left (Nat.mul_le_mul_left _ h) _

/-- … and so does the whole estimate: more inner cores never lower the estimated memory -/
theorem estimateRam_mono_cores (s1 s2 : List Nat) (method : String) (n n' : Nat) (an be : Option String)
    (fb cb a b : Nat) (h : n ≤ n')
    (ha : estimateRam s1 s2 method n an be fb cb = some a)
    (hb : estimateRam s1 s2 method n' an be fb cb = some b) : a ≤ b := by
  unfold estimateRam at ha hb
  cases hl : lookupMem method with
  | none => rw [hl] at ha; simp at ha
  | some c =>
    rw [hl] at ha hb
    simp only [Option.some.injEq] at ha hb
    subst ha hb
    refine Nat.add_le_add (Nat.add_le_add (usage_mono_cores _ _ _ _ _ _ _ h) ?_) ?_
    · cases an.bind lookupMem with
      | none => simp
      | some c' => exact usage_mono_cores _ _ _ _ _ _ _ h
    · cases be.bind lookupMem with
      | none => simp
      | some c' => exact usage_mono_cores _ _ _ _ _ _ _ h

theorem nextFastFrom_ge (f n : Nat) : n ≤ nextFastFrom f n := by
  induction f generalizing n with
  | zero => simp [nextFastFrom]
  | succ f ih =>
    unfold nextFastFrom
    split
    · exact Nat.le_refl _
    · exact Nat.le_trans (Nat.le_succ n) (ih (n + 1))

/-- the FFT-friendly length used by the estimate is never below the convolution length -/
theorem nextFastLen_ge (n : Nat) : n ≤ nextFastLen n := by
  unfold nextFastLen
  split
  · omega
  · exact nextFastFrom_ge _ _


/-- tiles on the regular grid have strictly increasing starts (they are pairwise distinct) -/
theorem tileStart_strict_regular (N k j j' : Nat) (hk : 0 < k) (hN : 0 < N) (h : j < j')
    (hreg : j' * tileLen N k ≤ N - tileLen N k) : tileStart N k j < tileStart N k j' := by
  have hL : 0 < tileLen N k := cdiv_pos N k hk hN
  have : j * tileLen N k < j' * tileLen N k := Nat.mul_lt_mul_of_pos_right h hL
  unfold tileStart
  omega

/-- consecutive tiles leave no gap: the next tile starts at or before the end of the current one -/
theorem tile_no_gap (N k j : Nat) : (tile N k (j + 1)).1 ≤ (tile N k j).2 := by
  have e : (j + 1) * tileLen N k = j * tileLen N k + tileLen N k := by ring
  simp only [tile, tileStart]
  omega

/-- all padded tiles of one axis have the same extent `⌈N/k⌉ + 2·margin` (needed for `equal_shape`:
one FFT plan serves every tile) -/
theorem splitAxis_padded_extent (N k p : Nat) (hN : 0 < N) (t : Nat × Nat) (ht : t ∈ splitAxis N k) :
    (tileAxis N t.1 t.2 p).extent = tileLen N (max k 1) + 2 * ((p + p % 2) / 2) := by
  obtain ⟨j, _, rfl⟩ := (mem_splitAxis N k t).mp ht
  have hb := tile_in_bounds N (max k 1) j (by omega) hN
  rw [tileAxis_extent N _ _ p (by omega) hb.2.1, hb.2.2]

/-- no cores allowed: no schedule exists -/
theorem schedule_zero_cores (P : Problem) (fa fi : Nat) (h0 : P.maxCores = 0) (hoo : P.onlyOuter = false) :
    schedule P fa fi = none := by
  rw [schedule_none_iff]
  have := searchLoop_all P (fun _ => False) (fun factor c hc => by
    unfold candsFor at hc
    simp [coreAssignments, h0, hoo] at hc) (P.maxSplits + 2) (List.replicate P.ndim 1) fa fi 0 [] (by simp)
  exact List.eq_nil_iff_forall_not_mem.mpr (fun c hc => this c hc)

/-- outer-only mode: the schedule runs `max_cores` tiles concurrently with one core each -/
theorem schedule_onlyOuter (P : Problem) (fa fi : Nat) (c : Cand) (hoo : P.onlyOuter = true)
    (h : schedule P fa fi = some c) : c.inner = 1 ∧ c.outer = P.maxCores := by
  refine searchLoop_all P (fun c => c.inner = 1 ∧ c.outer = P.maxCores) (fun factor c hc => ?_)
    _ _ _ _ _ [] (by simp) c (pickBest_mem _ _ h)
  unfold candsFor at hc
  simp only [List.mem_filterMap, hoo, coreAssignments_onlyOuter, List.mem_singleton] at hc
  obtain ⟨io, rfl, hsome⟩ := hc
  simp only at hsome
  split at hsome
  · simp at hsome
  · split at hsome
    · simp at hsome; subst hsome; exact ⟨rfl, rfl⟩
    · simp at hsome

/-! ## non-vacuity -/
example : splitAxis 10 7 = [(0,2),(2,4),(4,6),(6,8),(8,10),(8,10),(8,10)] := by decide
example : splitAxisOld 10 7 = [(0,2),(2,4),(4,6),(6,8),(8,10),(10,12),(8,10)] := by decide
example : (splitShape [5,4] [2,2]).length = 4 := by decide
example : ((tileAxis 10 0 4 4).src 0, (tileAxis 10 0 4 4).src 1, (tileAxis 10 0 4 4).src 2, (tileAxis 10 0 4 4).extent) = (2, 1, 0, 8) := by decide
example : splitAxisU 10 7 = [(0,1),(1,2),(2,3),(3,4),(4,5),(5,6),(6,10)] := by decide
example : coreAssignments 12 false = [(1,12),(12,1),(2,6),(6,2),(3,4),(4,3)] := by decide +kernel

example : splitAxis 3 5 = [(0,1),(1,2),(2,3),(2,3),(2,3)] := by decide
example : (4 : Nat) ≤ 6 ∧ 6 ≤ 10 ∧ (2 + 2 % 2) / 2 ≤ 4 ∧ 6 + (2 + 2 % 2) / 2 ≤ 10 := by decide
example : ((tileAxis 10 4 6 2).arrStart, (tileAxis 10 4 6 2).arrStop, (tileAxis 10 4 6 2).padLo) = (3, 7, 0) := by decide
example : maxGroupUsage [3, 4, 5] 2 4 0 = 7 ∧ maxGroupUsage [3, 4, 5] 3 4 0 = 12 := by decide
example : (schedule ⟨1, fun _ => [[1]], fun _ _ => 0, 1, 10, 1, false, [0], 0⟩ 0 0).isSome = true := by
  decide +kernel
example : (candsFor ⟨1, fun _ => [[1]], fun _ _ => 0, 1, 10, 1, false, [0], 0⟩ [1]).length = 2 := by
  decide +kernel

example : estimateRam [4,4] [2,2] "CC" 1 none none 4 8 ≠ none ∧
    estimateRam [4,4] [2,2] "nope" 1 none none 4 8 = none := by decide +kernel

example : (1 : Nat) * tileLen 10 3 ≤ 10 - tileLen 10 3 := by decide

end Pm.C14
