import PytmeModel.Model.C05
import PytmeModel.Proofs.C05
import PytmeModel.Proofs.C05Call
import PytmeModel.Proofs.C05Fast
import PytmeModel.Proofs.C05Hist
import PytmeModel.Proofs.C05Post

/-!
# C05 — reported peaks are in bounds, separated, limited, and agree with the score map

Statements are about the executable model `Pm.C05` (Model/C05.lean), which mirrors
`tme/analyzer.py` (`PeakCaller.__call__`, `_update`, `merge`, `_postprocess`, the five
`call_peaks`), the C++ `find_candidate_indices<int64>`, `topk_indices`,
`max_filter_coordinates` and `split_shape` *after* the `fix:` commits; the pre-fix functions
(`ppAxisOld`, `callMaxFilterConst`, `tileStartsOld`) are kept for the `…_current_defect` witnesses.

* `run cfg strat subs`  = `tuple(peak_caller)` after submitting `subs` (any length, any shapes).
* `merge cfg off [] parts` = `PeakCaller.merge(parts, offset=off)`.
* Library answers with unspecified tie order (`argpartition`, `argsort`) and
  `skimage.peak_local_max` are oracle arguments; `HistOk` / `MaxOrcOk` / `MergeOk` say they meet the
  contracts the harness checks on every recorded answer (`TopkOk_of_isTopK`).  With no oracle the
  deterministic model is used and the contracts hold by `histOk_none`, `maxOrcOk_none`, `mergeOk_none`.
* The separation clause needs `0 < min_distance` (`min_distance = 0` switches the filter off by design).
-/
namespace Pm.C05

/-! ## every strategy, any history of submissions -/

/-- **master invariant**: every reported peak is justified by one of the submissions — an in-bounds
translation of that array, with that array's value and that submission's rotation, inside the
configured score window and boundary margin. -/
theorem peaks_submitted (cfg : Cfg) (strat : Strategy) (subs : List Sub)
    (hwf : ∀ s ∈ subs, WF s.scores) (hok : HistOk cfg strat [] subs) :
    ∀ p ∈ run cfg strat subs, ∃ s ∈ subs, Submitted cfg s p := by
  intro p hp
  have := run_aux_submitted subs [] [] hwf hok (by simp) p hp
  simpa using this

/-- every reported peak lies inside the scored volume -/
theorem peaks_in_bounds (cfg : Cfg) (strat : Strategy) (subs : List Sub)
    (hwf : ∀ s ∈ subs, WF s.scores) (hok : HistOk cfg strat [] subs) :
    ∀ p ∈ run cfg strat subs, ∃ s ∈ subs, ∃ c : List Nat,
      p.pos = c.map Int.ofNat ∧ inShape s.scores.shape c = true := by
  intro p hp
  obtain ⟨s, hs, c, hc, hpos, _⟩ := peaks_submitted cfg strat subs hwf hok p hp
  exact ⟨s, hs, c, hpos, hc⟩

/-- it carries exactly the score and the rotation that were submitted at that translation -/
theorem peaks_score_rotation_match (cfg : Cfg) (strat : Strategy) (subs : List Sub)
    (hwf : ∀ s ∈ subs, WF s.scores) (hok : HistOk cfg strat [] subs) :
    ∀ p ∈ run cfg strat subs, ∃ s ∈ subs, ∃ c : List Nat,
      p.pos = c.map Int.ofNat ∧ p.rot = s.rot ∧ p.score = s.scores.getD c 0 := by
  intro p hp
  obtain ⟨s, hs, c, _, hpos, hrot, hsc, _⟩ := peaks_submitted cfg strat subs hwf hok p hp
  exact ⟨s, hs, c, hpos, hrot, hsc⟩

/-- it respects the score window and the boundary margin (per axis `mb ≤ c < shape - mb`) -/
theorem peaks_respect_window_margin (cfg : Cfg) (strat : Strategy) (subs : List Sub)
    (hwf : ∀ s ∈ subs, WF s.scores) (hok : HistOk cfg strat [] subs) :
    ∀ p ∈ run cfg strat subs,
      (∀ m, cfg.minScore = some m → m ≤ p.score) ∧ (∀ m, cfg.maxScore = some m → p.score ≤ m) ∧
      ∃ s ∈ subs, ∃ c : List Nat, p.pos = c.map Int.ofNat ∧
        ∀ i (h1 : i < s.scores.shape.length) (h2 : i < c.length),
          cfg.minBoundary ≤ c[i] ∧ c[i] + cfg.minBoundary < s.scores.shape[i] := by
  intro p hp
  obtain ⟨s, hs, c, hc, hpos, _, _, hw, hm⟩ := peaks_submitted cfg strat subs hwf hok p hp
  unfold inWindow at hw
  simp only [Bool.and_eq_true] at hw
  refine ⟨?_, ?_, s, hs, c, hpos, ?_⟩
  · intro m hm'; rw [hm'] at hw; simpa using hw.1
  · intro m hm'; rw [hm'] at hw; simpa using hw.2
  · intro i h1 h2
    by_cases hmb : 0 < cfg.minBoundary
    · exact inMargin_spec _ _ _ (hm hmb) i h1 h2
    · have h0 : cfg.minBoundary = 0 := by omega
      have hci := inShape_getElem _ _ hc i h1 h2
      rw [h0]; omega

/-- no two reported peaks are closer than or equal to the minimum distance (Euclidean), whatever the
history and whatever the library answered -/
theorem peaks_pairwise_far (cfg : Cfg) (strat : Strategy) (subs : List Sub) (hmd : 0 < cfg.minDist) :
    (run cfg strat subs).Pairwise
      (fun a b => (cfg.minDist : Int) * (cfg.minDist : Int) < d2 a.pos b.pos) := by
  have := run_aux_pairwise strat hmd subs [] List.Pairwise.nil
  exact this.imp (fun h => far_sep h)

/-- the executable predicate `specSeparated`, which the harness evaluates on the lists reported by the
real code, is exactly the conclusion of `peaks_pairwise_far` / `merge_pairwise_far` -/
theorem specSeparated_iff (md : Nat) (ps : List Peak) :
    specSeparated md (ps.map (·.pos)) = true ↔
      ps.Pairwise (fun a b => (md : Int) * (md : Int) < d2 a.pos b.pos) := by
  unfold specSeparated
  induction ps with
  | nil => simp [pairwiseB]
  | cons x xs ih =>
    simp only [List.map_cons, pairwiseB, Bool.and_eq_true, List.pairwise_cons, ih, List.all_eq_true,
      List.mem_map, forall_exists_index, and_imp, forall_apply_eq_imp_iff₂, sepOk, decide_eq_true_eq]

/-- at most the requested number are reported -/
theorem peaks_card_le (cfg : Cfg) (strat : Strategy) (subs : List Sub) (hok : HistOk cfg strat [] subs) :
    (run cfg strat subs).length ≤ cfg.nPeaks :=
  run_aux_length subs [] hok (by simp)

/-- without margin and score window the highest-scoring translation of everything submitted is among
the reported peaks (for the strategy delegating to `peak_local_max` under its contract `MaxOrcOk`:
the library reports a maximiser — checked by the harness whenever one lies farther than the minimum
distance from the border). -/
theorem global_max_kept (cfg : Cfg) (strat : Strategy) (subs : List Sub) (hne : subs ≠ [])
    (hn : 0 < cfg.nPeaks) (hmb : cfg.minBoundary = 0) (hlo : cfg.minScore = none) (hhi : cfg.maxScore = none)
    (hwf : ∀ s ∈ subs, WF s.scores) (hok : HistOk cfg strat [] subs)
    (hmx : ∀ s ∈ subs, MaxOrcOk cfg strat s) :
    ∃ p ∈ run cfg strat subs, ∀ s ∈ subs, ∀ idx, inShape s.scores.shape idx = true →
      s.scores.getD idx 0 ≤ p.score := by
  have := run_aux_max hn hmb hlo hhi subs [] [] hwf hok hmx (by simp) (by simpa using hne)
  unfold run
  simpa [ArrLe] using this

/-- the deterministic model (no recorded library answers) meets every contract, so the theorems above
are unconditional for it -/
theorem contracts_hold_without_oracles (cfg : Cfg) (strat : Strategy) (hs : strat ≠ .scipy) (subs : List Sub)
    (h : ∀ s ∈ subs, s.orc.callTopk = none ∧ s.orc.updTopk = none ∧ s.orc.argsort = none) :
    HistOk cfg strat [] subs ∧ ∀ s ∈ subs, MaxOrcOk cfg strat s :=
  ⟨histOk_none hs subs [] (fun s hs' => ⟨(h s hs').1, (h s hs').2.1⟩),
   fun s hs' => maxOrcOk_none hs s (h s hs').2.2⟩

/-- a recorded `topk_indices` answer that passes the harness' check `isTopK` is admissible -/
theorem recorded_topk_admissible (scores : List Int) (k : Nat) (order : List Nat)
    (h : isTopK scores k order = true) : TopkOk scores k order := TopkOk_of_isTopK h

/-- a recorded `argsort` answer that passes the harness' check `isArgsortDesc` is admissible -/
theorem recorded_argsort_admissible (scores : List Int) (order : List Nat)
    (h : isArgsortDesc scores order = true) : PermOk scores.length order := by
  unfold isArgsortDesc at h
  simp only [Bool.and_eq_true, List.all_eq_true, List.mem_range, List.contains_eq_mem,
    decide_eq_true_eq] at h
  exact fun i hi => h.2 i hi

/-! ## merges of partial results (any number, any nesting: `parts` are arbitrary lists) -/

/-- every merged peak is a peak of one of the parts moved by the offset, score and rotation kept -/
theorem merge_peaks_from_parts (cfg : Cfg) (off : Option (List Int))
    (parts : List (Option (List Peak) × Option (List Nat))) :
    ∀ p ∈ merge cfg off [] parts, ∃ pt ∈ parts, ∃ c, pt.1 = some c ∧ ∃ q ∈ c,
      p = shiftPeak off q ∧ p.score = q.score ∧ p.rot = q.rot := by
  intro p hp
  rcases merge_mem parts [] p hp with h | ⟨pt, hpt, c, hc, q, hq, rfl⟩
  · simp at h
  · exact ⟨pt, hpt, c, hc, q, hq, rfl, shiftPeak_score _ _, shiftPeak_rot _ _⟩

theorem merge_pairwise_far (cfg : Cfg) (off : Option (List Int))
    (parts : List (Option (List Peak) × Option (List Nat))) (hmd : 0 < cfg.minDist) :
    (merge cfg off [] parts).Pairwise
      (fun a b => (cfg.minDist : Int) * (cfg.minDist : Int) < d2 a.pos b.pos) :=
  (merge_pairwise hmd parts [] List.Pairwise.nil).imp (fun h => far_sep h)

theorem merge_card_le (cfg : Cfg) (off : Option (List Int))
    (parts : List (Option (List Peak) × Option (List Nat))) (hok : MergeOk cfg off [] parts) :
    (merge cfg off [] parts).length ≤ cfg.nPeaks :=
  merge_length parts [] hok (by simp)

/-- the best peak of all parts survives the merge -/
theorem merge_best_kept (cfg : Cfg) (off : Option (List Int))
    (parts : List (Option (List Peak) × Option (List Nat))) (hn : 0 < cfg.nPeaks)
    (hok : MergeOk cfg off [] parts) :
    ∀ pt ∈ parts, ∀ c, pt.1 = some c → ∀ q ∈ c, ∃ p ∈ merge cfg off [] parts, q.score ≤ p.score := by
  intro pt hpt c hc q hq
  exact merge_max hn parts [] hok q.score (Or.inr ⟨pt, hpt, c, hc, q, hq, Int.le_refl _⟩)

theorem merge_contracts_hold_without_oracles (cfg : Cfg) (off : Option (List Int))
    (parts : List (Option (List Peak) × Option (List Nat))) (h : ∀ pt ∈ parts, pt.2 = none) :
    MergeOk cfg off [] parts := mergeOk_none parts [] h

/-! ## `_postprocess`: target frame = frame of the score map -/

/-- **soundness**: a post-processed peak keeps score and rotation, lies inside the output window on
every axis, and sits exactly at the index where the score map of the same run (`roll` by
`fourier_shift`, cut to the convolution shape, centred crop) shows the raw voxel it came from. -/
theorem postprocess_target_frame (axes : List Axis) (hax : ∀ ax ∈ axes, AxOk ax) (peaks : List Peak)
    (hraw : ∀ p ∈ peaks, RawOk axes p.pos) :
    ∀ q ∈ postprocess true axes peaks, ∃ p ∈ peaks,
      q.rot = p.rot ∧ q.score = p.score ∧ FrameOk axes p.pos q.pos := by
  intro q hq
  obtain ⟨p, hp, hpp, hr, hs⟩ := postprocess_mem hq
  exact ⟨p, hp, hr, hs, ppPos_sound axes p.pos q.pos hax (hraw p hp) hpp⟩

/-- **completeness, first and last index included**: for every index `t` of the output window the raw
voxel that the score map shows at `t` is kept and reported at `t`. -/
theorem postprocess_covers_score_map (axes : List Axis) (hax : ∀ ax ∈ axes, AxOk ax) (peaks : List Peak)
    (t : List Nat) (ht : OutOk axes t) (rot : Nat) (score : Int)
    (hp : (⟨mapSrcN axes t, rot, score⟩ : Peak) ∈ peaks) :
    (⟨t.map Int.ofNat, rot, score⟩ : Peak) ∈ postprocess true axes peaks := by
  unfold postprocess
  rw [List.mem_filterMap]
  refine ⟨_, hp, ?_⟩
  simp only [ppPos_complete axes t hax ht, Option.map_some]

/-- one axis, explicitly: the first (`t = 0`) and the last (`t = out - 1`) index are produced -/
theorem postprocess_first_last_index (ax : Axis) (h : AxOk ax) (hout : 0 < ax.out) :
    ppAxis true ax (mapSrc ax 0 : Nat) = some 0 ∧
    ppAxis true ax (mapSrc ax (ax.out - 1).toNat : Nat) = some (ax.out - 1) := by
  constructor
  · exact ppAxis_complete h (t := 0) (by simpa using hout)
  · have := ppAxis_complete h (t := (ax.out - 1).toNat) (by omega)
    rw [this]; congr 1; omega

/-- **a template-matching run** (`scan`): calls on the raw FFT-grid score arrays, `_postprocess`,
`merge(offset = tile offset)`.  Every returned peak is, up to the tile offset, the index at which the
score map of the same run shows the raw voxel it was found at, with that voxel's score for that
rotation. -/
theorem scan_peaks_target_frame (cfg : Cfg) (strat : Strategy) (subs : List Sub) (axes : List Axis)
    (off : Option (List Int)) (o : Option (List Nat))
    (hwf : ∀ s ∈ subs, WF s.scores) (hok : HistOk cfg strat [] subs) (hax : ∀ ax ∈ axes, AxOk ax)
    (hshape : ∀ s ∈ subs, s.scores.shape = axes.map (·.fast)) :
    ∀ p ∈ merge cfg off [] [(some (postprocess true axes (run cfg strat subs)), o)],
      ∃ s ∈ subs, ∃ (c : List Nat) (t : List Int), inShape s.scores.shape c = true ∧
        FrameOk axes (c.map Int.ofNat) t ∧ p = shiftPeak off ⟨t, s.rot, s.scores.getD c 0⟩ := by
  intro p hp
  obtain ⟨pt, hpt, l, hl, q, hq, rfl, _, _⟩ := merge_peaks_from_parts cfg off _ p hp
  simp only [List.mem_singleton] at hpt
  subst hpt
  simp only [Option.some.injEq] at hl
  subst hl
  have hraw : ∀ r ∈ run cfg strat subs, RawOk axes r.pos := by
    intro r hr
    obtain ⟨s, hs, c, hc, hpos, _⟩ := peaks_submitted cfg strat subs hwf hok r hr
    rw [hpos]
    exact rawOk_of_inShape axes c (by rw [← hshape s hs]; exact hc)
  obtain ⟨r, hr, hrot, hsc, hframe⟩ := postprocess_target_frame axes hax _ hraw q hq
  obtain ⟨s, hs, c, hc, hpos, hrot', hsc', _⟩ := peaks_submitted cfg strat subs hwf hok r hr
  refine ⟨s, hs, c, q.pos, hc, by rw [← hpos]; exact hframe, ?_⟩
  congr 1
  cases q with
  | mk qp qr qs =>
    simp only at hrot hsc
    simp only [Peak.mk.injEq, true_and]
    exact ⟨by rw [hrot, hrot'], by rw [hsc, hsc']⟩

theorem postprocess_card_le (wrap : Bool) (axes : List Axis) (peaks : List Peak) :
    (postprocess wrap axes peaks).length ≤ peaks.length := postprocess_length wrap axes peaks

/-! ## the tiles handed to the block-wise strategy (repaired `split_shape`) -/

theorem tileStarts_in_bounds_and_cover (n md : Nat) (hn : 0 < n) :
    (∀ s ∈ tileStarts n md, s + tileLen n md ≤ n) ∧ 0 < tileLen n md ∧
    (∀ x, x < n → ∃ s ∈ tileStarts n md, s ≤ x ∧ x < s + tileLen n md) :=
  ⟨fun _ hs => tileStarts_inBounds hs hn, tileLen_pos hn, fun _ hx => tileStarts_cover hx⟩

/-! ## what the pinned tree did before the `fix:` commits (negation witnesses) -/

/-- pre-fix window `start < p <= stop`: the first index is dropped, index = shape is reported
(8 voxels, no shift: raw 0 ↦ none, raw 8 ↦ 8) -/
theorem postprocess_window_current_defect :
    ppAxisOld true ⟨16, 8, 8, 0⟩ 0 = none ∧ ppAxisOld true ⟨16, 8, 8, 0⟩ 8 = some 8 ∧
    ppAxis true ⟨16, 8, 8, 0⟩ 0 = some 0 ∧ ppAxis true ⟨16, 8, 8, 0⟩ 8 = none := by decide

/-- pre-fix truncating wrap: raw 0 with shift −2 on a 16-grid stays at −2 and is dropped, while the
score map (modular roll) shows it at index 14 -/
theorem postprocess_wrap_current_defect :
    ppAxisOld true ⟨16, 16, 16, -2⟩ 0 = none ∧ ppAxis true ⟨16, 16, 16, -2⟩ 0 = some 14 ∧
    mapSrc ⟨16, 16, 16, -2⟩ 14 = 0 := by decide

/-- pre-fix `maximum_filter(mode="constant")`: on an all-negative 1×5 map with the maximum −1 at the
border and window 3 the maximiser is not a candidate; with `mode="nearest"` it is -/
theorem maxfilter_constant_padding_current_defect :
    [0, 4] ∉ callMaxFilterConst 3 ⟨[1, 5], #[-5, -5, -5, -5, -1]⟩ ∧
    [0, 4] ∈ callMaxFilter 3 ⟨[1, 5], #[-5, -5, -5, -5, -1]⟩ := by decide

/-- pre-fix `split_shape`: extent 15, distance 2 (7 tiles of 3) — tile 5 starts at 15, it is empty -/
theorem split_shape_current_defect :
    15 ∈ tileStartsOld 15 2 ∧ ∀ s ∈ tileStarts 15 2, s + tileLen 15 2 ≤ 15 := by decide

/-! ## non-vacuity: concrete histories where every hypothesis holds and the conclusions bite -/

/-- a 2×5 array, two submissions, `min_distance = 1`, at most 3 peaks -/
def exCfg : Cfg := ⟨3, 1, 0, none, none⟩
def exA : Arr Int := ⟨[2, 5], #[5, 1, 7, 0, 2, 9, 3, 4, 1, 0]⟩
def exB : Arr Int := ⟨[2, 5], #[-1, -2, -3, -4, -5, -6, -7, -8, 6, 8]⟩
def exSubs : List Sub := [⟨exA, 1, {}⟩, ⟨exB, 2, {}⟩]

example : run exCfg .sort exSubs = [⟨[1, 0], 1, 9⟩, ⟨[1, 4], 2, 8⟩, ⟨[0, 2], 1, 7⟩] := by decide
example : run exCfg .maxFilter exSubs = run exCfg .sort exSubs := by decide
example : run exCfg .recursive exSubs = run exCfg .sort exSubs := by decide
example : run exCfg .fast exSubs = run exCfg .sort exSubs := by decide
example : WF exA ∧ WF exB := ⟨⟨by decide, by decide⟩, ⟨by decide, by decide⟩⟩
example : HistOk exCfg .sort [] exSubs ∧ ∀ s ∈ exSubs, MaxOrcOk exCfg .sort s :=
  contracts_hold_without_oracles exCfg .sort (by decide) exSubs (by decide)
/-- the separation really removes something: (0,0)=5 is the third best of the first array but touches (1,0)=9 -/
example : run exCfg .sort [⟨exA, 1, {}⟩] = [⟨[1, 0], 1, 9⟩, ⟨[0, 2], 1, 7⟩] := by decide
example : isTopK [5, 1, 7, 0, 2, 9, 3, 4, 1, 0] 3 [5, 2, 0] = true := by decide
example : callFast 1 exA none = [[1, 0], [0, 2], [0, 0], [0, 4]] := by decide
example : merge exCfg (some [10, 20]) [] [(some (run exCfg .sort exSubs), none), (none, none)]
    = [⟨[11, 20], 1, 9⟩, ⟨[11, 24], 2, 8⟩, ⟨[10, 22], 1, 7⟩] := by decide
/-- `same` mode, target 5, template 3, no Fourier padding: fast = conv = 5, shift −1 -/
example : AxOk ⟨5, 5, 5, -1⟩ := ⟨by decide, by decide, by decide, by decide⟩
example : ([0, 1, 2, 3, 4] : List Int).map (fun p => ppAxis true ⟨5, 5, 5, -1⟩ p) = [some 4, some 0, some 1, some 2, some 3] := by decide
example : postprocess true [⟨8, 7, 5, 0⟩] [⟨[0], 1, 3⟩, ⟨[1], 1, 4⟩, ⟨[5], 1, 2⟩, ⟨[6], 1, 9⟩]
    = [⟨[0], 1, 4⟩, ⟨[4], 1, 2⟩] := by decide

end Pm.C05
