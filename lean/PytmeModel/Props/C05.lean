import PytmeModel.Model.C05
import PytmeModel.Proofs.C05
import PytmeModel.Proofs.C05Call
import PytmeModel.Proofs.C05Fast
import PytmeModel.Proofs.C05Hist
import PytmeModel.Proofs.C05Post
import PytmeModel.Proofs.C05Batch

/-!
# C05 — reported peaks are in bounds, separated, limited, and agree with the score map

Statements are about the executable model `Pm.C05` (Model/C05.lean), which mirrors
`tme/analyzer.py` (`PeakCaller.__call__`, `_update`, `merge`, `_postprocess`, the five
`call_peaks`), the C++ `find_candidate_indices<int64>`, `topk_indices`,
`max_filter_coordinates` and `split_shape` *after* the `fix:` commits; the pre-fix functions
(`ppAxisOld`, `callMaxFilterConst`, `tileStartsOld`) are kept for the `…_current_defect` witnesses.

* `run cfg strat subs`  = `tuple(peak_caller)` after submitting `subs` (any length, any shapes).
* `merge cfg off [] parts` = `PeakCaller.merge(parts, offset=off)`.
* Library answers with unspecified tie order (`argpartition`, `argsort`) and
  `skimage.peak_local_max` are oracle arguments; `HistOk` / `MaxOrcOk` / `MergeOk` say they meet the
  contracts the harness checks on every recorded answer (`TopkOk_of_isTopK`).  With no oracle the
  deterministic model is used and the contracts hold by `histOk_none`, `maxOrcOk_none`, `mergeOk_none`.
* The separation clause needs `0 < min_distance` (`min_distance = 0` switches the filter off by design).
* Model/C05Batch.lean adds what the peak callers reach beyond that: `_batchify`, the `batch_dims` rescaling inside
  `filter_points_indices`, `__call__` / `_update` / `merge` of a caller built with `batch_dims` (`runB`, `updateB`,
  `mergeB`: deterministic model, tie-free scores), `_filter_bucket` (non-numpy backends), the C++
  `max_index_by_label` and the representatives `PeakClustering.merge` keeps (DBSCAN's labels are an oracle).
-/
namespace Pm.C05

/-! ## every strategy, any history of submissions -/

/-- **master invariant**: every reported peak is justified by one of the submissions — an in-bounds
translation of that array, with that array's value and that submission's rotation, inside the
configured score window and boundary margin. -/
theorem peaks_submitted (cfg : Cfg) (strat : Strategy) (subs : List Sub)
    (hwf : ∀ s ∈ subs, WF s.scores) (hok : HistOk cfg strat [] subs) :
    ∀ p ∈ run cfg strat subs, ∃ s ∈ subs, Submitted cfg s p := by
  intro p hp
  have := run_aux_submitted subs [] [] hwf hok (by simp) p hp
  simpa using this

/-- every reported peak lies inside the scored volume -/
theorem peaks_in_bounds (cfg : Cfg) (strat : Strategy) (subs : List Sub)
    (hwf : ∀ s ∈ subs, WF s.scores) (hok : HistOk cfg strat [] subs) :
    ∀ p ∈ run cfg strat subs, ∃ s ∈ subs, ∃ c : List Nat,
      p.pos = c.map Int.ofNat ∧ inShape s.scores.shape c = true := by
  intro p hp
  obtain ⟨s, hs, c, hc, hpos, _⟩ := peaks_submitted cfg strat subs hwf hok p hp
  exact ⟨s, hs, c, hpos, hc⟩

/-- it carries exactly the score and the rotation that were submitted at that translation -/
theorem peaks_score_rotation_match (cfg : Cfg) (strat : Strategy) (subs : List Sub)
    (hwf : ∀ s ∈ subs, WF s.scores) (hok : HistOk cfg strat [] subs) :
    ∀ p ∈ run cfg strat subs, ∃ s ∈ subs, ∃ c : List Nat,
      p.pos = c.map Int.ofNat ∧ p.rot = s.rot ∧ p.score = s.scores.getD c 0 := by
  intro p hp
  obtain ⟨s, hs, c, _, hpos, hrot, hsc, _⟩ := peaks_submitted cfg strat subs hwf hok p hp
  exact ⟨s, hs, c, hpos, hrot, hsc⟩

/-- it respects the score window and the boundary margin (per axis `mb ≤ c < shape - mb`) -/
theorem peaks_respect_window_margin (cfg : Cfg) (strat : Strategy) (subs : List Sub)
    (hwf : ∀ s ∈ subs, WF s.scores) (hok : HistOk cfg strat [] subs) :
    ∀ p ∈ run cfg strat subs,
      (∀ m, cfg.minScore = some m → m ≤ p.score) ∧ (∀ m, cfg.maxScore = some m → p.score ≤ m) ∧
      ∃ s ∈ subs, ∃ c : List Nat, p.pos = c.map Int.ofNat ∧
        ∀ i (h1 : i < s.scores.shape.length) (h2 : i < c.length),
          cfg.minBoundary ≤ c[i] ∧ c[i] + cfg.minBoundary < s.scores.shape[i] := by
  intro p hp
  obtain ⟨s, hs, c, hc, hpos, _, _, hw, hm⟩ := peaks_submitted cfg strat subs hwf hok p hp
  unfold inWindow at hw
  simp only [Bool.and_eq_true] at hw
  refine ⟨?_, ?_, s, hs, c, hpos, ?_⟩
  · intro m hm'; rw [hm'] at hw; simpa using hw.1
  · intro m hm'; rw [hm'] at hw; simpa using hw.2
  · intro i h1 h2
    by_cases hmb : 0 < cfg.minBoundary
    · exact inMargin_spec _ _ _ (hm hmb) i h1 h2
    · have h0 : cfg.minBoundary = 0 := by omega
      have hci := inShape_getElem _ _ hc i h1 h2
      rw [h0]; omega

/-- no two reported peaks are closer than or equal to the minimum distance (Euclidean), whatever the
history and whatever the library answered -/
theorem peaks_pairwise_far (cfg : Cfg) (strat : Strategy) (subs : List Sub) (hmd : 0 < cfg.minDist) :
    (run cfg strat subs).Pairwise
      (fun a b => (cfg.minDist : Int) * (cfg.minDist : Int) < d2 a.pos b.pos) := by
  have := run_aux_pairwise strat hmd subs [] List.Pairwise.nil
  exact this.imp (fun h => far_sep h)

/-- the executable predicate `specSeparated`, which the harness evaluates on the lists reported by the
real code, is exactly the conclusion of `peaks_pairwise_far` / `merge_pairwise_far` -/
theorem specSeparated_iff (md : Nat) (ps : List Peak) :
    specSeparated md (ps.map (·.pos)) = true ↔
      ps.Pairwise (fun a b => (md : Int) * (md : Int) < d2 a.pos b.pos) := by
  unfold specSeparated
  induction ps with
  | nil => simp [pairwiseB]
  | cons x xs ih =>
    simp only [List.map_cons, pairwiseB, Bool.and_eq_true, List.pairwise_cons, ih, List.all_eq_true,
      List.mem_map, forall_exists_index, and_imp, forall_apply_eq_imp_iff₂, sepOk, decide_eq_true_eq]

/-- at most the requested number are reported -/
theorem peaks_card_le (cfg : Cfg) (strat : Strategy) (subs : List Sub) (hok : HistOk cfg strat [] subs) :
    (run cfg strat subs).length ≤ cfg.nPeaks :=
  run_aux_length subs [] hok (by simp)

/-- without margin and score window the highest-scoring translation of everything submitted is among
the reported peaks (for the strategy delegating to `peak_local_max` under its contract `MaxOrcOk`:
the library reports a maximiser — checked by the harness whenever one lies farther than the minimum
distance from the border). -/
theorem global_max_kept (cfg : Cfg) (strat : Strategy) (subs : List Sub) (hne : subs ≠ [])
    (hn : 0 < cfg.nPeaks) (hmb : cfg.minBoundary = 0) (hlo : cfg.minScore = none) (hhi : cfg.maxScore = none)
    (hwf : ∀ s ∈ subs, WF s.scores) (hok : HistOk cfg strat [] subs)
    (hmx : ∀ s ∈ subs, MaxOrcOk cfg strat s) :
    ∃ p ∈ run cfg strat subs, ∀ s ∈ subs, ∀ idx, inShape s.scores.shape idx = true →
      s.scores.getD idx 0 ≤ p.score := by
  have := run_aux_max hn hmb hlo hhi subs [] [] hwf hok hmx (by simp) (by simpa using hne)
  unfold run
  simpa [ArrLe] using this

/-- the deterministic model (no recorded library answers) meets every contract, so the theorems above
are unconditional for it -/
theorem contracts_hold_without_oracles (cfg : Cfg) (strat : Strategy) (hs : strat ≠ .scipy) (subs : List Sub)
    (h : ∀ s ∈ subs, s.orc.callTopk = none ∧ s.orc.updTopk = none ∧ s.orc.argsort = none) :
    HistOk cfg strat [] subs ∧ ∀ s ∈ subs, MaxOrcOk cfg strat s :=
  ⟨histOk_none hs subs [] (fun s hs' => ⟨(h s hs').1, (h s hs').2.1⟩),
   fun s hs' => maxOrcOk_none hs s (h s hs').2.2⟩

/-- a recorded `topk_indices` answer that passes the harness' check `isTopK` is admissible -/
theorem recorded_topk_admissible (scores : List Int) (k : Nat) (order : List Nat)
    (h : isTopK scores k order = true) : TopkOk scores k order := TopkOk_of_isTopK h

/-- a recorded `argsort` answer that passes the harness' check `isArgsortDesc` is admissible -/
theorem recorded_argsort_admissible (scores : List Int) (order : List Nat)
    (h : isArgsortDesc scores order = true) : PermOk scores.length order := by
  unfold isArgsortDesc at h
  simp only [Bool.and_eq_true, List.all_eq_true, List.mem_range, List.contains_eq_mem,
    decide_eq_true_eq] at h
  exact fun i hi => h.2 i hi

/-! ## merges of partial results (any number, any nesting: `parts` are arbitrary lists) -/

/-- every merged peak is a peak of one of the parts moved by the offset, score and rotation kept -/
theorem merge_peaks_from_parts (cfg : Cfg) (off : Option (List Int))
    (parts : List (Option (List Peak) × Option (List Nat))) :
    ∀ p ∈ merge cfg off [] parts, ∃ pt ∈ parts, ∃ c, pt.1 = some c ∧ ∃ q ∈ c,
      p = shiftPeak off q ∧ p.score = q.score ∧ p.rot = q.rot := by
  intro p hp
  rcases merge_mem parts [] p hp with h | ⟨pt, hpt, c, hc, q, hq, rfl⟩
  · simp at h
  · exact ⟨pt, hpt, c, hc, q, hq, rfl, shiftPeak_score _ _, shiftPeak_rot _ _⟩

theorem merge_pairwise_far (cfg : Cfg) (off : Option (List Int))
    (parts : List (Option (List Peak) × Option (List Nat))) (hmd : 0 < cfg.minDist) :
    (merge cfg off [] parts).Pairwise
      (fun a b => (cfg.minDist : Int) * (cfg.minDist : Int) < d2 a.pos b.pos) :=
  (merge_pairwise hmd parts [] List.Pairwise.nil).imp (fun h => far_sep h)

theorem merge_card_le (cfg : Cfg) (off : Option (List Int))
    (parts : List (Option (List Peak) × Option (List Nat))) (hok : MergeOk cfg off [] parts) :
    (merge cfg off [] parts).length ≤ cfg.nPeaks :=
  merge_length parts [] hok (by simp)

/-- the best peak of all parts survives the merge -/
theorem merge_best_kept (cfg : Cfg) (off : Option (List Int))
    (parts : List (Option (List Peak) × Option (List Nat))) (hn : 0 < cfg.nPeaks)
    (hok : MergeOk cfg off [] parts) :
    ∀ pt ∈ parts, ∀ c, pt.1 = some c → ∀ q ∈ c, ∃ p ∈ merge cfg off [] parts, q.score ≤ p.score := by
  intro pt hpt c hc q hq
  exact merge_max hn parts [] hok q.score (Or.inr ⟨pt, hpt, c, hc, q, hq, Int.le_refl _⟩)

theorem merge_contracts_hold_without_oracles (cfg : Cfg) (off : Option (List Int))
    (parts : List (Option (List Peak) × Option (List Nat))) (h : ∀ pt ∈ parts, pt.2 = none) :
    MergeOk cfg off [] parts := mergeOk_none parts [] h

/-! ## `_postprocess`: target frame = frame of the score map -/

/-- **soundness**: a post-processed peak keeps score and rotation, lies inside the output window on
every axis, and sits exactly at the index where the score map of the same run (`roll` by
`fourier_shift`, cut to the convolution shape, centred crop) shows the raw voxel it came from. -/
theorem postprocess_target_frame (axes : List Axis) (hax : ∀ ax ∈ axes, AxOk ax) (peaks : List Peak)
    (hraw : ∀ p ∈ peaks, RawOk axes p.pos) :
    ∀ q ∈ postprocess true axes peaks, ∃ p ∈ peaks,
      q.rot = p.rot ∧ q.score = p.score ∧ FrameOk axes p.pos q.pos := by
  intro q hq
  obtain ⟨p, hp, hpp, hr, hs⟩ := postprocess_mem hq
  exact ⟨p, hp, hr, hs, ppPos_sound axes p.pos q.pos hax (hraw p hp) hpp⟩

/-- **completeness, first and last index included**: for every index `t` of the output window the raw
voxel that the score map shows at `t` is kept and reported at `t`. -/
theorem postprocess_covers_score_map (axes : List Axis) (hax : ∀ ax ∈ axes, AxOk ax) (peaks : List Peak)
    (t : List Nat) (ht : OutOk axes t) (rot : Nat) (score : Int)
    (hp : (⟨mapSrcN axes t, rot, score⟩ : Peak) ∈ peaks) :
    (⟨t.map Int.ofNat, rot, score⟩ : Peak) ∈ postprocess true axes peaks := by
  unfold postprocess
  rw [List.mem_filterMap]
  refine ⟨_, hp, ?_⟩
  simp only [ppPos_complete axes t hax ht, Option.map_some]

/-- one axis, explicitly: the first (`t = 0`) and the last (`t = out - 1`) index are produced -/
theorem postprocess_first_last_index (ax : Axis) (h : AxOk ax) (hout : 0 < ax.out) :
    ppAxis true ax (mapSrc ax 0 : Nat) = some 0 ∧
    ppAxis true ax (mapSrc ax (ax.out - 1).toNat : Nat) = some (ax.out - 1) := by
  constructor
  · exact ppAxis_complete h (t := 0) (by simpa using hout)
  · have := ppAxis_complete h (t := (ax.out - 1).toNat) (by omega)
    rw [this]; congr 1; omega

/-- **a template-matching run** (`scan`): calls on the raw FFT-grid score arrays, `_postprocess`,
`merge(offset = tile offset)`.  Every returned peak is, up to the tile offset, the index at which the
score map of the same run shows the raw voxel it was found at, with that voxel's score for that
rotation. -/
theorem scan_peaks_target_frame (cfg : Cfg) (strat : Strategy) (subs : List Sub) (axes : List Axis)
    (off : Option (List Int)) (o : Option (List Nat))
    (hwf : ∀ s ∈ subs, WF s.scores) (hok : HistOk cfg strat [] subs) (hax : ∀ ax ∈ axes, AxOk ax)
    (hshape : ∀ s ∈ subs, s.scores.shape = axes.map (·.fast)) :
    ∀ p ∈ merge cfg off [] [(some (postprocess true axes (run cfg strat subs)), o)],
      ∃ s ∈ subs, ∃ (c : List Nat) (t : List Int), inShape s.scores.shape c = true ∧
        FrameOk axes (c.map Int.ofNat) t ∧ p = shiftPeak off ⟨t, s.rot, s.scores.getD c 0⟩ := by
  intro p hp
  obtain ⟨pt, hpt, l, hl, q, hq, rfl, _, _⟩ := merge_peaks_from_parts cfg off _ p hp
  simp only [List.mem_singleton] at hpt
  subst hpt
  simp only [Option.some.injEq] at hl
  subst hl
  have hraw : ∀ r ∈ run cfg strat subs, RawOk axes r.pos := by
    intro r hr
    obtain ⟨s, hs, c, hc, hpos, _⟩ := peaks_submitted cfg strat subs hwf hok r hr
    rw [hpos]
    exact rawOk_of_inShape axes c (by rw [← hshape s hs]; exact hc)
  obtain ⟨r, hr, hrot, hsc, hframe⟩ := postprocess_target_frame axes hax _ hraw q hq
  obtain ⟨s, hs, c, hc, hpos, hrot', hsc', _⟩ := peaks_submitted cfg strat subs hwf hok r hr
  refine ⟨s, hs, c, q.pos, hc, by rw [← hpos]; exact hframe, ?_⟩
  congr 1
  cases q with
  | mk qp qr qs =>
    simp only at hrot hsc
    simp only [Peak.mk.injEq, true_and]
    exact ⟨by rw [hrot, hrot'], by rw [hsc, hsc']⟩

theorem postprocess_card_le (wrap : Bool) (axes : List Axis) (peaks : List Peak) :
    (postprocess wrap axes peaks).length ≤ peaks.length := postprocess_length wrap axes peaks

/-! ## the tiles handed to the block-wise strategy (repaired `split_shape`) -/

theorem tileStarts_in_bounds_and_cover (n md : Nat) (hn : 0 < n) :
    (∀ s ∈ tileStarts n md, s + tileLen n md ≤ n) ∧ 0 < tileLen n md ∧
    (∀ x, x < n → ∃ s ∈ tileStarts n md, s ≤ x ∧ x < s + tileLen n md) :=
  ⟨fun _ hs => tileStarts_inBounds hs hn, tileLen_pos hn, fun _ hx => tileStarts_cover hx⟩

/-! ## what the pinned tree did before the `fix:` commits (negation witnesses) -/

/-- pre-fix window `start < p <= stop`: the first index is dropped, index = shape is reported
(8 voxels, no shift: raw 0 ↦ none, raw 8 ↦ 8) -/
theorem postprocess_window_current_defect :
    ppAxisOld true ⟨16, 8, 8, 0⟩ 0 = none ∧ ppAxisOld true ⟨16, 8, 8, 0⟩ 8 = some 8 ∧
    ppAxis true ⟨16, 8, 8, 0⟩ 0 = some 0 ∧ ppAxis true ⟨16, 8, 8, 0⟩ 8 = none := by decide

/-- pre-fix truncating wrap: raw 0 with shift −2 on a 16-grid stays at −2 and is dropped, while the
score map (modular roll) shows it at index 14 -/
theorem postprocess_wrap_current_defect :
    ppAxisOld true ⟨16, 16, 16, -2⟩ 0 = none ∧ ppAxis true ⟨16, 16, 16, -2⟩ 0 = some 14 ∧
    mapSrc ⟨16, 16, 16, -2⟩ 14 = 0 := by decide

/-- pre-fix `maximum_filter(mode="constant")`: on an all-negative 1×5 map with the maximum −1 at the
border and window 3 the maximiser is not a candidate; with `mode="nearest"` it is -/
theorem maxfilter_constant_padding_current_defect :
    [0, 4] ∉ callMaxFilterConst 3 ⟨[1, 5], #[-5, -5, -5, -5, -1]⟩ ∧
    [0, 4] ∈ callMaxFilter 3 ⟨[1, 5], #[-5, -5, -5, -5, -1]⟩ := by decide

/-- pre-fix `split_shape`: extent 15, distance 2 (7 tiles of 3) — tile 5 starts at 15, it is empty -/
theorem split_shape_current_defect :
    15 ∈ tileStartsOld 15 2 ∧ ∀ s ∈ tileStarts 15 2, s + tileLen 15 2 ≤ 15 := by decide

/-! ## `filter_points_indices(..., batch_dims)`: batch axes are multiplied by `2 * min_distance` -/

/-- without `batch_dims` the filter is the one of the theorems above -/
theorem batch_filter_without_batch_dims (md : Nat) (xs : List Peak) :
    filterPointsB md none xs = filterPoints md xs := by
  unfold filterPointsB filterPoints
  split
  · rfl
  · exact greedyAuxB_none md xs []

example : filterPointsB 1 none [⟨[0, 0], 0, 9⟩, ⟨[0, 1], 1, 8⟩, ⟨[3, 3], 2, 7⟩] = [⟨[0, 0], 0, 9⟩, ⟨[3, 3], 2, 7⟩] := by decide

/-- the rows handed in are reported unchanged (not the rescaled ones) -/
theorem batch_filter_reports_input_rows (md : Nat) (bd : Option (List Nat)) (xs : List Peak) :
    ∀ p ∈ filterPointsB md bd xs, p ∈ xs := by
  intro p hp
  unfold filterPointsB at hp
  split at hp
  · exact hp
  · rcases greedyAuxB_mem md bd xs [] p hp with h | h
    · simp at h
    · exact h

/-- the C++ test on the rescaled rows, for rows of different batches: always passed -/
theorem batch_filter_other_batches_never_suppress {md : Nat} (hmd : 0 < md) (bd : List Nat) (p q : List Int)
    (i : Nat) (hi : i ∈ bd) (hp : i < p.length) (hq : i < q.length) (hne : p[i] ≠ q[i]) :
    farB md (some bd) p q = true := farB_diff hmd bd p q i hi hp hq hne

example : farB 5 (some [0]) [0, 7, 7] [1, 7, 7] = true ∧ far 5 [0, 7, 7] [1, 7, 7] = false := by decide

/-- inside one batch the distance rule is unchanged -/
theorem batch_filter_same_batch_rule_unchanged (md : Nat) (bd : List Nat) (p q : List Int)
    (h : ∀ i ∈ bd, p[i]? = q[i]?) : farB md (some bd) p q = far md p q := farB_same md bd p q h

example : farB 2 (some [0]) [4, 0, 0] [4, 1, 2] = far 2 [4, 0, 0] [4, 1, 2] ∧ far 2 [4, 0, 0] [4, 1, 2] = false := by decide

/-- reported rows of one batch are farther apart than the minimum distance -/
theorem batch_filter_same_batch_far {md : Nat} (hmd : 0 < md) (bd : List Nat) (xs : List Peak) :
    (filterPointsB md (some bd) xs).Pairwise (fun a b =>
      (∀ i ∈ bd, a.pos[i]? = b.pos[i]?) → (md : Int) * (md : Int) < d2 a.pos b.pos) := by
  unfold filterPointsB
  rw [if_neg (by omega)]
  refine (greedyAuxB_pairwise md (some bd) xs [] List.Pairwise.nil).imp ?_
  intro a b h hs
  unfold FarPB at h
  rw [farB_same md bd _ _ hs] at h
  exact far_sep h

/-- peaks in different batches never suppress each other: a row that is not reported has a reported
row *of its own batch* that fails the C++ distance test against it -/
theorem batch_filter_suppressor_in_same_batch {md : Nat} (hmd : 0 < md) (bd : List Nat) (xs : List Peak) (n : Nat)
    (hlen : ∀ p ∈ xs, p.pos.length = n) (hbd : ∀ i ∈ bd, i < n) (x : Peak) (hx : x ∈ xs)
    (hdrop : x ∉ filterPointsB md (some bd) xs) :
    ∃ k ∈ filterPointsB md (some bd) xs, (∀ i ∈ bd, x.pos[i]? = k.pos[i]?) ∧ far md x.pos k.pos = false := by
  have hmem := batch_filter_reports_input_rows md (some bd) xs
  unfold filterPointsB at hdrop hmem ⊢
  rw [if_neg (by omega)] at hdrop hmem ⊢
  obtain ⟨k, hk, hf⟩ := greedyAuxB_dropped md (some bd) xs [] x hx hdrop
  have hsame : ∀ i ∈ bd, x.pos[i]? = k.pos[i]? := by
    intro i hi
    have h1 : i < x.pos.length := by rw [hlen x hx]; exact hbd i hi
    have h2 : i < k.pos.length := by rw [hlen k (hmem k hk)]; exact hbd i hi
    by_contra hne
    have : x.pos[i] ≠ k.pos[i] := by
      intro h; apply hne; rw [List.getElem?_eq_getElem h1, List.getElem?_eq_getElem h2, h]
    rw [farB_diff hmd bd x.pos k.pos i hi h1 h2 this] at hf
    exact Bool.noConfusion hf
  refine ⟨k, hk, hsame, ?_⟩
  rw [← farB_same md bd _ _ hsame]; exact hf

/-- hypotheses of `batch_filter_suppressor_in_same_batch` on the example below: rows of rank 3, batch axis 0, and
(0,7,9) is handed in but not reported -/
example : (∀ p ∈ ([⟨[0, 7, 7], 0, 9⟩, ⟨[1, 7, 7], 1, 8⟩, ⟨[0, 7, 9], 2, 7⟩] : List Peak), p.pos.length = 3) ∧
    (∀ i ∈ ([0] : List Nat), i < 3) ∧
    (⟨[0, 7, 9], 2, 7⟩ : Peak) ∉ filterPointsB 5 (some [0]) [⟨[0, 7, 7], 0, 9⟩, ⟨[1, 7, 7], 1, 8⟩, ⟨[0, 7, 9], 2, 7⟩] := by
  decide

/-- the best row is always reported -/
theorem batch_filter_first_kept (md : Nat) (bd : Option (List Nat)) (x : Peak) (rest : List Peak) :
    x ∈ filterPointsB md bd (x :: rest) := by
  unfold filterPointsB
  split
  · simp
  · unfold greedyAuxB
    simp only [List.all_nil, if_true]
    exact greedyAuxB_kept md bd rest _ x (by simp)

/-- two batches (axis 0), distance 5: the rows (0,7,7) and (1,7,7) are both reported although they are one voxel
apart, (0,7,9) is suppressed by (0,7,7) of its own batch -/
example : filterPointsB 5 (some [0]) [⟨[0, 7, 7], 0, 9⟩, ⟨[1, 7, 7], 1, 8⟩, ⟨[0, 7, 9], 2, 7⟩]
    = [⟨[0, 7, 7], 0, 9⟩, ⟨[1, 7, 7], 1, 8⟩] := by decide

/-! ## `_filter_bucket` (the path of `filter_points_indices` for coordinates that are not a `numpy.ndarray`:
reachable on the cupy / jax backends only; on the numpy backend the C++ greedy pass above runs) -/

/-- the reported rows lie in pairwise different buckets -/
theorem filterBucket_distinct_buckets (md : Nat) (coords : List (List Int)) (i j : Nat)
    (hi : i ∈ filterBucket md coords) (hj : j ∈ filterBucket md coords) (hne : i ≠ j) :
    (bucketRows md coords).getD i [] ≠ (bucketRows md coords).getD j [] := by
  intro heq
  unfold filterBucket at hi hj
  have h := firstOcc_distinct hi hj hne
  have li := (mem_firstOcc.mp hi).1
  have lj := (mem_firstOcc.mp hj).1
  simp only [bucketFlat, List.length_map] at li lj
  rw [bucketFlat_getD _ i li, bucketFlat_getD _ j lj, heq] at h
  exact h rfl

/-- rows are reported in the order given, the first row always -/
theorem filterBucket_sorted_first (md : Nat) (coords : List (List Int)) :
    (filterBucket md coords).Pairwise (· < ·) ∧ (coords ≠ [] → 0 ∈ filterBucket md coords) := by
  refine ⟨firstOcc_sorted _, fun h => firstOcc_zero ?_⟩
  cases coords with
  | nil => exact absurd rfl h
  | cons c cs => simp [bucketFlat, bucketRows]

/-- one representative per flattened bucket id: every row has a reported row at or before it with the same id -/
theorem filterBucket_representative (md : Nat) (coords : List (List Int)) (i : Nat) (hi : i < coords.length) :
    ∃ j ∈ filterBucket md coords, j ≤ i ∧
      (bucketFlat (bucketRows md coords)).getD j 0 = (bucketFlat (bucketRows md coords)).getD i 0 :=
  firstOcc_repr _ i (by simpa [bucketFlat, bucketRows] using hi)

example : filterBucket 2 [[0, 0], [1, 1], [4, 0], [5, 1], [0, 5]] = [0, 2, 4] ∧
    bucketRows 2 [[0, 0], [1, 1], [4, 0], [5, 1], [0, 5]] = [[0, 0], [0, 0], [2, 0], [2, 0], [0, 2]] := by decide

/-- **the bucket filter does not enforce the distance**: 5 and 6 lie in neighbouring buckets of width 3, both are
reported although they are 1 apart (the greedy pass reports rows 0 and 1 only) -/
theorem filterBucket_close_pair_witness :
    filterBucket 3 [[0], [5], [6]] = [0, 1, 2] ∧ d2 [5] [6] = 1 ∧
    (filterPoints 3 [⟨[0], 0, 0⟩, ⟨[5], 1, 0⟩, ⟨[6], 2, 0⟩]).map (·.rot) = [0, 1] := by decide

/-- **the flattening `Σ bucket_j * (max_j + 1) ^ j` is not injective**: the buckets (0,1) and (2,0) get the same id 2,
so the row (2,0) is dropped although it is alone in its bucket and far from the only other row -/
theorem filterBucket_collision_witness :
    filterBucket 1 [[0, 1], [2, 0]] = [0] ∧ bucketRows 1 [[0, 1], [2, 0]] = [[0, 1], [2, 0]] ∧
    bucketFlat [[0, 1], [2, 0]] = [2, 2] ∧ far 1 [0, 1] [2, 0] = true := by decide

/-! ## C++ `max_index_by_label` and the representatives `PeakClustering.merge` keeps (DBSCAN's labels are an oracle) -/

theorem mem_maxIndexByLabel {L S : List Int} {l : Int} {j : Nat} (h : (l, j) ∈ maxIndexByLabel L S) :
    ∃ s, (l, s, j) ∈ miblGo 0 L S [] := by
  unfold maxIndexByLabel at h
  obtain ⟨e, he, heq⟩ := List.mem_map.mp h
  simp only [Prod.mk.injEq] at heq
  exact ⟨e.2.1, by rw [← heq.1, ← heq.2]; exact he⟩

/-- every reported pair `(label, row)`: the row carries that label, no row of the label scores higher, and among the
best rows of the label it is the first -/
theorem maxIndexByLabel_best_first_of_label (L S : List Int) (hlen : L.length = S.length) :
    ∀ lj ∈ maxIndexByLabel L S, lj.2 < L.length ∧ L[lj.2]? = some lj.1 ∧
      ∀ (i : Nat) (t u : Int), L[i]? = some lj.1 → S[i]? = some t → S[lj.2]? = some u → t ≤ u ∧ (t = u → lj.2 ≤ i) := by
  intro lj h
  obtain ⟨s, hs⟩ := mem_maxIndexByLabel (l := lj.1) (j := lj.2) h
  obtain ⟨_, hP, _⟩ := mibl_final L S hlen
  obtain ⟨p1, p2, p3, p4⟩ := hP _ hs
  refine ⟨p1, p2, ?_⟩
  intro i t u hi ht hu
  simp only at p3
  rw [p3] at hu
  have hu' : s = u := Option.some.inj hu
  subst hu'
  have hil : i < L.length := by
    rcases Nat.lt_or_ge i L.length with h | h
    · exact h
    · rw [List.getElem?_eq_none h] at hi; simp at hi
  exact p4 i hil hi t ht

/-- every label that occurs has a representative -/
theorem maxIndexByLabel_complete (L S : List Int) (hlen : L.length = S.length) (i : Nat) (l : Int)
    (hi : L[i]? = some l) : ∃ j, (l, j) ∈ maxIndexByLabel L S := by
  obtain ⟨_, _, hcov⟩ := mibl_final L S hlen
  have hil : i < L.length := by
    rcases Nat.lt_or_ge i L.length with h | h
    · exact h
    · rw [List.getElem?_eq_none h] at hi; simp at hi
  obtain ⟨e, he, hk⟩ := List.mem_map.mp (hcov i hil l hi)
  exact ⟨e.2.2, by
    unfold maxIndexByLabel
    exact List.mem_map.mpr ⟨e, he, by simp [← hk]⟩⟩

/-- exactly one representative per label -/
theorem maxIndexByLabel_one_per_label (L S : List Int) (hlen : L.length = S.length) :
    ((maxIndexByLabel L S).map (·.1)).Nodup := by
  obtain ⟨hnd, _, _⟩ := mibl_final L S hlen
  unfold maxIndexByLabel
  simpa [List.map_map, Function.comp_def] using hnd

example : maxIndexByLabel [0, 1, -1, 1, 0] [1, 5, 2, 5, 3] = [(0, 4), (1, 1), (-1, 2)] := by decide

/-- the rows `PeakClustering.merge` keeps: exactly the representatives of the labels other than the noise label,
in row order -/
theorem clusterKeep_iff (L S : List Int) (i : Nat) :
    i ∈ clusterKeep L S ↔ i < L.length ∧ ∃ l, l ≠ -1 ∧ (l, i) ∈ maxIndexByLabel L S := by
  unfold clusterKeep
  simp only [List.mem_filter, List.mem_range, List.contains_eq_mem, List.mem_map, decide_eq_true_eq,
    bne_iff_ne, ne_eq, Prod.exists, exists_eq_right]
  constructor
  · rintro ⟨h1, l, h2, h3⟩; exact ⟨h1, l, h3, h2⟩
  · rintro ⟨h1, l, h2, h3⟩; exact ⟨h1, l, h3, h2⟩

/-- no noise row is kept, a kept row is the first best row of its cluster, and every cluster keeps a row -/
theorem clusterKeep_spec (L S : List Int) (hlen : L.length = S.length) :
    (∀ i ∈ clusterKeep L S, ∃ l, l ≠ -1 ∧ L[i]? = some l ∧
      ∀ (k : Nat) (t u : Int), L[k]? = some l → S[k]? = some t → S[i]? = some u → t ≤ u ∧ (t = u → i ≤ k)) ∧
    (∀ (k : Nat) (l : Int), L[k]? = some l → l ≠ -1 → ∃ i ∈ clusterKeep L S, L[i]? = some l) ∧
    (clusterKeep L S).Pairwise (· < ·) := by
  refine ⟨?_, ?_, ?_⟩
  · intro i hi
    obtain ⟨_, l, hl, hm⟩ := (clusterKeep_iff L S i).mp hi
    obtain ⟨_, h2, h3⟩ := maxIndexByLabel_best_first_of_label L S hlen _ hm
    exact ⟨l, hl, h2, h3⟩
  · intro k l hk hl
    obtain ⟨j, hj⟩ := maxIndexByLabel_complete L S hlen k l hk
    obtain ⟨h1, h2, _⟩ := maxIndexByLabel_best_first_of_label L S hlen _ hj
    exact ⟨j, (clusterKeep_iff L S j).mpr ⟨h1, l, hl, hj⟩, h2⟩
  · unfold clusterKeep
    exact List.Pairwise.filter _ List.pairwise_lt_range

example : clusterKeep [0, 1, -1, 1, 0] [1, 5, 2, 5, 3] = [1, 4] := by decide

/-- **today's `PeakClustering.merge` ranks and reports `candidate[2]`, the third coordinate, not the score**: of two
rows of one cluster with scores 10 and 20 at the same voxel it keeps the first and reports the score 3 (ranking by the
scores keeps the second with its score 20) -/
theorem cluster_merge_third_coordinate_current_defect :
    clusterMerge [⟨[1, 2, 3], 0, 10⟩, ⟨[1, 2, 3], 1, 20⟩] [0, 0] = [⟨[1, 2, 3], 0, 3⟩] ∧
    clusterMergeByScore [⟨[1, 2, 3], 0, 10⟩, ⟨[1, 2, 3], 1, 20⟩] [0, 0] = [⟨[1, 2, 3], 1, 20⟩] := by decide

/-- ranking by the scores: every reported row is one of the rows handed in, unchanged, and not a noise row -/
theorem clusterMergeByScore_mem (peaks : List Peak) (labels : List Int) :
    ∀ p ∈ clusterMergeByScore peaks labels, ∃ i ∈ clusterKeep labels (peaks.map (·.score)), peaks[i]? = some p := by
  intro p hp
  unfold clusterMergeByScore at hp
  obtain ⟨i, hi, h⟩ := List.mem_filterMap.mp hp
  exact ⟨i, hi, h⟩

example : clusterMergeByScore [⟨[1, 2, 3], 0, 10⟩, ⟨[4, 4, 4], 2, 30⟩, ⟨[1, 2, 3], 1, 20⟩] [0, -1, 0]
    = [⟨[1, 2, 3], 1, 20⟩] := by decide

/-! ## `PeakCaller._batchify`: the subsets `__call__` hands to `call_peaks` and the offsets it adds back -/

/-- without `batch_dims`: one subset, the whole array, offset zero -/
theorem batchify_none (shape : List Nat) :
    batchify shape none = [shape.map (fun _ => none)] ∧
    selShape shape (shape.map (fun _ => none)) = shape ∧
    selOffset (shape.map (fun _ => (none : Option Nat))) = shape.map (fun _ => 0) := by
  refine ⟨rfl, ?_, by simp [selOffset]⟩
  induction shape with
  | nil => rfl
  | cons s ss ih => simp [selShape, ih]

/-- every yielded subset addresses every axis -/
theorem batchify_rank (shape : List Nat) (bd : Option (List Nat)) :
    ∀ sel ∈ batchify shape bd, sel.length = shape.length := by
  intro sel h
  cases bd with
  | none => simp only [batchify, List.mem_singleton] at h; simp [h]
  | some b =>
    simp only [batchify, List.mem_map] at h
    obtain ⟨cur, _, rfl⟩ := h
    exact batchAxes_length b cur _ 0 0

/-- the number of `(subset, offset)` pairs is the product of the batch extents (any `batch_dims`) -/
theorem batchify_count (shape bd : List Nat) :
    (batchify shape (some bd)).length = (bd.map (fun d => shape.getD d 0)).foldr (· * ·) 1 := by
  simp [batchify, prodLists_length, List.map_map, Function.comp_def]

example : (batchify [2, 3, 2] (some [0, 2])).length = 4 := by decide

/-- ascending `batch_dims`: the yielded subsets are exactly "one index `< extent` on every batch axis, `slice(None)`
on every other axis" -/
theorem batchify_subsets_explicit (shape bd : List Nat) (hs : bd.Pairwise (· < ·)) (sel : List (Option Nat)) :
    sel ∈ batchify shape (some bd) ↔ ∃ cur : List Nat,
      List.Forall₂ (fun x d => x < shape.getD d 0) cur bd ∧
      sel = (List.range shape.length).map (fun a =>
        if bd.contains a then some (cur.getD (bd.idxOf a) 0) else none) := mem_batchify hs

/-- **the batches cover the array**: every voxel lies in a yielded subset -/
theorem batchify_covers (shape bd : List Nat) (hs : bd.Pairwise (· < ·)) (hin : ∀ d ∈ bd, d < shape.length)
    (idx : List Nat) (h : inShape shape idx = true) :
    ∃ sel ∈ batchify shape (some bd), inSel sel idx = true := by
  have hl := inShape_length h
  have hget : ∀ d, d < shape.length → idx.getD d 0 < shape.getD d 0 ∧ idx[d]? = some (idx.getD d 0) := by
    intro d hd
    have hd' : d < idx.length := by omega
    have := inShape_getElem shape idx h d hd hd'
    simp [List.getD_eq_getElem?_getD, List.getElem?_eq_getElem hd, List.getElem?_eq_getElem hd', this]
  refine ⟨_, (mem_batchify hs).mpr ⟨bd.map (fun d => idx.getD d 0),
    forall2_map_self (R := fun x d => x < shape.getD d 0) _ bd (fun d hd => (hget d (hin d hd)).1), rfl⟩, ?_⟩
  apply inSel_of_getElem
  · simp [hl]
  · intro a v hv
    by_cases ha : a < shape.length
    · rw [List.getElem?_map, List.getElem?_range ha] at hv
      simp only [Option.map_some, Option.some.injEq] at hv
      by_cases hc : bd.contains a = true
      · rw [if_pos hc, getD_map_idxOf _ bd a (by simpa using hc)] at hv
        rw [(hget a ha).2, ← Option.some.inj hv]
      · rw [if_neg hc] at hv; simp at hv
    · rw [List.getElem?_eq_none (by simpa using ha)] at hv
      simp at hv

/-- **the batches are disjoint**: a voxel lies in one subset only -/
theorem batchify_disjoint (shape bd : List Nat) (hs : bd.Pairwise (· < ·)) (idx : List Nat)
    (s1 s2 : List (Option Nat)) (h1 : s1 ∈ batchify shape (some bd)) (h2 : s2 ∈ batchify shape (some bd))
    (i1 : inSel s1 idx = true) (i2 : inSel s2 idx = true) : s1 = s2 := by
  obtain ⟨c1, _, e1⟩ := (mem_batchify hs).mp h1
  obtain ⟨c2, _, e2⟩ := (mem_batchify hs).mp h2
  have g1 := (inSel_getElem s1 idx i1).2
  have g2 := (inSel_getElem s2 idx i2).2
  rw [e1, e2]
  apply List.map_congr_left
  intro a ha
  have ha' : a < shape.length := List.mem_range.mp ha
  by_cases hc : bd.contains a = true
  · rw [if_pos hc, if_pos hc]
    have v1 := g1 a (c1.getD (bd.idxOf a) 0) (by rw [e1, List.getElem?_map, List.getElem?_range ha']; simp only [Option.map_some, if_pos hc])
    have v2 := g2 a (c2.getD (bd.idxOf a) 0) (by rw [e2, List.getElem?_map, List.getElem?_range ha']; simp only [Option.map_some, if_pos hc])
    rw [v1] at v2
    exact v2
  · rw [if_neg hc, if_neg hc]

/-- **the offset restores global coordinates**: a position of `scores[subset]` plus the yielded offset is a position of
`scores` that lies in the subset (any `batch_dims`) -/
theorem batchify_offset_restores_global (shape : List Nat) (bd : Option (List Nat)) (sel : List (Option Nat))
    (hsel : sel ∈ batchify shape bd) (loc : List Nat) (hloc : inShape (selShape shape sel) loc = true) :
    inShape shape (List.zipWith (· + ·) loc (selOffset sel)) = true ∧
    inSel sel (List.zipWith (· + ·) loc (selOffset sel)) = true :=
  selOffset_restores shape sel loc (batchify_rank shape bd sel hsel) hloc

/-- and every position of the subset is reached that way -/
theorem batchify_offset_reaches_subset (shape : List Nat) (sel : List (Option Nat)) (idx : List Nat)
    (h : inShape shape idx = true) (hs : inSel sel idx = true) :
    ∃ loc, inShape (selShape shape sel) loc = true ∧ List.zipWith (· + ·) loc (selOffset sel) = idx :=
  selOffset_complete shape sel idx h hs

/-- a 2×3×2 array with batch axes 0 and 2: four subsets of shape 1×3×1; voxel (1,2,0) lies in the third one, at
local position (0,2,0) + offset (1,0,0) -/
example : batchify [2, 3, 2] (some [0, 2]) =
    [[some 0, none, some 0], [some 0, none, some 1], [some 1, none, some 0], [some 1, none, some 1]] ∧
    selShape [2, 3, 2] [some 1, none, some 0] = [1, 3, 1] ∧ selOffset [some 1, none, some 0] = [1, 0, 0] ∧
    inSel [some 1, none, some 0] [1, 2, 0] = true ∧
    List.zipWith (· + ·) [0, 2, 0] (selOffset [some 1, none, some 0]) = [1, 2, 0] := by decide
example : ([0, 2] : List Nat).Pairwise (· < ·) ∧ (∀ d ∈ ([0, 2] : List Nat), d < [2, 3, 2].length) ∧
    inShape [2, 3, 2] [1, 2, 0] = true := by decide
/-- a batch axis of extent 1: one subset, the whole array -/
example : batchify [1, 3] (some [0]) = [[some 0, none]] ∧ selShape [1, 3] [some 0, none] = [1, 3] := by decide

/-- **`batch_dims` that are not ascending**: the indices are enumerated in `batch_dims` order but assigned in axis
order, so with shape 2×3 and `batch_dims = (1, 0)` axis 0 is sliced at 0, 1, 2 and axis 1 at 0, 1 only: the voxel (0,2)
lies in no subset and the last two subsets are empty -/
theorem batchify_descending_batch_dims_current_defect :
    (∀ sel ∈ batchify [2, 3] (some [1, 0]), inSel sel [0, 2] = false) ∧ inShape [2, 3] [0, 2] = true ∧
    [some 2, some 0] ∈ batchify [2, 3] (some [1, 0]) ∧ selShape [2, 3] [some 2, some 0] = [0, 1] := by decide

/-! ## a caller built with `batch_dims`: `__call__` over the batches, `_update` per batch -/

/-- `_update` with `batch_dims` reports rows it was given (running list or new candidates), unchanged -/
theorem batched_update_reports_given_rows (cfg : Cfg) (bd : List Nat) (st cands : List Peak) :
    ∀ p ∈ updateB cfg bd st cands, p ∈ st ∨ p ∈ cands := fun _ h => updateB_mem h

/-- **any history of submissions to a caller with `batch_dims`**: two reported peaks of the same batch (equal on every
batch axis) are strictly farther apart than the minimum distance -/
theorem batched_history_same_batch_far (cfg : Cfg) (strat : Strategy) (bd : List Nat) (subs : List Sub)
    (hmd : 0 < cfg.minDist) :
    (runB cfg strat bd subs).Pairwise (fun a b =>
      (∀ i ∈ bd, a.pos[i]? = b.pos[i]?) → (cfg.minDist : Int) * (cfg.minDist : Int) < d2 a.pos b.pos) :=
  runB_aux_sepB hmd strat bd subs [] List.Pairwise.nil

/-- **any history, every strategy with a deterministic model**: a reported peak is an in-bounds translation of one of
the submitted arrays (global coordinates: the batch offset has been added back), carries that array's value there and
that submission's rotation, lies in the score window, and keeps the margin on every non-batch axis -/
theorem batched_history_submitted (cfg : Cfg) (strat : Strategy) (hs : strat ≠ .scipy) (bd : List Nat)
    (subs : List Sub) (ho : ∀ s ∈ subs, s.orc.callTopk = none) :
    ∀ p ∈ runB cfg strat bd subs, ∃ s ∈ subs, ∃ c : List Nat,
      inShape s.scores.shape c = true ∧ p.pos = c.map Int.ofNat ∧ p.rot = s.rot ∧ p.score = s.scores.getD c 0 ∧
      inWindow cfg p.score = true ∧
      (0 < cfg.minBoundary → ∀ i (h1 : i < s.scores.shape.length) (h2 : i < c.length), bd.contains i = false →
        cfg.minBoundary ≤ c[i] ∧ c[i] + cfg.minBoundary < s.scores.shape[i]) := by
  intro p hp
  rcases runB_aux_mem hs subs [] ho p hp with h | ⟨s, hs', c, h1, h2, h3, h4, h5, h6⟩
  · simp at h
  · refine ⟨s, hs', c, h1, h2, h3, h4, h5, ?_⟩
    intro hmb i hi1 hi2 hb
    exact inMarginB_spec _ bd 0 _ c (h6 hmb) i hi1 hi2 (by simpa using hb)

/-- two batches along axis 0 of a 2×5 array, `min_distance = 2`, up to 3 peaks per batch: each row reports its own
separated voxels ((0,2)=7 is suppressed by (0,4)=8 of its row); (0,4)=8 and (1,4)=9 are one voxel apart and both reported -/
def exBatch : Arr Int := ⟨[2, 5], #[5, 1, 7, 0, 8, 6, 2, 3, 4, 9]⟩
example : runB ⟨3, 2, 0, none, none⟩ .sort [0] [⟨exBatch, 1, {}⟩]
    = [⟨[0, 4], 1, 8⟩, ⟨[0, 0], 1, 5⟩, ⟨[1, 4], 1, 9⟩, ⟨[1, 0], 1, 6⟩] := by decide
example : runB ⟨2, 2, 0, none, none⟩ .maxFilter [0] [⟨exBatch, 1, {}⟩]
    = runB ⟨2, 2, 0, none, none⟩ .sort [0] [⟨exBatch, 1, {}⟩] := by decide
example : (⟨exBatch, 1, {}⟩ : Sub).orc.callTopk = none := rfl
/-- with a margin of 1 the batch axis (extent 2) is exempt: columns 1..3 remain -/
example : runB ⟨5, 2, 1, none, none⟩ .sort [0] [⟨exBatch, 1, {}⟩] = [⟨[0, 2], 1, 7⟩, ⟨[1, 3], 1, 4⟩] := by decide
/-- the batch id of `_update` uses the flattening of `_filter_bucket`: the batches (0,1) and (2,0) of two batch axes
share the id 2, so with `number_of_peaks = 1` only the better of the two is kept -/
example : batchIds [0, 1] [⟨[0, 1, 0], 0, 5⟩, ⟨[2, 0, 0], 0, 9⟩] = [2, 2] ∧
    updateB ⟨1, 1, 0, none, none⟩ [0, 1] [] [⟨[0, 1, 0], 0, 5⟩, ⟨[2, 0, 0], 0, 9⟩] = [⟨[2, 0, 0], 0, 9⟩] := by decide

/-- `PeakCaller.merge(..., batch_dims, offset)`: every merged peak is a peak of one of the parts moved by the offset -/
theorem batched_merge_from_parts (cfg : Cfg) (bd : List Nat) (off : Option (List Int)) (parts : List (Option (List Peak))) :
    ∀ p ∈ mergeB cfg bd off [] parts, ∃ c, some c ∈ parts ∧ ∃ q ∈ c,
      p = shiftPeak off q ∧ p.score = q.score ∧ p.rot = q.rot := by
  intro p hp
  rcases mergeB_mem parts [] p hp with h | ⟨c, hc, q, hq, rfl⟩
  · simp at h
  · exact ⟨c, hc, q, hq, rfl, shiftPeak_score _ _, shiftPeak_rot _ _⟩

/-- merged peaks of one batch are strictly farther apart than the minimum distance -/
theorem batched_merge_same_batch_far (cfg : Cfg) (bd : List Nat) (off : Option (List Int))
    (parts : List (Option (List Peak))) (hmd : 0 < cfg.minDist) :
    (mergeB cfg bd off [] parts).Pairwise (fun a b =>
      (∀ i ∈ bd, a.pos[i]? = b.pos[i]?) → (cfg.minDist : Int) * (cfg.minDist : Int) < d2 a.pos b.pos) :=
  mergeB_sepB hmd bd off parts [] List.Pairwise.nil

example : mergeB ⟨3, 2, 0, none, none⟩ [0] (some [10, 20]) []
    [some [⟨[0, 4], 1, 8⟩, ⟨[1, 4], 1, 9⟩], none, some [⟨[0, 3], 2, 7⟩, ⟨[1, 0], 2, 6⟩]]
    = [⟨[10, 24], 1, 8⟩, ⟨[11, 24], 1, 9⟩, ⟨[11, 20], 2, 6⟩] := by decide

/-! ## non-vacuity: concrete histories where every hypothesis holds and the conclusions bite -/


/-! ## the greedy distance filter in more detail (`find_candidate_indices`) -/

/-- the greedy pass only ever appends: its result is the kept list followed by a sublist of the rest -/
theorem greedyAux_eq_append (md : Nat) : ∀ (rest kept : List Peak),
    ∃ l, l.Sublist rest ∧ greedyAux md kept rest = kept ++ l
  | [], kept => ⟨[], List.Sublist.refl _, by simp [greedyAux]⟩
  | x :: xs, kept => by
      unfold greedyAux
      split
      · obtain ⟨l, hl, he⟩ := greedyAux_eq_append md xs (kept ++ [x])
        exact ⟨x :: l, List.cons_sublist_cons.mpr hl, by rw [he]; simp⟩
      · obtain ⟨l, hl, he⟩ := greedyAux_eq_append md xs kept
        exact ⟨l, hl.trans (List.sublist_cons_self x xs), he⟩

/-- `filter_points_indices` returns the candidates it keeps in their original (score) order -/
theorem filterPoints_sublist (md : Nat) (xs : List Peak) : (filterPoints md xs).Sublist xs := by
  unfold filterPoints
  split
  · exact List.Sublist.refl _
  · obtain ⟨l, hl, he⟩ := greedyAux_eq_append md xs []
    rw [he]; simpa using hl

/-- candidates handed over by descending score are reported by descending score -/
theorem filterPoints_sorted_desc (md : Nat) (xs : List Peak)
    (h : xs.Pairwise (fun a b => b.score ≤ a.score)) :
    (filterPoints md xs).Pairwise (fun a b => b.score ≤ a.score) :=
  List.Pairwise.sublist (filterPoints_sublist md xs) h

/-- `min_distance = 0` switches the filter off: every candidate is kept -/
theorem filterPoints_zero (xs : List Peak) : filterPoints 0 xs = xs := by
  simp [filterPoints]

/-- the best candidate is not only kept, it is reported first -/
theorem filterPoints_head_first (md : Nat) (x : Peak) (xs : List Peak) :
    (filterPoints md (x :: xs)).head? = some x := by
  unfold filterPoints
  split
  · rfl
  · unfold greedyAux
    simp only [List.all_nil, if_true]
    obtain ⟨l, _, he⟩ := greedyAux_eq_append md xs ([] ++ [x])
    rw [he]; simp

/-- maximality of the greedy pass: a candidate that is not reported is too close to a reported one -/
theorem greedyAux_maximal (md : Nat) : ∀ (rest kept : List Peak) (x : Peak), x ∈ rest →
    x ∈ greedyAux md kept rest ∨ ∃ k ∈ greedyAux md kept rest, far md x.pos k.pos = false
  | y :: ys, kept, x, hx => by
      unfold greedyAux
      rcases List.mem_cons.mp hx with h | hx'
      · rw [h]
        split
        · left; exact greedyAux_kept md ys _ _ (by simp)
        · rename_i hall
          apply Classical.byContradiction
          intro hc
          apply hall
          apply List.all_eq_true.mpr
          intro k hk
          apply Classical.byContradiction
          intro hf
          exact hc (Or.inr ⟨k, greedyAux_kept md ys kept k hk, by simpa using hf⟩)
      · split
        · exact greedyAux_maximal md ys _ x hx'
        · exact greedyAux_maximal md ys _ x hx'

/-- maximality of `filter_points_indices`: every rejected candidate lies within the minimum distance of a reported one -/
theorem filterPoints_maximal (md : Nat) (xs : List Peak) (x : Peak) (hx : x ∈ xs) :
    x ∈ filterPoints md xs ∨ ∃ k ∈ filterPoints md xs, far md x.pos k.pos = false := by
  unfold filterPoints
  split
  · exact Or.inl hx
  · exact greedyAux_maximal md xs [] x hx

/-- a list that is already pairwise separated passes the greedy pass unchanged -/
theorem greedyAux_of_far (md : Nat) : ∀ (l kept : List Peak), (kept ++ l).Pairwise (FarP md) →
    greedyAux md kept l = kept ++ l
  | [], kept, _ => by simp [greedyAux]
  | x :: xs, kept, h => by
      unfold greedyAux
      have h' : ((kept ++ [x]) ++ xs).Pairwise (FarP md) := by simpa using h
      have hall : kept.all (fun k => far md x.pos k.pos) = true := by
        apply List.all_eq_true.mpr
        intro k hk
        have := (List.pairwise_append.mp h).2.2 k hk x (by simp)
        unfold FarP at this; rw [far_comm]; exact this
      rw [if_pos hall, greedyAux_of_far md xs _ h']; simp

/-- filtering is idempotent: filtering a reported list again changes nothing -/
theorem filterPoints_idempotent (md : Nat) (xs : List Peak) :
    filterPoints md (filterPoints md xs) = filterPoints md xs := by
  by_cases h : md = 0
  · simp [filterPoints, h]
  · have hp := filterPoints_pairwise (md := md) (by omega) xs
    generalize filterPoints md xs = ys at hp
    unfold filterPoints; rw [if_neg h]
    simpa using greedyAux_of_far md ys [] (by simpa using hp)

/-- the greedy pass over a concatenation is the pass over the second part started from the result of the first -/
theorem greedyAux_append (md : Nat) (a : List Peak) : ∀ (kept b : List Peak),
    greedyAux md kept (a ++ b) = greedyAux md (greedyAux md kept a) b := by
  induction a with
  | nil => intro kept b; simp [greedyAux]
  | cons x xs ih =>
    intro kept b
    simp only [List.cons_append, greedyAux]
    by_cases hc : (kept.all fun k => far md x.pos k.pos) = true
    · simp only [if_pos hc]; exact ih _ _
    · simp only [if_neg hc]; exact ih _ _

/-- monotone in the candidate list: the result for a prefix of the candidates is a prefix of the result -/
theorem filterPoints_prefix_mono (md : Nat) (a b : List Peak) (h : a <+: b) :
    filterPoints md a <+: filterPoints md b := by
  obtain ⟨t, rfl⟩ := h
  unfold filterPoints
  split
  · exact List.prefix_append _ _
  · rw [greedyAux_append]
    obtain ⟨l, _, he⟩ := greedyAux_eq_append md t (greedyAux md [] a)
    rw [he]; exact List.prefix_append _ _

/-- monotone in `number_of_peaks` (deterministic top-k): the peaks kept for a smaller limit are a prefix of
those kept for a larger one -/
theorem update_numPeaks_prefix (n n' md mb : Nat) (lo hi : Option Int) (hn : n ≤ n') (st cands : List Peak) :
    update ⟨n, md, mb, lo, hi⟩ st cands none <+: update ⟨n', md, mb, lo, hi⟩ st cands none := by
  unfold update
  apply filterPoints_prefix_mono
  apply List.IsPrefix.filterMap
  simp only [selectTopk, topkSort]
  have hk : min (st ++ cands).length n ≤ min (st ++ cands).length n' := by omega
  generalize min (st ++ cands).length n = k at hk
  generalize min (st ++ cands).length n' = k' at hk
  generalize sortDesc _ = l
  rw [show l.take k = (l.take k').take k by rw [List.take_take, Nat.min_eq_left hk]]
  exact List.take_prefix _ _

/-- a point is never farther than the minimum distance from itself -/
theorem far_irrefl (md : Nat) (p : List Int) : far md p p = false := by
  have h0 : d2 p p = 0 := by
    induction p with
    | nil => rfl
    | cons a p ih => simp [d2, ih]
  unfold far; rw [h0, decide_eq_false_iff_not]
  intro h
  have h1 : (0 : Int) < (md : Int) + 1 := by omega
  exact Int.lt_irrefl 0 (Int.lt_of_lt_of_le (Int.mul_pos h1 h1) h)

/-- with a positive minimum distance the reported translations are pairwise distinct -/
theorem filterPoints_distinct_positions {md : Nat} (hmd : 0 < md) (xs : List Peak) :
    (filterPoints md xs).Pairwise (fun a b => a.pos ≠ b.pos) :=
  (filterPoints_pairwise hmd xs).imp (by
    intro a b h he
    unfold FarP at h
    rw [he, far_irrefl] at h
    exact Bool.noConfusion h)

/-- adding the same offset to two translations does not change their squared distance -/
theorem d2_shift (o : List Int) : ∀ (p q : List Int), p.length = o.length → q.length = o.length →
    d2 (List.zipWith (· + ·) p o) (List.zipWith (· + ·) q o) = d2 p q := by
  induction o with
  | nil => intro p q hp hq; cases p <;> cases q <;> simp_all [d2]
  | cons c o ih =>
    intro p q hp hq
    cases p with
    | nil => simp at hp
    | cons a p =>
      cases q with
      | nil => simp at hq
      | cons b q =>
        simp only [List.zipWith_cons_cons, d2]
        rw [ih p q (by simpa using hp) (by simpa using hq)]
        have : a + c - (b + c) = a - b := by omega
        rw [this]

/-- `merge(offset=…)`: shifting two peaks by the tile offset preserves the distance test between them -/
theorem shiftPeak_preserves_far (md : Nat) (o : List Int) (a b : Peak)
    (ha : a.pos.length = o.length) (hb : b.pos.length = o.length) :
    far md (shiftPeak (some o) a).pos (shiftPeak (some o) b).pos = far md a.pos b.pos := by
  simp only [shiftPeak, far, d2_shift o _ _ ha hb]

example : (⟨[1, 2], 0, 5⟩ : Peak).pos.length = ([10, 20] : List Int).length := rfl

/-- `d2 p p = 0` -/
theorem d2_self (p : List Int) : d2 p p = 0 := by
  induction p with
  | nil => rfl
  | cons a p ih => simp [d2, ih]

/-- whatever the history, with a positive minimum distance no translation is reported twice -/
theorem peaks_distinct_positions (cfg : Cfg) (strat : Strategy) (subs : List Sub) (hmd : 0 < cfg.minDist) :
    (run cfg strat subs).Pairwise (fun a b => a.pos ≠ b.pos) :=
  (peaks_pairwise_far cfg strat subs hmd).imp (by
    intro a b h he
    rw [he, d2_self] at h
    have h1 : (0 : Int) < (cfg.minDist : Int) := by omega
    exact Int.lt_irrefl 0 (Int.lt_trans (Int.mul_pos h1 h1) h))

/-- a tile of extent `tile` placed at offset `o` lies inside the full volume `full` -/
def tileFits : List Nat → List Nat → List Int → Prop
  | t :: ts, f :: fs, o :: os => 0 ≤ o ∧ o + (t : Int) ≤ (f : Int) ∧ tileFits ts fs os
  | [], [], [] => True
  | _, _, _ => False

/-- `merge(offset=…)`: a peak inside its tile, shifted by the tile offset, lies inside the full volume -/
theorem shift_inBounds (tile : List Nat) : ∀ (full : List Nat) (o p : List Int), tileFits tile full o →
    inBoundsI tile p = true → inBoundsI full (List.zipWith (· + ·) p o) = true := by
  induction tile with
  | nil => intro full o p hf hp; cases full <;> cases o <;> cases p <;> simp_all [tileFits, inBoundsI]
  | cons t ts ih =>
    intro full o p hf hp
    cases full with
    | nil => simp [tileFits] at hf
    | cons f fs =>
      cases o with
      | nil => simp [tileFits] at hf
      | cons o os =>
        cases p with
        | nil => simp [inBoundsI] at hp
        | cons p ps =>
          simp only [tileFits] at hf
          simp only [inBoundsI, Bool.and_eq_true, decide_eq_true_eq] at hp
          simp only [List.zipWith_cons_cons, inBoundsI, Bool.and_eq_true, decide_eq_true_eq]
          exact ⟨⟨by omega, by omega⟩, ih fs os ps hf.2.2 hp.2⟩

example : tileFits [2, 5] [10, 30] [8, 20] ∧ inBoundsI [2, 5] [1, 4] = true :=
  ⟨by simp [tileFits], by decide⟩

/-- `merge(offset=…)`: a pairwise separated list stays pairwise separated after the common shift -/
theorem shift_preserves_pairwise_far (md : Nat) (o : List Int) (l : List Peak)
    (hl : ∀ p ∈ l, p.pos.length = o.length) (h : l.Pairwise (FarP md)) :
    (l.map (shiftPeak (some o))).Pairwise (FarP md) := by
  rw [List.pairwise_map]
  exact List.Pairwise.imp_of_mem (by
    intro a b ha hb hab
    unfold FarP
    rw [shiftPeak_preserves_far md o a b (hl a ha) (hl b hb)]
    exact hab) h

/-- `_update` is maximal: a candidate selected by the top-k step that is not reported lies within the
minimum distance of a reported peak -/
theorem update_maximal (cfg : Cfg) (st cands : List Peak) (o : Option (List Nat)) (i : Nat) (x : Peak)
    (hi : i ∈ selectTopk ((st ++ cands).map (·.score)) (min (st ++ cands).length cfg.nPeaks) o)
    (hx : (st ++ cands)[i]? = some x) :
    x ∈ update cfg st cands o ∨ ∃ k ∈ update cfg st cands o, far cfg.minDist x.pos k.pos = false := by
  unfold update
  apply filterPoints_maximal
  exact List.mem_filterMap.mpr ⟨i, hi, hx⟩

example : (0 : Nat) ∈ selectTopk ((([] : List Peak) ++ [(⟨[0], 0, 1⟩ : Peak)]).map Peak.score) (min 1 1) none := by decide

/-- with the deterministic top-k, `_update` reports its peaks by descending score -/
theorem update_sorted_desc (cfg : Cfg) (st cands : List Peak) :
    (update cfg st cands none).Pairwise (fun a b => b.score ≤ a.score) := by
  unfold update
  apply filterPoints_sorted_desc
  rw [List.pairwise_filterMap]
  have hd : Desc (fun i => ((st ++ cands).map (·.score)).getD i 0)
      (selectTopk ((st ++ cands).map (·.score)) (min (st ++ cands).length cfg.nPeaks) none) := by
    unfold selectTopk topkSort sortDesc
    exact List.Pairwise.sublist (List.take_sublist _ _) (sortDescL_desc _ _)
  refine hd.imp ?_
  intro i j hij b hb b' hb'
  obtain ⟨hi, rfl⟩ := List.getElem?_eq_some_iff.mp hb
  obtain ⟨hj, rfl⟩ := List.getElem?_eq_some_iff.mp hb'
  beta_reduce at hij
  rw [getD_map_score _ i hi, getD_map_score _ j hj] at hij
  exact hij

/-- boundary margin, per axis: a translation passing the margin test is at least `min_boundary_distance`
from the lower face and strictly more than that from the upper end on every axis -/
theorem inMargin_axis (mb : Nat) : ∀ (shape p : List Nat), inMargin mb shape p = true →
    ∀ i (hs : i < shape.length) (hp : i < p.length), mb ≤ p[i] ∧ p[i] + mb < shape[i]
  | s :: ss, x :: xs, h, i, hs, hp => by
      simp only [inMargin, Bool.and_eq_true, decide_eq_true_eq] at h
      cases i with
      | zero => simp only [List.getElem_cons_zero]; omega
      | succ j =>
        simp only [List.getElem_cons_succ]
        exact inMargin_axis mb ss xs h.2 j (by simpa using hs) (by simpa using hp)
  | [], _, _, i, hs, _ => by simp at hs
  | _ :: _, [], _, i, _, hp => by simp at hp

example : inMargin 1 [4, 5] [1, 3] = true := by decide

/-- a 2×5 array, two submissions, `min_distance = 1`, at most 3 peaks -/
def exCfg : Cfg := ⟨3, 1, 0, none, none⟩
def exA : Arr Int := ⟨[2, 5], #[5, 1, 7, 0, 2, 9, 3, 4, 1, 0]⟩
def exB : Arr Int := ⟨[2, 5], #[-1, -2, -3, -4, -5, -6, -7, -8, 6, 8]⟩
def exSubs : List Sub := [⟨exA, 1, {}⟩, ⟨exB, 2, {}⟩]

example : run exCfg .sort exSubs = [⟨[1, 0], 1, 9⟩, ⟨[1, 4], 2, 8⟩, ⟨[0, 2], 1, 7⟩] := by decide
example : run exCfg .maxFilter exSubs = run exCfg .sort exSubs := by decide
example : run exCfg .recursive exSubs = run exCfg .sort exSubs := by decide
example : run exCfg .fast exSubs = run exCfg .sort exSubs := by decide
example : WF exA ∧ WF exB := ⟨⟨by decide, by decide⟩, ⟨by decide, by decide⟩⟩
example : HistOk exCfg .sort [] exSubs ∧ ∀ s ∈ exSubs, MaxOrcOk exCfg .sort s :=
  contracts_hold_without_oracles exCfg .sort (by decide) exSubs (by decide)
/-- the separation really removes something: (0,0)=5 is the third best of the first array but touches (1,0)=9 -/
example : run exCfg .sort [⟨exA, 1, {}⟩] = [⟨[1, 0], 1, 9⟩, ⟨[0, 2], 1, 7⟩] := by decide
example : isTopK [5, 1, 7, 0, 2, 9, 3, 4, 1, 0] 3 [5, 2, 0] = true := by decide
example : callFast 1 exA none = [[1, 0], [0, 2], [0, 0], [0, 4]] := by decide
example : merge exCfg (some [10, 20]) [] [(some (run exCfg .sort exSubs), none), (none, none)]
    = [⟨[11, 20], 1, 9⟩, ⟨[11, 24], 2, 8⟩, ⟨[10, 22], 1, 7⟩] := by decide
/-- `same` mode, target 5, template 3, no Fourier padding: fast = conv = 5, shift −1 -/
example : AxOk ⟨5, 5, 5, -1⟩ := ⟨by decide, by decide, by decide, by decide⟩
example : ([0, 1, 2, 3, 4] : List Int).map (fun p => ppAxis true ⟨5, 5, 5, -1⟩ p) = [some 4, some 0, some 1, some 2, some 3] := by decide
example : postprocess true [⟨8, 7, 5, 0⟩] [⟨[0], 1, 3⟩, ⟨[1], 1, 4⟩, ⟨[5], 1, 2⟩, ⟨[6], 1, 9⟩]
    = [⟨[0], 1, 4⟩, ⟨[4], 1, 2⟩] := by decide

end Pm.C05
