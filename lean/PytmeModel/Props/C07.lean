import PytmeModel.Model.C07
import PytmeModel.Proofs.C07
import Mathlib.Tactic.Ring
import Mathlib.Tactic.Linarith
import Mathlib.Tactic.LinearCombination
import Mathlib.Tactic.FieldSimp
import Mathlib.Algebra.Order.Field.Basic

/-! # C07 — rotation sets are proper, complete, and cover orientation space as stated

Carried here for **all** inputs: quaternion → matrix is a proper rotation, is the standard
(Hamilton, scalar first, `v ↦ q v q*`) convention, the identity quaternion gives the identity;
the closest-set lookup is a first argmin for every table and request; Euler sequences (any
letters, extrinsic or intrinsic) are proper, `zyx` is determined by its entries off gimbal lock;
the cone axis keeps inner product `cos a · cos b`; the QR branch post-processing yields proper
rotations with the identity first.
Deepened: `rotation_aligning_vectors` (Rodrigues matrix: proper, maps `u` onto `v`, fixes the axis,
trace, group law, quaternion link, antiparallel ⇒ zero axis), `to(from(R)) = R` for every proper rotation off
gimbal lock, the `convention` string dispatch, cone sampling about a general axis (`V · R_zyx`).

NOT carried (see the claim text): *every orientation of SO(3) is within the nominal angle of a
member* — a covering statement about a continuous space for concrete finite sets; explored
numerically by the harness only, as a search for a failing orientation. -/
namespace Pm.C07

/-! ## quaternion → matrix -/
section quat
variable {α : Type} [CommRing α]

/-- `|q|² = 1` ⇒ `RᵀR = 1` and `RRᵀ = 1` (`s = 2‖q‖ = 2`) -/
theorem quat_rot_orthonormal (q : Q4 α) (hq : normSq q = 1) : (quatToMat 2 q).Orthonormal := by
  obtain ⟨w, x, y, z⟩ := q
  simp only [normSq] at hq
  simp only [M3.Orthonormal, quatToMat, M3.tr, M3.mul, M3.id, M3.mk.injEq]
  and_intros <;> grind

/-- `|q|² = 1` ⇒ `det R = 1` -/
theorem quat_rot_det_one (q : Q4 α) (hq : normSq q = 1) : (quatToMat 2 q).det = 1 := by
  obtain ⟨w, x, y, z⟩ := q
  simp only [normSq] at hq
  simp only [quatToMat, M3.det]
  grind

/-- every unit quaternion is turned into a proper rotation -/
theorem quat_rot_proper (q : Q4 α) (hq : normSq q = 1) : (quatToMat 2 q).Proper :=
  ⟨quat_rot_orthonormal q hq, quat_rot_det_one q hq⟩

/-- the first row of every shipped set, `(1,0,0,0)`, gives the identity (whatever `s`) -/
theorem identity_quat_first (s : α) : quatToMat s ⟨1, 0, 0, 0⟩ = M3.id := by
  simp only [quatToMat, M3.id, M3.mk.injEq]
  and_intros <;> ring

/-- standard convention: the matrix is the action `v ↦ q v q*` of the (scalar-first, Hamilton)
quaternion on pure quaternions -/
theorem quat_rot_conj (q : Q4 α) (hq : normSq q = 1) (v : α × α × α) :
    (q.mul (Q4.pure v)).mul q.conj = Q4.pure ((quatToMat 2 q).mulVec v) := by
  obtain ⟨w, x, y, z⟩ := q
  obtain ⟨v1, v2, v3⟩ := v
  simp only [normSq] at hq
  simp only [Q4.mul, Q4.pure, Q4.conj, quatToMat, M3.mulVec, Q4.mk.injEq]
  and_intros <;> grind

/-- … and it is a homomorphism: the product of unit quaternions goes to the matrix product -/
theorem quat_rot_mul (p q : Q4 α) (hp : normSq p = 1) (hq : normSq q = 1) :
    quatToMat 2 (p.mul q) = (quatToMat 2 p).mul (quatToMat 2 q) := by
  obtain ⟨pw, px, py, pz⟩ := p
  obtain ⟨w, x, y, z⟩ := q
  simp only [normSq] at hp hq
  simp only [Q4.mul, quatToMat, M3.mul, M3.mk.injEq]
  and_intros <;> grind

/-- `q` and `-q` are the same orientation (so distances between orientations use `|⟨p,q⟩|`) -/
theorem quat_rot_neg (s : α) (q : Q4 α) : quatToMat s q.neg = quatToMat s q := by
  simp only [Q4.neg, quatToMat, M3.mk.injEq]
  and_intros <;> ring

/-- the normalisation a general (non-unit) quaternion needs is `s = 2/|q|²`: with it the matrix is
a proper rotation for every `q` -/
theorem quat_rot_proper_of_scale (s : α) (q : Q4 α) (hs : s * normSq q = 2) : (quatToMat s q).Proper := by
  obtain ⟨w, x, y, z⟩ := q
  simp only [normSq] at hs
  simp only [M3.Proper, M3.Orthonormal, quatToMat, M3.tr, M3.mul, M3.id, M3.det, M3.mk.injEq]
  and_intros <;> grind

/-- quirk of the code as it is: it uses `s = 2‖q‖`, which is right only on unit quaternions
(every shipped row is one, checked exhaustively on each run); for `q = (0,2,0,0)` (`s = 4`) the
result is not orthonormal.  Recorded, not part of the property (its quantifier is the shipped rows). -/
theorem quat_rot_nonunit_not_rotation :
    ¬ (quatToMat (4 : Int) ⟨0, 2, 0, 0⟩).Orthonormal := by
  simp only [M3.Orthonormal, quatToMat, M3.tr, M3.mul, M3.id, M3.mk.injEq]
  decide

end quat

example : normSq (⟨3/5, 0, 4/5, 0⟩ : Q4 Rat) = 1 := by decide +kernel
example : (quatToMat 2 (⟨3/5, 0, 4/5, 0⟩ : Q4 Rat)) = ⟨-7/25, 0, 24/25, 0, 1, 0, -24/25, 0, -7/25⟩ := by
  decide +kernel
example : (quatToMat (2 : Int) ⟨0, 0, 0, 1⟩) = ⟨-1, 0, 0, 0, -1, 0, 0, 0, 1⟩ := by decide
-- a half turn about z sends e₀ to -e₀, as conjugation and as matrix
example : ((⟨0, 0, 0, 1⟩ : Q4 Int).mul (Q4.pure (1, 0, 0))).mul (⟨0, 0, 0, 1⟩ : Q4 Int).conj = Q4.pure (-1, 0, 0) ∧
    (quatToMat (2 : Int) ⟨0, 0, 0, 1⟩).mulVec (1, 0, 0) = (-1, 0, 0) := by decide
example : (2 : Rat) * normSq (⟨0, 2, 0, 0⟩ : Q4 Rat) ≠ 2 ∧ (1/2 : Rat) * normSq (⟨0, 2, 0, 0⟩ : Q4 Rat) = 2 := by
  decide +kernel

/-! ## closest-angle set lookup -/
section lookup
variable {ι β : Type} [LinearOrder β]

theorem argminFirst_none_iff (f : ι → β) (l : List ι) : argminFirst f l = none ↔ l = [] := by
  cases l <;> simp [argminFirst]

/-- the lookup returns an element of the table whose key is minimal — for every table, key and request -/
theorem closest_set_argmin (f : ι → β) (l : List ι) (r : ι) (h : argminFirst f l = some r) :
    r ∈ l ∧ ∀ x ∈ l, f r ≤ f x := by
  cases l with
  | nil => simp [argminFirst] at h
  | cons x xs =>
    simp only [argminFirst, Option.some.injEq] at h
    obtain ⟨h1, h2, h3⟩ := runMin_le f xs x
    simp only [h] at h1 h2 h3
    refine ⟨?_, ?_⟩
    · rcases h1 with h1 | h1
      · rw [h1]; exact List.mem_cons_self
      · exact List.mem_cons_of_mem _ h1
    · intro z hz
      rcases List.mem_cons.mp hz with rfl | hz
      · exact h2
      · exact h3 z hz

/-- on ties the *first* minimal entry is returned, as Python's `min` does: everything before the
result in the table has a strictly larger key -/
theorem closest_set_first_min (f : ι → β) (l : List ι) (r : ι) (h : argminFirst f l = some r) :
    ∃ pre post, l = pre ++ r :: post ∧ ∀ y ∈ pre, f r < f y := by
  cases l with
  | nil => simp [argminFirst] at h
  | cons x xs =>
    simp only [argminFirst, Option.some.injEq] at h
    have := runMin_first f xs x
    simp only [h] at this
    exact this

end lookup

section lookupRing
variable {β : Type} [Ring β] [LinearOrder β] [IsStrictOrderedRing β]

/-- `load_quaternions_by_angle`: the chosen set is one of the table whose nominal angle is closest
to the request (for every table and every request) -/
theorem closestSet_spec (table : List (String × Nat × β)) (req : β) (e : String × Nat × β)
    (h : closestSet table req = some e) :
    e ∈ table ∧ ∀ x ∈ table, |req - e.2.2| ≤ |req - x.2.2| := by
  obtain ⟨h1, h2⟩ := closest_set_argmin _ _ _ h
  refine ⟨h1, fun x hx => ?_⟩
  have := h2 x hx
  simpa only [absDiff_eq_abs] using this

omit [IsStrictOrderedRing β] in
/-- a non-empty table always yields a set -/
theorem closestSet_some (table : List (String × Nat × β)) (req : β) (hne : table ≠ []) :
    ∃ e, closestSet table req = some e := by
  cases table with
  | nil => exact absurd rfl hne
  | cons x xs => exact ⟨_, rfl⟩

end lookupRing

/-- the same for the shipped table with exact arithmetic in 1/100 degree: every request gets a set,
and no shipped set is closer to the request than the one returned -/
theorem closest_shipped_spec (req : Int) :
    ∃ e, closestSet shipped req = some e ∧ e ∈ shipped ∧ ∀ x ∈ shipped, |req - e.2.2| ≤ |req - x.2.2| := by
  obtain ⟨e, he⟩ := closestSet_some shipped req (by decide)
  exact ⟨e, he, closestSet_spec shipped req e he⟩

/-- the shipped table: 20 sets, pairwise distinct nominal angles (so ties between sets can only be
exact midpoints), every size a positive multiple of the symmetry order named by the file
(24 for `c48…`, 60 for `c600…`) -/
theorem shipped_table_sane :
    shipped.length = 20 ∧ (shipped.map (·.2.2)).Nodup ∧ (shipped.map (·.1)).Nodup ∧
    shipped.all (fun e => decide (0 < e.2.1) &&
      (if e.1.startsWith "c48" then e.2.1 % 24 == 0 else e.2.1 % 60 == 0)) = true := by
  decide +kernel

example : closestSet shipped 6000 = some ("c48u1.npy", 24, 6280) := by decide +kernel
example : closestSet shipped 1000 = some ("c48n309.npy", 7416, 972) := by decide +kernel
-- exact midpoint of 62.80 and 44.48: the earlier entry of the file wins
example : closestSet shipped 5364 = some ("c48u1.npy", 24, 6280) := by decide +kernel
example : argminFirst (fun x : Nat => x % 3) [4, 7, 3, 6] = some 3 := by decide

/-! ## Euler angles -/
section euler
variable {α : Type} [CommRing α]

/-- every sequence of elementary rotations composed extrinsically is a proper rotation -/
theorem euler_extrinsic_proper (l : List (Nat × α × α))
    (h : ∀ r ∈ l, r.2.1 * r.2.1 + r.2.2 * r.2.2 = 1) : (eulerExtrinsic l).Proper := by
  unfold eulerExtrinsic
  suffices H : ∀ (acc : M3 α), acc.Proper →
      (l.foldl (fun acc r => (axisRot r.1 r.2.1 r.2.2).mul acc) acc).Proper from H _ M3.id_proper
  induction l with
  | nil => intro acc ha; exact ha
  | cons r rs ih =>
    intro acc ha
    simp only [List.foldl_cons]
    exact ih (fun x hx => h x (List.mem_cons_of_mem _ hx)) _
      ((axisRot_proper _ _ _ (h r List.mem_cons_self)).mul ha)

/-- … and intrinsically -/
theorem euler_intrinsic_proper (l : List (Nat × α × α))
    (h : ∀ r ∈ l, r.2.1 * r.2.1 + r.2.2 * r.2.2 = 1) : (eulerIntrinsic l).Proper := by
  unfold eulerIntrinsic
  suffices H : ∀ (acc : M3 α), acc.Proper →
      (l.foldl (fun acc r => acc.mul (axisRot r.1 r.2.1 r.2.2)) acc).Proper from H _ M3.id_proper
  induction l with
  | nil => intro acc ha; exact ha
  | cons r rs ih =>
    intro acc ha
    simp only [List.foldl_cons]
    exact ih (fun x hx => h x (List.mem_cons_of_mem _ hx)) _
      (ha.mul (axisRot_proper _ _ _ (h r List.mem_cons_self)))

/-- the default convention is the extrinsic sequence z, y, x -/
theorem euler_zyx_eq_extrinsic (ca sa cb sb cc sc : α) :
    eulerZYX ca sa cb sb cc sc = eulerExtrinsic [(2, ca, sa), (1, cb, sb), (0, cc, sc)] := by
  simp only [eulerZYX, eulerExtrinsic, List.foldl_cons, List.foldl_nil, axisRot, M3.mul_id]

/-- extrinsic `zyx` = intrinsic `XYZ` with the angles reversed (scipy's two readings of a sequence) -/
theorem euler_zyx_eq_intrinsic_reversed (ca sa cb sb cc sc : α) :
    eulerZYX ca sa cb sb cc sc = eulerIntrinsic [(0, cc, sc), (1, cb, sb), (2, ca, sa)] := by
  simp only [eulerZYX, eulerIntrinsic, List.foldl_cons, List.foldl_nil, axisRot, M3.id_mul, M3.mul_assoc]

/-- scipy's two readings of a sequence agree in general: an extrinsic sequence is the intrinsic
sequence read backwards -/
theorem euler_extrinsic_eq_intrinsic_reverse (l : List (Nat × α × α)) :
    eulerExtrinsic l = eulerIntrinsic l.reverse := by
  unfold eulerExtrinsic
  suffices H : ∀ (A : M3 α), l.foldl (fun acc r => (axisRot r.1 r.2.1 r.2.2).mul acc) A =
      (eulerIntrinsic l.reverse).mul A by rw [H, M3.mul_id]
  induction l with
  | nil => intro A; simp [eulerIntrinsic, M3.id_mul]
  | cons r rs ih =>
    intro A
    simp only [List.foldl_cons, List.reverse_cons]
    rw [ih]
    unfold eulerIntrinsic
    rw [List.foldl_append]
    simp only [List.foldl_cons, List.foldl_nil, M3.mul_assoc]

theorem euler_zyx_proper (ca sa cb sb cc sc : α) (ha : ca * ca + sa * sa = 1)
    (hb : cb * cb + sb * sb = 1) (hc : cc * cc + sc * sc = 1) : (eulerZYX ca sa cb sb cc sc).Proper := by
  rw [euler_zyx_eq_extrinsic]
  apply euler_extrinsic_proper
  intro r hr
  simp only [List.mem_cons, List.not_mem_nil, or_false] at hr
  rcases hr with rfl | rfl | rfl <;> assumption

/-- the entries the inverse conversion reads: `R02 = sin b`, `R00 = cos b cos a`, `R01 = -cos b sin a`,
`R12 = -sin c cos b`, `R22 = cos c cos b` -/
theorem euler_zyx_entries (ca sa cb sb cc sc : α) :
    let R := eulerZYX ca sa cb sb cc sc
    R.a02 = sb ∧ R.a00 = cb * ca ∧ R.a01 = -(cb * sa) ∧ R.a12 = -(sc * cb) ∧ R.a22 = cc * cb := by
  simp only [eulerZYX, M3.mul, rotX, rotY, rotZ]
  and_intros <;> ring

end euler

section eulerField
variable {α : Type} [Field α] [LinearOrder α] [IsStrictOrderedRing α]

/-- away from gimbal lock (`cos b > 0`, the range `(-90°, 90°)` the inverse conversion returns) the
matrix determines cosine and sine of all three angles: the two conversions invert each other -/
theorem euler_zyx_injective_off_gimbal (ca sa cb sb cc sc ca' sa' cb' sb' cc' sc' : α)
    (hb : cb * cb + sb * sb = 1) (hb' : cb' * cb' + sb' * sb' = 1) (hpos : 0 < cb) (hpos' : 0 < cb')
    (h : eulerZYX ca sa cb sb cc sc = eulerZYX ca' sa' cb' sb' cc' sc') :
    ca = ca' ∧ sa = sa' ∧ cb = cb' ∧ sb = sb' ∧ cc = cc' ∧ sc = sc' := by
  have E := euler_zyx_entries ca sa cb sb cc sc
  have F := euler_zyx_entries ca' sa' cb' sb' cc' sc'
  rw [h] at E
  obtain ⟨e02, e00, e01, e12, e22⟩ := E
  obtain ⟨f02, f00, f01, f12, f22⟩ := F
  have hsb : sb = sb' := e02.symm.trans f02
  have h00 : cb * ca = cb' * ca' := e00.symm.trans f00
  have h01 : cb * sa = cb' * sa' := neg_inj.mp (e01.symm.trans f01)
  have h12 : sc * cb = sc' * cb' := neg_inj.mp (e12.symm.trans f12)
  have h22 : cc * cb = cc' * cb' := e22.symm.trans f22
  have hcb : cb = cb' := by
    have hsq : (cb - cb') * (cb + cb') = 0 := by rw [hsb] at hb; linear_combination hb - hb'
    rcases mul_eq_zero.mp hsq with h0 | h0
    · linear_combination h0
    · exfalso; linarith
  have hne : cb' ≠ 0 := ne_of_gt hpos'
  rw [hcb] at h00 h01 h12 h22
  exact ⟨mul_left_cancel₀ hne h00, mul_left_cancel₀ hne h01, hcb, hsb,
    mul_right_cancel₀ hne h22, mul_right_cancel₀ hne h12⟩

end eulerField

section eulerRoundTrip
variable {α : Type} [Field α]

/-- `to(from(R)) = R` as rotation matrices: every proper rotation off gimbal lock (`cos b ≠ 0`, with
`cos² b = R00² + R01²`) is reproduced exactly by the `zyx` matrix of the cosines / sines read off its
entries — all nine entries, although only five are read -/
theorem euler_zyx_round_trip (R : M3 α) (cb : α) (h : R.Proper) (hcb : cb ≠ 0)
    (hsq : cb * cb = R.a00 * R.a00 + R.a01 * R.a01) : eulerZYXRoundTrip R cb = R := by
  obtain ⟨a, b, c, d, e, f, g, h', i⟩ := R
  obtain ⟨⟨h1, h2⟩, h3⟩ := h
  simp only [M3.tr, M3.mul, M3.id, M3.mk.injEq] at h1 h2
  simp only [M3.det] at h3
  obtain ⟨p1, p2, p3, p4, p5, p6, p7, p8, p9⟩ := h1
  obtain ⟨k1, k2, k3, k4, k5, k6, k7, k8, k9⟩ := h2
  simp only [eulerZYXRoundTrip, eulerZYXFrom, eulerZYX, rotX, rotY, rotZ, M3.mul, M3.mk.injEq] at hsq ⊢
  refine ⟨?_, ?_, ?_, ?_, ?_, ?_, ?_, ?_, ?_⟩ <;> (field_simp; grind)

/-- the three pairs read off a proper rotation are unit `(cos, sin)` pairs (they are angles) -/
theorem euler_zyx_from_unit (R : M3 α) (cb : α) (h : R.Proper) (hcb : cb ≠ 0)
    (hsq : cb * cb = R.a00 * R.a00 + R.a01 * R.a01) :
    let e := eulerZYXFrom R cb
    e.1 * e.1 + e.2.1 * e.2.1 = 1 ∧ e.2.2.1 * e.2.2.1 + e.2.2.2.1 * e.2.2.2.1 = 1 ∧
      e.2.2.2.2.1 * e.2.2.2.2.1 + e.2.2.2.2.2 * e.2.2.2.2.2 = 1 := by
  obtain ⟨a, b, c, d, e, f, g, h', i⟩ := R
  obtain ⟨⟨h1, h2⟩, h3⟩ := h
  simp only [M3.tr, M3.mul, M3.id, M3.mk.injEq] at h1 h2
  obtain ⟨p1, p2, p3, p4, p5, p6, p7, p8, p9⟩ := h1
  obtain ⟨k1, k2, k3, k4, k5, k6, k7, k8, k9⟩ := h2
  simp only [eulerZYXFrom] at hsq ⊢
  refine ⟨?_, ?_, ?_⟩ <;> (field_simp; grind)

/-- `from(to(angles)) = angles` at the level of cosines / sines, whenever `cos b ≠ 0` -/
theorem euler_zyx_from_to (ca sa cb sb cc sc : α) (hcb : cb ≠ 0) :
    eulerZYXFrom (eulerZYX ca sa cb sb cc sc) cb = (ca, sa, cb, sb, cc, sc) := by
  simp only [eulerZYXFrom, eulerZYX, rotX, rotY, rotZ, M3.mul, Prod.mk.injEq]
  refine ⟨?_, ?_, trivial, ?_, ?_, ?_⟩ <;> (try field_simp) <;> ring

/-- … and the `cos b` it needs is the one determined by the matrix: `cos² b = R00² + R01²` -/
theorem euler_zyx_cb_sq (ca sa cb sb cc sc : α) (ha : ca * ca + sa * sa = 1) :
    cb * cb = (eulerZYX ca sa cb sb cc sc).a00 * (eulerZYX ca sa cb sb cc sc).a00 +
      (eulerZYX ca sa cb sb cc sc).a01 * (eulerZYX ca sa cb sb cc sc).a01 := by
  simp only [eulerZYX, rotX, rotY, rotZ, M3.mul]
  linear_combination (-(cb * cb)) * ha

end eulerRoundTrip

example : eulerZYXFrom (eulerZYX (3/5 : Rat) (4/5) (5/13) (12/13) (8/17) (15/17)) (5/13) =
    (3/5, 4/5, 5/13, 12/13, 8/17, 15/17) := by
  simp only [eulerZYXFrom, eulerZYX, rotX, rotY, rotZ, M3.mul, Prod.mk.injEq]; norm_num
-- a proper rotation that is not given as an Euler product: the cyclic permutation composed with a planar rotation
example : (⟨3/5, -4/5, 0, 0, 0, -1, 4/5, 3/5, 0⟩ : M3 Rat).Proper ∧ (1 : Rat) ≠ 0 ∧
    (1 : Rat) * 1 = (3/5) * (3/5) + (-4/5) * (-4/5) ∧
    eulerZYXRoundTrip (⟨3/5, -4/5, 0, 0, 0, -1, 4/5, 3/5, 0⟩ : M3 Rat) 1 = ⟨3/5, -4/5, 0, 0, 0, -1, 4/5, 3/5, 0⟩ := by
  simp only [M3.Proper, M3.Orthonormal, M3.tr, M3.mul, M3.id, M3.det, eulerZYXRoundTrip, eulerZYXFrom, eulerZYX,
    rotX, rotY, rotZ, M3.mk.injEq]
  norm_num

example : eulerZYX (0 : Int) 1 1 0 1 0 = ⟨0, -1, 0, 1, 0, 0, 0, 0, 1⟩ := by decide
example : eulerExtrinsic [(2, (3/5 : Rat), 4/5), (1, 5/13, 12/13), (0, 8/17, 15/17)] =
    eulerZYX (3/5) (4/5) (5/13) (12/13) (8/17) (15/17) := by decide +kernel
example : (0 : Rat) < 5/13 ∧ (5/13 : Rat) * (5/13) + (12/13) * (12/13) = 1 := by decide +kernel

/-! ## the `convention` string of `euler_to_rotationmatrix` -/
section convention

theorem axisOfChar_lt (c : Char) (a : Nat) (h : axisOfChar c = some a) : a < 3 := by
  unfold axisOfChar at h
  split at h
  · cases h; omega
  · split at h
    · cases h; omega
    · split at h
      · cases h; omega
      · cases h

theorem mapM_axis_spec (cs : List Char) (axes : List Nat) (h : cs.mapM axisOfChar = some axes) :
    axes.length = cs.length ∧ ∀ a ∈ axes, a < 3 := by
  induction cs generalizing axes with
  | nil => simp at h; subst h; simp
  | cons c cs ih =>
    simp only [List.mapM_cons, Option.bind_eq_bind, Option.bind_eq_some_iff] at h
    obtain ⟨a, ha, rest, hr, hh⟩ := h
    simp at hh
    subst hh
    obtain ⟨h1, h2⟩ := ih rest hr
    refine ⟨by simp [h1], ?_⟩
    intro x hx
    rcases List.mem_cons.mp hx with rfl | hx
    · exact axisOfChar_lt c _ ha
    · exact h2 x hx

theorem parseSeq_sound (cs : List Char) (intr : Bool) (axes : List Nat) (h : parseSeq cs = some (intr, axes)) :
    1 ≤ cs.length ∧ cs.length ≤ 3 ∧ cs.mapM axisOfChar = some axes ∧ axes.length = cs.length ∧
    (∀ a ∈ axes, a < 3) ∧ consecDistinct axes = true ∧
    intr = cs.all (fun c => c = 'X' ∨ c = 'Y' ∨ c = 'Z') ∧
    (intr = false → cs.all (fun c => c = 'x' ∨ c = 'y' ∨ c = 'z') = true) := by
  unfold parseSeq at h
  split at h
  · cases h
  · rename_i hlen
    simp only at h
    split at h
    · cases h
    · rename_i hcase
      split at h
      · cases h
      · rename_i ax hax
        split at h
        · rename_i hd
          simp only [Option.some.injEq, Prod.mk.injEq] at h
          obtain ⟨h1, h2⟩ := h
          subst h2
          obtain ⟨l1, l2⟩ := mapM_axis_spec cs ax hax
          refine ⟨by omega, by omega, hax, l1, l2, hd, h1.symm, ?_⟩
          intro hf
          rw [← h1] at hf
          simp only [hf] at hcase
          simp at hcase ⊢
          intro x hx
          have := hcase x hx
          grind
        · cases h

theorem conventionDispatch_sound (conv : List Char) (n : Nat) (intr : Bool) (axes : List Nat)
    (h : conventionDispatch conv n = some (intr, axes)) :
    (n = 2 ∨ n = 3) ∧ n ≤ conv.length ∧ axes.length = n ∧ (conv.take n).mapM axisOfChar = some axes ∧
    (∀ a ∈ axes, a < 3) ∧ consecDistinct axes = true ∧
    intr = (conv.take n).all (fun c => c = 'X' ∨ c = 'Y' ∨ c = 'Z') ∧
    (intr = false → (conv.take n).all (fun c => c = 'x' ∨ c = 'y' ∨ c = 'z') = true) := by
  unfold conventionDispatch at h
  split at h
  · cases h
  · rename_i hn1
    split at h
    · rename_i i ax hp
      split at h
      · rename_i hl
        simp only [Option.some.injEq, Prod.mk.injEq] at h
        obtain ⟨rfl, rfl⟩ := h
        obtain ⟨p1, p2, p3, p4, p5, p6, p7, p8⟩ := parseSeq_sound _ _ _ hp
        have hlt : (conv.take n).length = n := by omega
        have : n ≤ conv.length := by
          rw [List.length_take] at hlt; omega
        refine ⟨by omega, this, hl, p3, p5, p6, p7, p8⟩
      · cases h
    · cases h

theorem mapM_axis_none (cs : List Char) (c : Char) (hc : c ∈ cs) (hbad : axisOfChar c = none) :
    cs.mapM axisOfChar = none := by
  induction cs with
  | nil => cases hc
  | cons x xs ih =>
    simp only [List.mapM_cons, Option.bind_eq_bind]
    rcases List.mem_cons.mp hc with rfl | hx
    · rw [hbad]; rfl
    · rw [ih hx]
      cases axisOfChar x <;> rfl

/-- any letter other than `x y z X Y Z` among the letters used makes the call fail -/
theorem conventionDispatch_bad_letter (conv : List Char) (n : Nat) (c : Char) (hc : c ∈ conv.take n)
    (hbad : axisOfChar c = none) : conventionDispatch conv n = none := by
  cases h : conventionDispatch conv n with
  | none => rfl
  | some r =>
    obtain ⟨intr, axes⟩ := r
    have := (conventionDispatch_sound conv n intr axes h).2.2.2.1
    rw [mapM_axis_none _ c hc hbad] at this
    cases this

/-- the 24 three-letter conventions of scipy and what they mean: axes in the order of the letters,
lower case extrinsic, upper case intrinsic; the rest of a longer string is ignored -/
theorem conventionDispatch_table :
    (["xyz", "xzy", "yxz", "yzx", "zxy", "zyx", "xyx", "xzx", "yxy", "yzy", "zxz", "zyz"].map
      (fun s => conventionDispatch s.toList 3)) =
      [some (false, [0, 1, 2]), some (false, [0, 2, 1]), some (false, [1, 0, 2]), some (false, [1, 2, 0]),
       some (false, [2, 0, 1]), some (false, [2, 1, 0]), some (false, [0, 1, 0]), some (false, [0, 2, 0]),
       some (false, [1, 0, 1]), some (false, [1, 2, 1]), some (false, [2, 0, 2]), some (false, [2, 1, 2])] ∧
    (["XYZ", "XZY", "YXZ", "YZX", "ZXY", "ZYX", "XYX", "XZX", "YXY", "YZY", "ZXZ", "ZYZ"].map
      (fun s => conventionDispatch s.toList 3)) =
      [some (true, [0, 1, 2]), some (true, [0, 2, 1]), some (true, [1, 0, 2]), some (true, [1, 2, 0]),
       some (true, [2, 0, 1]), some (true, [2, 1, 0]), some (true, [0, 1, 0]), some (true, [0, 2, 0]),
       some (true, [1, 0, 1]), some (true, [1, 2, 1]), some (true, [2, 0, 2]), some (true, [2, 1, 2])] ∧
    conventionDispatch "zyx".toList 2 = some (false, [2, 1]) ∧
    conventionDispatch "zyxz".toList 3 = some (false, [2, 1, 0]) := by
  decide +kernel

/-- what is rejected (scipy's `ValueError`), as coded: a single angle (the code nests the tuple), no angle,
more angles than letters, repeated consecutive axes, mixed case, other letters -/
theorem conventionDispatch_rejects :
    conventionDispatch "zyx".toList 1 = none ∧ conventionDispatch "zyx".toList 0 = none ∧
    conventionDispatch "zyx".toList 4 = none ∧ conventionDispatch "zy".toList 3 = none ∧
    conventionDispatch "zzx".toList 3 = none ∧ conventionDispatch "zyX".toList 3 = none ∧
    conventionDispatch "zya".toList 3 = none ∧ conventionDispatch "".toList 3 = none := by
  decide +kernel

/-- whatever the accepted convention (indeed for every list of axes, both readings), unit `(cos, sin)`
pairs give a proper rotation -/
theorem convention_proper {α : Type} [CommRing α] (intr : Bool) (axes : List Nat) (cs : List (α × α))
    (hu : ∀ p ∈ cs, p.1 * p.1 + p.2 * p.2 = 1) :
    (if intr then eulerIntrinsic (axes.zip cs) else eulerExtrinsic (axes.zip cs)).Proper := by
  have hz : ∀ r ∈ axes.zip cs, r.2.1 * r.2.1 + r.2.2 * r.2.2 = 1 := by
    intro r hr
    obtain ⟨a, p⟩ := r
    exact hu p (List.of_mem_zip hr).2
  split
  · exact euler_intrinsic_proper _ hz
  · exact euler_extrinsic_proper _ hz

/-- the default convention `"zyx"` with three angles is `eulerZYX` -/
theorem convention_default {α : Type} [CommRing α] (ca sa cb sb cc sc : α) :
    conventionDispatch "zyx".toList 3 = some (false, [2, 1, 0]) ∧
    eulerExtrinsic ([2, 1, 0].zip [(ca, sa), (cb, sb), (cc, sc)]) = eulerZYX ca sa cb sb cc sc := by
  refine ⟨by decide +kernel, ?_⟩
  rw [euler_zyx_eq_extrinsic]; rfl

end convention

example : axisOfChar 'a' = none ∧ 'a' ∈ "zya".toList.take 3 := by decide +kernel
example : conventionDispatch "ZXZ".toList 3 = some (true, [2, 0, 2]) := by decide +kernel
example : (eulerIntrinsic ([2, 0, 2].zip [((3/5 : Rat), (4/5 : Rat)), (5/13, 12/13), (8/17, 15/17)])).det = 1 := by
  simp only [eulerIntrinsic, List.zip_cons_cons, List.zip_nil_right, List.foldl_cons, List.foldl_nil, axisRot, rotX, rotZ,
    M3.mul, M3.id, M3.det]
  norm_num

/-! ## cone sampling -/
section cone
variable {α : Type} [CommRing α]

/-- `get_rotations_around_vector`: for `R = V · R_zyx(a, b, φ)` (with `V` the rotation aligning the
first coordinate axis with the requested vector; `V = 1` for the default axis) the image of the
axis has inner product `cos a · cos b` with the cone axis `V e₀`, whatever `φ` -/
theorem cone_axis_inside (V : M3 α) (hV : V.tr.mul V = M3.id) (ca sa cb sb cc sc : α) :
    dot3 ((V.mul (eulerZYX ca sa cb sb cc sc)).mulVec (1, 0, 0)) (V.mulVec (1, 0, 0)) = ca * cb := by
  obtain ⟨v00, v01, v02, v10, v11, v12, v20, v21, v22⟩ := V
  simp only [M3.tr, M3.mul, M3.id, M3.mk.injEq] at hV
  obtain ⟨h00, h01, h02, -, -, -, -, -, -⟩ := hV
  simp only [dot3, M3.mulVec, M3.mul, eulerZYX, rotX, rotY, rotZ]
  linear_combination (cb * ca) * h00 + (cc * sa + sc * sb * ca) * h01 + (sc * sa - cc * sb * ca) * h02

/-- default axis: the tilt of the axis is read off entry `(0,0)` -/
theorem cone_default_axis (ca sa cb sb cc sc : α) :
    dot3 ((eulerZYX ca sa cb sb cc sc).mulVec (1, 0, 0)) (1, 0, 0) = ca * cb ∧
    (eulerZYX ca sa cb sb cc sc).a00 = ca * cb := by
  simp only [dot3, M3.mulVec, M3.mul, eulerZYX, rotX, rotY, rotZ]
  constructor <;> ring

/-- every cone rotation is a proper rotation -/
theorem cone_proper (V : M3 α) (hV : V.Proper) (ca sa cb sb cc sc : α) (ha : ca * ca + sa * sa = 1)
    (hb : cb * cb + sb * sb = 1) (hc : cc * cc + sc * sc = 1) :
    (V.mul (eulerZYX ca sa cb sb cc sc)).Proper :=
  hV.mul (euler_zyx_proper ca sa cb sb cc sc ha hb hc)

end cone

/-- the number of rotations returned is `number_of_points · phi_steps`, for all parameters -/
theorem coneMatrices_length (coneAngle coneSampling axisAngle axisSampling : Float) (nSym : Nat) :
    (coneMatrices coneAngle coneSampling axisAngle axisSampling nSym).length =
      coneNumPoints coneAngle coneSampling * conePhiSteps axisAngle axisSampling nSym := by
  unfold coneMatrices coneAngles
  simp only [List.length_map, List.length_flatMap, List.length_take, linspace0_length]
  have : min (conePhiSteps axisAngle axisSampling nSym) (conePhiSteps axisAngle axisSampling nSym + 1) =
      conePhiSteps axisAngle axisSampling nSym := by omega
  simp only [this]
  rw [sum_map_const_nat, List.length_range]

/-- the list of Euler triples has `number_of_points · phi_steps` entries -/
theorem coneAngles_length (coneAngle coneSampling axisAngle axisSampling : Float) (nSym : Nat) :
    (coneAngles coneAngle coneSampling axisAngle axisSampling nSym).length =
      coneNumPoints coneAngle coneSampling * conePhiSteps axisAngle axisSampling nSym := by
  have := coneMatrices_length coneAngle coneSampling axisAngle axisSampling nSym
  simpa only [coneMatrices, List.length_map] using this

/-- general axis: the same number of rotations -/
theorem coneMatricesVec_length (coneAngle coneSampling axisAngle axisSampling : Float) (nSym : Nat)
    (w : Float × Float × Float) :
    (coneMatricesVec coneAngle coneSampling axisAngle axisSampling nSym w).length =
      coneNumPoints coneAngle coneSampling * conePhiSteps axisAngle axisSampling nSym := by
  simp only [coneMatricesVec, List.length_map, coneAngles_length]

/-- composition law: every matrix returned is `V · R_zyx(a, b, φ')` with one and the same `V`, the
aligning rotation of the axis -/
theorem coneMatricesVec_form (coneAngle coneSampling axisAngle axisSampling : Float) (nSym : Nat)
    (w : Float × Float × Float) :
    ∀ M ∈ coneMatricesVec coneAngle coneSampling axisAngle axisSampling nSym w,
      ∃ ca sa cb sb cc sc : Float, M = (alignRotF (1.0, 0.0, 0.0) w).mul (eulerZYX ca sa cb sb cc sc) := by
  intro M hM
  simp only [coneMatricesVec, List.mem_map] at hM
  obtain ⟨⟨a, b, c⟩, -, rfl⟩ := hM
  exact ⟨_, _, _, _, _, _, rfl⟩

-- examples for the rotation group law / quaternion link: quarter turn about z twice = half turn; half-angle pair (3/5, 4/5)
example : (rodrigues ((0 : Int), (0 : Int), (1 : Int)) 0 1).mul (rodrigues (0, 0, 1) 0 1) = rodrigues (0, 0, 1) (-1) 0 := by decide
example : dot3 ((0 : Int), (0 : Int), (1 : Int)) (0, 0, 1) = 1 := by decide
example : (3/5 : Rat) * (3/5) + (4/5) * (4/5) = 1 := by norm_num
example : rodrigues ((0 : Rat), (0 : Rat), (1 : Rat)) ((3/5) * (3/5) - (4/5) * (4/5)) (2 * (3/5) * (4/5)) =
    quatToMat 2 ⟨3/5, (4/5) * 0, (4/5) * 0, (4/5) * 1⟩ := by
  simp only [rodrigues, M3.add, M3.smul, M3.id, skew, M3.mul, quatToMat, M3.mk.injEq]; norm_num

example : ((rotZ (0 : Int) 1).tr.mul (rotZ 0 1) = M3.id) ∧
    dot3 (((rotZ (0 : Int) 1).mul (eulerZYX 1 0 0 1 1 0)).mulVec (1, 0, 0)) ((rotZ 0 1).mulVec (1, 0, 0)) = 0 := by
  decide

/-! ## `rotation_aligning_vectors` (Rodrigues form `1 + sin·K + (1 - cos)·K²`, `K` the cross-product
matrix of the normalised axis `u × v / ‖u × v‖`) -/
section align
variable {α : Type} [CommRing α]

/-- Lagrange's identity: `‖u × v‖² = ‖u‖²‖v‖² − (u·v)²` — for unit vectors the norm of the axis is the
sine of the angle whose cosine is `u·v` -/
theorem cross3_lagrange (u v : α × α × α) :
    dot3 (cross3 u v) (cross3 u v) = dot3 u u * dot3 v v - dot3 u v * dot3 u v := by
  simp only [dot3, cross3]; ring

/-- the axis is orthogonal to both vectors -/
theorem cross3_orthogonal (u v : α × α × α) :
    dot3 (cross3 u v) u = 0 ∧ dot3 (cross3 u v) v = 0 := by
  simp only [dot3, cross3]; constructor <;> ring

/-- parallel *and antiparallel* vectors (`v = t·u`, any `t`) have the zero axis: for `t < 0` the code is
not in its `allclose` branch, divides `0 / 0` and returns a matrix of NaN (reproduced by the driver and
the real function on every run; recorded, not part of the property) -/
theorem cross3_parallel_zero (u : α × α × α) (t : α) :
    cross3 u (t * u.1, t * u.2.1, t * u.2.2) = (0, 0, 0) := by
  simp only [cross3, Prod.mk.injEq]; and_intros <;> ring

/-- `K w = k × w` -/
theorem skew_mulVec (k w : α × α × α) : (skew k).mulVec w = cross3 k w := by
  simp only [skew, M3.mulVec, cross3, Prod.mk.injEq]; and_intros <;> ring

/-- angle zero gives the identity whatever the axis (consistent with the `allclose` branch) -/
theorem rodrigues_identity (k : α × α × α) : rodrigues k 1 0 = M3.id := by
  simp only [rodrigues, M3.add, M3.smul, M3.id, skew, M3.mul, M3.mk.injEq]; and_intros <;> ring

/-- the axis is fixed, for every axis and every `(c, s)` -/
theorem rodrigues_fixes_axis (k : α × α × α) (c s : α) : (rodrigues k c s).mulVec k = k := by
  obtain ⟨k0, k1, k2⟩ := k
  simp only [rodrigues, M3.add, M3.smul, M3.id, skew, M3.mul, M3.mulVec, Prod.mk.injEq]; and_intros <;> ring

/-- a multiple of the axis is fixed -/
theorem rodrigues_fixes_scaled (k : α × α × α) (c s t : α) :
    (rodrigues k c s).mulVec (t * k.1, t * k.2.1, t * k.2.2) = (t * k.1, t * k.2.1, t * k.2.2) := by
  obtain ⟨k0, k1, k2⟩ := k
  simp only [rodrigues, M3.add, M3.smul, M3.id, skew, M3.mul, M3.mulVec, Prod.mk.injEq]; and_intros <;> ring

/-- trace `= 1 + 2 cos(angle)`: the rotation angle is the one whose cosine went in -/
theorem rodrigues_trace (k : α × α × α) (c s : α) (hk : dot3 k k = 1) :
    (rodrigues k c s).a00 + (rodrigues k c s).a11 + (rodrigues k c s).a22 = 1 + 2 * c := by
  obtain ⟨k0, k1, k2⟩ := k
  simp only [dot3] at hk
  simp only [rodrigues, M3.add, M3.smul, M3.id, skew, M3.mul]
  linear_combination (-2 * (1 - c)) * hk

/-- Rodrigues' matrix of a unit axis and a unit `(cos, sin)` pair is a proper rotation -/
theorem rodrigues_proper (k : α × α × α) (c s : α) (hk : dot3 k k = 1) (hcs : c * c + s * s = 1) :
    (rodrigues k c s).Proper := by
  obtain ⟨k0, k1, k2⟩ := k
  simp only [dot3] at hk
  simp only [M3.Proper, M3.Orthonormal, rodrigues, M3.add, M3.smul, M3.id, skew, M3.mul, M3.tr, M3.det, M3.mk.injEq]
  and_intros <;> grind

/-- the inverse rotation is the one with the opposite sine (= the transpose) -/
theorem rodrigues_tr (k : α × α × α) (c s : α) : (rodrigues k c s).tr = rodrigues k c (-s) := by
  simp only [rodrigues, M3.add, M3.smul, M3.id, skew, M3.mul, M3.tr, M3.mk.injEq]; and_intros <;> ring

/-- rotations about one axis compose by adding the angles -/
theorem rodrigues_mul (k : α × α × α) (c₁ s₁ c₂ s₂ : α) (hk : dot3 k k = 1) :
    (rodrigues k c₁ s₁).mul (rodrigues k c₂ s₂) = rodrigues k (c₁ * c₂ - s₁ * s₂) (s₁ * c₂ + c₁ * s₂) := by
  obtain ⟨k0, k1, k2⟩ := k
  simp only [dot3] at hk
  simp only [rodrigues, M3.add, M3.smul, M3.id, skew, M3.mul, M3.mk.injEq]
  and_intros <;> grind

/-- the opposite axis with the same angle is the inverse rotation -/
theorem rodrigues_neg_axis (k : α × α × α) (c s : α) :
    rodrigues (-k.1, -k.2.1, -k.2.2) c s = (rodrigues k c s).tr := by
  simp only [rodrigues, M3.add, M3.smul, M3.id, skew, M3.mul, M3.tr, M3.mk.injEq]; and_intros <;> ring

theorem cross3_swap (u v : α × α × α) :
    cross3 v u = (-(cross3 u v).1, -(cross3 u v).2.1, -(cross3 u v).2.2) := by
  simp only [cross3, Prod.mk.injEq]; and_intros <;> ring

/-- Rodrigues' matrix is the matrix of the quaternion `(cos θ/2, sin θ/2 · k)` under the code's own
quaternion convention -/
theorem rodrigues_eq_quat (k : α × α × α) (ch sh : α) (hk : dot3 k k = 1) (hh : ch * ch + sh * sh = 1) :
    rodrigues k (ch * ch - sh * sh) (2 * ch * sh) = quatToMat 2 ⟨ch, sh * k.1, sh * k.2.1, sh * k.2.2⟩ := by
  obtain ⟨k0, k1, k2⟩ := k
  simp only [dot3] at hk
  simp only [rodrigues, M3.add, M3.smul, M3.id, skew, M3.mul, quatToMat, M3.mk.injEq]
  and_intros <;> grind
/-- division-free core of the alignment (any commutative ring): with `a = u × v` and `‖u‖ = 1`,
`‖a‖²·1 + ‖a‖²·[a]ₓ + (1 − u·v)·[a]ₓ²` maps `u` to `‖a‖²·v` -/
theorem rodrigues_cross_maps (u v : α × α × α) (hu : dot3 u u = 1) :
    M3.mulVec (((M3.smul (dot3 (cross3 u v) (cross3 u v)) M3.id).add
        (M3.smul (dot3 (cross3 u v) (cross3 u v)) (skew (cross3 u v)))).add
      (M3.smul (1 - dot3 u v) ((skew (cross3 u v)).mul (skew (cross3 u v))))) u
      = (dot3 (cross3 u v) (cross3 u v) * v.1, dot3 (cross3 u v) (cross3 u v) * v.2.1,
         dot3 (cross3 u v) (cross3 u v) * v.2.2) := by
  obtain ⟨u0, u1, u2⟩ := u
  obtain ⟨v0, v1, v2⟩ := v
  simp only [dot3] at hu
  simp only [dot3, cross3, skew, M3.smul, M3.add, M3.mul, M3.id, M3.mulVec, Prod.mk.injEq]
  refine ⟨?_, ?_, ?_⟩
  · linear_combination (((u1 * v2 - u2 * v1) * (u1 * v2 - u2 * v1) + (u2 * v0 - u0 * v2) * (u2 * v0 - u0 * v2) +
          (u0 * v1 - u1 * v0) * (u0 * v1 - u1 * v0)) * v0) * hu
  · linear_combination (((u1 * v2 - u2 * v1) * (u1 * v2 - u2 * v1) + (u2 * v0 - u0 * v2) * (u2 * v0 - u0 * v2) +
          (u0 * v1 - u1 * v0) * (u0 * v1 - u1 * v0)) * v1) * hu
  · linear_combination (((u1 * v2 - u2 * v1) * (u1 * v2 - u2 * v1) + (u2 * v0 - u0 * v2) * (u2 * v0 - u0 * v2) +
          (u0 * v1 - u1 * v0) * (u0 * v1 - u1 * v0)) * v2) * hu

end align

section alignField
variable {α : Type} [Field α]

/-- `k = (u × v) / n` is a unit vector when `n² = ‖u × v‖²`, `n ≠ 0` -/
theorem alignRot_axis_unit (u v : α × α × α) (n : α) (hn : n ≠ 0)
    (hnn : n * n = dot3 (cross3 u v) (cross3 u v)) :
    dot3 ((cross3 u v).1 / n, (cross3 u v).2.1 / n, (cross3 u v).2.2 / n)
         ((cross3 u v).1 / n, (cross3 u v).2.1 / n, (cross3 u v).2.2 / n) = 1 := by
  simp only [dot3] at hnn ⊢
  field_simp
  linear_combination -hnn

/-- the matrix of the non-trivial branch is a proper rotation for every pair of vectors with a
non-zero axis and every unit `(cos, sin)` pair -/
theorem alignRot_proper (u v : α × α × α) (n c s : α) (hn : n ≠ 0)
    (hnn : n * n = dot3 (cross3 u v) (cross3 u v)) (hcs : c * c + s * s = 1) :
    (alignRot u v n c s).Proper :=
  rodrigues_proper _ c s (alignRot_axis_unit u v n hn hnn) hcs

/-- … and with `cos = u·v`, `sin = ‖u × v‖` (the values of `cos(arccos(u·v))`, `sin(arccos(u·v))` for unit
vectors, by `cross3_lagrange`) it maps the normalised initial vector onto the normalised target -/
theorem alignRot_maps (u v : α × α × α) (n : α) (hu : dot3 u u = 1) (hn : n ≠ 0)
    (hnn : n * n = dot3 (cross3 u v) (cross3 u v)) :
    (alignRot u v n (dot3 u v) n).mulVec u = v := by
  obtain ⟨u0, u1, u2⟩ := u
  obtain ⟨v0, v1, v2⟩ := v
  simp only [dot3, cross3] at hu hnn
  simp only [alignRot, rodrigues, dot3, cross3, skew, M3.smul, M3.add, M3.mul, M3.id, M3.mulVec, Prod.mk.injEq]
  refine ⟨?_, ?_, ?_⟩ <;> (field_simp; grind)

/-- the axis `u × v` itself is fixed -/
theorem alignRot_fixes_axis (u v : α × α × α) (n c s : α) (hn : n ≠ 0) :
    (alignRot u v n c s).mulVec (cross3 u v) = cross3 u v := by
  simp only [alignRot]
  generalize cross3 u v = a
  obtain ⟨a0, a1, a2⟩ := a
  have e0 : n * (a0 / n) = a0 := by field_simp
  have e1 : n * (a1 / n) = a1 := by field_simp
  have e2 : n * (a2 / n) = a2 := by field_simp
  have h := rodrigues_fixes_scaled (a0 / n, a1 / n, a2 / n) c s n
  simp only [e0, e1, e2] at h
  exact h

/-- exchanging the two vectors gives the inverse (transposed) rotation -/
theorem alignRot_swap (u v : α × α × α) (n c s : α) :
    alignRot v u n c s = (alignRot u v n c s).tr := by
  simp only [alignRot]
  rw [← rodrigues_neg_axis, cross3_swap]
  simp only [neg_div]
/-- `rotation_aligning_vectors`, non-trivial branch, in one statement: for unit `u`, `v` that are
neither parallel nor antiparallel (`n = ‖u × v‖ ≠ 0`) the result is a proper rotation, takes `u` to `v`,
fixes the axis `u × v` and has trace `1 + 2 u·v` (it is the rotation by the angle between the vectors) -/
theorem alignRot_spec (u v : α × α × α) (n : α) (hu : dot3 u u = 1) (hv : dot3 v v = 1) (hn : n ≠ 0)
    (hnn : n * n = dot3 (cross3 u v) (cross3 u v)) :
    let R := alignRot u v n (dot3 u v) n
    R.Proper ∧ R.mulVec u = v ∧ R.mulVec (cross3 u v) = cross3 u v ∧ R.a00 + R.a11 + R.a22 = 1 + 2 * dot3 u v := by
  have hcs : dot3 u v * dot3 u v + n * n = 1 := by
    rw [hnn, cross3_lagrange, hu, hv]; ring
  have hk := alignRot_axis_unit u v n hn hnn
  exact ⟨alignRot_proper u v n _ _ hn hnn hcs, alignRot_maps u v n hu hn hnn, alignRot_fixes_axis u v n _ _ hn,
    rodrigues_trace _ _ _ hk⟩
/-- `get_rotations_around_vector` for a general axis: `V` (the aligning rotation) composed with a cone
sample `R_zyx(a, b, φ)` is a proper rotation and keeps `V e₀` within `cos a · cos b` of the cone axis -/
theorem cone_general_proper (u v : α × α × α) (n : α) (hu : dot3 u u = 1) (hv : dot3 v v = 1) (hn : n ≠ 0)
    (hnn : n * n = dot3 (cross3 u v) (cross3 u v)) (ca sa cb sb cc sc : α) (ha : ca * ca + sa * sa = 1)
    (hb : cb * cb + sb * sb = 1) (hc : cc * cc + sc * sc = 1) :
    let V := alignRot u v n (dot3 u v) n
    (V.mul (eulerZYX ca sa cb sb cc sc)).Proper ∧
      dot3 ((V.mul (eulerZYX ca sa cb sb cc sc)).mulVec (1, 0, 0)) (V.mulVec (1, 0, 0)) = ca * cb := by
  have hV := (alignRot_spec u v n hu hv hn hnn).1
  exact ⟨cone_proper _ hV ca sa cb sb cc sc ha hb hc, cone_axis_inside _ hV.1.1 ca sa cb sb cc sc⟩

end alignField

-- u = e₀, v = (3/5, 4/5, 0): axis (0, 0, 4/5), n = 4/5; the result is the rotation about z with cos 3/5, sin 4/5
example : dot3 ((1 : Rat), (0 : Rat), (0 : Rat)) (1, 0, 0) = 1 ∧ dot3 ((3/5 : Rat), (4/5 : Rat), (0 : Rat)) (3/5, 4/5, 0) = 1 ∧
    (4/5 : Rat) ≠ 0 ∧ (4/5 : Rat) * (4/5) = dot3 (cross3 ((1 : Rat), (0 : Rat), (0 : Rat)) (3/5, 4/5, 0)) (cross3 (1, 0, 0) (3/5, 4/5, 0)) := by
  decide +kernel
example : alignRot ((1 : Rat), (0 : Rat), (0 : Rat)) (3/5, 4/5, 0) (4/5) (3/5) (4/5) = rotZ (3/5) (4/5) := by
  simp only [alignRot, rodrigues, cross3, skew, M3.add, M3.smul, M3.mul, M3.id, rotZ, M3.mk.injEq]; norm_num
-- u = (2/3, 1/3, 2/3), v = (3/5, 4/5, 0): u·v = 2/3, ‖u × v‖² = 5/9 is not a square in ℚ; the matrix with
-- n² = 5/9 replaced by its value still maps u to v (division-free form)
example : dot3 ((2/3 : Rat), (1/3 : Rat), (2/3 : Rat)) (2/3, 1/3, 2/3) = 1 ∧
    dot3 (cross3 ((2/3 : Rat), (1/3 : Rat), (2/3 : Rat)) (3/5, 4/5, 0)) (cross3 (2/3, 1/3, 2/3) (3/5, 4/5, 0)) = 5/9 := by
  simp only [dot3, cross3]; norm_num
example : rodrigues ((0 : Int), (0 : Int), (1 : Int)) 0 1 = ⟨0, -1, 0, 1, 0, 0, 0, 0, 1⟩ := by decide
-- antiparallel: the axis vanishes
example : cross3 ((1 : Int), (2 : Int), (3 : Int)) (-1, -2, -3) = (0, 0, 0) := by decide

/-! ## 2×2 input of `euler_from_rotationmatrix` (the matrix is embedded as the upper-left block) -/
section planar
variable {α : Type} [CommRing α]

/-- every proper 2×2 matrix is a planar rotation `[[c, -s], [s, c]]` with `c² + s² = 1` -/
theorem proper2_form (m : M2 α) (h : m.Proper) :
    m = rot2 m.b00 m.b10 ∧ m.b00 * m.b00 + m.b10 * m.b10 = 1 := by
  obtain ⟨a, b, c, d⟩ := m
  obtain ⟨⟨h1, h2⟩, h3⟩ := h
  simp only [M2.tr, M2.mul, M2.id, M2.mk.injEq] at h1 h2
  simp only [M2.det] at h3
  obtain ⟨p1, p2, p3, p4⟩ := h1
  obtain ⟨k1, k2, k3, k4⟩ := h2
  refine ⟨?_, p1⟩
  simp only [rot2, M2.mk.injEq]
  refine ⟨trivial, ?_, trivial, ?_⟩
  · linear_combination (-b) * p1 + (-c) * h3 + a * p2
  · linear_combination (-d) * p1 + a * h3 + c * p2

/-- the embedding of a planar rotation is the elementary rotation about `z` -/
theorem embed2_rot2 (c s : α) : embed2 (rot2 c s) = rotZ c s := rfl

/-- the embedded matrix of a proper 2×2 matrix is a proper 3×3 rotation -/
theorem embed2_proper (m : M2 α) (h : m.Proper) : (embed2 m).Proper := by
  obtain ⟨hf, hn⟩ := proper2_form m h
  rw [hf, embed2_rot2]
  exact rotZ_proper _ _ hn

/-- the embedding is multiplicative and has the matrix as its upper-left block -/
theorem embed2_mul (A B : M2 α) : embed2 (A.mul B) = (embed2 A).mul (embed2 B) := by
  simp only [embed2, M2.mul, M3.mul, M3.mk.injEq]
  and_intros <;> ring

theorem embed2_block2 (m : M2 α) : (embed2 m).block2 = m := rfl

/-- Euler angles `(a, 0, 0)` in the default convention `zyx` give the planar rotation by `a`:
`euler_to_rotationmatrix((a, 0, 0))` has `rot2 (cos a) (sin a)` as its upper-left block and is the
embedding of it, so the 2×2 branch of `euler_from_rotationmatrix` and `euler_to_rotationmatrix`
invert each other on planar rotations (given `euler_zyx_injective_off_gimbal`). -/
theorem euler_zyx_planar (c s : α) :
    eulerZYX c s 1 0 1 0 = embed2 (rot2 c s) ∧ (eulerZYX c s 1 0 1 0).block2 = rot2 c s := by
  simp only [eulerZYX, rotX, rotY, rotZ, embed2, rot2, M3.mul, M3.block2, M3.mk.injEq, M2.mk.injEq]
  and_intros <;> ring

end planar

example : (rot2 (3/5 : Rat) (4/5)).Proper ∧ embed2 (rot2 (3/5 : Rat) (4/5)) = ⟨3/5, -4/5, 0, 4/5, 3/5, 0, 0, 0, 1⟩ := by
  simp only [M2.Proper, M2.Orthonormal, rot2, embed2, M2.tr, M2.mul, M2.id, M2.det, M2.mk.injEq, M3.mk.injEq]
  decide +kernel

/-! ## QR branch of `get_rotation_matrices` -/
section qr
variable {α : Type} [CommRing α]

theorem negLastCol_det3 (A : M3 α) : A.negLastCol.det = -A.det := by
  simp only [M3.negLastCol, M3.det]; ring

theorem negLastCol_orthonormal3 (A : M3 α) (h : A.Orthonormal) : A.negLastCol.Orthonormal := by
  obtain ⟨a, b, c, d, e, f, g, h', i⟩ := A
  simp only [M3.Orthonormal, M3.negLastCol, M3.tr, M3.mul, M3.id, M3.mk.injEq] at h ⊢
  obtain ⟨⟨h1, h2, h3, h4, h5, h6, h7, h8, h9⟩, ⟨k1, k2, k3, k4, k5, k6, k7, k8, k9⟩⟩ := h
  refine ⟨⟨?_, ?_, ?_, ?_, ?_, ?_, ?_, ?_, ?_⟩, ⟨?_, ?_, ?_, ?_, ?_, ?_, ?_, ?_, ?_⟩⟩
  · linear_combination h1
  · linear_combination h2
  · linear_combination (-1 : α) * h3
  · linear_combination h4
  · linear_combination h5
  · linear_combination (-1 : α) * h6
  · linear_combination (-1 : α) * h7
  · linear_combination (-1 : α) * h8
  · linear_combination h9
  · linear_combination k1
  · linear_combination k2
  · linear_combination k3
  · linear_combination k4
  · linear_combination k5
  · linear_combination k6
  · linear_combination k7
  · linear_combination k8
  · linear_combination k9

theorem negLastCol_det2 (A : M2 α) : A.negLastCol.det = -A.det := by
  simp only [M2.negLastCol, M2.det]; ring

theorem negLastCol_orthonormal2 (A : M2 α) (h : A.Orthonormal) : A.negLastCol.Orthonormal := by
  obtain ⟨a, b, c, d⟩ := A
  simp only [M2.Orthonormal, M2.negLastCol, M2.tr, M2.mul, M2.id, M2.mk.injEq] at h ⊢
  obtain ⟨⟨h1, h2, h3, h4⟩, ⟨k1, k2, k3, k4⟩⟩ := h
  refine ⟨⟨?_, ?_, ?_, ?_⟩, ⟨?_, ?_, ?_, ?_⟩⟩
  · linear_combination h1
  · linear_combination (-1 : α) * h2
  · linear_combination (-1 : α) * h3
  · linear_combination h4
  · linear_combination k1
  · linear_combination k2
  · linear_combination k3
  · linear_combination k4

/-- the list-of-rows operation the driver runs is the column flip of the 3×3 / 2×2 algebra -/
theorem negLastColL_toRows (A : M3 α) (B : M2 α) :
    negLastColL A.toRows = A.negLastCol.toRows ∧ negLastColL B.toRows = B.negLastCol.toRows := by
  simp [negLastColL, negLast, M3.toRows, M3.negLastCol, M2.toRows, M2.negLastCol]

theorem identL_eq : (identL 3 : List (List α)) = (M3.id : M3 α).toRows ∧
    (identL 2 : List (List α)) = (M2.id : M2 α).toRows := by
  simp [identL, M3.toRows, M3.id, M2.toRows, M2.id, List.range, List.range.loop]

/-- lines 651–654: same number of matrices, the identity first, every other matrix is the QR factor
with its last column flipped exactly when its determinant was negative -/
theorem fixRotations_spec (dim : Nat) (ms : List (List (List α))) (neg : List Bool)
    (hlen : neg.length = ms.length) (hne : ms ≠ []) :
    ∃ out, fixRotations dim ms neg = some out ∧ out.length = ms.length ∧ out.head? = some (identL dim) ∧
      ∀ i, 0 < i → i < ms.length →
        out[i]? = some (if neg.getD i false then negLastColL (ms.getD i []) else ms.getD i []) := by
  cases ms with
  | nil => exact absurd rfl hne
  | cons m ms' =>
    cases neg with
    | nil => simp at hlen
    | cons b bs =>
      simp only [List.length_cons, Nat.add_right_cancel_iff] at hlen
      refine ⟨_, rfl, ?_, rfl, ?_⟩
      · simp [List.length_zipWith, hlen]
      · intro i hi hlt
        obtain ⟨j, rfl⟩ : ∃ j, i = j + 1 := ⟨i - 1, by omega⟩
        simp only [List.length_cons, Nat.add_lt_add_iff_right] at hlt
        simp only [List.getElem?_cons_succ, List.getD_cons_succ, List.getElem?_zipWith]
        have h1 : ms'[j]? = some (ms'.getD j []) := by
          simp [List.getD_eq_getElem?_getD, List.getElem?_eq_getElem hlt]
        have h2 : bs[j]? = some (bs.getD j false) := by
          simp [List.getD_eq_getElem?_getD, List.getElem?_eq_getElem (hlen ▸ hlt)]
        rw [h1, h2]

end qr

section qrField
variable {α : Type} [Field α] [LinearOrder α] [IsStrictOrderedRing α]

/-- under the contract of `numpy.linalg.qr` (the factor is orthonormal) the matrix that leaves
lines 651–653 is a proper rotation: the column flip happens exactly when `det = -1` -/
theorem fix_proper3 (A : M3 α) (h : A.Orthonormal) :
    (if A.det < 0 then A.negLastCol else A).Proper := by
  have hcases := sq_one_cases _ h.det_sq
  split
  · rename_i hneg
    refine ⟨negLastCol_orthonormal3 A h, ?_⟩
    rw [negLastCol_det3]
    rcases hcases with h1 | h1
    · rw [h1] at hneg; exact absurd hneg (by norm_num)
    · rw [h1, neg_neg]
  · rename_i hneg
    refine ⟨h, ?_⟩
    rcases hcases with h1 | h1
    · exact h1
    · rw [h1] at hneg; exact absurd (by norm_num) hneg

/-- the same in two dimensions (`dim = 2`) -/
theorem fix_proper2 (A : M2 α) (h : A.Orthonormal) :
    (if A.det < 0 then A.negLastCol else A).Proper := by
  have hcases := sq_one_cases _ h.det_sq
  split
  · rename_i hneg
    refine ⟨negLastCol_orthonormal2 A h, ?_⟩
    rw [negLastCol_det2]
    rcases hcases with h1 | h1
    · rw [h1] at hneg; exact absurd hneg (by norm_num)
    · rw [h1, neg_neg]
  · rename_i hneg
    refine ⟨h, ?_⟩
    rcases hcases with h1 | h1
    · exact h1
    · rw [h1] at hneg; exact absurd (by norm_num) hneg

end qrField

example : (⟨0, 1, 1, 0⟩ : M2 Rat).Orthonormal ∧ (⟨0, 1, 1, 0⟩ : M2 Rat).det < 0 ∧
    (⟨0, 1, 1, 0⟩ : M2 Rat).negLastCol = ⟨0, -1, 1, 0⟩ := by
  simp only [M2.Orthonormal, M2.negLastCol, M2.tr, M2.mul, M2.id, M2.det, M2.mk.injEq]; decide +kernel
example : (⟨0, 1, 0, 1, 0, 0, 0, 0, 1⟩ : M3 Int).Orthonormal ∧ (⟨0, 1, 0, 1, 0, 0, 0, 0, 1⟩ : M3 Int).det = -1 ∧
    (⟨0, 1, 0, 1, 0, 0, 0, 0, 1⟩ : M3 Int).negLastCol.det = 1 := by
  simp only [M3.Orthonormal, M3.negLastCol, M3.tr, M3.mul, M3.id, M3.det, M3.mk.injEq]; decide
example : fixRotations 2 [[[0, 1], [1, 0]], [[0, 1], [1, 0]], [[1, 0], [0, 1]]] [true, true, false] =
    some [[[1, 0], [0, 1]], [[0, -1], [1, 0]], [[1, (0 : Int)], [0, 1]]] := by decide

/-! ## deepen7: group structure of proper rotations and of the quaternion map -/
section deepen7
variable {α : Type} [CommRing α]

/-- composing two returned rotations gives again an orthonormal, `det = +1` matrix -/
theorem proper_mul_closed (A B : M3 α) (hA : A.Proper) (hB : B.Proper) : (A.mul B).Proper :=
  hA.mul hB

/-- the transpose of a proper rotation is a proper rotation -/
theorem proper_tr_closed (A : M3 α) (hA : A.Proper) : A.tr.Proper :=
  ⟨⟨by rw [M3.tr_tr]; exact hA.1.2, by rw [M3.tr_tr]; exact hA.1.1⟩, by rw [M3.det_tr]; exact hA.2⟩

/-- the transpose is *the* inverse: any right inverse of an orthonormal matrix equals its transpose -/
theorem orthonormal_inverse_unique (A B : M3 α) (hA : A.Orthonormal) (h : A.mul B = M3.id) : B = A.tr := by
  have h1 : A.tr.mul (A.mul B) = A.tr.mul M3.id := by rw [h]
  rw [← M3.mul_assoc, hA.1, M3.id_mul, M3.mul_id] at h1
  exact h1

/-- matrix product acts on vectors by composition -/
theorem mulVec_mul (A B : M3 α) (v : α × α × α) : (A.mul B).mulVec v = A.mulVec (B.mulVec v) := by
  obtain ⟨v1, v2, v3⟩ := v
  simp only [M3.mul, M3.mulVec, Prod.mk.injEq]
  and_intros <;> ring

/-- orthonormal matrices preserve inner products (hence lengths and angles) -/
theorem orthonormal_preserves_dot (A : M3 α) (hA : A.Orthonormal) (u v : α × α × α) :
    dot3 (A.mulVec u) (A.mulVec v) = dot3 u v := by
  obtain ⟨a, b, c, d, e, f, g, h', i⟩ := A
  obtain ⟨u1, u2, u3⟩ := u
  obtain ⟨v1, v2, v3⟩ := v
  simp only [M3.Orthonormal, M3.tr, M3.mul, M3.id, M3.mk.injEq] at hA
  obtain ⟨⟨h1, h2, h3, h4, h5, h6, h7, h8, h9⟩, _⟩ := hA
  simp only [dot3, M3.mulVec]
  linear_combination (u1 * v1) * h1 + (u1 * v2) * h2 + (u1 * v3) * h3 + (u2 * v1) * h4 + (u2 * v2) * h5
    + (u2 * v3) * h6 + (u3 * v1) * h7 + (u3 * v2) * h8 + (u3 * v3) * h9

/-- the conjugate quaternion goes to the transposed matrix (whatever the scale `s`) -/
theorem quat_rot_conj_tr (s : α) (q : Q4 α) : quatToMat s q.conj = (quatToMat s q).tr := by
  simp only [Q4.conj, quatToMat, M3.tr, M3.mk.injEq]
  and_intros <;> ring

/-- the quaternion norm is multiplicative, so unit quaternions are closed under the Hamilton product -/
theorem normSq_mul (p q : Q4 α) : normSq (p.mul q) = normSq p * normSq q := by
  simp only [normSq, Q4.mul]; ring

/-- the norm is invariant under conjugation and negation -/
theorem normSq_conj_neg (q : Q4 α) : normSq q.conj = normSq q ∧ normSq q.neg = normSq q := by
  simp only [normSq, Q4.conj, Q4.neg]; constructor <;> ring

/-- a unit quaternion times its conjugate is the identity quaternion (first row of every shipped set) -/
theorem quat_mul_conj (q : Q4 α) (hq : normSq q = 1) : q.mul q.conj = ⟨1, 0, 0, 0⟩ := by
  obtain ⟨w, x, y, z⟩ := q
  simp only [normSq] at hq
  simp only [Q4.mul, Q4.conj, Q4.mk.injEq]
  and_intros <;> grind

/-- the product of two unit quaternions is again turned into a proper rotation -/
theorem quat_rot_mul_proper (p q : Q4 α) (hp : normSq p = 1) (hq : normSq q = 1) :
    (quatToMat 2 (p.mul q)).Proper :=
  quat_rot_proper _ (by rw [normSq_mul, hp, hq, one_mul])

/-- cone sampling with tilt `b = 0` and no final roll: the `zyx` matrix is the rotation about `z` alone -/
theorem euler_zyx_tilt_zero (ca sa : α) : eulerZYX ca sa 1 0 1 0 = rotZ ca sa := by
  simp only [eulerZYX, rotX, rotY, rotZ, M3.mul, M3.mk.injEq]
  and_intros <;> ring

/-- a rotation about `z` keeps the default axis `(0,0,1)` fixed -/
theorem rotZ_fixes_axis (c s : α) : (rotZ c s).mulVec (0, 0, 1) = (0, 0, 1) := by
  simp only [rotZ, M3.mulVec, Prod.mk.injEq]
  and_intros <;> ring

/-- flipping the last column twice restores the matrix (the `det < 0` fix is an involution) -/
theorem negLastCol_involutive (A : M3 α) : A.negLastCol.negLastCol = A := by
  cases A; simp only [M3.negLastCol, neg_neg]

end deepen7

example : normSq (⟨0, 1, 0, 0⟩ : Q4 Int) = 1 ∧ (M3.id : M3 Int).Proper ∧
    (⟨0, 1, 0, 0⟩ : Q4 Int).mul (⟨0, 1, 0, 0⟩ : Q4 Int).conj = ⟨1, 0, 0, 0⟩ := by
  simp only [normSq, M3.Proper, M3.Orthonormal, M3.tr, M3.mul, M3.id, M3.det, Q4.mul, Q4.conj, M3.mk.injEq, Q4.mk.injEq]
  decide

section deepen7lookup
variable {β : Type} [Ring β] [LinearOrder β] [IsStrictOrderedRing β]

/-- if the table holds a set whose nominal angle is exactly the request, the chosen set has that angle -/
theorem closestSet_exact (table : List (String × Nat × β)) (req : β) (e x : String × Nat × β)
    (h : closestSet table req = some e) (hx : x ∈ table) (hreq : x.2.2 = req) : e.2.2 = req := by
  have h2 := (closestSet_spec table req e h).2 x hx
  rw [hreq, sub_self, abs_zero] at h2
  have h3 : |req - e.2.2| = 0 := le_antisymm h2 (abs_nonneg _)
  exact (sub_eq_zero.mp (abs_eq_zero.mp h3)).symm

omit [IsStrictOrderedRing β] in
/-- a one-entry table returns that entry for every request -/
theorem closestSet_singleton (e : String × Nat × β) (req : β) : closestSet [e] req = some e := rfl

end deepen7lookup

/-- every request at or above the coarsest shipped angle (62.80°) selects the 24-member set `c48u1` -/
theorem closest_shipped_coarsest (req : Int) (h : 6280 ≤ req) :
    closestSet shipped req = some ("c48u1.npy", 24, 6280) := by
  obtain ⟨e, he, hmem, hmin⟩ := closest_shipped_spec req
  have hle : ∀ x ∈ shipped, x.2.2 ≤ 6280 := by decide +kernel
  have huniq : ∀ x ∈ shipped, 6280 ≤ x.2.2 → x = ("c48u1.npy", 24, 6280) := by decide +kernel
  have h1 := hmin ("c48u1.npy", 24, 6280) (by decide +kernel)
  have h2 := hle e hmem
  rw [abs_of_nonneg (by omega), abs_of_nonneg (by simp only; omega)] at h1
  rw [he, huniq e hmem (by simp only at h1; omega)]

end Pm.C07
