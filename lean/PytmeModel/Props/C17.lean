import PytmeModel.Model.C17
import PytmeModel.Proofs.C17
import PytmeModel.Extracted.C17
import Mathlib.Tactic.Ring
import Mathlib.Tactic.Linarith

/-! # C17 — refinement scores are repeatable; the optimiser wrapper respects bounds and the start;
rigid alignment recovers rigid motions

Clause map (property text → theorems):
* "same value regardless of which poses were evaluated before"  → `score_indep_of_history`,
  `c2dStep_value`, `c2dRun_values`, `d2d_score_indep_of_history`, `d2dStep_value`, `d2dRun_values`
  (+ invariants `c2dStep_wf`, `d2dStep_wf`, `c2dInit_wf`, `d2dInit_wf`); pinned-code witness
  `d2dStepOld_mask_never_written`; several objects alive at once, evaluated in turn: `poolRun_values`,
  `c2dPool_values`, `d2dPool_values`.
* "every registered score can be evaluated through the common interface" → `formatPose_split`,
  `formatPose_translation`, `formatPose_angles`, `flcWindow_len_eq`, `flcWindow_overlap`,
  `flcWindow_disjoint` (no pose makes the window arithmetic ill-formed), witness
  `flcWindowOld_defect`; the registry itself is tied by reflection in the harness.
* "similarity scores are best at the generating pose" → exact-arithmetic parts `ncc_sq_le`,
  `ncc_planted_attains`, `plsq_nonneg`, `plsq_planted_zero`; everything else Leg B.
* "optimiser returns a pose inside the bounds whose score is no worse than the start" →
  `effBounds_length`, `effBounds_widens_by_res`, `result_in_bounds`, `result_no_worse_than_start`,
  `result_score_consistent`, `optimizeMatch_sound`, witness `optimizeWrapOld_defect`.
* "aligning to a rigidly moved copy reproduces the copy" → `align_recovers`, `align_rmsd_zero`,
  `rigidCoords_spec`, `rigid_then_align_recovers`, `kabschRotation_det_nonneg`.
-/
namespace Pm.C17

/-! ## the registry (regenerated from the source on every run) is covered by the model -/

/-- every registered score belongs to a family with a step function, and its `__call__` is of one of
the three modelled kinds -/
theorem registered_all_callable : ∀ row ∈ Extracted.registry, rowCovered row = true := by decide

example : Extracted.registry.length ≥ 11 := by decide

/-! ## pose formatting -/

/-- an even-length pose splits into two halves of equal length that reassemble to the pose -/
theorem formatPose_split {α : Type} (x : List α) (d : Nat) (h : x.length = 2 * d) :
    (formatPose x).1.length = d ∧ (formatPose x).2.length = d ∧
      (formatPose x).1 ++ (formatPose x).2 = x := by
  unfold formatPose
  refine ⟨?_, ?_, List.take_append_drop _ _⟩
  · simp only [List.length_take]; omega
  · simp only [List.length_drop]; omega

/-- `score_translation` evaluates the pose (t, 0) -/
theorem formatPose_translation {α : Type} (z : α) (t : List α) :
    formatPose (poseOfTranslation z t) = (t, List.replicate t.length z) := by
  unfold formatPose poseOfTranslation
  have h : (t ++ List.replicate t.length z).length / 2 = t.length := by
    simp only [List.length_append, List.length_replicate]; omega
  rw [h]
  simp

/-- `score_angles` evaluates the pose (0, a) -/
theorem formatPose_angles {α : Type} (z : α) (a : List α) :
    formatPose (poseOfAngles z a) = (List.replicate a.length z, a) := by
  unfold formatPose poseOfAngles
  have h : (List.replicate a.length z ++ a).length / 2 = (List.replicate a.length z).length := by
    simp only [List.length_append, List.length_replicate]; omega
  rw [h]
  simp

example : formatPose [1, 2, 3, 10, 20, 30] = ([1, 2, 3], [10, 20, 30]) := by decide

/-! ## density-to-density overlap windows: well-formed for *every* voxel translation -/

/-- template window and target window always select the same number of voxels -/
theorem flcWindow_len_eq (n N : Nat) (v : Int) :
    (flcWindow n N v).tLen n = (flcWindow n N v).gLen N :=
  (flcWindow_lens n N v).1

/-- with overlap (`-n < v < N`) the windows are the intersection of the shifted template with the
target, non-empty, inside both arrays, and the target index is the template index plus `v` -/
theorem flcWindow_overlap (n N : Nat) (v : Int) (hn : 0 < n) (hN : 0 < N) (h1 : -(n : Int) < v) (h2 : v < N) :
    (flcWindow n N v).tLo = max 0 (-v) ∧ (flcWindow n N v).tHi = min (n : Int) (N - v) ∧
      (flcWindow n N v).gLo = (flcWindow n N v).tLo + v ∧
      (flcWindow n N v).gHi = (flcWindow n N v).tHi + v ∧
      0 ≤ (flcWindow n N v).tLo ∧ (flcWindow n N v).tLo < (flcWindow n N v).tHi ∧
      (flcWindow n N v).tHi ≤ n ∧ 0 ≤ (flcWindow n N v).gLo ∧ (flcWindow n N v).gHi ≤ N := by
  rw [flcWindow_eq]
  dsimp only
  omega

/-- without overlap both windows are empty (no pose is rejected) -/
theorem flcWindow_disjoint (n N : Nat) (v : Int) (h : v ≤ -(n : Int) ∨ (N : Int) ≤ v) :
    (flcWindow n N v).tLen n = 0 ∧ (flcWindow n N v).gLen N = 0 := by
  have := flcWindow_lens n N v
  exact ⟨this.1.trans (this.2 h), this.2 h⟩

/-- the pinned arithmetic: template off the target by one voxel ⇒ 0 template voxels against 19
target voxels (numpy then raises) -/
theorem flcWindowOld_defect :
    (flcWindowOld 10 20 (-11)).tLen 10 = 0 ∧ (flcWindowOld 10 20 (-11)).gLen 20 = 19 := by decide

example : flcWindow 10 20 (-3) = ⟨3, 10, 0, 7⟩ := by decide
example : flcWindow 10 20 15 = ⟨0, 5, 15, 20⟩ := by decide
example : (flcWindow 10 20 (-11)).tLen 10 = 0 ∧ (flcWindow 10 20 (-11)).gLen 20 = 0 := by decide

/-! ## coordinate scores: the value never depends on the scratch state -/

/-- a fresh object is well formed -/
theorem c2dInit_wf {α β : Type} (S : C2DStatic α β) (n m : Nat) (rot tv : List α)
    (mrot : Option (List α)) (hr : rot.length = n) (hm : ∀ mm, mrot = some mm → mm.length = m) :
    C2DWf S mrot.isSome n m ⟨rot, mrot, tv, S.one⟩ := by
  refine ⟨hr, ?_, fun _ => rfl⟩
  cases mrot with
  | none => simp
  | some mm => simpa using hm mm rfl

/-- one call returns what a fresh object returns for that pose -/
theorem c2dStep_value {α β : Type} (S : C2DStatic α β) (hasMask : Bool) (n m : Nat)
    (hc : C2DContract S n m) (st : C2DState α) (hw : C2DWf S hasMask n m st) (x : List α) :
    (c2dStep S st x).1 = c2dPure S hasMask x :=
  c2dStep_value_aux S hasMask n m hc st hw x

/-- the invariant is kept by every call -/
theorem c2dStep_wf {α β : Type} (S : C2DStatic α β) (hasMask : Bool) (n m : Nat)
    (hc : C2DContract S n m) (st : C2DState α) (hw : C2DWf S hasMask n m st) (x : List α) :
    C2DWf S hasMask n m (c2dStep S st x).2 :=
  c2dStep_wf_aux S hasMask n m hc st hw x

/-- **repeatability**: whatever two (reachable) states the object is in, the same pose gets the
same value -/
theorem score_indep_of_history {α β : Type} (S : C2DStatic α β) (hasMask : Bool) (n m : Nat)
    (hc : C2DContract S n m) (st st' : C2DState α) (hw : C2DWf S hasMask n m st)
    (hw' : C2DWf S hasMask n m st') (x : List α) :
    (c2dStep S st x).1 = (c2dStep S st' x).1 := by
  rw [c2dStep_value S hasMask n m hc st hw, c2dStep_value S hasMask n m hc st' hw']

/-- along any history of poses every returned value is the fresh-object value of its pose -/
theorem c2dRun_values {α β : Type} (S : C2DStatic α β) (hasMask : Bool) (n m : Nat)
    (hc : C2DContract S n m) (xs : List (List α)) :
    ∀ (st : C2DState α), C2DWf S hasMask n m st →
      (c2dRun S st xs).1 = xs.map (c2dPure S hasMask) := by
  induction xs with
  | nil => intro st _; rfl
  | cons x xs ih =>
    intro st hw
    have hv := c2dStep_value S hasMask n m hc st hw x
    have hw2 := c2dStep_wf S hasMask n m hc st hw x
    have := ih (c2dStep S st x).2 hw2
    simp only [c2dRun, List.map_cons]
    rw [this, hv]

/-! ### non-vacuity (coordinate scores) -/

/-- a token instance (the one the driver executes): kernels return buffers filled with the call's token -/
def exC2D (kind : CallKind) : C2DStatic Nat (List Nat) :=
  { kind := kind
    rigid := fun x => List.replicate 2 (x.headD 0)
    rigidMask := fun x => List.replicate 1 (x.headD 0)
    interp := fun p => p
    denomOf := fun tv => tv.headD 0
    denomPos := fun k => k % 2 == 1
    one := 0
    final := fun tv rot mrot den => tv ++ rot ++ mrot.getD [] ++ [den]
    zero := [] }

/-- non-vacuity: the contract and the invariant hold for a concrete object with a mask … -/
example : C2DContract (exC2D .normalised) 2 1 := ⟨fun _ => by simp [exC2D], fun _ => by simp [exC2D]⟩
example : C2DWf (exC2D .normalised) true 2 1 ⟨[0, 0], some [0], [0, 0], 0⟩ :=
  ⟨rfl, ⟨rfl, rfl⟩, fun h => absurd rfl h⟩
/-- … a three-call history (second call takes the early return) gives the fresh-object values … -/
example : (c2dRun (exC2D .normalised) ⟨[0, 0], some [0], [0, 0], 0⟩ [[1], [2], [3]]).1 =
    [[1, 1, 1, 1, 1, 1], [], [3, 3, 3, 3, 3, 3]] := by decide
/-- … and the invariant is needed: a buffer longer than what the kernel writes keeps a stale cell
that the formula then reads (two states, same pose, different values) -/
example : (c2dStep (exC2D .generic) ⟨[7, 7, 7], none, [], 0⟩ [1]).1 ≠
    (c2dStep (exC2D .generic) ⟨[8, 8, 8], none, [], 0⟩ [1]).1 := by decide

/-! ## density-to-density score (FLC) -/

theorem d2dInit_wf {α β : Type} (S : D2DStatic α β) (L : Nat) (hc : D2DContract S L)
    (tr go : List α) (ws : List Win) (ht : tr.length = L) :
    D2DWf S L ⟨none, go, tr, S.mask0, ws⟩ :=
  ⟨ht, hc.mask0, fun _ => rfl, fun _ _ h => by simp at h⟩

theorem d2dStep_value {α β : Type} (S : D2DStatic α β) (L : Nat) (hc : D2DContract S L)
    (st : D2DState α) (hw : D2DWf S L st) (x : List α) :
    (d2dStep S st x).1 = d2dPure S x :=
  d2dStep_value_aux S L hc st hw x

theorem d2dStep_wf {α β : Type} (S : D2DStatic α β) (L : Nat) (hc : D2DContract S L)
    (st : D2DState α) (hw : D2DWf S L st) (x : List α) :
    D2DWf S L (d2dStep S st x).2 :=
  d2dStep_wf_aux S L hc st hw x

/-- **repeatability** for the density-to-density score, including the cached grid -/
theorem d2d_score_indep_of_history {α β : Type} (S : D2DStatic α β) (L : Nat) (hc : D2DContract S L)
    (st st' : D2DState α) (hw : D2DWf S L st) (hw' : D2DWf S L st') (x : List α) :
    (d2dStep S st x).1 = (d2dStep S st' x).1 := by
  rw [d2dStep_value S L hc st hw, d2dStep_value S L hc st' hw']

theorem d2dRun_values {α β : Type} (S : D2DStatic α β) (L : Nat) (hc : D2DContract S L)
    (xs : List (List α)) :
    ∀ (st : D2DState α), D2DWf S L st → (d2dRun S st xs).1 = xs.map (d2dPure S) := by
  induction xs with
  | nil => intro st _; rfl
  | cons x xs ih =>
    intro st hw
    have hv := d2dStep_value S L hc st hw x
    have hw2 := d2dStep_wf S L hc st hw x
    have := ih (d2dStep S st x).2 hw2
    simp only [d2dRun, List.map_cons]
    rw [this, hv]

/-- pinned code: with `rotate_mask` the rotated-mask buffer is all zeros after every call, whatever
the mask (hence `n_obs = 0` and a NaN score) -/
theorem d2dStepOld_mask_never_written {α β : Type} (S : D2DStatic α β) (st : D2DState α)
    (x : List α) (h : S.rotateMask = true) :
    (d2dStepOld S st x).2.maskRot = List.replicate st.maskRot.length S.zeroA := by
  simp [d2dStepOld, h, fillWith]

/-! ### non-vacuity (density-to-density score) -/

def exD2D (rotateMask : Bool) : D2DStatic Nat (List Nat × List Win) :=
  { shape := [2, 3], targetShape := [5, 6], rotateMask := rotateMask
    mask0 := List.replicate 6 0, zeroA := 999
    mkGrid := fun s => List.replicate (prodL s * s.length) 1000
    affine := fun x g => List.replicate g.length (x.headD 0)
    interpT := fun p => List.replicate 6 (p.headD 998)
    interpM := fun p => List.replicate 6 (p.headD 998 + 100)
    normalize := fun t _ => t
    voxel := fun x => [(x.headD 0 : Int) - 3, 2]
    final := fun tr mr ws => (tr ++ mr, ws) }

example : D2DContract (exD2D true) 6 :=
  ⟨fun _ _ => by simp [exD2D], fun _ => by simp [exD2D], fun _ => by simp [exD2D], fun _ _ => rfl,
    by simp [exD2D]⟩
example : (d2dRun (exD2D true) ⟨none, [], List.replicate 6 0, List.replicate 6 0, []⟩ [[1], [5]]).1 =
    [d2dPure (exD2D true) [1], d2dPure (exD2D true) [5]] := by decide
/-- the pinned step on the same object: the formula sees a zero mask and the mask inside the template buffer -/
example : (d2dStepOld (exD2D true) ⟨none, [], List.replicate 6 0, List.replicate 6 0, []⟩ [1]).1.1 =
    List.replicate 6 101 ++ List.replicate 6 999 := by decide

/-! ## optimize_match -/

theorem effBounds_length (c : Consts) (m : Method) (bt br : Option (List Bound)) (b : List Bound)
    (ht : ∀ t, bt = some t → t.length = c.ndim) (hr : ∀ r, br = some r → r.length = c.ndim)
    (h : effBounds c m bt br = some b) : b.length = 2 * c.ndim :=
  effBounds_length_aux c m bt br b ht hr h

/-- every effective bound is the user's bound, except `(0,0)` which is widened to `±res` -/
theorem effBounds_widens_by_res (c : Consts) (m : Method) (t r b : List Bound)
    (h : effBounds c m (some t) (some r) = some b) :
    b = (t ++ r).map (fun u => if u = (0, 0) then (-c.res, c.res) else u) := by
  simp only [effBounds, Option.isNone_some, Option.isSome_some, and_false, and_true, if_false,
    Bool.false_eq_true] at h
  simpa using h.symm

/-- no bounds at all stay "unbounded" for the local optimisers; DE always gets bounds -/
theorem effBounds_none (c : Consts) (m : Method) :
    (effBounds c m none none = none ↔ m ≠ .de) := by
  cases m <;> simp [effBounds]

/-- the returned score is never worse (larger) than the start's -/
theorem result_no_worse_than_start (x0 : List Int) (initial : Int) (resX : List Int) (resFun : Int) :
    (optimizeWrap x0 initial resX resFun).2 ≤ initial := by
  unfold optimizeWrap; split <;> simp only <;> omega

/-- the returned pose lies in the bounds when the start and the optimiser's result do -/
theorem result_in_bounds (b : List Bound) (x0 : List Int) (initial : Int) (resX : List Int)
    (resFun : Int) (h0 : inBounds b x0 = true) (hr : inBounds b resX = true) :
    inBounds b (optimizeWrap x0 initial resX resFun).1 = true := by
  unfold optimizeWrap; split <;> assumption

/-- the returned score is the score of the returned pose -/
theorem result_score_consistent (score : List Int → Int) (x0 resX : List Int) :
    (optimizeWrap x0 (score x0) resX (score resX)).2 =
      score (optimizeWrap x0 (score x0) resX (score resX)).1 := by
  unfold optimizeWrap; split <;> rfl

/-- the whole wrapper, for every score function and every optimiser that reports the score of
its result and stays inside the bounds it was given -/
theorem optimizeMatch_sound (c : Consts) (m : Method) (bt br : Option (List Bound))
    (x0 : Option (List Int)) (score : List Int → Int)
    (opt : Option (List Bound) → List Int → List Int × Int)
    (hfun : ∀ b s, (opt b s).2 = score (opt b s).1) :
    let r := optimizeMatch c m bt br x0 score opt
    r.2 = score r.1 ∧ r.2 ≤ score (startPose c x0) ∧
      ∀ b, effBounds c m bt br = some b → inBounds b (startPose c x0) = true →
        inBounds b (opt (some b) (startPose c x0)).1 = true → inBounds b r.1 = true := by
  refine ⟨?_, ?_, ?_⟩
  · simp only [optimizeMatch]; rw [hfun]; exact result_score_consistent _ _ _
  · exact result_no_worse_than_start _ _ _ _
  · intro b hb h0 hr
    simp only [optimizeMatch, hb]
    exact result_in_bounds b _ _ _ _ h0 hr

/-- pinned code: start (7,−7) inside rotation bounds that exclude 0, optimiser result inside the
bounds but worse than the start ⇒ zeros outside the bounds are returned with the worse score -/
theorem optimizeWrapOld_defect :
    let b : List Bound := [(5, 10), (-10, -5)]
    let x0 : List Int := [7, -7]
    let res : List Int := [9, -9]
    inBounds b x0 = true ∧ inBounds b res = true ∧
      inBounds b (optimizeWrapOld x0 (-52) res 0).1 = false ∧
      ¬ (optimizeWrapOld x0 (-52) res 0).2 ≤ -52 := by decide

example : optimizeWrap [7, -7] (-52) [9, -9] 0 = ([7, -7], -52) := by decide
example : optimizeWrap [7, -7] (-52) [9, -9] (-60) = ([9, -9], -60) := by decide
example : effBounds ⟨-1000, 1000, 1, 180, 3⟩ .minimize (some [(1, 3), (1, 3), (0, 0)]) none
    = some [(1, 3), (1, 3), (-1, 1), (-180, 180), (-180, 180), (-180, 180)] := by decide
example : effBounds ⟨-1000, 1000, 1, 180, 3⟩ .de none none
    = some [(-1000, 1000), (-1000, 1000), (-1000, 1000), (-180, 180), (-180, 180), (-180, 180)] := by
  decide

/-! ## rigid alignment recovers rigid motions (everything around the SVD) -/

/-- **Kabsch wrapper**: if the reference is the image `q ↦ q·R + t` of the query (any matrix `R`,
any `t`, any number of points, any field) and the SVD step hands back that `R`, the aligned query
*is* the reference -/
theorem align_recovers {α : Type} [Field α] (R : M3 α) (t : V3 α) (query : List (V3 α))
    (hn : (query.length : α) ≠ 0) :
    alignAll 0 (1 / (query.length : α)) R (query.map (fun q => V3.add (V3.mulM q R) t)) query =
      query.map (fun q => V3.add (V3.mulM q R) t) :=
  alignAll_affine R t query hn

/-- … hence the squared deviation (n·RMSD²) after alignment is exactly 0 -/
theorem align_rmsd_zero {α : Type} [Field α] (R : M3 α) (t : V3 α) (query : List (V3 α))
    (hn : (query.length : α) ≠ 0) :
    sqDev 0 (query.map (fun q => V3.add (V3.mulM q R) t))
      (alignAll 0 (1 / (query.length : α)) R (query.map (fun q => V3.add (V3.mulM q R) t)) query) = 0 := by
  rw [align_recovers R t query hn]; exact sqDev_self _

/-- `rigid_transform` on coordinates is `x ↦ R(x − c) + c + t` with `c` the centroid -/
theorem rigidCoords_spec {α : Type} [Field α] (R : M3 α) (t : V3 α) (pts : List (V3 α))
    (hn : (pts.length : α) ≠ 0) :
    rigidCoords 0 (1 / (pts.length : α)) R t pts =
      pts.map (fun p =>
        V3.add (V3.add (M3.mulV R (V3.sub p (V3.smul (1 / (pts.length : α)) (vsum 0 pts))))
          (V3.smul (1 / (pts.length : α)) (vsum 0 pts))) t) :=
  rigidCoords_eq R t pts hn

/-- a structure moved by `rigid_transform` and aligned back with the rotation `Rᵀ` (row convention of
`align_structures`) reproduces the moved copy exactly -/
theorem rigid_then_align_recovers {α : Type} [Field α] (R : M3 α) (t : V3 α) (pts : List (V3 α))
    (hn : (pts.length : α) ≠ 0) :
    alignAll 0 (1 / (pts.length : α)) (M3.transpose R)
        (rigidCoords 0 (1 / (pts.length : α)) R t pts) pts =
      rigidCoords 0 (1 / (pts.length : α)) R t pts := by
  rw [rigidCoords_spec R t pts hn]
  set c := V3.smul (1 / (pts.length : α)) (vsum 0 pts) with hc
  have hf : (fun p => V3.add (V3.add (M3.mulV R (V3.sub p c)) c) t) =
      (fun q => V3.add (V3.mulM q (M3.transpose R))
        (V3.add (V3.sub c (V3.mulM c (M3.transpose R))) t)) := by
    funext p
    rw [mulV_eq_mulM_transpose, V3.eq_iff]
    simp only [V3.add, V3.sub, V3.mulM, M3.transpose]
    refine ⟨?_, ?_, ?_⟩ <;> ring
  rw [hf]
  exact align_recovers _ _ pts hn

/-- the reflection guard: the rotation built from any SVD factors has non-negative determinant -/
theorem kabschRotation_det_nonneg {α : Type} [CommRing α] [LinearOrder α] [IsStrictOrderedRing α]
    (U Vh : M3 α) : 0 ≤ M3.det (kabschRotation (fun d => decide (d < 0)) U Vh) :=
  kabsch_det_nonneg U Vh

/-- non-vacuity: three non-collinear points, a quarter turn and a shift satisfy the hypotheses -/
example : ((([⟨0, 0, 0⟩, ⟨1, 2, 0⟩, ⟨-1, 0, 2⟩] : List (V3 ℚ)).length : ℚ) ≠ 0) := by norm_num
example := align_rmsd_zero (⟨0, 1, 0, -1, 0, 0, 0, 0, 1⟩ : M3 ℚ) ⟨1, 1, 3⟩
  [⟨0, 0, 0⟩, ⟨1, 2, 0⟩, ⟨-1, 0, 2⟩] (by norm_num)
example : M3.det (kabschRotation (fun d => decide (d < 0)) (⟨1, 0, 0, 0, 1, 0, 0, 0, 1⟩ : M3 Int)
    ⟨0, 1, 0, 1, 0, 0, 0, 0, 1⟩) = 1 := by decide

/-! ## optimum at the generating pose in exact arithmetic -/

/-- Cauchy–Schwarz for the normalised cross-correlation: `⟨v,w⟩² ≤ ⟨v,v⟩⟨w,w⟩`, i.e. the
normalised score of any pose is at most 1 in absolute value … -/
theorem ncc_sq_le {α : Type} [Field α] [LinearOrder α] [IsStrictOrderedRing α] (v w : List α)
    (h : v.length = w.length) : dot 0 v w ^ 2 ≤ dot 0 v v * dot 0 w w :=
  dot_sq_le v w h

/-- … and the generating pose (interpolated values = weights) attains the bound -/
theorem ncc_planted_attains {α : Type} [CommRing α] (w : List α) :
    dot 0 w w ^ 2 = dot 0 w w * dot 0 w w := by ring

/-- the least-squares distance is never negative … -/
theorem plsq_nonneg {α : Type} [CommRing α] [LinearOrder α] [IsStrictOrderedRing α] (v w : List α) :
    0 ≤ plsq 0 v w :=
  plsq_nonneg_aux v w

/-- … and 0 at the generating pose -/
theorem plsq_planted_zero {α : Type} [CommRing α] (w : List α) : plsq 0 w w = 0 :=
  plsq_self w

example := ncc_sq_le ([1, 2, 3] : List ℚ) [3, 2, 1] rfl
example : dot (0 : Int) [1, 2, 3] [3, 2, 1] = 10 ∧ dot (0 : Int) [1, 2, 3] [1, 2, 3] = 14 := by decide
example : plsq (0 : Int) [1, 2, 3] [3, 2, 1] = 8 := by decide

/-! ## several objects evaluated in turn (interleaved histories) -/

/-- generic: if every object's step returns its fresh-object value in each state satisfying an
invariant that the step preserves, then along any schedule over any pool of objects every returned
value is the fresh-object value of (that object, that pose) -/
theorem poolRun_values {ι σ π β : Type} [DecidableEq ι] (step : ι → σ → π → β × σ)
    (fresh : ι → π → β) (inv : ι → σ → Prop)
    (hv : ∀ i s x, inv i s → (step i s x).1 = fresh i x)
    (hp : ∀ i s x, inv i s → inv i (step i s x).2)
    (sched : List (ι × π)) :
    ∀ st : ι → σ, (∀ i, inv i (st i)) →
      (poolRun step st sched).1 = sched.map (fun p => fresh p.1 p.2) := by
  induction sched with
  | nil => intro st _; rfl
  | cons p rest ih =>
    intro st h
    obtain ⟨i, x⟩ := p
    have h' : ∀ j, inv j (if j = i then (step i (st i) x).2 else st j) := by
      intro j
      by_cases hj : j = i
      · subst hj; simpa using hp j (st j) x (h j)
      · simpa [hj] using h j
    simp only [poolRun, List.map_cons]
    rw [ih _ h', hv i (st i) x (h i)]

/-- coordinate scores of any classes / sizes / masks alive together: every value along any
interleaving is the fresh-object value -/
theorem c2dPool_values {α β : Type} (S : Nat → C2DStatic α β) (hasMask : Nat → Bool) (n m : Nat → Nat)
    (hc : ∀ i, C2DContract (S i) (n i) (m i)) (sched : List (Nat × List α)) (st : Nat → C2DState α)
    (hw : ∀ i, C2DWf (S i) (hasMask i) (n i) (m i) (st i)) :
    (poolRun (fun i s x => c2dStep (S i) s x) st sched).1
      = sched.map (fun p => c2dPure (S p.1) (hasMask p.1) p.2) :=
  poolRun_values (fun i s x => c2dStep (S i) s x) (fun i x => c2dPure (S i) (hasMask i) x)
    (fun i s => C2DWf (S i) (hasMask i) (n i) (m i) s)
    (fun i s x h => c2dStep_value (S i) (hasMask i) (n i) (m i) (hc i) s h x)
    (fun i s x h => c2dStep_wf (S i) (hasMask i) (n i) (m i) (hc i) s h x) sched st hw

/-- density scores with templates of any shapes alive together (each with its own cached grid) -/
theorem d2dPool_values {α β : Type} (S : Nat → D2DStatic α β) (L : Nat → Nat)
    (hc : ∀ i, D2DContract (S i) (L i)) (sched : List (Nat × List α)) (st : Nat → D2DState α)
    (hw : ∀ i, D2DWf (S i) (L i) (st i)) :
    (poolRun (fun i s x => d2dStep (S i) s x) st sched).1 = sched.map (fun p => d2dPure (S p.1) p.2) :=
  poolRun_values (fun i s x => d2dStep (S i) s x) (fun i x => d2dPure (S i) x)
    (fun i s => D2DWf (S i) (L i) s)
    (fun i s x h => d2dStep_value (S i) (L i) (hc i) s h x)
    (fun i s x h => d2dStep_wf (S i) (L i) (hc i) s h x) sched st hw

/-- non-vacuity: a normalised and a generic score evaluated in turn -/
example : (poolRun (fun (i : Nat) s x => c2dStep (exC2D (if i = 0 then .normalised else .generic)) s x)
    (fun _ => ⟨[0, 0], some [0], [0, 0], 0⟩) [(0, [1]), (1, [2]), (0, [3]), (1, [2])]).1 =
    [[1, 1, 1, 1, 1, 1], [2, 2, 2, 2, 2, 0], [3, 3, 3, 3, 3, 3], [2, 2, 2, 2, 2, 0]] := by decide

end Pm.C17
