import PytmeModel.Model.C17
import PytmeModel.Proofs.C17
import PytmeModel.Model.C17Scores
import PytmeModel.Proofs.C17Scores
import PytmeModel.Proofs.C17MI
import PytmeModel.Extracted.C17
import Mathlib.Tactic.Ring
import Mathlib.Tactic.Linarith

/-! # C17 — refinement scores are repeatable; the optimiser wrapper respects bounds and the start;
rigid alignment recovers rigid motions

Clause map (property text → theorems):
* "same value regardless of which poses were evaluated before"  → `score_indep_of_history`,
  `c2dStep_value`, `c2dRun_values`, `d2d_score_indep_of_history`, `d2dStep_value`, `d2dRun_values`
  (+ invariants `c2dStep_wf`, `d2dStep_wf`, `c2dInit_wf`, `d2dInit_wf`); pinned-code witness
  `d2dStepOld_mask_never_written`; several objects alive at once, evaluated in turn: `poolRun_values`,
  `c2dPool_values`, `d2dPool_values`.
* "every registered score can be evaluated through the common interface" → `formatPose_split`,
  `formatPose_translation`, `formatPose_angles`, `flcWindow_len_eq`, `flcWindow_overlap`,
  `flcWindow_disjoint` (no pose makes the window arithmetic ill-formed), witness
  `flcWindowOld_defect`; the registry itself is tied by reflection in the harness.
* "similarity scores are best at the generating pose" → on the voxel grid, score by score, about the
  executable formulas of `Model/C17Scores.lean` (second half of this file): sign convention
  `scoreSign_mul_le`, `similarity_best_both_conventions`, `distance_best_both_conventions`;
  CC `cc_planted_best_of_norm_le` (+ witness `cc_planted_not_best_without_norm_bound`); NCC `ncc_planted_best`
  (corollaries of the same Cauchy–Schwarz: `ncc_sq_le`, `ncc_planted_attains`); PLSQ `plsq_eq_zero_iff`,
  `plsq_planted_best` (corollaries `plsq_nonneg`, `plsq_planted_zero`); Chamfer `chamfer_zero_iff`,
  `nnSq_mono_target`; NVS `nvs_planted_best`; MCC `mcc_integer_sq_le`, `mcc_integer_planted` (+ witnesses
  `mcc_truncation_defect`, `mcc_overlap_defect`, `mcc_mask_subset_defect`); MI `mi_planted_best`,
  `mi_planted_best_within_regulariser`; FLC `flc_full_sq_le`, `flc_full_planted`; Envelope `envRaw_eq`,
  `envelope_planted_worst_in_volume`, `envelope_current_defect`; NCCMean `nccMean_planted_not_best`;
  Laplace `laplace_planted_vectors_differ`.  Off the voxel grid (interpolation, rotations): Leg B.
* "optimiser returns a pose inside the bounds whose score is no worse than the start" →
  `effBounds_length`, `effBounds_widens_by_res`, `result_in_bounds`, `result_no_worse_than_start`,
  `result_score_consistent`, `optimizeMatch_sound`, witness `optimizeWrapOld_defect`.
* "aligning to a rigidly moved copy reproduces the copy" → `align_recovers`, `align_rmsd_zero`,
  `rigidCoords_spec`, `rigid_then_align_recovers`, `kabschRotation_det_nonneg`.
-/
namespace Pm.C17

/-! ## the registry (regenerated from the source on every run) is covered by the model -/

/-- every registered score belongs to a family with a step function, and its `__call__` is of one of
the three modelled kinds -/
theorem registered_all_callable : ∀ row ∈ Extracted.registry, rowCovered row = true := by decide

example : Extracted.registry.length ≥ 11 := by decide

/-! ## pose formatting -/

/-- an even-length pose splits into two halves of equal length that reassemble to the pose -/
theorem formatPose_split {α : Type} (x : List α) (d : Nat) (h : x.length = 2 * d) :
    (formatPose x).1.length = d ∧ (formatPose x).2.length = d ∧
      (formatPose x).1 ++ (formatPose x).2 = x := by
  unfold formatPose
  refine ⟨?_, ?_, List.take_append_drop _ _⟩
  · simp only [List.length_take]; omega
  · simp only [List.length_drop]; omega

/-- `score_translation` evaluates the pose (t, 0) -/
theorem formatPose_translation {α : Type} (z : α) (t : List α) :
    formatPose (poseOfTranslation z t) = (t, List.replicate t.length z) := by
  unfold formatPose poseOfTranslation
  have h : (t ++ List.replicate t.length z).length / 2 = t.length := by
    simp only [List.length_append, List.length_replicate]; omega
  rw [h]
  simp

/-- `score_angles` evaluates the pose (0, a) -/
theorem formatPose_angles {α : Type} (z : α) (a : List α) :
    formatPose (poseOfAngles z a) = (List.replicate a.length z, a) := by
  unfold formatPose poseOfAngles
  have h : (List.replicate a.length z ++ a).length / 2 = (List.replicate a.length z).length := by
    simp only [List.length_append, List.length_replicate]; omega
  rw [h]
  simp

example : formatPose [1, 2, 3, 10, 20, 30] = ([1, 2, 3], [10, 20, 30]) := by decide

/-! ## density-to-density overlap windows: well-formed for *every* voxel translation -/

/-- template window and target window always select the same number of voxels -/
theorem flcWindow_len_eq (n N : Nat) (v : Int) :
    (flcWindow n N v).tLen n = (flcWindow n N v).gLen N :=
  (flcWindow_lens n N v).1

/-- with overlap (`-n < v < N`) the windows are the intersection of the shifted template with the
target, non-empty, inside both arrays, and the target index is the template index plus `v` -/
theorem flcWindow_overlap (n N : Nat) (v : Int) (hn : 0 < n) (hN : 0 < N) (h1 : -(n : Int) < v) (h2 : v < N) :
    (flcWindow n N v).tLo = max 0 (-v) ∧ (flcWindow n N v).tHi = min (n : Int) (N - v) ∧
      (flcWindow n N v).gLo = (flcWindow n N v).tLo + v ∧
      (flcWindow n N v).gHi = (flcWindow n N v).tHi + v ∧
      0 ≤ (flcWindow n N v).tLo ∧ (flcWindow n N v).tLo < (flcWindow n N v).tHi ∧
      (flcWindow n N v).tHi ≤ n ∧ 0 ≤ (flcWindow n N v).gLo ∧ (flcWindow n N v).gHi ≤ N := by
  rw [flcWindow_eq]
  dsimp only
  omega

/-- without overlap both windows are empty (no pose is rejected) -/
theorem flcWindow_disjoint (n N : Nat) (v : Int) (h : v ≤ -(n : Int) ∨ (N : Int) ≤ v) :
    (flcWindow n N v).tLen n = 0 ∧ (flcWindow n N v).gLen N = 0 := by
  have := flcWindow_lens n N v
  exact ⟨this.1.trans (this.2 h), this.2 h⟩

/-- the pinned arithmetic: template off the target by one voxel ⇒ 0 template voxels against 19
target voxels (numpy then raises) -/
theorem flcWindowOld_defect :
    (flcWindowOld 10 20 (-11)).tLen 10 = 0 ∧ (flcWindowOld 10 20 (-11)).gLen 20 = 19 := by decide

example : flcWindow 10 20 (-3) = ⟨3, 10, 0, 7⟩ := by decide
example : flcWindow 10 20 15 = ⟨0, 5, 15, 20⟩ := by decide
example : (flcWindow 10 20 (-11)).tLen 10 = 0 ∧ (flcWindow 10 20 (-11)).gLen 20 = 0 := by decide

/-! ## coordinate scores: the value never depends on the scratch state -/

/-- a fresh object is well formed -/
theorem c2dInit_wf {α β : Type} (S : C2DStatic α β) (n m : Nat) (rot tv : List α)
    (mrot : Option (List α)) (hr : rot.length = n) (hm : ∀ mm, mrot = some mm → mm.length = m) :
    C2DWf S mrot.isSome n m ⟨rot, mrot, tv, S.one⟩ := by
  refine ⟨hr, ?_, fun _ => rfl⟩
  cases mrot with
  | none => simp
  | some mm => simpa using hm mm rfl

/-- one call returns what a fresh object returns for that pose -/
theorem c2dStep_value {α β : Type} (S : C2DStatic α β) (hasMask : Bool) (n m : Nat)
    (hc : C2DContract S n m) (st : C2DState α) (hw : C2DWf S hasMask n m st) (x : List α) :
    (c2dStep S st x).1 = c2dPure S hasMask x :=
  c2dStep_value_aux S hasMask n m hc st hw x

/-- the invariant is kept by every call -/
theorem c2dStep_wf {α β : Type} (S : C2DStatic α β) (hasMask : Bool) (n m : Nat)
    (hc : C2DContract S n m) (st : C2DState α) (hw : C2DWf S hasMask n m st) (x : List α) :
    C2DWf S hasMask n m (c2dStep S st x).2 :=
  c2dStep_wf_aux S hasMask n m hc st hw x

/-- **repeatability**: whatever two (reachable) states the object is in, the same pose gets the
same value -/
theorem score_indep_of_history {α β : Type} (S : C2DStatic α β) (hasMask : Bool) (n m : Nat)
    (hc : C2DContract S n m) (st st' : C2DState α) (hw : C2DWf S hasMask n m st)
    (hw' : C2DWf S hasMask n m st') (x : List α) :
    (c2dStep S st x).1 = (c2dStep S st' x).1 := by
  rw [c2dStep_value S hasMask n m hc st hw, c2dStep_value S hasMask n m hc st' hw']

/-- along any history of poses every returned value is the fresh-object value of its pose -/
theorem c2dRun_values {α β : Type} (S : C2DStatic α β) (hasMask : Bool) (n m : Nat)
    (hc : C2DContract S n m) (xs : List (List α)) :
    ∀ (st : C2DState α), C2DWf S hasMask n m st →
      (c2dRun S st xs).1 = xs.map (c2dPure S hasMask) := by
  induction xs with
  | nil => intro st _; rfl
  | cons x xs ih =>
    intro st hw
    have hv := c2dStep_value S hasMask n m hc st hw x
    have hw2 := c2dStep_wf S hasMask n m hc st hw x
    have := ih (c2dStep S st x).2 hw2
    simp only [c2dRun, List.map_cons]
    rw [this, hv]

/-! ### non-vacuity (coordinate scores) -/

/-- a token instance (the one the driver executes): kernels return buffers filled with the call's token -/
def exC2D (kind : CallKind) : C2DStatic Nat (List Nat) :=
  { kind := kind
    rigid := fun x => List.replicate 2 (x.headD 0)
    rigidMask := fun x => List.replicate 1 (x.headD 0)
    interp := fun p => p
    denomOf := fun tv => tv.headD 0
    denomPos := fun k => k % 2 == 1
    one := 0
    final := fun tv rot mrot den => tv ++ rot ++ mrot.getD [] ++ [den]
    zero := [] }

/-- non-vacuity: the contract and the invariant hold for a concrete object with a mask … -/
example : C2DContract (exC2D .normalised) 2 1 := ⟨fun _ => by simp [exC2D], fun _ => by simp [exC2D]⟩
example : C2DWf (exC2D .normalised) true 2 1 ⟨[0, 0], some [0], [0, 0], 0⟩ :=
  ⟨rfl, ⟨rfl, rfl⟩, fun h => absurd rfl h⟩
/-- … a three-call history (second call takes the early return) gives the fresh-object values … -/
example : (c2dRun (exC2D .normalised) ⟨[0, 0], some [0], [0, 0], 0⟩ [[1], [2], [3]]).1 =
    [[1, 1, 1, 1, 1, 1], [], [3, 3, 3, 3, 3, 3]] := by decide
/-- … and the invariant is needed: a buffer longer than what the kernel writes keeps a stale cell
that the formula then reads (two states, same pose, different values) -/
example : (c2dStep (exC2D .generic) ⟨[7, 7, 7], none, [], 0⟩ [1]).1 ≠
    (c2dStep (exC2D .generic) ⟨[8, 8, 8], none, [], 0⟩ [1]).1 := by decide

/-! ## density-to-density score (FLC) -/

theorem d2dInit_wf {α β : Type} (S : D2DStatic α β) (L : Nat) (hc : D2DContract S L)
    (tr go : List α) (ws : List Win) (ht : tr.length = L) :
    D2DWf S L ⟨none, go, tr, S.mask0, ws⟩ :=
  ⟨ht, hc.mask0, fun _ => rfl, fun _ _ h => by simp at h⟩

theorem d2dStep_value {α β : Type} (S : D2DStatic α β) (L : Nat) (hc : D2DContract S L)
    (st : D2DState α) (hw : D2DWf S L st) (x : List α) :
    (d2dStep S st x).1 = d2dPure S x :=
  d2dStep_value_aux S L hc st hw x

theorem d2dStep_wf {α β : Type} (S : D2DStatic α β) (L : Nat) (hc : D2DContract S L)
    (st : D2DState α) (hw : D2DWf S L st) (x : List α) :
    D2DWf S L (d2dStep S st x).2 :=
  d2dStep_wf_aux S L hc st hw x

/-- **repeatability** for the density-to-density score, including the cached grid -/
theorem d2d_score_indep_of_history {α β : Type} (S : D2DStatic α β) (L : Nat) (hc : D2DContract S L)
    (st st' : D2DState α) (hw : D2DWf S L st) (hw' : D2DWf S L st') (x : List α) :
    (d2dStep S st x).1 = (d2dStep S st' x).1 := by
  rw [d2dStep_value S L hc st hw, d2dStep_value S L hc st' hw']

theorem d2dRun_values {α β : Type} (S : D2DStatic α β) (L : Nat) (hc : D2DContract S L)
    (xs : List (List α)) :
    ∀ (st : D2DState α), D2DWf S L st → (d2dRun S st xs).1 = xs.map (d2dPure S) := by
  induction xs with
  | nil => intro st _; rfl
  | cons x xs ih =>
    intro st hw
    have hv := d2dStep_value S L hc st hw x
    have hw2 := d2dStep_wf S L hc st hw x
    have := ih (d2dStep S st x).2 hw2
    simp only [d2dRun, List.map_cons]
    rw [this, hv]

/-- pinned code: with `rotate_mask` the rotated-mask buffer is all zeros after every call, whatever
the mask (hence `n_obs = 0` and a NaN score) -/
theorem d2dStepOld_mask_never_written {α β : Type} (S : D2DStatic α β) (st : D2DState α)
    (x : List α) (h : S.rotateMask = true) :
    (d2dStepOld S st x).2.maskRot = List.replicate st.maskRot.length S.zeroA := by
  simp [d2dStepOld, h, fillWith]

/-! ### non-vacuity (density-to-density score) -/

def exD2D (rotateMask : Bool) : D2DStatic Nat (List Nat × List Win) :=
  { shape := [2, 3], targetShape := [5, 6], rotateMask := rotateMask
    mask0 := List.replicate 6 0, zeroA := 999
    mkGrid := fun s => List.replicate (prodL s * s.length) 1000
    affine := fun x g => List.replicate g.length (x.headD 0)
    interpT := fun p => List.replicate 6 (p.headD 998)
    interpM := fun p => List.replicate 6 (p.headD 998 + 100)
    normalize := fun t _ => t
    voxel := fun x => [(x.headD 0 : Int) - 3, 2]
    final := fun tr mr ws => (tr ++ mr, ws) }

example : D2DContract (exD2D true) 6 :=
  ⟨fun _ _ => by simp [exD2D], fun _ => by simp [exD2D], fun _ => by simp [exD2D], fun _ _ => rfl,
    by simp [exD2D]⟩
example : (d2dRun (exD2D true) ⟨none, [], List.replicate 6 0, List.replicate 6 0, []⟩ [[1], [5]]).1 =
    [d2dPure (exD2D true) [1], d2dPure (exD2D true) [5]] := by decide
/-- the pinned step on the same object: the formula sees a zero mask and the mask inside the template buffer -/
example : (d2dStepOld (exD2D true) ⟨none, [], List.replicate 6 0, List.replicate 6 0, []⟩ [1]).1.1 =
    List.replicate 6 101 ++ List.replicate 6 999 := by decide

/-! ## optimize_match -/

theorem effBounds_length (c : Consts) (m : Method) (bt br : Option (List Bound)) (b : List Bound)
    (ht : ∀ t, bt = some t → t.length = c.ndim) (hr : ∀ r, br = some r → r.length = c.ndim)
    (h : effBounds c m bt br = some b) : b.length = 2 * c.ndim :=
  effBounds_length_aux c m bt br b ht hr h

/-- every effective bound is the user's bound, except `(0,0)` which is widened to `±res` -/
theorem effBounds_widens_by_res (c : Consts) (m : Method) (t r b : List Bound)
    (h : effBounds c m (some t) (some r) = some b) :
    b = (t ++ r).map (fun u => if u = (0, 0) then (-c.res, c.res) else u) := by
  simp only [effBounds, Option.isNone_some, Option.isSome_some, and_false, and_true, if_false,
    Bool.false_eq_true] at h
  simpa using h.symm

/-- no bounds at all stay "unbounded" for the local optimisers; DE always gets bounds -/
theorem effBounds_none (c : Consts) (m : Method) :
    (effBounds c m none none = none ↔ m ≠ .de) := by
  cases m <;> simp [effBounds]

/-- the returned score is never worse (larger) than the start's -/
theorem result_no_worse_than_start (x0 : List Int) (initial : Int) (resX : List Int) (resFun : Int) :
    (optimizeWrap x0 initial resX resFun).2 ≤ initial := by
  unfold optimizeWrap; split <;> simp only <;> omega

/-- the returned pose lies in the bounds when the start and the optimiser's result do -/
theorem result_in_bounds (b : List Bound) (x0 : List Int) (initial : Int) (resX : List Int)
    (resFun : Int) (h0 : inBounds b x0 = true) (hr : inBounds b resX = true) :
    inBounds b (optimizeWrap x0 initial resX resFun).1 = true := by
  unfold optimizeWrap; split <;> assumption

/-- the returned score is the score of the returned pose -/
theorem result_score_consistent (score : List Int → Int) (x0 resX : List Int) :
    (optimizeWrap x0 (score x0) resX (score resX)).2 =
      score (optimizeWrap x0 (score x0) resX (score resX)).1 := by
  unfold optimizeWrap; split <;> rfl

/-- the whole wrapper, for every score function and every optimiser that reports the score of
its result and stays inside the bounds it was given -/
theorem optimizeMatch_sound (c : Consts) (m : Method) (bt br : Option (List Bound))
    (x0 : Option (List Int)) (score : List Int → Int)
    (opt : Option (List Bound) → List Int → List Int × Int)
    (hfun : ∀ b s, (opt b s).2 = score (opt b s).1) :
    let r := optimizeMatch c m bt br x0 score opt
    r.2 = score r.1 ∧ r.2 ≤ score (startPose c x0) ∧
      ∀ b, effBounds c m bt br = some b → inBounds b (startPose c x0) = true →
        inBounds b (opt (some b) (startPose c x0)).1 = true → inBounds b r.1 = true := by
  refine ⟨?_, ?_, ?_⟩
  · simp only [optimizeMatch]; rw [hfun]; exact result_score_consistent _ _ _
  · exact result_no_worse_than_start _ _ _ _
  · intro b hb h0 hr
    simp only [optimizeMatch, hb]
    exact result_in_bounds b _ _ _ _ h0 hr

/-- pinned code: start (7,−7) inside rotation bounds that exclude 0, optimiser result inside the
bounds but worse than the start ⇒ zeros outside the bounds are returned with the worse score -/
theorem optimizeWrapOld_defect :
    let b : List Bound := [(5, 10), (-10, -5)]
    let x0 : List Int := [7, -7]
    let res : List Int := [9, -9]
    inBounds b x0 = true ∧ inBounds b res = true ∧
      inBounds b (optimizeWrapOld x0 (-52) res 0).1 = false ∧
      ¬ (optimizeWrapOld x0 (-52) res 0).2 ≤ -52 := by decide

example : optimizeWrap [7, -7] (-52) [9, -9] 0 = ([7, -7], -52) := by decide
example : optimizeWrap [7, -7] (-52) [9, -9] (-60) = ([9, -9], -60) := by decide
example : effBounds ⟨-1000, 1000, 1, 180, 3⟩ .minimize (some [(1, 3), (1, 3), (0, 0)]) none
    = some [(1, 3), (1, 3), (-1, 1), (-180, 180), (-180, 180), (-180, 180)] := by decide
example : effBounds ⟨-1000, 1000, 1, 180, 3⟩ .de none none
    = some [(-1000, 1000), (-1000, 1000), (-1000, 1000), (-180, 180), (-180, 180), (-180, 180)] := by
  decide

/-! ## rigid alignment recovers rigid motions (everything around the SVD) -/

/-- **Kabsch wrapper**: if the reference is the image `q ↦ q·R + t` of the query (any matrix `R`,
any `t`, any number of points, any field) and the SVD step hands back that `R`, the aligned query
*is* the reference -/
theorem align_recovers {α : Type} [Field α] (R : M3 α) (t : V3 α) (query : List (V3 α))
    (hn : (query.length : α) ≠ 0) :
    alignAll 0 (1 / (query.length : α)) R (query.map (fun q => V3.add (V3.mulM q R) t)) query =
      query.map (fun q => V3.add (V3.mulM q R) t) :=
  alignAll_affine R t query hn

/-- … hence the squared deviation (n·RMSD²) after alignment is exactly 0 -/
theorem align_rmsd_zero {α : Type} [Field α] (R : M3 α) (t : V3 α) (query : List (V3 α))
    (hn : (query.length : α) ≠ 0) :
    sqDev 0 (query.map (fun q => V3.add (V3.mulM q R) t))
      (alignAll 0 (1 / (query.length : α)) R (query.map (fun q => V3.add (V3.mulM q R) t)) query) = 0 := by
  rw [align_recovers R t query hn]; exact sqDev_self _

/-- `rigid_transform` on coordinates is `x ↦ R(x − c) + c + t` with `c` the centroid -/
theorem rigidCoords_spec {α : Type} [Field α] (R : M3 α) (t : V3 α) (pts : List (V3 α))
    (hn : (pts.length : α) ≠ 0) :
    rigidCoords 0 (1 / (pts.length : α)) R t pts =
      pts.map (fun p =>
        V3.add (V3.add (M3.mulV R (V3.sub p (V3.smul (1 / (pts.length : α)) (vsum 0 pts))))
          (V3.smul (1 / (pts.length : α)) (vsum 0 pts))) t) :=
  rigidCoords_eq R t pts hn

/-- a structure moved by `rigid_transform` and aligned back with the rotation `Rᵀ` (row convention of
`align_structures`) reproduces the moved copy exactly -/
theorem rigid_then_align_recovers {α : Type} [Field α] (R : M3 α) (t : V3 α) (pts : List (V3 α))
    (hn : (pts.length : α) ≠ 0) :
    alignAll 0 (1 / (pts.length : α)) (M3.transpose R)
        (rigidCoords 0 (1 / (pts.length : α)) R t pts) pts =
      rigidCoords 0 (1 / (pts.length : α)) R t pts := by
  rw [rigidCoords_spec R t pts hn]
  set c := V3.smul (1 / (pts.length : α)) (vsum 0 pts) with hc
  have hf : (fun p => V3.add (V3.add (M3.mulV R (V3.sub p c)) c) t) =
      (fun q => V3.add (V3.mulM q (M3.transpose R))
        (V3.add (V3.sub c (V3.mulM c (M3.transpose R))) t)) := by
    funext p
    rw [mulV_eq_mulM_transpose, V3.eq_iff]
    simp only [V3.add, V3.sub, V3.mulM, M3.transpose]
    refine ⟨?_, ?_, ?_⟩ <;> ring
  rw [hf]
  exact align_recovers _ _ pts hn

/-- the reflection guard: the rotation built from any SVD factors has non-negative determinant -/
theorem kabschRotation_det_nonneg {α : Type} [CommRing α] [LinearOrder α] [IsStrictOrderedRing α]
    (U Vh : M3 α) : 0 ≤ M3.det (kabschRotation (fun d => decide (d < 0)) U Vh) :=
  kabsch_det_nonneg U Vh

/-- non-vacuity: three non-collinear points, a quarter turn and a shift satisfy the hypotheses -/
example : ((([⟨0, 0, 0⟩, ⟨1, 2, 0⟩, ⟨-1, 0, 2⟩] : List (V3 ℚ)).length : ℚ) ≠ 0) := by norm_num
example := align_rmsd_zero (⟨0, 1, 0, -1, 0, 0, 0, 0, 1⟩ : M3 ℚ) ⟨1, 1, 3⟩
  [⟨0, 0, 0⟩, ⟨1, 2, 0⟩, ⟨-1, 0, 2⟩] (by norm_num)
example : M3.det (kabschRotation (fun d => decide (d < 0)) (⟨1, 0, 0, 0, 1, 0, 0, 0, 1⟩ : M3 Int)
    ⟨0, 1, 0, 1, 0, 0, 0, 0, 1⟩) = 1 := by decide

/-! ## optimum at the generating pose in exact arithmetic -/

/-- Cauchy–Schwarz for the normalised cross-correlation: `⟨v,w⟩² ≤ ⟨v,v⟩⟨w,w⟩`, i.e. the
normalised score of any pose is at most 1 in absolute value … -/
theorem ncc_sq_le {α : Type} [Field α] [LinearOrder α] [IsStrictOrderedRing α] (v w : List α)
    (h : v.length = w.length) : dot 0 v w ^ 2 ≤ dot 0 v v * dot 0 w w :=
  dot_sq_le v w h

/-- … and the generating pose (interpolated values = weights) attains the bound -/
theorem ncc_planted_attains {α : Type} [CommRing α] (w : List α) :
    dot 0 w w ^ 2 = dot 0 w w * dot 0 w w := by ring

/-- the least-squares distance is never negative … -/
theorem plsq_nonneg {α : Type} [CommRing α] [LinearOrder α] [IsStrictOrderedRing α] (v w : List α) :
    0 ≤ plsq 0 v w :=
  plsq_nonneg_aux v w

/-- … and 0 at the generating pose -/
theorem plsq_planted_zero {α : Type} [CommRing α] (w : List α) : plsq 0 w w = 0 :=
  plsq_self w

example := ncc_sq_le ([1, 2, 3] : List ℚ) [3, 2, 1] rfl
example : dot (0 : Int) [1, 2, 3] [3, 2, 1] = 10 ∧ dot (0 : Int) [1, 2, 3] [1, 2, 3] = 14 := by decide
example : plsq (0 : Int) [1, 2, 3] [3, 2, 1] = 8 := by decide

/-! ## several objects evaluated in turn (interleaved histories) -/

/-- generic: if every object's step returns its fresh-object value in each state satisfying an
invariant that the step preserves, then along any schedule over any pool of objects every returned
value is the fresh-object value of (that object, that pose) -/
theorem poolRun_values {ι σ π β : Type} [DecidableEq ι] (step : ι → σ → π → β × σ)
    (fresh : ι → π → β) (inv : ι → σ → Prop)
    (hv : ∀ i s x, inv i s → (step i s x).1 = fresh i x)
    (hp : ∀ i s x, inv i s → inv i (step i s x).2)
    (sched : List (ι × π)) :
    ∀ st : ι → σ, (∀ i, inv i (st i)) →
      (poolRun step st sched).1 = sched.map (fun p => fresh p.1 p.2) := by
  induction sched with
  | nil => intro st _; rfl
  | cons p rest ih =>
    intro st h
    obtain ⟨i, x⟩ := p
    have h' : ∀ j, inv j (if j = i then (step i (st i) x).2 else st j) := by
      intro j
      by_cases hj : j = i
      · subst hj; simpa using hp j (st j) x (h j)
      · simpa [hj] using h j
    simp only [poolRun, List.map_cons]
    rw [ih _ h', hv i (st i) x (h i)]

/-- coordinate scores of any classes / sizes / masks alive together: every value along any
interleaving is the fresh-object value -/
theorem c2dPool_values {α β : Type} (S : Nat → C2DStatic α β) (hasMask : Nat → Bool) (n m : Nat → Nat)
    (hc : ∀ i, C2DContract (S i) (n i) (m i)) (sched : List (Nat × List α)) (st : Nat → C2DState α)
    (hw : ∀ i, C2DWf (S i) (hasMask i) (n i) (m i) (st i)) :
    (poolRun (fun i s x => c2dStep (S i) s x) st sched).1
      = sched.map (fun p => c2dPure (S p.1) (hasMask p.1) p.2) :=
  poolRun_values (fun i s x => c2dStep (S i) s x) (fun i x => c2dPure (S i) (hasMask i) x)
    (fun i s => C2DWf (S i) (hasMask i) (n i) (m i) s)
    (fun i s x h => c2dStep_value (S i) (hasMask i) (n i) (m i) (hc i) s h x)
    (fun i s x h => c2dStep_wf (S i) (hasMask i) (n i) (m i) (hc i) s h x) sched st hw

/-- density scores with templates of any shapes alive together (each with its own cached grid) -/
theorem d2dPool_values {α β : Type} (S : Nat → D2DStatic α β) (L : Nat → Nat)
    (hc : ∀ i, D2DContract (S i) (L i)) (sched : List (Nat × List α)) (st : Nat → D2DState α)
    (hw : ∀ i, D2DWf (S i) (L i) (st i)) :
    (poolRun (fun i s x => d2dStep (S i) s x) st sched).1 = sched.map (fun p => d2dPure (S p.1) p.2) :=
  poolRun_values (fun i s x => d2dStep (S i) s x) (fun i x => d2dPure (S i) x)
    (fun i s => D2DWf (S i) (L i) s)
    (fun i s x h => d2dStep_value (S i) (L i) (hc i) s h x)
    (fun i s x h => d2dStep_wf (S i) (L i) (hc i) s h x) sched st hw

/-- non-vacuity: a normalised and a generic score evaluated in turn -/
example : (poolRun (fun (i : Nat) s x => c2dStep (exC2D (if i = 0 then .normalised else .generic)) s x)
    (fun _ => ⟨[0, 0], some [0], [0, 0], 0⟩) [(0, [1]), (1, [2]), (0, [3]), (1, [2])]).1 =
    [[1, 1, 1, 1, 1, 1], [2, 2, 2, 2, 2, 0], [3, 3, 3, 3, 3, 3], [2, 2, 2, 2, 2, 0]] := by decide

/-! # score formulas (Model/C17Scores.lean): "best at the generating pose", score by score

Every statement is about the executable functions the driver runs (`c17.score.*` ops, compared with the
real classes on integer-voxel inputs).  A template *generated* from the target at positions `P0` has the
weights `w = sampleAll 0 shape T P0`; any other pose that keeps the points on voxels evaluates the formula
on `v = sampleAll 0 shape T P` (zero outside the volume, as `map_coordinates(mode="constant")`). -/

/-! ## sign convention (`negate_score`) -/

/-- `negate_score=True` returns the similarity negated, so the optimiser (which minimises) looks for the
largest similarity; `negate_score=False` returns it as it is.  Multiplying by the sign reverses /
keeps the order: "the planted pose is best" is the same clause under both conventions -/
theorem scoreSign_mul_le {α : Type} [Field α] [LinearOrder α] [IsStrictOrderedRing α] (negate : Bool) (a b : α) :
    a * scoreSign 1 negate ≤ b * scoreSign 1 negate ↔ (if negate then b ≤ a else a ≤ b) := by
  cases negate <;> simp [scoreSign]

/-- the same for the scores that *divide* by the sign (`CrossCorrelation` and its subclasses) -/
theorem scoreSign_div_le {α : Type} [Field α] [LinearOrder α] [IsStrictOrderedRing α] (negate : Bool) (a b : α) :
    a / scoreSign 1 negate ≤ b / scoreSign 1 negate ↔ (if negate then b ≤ a else a ≤ b) := by
  cases negate <;> simp [scoreSign, div_neg]

/-- a similarity that is largest at the planted pose is *best* there under both conventions: smallest
returned value with `negate_score=True`, largest with `negate_score=False` -/
theorem similarity_best_both_conventions {α : Type} [Field α] [LinearOrder α] [IsStrictOrderedRing α]
    (planted other : α) (h : other ≤ planted) :
    planted * scoreSign 1 true ≤ other * scoreSign 1 true ∧
      other * scoreSign 1 false ≤ planted * scoreSign 1 false :=
  ⟨(scoreSign_mul_le true planted other).mpr h, (scoreSign_mul_le false other planted).mpr h⟩

/-- a distance that is smallest at the planted pose: smallest returned value with `negate_score=False`,
largest with `negate_score=True` -/
theorem distance_best_both_conventions {α : Type} [Field α] [LinearOrder α] [IsStrictOrderedRing α]
    (planted other : α) (h : planted ≤ other) :
    planted * scoreSign 1 false ≤ other * scoreSign 1 false ∧
      other * scoreSign 1 true ≤ planted * scoreSign 1 true :=
  ⟨(scoreSign_mul_le false planted other).mpr h, (scoreSign_mul_le true other planted).mpr h⟩

example : scoreSign (1 : Int) true = -1 ∧ scoreSign (1 : Int) false = 1 := by decide
example := similarity_best_both_conventions (14 : ℚ) 10 (by norm_num)

/-! ## sampling -/

/-- outside the volume the interpolated value is 0, inside it is the voxel -/
theorem sample_spec {α : Type} (zero : α) (shape : List Nat) (T : List Int → α) (p : List Int) :
    sample zero shape T p = if inVol shape p then T p else zero := rfl

/-- the pose "translation by `t`" evaluates as many values as the template has points -/
theorem sampleAll_shift_length {α : Type} (zero : α) (shape : List Nat) (T : List Int → α) (t : List Int)
    (P : List (List Int)) : (sampleAll zero shape T (shiftPts t P)).length = P.length := by
  simp [sampleAll, shiftPts]

example : sampleAll (0 : Int) [4] (fun p => [1, 3, 0, 2].getD (p.headD 0).toNat 0) (shiftPts [2] [[-1], [0], [1], [2]])
    = [3, 0, 2, 0] := by decide

/-! ## CrossCorrelation -/

/-- value at the generating pose: `Σ w² / sign` -/
theorem cc_planted_value {α : Type} [Field α] (sign : α) (shape : List Nat) (T : List Int → α)
    (P0 : List (List Int)) :
    ccScore 0 1 sign (sampleAll 0 shape T P0) (sampleAll 0 shape T P0) =
      dot 0 (sampleAll 0 shape T P0) (sampleAll 0 shape T P0) / sign := by
  simp [ccScore]

/-- **what holds for the unnormalised cross-correlation**: the generating pose is at least as good as
every pose (positions anywhere, inside or outside the volume) whose sampled values have no larger
Euclidean norm than the template's weights (Cauchy–Schwarz) … -/
theorem cc_planted_best_of_norm_le {α : Type} [Field α] [LinearOrder α] [IsStrictOrderedRing α]
    (shape : List Nat) (T : List Int → α) (P0 P : List (List Int)) (h : P.length = P0.length)
    (hn : dot 0 (sampleAll 0 shape T P) (sampleAll 0 shape T P) ≤
      dot 0 (sampleAll 0 shape T P0) (sampleAll 0 shape T P0)) :
    ccScore 0 1 1 (sampleAll 0 shape T P) (sampleAll 0 shape T P0) ≤
      ccScore 0 1 1 (sampleAll 0 shape T P0) (sampleAll 0 shape T P0) := by
  simp only [ccScore, mul_one, div_one]
  exact dot_le_of_norm_le _ _ (by simp [sampleAll, h]) hn

/-- … and in absolute value too: `|⟨v,w⟩| ≤ ⟨w,w⟩` -/
theorem cc_abs_le_of_norm_le {α : Type} [Field α] [LinearOrder α] [IsStrictOrderedRing α]
    (v w : List α) (h : v.length = w.length) (hn : dot 0 v v ≤ dot 0 w w) :
    -(dot 0 w w) ≤ dot 0 v w ∧ dot 0 v w ≤ dot 0 w w := by
  refine ⟨?_, dot_le_of_norm_le v w h hn⟩
  have h1 := dot_sq_le v w h
  have h2 := dot_self_nonneg w
  by_contra hc
  have hc' : dot 0 v w < -(dot 0 w w) := not_le.mp hc
  have : dot 0 w w * dot 0 w w < (-(dot 0 v w)) * (-(dot 0 v w)) := mul_self_lt_mul_self h2 (by linarith)
  nlinarith [mul_le_mul_of_nonneg_right hn h2]

/-- without the norm condition the clause is false for this score (which is why the harness only scales
the intensities for it): a one-point template cut from the voxel of value 1 scores 3 one voxel further -/
theorem cc_planted_not_best_without_norm_bound :
    let T : List Int → Int := fun p => [1, 3].getD (p.headD 0).toNat 0
    let w := sampleAll 0 [2] T [[0]]
    ccScore 0 1 1 (sampleAll 0 [2] T [[0]]) w = 1 ∧
      ccScore 0 1 1 (sampleAll 0 [2] T (shiftPts [1] [[0]])) w = 3 := by decide

example : dot (0 : ℚ) [1, 2] [1, 2] ≤ dot 0 [2, 2] [2, 2] := by norm_num [dot]

/-! ## NormalizedCrossCorrelation -/

/-- Cauchy–Schwarz on what the code evaluates: for *any* positions — in the volume, partly outside
(zeros) or wholly outside — numerator² ≤ denominator² … -/
theorem ncc_sampled_sq_le {α : Type} [Field α] [LinearOrder α] [IsStrictOrderedRing α]
    (shape : List Nat) (T : List Int → α) (P : List (List Int)) (w : List α) (h : P.length = w.length) :
    (nccParts 0 (sampleAll 0 shape T P) w).1 ^ 2 ≤ (nccParts 0 (sampleAll 0 shape T P) w).2 := by
  simp only [nccParts]
  rw [mul_comm]
  exact dot_sq_le _ _ (by simp [sampleAll, h])

/-- … so the value `numerator / √denominator²` of every pose lies in [−1, 1] (`s` is the square root:
any positive `s` with `s² = denominator²`, in any ordered field that has it) … -/
theorem ncc_value_le_one {α : Type} [Field α] [LinearOrder α] [IsStrictOrderedRing α]
    (v w : List α) (h : v.length = w.length) (s : α) (hs : 0 < s) (hsq : s ^ 2 = (nccParts 0 v w).2) :
    -1 ≤ (nccParts 0 v w).1 / s ∧ (nccParts 0 v w).1 / s ≤ 1 := by
  have hb : (nccParts 0 v w).1 ^ 2 ≤ (nccParts 0 v w).2 := by
    simp only [nccParts]; rw [mul_comm]; exact dot_sq_le v w h
  exact ⟨neg_one_le_div_root _ _ s hs hsq hb, div_root_le_one _ _ s hs hsq hb⟩

/-- … the generating pose (values = weights, not all zero) has the value exactly 1 … -/
theorem ncc_planted_value_one {α : Type} [Field α] [LinearOrder α] [IsStrictOrderedRing α]
    (w : List α) (hw : 0 < dot 0 w w) (s : α) (hs : 0 < s) (hsq : s ^ 2 = (nccParts 0 w w).2) :
    (nccParts 0 w w).1 / s = 1 :=
  div_root_self _ s hw hs hsq

/-- … hence **the generating pose is best** for the normalised cross-correlation, against every other
pose that passes the `denominator <= 0` guard … -/
theorem ncc_planted_best {α : Type} [Field α] [LinearOrder α] [IsStrictOrderedRing α]
    (v w : List α) (h : v.length = w.length) (hw : 0 < dot 0 w w)
    (s sp : α) (hs : 0 < s) (hsq : s ^ 2 = (nccParts 0 v w).2)
    (hsp : 0 < sp) (hspq : sp ^ 2 = (nccParts 0 w w).2) :
    (nccParts 0 v w).1 / s ≤ (nccParts 0 w w).1 / sp := by
  rw [ncc_planted_value_one w hw sp hsp hspq]
  exact (ncc_value_le_one v w h s hs hsq).2

/-- … and against the poses that do not: the guard fires exactly when the weights or the sampled values
vanish (template wholly outside the volume), the value returned is then 0 ≤ 1 -/
theorem ncc_guard_iff {α : Type} [Field α] [LinearOrder α] [IsStrictOrderedRing α] (v w : List α) :
    nccGuard 0 v w = true ↔ dot 0 w w = 0 ∨ dot 0 v v = 0 := by
  unfold nccGuard nccParts
  rw [decide_eq_true_iff]
  have h1 := dot_self_nonneg v
  have h2 := dot_self_nonneg w
  constructor
  · intro h
    have : dot 0 w w * dot 0 v v = 0 := le_antisymm h (mul_nonneg h2 h1)
    exact mul_eq_zero.mp this
  · rintro (h | h) <;> simp [h]

example : nccParts (0 : Int) [1, 2, 3] [3, 2, 1] = (10, 196) := by decide
example : nccGuard (0 : Int) [0, 0] [3, 1] = true ∧ nccGuard (0 : Int) [0, 1] [3, 1] = false := by decide
example := ncc_planted_best ([3, 4] : List ℚ) [4, 3] rfl (by norm_num [dot]) 25 25 (by norm_num)
  (by norm_num [nccParts, dot]) (by norm_num) (by norm_num [nccParts, dot])

/-! ## NormalizedCrossCorrelationMean: the two different means make the planted pose non-optimal -/

/-- recorded finding `planted-best:NormalizedCrossCorrelationMean`, on the model: target `[0,0,1,2]`,
template cut at cells 0..2 (weights `[0,0,1]`).  The constructor subtracts the mean of the *whole map*
(3/4) from the target and the mean of the *weights* (1/3) from the template: at the generating pose the
two vectors are not proportional (value² = 96/171 < 1), one voxel further the value is larger
(value² = 24/35); both numerators are positive -/
theorem nccMean_planted_not_best :
    let T : List Int → Rat := fun p => ([0, 0, 1, 2] : List Rat).getD (p.headD 0).toNat 0
    let cells : List (List Int) := [[0], [1], [2], [3]]
    let P0 : List (List Int) := [[0], [1], [2]]
    let w := centreWeights 0 (1 / 3) (sampleAll 0 [4] T P0)
    let T' := centreTarget 0 (1 / 4) cells T
    let planted := nccParts 0 (sampleAll 0 [4] T' P0) w
    let moved := nccParts 0 (sampleAll 0 [4] T' (shiftPts [1] P0)) w
    planted = (2 / 3, 19 / 24) ∧ moved = (1, 35 / 24) ∧
      planted.1 ^ 2 < planted.2 ∧ 0 < planted.1 ∧ 0 < moved.1 ∧
      planted.1 ^ 2 * moved.2 < moved.1 ^ 2 * planted.2 := by decide +kernel

/-- the corrected definition (the *same* offset on both sides: here none, i.e. plain NCC on the centred
weights against values centred by the same mean) is covered by `ncc_planted_best`; with the code's two
means the planted vectors differ by the constant `mean(target) − mean(weights)` -/
theorem nccMean_planted_offset {α : Type} [Field α] (muT muW : α) (w : List α) :
    List.zipWith (· - ·) (w.map (· - muT)) (w.map (· - muW)) = w.map (fun _ => muW - muT) := by
  induction w with
  | nil => rfl
  | cons a w ih => simp only [List.map_cons, List.zipWith_cons_cons, ih]; congr 1; ring

example : centreWeights (0 : Rat) (1 / 3) [0, 0, 1] = [-1 / 3, -1 / 3, 2 / 3] := by decide +kernel

/-! ## PartialLeastSquareDifference -/

/-- the distance vanishes *exactly* at a copy -/
theorem plsq_eq_zero_iff {α : Type} [Field α] [LinearOrder α] [IsStrictOrderedRing α] (v w : List α)
    (h : v.length = w.length) : plsq 0 v w = 0 ↔ v = w :=
  ⟨plsq_eq_zero v w h, fun e => e ▸ plsq_self w⟩

/-- **best at the generating pose** (a distance: smallest), against every position set -/
theorem plsq_planted_best {α : Type} [Field α] [LinearOrder α] [IsStrictOrderedRing α]
    (shape : List Nat) (T : List Int → α) (P0 P : List (List Int)) :
    plsq 0 (sampleAll 0 shape T P0) (sampleAll 0 shape T P0) ≤
      plsq 0 (sampleAll 0 shape T P) (sampleAll 0 shape T P0) := by
  rw [plsq_self]; exact plsq_nonneg_aux _ _

example : plsq (0 : Int) [1, 2] [1, 2] = 0 ∧ plsq (0 : Int) [1, 3] [1, 2] = 1 := by decide

/-! ## Envelope -/

/-- the `-1` coding cancels: for interpolated values in {−1, 0, 1} the raw score is
`#(points on empty voxels) − 2·#(points outside the volume) − present`; the number of points *inside*
the envelope does not enter at all -/
theorem envRaw_eq (present : Int) (v : List Int) (hv : ∀ x ∈ v, x = -1 ∨ x = 0 ∨ x = 1) :
    envRaw present v = cnt 1 v - 2 * cnt 0 v - present := by
  have := sumI_add_cnt v hv
  unfold envRaw; omega

/-- the normalisation is a positive affine map (denominator `3·present + 2·absent`) -/
theorem envelopeParts_eq (present absent : Int) (v : List Int) (hv : ∀ x ∈ v, x = -1 ∨ x = 0 ∨ x = 1) :
    envelopeParts present absent v =
      (cnt 1 v - 2 * cnt 0 v + present + 4 * absent, 3 * present + 2 * absent) := by
  simp only [envelopeParts, envRaw_eq present v hv, Prod.mk.injEq]
  constructor <;> omega

/-- **every outward move improves** (`negate_score=True`: larger is better): moving one point from
inside the envelope (−1) onto an empty voxel (+1) raises the numerator by exactly 1 -/
theorem envelope_outward_move_improves (present absent : Int) (l r : List Int)
    (hl : ∀ x ∈ l, x = -1 ∨ x = 0 ∨ x = 1) (hr : ∀ x ∈ r, x = -1 ∨ x = 0 ∨ x = 1) :
    (envelopeParts present absent (l ++ 1 :: r)).1 = (envelopeParts present absent (l ++ -1 :: r)).1 + 1 ∧
      (envelopeParts present absent (l ++ 1 :: r)).2 = (envelopeParts present absent (l ++ -1 :: r)).2 := by
  have h1 : ∀ x ∈ l ++ 1 :: r, x = -1 ∨ x = 0 ∨ x = 1 := by
    intro x hx; rcases List.mem_append.mp hx with h | h
    · exact hl x h
    · rcases List.mem_cons.mp h with h | h
      · exact Or.inr (Or.inr h)
      · exact hr x h
  have h2 : ∀ x ∈ l ++ -1 :: r, x = -1 ∨ x = 0 ∨ x = 1 := by
    intro x hx; rcases List.mem_append.mp hx with h | h
    · exact hl x h
    · rcases List.mem_cons.mp h with h | h
      · exact Or.inl h
      · exact hr x h
  rw [envelopeParts_eq _ _ _ h1, envelopeParts_eq _ _ _ h2]
  simp only [cnt_append, cnt_cons]
  constructor
  · simp
    omega
  · trivial

/-- the generating pose (all points inside the envelope) is the **worst** pose that keeps the template
in the volume under `negate_score=True` … -/
theorem envelope_planted_worst_in_volume (present absent : Int) (n : Nat) (u : List Int)
    (hu : ∀ x ∈ u, x = -1 ∨ x = 1) (_hlen : u.length = n) :
    (envelopeParts present absent (List.replicate n (-1))).1 ≤ (envelopeParts present absent u).1 := by
  have h1 : ∀ x ∈ List.replicate n (-1 : Int), x = -1 ∨ x = 0 ∨ x = 1 := by
    intro x hx; exact Or.inl (List.eq_of_mem_replicate hx)
  have h2 : ∀ x ∈ u, x = -1 ∨ x = 0 ∨ x = 1 := by
    intro x hx; rcases hu x hx with h | h
    · exact Or.inl h
    · exact Or.inr (Or.inr h)
  rw [envelopeParts_eq _ _ _ h1, envelopeParts_eq _ _ _ h2]
  have c0 : cnt 0 u = 0 := by
    unfold cnt
    have : List.count 0 u = 0 := List.count_eq_zero.mpr (fun h => by rcases hu 0 h with h | h <;> omega)
    omega
  have c1 : cnt 1 (List.replicate n (-1 : Int)) = 0 := by unfold cnt; simp [List.count_replicate]
  have c2 : cnt 0 (List.replicate n (-1 : Int)) = 0 := by unfold cnt; simp [List.count_replicate]
  have := cnt_nonneg 1 u
  simp only [c0, c1, c2]
  omega

/-- … and with `negate_score=False` (smaller is better) every point pushed *out of the volume* (value 0)
lowers the numerator by 2: the planted pose is not best under that convention either -/
theorem envelope_out_of_volume_lowers (present absent : Int) (l r : List Int)
    (hl : ∀ x ∈ l, x = -1 ∨ x = 0 ∨ x = 1) (hr : ∀ x ∈ r, x = -1 ∨ x = 0 ∨ x = 1) :
    (envelopeParts present absent (l ++ 0 :: r)).1 = (envelopeParts present absent (l ++ -1 :: r)).1 - 2 := by
  have h1 : ∀ x ∈ l ++ 0 :: r, x = -1 ∨ x = 0 ∨ x = 1 := by
    intro x hx; rcases List.mem_append.mp hx with h | h
    · exact hl x h
    · rcases List.mem_cons.mp h with h | h
      · exact Or.inr (Or.inl h)
      · exact hr x h
  have h2 : ∀ x ∈ l ++ -1 :: r, x = -1 ∨ x = 0 ∨ x = 1 := by
    intro x hx; rcases List.mem_append.mp hx with h | h
    · exact hl x h
    · rcases List.mem_cons.mp h with h | h
      · exact Or.inl h
      · exact hr x h
  rw [envelopeParts_eq _ _ _ h1, envelopeParts_eq _ _ _ h2]
  simp only [cnt_append, cnt_cons]
  simp
  omega

/-- recorded finding `planted-best:Envelope:identity` on the model: target `[0,0,5,5,0,0]`, threshold 2
(codes `[1,1,−1,−1,1,1]`, present 2, absent 4), template = the two envelope voxels.  Planted value 18/14,
shifted by one voxel 19/14, by two voxels 20/14 (better and better under `negate_score=True`), shifted
out of the volume 14/14 (better under `negate_score=False`) -/
theorem envelope_current_defect :
    let code : List Int → Int := fun p => envCode (2 : Int) (([0, 0, 5, 5, 0, 0] : List Int).getD (p.headD 0).toNat 0)
    let P0 : List (List Int) := [[2], [3]]
    let at_ := fun (t : Int) => envelopeParts 2 4 (sampleAll 0 [6] code (shiftPts [t] P0))
    at_ 0 = (18, 14) ∧ at_ 1 = (19, 14) ∧ at_ 2 = (20, 14) ∧ at_ 5 = (14, 14) := by decide

example : envRaw 2 [-1, -1] = -2 ∧ envRaw 2 [1, 1] = 0 ∧ envRaw 2 [0, 0] = -6 := by decide

/-! ## Chamfer -/

/-- nearest-neighbour distances are never negative … -/
theorem chamfer_nonneg {α : Type} [Field α] [LinearOrder α] [IsStrictOrderedRing α]
    (P : List (List α)) (q0 : List α) (qs : List (List α)) : ∀ d ∈ chamferSqs 0 P q0 qs, 0 ≤ d := by
  intro d hd
  obtain ⟨p, _, rfl⟩ := List.mem_map.mp hd
  obtain ⟨q, _, he⟩ := nnSq_attained p q0 qs
  rw [he]; exact plsq_nonneg_aux _ _

/-- … the nearest-neighbour distance of a point is 0 exactly when it coincides with a target point … -/
theorem nnSq_eq_zero_iff {α : Type} [Field α] [LinearOrder α] [IsStrictOrderedRing α]
    (p q0 : List α) (qs : List (List α)) (hd : ∀ q ∈ q0 :: qs, p.length = q.length) :
    nnSq 0 p q0 qs = 0 ↔ p ∈ q0 :: qs := by
  constructor
  · intro h
    obtain ⟨q, hq, he⟩ := nnSq_attained p q0 qs
    have : p = q := plsq_eq_zero p q (hd q hq) (he ▸ h)
    exact this ▸ hq
  · intro h
    have h1 := nnSq_le_of_mem p q0 qs p h
    rw [plsq_self] at h1
    obtain ⟨q, _, he⟩ := nnSq_attained p q0 qs
    have h2 : 0 ≤ nnSq 0 p q0 qs := he ▸ plsq_nonneg_aux _ _
    exact le_antisymm h1 h2

/-- … so **the score is 0 iff every template point coincides with a target point** (in particular at the
generating pose of a rigidly moved point set, where it is the minimum by `chamfer_nonneg`) … -/
theorem chamfer_zero_iff {α : Type} [Field α] [LinearOrder α] [IsStrictOrderedRing α]
    (P : List (List α)) (q0 : List α) (qs : List (List α))
    (hd : ∀ p ∈ P, ∀ q ∈ q0 :: qs, p.length = q.length) :
    (∀ d ∈ chamferSqs 0 P q0 qs, d = 0) ↔ ∀ p ∈ P, p ∈ q0 :: qs := by
  constructor
  · intro h p hp
    exact (nnSq_eq_zero_iff p q0 qs (hd p hp)).mp (h _ (List.mem_map.mpr ⟨p, hp, rfl⟩))
  · intro h d hdm
    obtain ⟨p, hp, rfl⟩ := List.mem_map.mp hdm
    exact (nnSq_eq_zero_iff p q0 qs (hd p hp)).mpr (h p hp)

/-- … and it is monotone in the target: with more target points (any superset, in any order) no
nearest-neighbour distance grows -/
theorem nnSq_mono_target {α : Type} [Field α] [LinearOrder α] [IsStrictOrderedRing α]
    (p q0 r0 : List α) (qs rs : List (List α)) (hsub : ∀ q ∈ q0 :: qs, q ∈ r0 :: rs) :
    nnSq 0 p r0 rs ≤ nnSq 0 p q0 qs := by
  obtain ⟨q, hq, he⟩ := nnSq_attained p q0 qs
  rw [he]
  exact nnSq_le_of_mem p r0 rs q (hsub q hq)

example : chamferSqs (0 : Int) [[0, 0], [3, 4]] [0, 0] [[3, 3], [5, 5]] = [0, 1] := by decide
example : chamferSqs (0 : Int) [[0, 0], [3, 4]] [0, 0] [[3, 4], [3, 3], [5, 5]] = [0, 0] := by decide

/-! ## NormalVectorScore -/

/-- `mean(A∘B)/(‖A‖‖B‖)` is a normalised cross-correlation of the flattened coordinate arrays divided by
the number of entries: numerator² ≤ denominator² for every pose … -/
theorem nvs_sq_le {α : Type} [Field α] [LinearOrder α] [IsStrictOrderedRing α] (A B : List (List α))
    (h : A.flatten.length = B.flatten.length) : (nvsParts 0 A B).1 ^ 2 ≤ (nvsParts 0 A B).2.1 := by
  simp only [nvsParts]
  exact dot_sq_le _ _ h

/-- … with equality, and a non-negative numerator, at the generating pose (template = target):
the value there is `1/(d·n)`, the maximum -/
theorem nvs_planted {α : Type} [Field α] [LinearOrder α] [IsStrictOrderedRing α] (A : List (List α)) :
    (nvsParts 0 A A).1 ^ 2 = (nvsParts 0 A A).2.1 ∧ 0 ≤ (nvsParts 0 A A).1 := by
  simp only [nvsParts]
  exact ⟨by ring, dot_self_nonneg _⟩

theorem nvs_planted_best {α : Type} [Field α] [LinearOrder α] [IsStrictOrderedRing α] (A B : List (List α))
    (h : A.flatten.length = B.flatten.length) (hB : 0 < dot 0 B.flatten B.flatten)
    (s sp : α) (hs : 0 < s) (hsq : s ^ 2 = (nvsParts 0 A B).2.1)
    (hsp : 0 < sp) (hspq : sp ^ 2 = (nvsParts 0 B B).2.1) :
    (nvsParts 0 A B).1 / s ≤ (nvsParts 0 B B).1 / sp := by
  have h1 : (nvsParts 0 B B).1 / sp = 1 := div_root_self _ sp hB hsp (by simpa [nvsParts] using hspq)
  rw [h1]
  exact div_root_le_one _ _ s hs hsq (nvs_sq_le A B h)

example : nvsParts (0 : Int) [[1, 0], [0, 1], [2, 2]] [[0, 1], [1, 0], [2, 2]] = (8, 100, 6) := by decide

/-! ## MaskedCrossCorrelation -/

/-- **with exact integer coordinates and one common mask** (template cells = mask cells, all in the
volume and in the target mask, so that the overlap count is the number of points): the formula is the
Pearson correlation of the sampled values with the weights — numerator² ≤ denominator1·denominator2 … -/
theorem mccCore_sq_le {α : Type} [Field α] [LinearOrder α] [IsStrictOrderedRing α] (v w : List α)
    (h : v.length = w.length) (hn : (v.length : α) ≠ 0) :
    (mccCore 0 (v.length : α) v w v w).1 ^ 2 ≤
      (mccCore 0 (v.length : α) v w v w).2.1 * (mccCore 0 (v.length : α) v w v w).2.2 := by
  have e1 := dot_centred_mean v v rfl hn
  have e2 := dot_centred_mean v w h hn
  have e3 := dot_centred_mean w w rfl (h ▸ hn)
  rw [← h] at e3
  have n1 := dot_self_nonneg (v.map (· - sumL 0 v / (v.length : α)))
  have n3 := dot_self_nonneg (w.map (· - sumL 0 w / (v.length : α)))
  have cs := dot_sq_le (v.map (· - sumL 0 v / (v.length : α))) (w.map (· - sumL 0 w / (v.length : α)))
    (by simp [h])
  simp only [mccCore]
  rw [← e1, ← e2, ← e3, max_eq_left n1, max_eq_left n3]
  exact cs

/-- … with equality and a non-negative numerator at the generating pose (values = weights): value 1 -/
theorem mccCore_planted {α : Type} [Field α] [LinearOrder α] [IsStrictOrderedRing α] (w : List α)
    (hn : (w.length : α) ≠ 0) :
    (mccCore 0 (w.length : α) w w w w).1 ^ 2 =
      (mccCore 0 (w.length : α) w w w w).2.1 * (mccCore 0 (w.length : α) w w w w).2.2 ∧
      0 ≤ (mccCore 0 (w.length : α) w w w w).1 := by
  have e1 := dot_centred_mean w w rfl hn
  have n1 := dot_self_nonneg (w.map (· - sumL 0 w / (w.length : α)))
  simp only [mccCore]
  rw [← e1, max_eq_left n1]
  exact ⟨by ring, n1⟩

/-- recorded finding `planted-best:MaskedCrossCorrelation:identity/moved` (the `astype(int)` truncation):
target `[0,1,3,2,0,0]`, template cut at cells 1..3.  With exact integer coordinates the planted parts are
(2, 2, 2) — value 1; with each coordinate 5·10⁻⁷ below the integer (what float32 rigid_transform returns)
every point is looked up one voxel to the left: (1, 14/3, 2) — value² = 3/28 -/
theorem mcc_truncation_defect :
    let T : List Int → Rat := fun p => ([0, 1, 3, 2, 0, 0] : List Rat).getD (p.headD 0).toNat 0
    let M : List Int → Rat := fun _ => 1
    let P0 : List (List Int) := [[1], [2], [3]]
    let w := sampleAll 0 [6] T P0
    let exact := P0.map asRatio
    let rounded : List (List (Int × Nat)) := P0.map (fun p => p.map (fun a => (a * 10000000 - 5, 10000000)))
    mccParts 0 (1 / 4503599627370496) [6] T M exact exact w = (2, 2, 2) ∧
      mccParts 0 (1 / 4503599627370496) [6] T M rounded rounded w = (1, 14 / 3, 2) := by decide +kernel

/-- recorded finding `planted-best:MaskedCrossCorrelation:moved+0.001` (overlap counted from the target
mask alone, the sums over all in-volume cells): target `[2,3,0,1]`, target mask `[0,1,1,1]`, template cut at
cells 1..3 (planted parts (14/3, 14/3, 14/3): value 1).  One voxel to the left a template point sits on a
voxel outside the target mask: parts (7/2, 1/2, 1/2) — value 7, outside [−1, 1] and better than planted -/
theorem mcc_overlap_defect :
    let T : List Int → Rat := fun p => ([2, 3, 0, 1] : List Rat).getD (p.headD 0).toNat 0
    let M : List Int → Rat := fun p => ([0, 1, 1, 1] : List Rat).getD (p.headD 0).toNat 0
    let P0 : List (List Int) := [[1], [2], [3]]
    let w := sampleAll 0 [4] T P0
    let at_ := fun (t : Int) => mccParts 0 (1 / 4503599627370496) [4] T M
      ((shiftPts [t] P0).map asRatio) ((shiftPts [t] P0).map asRatio) w
    at_ 0 = (14 / 3, 14 / 3, 14 / 3) ∧ at_ (-1) = (7 / 2, 1 / 2, 1 / 2) ∧
      (at_ (-1)).2.1 * (at_ (-1)).2.2 < (at_ (-1)).1 ^ 2 := by decide +kernel

example := mccCore_sq_le ([1, 3, 2] : List ℚ) [2, 3, 1] rfl (by norm_num)

/-- the link to the function the driver runs: **exact integer coordinates** (as ratios `a/1`), mask
coordinates = template coordinates, every point in the volume and on a voxel of the target mask: both
in-volume filters keep everything, `astype(int)` is the identity, the overlap count is the number of
points, and `mccParts` *is* `mccCore` on (sampled values, weights) -/
theorem mccParts_integer {α : Type} [Field α] [LinearOrder α] [IsStrictOrderedRing α]
    (eps : α) (shape : List Nat) (T M : List Int → α) (P : List (List Int)) (w : List α)
    (hin : ∀ p ∈ P, inVol shape p = true) (hM : ∀ p ∈ P, M p = 1) (hlen : P.length = w.length)
    (heps : eps ≤ (P.length : α)) :
    mccParts 0 eps shape T M (P.map asRatio) (P.map asRatio) w =
      mccCore 0 (P.length : α) (P.map T) w (P.map T) w :=
  mccParts_integer_aux eps shape T M P w hin hM hlen heps

/-- **MaskedCrossCorrelation under exact integer coordinates**: every such pose has
numerator² ≤ denominator1·denominator2 (|value| ≤ 1) … -/
theorem mcc_integer_sq_le {α : Type} [Field α] [LinearOrder α] [IsStrictOrderedRing α]
    (eps : α) (shape : List Nat) (T M : List Int → α) (P : List (List Int)) (w : List α)
    (hin : ∀ p ∈ P, inVol shape p = true) (hM : ∀ p ∈ P, M p = 1) (hlen : P.length = w.length)
    (heps : eps ≤ (P.length : α)) (hn : (P.length : α) ≠ 0) :
    (mccParts 0 eps shape T M (P.map asRatio) (P.map asRatio) w).1 ^ 2 ≤
      (mccParts 0 eps shape T M (P.map asRatio) (P.map asRatio) w).2.1 *
        (mccParts 0 eps shape T M (P.map asRatio) (P.map asRatio) w).2.2 := by
  rw [mccParts_integer eps shape T M P w hin hM hlen heps]
  have hl : ((P.map T).length : α) = (P.length : α) := by simp
  have := mccCore_sq_le (P.map T) w (by simpa using hlen) (by rw [hl]; exact hn)
  rwa [hl] at this

/-- … and the generating pose (weights = target at the template's voxels) attains the bound with a
non-negative numerator: value 1, the best possible -/
theorem mcc_integer_planted {α : Type} [Field α] [LinearOrder α] [IsStrictOrderedRing α]
    (eps : α) (shape : List Nat) (T M : List Int → α) (P : List (List Int))
    (hin : ∀ p ∈ P, inVol shape p = true) (hM : ∀ p ∈ P, M p = 1)
    (heps : eps ≤ (P.length : α)) (hn : (P.length : α) ≠ 0) :
    (mccParts 0 eps shape T M (P.map asRatio) (P.map asRatio) (P.map T)).1 ^ 2 =
      (mccParts 0 eps shape T M (P.map asRatio) (P.map asRatio) (P.map T)).2.1 *
        (mccParts 0 eps shape T M (P.map asRatio) (P.map asRatio) (P.map T)).2.2 ∧
      0 ≤ (mccParts 0 eps shape T M (P.map asRatio) (P.map asRatio) (P.map T)).1 := by
  rw [mccParts_integer eps shape T M P (P.map T) hin hM (by simp) heps]
  have hl : ((P.map T).length : α) = (P.length : α) := by simp
  have := mccCore_planted (P.map T) (by rw [hl]; exact hn)
  rwa [hl] at this

/-- the same link for poses that push **any part of the template out of the volume** (integer
coordinates, mask coordinates = template coordinates, target mask 1 wherever an in-volume point lands):
both filters keep exactly the in-volume points and `mccParts` is `mccCore` on those -/
theorem mccParts_integer_partial {α : Type} [Field α] [LinearOrder α] [IsStrictOrderedRing α]
    (eps : α) (shape : List Nat) (T M : List Int → α) (P : List (List Int)) (w : List α)
    (hM : ∀ p ∈ P, inVol shape p = true → M p = 1) (hlen : P.length = w.length) :
    mccParts 0 eps shape T M (P.map asRatio) (P.map asRatio) w =
      mccCore 0 (max (((P.zip w).filter (fun pw => inVol shape pw.1)).length : α) eps)
        (((P.zip w).filter (fun pw => inVol shape pw.1)).map (fun pw => T pw.1))
        (((P.zip w).filter (fun pw => inVol shape pw.1)).map (·.2))
        (((P.zip w).filter (fun pw => inVol shape pw.1)).map (fun pw => T pw.1))
        (((P.zip w).filter (fun pw => inVol shape pw.1)).map (·.2)) :=
  mccParts_integer_partial_aux eps shape T M P w hM hlen

/-- hence, with a target mask that covers the volume, **every** pose on the voxel grid with at least one
point inside the volume has |value| ≤ 1 (the out-of-range values of the recorded findings need a target
mask that cuts the template, separate mask coordinates or truncated coordinates); together with
`mcc_integer_planted` the generating pose is best among all of them … -/
theorem mcc_integer_any_pose_sq_le {α : Type} [Field α] [LinearOrder α] [IsStrictOrderedRing α]
    (eps : α) (shape : List Nat) (T M : List Int → α) (P : List (List Int)) (w : List α)
    (hM : ∀ p ∈ P, inVol shape p = true → M p = 1) (hlen : P.length = w.length)
    (heps : eps ≤ (((P.zip w).filter (fun pw => inVol shape pw.1)).length : α))
    (hk : (((P.zip w).filter (fun pw => inVol shape pw.1)).length : α) ≠ 0) :
    (mccParts 0 eps shape T M (P.map asRatio) (P.map asRatio) w).1 ^ 2 ≤
      (mccParts 0 eps shape T M (P.map asRatio) (P.map asRatio) w).2.1 *
        (mccParts 0 eps shape T M (P.map asRatio) (P.map asRatio) w).2.2 := by
  rw [mccParts_integer_partial eps shape T M P w hM hlen, max_eq_left heps]
  have hl : ((((P.zip w).filter (fun pw => inVol shape pw.1)).map (fun pw => T pw.1)).length : α) =
      (((P.zip w).filter (fun pw => inVol shape pw.1)).length : α) := by simp
  have := mccCore_sq_le (((P.zip w).filter (fun pw => inVol shape pw.1)).map (fun pw => T pw.1))
    (((P.zip w).filter (fun pw => inVol shape pw.1)).map (·.2)) (by simp) (by rw [hl]; exact hk)
  rwa [hl] at this

/-- … and a pose with the whole template outside the volume has the parts (0, 0, 0): the code returns 0.0 -/
theorem mcc_integer_all_outside {α : Type} [Field α] [LinearOrder α] [IsStrictOrderedRing α]
    (eps : α) (shape : List Nat) (T M : List Int → α) (P : List (List Int)) (w : List α)
    (hlen : P.length = w.length) (hout : ∀ p ∈ P, inVol shape p = false) :
    mccParts 0 eps shape T M (P.map asRatio) (P.map asRatio) w = (0, 0, 0) := by
  rw [mccParts_integer_partial eps shape T M P w (fun p hp h => by rw [hout p hp] at h; cases h) hlen]
  have : (P.zip w).filter (fun pw => inVol shape pw.1) = [] := by
    apply List.filter_eq_nil_iff.mpr
    intro pw hpw
    rw [hout pw.1 (List.of_mem_zip hpw).1]; simp
  rw [this]
  simp [mccCore, dot, sumL]

/-- non-vacuity: target `[1,3,2,5]`, template cut at cells 1..3 and pushed two voxels to the right — one
point left inside, parts (0,0,0); pushed one voxel — two points inside, value² = 1 ≤ 1 -/
example :
    let T : List Int → Rat := fun p => ([1, 3, 2, 5] : List Rat).getD (p.headD 0).toNat 0
    let P0 : List (List Int) := [[1], [2], [3]]
    let at_ := fun (t : Int) => mccParts 0 (1 / 4503599627370496) [4] T (fun _ => 1)
      ((shiftPts [t] P0).map asRatio) ((shiftPts [t] P0).map asRatio) (sampleAll 0 [4] T P0)
    at_ 2 = (0, 0, 0) ∧ at_ 1 = (-3 / 2, 9 / 2, 1 / 2) := by decide +kernel

example : inVol [6] [3] = true ∧ inVol [6] [6] = false ∧ inVolQ [6] [(29999995, 10000000)] = true ∧
    cellOf [(29999995, 10000000)] = [2] := by decide

/-- with mask coordinates that are a *strict subset* of the template coordinates (overlap counted over
the mask points, the template sums over all points) the value leaves [−1, 1] already at the generating
pose, everything inside the volume: target `[0,1,0,1]`, template = all four voxels, mask = the first
three: parts (4/3, 2/3, 2/3) — value 2 -/
theorem mcc_mask_subset_defect :
    let T : List Int → Rat := fun p => ([0, 1, 0, 1] : List Rat).getD (p.headD 0).toNat 0
    let M : List Int → Rat := fun _ => 1
    let P0 : List (List Int) := [[0], [1], [2], [3]]
    let q := mccParts 0 (1 / 4503599627370496) [4] T M (P0.map asRatio) ((P0.take 3).map asRatio)
      (sampleAll 0 [4] T P0)
    q = (4 / 3, 2 / 3, 2 / 3) ∧ q.2.1 * q.2.2 < q.1 ^ 2 := by decide +kernel

/-! ## the generating pose as a pose: translation 0 -/

/-- the zero translation leaves the template's voxels where they are, so "values at the generating pose"
is `sampleAll … P0` in all the statements above -/
theorem shiftPts_zero (d : Nat) (P : List (List Int)) (h : ∀ p ∈ P, p.length = d) :
    shiftPts (List.replicate d 0) P = P := by
  unfold shiftPts
  conv_rhs => rw [← List.map_id P]
  apply List.map_congr_left
  intro p hp
  have hl := h p hp
  clear hp h
  induction p generalizing d with
  | nil => simp
  | cons a p ih =>
    cases d with
    | zero => simp at hl
    | succ d =>
      simp only [List.replicate_succ, List.zipWith_cons_cons, add_zero, id]
      rw [ih d (by simpa using hl)]
      rfl

example : shiftPts (List.replicate 2 0) [[1, 2], [3, 4]] = [[1, 2], [3, 4]] := by decide

/-! ## MutualInformation (what the code computes: `Σ p_xy² / (p_x p_y + eps)` over the 10 × 10 histogram) -/

/-- the table score is symmetric in its two arguments … -/
theorem mi_symm {α : Type} [Field α] (eps : α) (bv bw : List Nat) :
    miScore 0 eps (fun k => (k : α)) bv bw = miScore 0 eps (fun k => (k : α)) bw bv :=
  miScore_symm_aux eps bw bv

/-- … for every pairing of bin indices and every regulariser `eps ≥ 0` it is at most the number of
non-empty weight bins … -/
theorem mi_le_nonempty_bins {α : Type} [Field α] [LinearOrder α] [IsStrictOrderedRing α] (eps : α)
    (heps : 0 ≤ eps) (bv bw : List Nat) (h : bv.length = bw.length) :
    miScore 0 eps (fun k => (k : α)) bv bw ≤
      sumL 0 ((List.range 10).map (fun j => if 0 < bw.count j then (1 : α) else 0)) := by
  have := miScore_le_aux2 eps heps bv bw
  rwa [List.map_snd_zip (by omega)] at this

/-- … which is exactly the value for identical partitions (values = weights: the generating pose),
without the regulariser … -/
theorem mi_planted_value {α : Type} [Field α] [LinearOrder α] [IsStrictOrderedRing α] (b : List Nat) :
    miScore 0 0 (fun k => (k : α)) b b =
      sumL 0 ((List.range 10).map (fun i => if 0 < b.count i then (1 : α) else 0)) :=
  miScore_self_aux b

/-- … hence **the generating pose is best** for the function the driver runs (`miOf`: numpy's binning
of the interpolated values and of the weights, then the table score), up to the regulariser
`eps = 2⁻⁵²` in the denominators of the planted value (which lowers it by at most
`#bins · eps · n²`; that last estimate is not proved here) -/
theorem mi_planted_best {α : Type} [Field α] [LinearOrder α] [IsStrictOrderedRing α] (eps : α)
    (heps : 0 ≤ eps) (v w : List α) (h : v.length = w.length) :
    miOf 0 eps (fun k => (k : α)) v w ≤ miOf 0 0 (fun k => (k : α)) w w := by
  unfold miOf
  rw [mi_planted_value]
  exact mi_le_nonempty_bins eps heps _ _ (by simp [h])

/-- **best within the regulariser**: with the code's `eps` in the denominators the planted value is at
least `(1 − eps·n²)` times the value of any other pose (`n` template points; `eps·n² ≈ 2.2·10⁻¹⁶·n²`) -/
theorem mi_planted_best_within_regulariser {α : Type} [Field α] [LinearOrder α] [IsStrictOrderedRing α]
    (eps : α) (heps : 0 ≤ eps) (v w : List α) (h : v.length = w.length)
    (hsmall : eps * ((w.length : α) * (w.length : α)) ≤ 1) :
    miOf 0 eps (fun k => (k : α)) v w * (1 - eps * ((w.length : α) * (w.length : α))) ≤
      miOf 0 eps (fun k => (k : α)) w w := by
  unfold miOf
  have h1 := mi_le_nonempty_bins eps heps
    (v.map (binOf (fun k => (k : α)) (listMin 0 v) (listMax 0 v)))
    (w.map (binOf (fun k => (k : α)) (listMin 0 w) (listMax 0 w))) (by simp [h])
  have h2 := miScore_self_ge eps heps (w.map (binOf (fun k => (k : α)) (listMin 0 w) (listMax 0 w)))
  rw [List.length_map] at h2
  exact (mul_le_mul_of_nonneg_right h1 (by linarith)).trans h2

example : (1 / 4503599627370496 : ℚ) * ((4 : ℚ) * 4) ≤ 1 := by norm_num

/-- symmetry of the whole score -/
theorem miOf_symm {α : Type} [Field α] [LinearOrder α] [IsStrictOrderedRing α] (eps : α) (v w : List α) :
    miOf 0 eps (fun k => (k : α)) v w = miOf 0 eps (fun k => (k : α)) w v := by
  unfold miOf
  exact mi_symm eps _ _

example : binOf (fun k => (k : Rat)) 0 10 0 = 0 ∧ binOf (fun k => (k : Rat)) 0 10 3 = 3 ∧
    binOf (fun k => (k : Rat)) 0 10 10 = 9 ∧ binOf (fun k => (k : Rat)) 2 2 2 = 5 := by decide +kernel
example : miOf (0 : Rat) 0 (fun k => (k : Rat)) [0, 5, 10, 5] [0, 5, 10, 5] = 3 ∧
    miOf (0 : Rat) 0 (fun k => (k : Rat)) [0, 10, 5, 5] [0, 5, 10, 5] = 9 / 4 := by decide +kernel

/-! ## LaplaceCrossCorrelation -/

/-- the score is `CrossCorrelation` on Laplace-filtered quantities (`cc_planted_best_of_norm_le`,
`cc_abs_le_of_norm_le` apply to the filtered vectors), but the two sides are filtered *differently*: the
target over the whole map, the weights over the template's bounding box with reflecting borders — at the
generating pose the two vectors are not equal (target `[0,1,4,1,0]`, template at cells 1..3) -/
theorem laplace_planted_vectors_differ :
    let T : List Int → Int := fun p => ([0, 1, 4, 1, 0] : List Int).getD (p.headD 0).toNat 0
    let P0 : List (List Int) := [[1], [2], [3]]
    let w := sampleAll 0 [5] T P0
    w = [1, 4, 1] ∧ sampleAll 0 [5] (laplaceTarget 0 [5] T) P0 = [2, -6, 2] ∧
      laplaceWeights 0 1 P0 w = [3, -6, 3] ∧
      ccScore 0 1 1 (sampleAll 0 [5] (laplaceTarget 0 [5] T) P0) (laplaceWeights 0 1 P0 w) = 48 := by decide

/-! ## the common interface as compositions -/

/-- `score_translation(t)` is `score` at the pose `(t, 0)`: the value of a fresh object for that pose,
whatever was evaluated before (and likewise `score_angles`) -/
theorem score_translation_value {α β : Type} (S : C2DStatic α β) (hasMask : Bool) (n m : Nat)
    (hc : C2DContract S n m) (st : C2DState α) (hw : C2DWf S hasMask n m st) (z : α) (t : List α) :
    (c2dStep S st (poseOfTranslation z t)).1 = c2dPure S hasMask (t ++ List.replicate t.length z) ∧
      formatPose (poseOfTranslation z t) = (t, List.replicate t.length z) :=
  ⟨c2dStep_value S hasMask n m hc st hw _, formatPose_translation z t⟩

theorem score_angles_value {α β : Type} (S : C2DStatic α β) (hasMask : Bool) (n m : Nat)
    (hc : C2DContract S n m) (st : C2DState α) (hw : C2DWf S hasMask n m st) (z : α) (a : List α) :
    (c2dStep S st (poseOfAngles z a)).1 = c2dPure S hasMask (List.replicate a.length z ++ a) ∧
      formatPose (poseOfAngles z a) = (List.replicate a.length z, a) :=
  ⟨c2dStep_value S hasMask n m hc st hw _, formatPose_angles z a⟩

example : poseOfTranslation (0 : Int) [1, 2, 3] = [1, 2, 3, 0, 0, 0] ∧ poseOfAngles (0 : Int) [1, 2, 3] = [0, 0, 0, 1, 2, 3] := by
  decide

/-! ## FLC (the density-to-density score's formula) -/

/-- **full template mask, template wholly inside the target** (`g` the template, `f` the target under
it, `n` voxels): numerator² ≤ (n·var g)·(n·var f), i.e. the value `numerator / (σ_g σ_f n)` lies in
[−1, 1] for every voxel translation … -/
theorem flc_full_sq_le {α : Type} [Field α] [LinearOrder α] [IsStrictOrderedRing α] (g f : List α)
    (h : g.length = f.length) (hn : (g.length : α) ≠ 0) :
    (flcCore 0 (g.length : α) g (List.replicate g.length 1) g (List.replicate g.length 1) f).1 ^ 2 ≤
      ((g.length : α) * (flcCore 0 (g.length : α) g (List.replicate g.length 1) g (List.replicate g.length 1) f).2.1) *
        ((g.length : α) * (flcCore 0 (g.length : α) g (List.replicate g.length 1) g (List.replicate g.length 1) f).2.2) :=
  flc_full_sq_le_aux g f h hn

/-- … and at the generating pose (target under the template = template) numerator = n·var g ≥ 0 and the
two variances agree: the value is exactly 1, the best possible -/
theorem flc_full_planted {α : Type} [Field α] [LinearOrder α] [IsStrictOrderedRing α] (g : List α)
    (hn : (g.length : α) ≠ 0) :
    (flcCore 0 (g.length : α) g (List.replicate g.length 1) g (List.replicate g.length 1) g).1 =
      (g.length : α) * (flcCore 0 (g.length : α) g (List.replicate g.length 1) g (List.replicate g.length 1) g).2.1 ∧
    (flcCore 0 (g.length : α) g (List.replicate g.length 1) g (List.replicate g.length 1) g).2.1 =
      (flcCore 0 (g.length : α) g (List.replicate g.length 1) g (List.replicate g.length 1) g).2.2 ∧
    0 ≤ (flcCore 0 (g.length : α) g (List.replicate g.length 1) g (List.replicate g.length 1) g).1 :=
  flc_full_planted_aux g hn

/-- the function the driver runs (`flcOf`: windows of `flcWindow`, gathering, `flcCore`) on a template
`[1,3,2]` cut from the target `[0,1,3,2,0,0]` at offset 1: planted parts (2, 2/3, 2/3, 3) — value
2/(√(2/3)·√(2/3)·3) = 1; one voxel further (1, 2/3, 14/9, 3) — value² = 9/28; half outside (translation −2:
one voxel of overlap) the window sums shrink accordingly -/
theorem flcOf_example :
    let g : List Nat → Rat := fun i => ([1, 3, 2] : List Rat).getD (i.headD 0) 0
    let f : List Int → Rat := fun p => ([0, 1, 3, 2, 0, 0] : List Rat).getD (p.headD 0).toNat 0
    flcOf 0 [3] [6] g (fun _ => 1) f [1] = (2, 2 / 3, 2 / 3, 3) ∧
      flcOf 0 [3] [6] g (fun _ => 1) f [0] = (1, 2 / 3, 14 / 9, 3) ∧
      flcOf 0 [3] [6] g (fun _ => 1) f [-2] = (0, 2 / 3, 0, 3) := by decide +kernel

example := flc_full_sq_le ([1, 3, 2] : List ℚ) [0, 1, 3] rfl (by norm_num)

/-- **any binary template mask** (template wholly inside the target, `n = Σ mask` voxels under the mask):
the formula is the full-mask formula on the masked voxels, so again numerator² ≤ (n·var g)(n·var f) … -/
theorem flc_binary_sq_le {α : Type} [Field α] [LinearOrder α] [IsStrictOrderedRing α] (g m f : List α)
    (hb : ∀ x ∈ m, x = 0 ∨ x = 1) (hg : g.length = m.length) (hf : f.length = m.length) (hn : sumL 0 m ≠ 0) :
    (flcCore 0 (sumL 0 m) g m g m f).1 ^ 2 ≤
      (sumL 0 m * (flcCore 0 (sumL 0 m) g m g m f).2.1) * (sumL 0 m * (flcCore 0 (sumL 0 m) g m g m f).2.2) :=
  flc_binary_sq_le_aux g m f hb hg hf hn

/-- … with value 1 at the generating pose -/
theorem flc_binary_planted {α : Type} [Field α] [LinearOrder α] [IsStrictOrderedRing α] (g m : List α)
    (hb : ∀ x ∈ m, x = 0 ∨ x = 1) (hg : g.length = m.length) (hn : sumL 0 m ≠ 0) :
    (flcCore 0 (sumL 0 m) g m g m g).1 = sumL 0 m * (flcCore 0 (sumL 0 m) g m g m g).2.1 ∧
    (flcCore 0 (sumL 0 m) g m g m g).2.1 = (flcCore 0 (sumL 0 m) g m g m g).2.2 ∧
    0 ≤ (flcCore 0 (sumL 0 m) g m g m g).1 :=
  flc_binary_planted_aux g m hb hg hn

example := flc_binary_sq_le ([1, 3, 2, 5] : List ℚ) [1, 0, 1, 1] [0, 1, 3, 4]
  (by simp) rfl rfl (by norm_num [sumL])

/-- **every voxel translation** — template inside, partly or wholly outside the target — for the function
the driver runs (`flcOf`: `flcWindow` windows, gathering, masked standardisation over the whole template,
window sums) and any binary template mask: numerator² ≤ (n·var g)(n·var f), i.e. |value| ≤ 1.  (The window
sums are whole-template sums against the target zero-extended outside the window: `flcCore_window`.) -/
theorem flcOf_sq_le {α : Type} [Field α] [LinearOrder α] [IsStrictOrderedRing α]
    (shape tshape : List Nat) (g m : List Nat → α) (f : List Int → α) (v : List Int)
    (hb : ∀ i ∈ allIdx shape, m i = 0 ∨ m i = 1)
    (hn : (flcOf 0 shape tshape g m f v).2.2.2 ≠ 0) :
    (flcOf 0 shape tshape g m f v).1 ^ 2 ≤
      ((flcOf 0 shape tshape g m f v).2.2.2 * (flcOf 0 shape tshape g m f v).2.1) *
        ((flcOf 0 shape tshape g m f v).2.2.2 * (flcOf 0 shape tshape g m f v).2.2.1) :=
  flcOf_sq_le_aux shape tshape g m f v hb hn

/-- … and at the generating translation (the window is the whole template and the target under it is the
template) numerator = n·var g ≥ 0 and var f = var g: value 1 — **the generating pose is best among all
voxel translations** -/
theorem flcOf_planted {α : Type} [Field α] [LinearOrder α] [IsStrictOrderedRing α]
    (shape tshape : List Nat) (g m : List Nat → α) (f : List Int → α) (v : List Int)
    (hb : ∀ i ∈ allIdx shape, m i = 0 ∨ m i = 1)
    (hsel : (allIdx shape).filter (flcInWin shape (windows shape tshape v)) = allIdx shape)
    (hfg : ∀ i ∈ allIdx shape, f (flcTgt (windows shape tshape v) i) = g i)
    (hn : (flcOf 0 shape tshape g m f v).2.2.2 ≠ 0) :
    (flcOf 0 shape tshape g m f v).1 =
        (flcOf 0 shape tshape g m f v).2.2.2 * (flcOf 0 shape tshape g m f v).2.1 ∧
      (flcOf 0 shape tshape g m f v).2.1 = (flcOf 0 shape tshape g m f v).2.2.1 ∧
      0 ≤ (flcOf 0 shape tshape g m f v).1 :=
  flcOf_planted_aux shape tshape g m f v hb hsel hfg hn

/-- non-vacuity of the two hypotheses of `flcOf_planted`: a 2 × 2 template cut from a 3 × 4 target at offset (1, 2) -/
example :
    let f : List Int → Int := fun p => ([[1, 2, 3, 4], [5, 6, 7, 9], [2, 0, 1, 8]] : List (List Int)).getD (p.headD 0).toNat []
      |>.getD (p.getD 1 0).toNat 0
    let g : List Nat → Int := fun i => f [(i.headD 0 : Int) + 1, (i.getD 1 0 : Int) + 2]
    (allIdx [2, 2]).filter (flcInWin [2, 2] (windows [2, 2] [3, 4] [1, 2])) = allIdx [2, 2] ∧
      (∀ i ∈ allIdx [2, 2], f (flcTgt (windows [2, 2] [3, 4] [1, 2]) i) = g i) ∧
      (allIdx [2, 2]).filter (flcInWin [2, 2] (windows [2, 2] [3, 4] [2, 3])) = [[0, 0]] := by decide

/-- `FLC.score_translation(t)` / `score_angles(a)` are `score` at `(t, 0)` / `(0, a)`: fresh-object values -/
theorem flc_score_translation_value {α β : Type} (S : D2DStatic α β) (L : Nat) (hc : D2DContract S L)
    (st : D2DState α) (hw : D2DWf S L st) (z : α) (t : List α) :
    (d2dStep S st (poseOfTranslation z t)).1 = d2dPure S (t ++ List.replicate t.length z) ∧
      (d2dStep S st (poseOfAngles z t)).1 = d2dPure S (List.replicate t.length z ++ t) :=
  ⟨d2dStep_value S L hc st hw _, d2dStep_value S L hc st hw _⟩

/-! ## further facts about the formulas -/

/-- whatever the positions, the interpolated values of the coded target are −1, 0 or 1 -/
theorem envelope_values_coded {α : Type} [LT α] [DecidableLT α] (thr : α) (shape : List Nat) (T : List Int → α)
    (P : List (List Int)) :
    ∀ x ∈ sampleAll 0 shape (fun p => envCode thr (T p)) P, x = -1 ∨ x = 0 ∨ x = 1 := by
  intro x hx
  obtain ⟨p, _, rfl⟩ := List.mem_map.mp hx
  unfold sample envCode
  split
  · simp only []
    split
    · exact Or.inl rfl
    · exact Or.inr (Or.inr rfl)
  · exact Or.inr (Or.inl rfl)

/-- hence for **every** pose on voxels the Envelope value is
`(#points on empty voxels − 2·#points outside + present + 4·absent) / (3·present + 2·absent)` -/
theorem envelope_sampled_eq {α : Type} [LT α] [DecidableLT α] (thr : α) (shape : List Nat) (T : List Int → α)
    (present absent : Int) (P : List (List Int)) :
    envelopeParts present absent (sampleAll 0 shape (fun p => envCode thr (T p)) P) =
      (cnt 1 (sampleAll 0 shape (fun p => envCode thr (T p)) P)
        - 2 * cnt 0 (sampleAll 0 shape (fun p => envCode thr (T p)) P) + present + 4 * absent,
       3 * present + 2 * absent) :=
  envelopeParts_eq present absent _ (envelope_values_coded thr shape T P)

example : sampleAll 0 [3] (fun p => envCode (2 : Int) (([0, 5, 0] : List Int).getD (p.headD 0).toNat 0)) [[1], [2], [3]]
    = [-1, 1, 0] := by decide

/-- the Laplace filter (reflecting borders) removes constant offsets of the map -/
theorem laplace_offset_invariant {α : Type} [Field α] (shape : List Nat) (T : List Int → α) (c : α) (p : List Int) :
    laplaceAt 0 shape (fun q => T q + c) p = laplaceAt 0 shape T p := by
  unfold laplaceAt
  apply congrArg
  apply List.map_congr_left
  intro k _
  simp only []
  ring

example : laplaceAt (0 : Int) [3] (fun p => ([1, 4, 2] : List Int).getD (p.headD 0).toNat 0) [1] = -5 ∧
    laplaceAt (0 : Int) [3] (fun p => ([1, 4, 2] : List Int).getD (p.headD 0).toNat 0 + 7) [1] = -5 := by decide

/-- if a pose reaches the planted cross-correlation value with sampled values of no larger norm, its
values *are* the weights -/
theorem cc_unique_of_norm_le {α : Type} [Field α] [LinearOrder α] [IsStrictOrderedRing α] (v w : List α)
    (h : v.length = w.length) (hn : dot 0 v v ≤ dot 0 w w) (he : dot 0 v w = dot 0 w w) : v = w := by
  apply plsq_eq_zero v w h
  have hx := plsq_scaled_expand v w 1 h
  have h1 : v.map (· * (1 : α)) = v := by simp
  rw [h1] at hx
  have h2 := plsq_nonneg_aux v w
  nlinarith

example := cc_unique_of_norm_le ([1, 2] : List ℚ) [1, 2] rfl (le_refl _) rfl

/-- the corrected mean-centred score (each side centred by its *own* mean over the template's points:
the Pearson correlation) has numerator² ≤ denominator² for every pose and equality at the generating pose -/
theorem nccMean_corrected_best {α : Type} [Field α] [LinearOrder α] [IsStrictOrderedRing α] (v w : List α)
    (h : v.length = w.length) :
    (nccParts 0 (centreWeights 0 (1 / (v.length : α)) v) (centreWeights 0 (1 / (w.length : α)) w)).1 ^ 2 ≤
      (nccParts 0 (centreWeights 0 (1 / (v.length : α)) v) (centreWeights 0 (1 / (w.length : α)) w)).2 ∧
    (nccParts 0 (centreWeights 0 (1 / (w.length : α)) w) (centreWeights 0 (1 / (w.length : α)) w)).1 ^ 2 =
      (nccParts 0 (centreWeights 0 (1 / (w.length : α)) w) (centreWeights 0 (1 / (w.length : α)) w)).2 := by
  constructor
  · simp only [nccParts]
    rw [mul_comm]
    exact dot_sq_le _ _ (by simp [centreWeights, h])
  · simp only [nccParts]; ring

example := nccMean_corrected_best ([1, 2, 6] : List ℚ) [3, 1, 2] rfl

/-! ## the clause for translation poses, and the equality cases -/

/-- **the clause itself for translation poses, NormalizedCrossCorrelation**: a template generated at the
voxels `P0` (weights = target there, not all zero); for every voxel translation `t` — keeping the template
inside the volume, pushing it partly or wholly outside — the value at `t` is at most the value at the
generating pose `t = 0` (`s`, `s0` the square roots of the two denominators²) -/
theorem ncc_planted_best_translation {α : Type} [Field α] [LinearOrder α] [IsStrictOrderedRing α]
    (shape : List Nat) (T : List Int → α) (d : Nat) (P0 : List (List Int)) (hd : ∀ p ∈ P0, p.length = d)
    (t : List Int)
    (hw : 0 < dot 0 (sampleAll 0 shape T P0) (sampleAll 0 shape T P0))
    (s s0 : α) (hs : 0 < s)
    (hsq : s ^ 2 = (nccParts 0 (sampleAll 0 shape T (shiftPts t P0)) (sampleAll 0 shape T P0)).2)
    (hs0 : 0 < s0)
    (hs0q : s0 ^ 2 = (nccParts 0 (sampleAll 0 shape T (shiftPts (List.replicate d 0) P0)) (sampleAll 0 shape T P0)).2) :
    (nccParts 0 (sampleAll 0 shape T (shiftPts t P0)) (sampleAll 0 shape T P0)).1 / s ≤
      (nccParts 0 (sampleAll 0 shape T (shiftPts (List.replicate d 0) P0)) (sampleAll 0 shape T P0)).1 / s0 := by
  rw [shiftPts_zero d P0 hd] at hs0q ⊢
  exact ncc_planted_best _ _ (by simp [sampleAll, shiftPts]) hw s s0 hs hsq hs0 hs0q

/-- the same for the least-squares distance (smaller is better) -/
theorem plsq_planted_best_translation {α : Type} [Field α] [LinearOrder α] [IsStrictOrderedRing α]
    (shape : List Nat) (T : List Int → α) (d : Nat) (P0 : List (List Int)) (hd : ∀ p ∈ P0, p.length = d)
    (t : List Int) :
    plsq 0 (sampleAll 0 shape T (shiftPts (List.replicate d 0) P0)) (sampleAll 0 shape T P0) ≤
      plsq 0 (sampleAll 0 shape T (shiftPts t P0)) (sampleAll 0 shape T P0) := by
  rw [shiftPts_zero d P0 hd]
  exact plsq_planted_best shape T P0 _


example : (∀ p ∈ ([[1, 2], [3, 4]] : List (List Int)), p.length = 2) := by decide
/-- **equality case** (uniqueness of the optimum up to scale): a pose whose normalised value reaches 1
samples values proportional to the weights, `w = x·v` with `x = ⟨v,w⟩/⟨v,v⟩ > 0` -/
theorem ncc_value_one_proportional {α : Type} [Field α] [LinearOrder α] [IsStrictOrderedRing α]
    (v w : List α) (h : v.length = w.length) (s : α) (hs : 0 < s) (hsq : s ^ 2 = (nccParts 0 v w).2)
    (hone : (nccParts 0 v w).1 / s = 1) :
    0 < dot 0 v w / dot 0 v v ∧ v.map (· * (dot 0 v w / dot 0 v v)) = w := by
  simp only [nccParts] at hsq hone
  have hnum : dot 0 v w = s := by
    have := (div_eq_one_iff_eq hs.ne').mp hone
    exact this
  have hvv0 := dot_self_nonneg v
  have hww0 := dot_self_nonneg w
  have hprod : dot 0 w w * dot 0 v v = dot 0 v w ^ 2 := by rw [hnum]; exact hsq.symm
  have hvv : 0 < dot 0 v v := by
    rcases lt_or_eq_of_le hvv0 with h1 | h1
    · exact h1
    · exfalso
      rw [← h1, mul_zero] at hprod
      have : dot 0 v w = 0 := by
        have := hprod.symm
        exact pow_eq_zero_iff (two_ne_zero) |>.mp this
      rw [this] at hnum
      exact hs.ne' hnum.symm
  refine ⟨div_pos (hnum ▸ hs) hvv, ?_⟩
  apply plsq_eq_zero _ _ (by simp [h])
  rw [plsq_scaled_expand v w _ h]
  field_simp
  nlinarith [hprod]

example : ([1, 2] : List ℚ).map (· * (dot 0 [1, 2] [2, 4] / dot 0 [1, 2] [1, 2])) = [2, 4] := by norm_num [dot]
/-- at the generating pose of a point set (template points = target points, in any order, also as a
subset of a larger target) every nearest-neighbour distance is 0: the minimum by `chamfer_nonneg` -/
theorem chamfer_planted_zero {α : Type} [Field α] [LinearOrder α] [IsStrictOrderedRing α]
    (P : List (List α)) (q0 : List α) (qs : List (List α)) (hsub : ∀ p ∈ P, p ∈ q0 :: qs) :
    ∀ d ∈ chamferSqs 0 P q0 qs, d = 0 := by
  intro d hd
  obtain ⟨p, hp, rfl⟩ := List.mem_map.mp hd
  have h1 := nnSq_le_of_mem p q0 qs p (hsub p hp)
  rw [plsq_self] at h1
  obtain ⟨q, _, he⟩ := nnSq_attained p q0 qs
  have h2 : 0 ≤ nnSq 0 p q0 qs := he ▸ plsq_nonneg_aux _ _
  exact le_antisymm h1 h2

example : chamferSqs (0 : Int) [[3, 4], [0, 0]] [0, 0] [[3, 4], [7, 7]] = [0, 0] := by decide

/-! ## windows of a template inside the target; the Laplace pair -/

/-- a template that lies wholly inside the target on an axis (`0 ≤ v`, `v + n ≤ N`): the template window
is the whole axis `[0, n)`, the target window `[v, v + n)` — so `flcInWin` keeps every index of that axis
and `flcTgt` adds `v` -/
theorem flcWindow_inside (n N : Nat) (v : Int) (h0 : 0 ≤ v) (h1 : v + n ≤ N) :
    flcWindow n N v = ⟨0, n, v, v + n⟩ ∧ pySlice n (flcWindow n N v).tLo (flcWindow n N v).tHi = (0, n) := by
  have e : flcWindow n N v = ⟨0, n, v, v + n⟩ := by
    rw [flcWindow_eq, Win.mk.injEq]
    omega
  refine ⟨e, ?_⟩
  rw [e]
  simp only [pySlice]
  have a : ¬ ((0 : Int) < 0) := by omega
  have b : ¬ ((n : Int) < 0) := by omega
  simp only [a, b, if_false]
  simp

example : flcWindow 3 6 1 = ⟨0, 3, 1, 4⟩ := by decide

/-- LaplaceCrossCorrelation is `CrossCorrelation` on the filtered pair: what holds is the norm-bounded
statement for the filtered vectors (any positions, any template) -/
theorem laplace_cc_best_of_norm_le {α : Type} [Field α] [LinearOrder α] [IsStrictOrderedRing α]
    (shape : List Nat) (T : List Int → α) (d : Nat) (P0 P : List (List Int)) (w : List α)
    (h : P.length = P0.length)
    (hn : dot 0 (sampleAll 0 shape (laplaceTarget 0 shape T) P) (sampleAll 0 shape (laplaceTarget 0 shape T) P) ≤
      dot 0 (laplaceWeights 0 d P0 w) (laplaceWeights 0 d P0 w)) :
    ccScore 0 1 1 (sampleAll 0 shape (laplaceTarget 0 shape T) P) (laplaceWeights 0 d P0 w) ≤
      dot 0 (laplaceWeights 0 d P0 w) (laplaceWeights 0 d P0 w) := by
  simp only [ccScore, mul_one, div_one]
  exact dot_le_of_norm_le _ _ (by simp [sampleAll, laplaceWeights, h]) hn

example :
    let T : List Int → Rat := fun p => ([0, 1, 4, 1, 0] : List Rat).getD (p.headD 0).toNat 0
    let P0 : List (List Int) := [[1], [2], [3]]
    dot 0 (sampleAll 0 [5] (laplaceTarget 0 [5] T) P0) (sampleAll 0 [5] (laplaceTarget 0 [5] T) P0) ≤
      dot 0 (laplaceWeights 0 1 P0 [1, 4, 1]) (laplaceWeights 0 1 P0 [1, 4, 1]) := by decide +kernel

/-- non-vacuity of `flcOf_sq_le`: a binary mask with a hole, template half outside the target -/
example :
    let g : List Nat → Rat := fun i => ([1, 3, 2] : List Rat).getD (i.headD 0) 0
    let m : List Nat → Rat := fun i => ([1, 0, 1] : List Rat).getD (i.headD 0) 0
    let f : List Int → Rat := fun p => ([0, 1, 3, 2, 0, 0] : List Rat).getD (p.headD 0).toNat 0
    (∀ i ∈ allIdx [3], m i = 0 ∨ m i = 1) ∧ (flcOf 0 [3] [6] g m f [-1]).2.2.2 ≠ 0 ∧
      flcOf 0 [3] [6] g m f [-1] = (1 / 2, 1 / 4, 1 / 4, 2) := by decide +kernel

/-- the returned score is exactly the smaller of start score and refined score (scores are minimised) -/
theorem optimizeWrap_score_eq_min (x0 : List Int) (initial : Int) (resX : List Int) (resFun : Int) :
    (optimizeWrap x0 initial resX resFun).2 = min initial resFun := by
  unfold optimizeWrap; split <;> simp only <;> omega

/-- the returned score is also no worse than the optimiser's own result -/
theorem result_no_worse_than_refined (x0 : List Int) (initial : Int) (resX : List Int) (resFun : Int) :
    (optimizeWrap x0 initial resX resFun).2 ≤ resFun := by
  unfold optimizeWrap; split <;> simp only <;> omega

/-- the returned pose is the start or the optimiser's pose, nothing else -/
theorem optimizeWrap_pose_cases (x0 : List Int) (initial : Int) (resX : List Int) (resFun : Int) :
    (optimizeWrap x0 initial resX resFun).1 = x0 ∨ (optimizeWrap x0 initial resX resFun).1 = resX := by
  unfold optimizeWrap; split <;> simp

/-- the accept rule is idempotent: re-applying it to its own output changes nothing -/
theorem optimizeWrap_idem (x0 : List Int) (initial : Int) (resX : List Int) (resFun : Int) :
    optimizeWrap x0 initial (optimizeWrap x0 initial resX resFun).1 (optimizeWrap x0 initial resX resFun).2 =
      optimizeWrap x0 initial resX resFun := by
  unfold optimizeWrap; split <;> simp only <;> split <;> rfl

/-- any number of accept steps in a row: the final score is no worse than the start -/
theorem optimizeWrap_chain_le_start (rs : List (List Int × Int)) :
    ∀ (x0 : List Int) (initial : Int),
      (rs.foldl (fun acc r => optimizeWrap acc.1 acc.2 r.1 r.2) (x0, initial)).2 ≤ initial := by
  induction rs with
  | nil => intro x0 initial; exact Int.le_refl _
  | cons r rs ih =>
    intro x0 initial
    simp only [List.foldl_cons]
    exact Int.le_trans (ih _ _) (result_no_worse_than_start x0 initial r.1 r.2)

/-- any number of accept steps in a row: the final pose stays in bounds when all candidates do -/
theorem optimizeWrap_chain_in_bounds (b : List Bound) (rs : List (List Int × Int))
    (hr : ∀ r ∈ rs, inBounds b r.1 = true) :
    ∀ (x0 : List Int) (initial : Int), inBounds b x0 = true →
      inBounds b (rs.foldl (fun acc r => optimizeWrap acc.1 acc.2 r.1 r.2) (x0, initial)).1 = true := by
  induction rs with
  | nil => intro x0 initial h; exact h
  | cons r rs ih =>
    intro x0 initial h
    simp only [List.foldl_cons]
    exact ih (fun q hq => hr q (List.mem_cons_of_mem _ hq)) _ _
      (result_in_bounds b x0 initial r.1 r.2 h (hr r List.mem_cons_self))

example : inBounds [(-1, 1)] [0] = true ∧ ∀ r ∈ [(([1] : List Int), (3 : Int))], inBounds [(-1, 1)] r.1 = true := by
  decide

/-- a pose accepted by the bounds check has one entry per bound -/
theorem inBounds_length : ∀ (b : List Bound) (v : List Int), inBounds b v = true → b.length = v.length
  | [], [], _ => rfl
  | [], _ :: _, h => by simp [inBounds] at h
  | _ :: _, [], h => by simp [inBounds] at h
  | _ :: bs, _ :: vs, h => by
    simp only [inBounds, Bool.and_eq_true] at h
    simp only [List.length_cons, inBounds_length bs vs h.2]

example : inBounds [(-1, 1), (0, 5)] [0, 3] = true := by decide

/-- evaluating the same pose twice in a row returns the same (fresh-object) value both times -/
theorem c2dRun_same_pose_twice {α β : Type} (S : C2DStatic α β) (hasMask : Bool) (n m : Nat)
    (hc : C2DContract S n m) (st : C2DState α) (hw : C2DWf S hasMask n m st) (x : List α) :
    (c2dRun S st [x, x]).1 = [c2dPure S hasMask x, c2dPure S hasMask x] :=
  c2dRun_values S hasMask n m hc [x, x] st hw

/-- n·RMSD² is symmetric in its two point sets -/
theorem sqDev_symm {α : Type} [CommRing α] : ∀ (a b : List (V3 α)), sqDev 0 a b = sqDev 0 b a
  | [], [] => rfl
  | [], _ :: _ => rfl
  | _ :: _, [] => rfl
  | p :: ps, q :: qs => by
    simp only [sqDev, V3.sub, sqDev_symm ps qs]; ring

/-- n·RMSD² is unchanged when both point sets are moved by a common translation -/
theorem sqDev_translate {α : Type} [CommRing α] (t : V3 α) : ∀ (a b : List (V3 α)),
    sqDev 0 (a.map (fun p => V3.add p t)) (b.map (fun p => V3.add p t)) = sqDev 0 a b
  | [], [] => rfl
  | [], _ :: _ => rfl
  | _ :: _, [] => rfl
  | p :: ps, q :: qs => by
    have ih := sqDev_translate t ps qs
    simp only [List.map_cons, sqDev]
    rw [ih]
    simp only [V3.sub, V3.add]; ring

end Pm.C17
