import PytmeModel.Model.C18
import PytmeModel.Model.C18Cli
import PytmeModel.Proofs.C18Cli
import PytmeModel.Props.C01
import PytmeModel.Props.C03

/-! # C18 — command-line pipeline recovers a planted particle; results reload intact -/
namespace Pm.C18
open Pm.C01

/-- **The result container round-trips**: for any sequence of items (ordinary objects, tuples, memory maps) in which
no ordinary tuple starts with the marker string, loading what was written returns every item in order — ordinary
items unchanged, memory maps as maps of the relocated files with the same shape and dtype. -/
theorem pickle_roundtrip (fresh : Nat → String) : ∀ (items : List Item) (i : Nat) (fs : FS),
    NoFakeMarker items → loadAll (writeItems fresh i fs items).1 = expectedAll fresh i items
  | [], _, _, _ => rfl
  | .obj p :: rest, i, fs, h => by
    simp only [writeItems, loadAll, List.map_cons, loadRec, expectedAll, expected]
    exact congrArg _ (pickle_roundtrip fresh rest (i + 1) fs h)
  | .tup a b :: rest, i, fs, h => by
    obtain ⟨ha, hr⟩ := h
    simp only [writeItems, loadAll, List.map_cons, loadRec, expectedAll, expected]
    have : (a == "np.memmap") = false := by simpa using ha
    rw [this]
    exact congrArg _ (pickle_roundtrip fresh rest (i + 1) fs hr)
  | .memmap sh dt f c :: rest, i, fs, h => by
    simp only [writeItems, loadAll, List.map_cons, loadRec, expectedAll, expected]
    exact congrArg _ (pickle_roundtrip fresh rest (i + 1) (FS.move fs f (fresh i)) h)

/-- the number of records equals the number of items: nothing is dropped or duplicated -/
theorem pickle_count (fresh : Nat → String) : ∀ (items : List Item) (i : Nat) (fs : FS),
    (writeItems fresh i fs items).1.length = items.length
  | [], _, _ => rfl
  | .obj _ :: rest, i, fs => by simp [writeItems, pickle_count fresh rest]
  | .tup _ _ :: rest, i, fs => by simp [writeItems, pickle_count fresh rest]
  | .memmap _ _ _ _ :: rest, i, fs => by simp [writeItems, pickle_count fresh rest]

/-- moving a memory map's file keeps its content under the new name -/
theorem move_keeps_content (fs : FS) (src dst : String) (c : Nat) (h : FS.get fs src = some c) :
    FS.get (FS.move fs src dst) dst = some c := by
  unfold FS.move
  rw [h]
  simp [FS.get]

/-- **A path written again holds only the new records**: reading a result path returns what the last `write_pickle` to that
path wrote, whatever was written there (or elsewhere) before. -/
theorem rewrite_reads_last (d : Disk) (path : String) (a b : List Rec) :
    Disk.read (Disk.write (Disk.write d path a) path b) path = some b := by
  simp [Disk.write, Disk.read]

/-- writing one path leaves every other result file alone -/
theorem write_other_path (d : Disk) (p q : String) (rs : List Rec) (h : q ≠ p) :
    Disk.read (Disk.write d p rs) q = Disk.read d q := by
  have hpq : (p == q) = false := by simpa using fun e => h e.symm
  unfold Disk.read Disk.write
  simp only [List.find?_cons, hpq]
  congr 1
  rw [List.find?_filter]
  congr 1
  funext e
  by_cases hq : e.1 = q
  · simp [hq, h]
  · simp [hq]

/-- **Boundary distance**: a voxel that keeps exactly the requested distance from both faces of its axis is reported
(the bound is inclusive), one voxel closer to either face is not. -/
theorem kept_at_exact_distance (d n : Nat) (h : 2 * d < n) :
    keptAt d n d = true ∧ keptAt d n (n - 1 - d) = true ∧ (0 < d → keptAt d n (d - 1) = false) ∧ keptAt d n (n - d) = false := by
  refine ⟨?_, ?_, ?_, ?_⟩ <;> simp [keptAt] <;> omega

/-- the container's quirk, as a witness: an ordinary tuple that starts with the marker string is read back as a memory map -/
theorem fake_marker_current_quirk :
    loadAll (writeItems (fun _ => "x") 0 [] [.tup "np.memmap" "payload"]).1 ≠
      expectedAll (fun _ => "x") 0 [.tup "np.memmap" "payload"] := by decide

/-- **Frame of the planted particle.**  With the template's box corner at `P0`, the window the score map evaluates
at the reference position `P0 + m//2` is exactly the planted box: voxel `k` of the template meets target voxel `P0 + k`. -/
theorem planted_window_at_reference : ∀ (ms : List Nat) (P0 : List Int) (k : List Nat),
    ms.length = P0.length → inShape ms k = true → specIdx ms (refPos ms P0) k = boxPos P0 k
  | [], [], [], _, _ => rfl
  | m :: ms, p :: ps, k :: ks, hl, hk => by
    simp only [refPos, specIdx, boxPos]
    rw [planted_window_at_reference ms ps ks (by simpa using hl) (inShape_cons.mp hk).2]
    congr 1
    omega
  | [], _ :: _, _, hl, _ => by simp at hl
  | _ :: _, [], _, hl, _ => by simp at hl
  | [], [], _ :: _, _, hk => by simp [inShape] at hk
  | _ :: _, _ :: _, [], _, hk => by simp [inShape] at hk

/-- **The pipeline's best entry is the planted reference position** (exact arithmetic): if the target shows the
(rotated) template `g` in the box at `P0` — `f(P0 + k) = g(k)` wherever the mask is non-zero — then the masked
window at the reference position is the template, so (C03) its normalised score is exactly 1 and no other
translation scores higher; by C01 this is the value the FFT pipeline reports at that voxel, by C02 also when the
target is tiled, by C05 the peak caller reports that voxel in target coordinates. -/
theorem pipeline_best_is_planted {α : Type} [Field α] [LinearOrder α] [IsStrictOrderedRing α]
    (ms : List Nat) (P0 : List Int) (f g w : List Int → α) (hl : ms.length = P0.length)
    (hplant : ∀ k, inShape ms k = true → w (natsToInts k) * f (boxPos P0 k) = w (natsToInts k) * g (natsToInts k))
    (hn : 0 < (Pm.C03.Win.mk ms (fun k => w (natsToInts k)) (fun k => f (specIdx ms (refPos ms P0) k)) (fun k => g (natsToInts k))).n)
    (σ : α) (hσ : 0 < σ)
    (eσ : σ * σ = (Pm.C03.Win.mk ms (fun k => w (natsToInts k)) (fun k => f (specIdx ms (refPos ms P0) k)) (fun k => g (natsToInts k))).B
        / (Pm.C03.Win.mk ms (fun k => w (natsToInts k)) (fun k => f (specIdx ms (refPos ms P0) k)) (fun k => g (natsToInts k))).n) :
    let W := Pm.C03.Win.mk ms (fun k => w (natsToInts k)) (fun k => f (specIdx ms (refPos ms P0) k)) (fun k => g (natsToInts k))
    (W.N / σ) / (σ * W.n) = 1 := by
  intro W
  refine (Pm.C03.Win.planted_eq_one W ?_ hn σ hσ eσ).2.2
  intro k hk
  show w (natsToInts k) * f (specIdx ms (refPos ms P0) k) = w (natsToInts k) * g (natsToInts k)
  rw [planted_window_at_reference ms P0 k hl hk]
  exact hplant k hk

example : Disk.read (Disk.write (Disk.write (Disk.write [] "out.pickle" [Rec.obj "first run"]) "other" [Rec.obj "x"]) "out.pickle" [Rec.obj "second run"])
    "out.pickle" = some [Rec.obj "second run"] := by decide
example : keptAt 3 20 3 = true ∧ keptAt 3 20 16 = true ∧ keptAt 3 20 2 = false ∧ keptAt 3 20 17 = false := by decide
example : refPos [5, 4] [3, 7] = [5, 9] := by decide
example : loadAll (writeItems (fun i => s!"f{i}") 0 [("a", 7)] [.obj "scores", .memmap [2, 3] "f4" "a" 7, .tup "meta" "x"]).1
    = [.obj "scores", .memmap (encShape [2, 3] "f4" "f1"), .tup "meta" "x"] := by decide


/-! ## The decision logic of `scripts/postprocess.py` (executable model: `Model/C18Cli.lean`, run by the driver and compared
with the script's own functions called in-process) -/

/-- `--mask_edges` is superseded by an explicit `--min_boundary_distance` -/
theorem effDist_pos (me : Bool) (d : Nat) (t : List Nat) (h : 0 < d) : effDist me d t = d := by
  unfold effDist
  have : (d == 0) = false := by simp; omega
  simp [this]

/-- without `--mask_edges` the distance is the one given -/
theorem effDist_off (d : Nat) (t : List Nat) : effDist false d t = d := by simp [effDist]

/-- **`--mask_edges`** alone: the distance is half the largest template extent, rounded up — the window then excludes every
voxel whose template box (of the largest extent) would overhang the target -/
theorem effDist_mask_edges (t : List Nat) :
    maxL t ≤ 2 * effDist true 0 t ∧ 2 * effDist true 0 t ≤ maxL t + 1 := by
  simp only [effDist, Bool.true_and, beq_self_eq_true, if_true]
  omega

/-- **Which voxels are inside the window**: on every axis `d ≤ x` and `x + d < n` (and the ranks agree) -/
theorem inWindow_iff (d : Nat) : ∀ (shape pos : List Nat),
    inWindow d shape pos = true ↔ List.Forall₂ (fun n x => d ≤ x ∧ x + d < n) shape pos
  | [], [] => by simp [inWindow]
  | [], _ :: _ => by simp [inWindow]
  | _ :: _, [] => by simp [inWindow]
  | n :: ns, x :: xs => by
    simp only [inWindow, Bool.and_eq_true, List.forall₂_cons, inWindow_iff d ns xs, keptAt, decide_eq_true_eq]

/-- the window is the per-axis `keptAt` of the container theorems (composition with `kept_at_exact_distance`) -/
theorem inWindow_cons (d n x : Nat) (ns xs : List Nat) :
    inWindow d (n :: ns) (x :: xs) = (keptAt d n x && inWindow d ns xs) := rfl

/-- **The planted voxel survives iff its own distance to the nearest face is at least `d`.** -/
theorem inWindow_iff_borderDist (d : Nat) : ∀ (shape pos : List Nat) (b : Nat),
    inShape shape pos = true → borderDist shape pos = some b → (inWindow d shape pos = true ↔ d ≤ b)
  | [], [], _, _, hb => by simp [borderDist] at hb
  | [], _ :: _, _, hs, _ => by simp [inShape] at hs
  | _ :: _, [], _, hs, _ => by simp [inShape] at hs
  | [n], [x], b, hs, hb => by
    have hx : x < n := by simpa [inShape] using hs
    simp only [borderDist, Option.some.injEq] at hb
    simp only [inWindow, keptAt, Bool.and_true, Bool.and_eq_true, decide_eq_true_eq]
    omega
  | n :: n' :: ns, x :: x' :: xs, b, hs, hb => by
    obtain ⟨hx, hr⟩ := inShape_cons.mp hs
    have e : borderDist (n :: n' :: ns) (x :: x' :: xs)
        = (borderDist (n' :: ns) (x' :: xs)).map (min (min x (n - 1 - x))) := by
      rw [borderDist]; intro h; cases h
    rw [e] at hb
    cases hb' : borderDist (n' :: ns) (x' :: xs) with
    | none => simp [hb'] at hb
    | some b' =>
      have ih := inWindow_iff_borderDist d (n' :: ns) (x' :: xs) b' hr hb'
      rw [hb'] at hb
      simp only [Option.map_some, Option.some.injEq] at hb
      rw [inWindow_cons, Bool.and_eq_true, ih]
      simp only [keptAt, Bool.and_eq_true, decide_eq_true_eq]
      omega
  | [_], _ :: _ :: _, _, hs, _ => by simp [inShape] at hs
  | _ :: _ :: _, [_], _, hs, _ => by simp [inShape] at hs

/-- **The surviving set is exactly the voxels within the window and the score range** (`d = 0`: no window), with their
original scores: the multiplication by the boundary mask changes nothing for a voxel that survives. -/
theorem mem_survivors_iff (d : Nat) (shape : List Nat) (lo hi : Option Int) (vox : List Vox) (c : Vox) :
    c ∈ survivors d shape lo hi vox ↔
      c ∈ vox ∧ (d = 0 ∨ inWindow d shape c.pos = true) ∧ inRange lo hi c.score = true := by
  unfold survivors survive
  rw [List.mem_filter, List.mem_map]
  constructor
  · rintro ⟨⟨v, hv, rfl⟩, hs⟩
    simp only [Bool.and_eq_true, Bool.or_eq_true, beq_iff_eq] at hs
    rcases hs.1 with h0 | hw
    · subst h0
      rw [maskVox_zero] at hs ⊢
      exact ⟨hv, Or.inl rfl, hs.2⟩
    · have hw' : inWindow d shape v.pos = true := by rwa [maskVox_pos] at hw
      rw [maskVox_of_inWindow d shape v hw'] at hs ⊢
      exact ⟨hv, Or.inr hw', hs.2⟩
  · rintro ⟨hv, hw, hr⟩
    have hc : maskVox d shape c = c := by
      rcases hw with h0 | hw
      · subst h0; exact maskVox_zero shape c
      · exact maskVox_of_inWindow d shape c hw
    refine ⟨⟨c, hv, hc⟩, ?_⟩
    simp only [Bool.and_eq_true, Bool.or_eq_true, beq_iff_eq]
    exact ⟨hw, hr⟩

/-- whatever the limit on the number of peaks: only survivors are reported -/
theorem ppCall_subset (k d : Nat) (shape : List Nat) (lo hi : Option Int) (vox : List Vox) (c : Vox)
    (h : c ∈ ppCall k d shape lo hi vox) : c ∈ survivors d shape lo hi vox := by
  unfold ppCall at h
  unfold survivors
  rw [List.mem_filter] at h ⊢
  exact ⟨(sortDesc_perm _).subset (List.mem_of_mem_take h.1), h.2⟩

/-- **Without an effective limit** (`k` at least the number of voxels - what `--minimum_score` arranges, see
`ppNumberOfPeaks_lifted`) the reported set is exactly the surviving set. -/
theorem ppCall_unbounded (k d : Nat) (shape : List Nat) (lo hi : Option Int) (vox : List Vox) (hk : vox.length ≤ k) :
    (ppCall k d shape lo hi vox).Perm (survivors d shape lo hi vox) := by
  unfold ppCall survivors
  have hl : (sortDesc (vox.map (maskVox d shape))).length ≤ k := by
    rw [(sortDesc_perm _).length_eq, List.length_map]; exact hk
  rw [List.take_of_length_le hl]
  exact (sortDesc_perm _).filter _

/-- the reported list is ordered by descending score -/
theorem ppCall_desc (k d : Nat) (shape : List Nat) (lo hi : Option Int) (vox : List Vox) :
    (ppCall k d shape lo hi vox).Pairwise (fun a b => b.score ≤ a.score) := by
  unfold ppCall
  exact ((sortDesc_desc _).sublist (List.take_sublist _ _)).sublist List.filter_sublist

/-- **Completeness under a limit**: a survivor is reported as soon as at most `k` voxels of the masked map score as high
as it does (the limit is applied to the masked map *before* the window and range filters, as `call_peaks` does). -/
theorem ppCall_complete (k d : Nat) (shape : List Nat) (lo hi : Option Int) (vox : List Vox) (c : Vox)
    (hc : c ∈ survivors d shape lo hi vox)
    (hk : ((vox.map (maskVox d shape)).filter (fun w => decide (c.score ≤ w.score))).length ≤ k) :
    c ∈ ppCall k d shape lo hi vox := by
  unfold survivors at hc
  unfold ppCall
  rw [List.mem_filter] at hc ⊢
  refine ⟨?_, hc.2⟩
  have hmem : c ∈ sortDesc (vox.map (maskVox d shape)) := (sortDesc_perm _).symm.subset hc.1
  have h1 := mem_take_count_of_desc c _ (sortDesc_desc _) hmem
  rw [filter_length_perm (sortDesc_perm _)] at h1
  exact mem_take_mono hk h1

/-- **The best reported entry is the maximum over the surviving set** (no effective limit): its score bounds every survivor's. -/
theorem ppCall_head_is_max (k d : Nat) (shape : List Nat) (lo hi : Option Int) (vox : List Vox) (hk : vox.length ≤ k)
    (h : Vox) (t : List Vox) (hh : ppCall k d shape lo hi vox = h :: t) :
    h ∈ survivors d shape lo hi vox ∧ ∀ c ∈ survivors d shape lo hi vox, c.score ≤ h.score := by
  have hp := ppCall_unbounded k d shape lo hi vox hk
  have hd := ppCall_desc k d shape lo hi vox
  rw [hh] at hp hd
  refine ⟨hp.subset List.mem_cons_self, fun c hc => ?_⟩
  rcases List.mem_cons.mp (hp.symm.subset hc) with rfl | hc
  · exact Int.le_refl _
  · exact (List.pairwise_cons.mp hd).1 c hc

/-- something is reported iff something survives (no effective limit) -/
theorem ppCall_nonempty_iff (k d : Nat) (shape : List Nat) (lo hi : Option Int) (vox : List Vox) (hk : vox.length ≤ k) :
    ppCall k d shape lo hi vox ≠ [] ↔ survivors d shape lo hi vox ≠ [] := by
  have hp := ppCall_unbounded k d shape lo hi vox hk
  constructor
  · intro h e; rw [e] at hp; exact h hp.eq_nil
  · intro h e; rw [e] at hp; exact h hp.symm.eq_nil

/-- the second score filter of `postprocess.main` (on the orientation list) removes nothing from a score-map result:
what the tool writes is what the peak caller kept -/
theorem ppMain_eq_ppCall (k d : Nat) (shape : List Nat) (lo hi : Option Int) (vox : List Vox) :
    ppMain k d shape lo hi vox = ppCall k d shape lo hi vox := by
  unfold ppMain scoreFilter
  rw [List.filter_eq_self]
  intro c hc
  unfold ppCall survive at hc
  rw [List.mem_filter] at hc
  simp only [Bool.and_eq_true] at hc
  exact hc.2.2

/-- **The planted voxel through post-processing.**  If the planted voxel `p` carries a positive score (or no boundary distance
is set), at most `k` voxels of the score map score as high, and its score is within the requested range, then the tool
reports it **iff its own distance to every face is at least `d`**; when it is reported its score bounds every reported one
that is not above it in the map, and it is reported with its own score (the mask does not touch it). -/
theorem planted_reported_iff (k d : Nat) (shape : List Nat) (lo hi : Option Int) (vox : List Vox) (p : Vox)
    (hp : p ∈ vox) (hpos : d = 0 ∨ 0 < p.score) (hr : inRange lo hi p.score = true)
    (hk : (vox.filter (fun w => decide (p.score ≤ w.score))).length ≤ k) :
    p ∈ ppMain k d shape lo hi vox ↔ (d = 0 ∨ inWindow d shape p.pos = true) := by
  rw [ppMain_eq_ppCall]
  constructor
  · intro h
    exact ((mem_survivors_iff d shape lo hi vox p).mp (ppCall_subset k d shape lo hi vox p h)).2.1
  · intro hw
    refine ppCall_complete k d shape lo hi vox p ((mem_survivors_iff d shape lo hi vox p).mpr ⟨hp, hw, hr⟩) ?_
    rcases hpos with h0 | hs
    · subst h0
      have : vox.map (maskVox 0 shape) = vox := by
        rw [List.map_congr_left (fun v _ => maskVox_zero shape v), List.map_id']
      rw [this]; exact hk
    · exact Nat.le_trans (filter_map_mask_le d shape p.score hs vox) hk

/-- **The best entry of the orientation list is the planted voxel.**  If moreover no other voxel of the map scores as high as
the planted one, then - whenever the planted voxel keeps the boundary distance - it is the *first* entry post-processing
writes (the list is ordered by descending score): the pipeline's best entry is the planted position. -/
theorem planted_is_best_entry (k d : Nat) (shape : List Nat) (lo hi : Option Int) (vox : List Vox) (p : Vox)
    (hp : p ∈ vox) (hpos : d = 0 ∨ 0 < p.score) (hr : inRange lo hi p.score = true)
    (hk : (vox.filter (fun w => decide (p.score ≤ w.score))).length ≤ k)
    (huniq : ∀ c ∈ vox, p.score ≤ c.score → c = p)
    (hw : d = 0 ∨ inWindow d shape p.pos = true) :
    (ppMain k d shape lo hi vox).head? = some p := by
  have hin := (planted_reported_iff k d shape lo hi vox p hp hpos hr hk).mpr hw
  have hd := ppCall_desc k d shape lo hi vox
  rw [← ppMain_eq_ppCall] at hd
  cases hL : ppMain k d shape lo hi vox with
  | nil => rw [hL] at hin; simp at hin
  | cons h t =>
    rw [hL] at hin hd
    simp only [List.head?_cons, Option.some.injEq]
    rcases List.mem_cons.mp hin with rfl | ht
    · rfl
    · have hle : p.score ≤ h.score := (List.pairwise_cons.mp hd).1 p ht
      have hh : h ∈ ppCall k d shape lo hi vox := by
        rw [← ppMain_eq_ppCall, hL]; exact List.mem_cons_self
      have hv := ((mem_survivors_iff d shape lo hi vox h).mp (ppCall_subset k d shape lo hi vox h hh)).1
      exact huniq h hv hle

/-- outside the window nothing is ever reported at the planted position, whatever the other options -/
theorem outside_window_never_reported (k d : Nat) (shape : List Nat) (lo hi : Option Int) (vox : List Vox) (pos : List Nat)
    (hd : 0 < d) (hw : inWindow d shape pos = false) : ∀ c ∈ ppMain k d shape lo hi vox, c.pos ≠ pos := by
  intro c hc e
  rw [ppMain_eq_ppCall] at hc
  have := ((mem_survivors_iff d shape lo hi vox c).mp (ppCall_subset k d shape lo hi vox c hc)).2.1
  rcases this with h0 | h
  · omega
  · rw [e, hw] at h; exact absurd h (by decide)

/-- **Flat index and voxel coordinates**: in the voxel list of a C-ordered score map the voxel with coordinates `p` carries the
value stored at flat position `flatIdx shape p` - no axis is swapped between the array and the reported coordinates. -/
theorem mem_voxOf (shape : List Nat) (scores : List Int) (mask : Option (List Int)) (p : List Nat)
    (hp : inShape shape p = true) (hl : (maskedVals scores mask).length = prodL shape) :
    ⟨p, (maskedVals scores mask).getD (flatIdx shape p) 0⟩ ∈ voxOf shape scores mask := by
  have hlt := flatIdx_lt hp
  have hv : voxOf shape scores mask = List.zipWith Vox.mk (allIdx shape) (maskedVals scores mask) := by
    rfl
  rw [hv, List.mem_iff_getElem]
  have hlen : (List.zipWith Vox.mk (allIdx shape) (maskedVals scores mask)).length = prodL shape := by
    simp [allIdx, hl]
  refine ⟨flatIdx shape p, by omega, ?_⟩
  rw [List.getElem_zipWith]
  congr 1
  · simp [allIdx, unflat_flatIdx hp]
  · rw [List.getD_eq_getElem?_getD, List.getElem?_eq_getElem (by omega)]; rfl

/-- and conversely every voxel of the list is a voxel of the map with the value stored at its flat position -/
theorem voxOf_sound (shape : List Nat) (scores : List Int) (mask : Option (List Int)) (c : Vox)
    (hc : c ∈ voxOf shape scores mask) :
    inShape shape c.pos = true ∧ c.score = (maskedVals scores mask).getD (flatIdx shape c.pos) 0 := by
  have hv : voxOf shape scores mask = List.zipWith Vox.mk (allIdx shape) (maskedVals scores mask) := by
    rfl
  rw [hv, List.mem_iff_getElem] at hc
  obtain ⟨i, hi, rfl⟩ := hc
  rw [List.length_zipWith] at hi
  have hi1 : i < prodL shape := by
    have : i < (allIdx shape).length := by omega
    simpa [allIdx] using this
  rw [List.getElem_zipWith]
  have e : (allIdx shape)[i]'(by omega) = unflat shape i := by simp [allIdx]
  simp only [e]
  have hin := inShape_unflat shape i hi1
  refine ⟨hin, ?_⟩
  have hf : flatIdx shape (unflat shape i) = i := flatIdx_unflat shape i hi1
  rw [hf, List.getD_eq_getElem?_getD, List.getElem?_eq_getElem (by omega)]; rfl

/-- **The planted particle through post-processing, in array terms.**  For a C-ordered score map `scores` of shape `shape`
(optionally multiplied by a target mask): if the planted voxel `p` holds a positive value (or no boundary distance is set), at
most `k` voxels hold a value as high and the value is within the requested range, then `postprocess` reports position `p` with
that value **iff `p` keeps distance `d` from every face** (`keptAt` on every axis). -/
theorem planted_voxel_reported_iff (k d : Nat) (shape : List Nat) (lo hi : Option Int) (scores : List Int)
    (mask : Option (List Int)) (p : List Nat) (hp : inShape shape p = true)
    (hl : (maskedVals scores mask).length = prodL shape)
    (hpos : d = 0 ∨ 0 < (maskedVals scores mask).getD (flatIdx shape p) 0)
    (hr : inRange lo hi ((maskedVals scores mask).getD (flatIdx shape p) 0) = true)
    (hk : ((voxOf shape scores mask).filter
      (fun w => decide ((maskedVals scores mask).getD (flatIdx shape p) 0 ≤ w.score))).length ≤ k) :
    (⟨p, (maskedVals scores mask).getD (flatIdx shape p) 0⟩ : Vox) ∈ ppMain k d shape lo hi (voxOf shape scores mask) ↔
      (d = 0 ∨ inWindow d shape p = true) :=
  planted_reported_iff k d shape lo hi (voxOf shape scores mask) ⟨p, _⟩ (mem_voxOf shape scores mask p hp hl) hpos hr hk

/-- **In array terms: the first orientation written is the planted voxel** when its value is positive, strictly above the
value of every other voxel of the (masked) score map, within the requested range, and the voxel keeps the boundary distance. -/
theorem planted_voxel_is_best_entry (k d : Nat) (shape : List Nat) (lo hi : Option Int) (scores : List Int)
    (mask : Option (List Int)) (p : List Nat) (hp : inShape shape p = true)
    (hl : (maskedVals scores mask).length = prodL shape)
    (hpos : d = 0 ∨ 0 < (maskedVals scores mask).getD (flatIdx shape p) 0)
    (hr : inRange lo hi ((maskedVals scores mask).getD (flatIdx shape p) 0) = true)
    (hk : ((voxOf shape scores mask).filter
      (fun w => decide ((maskedVals scores mask).getD (flatIdx shape p) 0 ≤ w.score))).length ≤ k)
    (hmax : ∀ q, inShape shape q = true → q ≠ p →
      (maskedVals scores mask).getD (flatIdx shape q) 0 < (maskedVals scores mask).getD (flatIdx shape p) 0)
    (hw : d = 0 ∨ inWindow d shape p = true) :
    (ppMain k d shape lo hi (voxOf shape scores mask)).head? =
      some ⟨p, (maskedVals scores mask).getD (flatIdx shape p) 0⟩ := by
  refine planted_is_best_entry k d shape lo hi (voxOf shape scores mask) ⟨p, _⟩
    (mem_voxOf shape scores mask p hp hl) hpos hr hk ?_ hw
  intro c hc hle
  obtain ⟨hin, hsc⟩ := voxOf_sound shape scores mask c hc
  by_cases hq : c.pos = p
  · cases c with
    | mk pos score =>
      simp only at hq hsc
      subst hq
      rw [hsc]
  · have := hmax c.pos hin hq
    simp only at hle
    omega

/-- **The pipeline's best entry, in array terms, without side conditions on the limit**: for any limit `k ≥ 1` on the number of
peaks, if the planted voxel `p` of a C-ordered (masked) score map holds a positive value that is strictly above every other
voxel's and within the requested score range, then the first orientation `postprocess` writes is `p` with that value whenever
`p` keeps the boundary distance from every face - and `p` is not reported at all when it does not
(`outside_window_never_reported`). -/
theorem planted_voxel_first (k d : Nat) (shape : List Nat) (lo hi : Option Int) (scores : List Int)
    (mask : Option (List Int)) (p : List Nat) (hk : 1 ≤ k) (hp : inShape shape p = true)
    (hl : (maskedVals scores mask).length = prodL shape)
    (hpos : d = 0 ∨ 0 < (maskedVals scores mask).getD (flatIdx shape p) 0)
    (hr : inRange lo hi ((maskedVals scores mask).getD (flatIdx shape p) 0) = true)
    (hmax : ∀ q, inShape shape q = true → q ≠ p →
      (maskedVals scores mask).getD (flatIdx shape q) 0 < (maskedVals scores mask).getD (flatIdx shape p) 0)
    (hw : d = 0 ∨ inWindow d shape p = true) :
    (ppMain k d shape lo hi (voxOf shape scores mask)).head? =
      some ⟨p, (maskedVals scores mask).getD (flatIdx shape p) 0⟩ := by
  refine planted_voxel_is_best_entry k d shape lo hi scores mask p hp hl hpos hr ?_ hmax hw
  refine Nat.le_trans (length_le_one_of_nodup_all_eq ⟨p, (maskedVals scores mask).getD (flatIdx shape p) 0⟩ _ ?_ ?_) hk
  · have hv : voxOf shape scores mask = List.zipWith Vox.mk (allIdx shape) (maskedVals scores mask) := by
      rfl
    rw [hv]
    exact (zipWith_vox_nodup _ _ (allIdx_nodup shape)).filter _
  · intro c hc
    rw [List.mem_filter] at hc
    obtain ⟨hcv, hle⟩ := hc
    simp only [decide_eq_true_eq] at hle
    obtain ⟨hin, hsc⟩ := voxOf_sound shape scores mask c hcv
    by_cases hq : c.pos = p
    · cases c with
      | mk pos score =>
        simp only at hq hsc
        subst hq
        rw [hsc]
    · have := hmax c.pos hin hq
      omega

example : (⟨[1, 2], 7⟩ : Vox) ∈ ppMain 1 1 [3, 4] none none (voxOf [3, 4] [0, 1, 2, 3, 4, 5, 7, 6, 1, 1, 1, 1] none) := by decide
example : (ppMain 3 1 [3, 4] none none (voxOf [3, 4] [0, 1, 2, 3, 4, 5, 7, 6, 1, 1, 1, 1] none)).head? = some ⟨[1, 2], 7⟩ := by decide

/-- **Witness of an order dependence in the tool**: the limit on the number of peaks is applied to the masked map before
the window filter, so a map whose inside scores are all negative loses its (only) survivor to a zeroed border voxel:
something survives, nothing is reported. -/
theorem limit_before_window_current_quirk :
    survivors 1 [3] none none [⟨[0], -5⟩, ⟨[1], -2⟩, ⟨[2], -7⟩] = [⟨[1], -2⟩] ∧
    ppMain 1 1 [3] none none [⟨[0], -5⟩, ⟨[1], -2⟩, ⟨[2], -7⟩] = [] := by decide

/-- the same for `--maximum_score`: voxels above the maximum use up the limit -/
theorem limit_before_maximum_current_quirk :
    survivors 0 [3] none (some 4) [⟨[0], 9⟩, ⟨[1], 3⟩, ⟨[2], 8⟩] = [⟨[1], 3⟩] ∧
    ppMain 2 0 [3] none (some 4) [⟨[0], 9⟩, ⟨[1], 3⟩, ⟨[2], 8⟩] = [] := by decide

/-- a peak-list result passes through the score filter alone: exactly the candidates in range, in their order -/
theorem mem_scoreFilter_iff (lo hi : Option Int) (l : List Vox) (c : Vox) :
    c ∈ scoreFilter lo hi l ↔ c ∈ l ∧ inRange lo hi c.score = true := by
  unfold scoreFilter; rw [List.mem_filter]

/-- the score range is the closed interval -/
theorem inRange_iff (lo hi : Int) (s : Int) : inRange (some lo) (some hi) s = true ↔ lo ≤ s ∧ s ≤ hi := by
  simp [inRange]

theorem inRange_none (s : Int) : inRange none none s = true := rfl

/-- **`--minimum_score` (or `--n_false_positives`) lifts the limit on the number of peaks** beyond any array numpy can hold,
so `ppCall_unbounded` applies: every voxel in window and range is reported -/
theorem ppNumberOfPeaks_lifted (hasMin hasNfp : Bool) (n : Option Nat) (h : hasMin = true ∨ hasNfp = true) :
    ppNumberOfPeaks hasMin hasNfp n = 2 ^ 63 - 1 := by
  unfold ppNumberOfPeaks int64Max
  rcases h with h | h <;> simp [h]

/-- otherwise the limit is the one given, 1000 by default -/
theorem ppNumberOfPeaks_given (n : Option Nat) : ppNumberOfPeaks false false n = n.getD 1000 := by
  cases n <;> rfl

/-- **`--background_file`**: whenever the arguments are accepted there is one (possibly absent) background per input file, so
`background_file[index]` is defined for every input; given once it is the same file for every input; absent it is `None`
for every input -/
theorem ppBackground_length (bg : Option (List String)) (n : Nat) (l : List (Option String))
    (hne : bg ≠ some []) (h : ppBackground bg n = .ok l) : l.length = n := by
  have hb : bgList bg ≠ [] := by
    cases bg with
    | none => simp [bgList]
    | some b => simpa [bgList] using hne
  unfold ppBackground at h
  generalize bgList bg = l' at h hb
  match l', hb with
  | [x], _ => simp only [Except.ok.injEq] at h; rw [← h, List.length_replicate]
  | x :: y :: r, _ =>
    simp only [List.length_cons] at h
    split at h
    · rename_i hc
      simp only [Except.ok.injEq] at h
      subst h
      simp only [Bool.or_eq_true, beq_iff_eq] at hc
      rcases hc with h0 | hn
      · omega
      · simpa using hn
    · cases h

theorem ppBackground_absent (n : Nat) : ppBackground none n = .ok (List.replicate n none) := rfl

theorem ppBackground_once (f : String) (n : Nat) : ppBackground (some [f]) n = .ok (List.replicate n (some f)) := rfl

/-- the RELION box size is made even -/
theorem relionBox_even (n : Nat) : relionBox n % 2 = 0 ∧ n ≤ relionBox n ∧ relionBox n ≤ n + 1 := by
  unfold relionBox; omega

example : effDist true 0 [5, 8, 6] = 4 ∧ effDist true 3 [5, 8, 6] = 3 ∧ effDist false 0 [5, 8, 6] = 0 := by decide
example : inWindow 2 [10, 8] [2, 5] = true ∧ inWindow 2 [10, 8] [2, 6] = false ∧ borderDist [10, 8] [2, 5] = some 2 := by decide
example : ppMain 2 1 [4] (some 2) none (voxOf [4] [9, 3, 5, 8] none) = [⟨[2], 5⟩, ⟨[1], 3⟩] := by decide
example : ppMain 2 1 [4] (some 2) none (voxOf [4] [9, 3, 5, 8] (some [1, 1, 0, 1])) = [⟨[1], 3⟩] := by decide
example : ppBackground (some ["a", "b"]) 2 = .ok [some "a", some "b"] ∧ ppBackground (some ["a", "b"]) 3 = .error "ValueError" := by decide
example : ppNumberOfPeaks true false (some 5) = 9223372036854775807 ∧ ppNumberOfPeaks false false (some 5) = 5 := by decide


/-! ## The result tuple: writer (`match_template.main`) and reader (`postprocess.main`) agree -/

/-- **Reader and writer agree on the layout of the result tuple**, for targets of any rank `D`: the reader's test
`data[0].ndim == data[2].ndim` recognises a score-map result exactly when the writer did not call peaks, the names the
reader then gives to the positions are the members the writer put there, and the metadata record is the last member
(`data[-1]`) in both layouts. -/
theorem reader_writer_agree (D : Nat) (peakCalling : Bool) :
    readerIsScoreMap D (writerLayout peakCalling) = !peakCalling ∧
    readerNames (readerIsScoreMap D (writerLayout peakCalling)) = writerLayout peakCalling ∧
    (writerLayout peakCalling).getLast? = some Member.info ∧ (writerLayout peakCalling).length = 5 := by
  cases peakCalling <;> simp [writerLayout, readerIsScoreMap, readerNames, memberNdim]

/-- the positions `postprocess.main` reads from a peak-list result (`candidates[0], candidates[2], candidates[3]`) are the
translations, scores and details the peak caller's tuple has there -/
theorem reader_peak_positions :
    (writerLayout true)[0]? = some Member.translations ∧ (writerLayout true)[1]? = some Member.peakRotations ∧
    (writerLayout true)[2]? = some Member.peakScores ∧ (writerLayout true)[3]? = some Member.details := by decide

/-! ## The decision logic of `scripts/match_template.py` -/

/-- **`parse_rotation_logic` is total and exactly one branch applies**: the identity alone iff `-a` is given and at least
180 degrees; the sampled grid iff `-a` is given and below 180; the cone iff `-a` is absent. -/
theorem rotPlan_identity_iff (a : RotArgs) :
    (∃ s o, rotPlan a = .identity s o) ↔ ∃ s, a.angular = some s ∧ 180000 ≤ s := by
  unfold rotPlan
  cases h : a.angular with
  | none => simp
  | some s => by_cases hs : 180000 ≤ s <;> simp [hs]

theorem rotPlan_grid_iff (a : RotArgs) :
    (∃ s o, rotPlan a = .grid s o) ↔ ∃ s, a.angular = some s ∧ s < 180000 := by
  unfold rotPlan
  cases h : a.angular with
  | none => simp
  | some s =>
    by_cases hs : 180000 ≤ s
    · simp [hs]
    · simp [hs]; omega

theorem rotPlan_cone_iff (a : RotArgs) :
    (∃ ca cs aa as n, rotPlan a = .cone ca cs aa as n) ↔ a.angular = none := by
  unfold rotPlan
  cases h : a.angular with
  | none => simp
  | some s => by_cases hs : 180000 ≤ s <;> simp [hs]

/-- the arguments each branch hands to the library: the sampling value unchanged, the optimised sets unless
`--no_use_optimized_set`; in the cone branch `--axis_sampling` defaults to `--cone_sampling` and is otherwise kept -/
theorem rotPlan_args (a : RotArgs) :
    (∀ s, a.angular = some s → s < 180000 → rotPlan a = .grid s (!a.noOptimized)) ∧
    (∀ s, a.angular = some s → 180000 ≤ s → rotPlan a = .identity s (!a.noOptimized)) ∧
    (a.angular = none → a.axisSampling = none →
      rotPlan a = .cone a.coneAngle a.coneSampling a.axisAngle a.coneSampling a.axisSymmetry) ∧
    (∀ x, a.angular = none → a.axisSampling = some x →
      rotPlan a = .cone a.coneAngle a.coneSampling a.axisAngle (some x) a.axisSymmetry) := by
  refine ⟨?_, ?_, ?_, ?_⟩
  · intro s h hs; unfold rotPlan; rw [h]; simp; omega
  · intro s h hs; unfold rotPlan; rw [h]; simp [hs]
  · intro h h2; unfold rotPlan; rw [h, h2]; rfl
  · intro x h h2; unfold rotPlan; rw [h, h2]; rfl

/-- the side effect on the argument namespace does not change the plan (a second call decides the same) and is idempotent -/
theorem rotPlan_after (a : RotArgs) :
    rotPlan (rotArgsAfter a) = rotPlan a ∧ rotArgsAfter (rotArgsAfter a) = rotArgsAfter a := by
  unfold rotArgsAfter rotPlan
  cases h : a.angular with
  | some s => simp [h]
  | none =>
    cases h2 : a.axisSampling <;> cases h3 : a.coneSampling <;> simp [optOr]

/-- **`compute_schedule` asks the library once or twice**, always with the template box (or zeros without `--pad_fourier`)
as second shape -/
theorem schedule_calls (cps : SchedCall → SchedAns) (tmpl : List Nat) (pf pe : Bool) :
    ((schedule cps tmpl pf pe).calls.length = 1 ∨ (schedule cps tmpl pf pe).calls.length = 2) ∧
    (∀ c ∈ (schedule cps tmpl pf pe).calls, c.box = if pf then tmpl else zerosLike tmpl) ∧
    (schedule cps tmpl pf pe).calls.head? = some (schedCall tmpl pf pe) := by
  unfold schedule
  cases cps (schedCall tmpl pf pe) with
  | none => simp [scheduleOn, schedCall]
  | some r =>
    obtain ⟨splits, sch⟩ := r
    by_cases hc : (!pe && decide (1 < prodL splits)) = true <;> simp [scheduleOn, hc, schedCall]

/-- **A split target is always searched with padded edges**: whenever the schedule that is returned splits the target,
`args.pad_edges` is on when `compute_schedule` returns and the returned schedule is the library's answer for a target padding
equal to the template box (the condition under which C02's tiles reproduce the unsplit scores). -/
theorem schedule_split_implies_padded (cps : SchedCall → SchedAns) (tmpl : List Nat) (pf pe : Bool)
    (splits : List Nat) (sch : Nat × Nat)
    (hr : (schedule cps tmpl pf pe).result = some (splits, sch)) (hs : 1 < prodL splits) :
    (schedule cps tmpl pf pe).padEdgesAfter = true ∧
    cps ⟨if pf then tmpl else zerosLike tmpl, tmpl⟩ = some (splits, sch) ∧
    (schedule cps tmpl pf pe).calls.getLast? = some ⟨if pf then tmpl else zerosLike tmpl, tmpl⟩ := by
  unfold schedule at hr ⊢
  cases h : cps (schedCall tmpl pf pe) with
  | none => rw [h] at hr; simp [scheduleOn] at hr
  | some r =>
    obtain ⟨sp1, sc1⟩ := r
    rw [h] at hr
    by_cases hc : (!pe && decide (1 < prodL sp1)) = true
    · simp only [scheduleOn, hc, if_true] at hr ⊢
      refine ⟨by simp, ?_, ?_⟩
      · simpa [schedCall] using hr
      · simp [schedCall]
    · simp only [scheduleOn, hc] at hr ⊢
      simp only [Bool.false_eq_true, if_false, Option.some.injEq, Prod.mk.injEq] at hr
      obtain ⟨rfl, rfl⟩ := hr
      have hpe : pe = true := by
        cases pe
        · simp [hs] at hc
        · rfl
      subst hpe
      refine ⟨rfl, ?_, ?_⟩
      · simpa [schedCall] using h
      · simp [schedCall]

/-- with `--pad_edges` given the library is asked once and its answer is returned as it is -/
theorem schedule_user_padding (cps : SchedCall → SchedAns) (tmpl : List Nat) (pf : Bool) :
    schedule cps tmpl pf true = ⟨[schedCall tmpl pf true], cps (schedCall tmpl pf true), true⟩ := by
  unfold schedule
  cases cps (schedCall tmpl pf true) with
  | none => rfl
  | some r => obtain ⟨a, b⟩ := r; simp [scheduleOn]

/-- an unsplit first answer is returned as it is and the flag is left alone -/
theorem schedule_unsplit (cps : SchedCall → SchedAns) (tmpl : List Nat) (pf pe : Bool) (splits : List Nat) (sch : Nat × Nat)
    (h : cps (schedCall tmpl pf pe) = some (splits, sch)) (hs : prodL splits ≤ 1) :
    schedule cps tmpl pf pe = ⟨[schedCall tmpl pf pe], some (splits, sch), pe⟩ := by
  unfold schedule
  rw [h]
  have : ¬ 1 < prodL splits := by omega
  simp [scheduleOn, this]

/-- `exit(-1)` happens exactly when the last answer of the library is "no schedule" -/
theorem schedule_exit_iff (cps : SchedCall → SchedAns) (tmpl : List Nat) (pf pe : Bool) :
    (schedule cps tmpl pf pe).result = none ↔
      ∃ c, (schedule cps tmpl pf pe).calls.getLast? = some c ∧ cps c = none := by
  unfold schedule
  cases h : cps (schedCall tmpl pf pe) with
  | none => simp [scheduleOn, h]
  | some r =>
    obtain ⟨sp1, sc1⟩ := r
    by_cases hc : (!pe && decide (1 < prodL sp1)) = true
    · simp [scheduleOn, hc]
    · simp [scheduleOn, hc, h]

/-- **Witness**: the second answer (with padding) need not split at all - the search then runs unsplit, but with the padded
edges the first answer asked for (`args.pad_edges` stays on) -/
theorem schedule_second_answer_current_quirk :
    schedule (fun c => if c.padding = [0, 0] then some ([2, 1], (2, 1)) else some ([1, 1], (1, 2))) [4, 4] true false =
      ⟨[⟨[4, 4], [0, 0]⟩, ⟨[4, 4], [4, 4]⟩], some ([1, 1], (1, 2)), true⟩ := by decide

/-- what `main` hands to `scan_subsets`: target edges are padded iff the user asked for it or the first schedule split the
target; the other flags are passed through; the template is centred unless `--no_centering` -/
theorem scanFlags_spec (pe pf pfl nc : Bool) (cps : SchedCall → SchedAns) (tmpl tshape : List Nat) :
    (scanFlags pe pf pfl nc cps tmpl tshape).padFourier = pf ∧ (scanFlags pe pf pfl nc cps tmpl tshape).padTemplateFilter = pfl ∧
    (scanFlags pe pf pfl nc cps tmpl tshape).centre = (!nc) ∧ (scanFlags pe pf pfl nc cps tmpl tshape).minDistance = maxL tshape / 3 ∧
    ((scanFlags pe pf pfl nc cps tmpl tshape).padTargetEdges = true ↔
      pe = true ∨ ∃ sp sc, cps (schedCall tmpl pf false) = some (sp, sc) ∧ 1 < prodL sp) := by
  refine ⟨rfl, rfl, rfl, rfl, ?_⟩
  simp only [scanFlags]
  cases pe with
  | true => rw [schedule_user_padding]; simp
  | false =>
    unfold schedule
    cases cps (schedCall tmpl pf false) with
    | none => simp [scheduleOn]
    | some r =>
      obtain ⟨sp1, sc1⟩ := r
      by_cases hc : 1 < prodL sp1 <;> simp [scheduleOn, hc]

/-- **A search that runs split always pads the target edges** (`scan_subsets(pad_target_edges=True)`): the composition of the
schedule with what `main` passes on -/
theorem split_search_pads_edges (pe pf pfl nc : Bool) (cps : SchedCall → SchedAns) (tmpl tshape : List Nat)
    (splits : List Nat) (sch : Nat × Nat)
    (hr : (schedule cps tmpl pf pe).result = some (splits, sch)) (hs : 1 < prodL splits) :
    (scanFlags pe pf pfl nc cps tmpl tshape).padTargetEdges = true :=
  (schedule_split_implies_padded cps tmpl pf pe splits sch hr hs).1

/-- the target mask is multiplied into the score map exactly for score-map output of every score but MCC (which consumed
the mask itself); the analyzer is the peak caller iff `-p` -/
theorem maskApplied_iff (pc tm mcc : Bool) :
    maskApplied pc tm mcc = true ↔ pc = false ∧ tm = true ∧ mcc = false := by
  cases pc <;> cases tm <;> cases mcc <;> decide

theorem callbackName_spec : callbackName true = "PeakCallerMaximumFilter" ∧ callbackName false = "MaxScoreOverRotations" := by
  decide

/-- **`numpy.allclose` on shapes is exact equality for every axis shorter than 100000 voxels** (and on sampling rates
rounded to two decimals for every rate below 999.99) -/
theorem closeQ_exact (scale : Nat) (a b : Int) (hb : 1000 * b.natAbs + scale < 100000000) :
    closeQ scale a b = true ↔ a = b := by
  unfold closeQ
  simp only [decide_eq_true_eq]
  constructor
  · intro h
    by_contra hne
    have : 1 ≤ (a - b).natAbs := by omega
    omega
  · rintro rfl; simp

/-- **Witness**: beyond that size the tolerance is wider than a voxel - a mask one voxel longer passes the shape check -/
theorem closeQ_current_quirk : closeQ 1 100001 100000 = true ∧ closeQ 1 100000 99999 = false := by decide

/-- **`load_and_validate_mask`** for a mask of the target's rank (`k` axes each, extents below 100000, rates below 999.99):
accepted iff the shapes are equal and the sampling rates agree after rounding to two decimals; a shape mismatch is
reported before a sampling-rate mismatch; without a path nothing is checked -/
theorem maskCheck_no_path (ms ts mr tr : List Int) : maskCheck false ms ts mr tr = .noMask := rfl

theorem all2_closeQ_exact (scale : Nat) : ∀ (a b : List Int), a.length = b.length →
    (∀ y ∈ b, 1000 * y.natAbs + scale < 100000000) → (all2 (closeQ scale) a b = true ↔ a = b)
  | [], [], _, _ => by simp [all2]
  | [], _ :: _, h, _ => by simp at h
  | _ :: _, [], h, _ => by simp at h
  | x :: xs, y :: ys, h, hb => by
    have ih := all2_closeQ_exact scale xs ys (by simpa using h) (fun z hz => hb z (List.mem_cons_of_mem _ hz))
    simp only [all2, Bool.and_eq_true, ih, closeQ_exact scale x y (hb y List.mem_cons_self), List.cons.injEq]

theorem maskCheck_same_rank (ms ts mr tr : List Int) (h1 : ms.length = ts.length) (h2 : mr.length = tr.length)
    (hts : ∀ y ∈ ts, 1000 * y.natAbs + 1 < 100000000)
    (htr : ∀ y ∈ tr.map roundCenti, 1000 * y.natAbs + 100 < 100000000) :
    (maskCheck true ms ts mr tr = .ok ↔ ms = ts ∧ mr.map roundCenti = tr.map roundCenti) ∧
    (maskCheck true ms ts mr tr = .shapeMismatch ↔ ms ≠ ts) ∧
    (maskCheck true ms ts mr tr = .samplingMismatch ↔ ms = ts ∧ mr.map roundCenti ≠ tr.map roundCenti) := by
  have e1 := all2_closeQ_exact 1 ms ts h1 hts
  have e2 := all2_closeQ_exact 100 (mr.map roundCenti) (tr.map roundCenti) (by simp [h2]) htr
  unfold maskCheck allcloseL
  simp only [Bool.not_true, Bool.false_eq_true, if_false, h1, beq_self_eq_true, if_true, List.length_map, h2]
  by_cases hs : ms = ts
  · have : all2 (closeQ 1) ms ts = true := e1.mpr hs
    rw [this]
    by_cases hr : mr.map roundCenti = tr.map roundCenti
    · have : all2 (closeQ 100) (mr.map roundCenti) (tr.map roundCenti) = true := e2.mpr hr
      rw [this]; simp [hs, hr]
    · have : all2 (closeQ 100) (mr.map roundCenti) (tr.map roundCenti) = false := by
        cases hx : all2 (closeQ 100) (mr.map roundCenti) (tr.map roundCenti)
        · rfl
        · exact absurd (e2.mp hx) hr
      rw [this]; simp [hs, hr]
  · have : all2 (closeQ 1) ms ts = false := by
      cases hx : all2 (closeQ 1) ms ts
      · rfl
      · exact absurd (e1.mp hx) hs
    rw [this]; simp [hs]

/-- **Witness**: numpy's broadcasting inside the shape check accepts a one-dimensional mask for a cubic target -/
theorem maskCheck_broadcast_current_quirk :
    maskCheck true [5] [5, 5, 5] [1000] [1000, 1000, 1000] = .ok ∧
    maskCheck true [5, 5] [5, 5, 5] [1000, 1000] [1000, 1000, 1000] = .broadcastError := by decide

/-- rounding to two decimals: the result is within half a hundredth, ties go to the even hundredth -/
theorem roundCenti_spec (m : Int) :
    (10 * roundCenti m - m ≤ 5 ∧ m - 10 * roundCenti m ≤ 5) ∧
    (m % 10 = 5 → roundCenti m % 2 = 0) ∧ (m % 10 = 0 → 10 * roundCenti m = m) := by
  unfold roundCenti
  refine ⟨?_, ?_, ?_⟩
  · simp only
    split
    · omega
    · split
      · omega
      · split <;> omega
  · intro h
    simp only [h]
    simp only [show ¬ (5 : Int) < 5 by omega, if_false, beq_iff_eq]
    split <;> omega
  · intro h
    simp only [h]
    simp only [show (0 : Int) < 5 by omega, if_true]
    omega

/-- the cross-option checks of `match_template.parse_args`: accepted iff (`--tilt_angles` implies `--wedge_axes` and a file
or a number) and (`--ctf_file` implies `--tilt_angles`) -/
theorem mtValidate_ok_iff (ht tf tn hw hc : Bool) :
    mtValidate ht tf tn hw hc = .ok ↔
      (ht = true → hw = true ∧ (tf = true ∨ tn = true)) ∧ (hc = true → ht = true) := by
  cases ht <;> cases tf <;> cases tn <;> cases hw <;> cases hc <;> decide

/-- a negative `--interpolation_order` means "library default", anything else is passed on -/
theorem mtInterpolation_spec (o : Int) : (o < 0 → mtInterpolation o = none) ∧ (0 ≤ o → mtInterpolation o = some o) := by
  unfold mtInterpolation
  constructor <;> intro h <;> simp <;> omega

example : rotPlan ⟨some 200000, false, none, none, 360000, none, 1000⟩ = .identity 200000 true := by decide
example : rotPlan ⟨some 60000, true, none, none, 360000, none, 1000⟩ = .grid 60000 false := by decide
example : rotPlan ⟨none, false, some 30000, some 10000, 360000, none, 1000⟩ =
    .cone (some 30000) (some 10000) 360000 (some 10000) 1000 := by decide
example : schedule (fun c => if c.padding = [0, 0] then some ([2, 1], (2, 1)) else some ([2, 2], (4, 1))) [4, 6] false false =
    ⟨[⟨[0, 0], [0, 0]⟩, ⟨[0, 0], [4, 6]⟩], some ([2, 2], (4, 1)), true⟩ := by decide
example : maskCheck true [6, 5, 4] [6, 5, 4] [1125, 1125, 1125] [1120, 1120, 1120] = .ok ∧
    maskCheck true [6, 5, 4] [6, 5, 4] [1375, 1375, 1375] [1370, 1370, 1370] = .samplingMismatch ∧
    maskCheck true [6, 5, 4] [6, 4, 5] [1375, 1375, 1375] [1370, 1370, 1370] = .shapeMismatch := by decide
example : roundCenti 1125 = 112 ∧ roundCenti 1375 = 138 ∧ roundCenti 1126 = 113 ∧ roundCenti 1124 = 112 := by decide
example : mtValidate true false true true true = .ok ∧ mtValidate true false false true false = .tiltNeitherFileNorRange ∧
    mtValidate false false false false true = .needTiltAngles ∧ mtValidate true true false false false = .needWedgeAxes := by decide


/-! ## Backend selection (`match_template.main`) -/

/-- **Whatever is chosen is importable, admitted by the options and - when `--backend` is given - the requested one** -/
theorem selectBackend_chosen (available : List String) (req : Option String) (g m pc : Bool) (n : String) (dev : Option String)
    (h : selectBackend available req g m pc = .chosen n dev) :
    n ∈ available ∧ n ∈ beSelection g m ∧ n ∈ bePreference g ∧ (∀ r, req = some r → n = r) ∧
    (dev = if n = "pytorch" then some (if g then "cuda" else "cpu") else none) := by
  unfold selectBackend at h
  cases hc : candidateBackends available req g m pc with
  | none => rw [hc] at h; cases h
  | some av =>
    rw [hc] at h
    simp only at h
    cases hf : (bePreference g).find? av.contains with
    | none => rw [hf] at h; cases h
    | some p =>
      rw [hf] at h
      simp only [BackendChoice.chosen.injEq] at h
      obtain ⟨rfl, hdev⟩ := h
      have hp_pref : p ∈ bePreference g := List.mem_of_find?_eq_some hf
      have hp_av : p ∈ av := by
        have := List.find?_some hf
        simpa using this
      -- every candidate is importable, admitted, and the requested one
      have hcand : ∀ x ∈ av, x ∈ available ∧ x ∈ beSelection g m ∧ (∀ r, req = some r → x = r) := by
        intro x hx
        unfold candidateBackends at hc
        cases req with
        | none =>
          simp only [Option.map_some, Option.some.injEq] at hc
          subst hc
          have hx' : x ∈ available.filter (beSelection g m).contains := by
            by_cases hpc : pc = true
            · simp only [hpc, if_true] at hx
              split at hx
              · rename_i hcond
                simp only [List.mem_singleton] at hx
                subst hx
                simp only [Bool.and_eq_true] at hcond
                have := hcond.2
                rw [List.contains_iff_mem] at this
                exact (List.mem_filter.mp this).1
              · exact (List.mem_filter.mp hx).1
            · simp only [hpc] at hx
              exact hx
          have := List.mem_filter.mp hx'
          exact ⟨this.1, by simpa using this.2, fun r hr => by cases hr⟩
        | some r =>
          by_cases hr : available.contains r = true
          · simp only [hr, if_true, Option.map_some, Option.some.injEq] at hc
            subst hc
            have hx' : x ∈ [r].filter (beSelection g m).contains := by
              by_cases hpc : pc = true
              · simp only [hpc, if_true] at hx
                split at hx
                · rename_i hcond
                  simp only [List.mem_singleton] at hx
                  subst hx
                  simp only [Bool.and_eq_true] at hcond
                  have := hcond.2
                  rw [List.contains_iff_mem] at this
                  exact (List.mem_filter.mp this).1
                · exact (List.mem_filter.mp hx).1
              · simp only [hpc] at hx
                exact hx
            have := List.mem_filter.mp hx'
            have hxr : x = r := by simpa using this.1
            subst hxr
            exact ⟨by simpa using hr, by simpa using this.2, fun r' hr' => by cases hr'; rfl⟩
          · rw [Bool.not_eq_true] at hr
            simp only [hr, Bool.false_eq_true, if_false, Option.map_none] at hc
            cases hc
      obtain ⟨h1, h2, h3⟩ := hcand p hp_av
      refine ⟨h1, h2, hp_pref, h3, ?_⟩
      rw [← hdev]
      simp

/-- on a CPU installation (`numpyfftw` importable) without further options the FFTW backend is chosen -/
theorem selectBackend_default (available : List String) (pc : Bool) (h : "numpyfftw" ∈ available) :
    selectBackend available none false false pc = .chosen "numpyfftw" none := by
  have hc : ∃ av, candidateBackends available none false false pc = some av ∧ "numpyfftw" ∈ av := by
    unfold candidateBackends
    have hm : "numpyfftw" ∈ available.filter (beSelection false false).contains := by
      rw [List.mem_filter]; exact ⟨h, by decide⟩
    cases pc
    · exact ⟨_, rfl, hm⟩
    · refine ⟨_, rfl, ?_⟩
      simp only [Bool.false_and, Bool.false_eq_true, if_false, if_true]
      rw [List.mem_filter]; exact ⟨hm, by decide⟩
  obtain ⟨av, hav, hin⟩ := hc
  have : (bePreference false).find? av.contains = some "numpyfftw" := by
    simp [bePreference, hin]
  simp only [selectBackend, hav, this]
  rfl

/-- with `--use_gpu` the CPU-only backends are never chosen -/
theorem selectBackend_gpu (available : List String) (req : Option String) (m pc : Bool) (n : String) (dev : Option String)
    (h : selectBackend available req true m pc = .chosen n dev) : n ≠ "numpyfftw" ∧ n ≠ "mlx" := by
  have := (selectBackend_chosen available req true m pc n dev h).2.2.1
  simp only [bePreference, if_true, List.mem_cons, List.mem_nil_iff, or_false] at this
  rcases this with rfl | rfl | rfl <;> decide

/-- **Witness**: a requested backend the other options do not admit is silently ignored - `--backend cupy` without `--use_gpu`
leaves the backend as it was (the search then runs on the default backend) -/
theorem selectBackend_ignored_current_quirk :
    selectBackend ["numpyfftw", "cupy"] (some "cupy") false false false = .unchanged := by decide

example : selectBackend ["numpyfftw", "pytorch", "jax"] none true false true = .chosen "pytorch" (some "cuda") ∧
    selectBackend ["numpyfftw", "pytorch", "jax"] none false true false = .chosen "numpyfftw" none ∧
    selectBackend ["numpyfftw", "jax"] (some "mlx") false false false = .rejected ∧
    backendInterpolation (.chosen "pytorch" (some "cpu")) (some 3) = some 1 := by decide

/-! ## Background subtraction (`postprocess.load_match_template_output`) -/

/-- **A background-normalised score is never negative** and is a proper fraction (or `+inf` where the background score is
exactly 1) -/
theorem bgNorm_nonneg (fg bg : Int × Nat) (n : Int) (d : Nat) (h : bgNorm fg bg = .fin n d) :
    0 ≤ n ∧ 0 < d := by
  unfold bgNorm at h
  simp only at h
  split at h
  · split at h
    · cases h
    · injection h with h1 h2; omega
  · rename_i hden
    have hden' : (fg.2 : Int) * ((bg.2 : Int) - bg.1) ≠ 0 := by simpa using hden
    split at h
    · split at h
      · injection h with h1 h2; omega
      · injection h with h1 h2; omega
    · split at h
      · injection h with h1 h2; omega
      · injection h with h1 h2; omega

/-- **Without a background signal (`bg = 0`) the score is the foreground score clipped at 0** -/
theorem bgNorm_no_background (a : Int) (b e : Nat) (hb : 0 < b) (he : 0 < e) :
    ∃ n d, bgNorm (a, b) (0, e) = .fin n d ∧ 0 < d ∧ n * (b : Int) = max a 0 * (d : Int) := by
  have hpos : (0 : Int) < (b : Int) * (e : Int) := Int.mul_pos (by omega) (by omega)
  have h1 : ((b : Int) * (e : Int) == 0) = false := by
    rw [beq_eq_false_iff_ne]; omega
  have h2 : ¬ (b : Int) * (e : Int) < 0 := by omega
  unfold bgNorm
  simp only [Int.zero_mul, Int.sub_zero, h1, h2, Bool.false_eq_true, if_false]
  by_cases ha : a * (e : Int) ≤ 0
  · refine ⟨0, 1, by simp [ha], by omega, ?_⟩
    have : a ≤ 0 := by
      by_contra h
      have : 0 < a * (e : Int) := Int.mul_pos (by omega) (by omega)
      omega
    simp [Int.max_eq_right this]
  · refine ⟨a * e, ((b : Int) * e).toNat, by simp [ha], by omega, ?_⟩
    have ha' : 0 ≤ a := by
      by_contra h
      have : a * (e : Int) < 0 := Int.mul_neg_of_neg_of_pos (by omega) (by omega)
      omega
    rw [Int.max_eq_left ha', Int.toNat_of_nonneg (by omega)]
    ring

/-- **A voxel that scores like its background scores 0** (for every background score other than 1) -/
theorem bgNorm_self (x : Int × Nat) (hb : 0 < x.2) (h1 : x.1 ≠ x.2) : bgNorm x x = .fin 0 1 := by
  unfold bgNorm
  have hnum : x.1 * (x.2 : Int) - x.1 * x.2 = 0 := by omega
  have hden : ¬ ((x.2 : Int) * ((x.2 : Int) - x.1) == 0) = true := by
    simp only [beq_iff_eq, Int.mul_eq_zero, not_or]
    omega
  simp only [hnum, hden, Bool.false_eq_true, if_false, Int.le_refl, if_true]
  split <;> rfl

/-- **A perfect foreground score stays perfect** under any background score below 1 -/
theorem bgNorm_one (b : Nat) (bg : Int × Nat) (hb : 0 < b) (hlt : bg.1 < bg.2) :
    ∃ n d, bgNorm ((b : Int), b) bg = .fin n d ∧ 0 < d ∧ n = (d : Int) := by
  have hd : (0 : Int) < (b : Int) * ((bg.2 : Int) - bg.1) := Int.mul_pos (by omega) (by omega)
  have e : (b : Int) * (bg.2 : Int) - bg.1 * (b : Int) = (b : Int) * ((bg.2 : Int) - bg.1) := by ring
  unfold bgNorm
  simp only [e]
  have h1 : ¬ ((b : Int) * ((bg.2 : Int) - bg.1) == 0) = true := by simp; omega
  have h2 : ¬ (b : Int) * ((bg.2 : Int) - bg.1) < 0 := by omega
  have h3 : ¬ (b : Int) * ((bg.2 : Int) - bg.1) ≤ 0 := by omega
  simp only [h1, h2, h3, Bool.false_eq_true, if_false]
  refine ⟨_, _, rfl, by omega, ?_⟩
  rw [Int.toNat_of_nonneg (by omega)]

example : bgNorm (3, 4) (1, 2) = .fin 2 4 ∧ bgNorm (1, 4) (1, 2) = .fin 0 1 ∧ bgNorm (3, 4) (4, 4) = .fin 0 1 ∧
    bgNorm (5, 4) (4, 4) = .inf ∧ bgNorm (1, 4) (6, 4) = .fin 20 8 := by decide


/-! ## Merging several results (`postprocess.merge_outputs`) -/

/-- the merged score bounds the running value and every input, and is one of them -/
theorem mergeVoxelFrom_score : ∀ (l : List Int) (lab : Nat) (c : Int × Nat),
    c.1 ≤ (mergeVoxelFrom c lab l).1 ∧ (∀ x ∈ l, x ≤ (mergeVoxelFrom c lab l).1) ∧
    ((mergeVoxelFrom c lab l).1 = c.1 ∨ (mergeVoxelFrom c lab l).1 ∈ l)
  | [], _, c => by simp [mergeVoxelFrom]
  | x :: xs, lab, c => by
    obtain ⟨h1, h2, h3⟩ := mergeVoxelFrom_score xs (lab + 1) (mergeStep c x lab)
    have hs : c.1 ≤ (mergeStep c x lab).1 ∧ x ≤ (mergeStep c x lab).1 ∧ ((mergeStep c x lab).1 = c.1 ∨ (mergeStep c x lab).1 = x) := by
      unfold mergeStep
      split
      · rename_i hlt
        exact ⟨by simp only; omega, by simp only; omega, Or.inr rfl⟩
      · rename_i hge
        exact ⟨Int.le_refl _, by omega, Or.inl rfl⟩
    simp only [mergeVoxelFrom]
    refine ⟨by omega, ?_, ?_⟩
    · intro y hy
      rcases List.mem_cons.mp hy with rfl | hy
      · omega
      · exact h2 y hy
    · rcases h3 with h3 | h3
      · rcases hs.2.2 with e | e
        · left; rw [h3, e]
        · right; rw [h3, e]; exact List.mem_cons_self
      · right; exact List.mem_cons_of_mem _ h3

/-- **The merged score map is the elementwise maximum of the inputs** -/
theorem mergeVoxel_score (all : List Int) (hne : all ≠ []) :
    (∀ x ∈ all, x ≤ (mergeVoxel all).1) ∧ (mergeVoxel all).1 ∈ all := by
  cases all with
  | nil => exact absurd rfl hne
  | cons first rest =>
    obtain ⟨h1, h2, h3⟩ := mergeVoxelFrom_score (first :: rest) 1 (first, 0)
    refine ⟨h2, ?_⟩
    rcases h3 with h3 | h3
    · show (mergeVoxelFrom (first, 0) 1 (first :: rest)).1 ∈ first :: rest
      rw [h3]; exact List.mem_cons_self
    · exact h3

/-- **and therefore does not depend on the order in which the input files are given** -/
theorem mergeVoxel_score_perm (a b : List Int) (h : a.Perm b) : (mergeVoxel a).1 = (mergeVoxel b).1 := by
  by_cases hne : a = []
  · subst hne; rw [h.symm.eq_nil]
  · have hnb : b ≠ [] := fun e => hne (by rw [e] at h; exact h.eq_nil)
    obtain ⟨a1, a2⟩ := mergeVoxel_score a hne
    obtain ⟨b1, b2⟩ := mergeVoxel_score b hnb
    have := a1 _ (h.symm.subset b2)
    have := b1 _ (h.subset a2)
    omega

/-- the label bookkeeping of the loop: either no input beats the running value (value and entity stay), or the entity is the
label of the *first* input that attains the final (strictly larger) value -/
theorem mergeVoxelFrom_entity : ∀ (l : List Int) (lab : Nat) (c : Int × Nat),
    (mergeVoxelFrom c lab l = c ∧ ∀ x ∈ l, x ≤ c.1) ∨
    (∃ j, (mergeVoxelFrom c lab l).2 = lab + j ∧ l[j]? = some (mergeVoxelFrom c lab l).1 ∧ c.1 < (mergeVoxelFrom c lab l).1 ∧
      ∀ i y, i < j → l[i]? = some y → y < (mergeVoxelFrom c lab l).1)
  | [], _, c => Or.inl ⟨rfl, by simp⟩
  | x :: xs, lab, c => by
    simp only [mergeVoxelFrom]
    have hstep : (c.1 < x ∧ mergeStep c x lab = (x, lab)) ∨ (x ≤ c.1 ∧ mergeStep c x lab = c) := by
      unfold mergeStep
      by_cases h : c.1 < x
      · left; exact ⟨h, by simp [h]⟩
      · right; exact ⟨by omega, by simp [h]⟩
    have ih := mergeVoxelFrom_entity xs (lab + 1) (mergeStep c x lab)
    generalize mergeStep c x lab = c' at hstep ih ⊢
    rcases ih with ⟨he, hall⟩ | ⟨j, hj1, hj2, hj3, hj4⟩
    · rcases hstep with ⟨hlt, rfl⟩ | ⟨hle, rfl⟩
      · right
        refine ⟨0, ?_, ?_, ?_, ?_⟩
        · rw [he]; rfl
        · rw [he]; rfl
        · rw [he]; exact hlt
        · intro i y hi; omega
      · left
        refine ⟨he, ?_⟩
        intro y hy
        rcases List.mem_cons.mp hy with rfl | hy
        · exact hle
        · exact hall y hy
    · right
      refine ⟨j + 1, by omega, by simpa using hj2, ?_, ?_⟩
      · rcases hstep with ⟨hlt, rfl⟩ | ⟨hle, rfl⟩
        · simp only at hj3; omega
        · exact hj3
      · intro i y hi hy
        cases i with
        | zero =>
          simp only [List.getElem?_cons_zero, Option.some.injEq] at hy
          subst hy
          rcases hstep with ⟨hlt, rfl⟩ | ⟨hle, rfl⟩
          · exact hj3
          · omega
        | succ i' =>
          simp only [List.getElem?_cons_succ] at hy
          exact hj4 i' y (by omega) hy

/-- **The entity map**: entity 0 means that no input exceeds the first one at that voxel; entity `e > 0` is the (1-based) position
of the *first* input file, in command-line order, whose value is the merged maximum -/
theorem mergeVoxel_entity (first : Int) (rest : List Int) :
    ((mergeVoxel (first :: rest)).2 = 0 ∧ (mergeVoxel (first :: rest)).1 = first ∧ ∀ x ∈ rest, x ≤ first) ∨
    (∃ j, (mergeVoxel (first :: rest)).2 = j + 1 ∧ (first :: rest)[j]? = some (mergeVoxel (first :: rest)).1 ∧
      first < (mergeVoxel (first :: rest)).1 ∧ ∀ i y, i < j → (first :: rest)[i]? = some y → y < (mergeVoxel (first :: rest)).1) := by
  show ((mergeVoxelFrom (first, 0) 1 (first :: rest)).2 = 0 ∧ _) ∨ _
  rcases mergeVoxelFrom_entity (first :: rest) 1 (first, 0) with ⟨he, hall⟩ | ⟨j, hj1, hj2, hj3, hj4⟩
  · left
    refine ⟨by rw [he], by show (mergeVoxelFrom (first, 0) 1 (first :: rest)).1 = first; rw [he], ?_⟩
    intro x hx
    exact hall x (List.mem_cons_of_mem _ hx)
  · right
    exact ⟨j, by show (mergeVoxelFrom (first, 0) 1 (first :: rest)).2 = j + 1; omega, hj2, hj3, hj4⟩

/-- **Witness: the entity map does depend on the order** - of two inputs that tie at a voxel the one listed first is credited
(the comparison is strict), so swapping them credits the other file; a voxel where no later input beats the first keeps entity 0 -/
theorem mergeVoxel_entity_order_current_quirk :
    mergeVoxel [1, 5, 5] = (5, 2) ∧ mergeVoxel [1, 5, 7] = (7, 3) ∧ mergeVoxel [1, 7, 5] = (7, 2) ∧
    mergeVoxel [5, 5, 1] = (5, 0) ∧ mergeVoxel [5, 1, 5] = (5, 0) := by decide

example : mergeVoxel [3, -2, 8, 8, 1] = (8, 3) := by decide

/-! ## deepen7: container bookkeeping, reference-point arithmetic, best entry of a sorted list -/

/-- `load_pickle` returns exactly one object per record read -/
theorem loadAll_length (rs : List Rec) : (loadAll rs).length = rs.length := by
  simp [loadAll]

/-- the round trip preserves the number of items: what is loaded back has as many entries as were handed to `write_pickle` -/
theorem roundtrip_length (fresh : Nat → String) (items : List Item) (i : Nat) (fs : FS) :
    (loadAll (writeItems fresh i fs items).1).length = items.length := by
  rw [loadAll_length, pickle_count]

/-- the records `write_pickle` pickles do not depend on the state of the file system (only the moved files do) -/
theorem writeItems_recs_fs_indep (fresh : Nat → String) : ∀ (items : List Item) (i : Nat) (fs fs' : FS),
    (writeItems fresh i fs items).1 = (writeItems fresh i fs' items).1
  | [], _, _, _ => rfl
  | .obj _ :: rest, i, fs, fs' => by
    simp only [writeItems]; exact congrArg _ (writeItems_recs_fs_indep fresh rest (i + 1) fs fs')
  | .tup _ _ :: rest, i, fs, fs' => by
    simp only [writeItems]; exact congrArg _ (writeItems_recs_fs_indep fresh rest (i + 1) fs fs')
  | .memmap _ _ f _ :: rest, i, fs, fs' => by
    simp only [writeItems]; exact congrArg _ (writeItems_recs_fs_indep fresh rest (i + 1) _ _)

/-- a memory map whose backing file is missing leaves the file system as it was (`FS.move` of an absent source) -/
theorem move_absent (fs : FS) (src dst : String) (h : FS.get fs src = none) : FS.move fs src dst = fs := by
  simp [FS.move, h]

/-- reading a result path right after `write_pickle` returns the records written -/
theorem write_then_read (d : Disk) (path : String) (rs : List Rec) :
    Disk.read (Disk.write d path rs) path = some rs := by
  simp [Disk.write, Disk.read]

/-- writing, loading and writing the same records again leaves the same disk model (the write is idempotent) -/
theorem write_idempotent (d : Disk) (path : String) (rs : List Rec) :
    Disk.write (Disk.write d path rs) path rs = Disk.write d path rs := by
  simp [Disk.write, List.filter_filter]

/-- the writer's tuple always has five members and ends with the metadata, for score-map and peak-list output alike -/
theorem writerLayout_shape (pc : Bool) : (writerLayout pc).length = 5 ∧ (writerLayout pc).getLast? = some .info := by
  cases pc <;> exact ⟨rfl, rfl⟩

/-- the box-centre reference point is the box corner shifted by `shape // 2` on every axis -/
theorem refPos_eq_boxPos : ∀ (ms : List Nat) (P0 : List Int), refPos ms P0 = boxPos P0 (ms.map (· / 2))
  | [], [] => rfl
  | [], _ :: _ => rfl
  | _ :: _, [] => rfl
  | m :: ms, p :: ps => by
    simp only [refPos, List.map_cons, boxPos]
    exact congrArg _ (refPos_eq_boxPos ms ps)

/-- **split-layout invariance / additivity**: shifting by `a` and then by `b` (chunk offset then local index, or planted
translation then centre shift) is shifting once by `a + b` -/
theorem boxPos_add : ∀ (P : List Int) (a b : List Nat),
    boxPos (boxPos P a) b = boxPos P (List.zipWith (· + ·) a b)
  | [], _, _ => by simp [boxPos]
  | _ :: _, [], [] => rfl
  | _ :: _, [], _ :: _ => rfl
  | _ :: _, _ :: _, [] => rfl
  | p :: ps, x :: xs, y :: ys => by
    simp only [boxPos, List.zipWith_cons_cons]
    rw [boxPos_add ps xs ys]
    congr 1
    omega

/-- the reported position does not depend on which part of it is attributed to the chunk offset and which to the local index -/
theorem boxPos_comm (P : List Int) (a b : List Nat) : boxPos (boxPos P a) b = boxPos (boxPos P b) a := by
  rw [boxPos_add, boxPos_add, List.zipWith_comm]
  simp only [Nat.add_comm]

/-- the reference point moves with the planted translation: planting the box `t` voxels further moves `P0 + m//2` by `t` -/
theorem refPos_translate : ∀ (ms : List Nat) (P : List Int) (t : List Nat),
    refPos ms (boxPos P t) = boxPos (refPos ms P) t
  | [], [], _ => by simp [refPos, boxPos]
  | [], _ :: _, [] => rfl
  | [], _ :: _, _ :: _ => rfl
  | _ :: _, [], _ => by simp [refPos, boxPos]
  | _ :: _, _ :: _, [] => rfl
  | m :: ms, p :: ps, x :: xs => by
    simp only [refPos, boxPos]
    rw [refPos_translate ms ps xs]
    congr 1
    omega

/-- sorting keeps every candidate: the sorted orientation list is as long as its input -/
theorem sortDesc_length (l : List Vox) : (sortDesc l).length = l.length := (sortDesc_perm l).length_eq

/-- **the best entry of the sorted list carries the maximum score** -/
theorem sortDesc_head_is_max (l : List Vox) (h : Vox) (t : List Vox) (hs : sortDesc l = h :: t) :
    h ∈ l ∧ ∀ v ∈ l, v.score ≤ h.score := by
  have hp := sortDesc_perm l
  have hd := sortDesc_desc l
  rw [hs] at hp hd
  refine ⟨hp.mem_iff.mp (List.mem_cons_self ..), fun v hv => ?_⟩
  have hv' : v ∈ h :: t := hp.mem_iff.mpr hv
  rcases List.mem_cons.mp hv' with rfl | hv''
  · exact le_refl _
  · exact (List.pairwise_cons.mp hd).1 v hv''

/-- **uniqueness of the best entry**: a candidate that strictly beats every other one is the first entry of the sorted list -/
theorem sortDesc_head_unique (l : List Vox) (p : Vox) (hp : p ∈ l) (hstrict : ∀ v ∈ l, v ≠ p → v.score < p.score) :
    (sortDesc l).head? = some p := by
  cases hs : sortDesc l with
  | nil =>
    have := sortDesc_length l
    rw [hs] at this
    cases l with
    | nil => cases hp
    | cons _ _ => simp at this
  | cons h t =>
    obtain ⟨hm, hmax⟩ := sortDesc_head_is_max l h t hs
    by_cases he : h = p
    · simp [he]
    · have := hstrict h hm he
      have := hmax p hp
      omega

example : (sortDesc [⟨[0], 1⟩, ⟨[1], 7⟩, ⟨[2], 3⟩]).head? = some ⟨[1], 7⟩ := by decide

/-- padding branch of one schedule call stated outright: with `--pad_edges` the target padding is the template box; without it
nothing is padded; the box handed over is the template only with Fourier padding -/
theorem schedCall_branches (tmpl : List Nat) (pf : Bool) :
    (schedCall tmpl pf true).padding = tmpl ∧ (schedCall tmpl pf false).padding = zerosLike tmpl ∧
    (schedCall tmpl true false).box = tmpl ∧ (schedCall tmpl false false).box = zerosLike tmpl := by
  cases pf <;> simp [schedCall, zerosLike]

/-- centring branch: the template is centred unless `--no_centering`, whatever the padding flags and the schedule -/
theorem scanFlags_centre (pe pf pfl nc : Bool) (cps : SchedCall → SchedAns) (tmpl tshape : List Nat) :
    (scanFlags pe pf pfl nc cps tmpl tshape).centre = !nc ∧ (scanFlags pe pf pfl nc cps tmpl tshape).padFourier = pf ∧
    (scanFlags pe pf pfl nc cps tmpl tshape).padTemplateFilter = pfl := ⟨rfl, rfl, rfl⟩

end Pm.C18
