import PytmeModel.Model.C18
import PytmeModel.Props.C01
import PytmeModel.Props.C03

/-! # C18 — command-line pipeline recovers a planted particle; results reload intact -/
namespace Pm.C18
open Pm.C01

/-- **The result container round-trips**: for any sequence of items (ordinary objects, tuples, memory maps) in which
no ordinary tuple starts with the marker string, loading what was written returns every item in order — ordinary
items unchanged, memory maps as maps of the relocated files with the same shape and dtype. -/
theorem pickle_roundtrip (fresh : Nat → String) : ∀ (items : List Item) (i : Nat) (fs : FS),
    NoFakeMarker items → loadAll (writeItems fresh i fs items).1 = expectedAll fresh i items
  | [], _, _, _ => rfl
  | .obj p :: rest, i, fs, h => by
    simp only [writeItems, loadAll, List.map_cons, loadRec, expectedAll, expected]
    exact congrArg _ (pickle_roundtrip fresh rest (i + 1) fs h)
  | .tup a b :: rest, i, fs, h => by
    obtain ⟨ha, hr⟩ := h
    simp only [writeItems, loadAll, List.map_cons, loadRec, expectedAll, expected]
    have : (a == "np.memmap") = false := by simpa using ha
    rw [this]
    exact congrArg _ (pickle_roundtrip fresh rest (i + 1) fs hr)
  | .memmap sh dt f c :: rest, i, fs, h => by
    simp only [writeItems, loadAll, List.map_cons, loadRec, expectedAll, expected]
    exact congrArg _ (pickle_roundtrip fresh rest (i + 1) (FS.move fs f (fresh i)) h)

/-- the number of records equals the number of items: nothing is dropped or duplicated -/
theorem pickle_count (fresh : Nat → String) : ∀ (items : List Item) (i : Nat) (fs : FS),
    (writeItems fresh i fs items).1.length = items.length
  | [], _, _ => rfl
  | .obj _ :: rest, i, fs => by simp [writeItems, pickle_count fresh rest]
  | .tup _ _ :: rest, i, fs => by simp [writeItems, pickle_count fresh rest]
  | .memmap _ _ _ _ :: rest, i, fs => by simp [writeItems, pickle_count fresh rest]

/-- moving a memory map's file keeps its content under the new name -/
theorem move_keeps_content (fs : FS) (src dst : String) (c : Nat) (h : FS.get fs src = some c) :
    FS.get (FS.move fs src dst) dst = some c := by
  unfold FS.move
  rw [h]
  simp [FS.get]

/-- **A path written again holds only the new records**: reading a result path returns what the last `write_pickle` to that
path wrote, whatever was written there (or elsewhere) before. -/
theorem rewrite_reads_last (d : Disk) (path : String) (a b : List Rec) :
    Disk.read (Disk.write (Disk.write d path a) path b) path = some b := by
  simp [Disk.write, Disk.read]

/-- writing one path leaves every other result file alone -/
theorem write_other_path (d : Disk) (p q : String) (rs : List Rec) (h : q ≠ p) :
    Disk.read (Disk.write d p rs) q = Disk.read d q := by
  have hpq : (p == q) = false := by simpa using fun e => h e.symm
  unfold Disk.read Disk.write
  simp only [List.find?_cons, hpq]
  congr 1
  rw [List.find?_filter]
  congr 1
  funext e
  by_cases hq : e.1 = q
  · simp [hq, h]
  · simp [hq]

/-- **Boundary distance**: a voxel that keeps exactly the requested distance from both faces of its axis is reported
(the bound is inclusive), one voxel closer to either face is not. -/
theorem kept_at_exact_distance (d n : Nat) (h : 2 * d < n) :
    keptAt d n d = true ∧ keptAt d n (n - 1 - d) = true ∧ (0 < d → keptAt d n (d - 1) = false) ∧ keptAt d n (n - d) = false := by
  refine ⟨?_, ?_, ?_, ?_⟩ <;> simp [keptAt] <;> omega

/-- the container's quirk, as a witness: an ordinary tuple that starts with the marker string is read back as a memory map -/
theorem fake_marker_current_quirk :
    loadAll (writeItems (fun _ => "x") 0 [] [.tup "np.memmap" "payload"]).1 ≠
      expectedAll (fun _ => "x") 0 [.tup "np.memmap" "payload"] := by decide

/-- **Frame of the planted particle.**  With the template's box corner at `P0`, the window the score map evaluates
at the reference position `P0 + m//2` is exactly the planted box: voxel `k` of the template meets target voxel `P0 + k`. -/
theorem planted_window_at_reference : ∀ (ms : List Nat) (P0 : List Int) (k : List Nat),
    ms.length = P0.length → inShape ms k = true → specIdx ms (refPos ms P0) k = boxPos P0 k
  | [], [], [], _, _ => rfl
  | m :: ms, p :: ps, k :: ks, hl, hk => by
    simp only [refPos, specIdx, boxPos]
    rw [planted_window_at_reference ms ps ks (by simpa using hl) (inShape_cons.mp hk).2]
    congr 1
    omega
  | [], _ :: _, _, hl, _ => by simp at hl
  | _ :: _, [], _, hl, _ => by simp at hl
  | [], [], _ :: _, _, hk => by simp [inShape] at hk
  | _ :: _, _ :: _, [], _, hk => by simp [inShape] at hk

/-- **The pipeline's best entry is the planted reference position** (exact arithmetic): if the target shows the
(rotated) template `g` in the box at `P0` — `f(P0 + k) = g(k)` wherever the mask is non-zero — then the masked
window at the reference position is the template, so (C03) its normalised score is exactly 1 and no other
translation scores higher; by C01 this is the value the FFT pipeline reports at that voxel, by C02 also when the
target is tiled, by C05 the peak caller reports that voxel in target coordinates. -/
theorem pipeline_best_is_planted {α : Type} [Field α] [LinearOrder α] [IsStrictOrderedRing α]
    (ms : List Nat) (P0 : List Int) (f g w : List Int → α) (hl : ms.length = P0.length)
    (hplant : ∀ k, inShape ms k = true → w (natsToInts k) * f (boxPos P0 k) = w (natsToInts k) * g (natsToInts k))
    (hn : 0 < (Pm.C03.Win.mk ms (fun k => w (natsToInts k)) (fun k => f (specIdx ms (refPos ms P0) k)) (fun k => g (natsToInts k))).n)
    (σ : α) (hσ : 0 < σ)
    (eσ : σ * σ = (Pm.C03.Win.mk ms (fun k => w (natsToInts k)) (fun k => f (specIdx ms (refPos ms P0) k)) (fun k => g (natsToInts k))).B
        / (Pm.C03.Win.mk ms (fun k => w (natsToInts k)) (fun k => f (specIdx ms (refPos ms P0) k)) (fun k => g (natsToInts k))).n) :
    let W := Pm.C03.Win.mk ms (fun k => w (natsToInts k)) (fun k => f (specIdx ms (refPos ms P0) k)) (fun k => g (natsToInts k))
    (W.N / σ) / (σ * W.n) = 1 := by
  intro W
  refine (Pm.C03.Win.planted_eq_one W ?_ hn σ hσ eσ).2.2
  intro k hk
  show w (natsToInts k) * f (specIdx ms (refPos ms P0) k) = w (natsToInts k) * g (natsToInts k)
  rw [planted_window_at_reference ms P0 k hl hk]
  exact hplant k hk

example : Disk.read (Disk.write (Disk.write (Disk.write [] "out.pickle" [Rec.obj "first run"]) "other" [Rec.obj "x"]) "out.pickle" [Rec.obj "second run"])
    "out.pickle" = some [Rec.obj "second run"] := by decide
example : keptAt 3 20 3 = true ∧ keptAt 3 20 16 = true ∧ keptAt 3 20 2 = false ∧ keptAt 3 20 17 = false := by decide
example : refPos [5, 4] [3, 7] = [5, 9] := by decide
example : loadAll (writeItems (fun i => s!"f{i}") 0 [("a", 7)] [.obj "scores", .memmap [2, 3] "f4" "a" 7, .tup "meta" "x"]).1
    = [.obj "scores", .memmap (encShape [2, 3] "f4" "f1"), .tup "meta" "x"] := by decide

end Pm.C18
