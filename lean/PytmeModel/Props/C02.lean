import PytmeModel.Model.C02
import PytmeModel.Extracted.C02
import PytmeModel.Props.C01
import PytmeModel.Props.C04
import PytmeModel.Props.C14
import Mathlib.Tactic.Ring
import Mathlib.Tactic.Linarith

/-! # C02 — results do not depend on splitting, job schedule or rotation order -/
namespace Pm.C02

/-! ## rotation chunking -/

theorem chunks_concat {α} (L : List α) (per : Nat) : ∀ c : Nat,
    ((List.range c).map (fun n => (L.drop (n * per)).take per)).flatten ++ L.drop (c * per) = L
  | 0 => by simp
  | c + 1 => by
    rw [List.range_succ, List.map_append, List.flatten_append]
    simp only [List.map_cons, List.map_nil, List.flatten_cons, List.flatten_nil, List.append_nil]
    rw [List.append_assoc]
    have : (L.drop (c * per)).take per ++ L.drop ((c + 1) * per) = L.drop (c * per) := by
      have h : (c + 1) * per = c * per + per := by ring
      rw [h, ← List.drop_drop]
      exact List.take_append_drop per (L.drop (c * per))
    rw [this]
    exact chunks_concat L per c

/-- **Rotation chunking loses and duplicates nothing**: for every list and every `n_jobs ≥ 1` (also more jobs than
rotations, where all but the last chunk are empty) the concatenation of the chunks is the list, in order. -/
theorem splitRotations_concat {α} (rots : List α) (nJobs : Nat) (h : 1 ≤ nJobs) :
    (splitRotations rots nJobs).flatten = rots := by
  obtain ⟨J, rfl⟩ : ∃ J, nJobs = J + 1 := ⟨nJobs - 1, by omega⟩
  unfold splitRotations
  simp only [Nat.add_sub_cancel]
  rw [List.range_succ, List.map_append, List.flatten_append]
  simp only [List.map_cons, List.map_nil, List.flatten_cons, List.flatten_nil, List.append_nil, if_true]
  have : (List.range J).map (fun n => if n = J then rots.drop (n * (rots.length / (J + 1)))
        else (rots.drop (n * (rots.length / (J + 1)))).take (rots.length / (J + 1)))
      = (List.range J).map (fun n => (rots.drop (n * (rots.length / (J + 1)))).take (rots.length / (J + 1))) := by
    apply List.map_congr_left
    intro n hn
    have : n ≠ J := by have := List.mem_range.mp hn; omega
    simp [this]
  rw [this]
  exact chunks_concat rots _ J

theorem splitRotations_length {α} (rots : List α) (nJobs : Nat) : (splitRotations rots nJobs).length = nJobs := by
  simp [splitRotations]

/-! ## the per-rotation loop bodies do not depend on earlier rotations -/

/-- two buffer states agree on a set of buffers -/
def AgreeOn {V} (D : List Nat) (s s' : Nat → V) : Prop := ∀ b, D.contains b = true → s b = s' b

theorem map_agree {V} (D rs : List Nat) (s s' : Nat → V) (h : AgreeOn D s s') (hr : rs.all D.contains = true) :
    rs.map s = rs.map s' := by
  apply List.map_congr_left
  intro b hb
  exact h b (List.all_eq_true.mp hr b hb)

/-- **Definedness ⇒ history freedom (one iteration).**  If the static check passes, then running the body from
any two buffer states that agree on the defined set (initially: the read-only inputs) emits the same outputs,
the final states agree on the defined set, and the inputs are untouched. -/
theorem exec_indep {V} (sem : Nat → List V → V) (inputs : List Nat) :
    ∀ (p : Prog) (D : List Nat) (i : Nat) (s s' : Nat → V),
      defBeforeUse inputs D p = true → AgreeOn D s s' →
      (exec sem i s p).2 = (exec sem i s' p).2 ∧
      (∀ b, inputs.contains b = true → (exec sem i s p).1 b = s b)
  | [], _, _, _, _, _, _ => by simp [exec]
  | .fill b :: p, D, i, s, s', hd, ha => by
    simp only [defBeforeUse, Bool.and_eq_true, Bool.not_eq_true'] at hd
    have ih := exec_indep sem inputs p (b :: D) (i + 1)
      (fun x => if x = b then sem i [] else s x) (fun x => if x = b then sem i [] else s' x) hd.2
      (by intro x hx; by_cases hxb : x = b
          · simp [hxb]
          · simp only [hxb, if_false]; apply ha
            simpa [List.contains_cons, hxb] using hx)
    refine ⟨ih.1, ?_⟩
    intro x hx
    rw [exec, ih.2 x hx]
    have : x ≠ b := by rintro rfl; rw [hd.1] at hx; exact absurd hx (by simp)
    simp [this]
  | .partialW b rs :: p, D, i, s, s', hd, ha => by
    simp only [defBeforeUse, Bool.and_eq_true, Bool.not_eq_true'] at hd
    obtain ⟨⟨⟨hin, hb⟩, hrs⟩, hrest⟩ := hd
    have e1 : s b = s' b := ha b hb
    have e2 := map_agree D rs s s' ha hrs
    have ih := exec_indep sem inputs p D (i + 1)
      (fun x => if x = b then sem i (s b :: rs.map s) else s x)
      (fun x => if x = b then sem i (s' b :: rs.map s') else s' x) hrest
      (by intro x hx; by_cases hxb : x = b
          · simp [hxb, e1, e2]
          · simp only [hxb, if_false]; exact ha x hx)
    refine ⟨ih.1, ?_⟩
    intro x hx
    rw [exec, ih.2 x hx]
    have : x ≠ b := by rintro rfl; rw [hin] at hx; exact absurd hx (by simp)
    simp [this]
  | .fullW b rs :: p, D, i, s, s', hd, ha => by
    simp only [defBeforeUse, Bool.and_eq_true, Bool.not_eq_true'] at hd
    obtain ⟨⟨hin, hrs⟩, hrest⟩ := hd
    have e2 := map_agree D rs s s' ha hrs
    have ih := exec_indep sem inputs p (b :: D) (i + 1)
      (fun x => if x = b then sem i (rs.map s) else s x)
      (fun x => if x = b then sem i (rs.map s') else s' x) hrest
      (by intro x hx; by_cases hxb : x = b
          · simp [hxb, e2]
          · simp only [hxb, if_false]; apply ha
            simpa [List.contains_cons, hxb] using hx)
    refine ⟨ih.1, ?_⟩
    intro x hx
    rw [exec, ih.2 x hx]
    have : x ≠ b := by rintro rfl; rw [hin] at hx; exact absurd hx (by simp)
    simp [this]
  | .read rs :: p, D, i, s, s', hd, ha => by
    simp only [defBeforeUse, Bool.and_eq_true] at hd
    have ih := exec_indep sem inputs p D (i + 1) s s' hd.2 ha
    exact ⟨by simpa [exec] using ih.1, by intro x hx; rw [exec]; exact ih.2 x hx⟩
  | .out b :: p, D, i, s, s', hd, ha => by
    simp only [defBeforeUse, Bool.and_eq_true] at hd
    have ih := exec_indep sem inputs p D (i + 1) s s' hd.2 ha
    refine ⟨?_, ?_⟩
    · simp only [exec]; rw [ih.1, ha b hd.1]
    · intro x hx; simp only [exec]; exact ih.2 x hx

/-- **The score map of a rotation never depends on which rotations the worker evaluated before it.**
For a loop body that passes the static check, whatever history `hs` precedes rotation `r` and whatever the
scratch buffers held initially, what is emitted for `r` is what a fresh worker emits for `r`. -/
theorem history_free {V R} (sem : R → Nat → List V → V) (inputs : List Nat) (prog : Prog)
    (hok : defBeforeUse inputs inputs prog = true) (s s' : Nat → V) (hs : List R) (r : R)
    (hin : AgreeOn inputs s s') :
    (runHistory sem prog s (hs ++ [r])).getLast? = some (exec (sem r) 0 s' prog).2 := by
  induction hs generalizing s with
  | nil =>
    simp only [List.nil_append, runHistory, List.getLast?_singleton]
    rw [(exec_indep (sem r) inputs prog inputs 0 s s' hok hin).1]
  | cons h hs ih =>
    simp only [List.cons_append, runHistory]
    have hstep := (exec_indep (sem h) inputs prog inputs 0 s s hok (fun _ _ => rfl)).2
    have := ih (exec (sem h) 0 s prog).1 (by
      intro b hb; rw [hstep b hb]; exact hin b hb)
    rw [List.getLast?_cons_of_ne_nil] at *
    · exact this
    all_goals (cases hs <;> simp [runHistory])

/-- the three loop bodies as they stand in /repo (extracted on every run) pass the static check -/
theorem scoring_loops_history_free :
    defBeforeUse corrInputs corrInputs corrLoop = true ∧
    defBeforeUse flcInputs flcInputs flcLoop = true ∧
    defBeforeUse mccInputs mccInputs mccLoop = true := by decide

/-- what a dropped `be.fill(arr, 0)` looks like: the partly written buffer is not defined, the check fails -/
theorem missing_fill_rejected :
    defBeforeUse [0] [0] [.partialW 1 [0], .fullW 2 [1], .out 2] = false := by decide

/-- … and the dependence is real: with a semantics that lets the old content show, two histories differ -/
theorem missing_fill_depends_on_history :
    ∃ (s s' : Nat → Nat), AgreeOn [0] s s' ∧
      (exec (fun _ vals => vals.foldl (· + ·) 0) 0 s [.partialW 1 [0], .out 1]).2 ≠
      (exec (fun _ vals => vals.foldl (· + ·) 0) 0 s' [.partialW 1 [0], .out 1]).2 :=
  ⟨fun _ => 0, fun b => if b = 1 then 5 else 0, by intro b hb; simp at hb; simp [hb], by decide⟩

/-! ## aggregation is order- and grouping-free (from C04) -/

open Pm.C04 in
/-- the aggregated map does not depend on the order in which a worker (or several workers) submit the
(score array, rotation) pairs: any permutation of the rotation list gives the same map -/
theorem aggregate_rotation_order_free {K : Type} [DecidableEq K] (shape : List Nat) (thr : Int)
    (h h' : List (Arr Int × K)) (hp : h.Perm h') (idx : List Nat) (hin : inShape shape idx = true) :
    (run shape thr h).scores.getD idx 0 = (run shape thr h').scores.getD idx 0 :=
  scores_order_free shape thr h h' hp idx hin

open Pm.C04 in
/-- merging the tile results in any order gives the same map at every global position -/
theorem merge_tile_order_free {K : Type} [DecidableEq K] {thr : Int} {d : Nat} (ts ts' : List (Tile K))
    (hp : ts.Perm ts') (hd : ∀ t ∈ ts, t.offset.length = d ∧ t.shape.length = d)
    {M M' : Store K} (hM : merge thr (ts.map (tileStore thr)) = some M)
    (hM' : merge thr (ts'.map (tileStore thr)) = some M') (p : List Nat) :
    M.valOr thr p = M'.valOr thr p :=
  merge_any_order ts ts' hp hd hM hM' p

/-! ## the inner job count does not matter -/

open Pm.C04 in
/-- what every analyzer of a job reads at an absolute voxel only depends on the rotations the job was given -/
theorem allVals_chunks {K : Type} (off shape : List Nat) (chunks : List (List (Arr Int × K))) (p : List Nat) :
    allVals (chunks.map (fun c => (⟨off, shape, c⟩ : Tile K))) p = tileVals (⟨off, shape, chunks.flatten⟩ : Tile K) p := by
  induction chunks with
  | nil => simp [allVals, tileVals, valsAt]; cases localIdx off shape p <;> rfl
  | cons c cs ih =>
    have : allVals ((c :: cs).map (fun c => (⟨off, shape, c⟩ : Tile K))) p
        = tileVals (⟨off, shape, c⟩ : Tile K) p ++ allVals (cs.map (fun c => (⟨off, shape, c⟩ : Tile K))) p := by
      simp [allVals]
    rw [this, ih]
    simp only [tileVals, List.flatten_cons]
    cases localIdx off shape p with
    | none => rfl
    | some q => simp [valsAt]

open Pm.C04 in
/-- **`scan(n_jobs = k)` = `scan(n_jobs = 1)`** (any threshold, any number of jobs, also more jobs than rotations):
the rotation list is cut into `k` chunks (`_split_rotations_on_jobs`), every job aggregates its chunk in an analyzer of
its own, `merge` combines the analyzers; at every absolute voxel the merged map holds the value the single job holds. -/
theorem chunked_jobs_eq_single_job {K : Type} [DecidableEq K] {thr : Int} (off shape : List Nat)
    (h : List (Arr Int × K)) (nJobs : Nat) (hj : 1 ≤ nJobs) (hd : off.length = shape.length)
    {M M1 : Store K}
    (hM : merge thr (((splitRotations h nJobs).map (fun c => (⟨off, shape, c⟩ : Tile K))).map (tileStore thr)) = some M)
    (hM1 : merge thr ([(⟨off, shape, h⟩ : Tile K)].map (tileStore thr)) = some M1) (p : List Nat) :
    M.valOr thr p = M1.valOr thr p := by
  have key : ∀ {T : Store K} {us : List (Tile K)}, Represents thr T us → T.valOr thr p = specMax thr (allVals us p) := by
    intro T us RT
    simp only [Store.valOr, Store.valAt?]
    cases hl : localIdx T.offset T.scores.shape p with
    | none => simp [RT.outside p hl, specMax_nil]
    | some q => simpa using (RT.cell p q hl).1
  have R := merge_tiles_represents (d := shape.length) _ (by
    intro t ht
    obtain ⟨c, _, rfl⟩ := List.mem_map.mp ht
    exact ⟨hd, rfl⟩) hM
  have R1 := merge_tiles_represents (d := shape.length) [(⟨off, shape, h⟩ : Tile K)] (by
    intro t ht
    simp at ht
    subst ht
    exact ⟨hd, rfl⟩) hM1
  rw [key R, key R1, allVals_chunks, splitRotations_concat h nJobs hj, allVals_single]

example : (splitRotations [1, 2, 3] 5).flatten = [1, 2, 3] := by decide
open Pm.C04 in
/-- the hypotheses are satisfiable: three rotations on two jobs and on one job, both merges succeed -/
example : (merge 0 (((splitRotations [(exA, "r0"), (exB, "r1"), (exC, "r2")] 2).map
      (fun c => (⟨[0], [2], c⟩ : Tile String))).map (tileStore 0))).isSome = true
    ∧ (merge 0 ([(⟨[0], [2], [(exA, "r0"), (exB, "r1"), (exC, "r2")]⟩ : Tile String)].map (tileStore 0))).isSome = true := by
  decide

/-! ## tiles with edge padding give the unsplit (padded) result -/

open Pm.C01

/-- per-axis `off + q` -/
def shiftL : List Int → List Int → List Int
  | o :: os, q :: qs => (o + q) :: shiftL os qs
  | _, _ => []

/-- `q` is an index of a box of shape `ns` -/
def InBoxI : List Nat → List Int → Prop
  | [], [] => True
  | n :: ns, q :: qs => (0 ≤ q ∧ q < n) ∧ InBoxI ns qs
  | _, _ => False

/-- same global position: `offT + j = offU + J` on every axis (all lists of the template's rank) -/
def SamePos : List Nat → List Int → List Int → List Int → List Int → Prop
  | [], [], [], [], [] => True
  | _ :: ms, a :: as, j :: js, b :: bs, J :: Js => a + j = b + J ∧ SamePos ms as js bs Js
  | _, _, _, _, _ => False

theorem win_shift : ∀ (ms : List Nat) (offT j offU J : List Int) (k : List Nat),
    SamePos ms offT j offU J → inShape ms k = true →
    shiftL offT (specIdx ms (validT ms j) k) = shiftL offU (specIdx ms (validT ms J) k)
  | [], [], [], [], [], [], _, _ => rfl
  | m :: ms, a :: as, j :: js, b :: bs, J :: Js, k :: ks, h, hk => by
    simp only [validT, specIdx, shiftL]
    rw [win_shift ms as js bs Js ks h.2 (inShape_cons.mp hk).2]
    congr 1
    have := h.1
    omega
  | [], _, _, _, _, _ :: _, _, hk => by simp [inShape] at hk
  | _ :: _, _, _, _, _, [], _, hk => by simp [inShape] at hk
  | [], _ :: _, _, _, _, [], h, _ => by cases h
  | [], [], _ :: _, _, _, [], h, _ => by cases h
  | [], [], [], _ :: _, _, [], h, _ => by cases h
  | [], [], [], [], _ :: _, [], h, _ => by cases h
  | _ :: _, [], _, _, _, _ :: _, h, _ => by cases h
  | _ :: _, _ :: _, [], _, _, _ :: _, h, _ => by cases h
  | _ :: _, _ :: _, _ :: _, [], _, _ :: _, h, _ => by cases h
  | _ :: _, _ :: _, _ :: _, _ :: _, [], _ :: _, h, _ => by cases h

/-- every window of the `valid` frame lies inside the scored (padded) array: no zero padding, no wrap-around -/
theorem valid_window_in_box (pad : Bool) : ∀ (ns ms Ns : List Nat) (j : List Int) (k : List Nat),
    ValidOk pad ns ms Ns j → inShape ms k = true → InBoxI ns (specIdx ms (validT ms j) k)
  | [], [], [], [], [], _, _ => by simp [specIdx, InBoxI]
  | n :: ns, m :: ms, N :: Ns, j :: js, k :: ks, h, hk => by
    obtain ⟨⟨hm, hmn, _, hj0, hj1⟩, hrest⟩ := h
    obtain ⟨hk0, hkr⟩ := inShape_cons.mp hk
    simp only [validT, specIdx, InBoxI]
    refine ⟨?_, valid_window_in_box pad ns ms Ns js ks hrest hkr⟩
    simp only [validExt] at hj1
    omega
  | [], [], [], [], _ :: _, _, hk => by simp [inShape] at hk
  | _ :: _, _ :: _, _ :: _, _ :: _, [], _, hk => by simp [inShape] at hk
  | [], _ :: _, _, _, _, h, _ => by cases h
  | [], [], _ :: _, _, _, h, _ => by cases h
  | [], [], [], _ :: _, _, h, _ => by cases h
  | _ :: _, [], _, _, _, h, _ => by cases h
  | _ :: _, _ :: _, [], _, _, h, _ => by cases h
  | _ :: _, _ :: _, _ :: _, [], _, h, _ => by cases h

/-- **Tiles with edge padding = unsplit search with edge padding (whole map, exact arithmetic).**
`V` is the volume extended by mirroring; the padded tile `T` shows `V` shifted by `offT`, the padded whole
volume `U` shows `V` shifted by `offU` (C14: `tileAxis_src_real`, `tileAxis_src_mirror_lo/hi`).  Then the value a
tile reports at its cropped position `j` is the value the unsplit run reports at `J` whenever both address
the same global position — for every correlation map, hence (C01) for every score. -/
theorem tiled_eq_unsplit_padded {α} [CommSemiring α] (pad : Bool) (nsT nsU ms NsT NsU : List Nat)
    (T U V g : List Int → α) (offT offU j J : List Int)
    (hT : Supp nsT T) (hU : Supp nsU U) (hg : Supp ms g)
    (cT : ∀ q, InBoxI nsT q → T q = V (shiftL offT q)) (cU : ∀ q, InBoxI nsU q → U q = V (shiftL offU q))
    (hj : ValidOk pad nsT ms NsT j) (hJ : ValidOk pad nsU ms NsU J) (hpos : SamePos ms offT j offU J) :
    implCorr NsT ms (shiftsOf pad ms) (validCrops pad nsT ms) T g j
      = implCorr NsU ms (shiftsOf pad ms) (validCrops pad nsU ms) U g J := by
  rw [implCorr_valid pad nsT ms NsT j T g hT hg hj, implCorr_valid pad nsU ms NsU J U g hU hg hJ]
  unfold corrSpec
  apply sumShape_congr
  intro k hk
  rw [cT _ (valid_window_in_box pad nsT ms NsT j k hj hk), cU _ (valid_window_in_box pad nsU ms NsU J k hJ hk),
      win_shift ms offT j offU J k hpos hk]

/-- **Without edge padding**: a translation whose window lies inside one tile gets the unsplit value
(`same` frame on both sides; `T` shows the volume `U` shifted by the tile start). -/
theorem tiled_eq_unsplit_interior {α} [CommSemiring α] (pad : Bool) (nsT nsU ms NsT NsU : List Nat)
    (T U g : List Int → α) (off t tG : List Int)
    (hT : Supp nsT T) (hU : Supp nsU U) (hg : Supp ms g)
    (ht : SameOk pad nsT ms NsT t) (hG : SameOk pad nsU ms NsU tG)
    (hwin : ∀ k, inShape ms k = true → T (specIdx ms t k) = U (specIdx ms tG k)) :
    implCorr NsT ms (shiftsOf pad ms) (sameCrops pad nsT ms) T g t
      = implCorr NsU ms (shiftsOf pad ms) (sameCrops pad nsU ms) U g tG := by
  rw [implCorr_same pad nsT ms NsT t T g hT hg ht, implCorr_same pad nsU ms NsU tG U g hU hg hG]
  unfold corrSpec
  apply sumShape_congr
  intro k hk
  rw [hwin k hk]

/-! ### where the content hypotheses come from: C14's tile extraction -/

/-- the volume extended by a single mirror reflection about its first / last voxel -/
def reflectV (N : Nat) (pos : Int) : Int :=
  if pos < 0 then -pos else if (N : Int) ≤ pos then 2 * ((N : Int) - 1) - pos else pos

open Pm.C14 in
/-- **A padded tile shows the mirrored volume shifted by `start − left`** (one axis): as long as the margin does not
exceed the extracted data (single reflection), voxel `q` of the tile is voxel `reflectV N (start − left + q)` of the
volume — the addressed voxels and real neighbours inside, mirrored data beyond either edge.  This is the content
hypothesis `cT` / `cU` of `tiled_eq_unsplit_padded`, for every tile and for the unsplit padded volume alike. -/
theorem tile_axis_shows_reflectV (N start stop p q : Nat) (h1 : start < stop) (h2 : stop ≤ N)
    (hq : q < (tileAxis N start stop p).extent)
    (hsingle : ((p + p % 2) / 2 : Nat) ≤ (tileAxis N start stop p).arrStop - (tileAxis N start stop p).arrStart - 1) :
    ((tileAxis N start stop p).src q : Int) = reflectV N ((start : Int) - ((p + p % 2) / 2 : Nat) + q) := by
  have hf := tileAxis_fields N start stop p (by omega) h2
  simp only at hf
  obtain ⟨f1, f2, f3, f4, f5, f6, f7, f8, f9, f10⟩ := hf
  have hext : (tileAxis N start stop p).extent
      = (tileAxis N start stop p).padLo + ((tileAxis N start stop p).arrStop - (tileAxis N start stop p).arrStart)
        + (tileAxis N start stop p).padHi := rfl
  unfold reflectV
  split
  · rename_i hneg
    exact tileAxis_src_mirror_lo N start stop p q h1 h2 _ rfl hneg (by omega)
  · split
    · rename_i hge
      exact tileAxis_src_mirror_hi N start stop p q h1 h2 _ rfl hge hq (by omega)
    · exact tileAxis_src_real N start stop p q h1 h2 _ rfl ⟨by omega, by omega⟩ hq

/-- one axis of a tile request: volume extent, slice, requested padding -/
structure AxSpec where
  N : Nat
  start : Nat
  stop : Nat
  p : Nat

open Pm.C14 in
def AxSpec.ta (a : AxSpec) : TileAxis := tileAxis a.N a.start a.stop a.p
def AxSpec.left (a : AxSpec) : Nat := (a.p + a.p % 2) / 2
/-- well-formed slice whose margin stays within one reflection of the extracted data -/
def AxSpec.Ok (a : AxSpec) : Prop :=
  a.start < a.stop ∧ a.stop ≤ a.N ∧ a.left ≤ a.ta.arrStop - a.ta.arrStart - 1

/-- source voxel of tile position `q`, all axes -/
def tileSrc : List AxSpec → List Int → List Int
  | a :: as, q :: qs => ((a.ta.src q.toNat : Nat) : Int) :: tileSrc as qs
  | _, _ => []
def tileExt (axes : List AxSpec) : List Nat := axes.map (fun a => a.ta.extent)
def tileOff (axes : List AxSpec) : List Int := axes.map (fun a => (a.start : Int) - a.left)
def vRefl : List AxSpec → List Int → List Int
  | a :: as, x :: xs => reflectV a.N x :: vRefl as xs
  | _, _ => []

/-- **n-D: a padded tile shows the mirrored volume shifted by the tile's (start − left).**  Every in-box position of the
tile reads the voxel `reflectV(off + q)` on every axis. -/
theorem tileSrc_eq_vRefl : ∀ (axes : List AxSpec) (q : List Int), (∀ a ∈ axes, a.Ok) → InBoxI (tileExt axes) q →
    tileSrc axes q = vRefl axes (shiftL (tileOff axes) q)
  | [], [], _, _ => rfl
  | a :: as, q :: qs, hok, hq => by
    obtain ⟨⟨hq0, hq1⟩, hqr⟩ := hq
    have ha := hok a List.mem_cons_self
    simp only [tileSrc, tileOff, List.map_cons, shiftL, vRefl]
    have ih := tileSrc_eq_vRefl as qs (fun x hx => hok x (List.mem_cons_of_mem _ hx)) hqr
    simp only [tileOff] at ih
    rw [ih]
    congr 1
    have hqn : (q.toNat : Int) = q := Int.toNat_of_nonneg hq0
    have := tile_axis_shows_reflectV a.N a.start a.stop a.p q.toNat ha.1 ha.2.1 (by
      have : (q.toNat : Int) < (a.ta.extent : Int) := by rw [hqn]; exact hq1
      exact_mod_cast this) ha.2.2
    rw [hqn] at this
    exact this
  | [], _ :: _, _, hq => by cases hq
  | _ :: _, [], _, hq => by cases hq

/-- hence the content hypothesis of `tiled_eq_unsplit_padded`: a tile field that holds `vol[src(q)]` (what C14's
correspondence observes on real tiles) equals the mirrored volume `V = vol ∘ reflect` shifted by the tile offset -/
theorem tile_content_hypothesis {α} (vol T : List Int → α) (axes : List AxSpec) (hok : ∀ a ∈ axes, a.Ok)
    (hT : ∀ q, InBoxI (tileExt axes) q → T q = vol (tileSrc axes q)) :
    ∀ q, InBoxI (tileExt axes) q → T q = (fun pos => vol (vRefl axes pos)) (shiftL (tileOff axes) q) := by
  intro q hq
  rw [hT q hq, tileSrc_eq_vRefl axes q hok hq]

example : SamePos [3, 2] [4, 0] [1, 2] [0, 0] [5, 2] := by simp [SamePos]
example : (AxSpec.mk 10 0 4 4).Ok := by simp [AxSpec.Ok, AxSpec.left, AxSpec.ta, Pm.C14.tileAxis]
example : defBeforeUse corrInputs corrInputs corrLoop = true := by decide

end Pm.C02
