import PytmeModel.Model.C02
import PytmeModel.Extracted.C02
import PytmeModel.Props.C01
import PytmeModel.Props.C04
import PytmeModel.Props.C14
import PytmeModel.Proofs.C02Enum
import Mathlib.Tactic.Ring
import Mathlib.Tactic.Linarith

/-! # C02 — results do not depend on splitting, job schedule or rotation order -/
namespace Pm.C02

/-! ## rotation chunking -/

theorem chunks_concat {α} (L : List α) (per : Nat) : ∀ c : Nat,
    ((List.range c).map (fun n => (L.drop (n * per)).take per)).flatten ++ L.drop (c * per) = L
  | 0 => by simp
  | c + 1 => by
    rw [List.range_succ, List.map_append, List.flatten_append]
    simp only [List.map_cons, List.map_nil, List.flatten_cons, List.flatten_nil, List.append_nil]
    rw [List.append_assoc]
    have : (L.drop (c * per)).take per ++ L.drop ((c + 1) * per) = L.drop (c * per) := by
      have h : (c + 1) * per = c * per + per := by ring
      rw [h, ← List.drop_drop]
      exact List.take_append_drop per (L.drop (c * per))
    rw [this]
    exact chunks_concat L per c

/-- **Rotation chunking loses and duplicates nothing**: for every list and every `n_jobs ≥ 1` (also more jobs than
rotations, where all but the last chunk are empty) the concatenation of the chunks is the list, in order. -/
theorem splitRotations_concat {α} (rots : List α) (nJobs : Nat) (h : 1 ≤ nJobs) :
    (splitRotations rots nJobs).flatten = rots := by
  obtain ⟨J, rfl⟩ : ∃ J, nJobs = J + 1 := ⟨nJobs - 1, by omega⟩
  unfold splitRotations
  simp only [Nat.add_sub_cancel]
  rw [List.range_succ, List.map_append, List.flatten_append]
  simp only [List.map_cons, List.map_nil, List.flatten_cons, List.flatten_nil, List.append_nil, if_true]
  have : (List.range J).map (fun n => if n = J then rots.drop (n * (rots.length / (J + 1)))
        else (rots.drop (n * (rots.length / (J + 1)))).take (rots.length / (J + 1)))
      = (List.range J).map (fun n => (rots.drop (n * (rots.length / (J + 1)))).take (rots.length / (J + 1))) := by
    apply List.map_congr_left
    intro n hn
    have : n ≠ J := by have := List.mem_range.mp hn; omega
    simp [this]
  rw [this]
  exact chunks_concat rots _ J

theorem splitRotations_length {α} (rots : List α) (nJobs : Nat) : (splitRotations rots nJobs).length = nJobs := by
  simp [splitRotations]

/-- **Chunk sizes** (`_split_rotations_on_jobs`): the first `n_jobs - 1` chunks hold `len // n_jobs` rotations each, the last
one the remaining `len - (n_jobs - 1) (len // n_jobs)` (at least as many, at most `n_jobs - 1` more) -/
theorem splitRotations_chunk_lengths {α} (rots : List α) (n : Nat) (hn : 1 ≤ n) :
    (splitRotations rots n).map List.length
      = List.replicate (n - 1) (rots.length / n) ++ [rots.length - (n - 1) * (rots.length / n)] := by
  obtain ⟨J, rfl⟩ : ∃ J, n = J + 1 := ⟨n - 1, by omega⟩
  unfold splitRotations
  simp only [Nat.add_sub_cancel]
  rw [List.range_succ, List.map_append, List.map_append]
  congr 1
  · rw [List.eq_replicate_iff]
    refine ⟨by simp, ?_⟩
    intro x hx
    simp only [List.map_map, List.mem_map, List.mem_range] at hx
    obtain ⟨k, hk, rfl⟩ := hx
    have hkJ : k ≠ J := by omega
    simp only [Function.comp, hkJ, if_false, List.length_take, List.length_drop]
    have h1 : rots.length / (J + 1) * (J + 1) ≤ rots.length := Nat.div_mul_le_self _ _
    have h2 : (k + 1) * (rots.length / (J + 1)) ≤ (J + 1) * (rots.length / (J + 1)) :=
      Nat.mul_le_mul_right _ (by omega)
    rw [Nat.succ_mul] at h2
    rw [Nat.mul_comm] at h1
    omega
  · simp [List.length_drop]
example : (splitRotations [1, 2, 3, 4, 5, 6, 7] 3).map List.length = [2, 2, 3] ∧ (splitRotations [1, 2] 5).map List.length = [0, 0, 0, 0, 2] := by decide

/-! ## the per-rotation loop bodies do not depend on earlier rotations -/

/-- two buffer states agree on a set of buffers -/
def AgreeOn {V} (D : List Nat) (s s' : Nat → V) : Prop := ∀ b, D.contains b = true → s b = s' b

theorem map_agree {V} (D rs : List Nat) (s s' : Nat → V) (h : AgreeOn D s s') (hr : rs.all D.contains = true) :
    rs.map s = rs.map s' := by
  apply List.map_congr_left
  intro b hb
  exact h b (List.all_eq_true.mp hr b hb)

/-- **Definedness ⇒ history freedom (one iteration).**  If the static check passes, then running the body from
any two buffer states that agree on the defined set (initially: the read-only inputs) emits the same outputs,
the final states agree on the defined set, and the inputs are untouched. -/
theorem exec_indep {V} (sem : Nat → List V → V) (inputs : List Nat) :
    ∀ (p : Prog) (D : List Nat) (i : Nat) (s s' : Nat → V),
      defBeforeUse inputs D p = true → AgreeOn D s s' →
      (exec sem i s p).2 = (exec sem i s' p).2 ∧
      (∀ b, inputs.contains b = true → (exec sem i s p).1 b = s b)
  | [], _, _, _, _, _, _ => by simp [exec]
  | .fill b :: p, D, i, s, s', hd, ha => by
    simp only [defBeforeUse, Bool.and_eq_true, Bool.not_eq_true'] at hd
    have ih := exec_indep sem inputs p (b :: D) (i + 1)
      (fun x => if x = b then sem i [] else s x) (fun x => if x = b then sem i [] else s' x) hd.2
      (by intro x hx; by_cases hxb : x = b
          · simp [hxb]
          · simp only [hxb, if_false]; apply ha
            simpa [List.contains_cons, hxb] using hx)
    refine ⟨ih.1, ?_⟩
    intro x hx
    rw [exec, ih.2 x hx]
    have : x ≠ b := by rintro rfl; rw [hd.1] at hx; exact absurd hx (by simp)
    simp [this]
  | .partialW b rs :: p, D, i, s, s', hd, ha => by
    simp only [defBeforeUse, Bool.and_eq_true, Bool.not_eq_true'] at hd
    obtain ⟨⟨⟨hin, hb⟩, hrs⟩, hrest⟩ := hd
    have e1 : s b = s' b := ha b hb
    have e2 := map_agree D rs s s' ha hrs
    have ih := exec_indep sem inputs p D (i + 1)
      (fun x => if x = b then sem i (s b :: rs.map s) else s x)
      (fun x => if x = b then sem i (s' b :: rs.map s') else s' x) hrest
      (by intro x hx; by_cases hxb : x = b
          · simp [hxb, e1, e2]
          · simp only [hxb, if_false]; exact ha x hx)
    refine ⟨ih.1, ?_⟩
    intro x hx
    rw [exec, ih.2 x hx]
    have : x ≠ b := by rintro rfl; rw [hin] at hx; exact absurd hx (by simp)
    simp [this]
  | .fullW b rs :: p, D, i, s, s', hd, ha => by
    simp only [defBeforeUse, Bool.and_eq_true, Bool.not_eq_true'] at hd
    obtain ⟨⟨hin, hrs⟩, hrest⟩ := hd
    have e2 := map_agree D rs s s' ha hrs
    have ih := exec_indep sem inputs p (b :: D) (i + 1)
      (fun x => if x = b then sem i (rs.map s) else s x)
      (fun x => if x = b then sem i (rs.map s') else s' x) hrest
      (by intro x hx; by_cases hxb : x = b
          · simp [hxb, e2]
          · simp only [hxb, if_false]; apply ha
            simpa [List.contains_cons, hxb] using hx)
    refine ⟨ih.1, ?_⟩
    intro x hx
    rw [exec, ih.2 x hx]
    have : x ≠ b := by rintro rfl; rw [hin] at hx; exact absurd hx (by simp)
    simp [this]
  | .read rs :: p, D, i, s, s', hd, ha => by
    simp only [defBeforeUse, Bool.and_eq_true] at hd
    have ih := exec_indep sem inputs p D (i + 1) s s' hd.2 ha
    exact ⟨by simpa [exec] using ih.1, by intro x hx; rw [exec]; exact ih.2 x hx⟩
  | .out b :: p, D, i, s, s', hd, ha => by
    simp only [defBeforeUse, Bool.and_eq_true] at hd
    have ih := exec_indep sem inputs p D (i + 1) s s' hd.2 ha
    refine ⟨?_, ?_⟩
    · simp only [exec]; rw [ih.1, ha b hd.1]
    · intro x hx; simp only [exec]; exact ih.2 x hx

/-- **The score map of a rotation never depends on which rotations the worker evaluated before it.**
For a loop body that passes the static check, whatever history `hs` precedes rotation `r` and whatever the
scratch buffers held initially, what is emitted for `r` is what a fresh worker emits for `r`. -/
theorem history_free {V R} (sem : R → Nat → List V → V) (inputs : List Nat) (prog : Prog)
    (hok : defBeforeUse inputs inputs prog = true) (s s' : Nat → V) (hs : List R) (r : R)
    (hin : AgreeOn inputs s s') :
    (runHistory sem prog s (hs ++ [r])).getLast? = some (exec (sem r) 0 s' prog).2 := by
  induction hs generalizing s with
  | nil =>
    simp only [List.nil_append, runHistory, List.getLast?_singleton]
    rw [(exec_indep (sem r) inputs prog inputs 0 s s' hok hin).1]
  | cons h hs ih =>
    simp only [List.cons_append, runHistory]
    have hstep := (exec_indep (sem h) inputs prog inputs 0 s s hok (fun _ _ => rfl)).2
    have := ih (exec (sem h) 0 s prog).1 (by
      intro b hb; rw [hstep b hb]; exact hin b hb)
    rw [List.getLast?_cons_of_ne_nil] at *
    · exact this
    all_goals (cases hs <;> simp [runHistory])

/-- the three loop bodies as they stand in /repo (extracted on every run) pass the static check -/
theorem scoring_loops_history_free :
    defBeforeUse corrInputs corrInputs corrLoop = true ∧
    defBeforeUse flcInputs flcInputs flcLoop = true ∧
    defBeforeUse mccInputs mccInputs mccLoop = true := by decide

/-- what a dropped `be.fill(arr, 0)` looks like: the partly written buffer is not defined, the check fails -/
theorem missing_fill_rejected :
    defBeforeUse [0] [0] [.partialW 1 [0], .fullW 2 [1], .out 2] = false := by decide

/-- … and the dependence is real: with a semantics that lets the old content show, two histories differ -/
theorem missing_fill_depends_on_history :
    ∃ (s s' : Nat → Nat), AgreeOn [0] s s' ∧
      (exec (fun _ vals => vals.foldl (· + ·) 0) 0 s [.partialW 1 [0], .out 1]).2 ≠
      (exec (fun _ vals => vals.foldl (· + ·) 0) 0 s' [.partialW 1 [0], .out 1]).2 :=
  ⟨fun _ => 0, fun b => if b = 1 then 5 else 0, by intro b hb; simp at hb; simp [hb], by decide⟩

/-! ## aggregation is order- and grouping-free (from C04) -/

open Pm.C04 in
/-- the aggregated map does not depend on the order in which a worker (or several workers) submit the
(score array, rotation) pairs: any permutation of the rotation list gives the same map -/
theorem aggregate_rotation_order_free {K : Type} [DecidableEq K] (shape : List Nat) (thr : Int)
    (h h' : List (Arr Int × K)) (hp : h.Perm h') (idx : List Nat) (hin : inShape shape idx = true) :
    (run shape thr h).scores.getD idx 0 = (run shape thr h').scores.getD idx 0 :=
  scores_order_free shape thr h h' hp idx hin

open Pm.C04 in
/-- merging the tile results in any order gives the same map at every global position -/
theorem merge_tile_order_free {K : Type} [DecidableEq K] {thr : Int} {d : Nat} (ts ts' : List (Tile K))
    (hp : ts.Perm ts') (hd : ∀ t ∈ ts, t.offset.length = d ∧ t.shape.length = d)
    {M M' : Store K} (hM : merge thr (ts.map (tileStore thr)) = some M)
    (hM' : merge thr (ts'.map (tileStore thr)) = some M') (p : List Nat) :
    M.valOr thr p = M'.valOr thr p :=
  merge_any_order ts ts' hp hd hM hM' p

/-! ## the inner job count does not matter -/

open Pm.C04 in
/-- what every analyzer of a job reads at an absolute voxel only depends on the rotations the job was given -/
theorem allVals_chunks {K : Type} (off shape : List Nat) (chunks : List (List (Arr Int × K))) (p : List Nat) :
    allVals (chunks.map (fun c => (⟨off, shape, c⟩ : Tile K))) p = tileVals (⟨off, shape, chunks.flatten⟩ : Tile K) p := by
  induction chunks with
  | nil => simp [allVals, tileVals, valsAt]; cases localIdx off shape p <;> rfl
  | cons c cs ih =>
    have : allVals ((c :: cs).map (fun c => (⟨off, shape, c⟩ : Tile K))) p
        = tileVals (⟨off, shape, c⟩ : Tile K) p ++ allVals (cs.map (fun c => (⟨off, shape, c⟩ : Tile K))) p := by
      simp [allVals]
    rw [this, ih]
    simp only [tileVals, List.flatten_cons]
    cases localIdx off shape p with
    | none => rfl
    | some q => simp [valsAt]

open Pm.C04 in
/-- **`scan(n_jobs = k)` = `scan(n_jobs = 1)`** (any threshold, any number of jobs, also more jobs than rotations) — the
single-tile case; the statement for the whole of `scan_subsets` (every tiling, outer and inner job counts together) is
`scan_subsets_schedule_free` below, of which this is the one-job corollary:
the rotation list is cut into `k` chunks (`_split_rotations_on_jobs`), every job aggregates its chunk in an analyzer of
its own, `merge` combines the analyzers; at every absolute voxel the merged map holds the value the single job holds. -/
theorem chunked_jobs_eq_single_job {K : Type} [DecidableEq K] {thr : Int} (off shape : List Nat)
    (h : List (Arr Int × K)) (nJobs : Nat) (hj : 1 ≤ nJobs) (hd : off.length = shape.length)
    {M M1 : Store K}
    (hM : merge thr (((splitRotations h nJobs).map (fun c => (⟨off, shape, c⟩ : Tile K))).map (tileStore thr)) = some M)
    (hM1 : merge thr ([(⟨off, shape, h⟩ : Tile K)].map (tileStore thr)) = some M1) (p : List Nat) :
    M.valOr thr p = M1.valOr thr p := by
  have key : ∀ {T : Store K} {us : List (Tile K)}, Represents thr T us → T.valOr thr p = specMax thr (allVals us p) := by
    intro T us RT
    simp only [Store.valOr, Store.valAt?]
    cases hl : localIdx T.offset T.scores.shape p with
    | none => simp [RT.outside p hl, specMax_nil]
    | some q => simpa using (RT.cell p q hl).1
  have R := merge_tiles_represents (d := shape.length) _ (by
    intro t ht
    obtain ⟨c, _, rfl⟩ := List.mem_map.mp ht
    exact ⟨hd, rfl⟩) hM
  have R1 := merge_tiles_represents (d := shape.length) [(⟨off, shape, h⟩ : Tile K)] (by
    intro t ht
    simp at ht
    subst ht
    exact ⟨hd, rfl⟩) hM1
  rw [key R, key R1, allVals_chunks, splitRotations_concat h nJobs hj, allVals_single]

example : (splitRotations [1, 2, 3] 5).flatten = [1, 2, 3] := by decide
open Pm.C04 in
/-- the hypotheses are satisfiable: three rotations on two jobs and on one job, both merges succeed -/
example : (merge 0 (((splitRotations [(exA, "r0"), (exB, "r1"), (exC, "r2")] 2).map
      (fun c => (⟨[0], [2], c⟩ : Tile String))).map (tileStore 0))).isSome = true
    ∧ (merge 0 ([(⟨[0], [2], [(exA, "r0"), (exB, "r1"), (exC, "r2")]⟩ : Tile String)].map (tileStore 0))).isSome = true := by
  decide

/-! ## tiles with edge padding give the unsplit (padded) result -/

open Pm.C01

/-- per-axis `off + q` -/
def shiftL : List Int → List Int → List Int
  | o :: os, q :: qs => (o + q) :: shiftL os qs
  | _, _ => []

/-- `q` is an index of a box of shape `ns` -/
def InBoxI : List Nat → List Int → Prop
  | [], [] => True
  | n :: ns, q :: qs => (0 ≤ q ∧ q < n) ∧ InBoxI ns qs
  | _, _ => False

/-- same global position: `offT + j = offU + J` on every axis (all lists of the template's rank) -/
def SamePos : List Nat → List Int → List Int → List Int → List Int → Prop
  | [], [], [], [], [] => True
  | _ :: ms, a :: as, j :: js, b :: bs, J :: Js => a + j = b + J ∧ SamePos ms as js bs Js
  | _, _, _, _, _ => False

theorem win_shift : ∀ (ms : List Nat) (offT j offU J : List Int) (k : List Nat),
    SamePos ms offT j offU J → inShape ms k = true →
    shiftL offT (specIdx ms (validT ms j) k) = shiftL offU (specIdx ms (validT ms J) k)
  | [], [], [], [], [], [], _, _ => rfl
  | m :: ms, a :: as, j :: js, b :: bs, J :: Js, k :: ks, h, hk => by
    simp only [validT, specIdx, shiftL]
    rw [win_shift ms as js bs Js ks h.2 (inShape_cons.mp hk).2]
    congr 1
    have := h.1
    omega
  | [], _, _, _, _, _ :: _, _, hk => by simp [inShape] at hk
  | _ :: _, _, _, _, _, [], _, hk => by simp [inShape] at hk
  | [], _ :: _, _, _, _, [], h, _ => by cases h
  | [], [], _ :: _, _, _, [], h, _ => by cases h
  | [], [], [], _ :: _, _, [], h, _ => by cases h
  | [], [], [], [], _ :: _, [], h, _ => by cases h
  | _ :: _, [], _, _, _, _ :: _, h, _ => by cases h
  | _ :: _, _ :: _, [], _, _, _ :: _, h, _ => by cases h
  | _ :: _, _ :: _, _ :: _, [], _, _ :: _, h, _ => by cases h
  | _ :: _, _ :: _, _ :: _, _ :: _, [], _ :: _, h, _ => by cases h

/-- every window of the `valid` frame lies inside the scored (padded) array: no zero padding, no wrap-around -/
theorem valid_window_in_box (pad : Bool) : ∀ (ns ms Ns : List Nat) (j : List Int) (k : List Nat),
    ValidOk pad ns ms Ns j → inShape ms k = true → InBoxI ns (specIdx ms (validT ms j) k)
  | [], [], [], [], [], _, _ => by simp [specIdx, InBoxI]
  | n :: ns, m :: ms, N :: Ns, j :: js, k :: ks, h, hk => by
    obtain ⟨⟨hm, hmn, _, hj0, hj1⟩, hrest⟩ := h
    obtain ⟨hk0, hkr⟩ := inShape_cons.mp hk
    simp only [validT, specIdx, InBoxI]
    refine ⟨?_, valid_window_in_box pad ns ms Ns js ks hrest hkr⟩
    simp only [validExt] at hj1
    omega
  | [], [], [], [], _ :: _, _, hk => by simp [inShape] at hk
  | _ :: _, _ :: _, _ :: _, _ :: _, [], _, hk => by simp [inShape] at hk
  | [], _ :: _, _, _, _, h, _ => by cases h
  | [], [], _ :: _, _, _, h, _ => by cases h
  | [], [], [], _ :: _, _, h, _ => by cases h
  | _ :: _, [], _, _, _, h, _ => by cases h
  | _ :: _, _ :: _, [], _, _, h, _ => by cases h
  | _ :: _, _ :: _, _ :: _, [], _, h, _ => by cases h

/-- **Tiles with edge padding = unsplit search with edge padding (whole map, exact arithmetic).**
`V` is the volume extended by mirroring; the padded tile `T` shows `V` shifted by `offT`, the padded whole
volume `U` shows `V` shifted by `offU` (C14: `tileAxis_src_real`, `tileAxis_src_mirror_lo/hi`).  Then the value a
tile reports at its cropped position `j` is the value the unsplit run reports at `J` whenever both address
the same global position — for every correlation map, hence (C01) for every score. -/
theorem tiled_eq_unsplit_padded {α} [CommSemiring α] (pad : Bool) (nsT nsU ms NsT NsU : List Nat)
    (T U V g : List Int → α) (offT offU j J : List Int)
    (hT : Supp nsT T) (hU : Supp nsU U) (hg : Supp ms g)
    (cT : ∀ q, InBoxI nsT q → T q = V (shiftL offT q)) (cU : ∀ q, InBoxI nsU q → U q = V (shiftL offU q))
    (hj : ValidOk pad nsT ms NsT j) (hJ : ValidOk pad nsU ms NsU J) (hpos : SamePos ms offT j offU J) :
    implCorr NsT ms (shiftsOf pad ms) (validCrops pad nsT ms) T g j
      = implCorr NsU ms (shiftsOf pad ms) (validCrops pad nsU ms) U g J := by
  rw [implCorr_valid pad nsT ms NsT j T g hT hg hj, implCorr_valid pad nsU ms NsU J U g hU hg hJ]
  unfold corrSpec
  apply sumShape_congr
  intro k hk
  rw [cT _ (valid_window_in_box pad nsT ms NsT j k hj hk), cU _ (valid_window_in_box pad nsU ms NsU J k hJ hk),
      win_shift ms offT j offU J k hpos hk]

/-- **Without edge padding**: a translation whose window lies inside one tile gets the unsplit value
(`same` frame on both sides; `T` shows the volume `U` shifted by the tile start). -/
theorem tiled_eq_unsplit_interior {α} [CommSemiring α] (pad : Bool) (nsT nsU ms NsT NsU : List Nat)
    (T U g : List Int → α) (off t tG : List Int)
    (hT : Supp nsT T) (hU : Supp nsU U) (hg : Supp ms g)
    (ht : SameOk pad nsT ms NsT t) (hG : SameOk pad nsU ms NsU tG)
    (hwin : ∀ k, inShape ms k = true → T (specIdx ms t k) = U (specIdx ms tG k)) :
    implCorr NsT ms (shiftsOf pad ms) (sameCrops pad nsT ms) T g t
      = implCorr NsU ms (shiftsOf pad ms) (sameCrops pad nsU ms) U g tG := by
  rw [implCorr_same pad nsT ms NsT t T g hT hg ht, implCorr_same pad nsU ms NsU tG U g hU hg hG]
  unfold corrSpec
  apply sumShape_congr
  intro k hk
  rw [hwin k hk]

/-! ### where the content hypotheses come from: C14's tile extraction -/

/-- the volume extended by a single mirror reflection about its first / last voxel -/
def reflectV (N : Nat) (pos : Int) : Int :=
  if pos < 0 then -pos else if (N : Int) ≤ pos then 2 * ((N : Int) - 1) - pos else pos

open Pm.C14 in
/-- **A padded tile shows the mirrored volume shifted by `start − left`** (one axis): as long as the margin does not
exceed the extracted data (single reflection), voxel `q` of the tile is voxel `reflectV N (start − left + q)` of the
volume — the addressed voxels and real neighbours inside, mirrored data beyond either edge.  This is the content
hypothesis `cT` / `cU` of `tiled_eq_unsplit_padded`, for every tile and for the unsplit padded volume alike. -/
theorem tile_axis_shows_reflectV (N start stop p q : Nat) (h1 : start < stop) (h2 : stop ≤ N)
    (hq : q < (tileAxis N start stop p).extent)
    (hsingle : ((p + p % 2) / 2 : Nat) ≤ (tileAxis N start stop p).arrStop - (tileAxis N start stop p).arrStart - 1) :
    ((tileAxis N start stop p).src q : Int) = reflectV N ((start : Int) - ((p + p % 2) / 2 : Nat) + q) := by
  have hf := tileAxis_fields N start stop p (by omega) h2
  simp only at hf
  obtain ⟨f1, f2, f3, f4, f5, f6, f7, f8, f9, f10⟩ := hf
  have hext : (tileAxis N start stop p).extent
      = (tileAxis N start stop p).padLo + ((tileAxis N start stop p).arrStop - (tileAxis N start stop p).arrStart)
        + (tileAxis N start stop p).padHi := rfl
  unfold reflectV
  split
  · rename_i hneg
    exact tileAxis_src_mirror_lo N start stop p q h1 h2 _ rfl hneg (by omega)
  · split
    · rename_i hge
      exact tileAxis_src_mirror_hi N start stop p q h1 h2 _ rfl hge hq (by omega)
    · exact tileAxis_src_real N start stop p q h1 h2 _ rfl ⟨by omega, by omega⟩ hq

/-- one axis of a tile request: volume extent, slice, requested padding -/
structure AxSpec where
  N : Nat
  start : Nat
  stop : Nat
  p : Nat

open Pm.C14 in
def AxSpec.ta (a : AxSpec) : TileAxis := tileAxis a.N a.start a.stop a.p
def AxSpec.left (a : AxSpec) : Nat := (a.p + a.p % 2) / 2
/-- well-formed slice whose margin stays within one reflection of the extracted data -/
def AxSpec.Ok (a : AxSpec) : Prop :=
  a.start < a.stop ∧ a.stop ≤ a.N ∧ a.left ≤ a.ta.arrStop - a.ta.arrStart - 1

/-- source voxel of tile position `q`, all axes -/
def tileSrc : List AxSpec → List Int → List Int
  | a :: as, q :: qs => ((a.ta.src q.toNat : Nat) : Int) :: tileSrc as qs
  | _, _ => []
def tileExt (axes : List AxSpec) : List Nat := axes.map (fun a => a.ta.extent)
def tileOff (axes : List AxSpec) : List Int := axes.map (fun a => (a.start : Int) - a.left)
def vRefl : List AxSpec → List Int → List Int
  | a :: as, x :: xs => reflectV a.N x :: vRefl as xs
  | _, _ => []

/-- **n-D: a padded tile shows the mirrored volume shifted by the tile's (start − left).**  Every in-box position of the
tile reads the voxel `reflectV(off + q)` on every axis. -/
theorem tileSrc_eq_vRefl : ∀ (axes : List AxSpec) (q : List Int), (∀ a ∈ axes, a.Ok) → InBoxI (tileExt axes) q →
    tileSrc axes q = vRefl axes (shiftL (tileOff axes) q)
  | [], [], _, _ => rfl
  | a :: as, q :: qs, hok, hq => by
    obtain ⟨⟨hq0, hq1⟩, hqr⟩ := hq
    have ha := hok a List.mem_cons_self
    simp only [tileSrc, tileOff, List.map_cons, shiftL, vRefl]
    have ih := tileSrc_eq_vRefl as qs (fun x hx => hok x (List.mem_cons_of_mem _ hx)) hqr
    simp only [tileOff] at ih
    rw [ih]
    congr 1
    have hqn : (q.toNat : Int) = q := Int.toNat_of_nonneg hq0
    have := tile_axis_shows_reflectV a.N a.start a.stop a.p q.toNat ha.1 ha.2.1 (by
      have : (q.toNat : Int) < (a.ta.extent : Int) := by rw [hqn]; exact hq1
      exact_mod_cast this) ha.2.2
    rw [hqn] at this
    exact this
  | [], _ :: _, _, hq => by cases hq
  | _ :: _, [], _, hq => by cases hq

/-- hence the content hypothesis of `tiled_eq_unsplit_padded`: a tile field that holds `vol[src(q)]` (what C14's
correspondence observes on real tiles) equals the mirrored volume `V = vol ∘ reflect` shifted by the tile offset -/
theorem tile_content_hypothesis {α} (vol T : List Int → α) (axes : List AxSpec) (hok : ∀ a ∈ axes, a.Ok)
    (hT : ∀ q, InBoxI (tileExt axes) q → T q = vol (tileSrc axes q)) :
    ∀ q, InBoxI (tileExt axes) q → T q = (fun pos => vol (vRefl axes pos)) (shiftL (tileOff axes) q) := by
  intro q hq
  rw [hT q hq, tileSrc_eq_vRefl axes q hok hq]

example : SamePos [3, 2] [4, 0] [1, 2] [0, 0] [5, 2] := by simp [SamePos]
example : (AxSpec.mk 10 0 4 4).Ok := by simp [AxSpec.Ok, AxSpec.left, AxSpec.ta, Pm.C14.tileAxis]
example : defBeforeUse corrInputs corrInputs corrLoop = true := by decide

/-! ## the orchestration: job enumeration of `scan_subsets` / `scan` (model: `enumJobs`, tied to the real calls by the
correspondence stream "scan_subsets job enumeration") -/

section enumeration
variable {R : Type}

/-- the tiling the enumeration uses is C14's `split_shape`, the padded tile C14's `subset_array` bookkeeping -/
theorem enum_tiling_is_C14 (shape splits : List Nat) (N p : Nat) (sl : Nat × Nat) :
    splitShape shape splits = Pm.C14.splitShape shape splits ∧
    paddedExtent N sl p = (Pm.C14.tileAxis N sl.1 sl.2 p).extent :=
  ⟨splitShape_eq_C14 shape splits, rfl⟩

/-- **No tile skipped, none issued twice, in `itertools.product` order**: the (target slice, template slice) pairs of the
jobs are exactly the pairs of the two splits, once each, for every schedule. -/
theorem enumJobs_pairs_exact (tgt tmpl tS mS : List Nat) (outer inner : Nat) (rots : List R) (pe : Bool) :
    (enumJobs tgt tmpl tS mS outer inner rots pe).map (fun J => (J.targetSlice, J.templateSlice))
      = splitPairs tgt tmpl tS mS := by
  unfold enumJobs
  rw [List.map_map]
  have := zipIdx_map_indep (splitPairs tgt tmpl tS mS)
    ((fun J : Job R => (J.targetSlice, J.templateSlice)) ∘ fun p => mkJob tgt tmpl outer inner rots pe p.1 p.2) id
    (fun tm i => rfl) 0
  simpa using this

/-- number of jobs = (number of target tiles) × (number of template parts) = product of the part counts -/
theorem enumJobs_count (tgt tmpl tS mS : List Nat) (outer inner : Nat) (rots : List R) (pe : Bool)
    (h1 : tgt.length = tS.length) (h2 : tmpl.length = mS.length) :
    (enumJobs tgt tmpl tS mS outer inner rots pe).length = prodL (tS.map (max · 1)) * prodL (mS.map (max · 1)) := by
  rw [enumJobs_length, splitPairs_length, splitShape_eq_C14, splitShape_eq_C14,
    Pm.C14.splitShape_length _ _ h1, Pm.C14.splitShape_length _ _ h2]

/-- jobs are numbered 0, 1, 2, … in creation order; the device number is that index modulo the outer job count;
every job gets `inner` rotation chunks whose concatenation is the rotation list; the analyzer's offset is the start of
the *target* slice whatever the template slice is -/
theorem enumJobs_bookkeeping (tgt tmpl tS mS : List Nat) (outer inner : Nat) (rots : List R) (pe : Bool) (hi : 1 ≤ inner) :
    (enumJobs tgt tmpl tS mS outer inner rots pe).map Job.index = List.range (splitPairs tgt tmpl tS mS).length ∧
    ∀ J ∈ enumJobs tgt tmpl tS mS outer inner rots pe,
      J.gpuIndex = J.index % outer ∧ J.chunks.length = inner ∧ J.chunks.flatten = rots ∧
      J.offset = J.targetSlice.map Prod.fst ∧ J.chunks = splitRotations rots inner := by
  refine ⟨enumJobs_index _ _ _ _ _ _ _ _, ?_⟩
  intro J hJ
  obtain ⟨tm, _, i, rfl⟩ := mem_enumJobs _ _ _ _ _ _ _ _ _ hJ
  exact ⟨rfl, by simp [mkJob, splitRotations], splitRotations_concat rots inner hi, rfl, rfl⟩

/-- the trivial template split: one part, the whole template -/
theorem splitShape_whole (tmpl mS : List Nat) (h : tmpl.length = mS.length) (hk : ∀ k ∈ mS, k ≤ 1) :
    splitShape tmpl mS = [tmpl.map (fun m => (0, m))] := by
  unfold splitShape
  induction tmpl generalizing mS with
  | nil => cases mS with
    | nil => rfl
    | cons => simp at h
  | cons m ms ih =>
    cases mS with
    | nil => simp at h
    | cons k ks =>
      have hk1 : max k 1 = 1 := by have := hk k List.mem_cons_self; omega
      simp only [List.zipWith_cons_cons, productL, List.map_cons]
      rw [ih ks (by simpa using h) (fun x hx => hk x (List.mem_cons_of_mem _ hx))]
      simp [splitAxis, hk1, tile, tileStart, tileLen, cdiv]

/-- **(a) Every (voxel of the unpadded target, rotation) pair is evaluated by some job, and reported at its own
position**: for every target shape, split vector, schedule (also more inner jobs than rotations) and padding flag there
is a job one of whose chunks holds the rotation and whose box `[offset, offset + outShape)` contains the voxel; the
local cell `q` that `merge` reads for it satisfies `offset + q = p`.  (Whole template.) -/
theorem every_voxel_rotation_evaluated (tgt tmpl tS mS : List Nat) (outer inner : Nat) (rots : List R) (pe : Bool)
    (hl : tgt.length = tS.length) (hr : tgt.length = tmpl.length) (hpos : ∀ n ∈ tgt, 0 < n) (hi : 1 ≤ inner)
    (hm : splitShape tmpl mS = [tmpl.map (fun m => (0, m))])
    (p : List Nat) (hp : inShape tgt p = true) (r : R) (hrot : r ∈ rots) :
    ∃ J ∈ enumJobs tgt tmpl tS mS outer inner rots pe, (∃ c ∈ J.chunks, r ∈ c) ∧
      ∃ q, Pm.C04.localIdx J.offset J.outShape p = some q ∧ List.zipWith (· + ·) J.offset q = p := by
  obtain ⟨t, ht, hcov⟩ := Pm.C14.splitShape_covers tgt tS p hl hp
  rw [← splitShape_eq_C14] at ht
  have hpair : (t, tmpl.map (fun m => (0, m))) ∈ splitPairs tgt tmpl tS mS :=
    (mem_splitPairs _ _ _ _ _).mpr ⟨ht, by rw [hm]; exact List.mem_singleton.mpr rfl⟩
  obtain ⟨i, hJ⟩ := enumJobs_of_mem tgt tmpl tS mS outer inner rots pe _ hpair
  refine ⟨_, hJ, ?_, ?_⟩
  · have : r ∈ (splitRotations rots inner).flatten := by rw [splitRotations_concat rots inner hi]; exact hrot
    obtain ⟨c, hc, hrc⟩ := List.mem_flatten.mp this
    exact ⟨c, hc, hrc⟩
  · obtain ⟨hoff, hshape⟩ := mkJob_box tgt tmpl tS outer inner rots pe hl hr hpos t ht i
    rw [hoff, hshape]
    obtain ⟨q, hq⟩ := localIdx_of_in_slice t p hcov
    exact ⟨q, hq, localIdx_add hq⟩

/-- **(a) … and nothing is reported anywhere else**: whatever job holds a cell for the absolute voxel `p`, that cell
stands for `p` itself (`offset + q = p`) and `p` lies in the job's own target slice — two overlapping tiles report a
shared voxel at the same global position, never at two different ones.  (Whole template.) -/
theorem job_reports_own_slice (tgt tmpl tS mS : List Nat) (outer inner : Nat) (rots : List R) (pe : Bool)
    (hl : tgt.length = tS.length) (hr : tgt.length = tmpl.length) (hpos : ∀ n ∈ tgt, 0 < n)
    (hm : splitShape tmpl mS = [tmpl.map (fun m => (0, m))])
    (J : Job R) (hJ : J ∈ enumJobs tgt tmpl tS mS outer inner rots pe) (p q : List Nat)
    (hq : Pm.C04.localIdx J.offset J.outShape p = some q) :
    List.zipWith (· + ·) J.offset q = p ∧
    List.Forall₂ (fun (s : Nat × Nat) (i : Nat) => s.1 ≤ i ∧ i < s.2) J.targetSlice p ∧
    J.outShape = J.targetSlice.map (fun s => s.2 - s.1) := by
  obtain ⟨tm, htm, i, rfl⟩ := mem_enumJobs _ _ _ _ _ _ _ _ _ hJ
  obtain ⟨ht, hmm⟩ := (mem_splitPairs _ _ _ _ tm).mp htm
  rw [hm] at hmm
  obtain ⟨t, m⟩ := tm
  simp only [List.mem_singleton] at hmm
  subst hmm
  obtain ⟨hoff, hshape⟩ := mkJob_box tgt tmpl tS outer inner rots pe hl hr hpos t ht i
  simp only at ht
  refine ⟨localIdx_add hq, ?_, hshape⟩
  rw [hoff, hshape] at hq
  have hb := splitShape_in_bounds tgt tS hl hpos t ht
  refine in_slice_of_localIdx t p q ?_ hq
  intro s hs
  obtain ⟨N, _, h⟩ := forall₂_mem_left hb s hs
  omega

end enumeration

/-! ### (b) the schedule only changes the chunking -/

section schedule
variable {R : Type}

/-- **(b) The enumeration does not depend on the (outer, inner) job counts except for chunking**: job by job, in the same
order, the target slice, template slice, padding, offset, crop mode, tile shape, cropped shape and the concatenation of
the rotation chunks are the same for every two schedules (`inner ≥ 1`; also more inner jobs than rotations). -/
theorem enumJobs_schedule_free (tgt tmpl tS mS : List Nat) (o i o' i' : Nat) (rots : List R) (pe : Bool)
    (hi : 1 ≤ i) (hi' : 1 ≤ i') :
    (enumJobs tgt tmpl tS mS o i rots pe).map Job.core = (enumJobs tgt tmpl tS mS o' i' rots pe).map Job.core := by
  rw [enumJobs_core _ _ _ _ _ _ _ _ hi, enumJobs_core _ _ _ _ _ _ _ _ hi']

/-- the (target tile, template part, rotation) triples a schedule evaluates, in order -/
def evaluated (jobs : List (Job R)) : List (List (Nat × Nat) × List (Nat × Nat) × R) :=
  jobs.flatMap (fun J => J.chunks.flatten.map (fun r => (J.targetSlice, J.templateSlice, r)))

/-- **(b) The list (a fortiori the multiset) of evaluated (tile, template part, rotation) triples is the same for every
schedule**: it is every pair of the two splits combined with every rotation, each exactly once. -/
theorem evaluated_schedule_free (tgt tmpl tS mS : List Nat) (o i : Nat) (rots : List R) (pe : Bool) (hi : 1 ≤ i) :
    evaluated (enumJobs tgt tmpl tS mS o i rots pe)
      = (splitPairs tgt tmpl tS mS).flatMap (fun tm => rots.map (fun r => (tm.1, tm.2, r))) := by
  have h : ∀ jobs : List (Job R), evaluated jobs
      = (jobs.map Job.core).flatMap (fun c => c.rots.map (fun r => (c.targetSlice, c.templateSlice, r))) := by
    intro jobs; simp [evaluated, List.flatMap_map, Job.core]
  rw [h, enumJobs_core _ _ _ _ _ _ _ _ hi, List.flatMap_map]
  apply List.flatMap_congr
  intro tm _
  simp [coreOf, Job.core, mkJob, splitRotations_concat rots 1 (le_refl 1)]

variable {K : Type} [DecidableEq K]

open Pm.C04 in
/-- **`scan_subsets_schedule_free` (end to end)**: run `scan_subsets` under two schedules `(o, i)` and `(o', i')` on the
same target, template, split dictionaries, rotation list and padding flag: jobs as `enumJobs` lists them, every rotation
chunk aggregated by an analyzer of its own (C04 `run`), `scan` merging its analyzers, `scan_subsets` merging the jobs
(C04 `merge`, as called: `None` entries, single-entry shortcut).  Then the two merged results hold the same value at
every absolute voxel, for every threshold — also when there are more inner jobs than rotations. -/
theorem scan_subsets_schedule_free {thr : Int} (score : ScoreFn R K) (tgt tmpl tS mS : List Nat) (o i o' i' : Nat)
    (rots : List R) (pe : Bool) (hi : 1 ≤ i) (hi' : 1 ≤ i')
    (h1 : tgt.length = tS.length) (h2 : tmpl.length = mS.length) (h3 : tgt.length = tmpl.length)
    {M M' : Store K}
    (hM : scanSubsetsRun thr score (enumJobs tgt tmpl tS mS o i rots pe) = some M)
    (hM' : scanSubsetsRun thr score (enumJobs tgt tmpl tS mS o' i' rots pe) = some M') (p : List Nat) :
    M.valOr thr p = M'.valOr thr p := by
  rw [scanSubsetsRun_value score _ (enumJobs_dims tgt tmpl tS mS o i rots pe h1 h2 h3) hM p,
      scanSubsetsRun_value score _ (enumJobs_dims tgt tmpl tS mS o' i' rots pe h1 h2 h3) hM' p,
      enumJobs_schedule_free tgt tmpl tS mS o i o' i' rots pe hi hi']

open Pm.C04 in
/-- **(a)+(b) composed with C14's tiling and C04's merge: tiled = unsplit.**  If the score array a job computes for a
rotation holds, at its local cell for the absolute voxel `p`, the value `g r p` of one global per-rotation map (that is
`tiled_eq_unsplit_padded` with edge padding; without it the hypothesis holds away from tile borders only), then what
`scan_subsets` returns is, at every voxel of the target, the maximum over the rotation list of that map (or the
threshold) — for every split vector and schedule. -/
theorem scan_subsets_eq_unsplit {thr : Int} (score : ScoreFn R K) (g : R → List Nat → Int)
    (tgt tmpl tS mS : List Nat) (o i : Nat) (rots : List R) (pe : Bool) (hi : 1 ≤ i)
    (h1 : tgt.length = tS.length) (h2 : tmpl.length = mS.length) (h3 : tgt.length = tmpl.length)
    (hpos : ∀ n ∈ tgt, 0 < n) (hm : splitShape tmpl mS = [tmpl.map (fun m => (0, m))])
    (hscore : ∀ t ∈ splitShape tgt tS, ∀ r ∈ rots, ∀ p q,
        localIdx (t.map Prod.fst) (t.map (fun s => s.2 - s.1)) p = some q →
        (score t (tmpl.map (fun m => (0, m))) r).1.getD q 0 = g r p)
    {M : Store K} (hM : scanSubsetsRun thr score (enumJobs tgt tmpl tS mS o i rots pe) = some M)
    (p : List Nat) (hp : inShape tgt p = true) :
    M.valOr thr p = specMax thr (rots.map (fun r => g r p)) := by
  rw [scanSubsetsRun_value score _ (enumJobs_dims tgt tmpl tS mS o i rots pe h1 h2 h3) hM p,
      enumJobs_core _ _ _ _ _ _ _ _ hi]
  apply specMax_congr_mem
  intro x
  have hcore : ∀ t ∈ splitShape tgt tS,
      coreVals score p (coreOf tgt tmpl rots pe (t, tmpl.map (fun m => (0, m))))
        = match localIdx (t.map Prod.fst) (t.map (fun s => s.2 - s.1)) p with
          | some q => rots.map (fun r => (score t (tmpl.map (fun m => (0, m))) r).1.getD q 0)
          | none => [] := by
    intro t ht
    obtain ⟨hoff, hshape⟩ := mkJob_box tgt tmpl tS 1 1 rots pe h1 h3 hpos t ht 0
    simp only [coreVals, coreOf, Job.core, tileVals]
    rw [hoff, hshape]
    have e : (mkJob tgt tmpl 1 1 rots pe (t, tmpl.map (fun m => (0, m))) 0).chunks.flatten = rots :=
      splitRotations_concat rots 1 (le_refl 1)
    rw [e]
    cases localIdx (t.map Prod.fst) (t.map (fun s => s.2 - s.1)) p with
    | none => rfl
    | some q => simp [valsAt, mkJob, List.map_map, Function.comp_def]
  constructor
  · intro hx
    obtain ⟨c, hc, hxc⟩ := List.mem_flatMap.mp hx
    obtain ⟨tm, htm, rfl⟩ := List.mem_map.mp hc
    obtain ⟨ht, hmm⟩ := (mem_splitPairs _ _ _ _ tm).mp htm
    obtain ⟨t, m⟩ := tm
    rw [hm] at hmm
    simp only [List.mem_singleton] at hmm ht
    subst hmm
    rw [hcore t ht] at hxc
    cases hq : localIdx (t.map Prod.fst) (t.map (fun s => s.2 - s.1)) p with
    | none => rw [hq] at hxc; cases hxc
    | some q =>
      rw [hq] at hxc
      obtain ⟨r, hr, rfl⟩ := List.mem_map.mp hxc
      exact List.mem_map.mpr ⟨r, hr, (hscore t ht r hr p q hq).symm⟩
  · intro hx
    obtain ⟨r, hr, rfl⟩ := List.mem_map.mp hx
    obtain ⟨t, ht, hcov⟩ := Pm.C14.splitShape_covers tgt tS p h1 hp
    rw [← splitShape_eq_C14] at ht
    obtain ⟨q, hq⟩ := localIdx_of_in_slice t p hcov
    refine List.mem_flatMap.mpr ⟨_, List.mem_map.mpr ⟨(t, tmpl.map (fun m => (0, m))),
      (mem_splitPairs _ _ _ _ _).mpr ⟨ht, by rw [hm]; exact List.mem_singleton.mpr rfl⟩, rfl⟩, ?_⟩
    rw [hcore t ht, hq]
    exact List.mem_map.mpr ⟨r, hr, hscore t ht r hr p q hq⟩

end schedule

/-! ### a rotation that attains the value; the link to the padded-tile theorem; template splits as coded -/

section more
variable {R K : Type} [DecidableEq K]

open Pm.C04 in
/-- **Per voxel, a rotation that attains it** (any split vector, any schedule): at every cell of the merged result either
the marker `-1` stands and the score is the threshold, or the stored identifier maps through the merged table to a
rotation key that some job's analyzer was handed together with an array holding exactly the stored value at that voxel. -/
theorem scan_subsets_rotation_attains {thr : Int} (score : ScoreFn R K) (tgt tmpl tS mS : List Nat) (o i : Nat)
    (rots : List R) (pe : Bool)
    (h1 : tgt.length = tS.length) (h2 : tmpl.length = mS.length) (h3 : tgt.length = tmpl.length)
    {M : Store K} (hM : scanSubsetsRun thr score (enumJobs tgt tmpl tS mS o i rots pe) = some M)
    (p q : List Nat) (hq : localIdx M.offset M.scores.shape p = some q) :
    (M.rots.getD q 0 = -1 ∧ M.scores.getD q 0 = thr) ∨
    ∃ k j, lookup k M.table = some j ∧ M.rots.getD q 0 = (j : Int) ∧
      Attains ((enumJobs tgt tmpl tS mS o i rots pe).flatMap (jobTiles score)) p k (M.scores.getD q 0) ∧
      thr < M.scores.getD q 0 :=
  ((scanSubsetsRun_represents score _ (enumJobs_dims tgt tmpl tS mS o i rots pe h1 h2 h3) hM).cell p q hq).2

/-- a score function that reads one global per-rotation map `g` at the global position of each cell: the hypothesis
`hscore` of `scan_subsets_eq_unsplit` is satisfiable for every `g` and every tiling -/
def globalScore (g : R → List Nat → Int) (key : R → K) : ScoreFn R K := fun t _ r =>
  (Arr.ofFn (t.map (fun s => s.2 - s.1)) (fun q => g r (List.zipWith (· + ·) (t.map Prod.fst) q)), key r)

omit [DecidableEq K] in
open Pm.C04 in
theorem globalScore_reads_g (g : R → List Nat → Int) (key : R → K) (t m : List (Nat × Nat)) (r : R) (p q : List Nat)
    (hq : localIdx (t.map Prod.fst) (t.map (fun s => s.2 - s.1)) p = some q) :
    (globalScore g key t m r).1.getD q 0 = g r p := by
  simp only [globalScore]
  rw [Arr.getD_ofFn _ _ _ _ (localIdx_inShape hq), localIdx_add hq]

/-- the axes of a job's padded tile in the vocabulary of `tiled_eq_unsplit_padded` (edge padding on) -/
def jobAxes : List Nat → List (Nat × Nat) → List Nat → List AxSpec
  | N :: ns, s :: ss, m :: ms => ⟨N, s.1, s.2, m - m % 2⟩ :: jobAxes ns ss ms
  | _, _, _ => []

/-- the tile shape the analyzer of a padded job is told (`targetshape`) is the extent of C14's tile extraction -/
theorem jobAxes_ext : ∀ (tgt : List Nat) (t : List (Nat × Nat)) (tmpl : List Nat),
    tileExt (jobAxes tgt t tmpl) = zipWith3 paddedExtent tgt t (targetPad tmpl true)
  | [], _, _ => by simp [jobAxes, tileExt, zipWith3]
  | _ :: _, [], _ => by simp [jobAxes, tileExt, zipWith3]
  | _ :: _, _ :: _, [] => by simp [jobAxes, tileExt, zipWith3, targetPad]
  | N :: ns, s :: ss, m :: ms => by
    have ih := jobAxes_ext ns ss ms
    simp only [tileExt, targetPad] at ih
    simp only [jobAxes, tileExt, List.map_cons, targetPad, zipWith3, if_true, ih]
    rfl

/-- **The offset handed to the analyzer is the one `tiled_eq_unsplit_padded` asks for**: cell `q` of a padded job with
target slice `t` and cell `start + q` of the unsplit padded run (slice = whole target) address the same global position
(`SamePos`), so — with C14's tile content (`tile_content_hypothesis`) — both hold the same score. -/
theorem job_cell_same_position : ∀ (tgt : List Nat) (t : List (Nat × Nat)) (tmpl q : List Nat),
    t.length = tgt.length → tmpl.length = tgt.length → q.length = tgt.length →
    SamePos tmpl (tileOff (jobAxes tgt t tmpl)) (q.map Int.ofNat)
      (tileOff (jobAxes tgt (tgt.map (fun N => (0, N))) tmpl))
      ((List.zipWith (· + ·) (t.map Prod.fst) q).map Int.ofNat)
  | [], [], [], [], _, _, _ => by simp [jobAxes, tileOff, SamePos]
  | N :: ns, s :: ss, m :: ms, x :: xs, h1, h2, h3 => by
    have ih := job_cell_same_position ns ss ms xs (by simpa using h1) (by simpa using h2) (by simpa using h3)
    simp only [tileOff] at ih
    simp only [jobAxes, tileOff, List.map_cons, List.zipWith_cons_cons, SamePos, AxSpec.left]
    refine ⟨?_, ih⟩
    simp only [Int.ofNat_eq_natCast, Nat.cast_add]
    ring
  | [], _ :: _, _, _, h, _, _ => by simp at h
  | [], [], _ :: _, _, _, h, _ => by simp at h
  | [], [], [], _ :: _, _, _, h => by simp at h
  | _ :: _, [], _, _, h, _, _ => by simp at h
  | _ :: _, _ :: _, [], _, _, h, _ => by simp at h
  | _ :: _, _ :: _, _ :: _, [], _, _, h => by simp at h

open Pm.C04 in
/-- **(c) Template splits, as coded**: every (target tile, template part) pair is scored as a problem of its own with the
*target* tile's start as offset, and the parts are combined by `merge`, i.e. by the maximum — the value at a voxel is the
largest, over all template parts and rotations, of the part's score there.  (No sum over the parts, no shift by the
part's start: `template_offset` is computed in `subset_by_slice` and not used.) -/
theorem template_splits_combine_by_max {thr : Int} (score : ScoreFn R K) (tgt tmpl tS mS : List Nat) (o i : Nat)
    (rots : List R) (pe : Bool) (hi : 1 ≤ i)
    (h1 : tgt.length = tS.length) (h2 : tmpl.length = mS.length) (h3 : tgt.length = tmpl.length)
    {M : Store K} (hM : scanSubsetsRun thr score (enumJobs tgt tmpl tS mS o i rots pe) = some M) (p : List Nat) :
    M.valOr thr p = specMax thr ((splitPairs tgt tmpl tS mS).flatMap
      (fun tm => coreVals score p (coreOf tgt tmpl rots pe tm))) := by
  rw [scanSubsetsRun_value score _ (enumJobs_dims tgt tmpl tS mS o i rots pe h1 h2 h3) hM p,
      enumJobs_core _ _ _ _ _ _ _ _ hi, List.flatMap_map]

/-- 1-D cross-correlation of the definition: `Σ_k f[j + k] g[k]` -/
def ccAt (f g : List Int) (j : Nat) : Int :=
  ((List.range g.length).map (fun k => f.getD (j + k) 0 * g.getD k 0)).foldl (· + ·) 0

/-- the CC score of the template part `g[m]` on the target tile `f[t]` (1-D, "same" frame anchored at the part's start) -/
def partScore (f g : List Int) : ScoreFn Unit String := fun t m _ =>
  (Arr.ofFn (t.map (fun s => s.2 - s.1)) (fun idx =>
     ccAt f ((g.drop (m.headD (0, 0)).1).take ((m.headD (0, 0)).2 - (m.headD (0, 0)).1)) ((t.headD (0, 0)).1 + idx.headD 0)), "r")

/-- **(c) witness: the clause "the result does not depend on splitting" fails for template splits.**  Target `[1,2,3]`,
template `[1,1]` cut into two parts: each part scores `[1,2,3]`, `merge` keeps the maximum `1` at voxel 0, while the
unsplit cross-correlation there is `1·1 + 2·1 = 3` (the sum of the parts, the second one shifted by its start). -/
theorem template_split_max_not_sum_current_defect :
    (scanSubsetsRun 0 (partScore [1, 2, 3] [1, 1]) (enumJobs [3] [2] [0] [2] 1 1 [()] false)).map (fun M => M.valOr 0 [0])
      = some 1 ∧ ccAt [1, 2, 3] [1, 1] 0 = 3 := by decide

/-- **(c) witness: with edge padding the box a template-part job reports is not its target slice.**  Target 9×7,
template 4×2 cut in two along axis 0, two target tiles, padding on: the margin is taken from the *whole* template
(4, 2), the "valid" crop from the *part* (2, 2): the cropped array is 7×7 although the slice is 5×7, and it is placed at
the slice start — and the two parts of a tile get the same offset. -/
theorem template_split_box_current_defect :
    (enumJobs [9, 7] [4, 2] [2, 0] [2, 0] 1 1 [0] true).map
        (fun J => (J.templateSlice, J.offset, J.outShape, J.targetSlice.map (fun s => s.2 - s.1)))
      = [([(0, 2), (0, 2)], [0, 0], [7, 7], [5, 7]), ([(2, 4), (0, 2)], [0, 0], [7, 7], [5, 7]),
         ([(0, 2), (0, 2)], [4, 0], [7, 7], [5, 7]), ([(2, 4), (0, 2)], [4, 0], [7, 7], [5, 7])] := by decide

end more

/-! ### (a) composed with C14's tile content and C01's valid frame: a padded job reports the unsplit value at the global position -/

theorem vRefl_jobAxes : ∀ (tgt : List Nat) (t t' : List (Nat × Nat)) (tmpl : List Nat) (pos : List Int),
    t.length = tgt.length → t'.length = tgt.length →
    vRefl (jobAxes tgt t tmpl) pos = vRefl (jobAxes tgt t' tmpl) pos
  | [], _, _, _, _, _, _ => by simp [jobAxes, vRefl]
  | _ :: _, [], _, _, _, h, _ => by simp at h
  | _ :: _, _ :: _, [], _, _, _, h => by simp at h
  | _ :: _, _ :: _, _ :: _, [], _, _, _ => by simp [jobAxes, vRefl]
  | N :: ns, s :: ss, s' :: ss', m :: ms, [], _, _ => by simp [jobAxes, vRefl]
  | N :: ns, s :: ss, s' :: ss', m :: ms, x :: xs, h, h' => by
    simp only [jobAxes, vRefl]
    rw [vRefl_jobAxes ns ss ss' ms xs (by simpa using h) (by simpa using h')]

/-- **A job with edge padding reports, at its cropped cell `q`, exactly what the unsplit padded run reports at the global
position `start + q`** — for every correlation map (hence, by C01, every score), any rank, any tiling, `pad_fourier` on
or off.  `T` is the padded tile of the job with target slice `t` (it holds `vol[src(x)]`, C14's `subset_array`
bookkeeping, as the C14 correspondence observes on real tiles), `U` the padded whole target (slice = everything); margins
within one reflection (`AxSpec.Ok`), cells inside the `valid` crop.  This discharges the hypothesis `hscore` of
`scan_subsets_eq_unsplit` for the padded search. -/
theorem padded_job_score_eq_unsplit {α} [CommSemiring α] (pad : Bool) (tgt : List Nat) (t : List (Nat × Nat))
    (tmpl q NsT NsU : List Nat) (vol T U g : List Int → α)
    (h1 : t.length = tgt.length) (h2 : tmpl.length = tgt.length) (h3 : q.length = tgt.length)
    (hokT : ∀ a ∈ jobAxes tgt t tmpl, a.Ok) (hokU : ∀ a ∈ jobAxes tgt (tgt.map (fun N => (0, N))) tmpl, a.Ok)
    (hT : Pm.C01.Supp (tileExt (jobAxes tgt t tmpl)) T)
    (hU : Pm.C01.Supp (tileExt (jobAxes tgt (tgt.map (fun N => (0, N))) tmpl)) U) (hg : Pm.C01.Supp tmpl g)
    (cT : ∀ x, InBoxI (tileExt (jobAxes tgt t tmpl)) x → T x = vol (tileSrc (jobAxes tgt t tmpl) x))
    (cU : ∀ x, InBoxI (tileExt (jobAxes tgt (tgt.map (fun N => (0, N))) tmpl)) x →
        U x = vol (tileSrc (jobAxes tgt (tgt.map (fun N => (0, N))) tmpl) x))
    (hj : Pm.C01.ValidOk pad (tileExt (jobAxes tgt t tmpl)) tmpl NsT (q.map Int.ofNat))
    (hJ : Pm.C01.ValidOk pad (tileExt (jobAxes tgt (tgt.map (fun N => (0, N))) tmpl)) tmpl NsU
        ((List.zipWith (· + ·) (t.map Prod.fst) q).map Int.ofNat)) :
    Pm.C01.implCorr NsT tmpl (Pm.C01.shiftsOf pad tmpl) (Pm.C01.validCrops pad (tileExt (jobAxes tgt t tmpl)) tmpl) T g
        (q.map Int.ofNat)
      = Pm.C01.implCorr NsU tmpl (Pm.C01.shiftsOf pad tmpl)
          (Pm.C01.validCrops pad (tileExt (jobAxes tgt (tgt.map (fun N => (0, N))) tmpl)) tmpl) U g
          ((List.zipWith (· + ·) (t.map Prod.fst) q).map Int.ofNat) := by
  apply tiled_eq_unsplit_padded pad _ _ tmpl NsT NsU T U (fun pos => vol (vRefl (jobAxes tgt t tmpl) pos)) g
    (tileOff (jobAxes tgt t tmpl)) (tileOff (jobAxes tgt (tgt.map (fun N => (0, N))) tmpl)) _ _ hT hU hg
    (tile_content_hypothesis vol T _ hokT cT) ?_ hj hJ (job_cell_same_position tgt t tmpl q h1 h2 h3)
  intro x hx
  have := tile_content_hypothesis vol U _ hokU cU x hx
  simp only at this
  rw [this, vRefl_jobAxes tgt _ t tmpl _ (by simp) h1]

section sideconditions
open Pm.C01

/-- per axis: the slice lies in the target, the template extent is positive, `q` is a cell of the cropped array, the FFT
shape `F` holds the convolution of the padded tile -/
def CellOk (pad : Bool) : List Nat → List (Nat × Nat) → List Nat → List Nat → List Nat → Prop
  | [], [], [], [], [] => True
  | N :: ns, s :: ss, m :: ms, q :: qs, F :: Fs =>
      (s.1 < s.2 ∧ s.2 ≤ N ∧ 0 < m ∧ q < s.2 - s.1 ∧ convLen (s.2 - s.1 + (m - m % 2)) m pad ≤ F) ∧ CellOk pad ns ss ms qs Fs
  | _, _, _, _, _ => False

/-- **Every cell of a padded job's cropped array lies in C01's `valid` frame** (the side condition `ValidOk` of
`padded_job_score_eq_unsplit`): the padded tile has extent `L + (m - m % 2) ≥ m`, its `valid` extent is `L`. -/
theorem job_validOk (pad : Bool) : ∀ (tgt : List Nat) (t : List (Nat × Nat)) (tmpl q Fs : List Nat),
    CellOk pad tgt t tmpl q Fs → ValidOk pad (tileExt (jobAxes tgt t tmpl)) tmpl Fs (q.map Int.ofNat)
  | [], [], [], [], [], _ => by simp [jobAxes, tileExt, ValidOk]
  | N :: ns, s :: ss, m :: ms, x :: xs, F :: Fs, h => by
    obtain ⟨⟨h1, h2, h3, h4, h5⟩, hr⟩ := h
    have ih := job_validOk pad ns ss ms xs Fs hr
    simp only [tileExt] at ih
    simp only [jobAxes, tileExt, List.map_cons, ValidOk]
    refine ⟨?_, ih⟩
    have hext : (AxSpec.ta ⟨N, s.1, s.2, m - m % 2⟩).extent = s.2 - s.1 + (m - m % 2) := by
      simp only [AxSpec.ta, Pm.C14.tileAxis, Pm.C14.TileAxis.extent]
      omega
    rw [hext]
    refine ⟨h3, by omega, h5, by simp, ?_⟩
    simp only [validExt, Int.ofNat_eq_natCast]
    omega
  | [], _ :: _, _, _, _, h => by cases h
  | [], [], _ :: _, _, _, h => by cases h
  | [], [], [], _ :: _, _, h => by cases h
  | [], [], [], [], _ :: _, h => by cases h
  | _ :: _, [], _, _, _, h => by cases h
  | _ :: _, _ :: _, [], _, _, h => by cases h
  | _ :: _, _ :: _, _ :: _, [], _, h => by cases h
  | _ :: _, _ :: _, _ :: _, _ :: _, [], h => by cases h

/-- **The margins of the jobs stay within one reflection** (`AxSpec.Ok`, the side condition of
`padded_job_score_eq_unsplit`) as soon as every tile is longer than half the template on every axis
(`m / 2 < stop - start`): tiles inside the target, e.g. those of `split_shape` (`splitShape_in_bounds`). -/
theorem jobAxes_ok : ∀ (tgt : List Nat) (t : List (Nat × Nat)) (tmpl : List Nat),
    List.Forall₂ (fun (r : Nat × Nat) (N : Nat) => r.1 < r.2 ∧ r.2 ≤ N) t tgt →
    List.Forall₂ (fun (r : Nat × Nat) (m : Nat) => m / 2 < r.2 - r.1) t tmpl →
    ∀ a ∈ jobAxes tgt t tmpl, a.Ok
  | [], _, _, _, _, a, ha => by simp [jobAxes] at ha
  | _ :: _, [], _, _, _, a, ha => by simp [jobAxes] at ha
  | _ :: _, _ :: _, [], _, _, a, ha => by simp [jobAxes] at ha
  | N :: ns, s :: ss, m :: ms, .cons h1 hr1, .cons h2 hr2, a, ha => by
    simp only [jobAxes, List.mem_cons] at ha
    rcases ha with rfl | ha
    · simp only [AxSpec.Ok, AxSpec.left, AxSpec.ta, Pm.C14.tileAxis]
      omega
    · exact jobAxes_ok ns ss ms hr1 hr2 a ha


theorem CellOk.facts (pad : Bool) : ∀ (tgt : List Nat) (t : List (Nat × Nat)) (tmpl q Fs : List Nat),
    CellOk pad tgt t tmpl q Fs → t.length = tgt.length ∧ tmpl.length = tgt.length ∧ q.length = tgt.length ∧
      List.Forall₂ (fun (r : Nat × Nat) (N : Nat) => r.1 < r.2 ∧ r.2 ≤ N) t tgt
  | [], [], [], [], [], _ => ⟨rfl, rfl, rfl, .nil⟩
  | N :: ns, s :: ss, m :: ms, x :: xs, F :: Fs, h => by
    obtain ⟨⟨h1, h2, _, _, _⟩, hr⟩ := h
    obtain ⟨a, b, c, d⟩ := CellOk.facts pad ns ss ms xs Fs hr
    exact ⟨by simp [a], by simp [b], by simp [c], .cons ⟨h1, h2⟩ d⟩
  | [], _ :: _, _, _, _, h => by cases h
  | [], [], _ :: _, _, _, h => by cases h
  | [], [], [], _ :: _, _, h => by cases h
  | [], [], [], [], _ :: _, h => by cases h
  | _ :: _, [], _, _, _, h => by cases h
  | _ :: _, _ :: _, [], _, _, h => by cases h
  | _ :: _, _ :: _, _ :: _, [], _, h => by cases h
  | _ :: _, _ :: _, _ :: _, _ :: _, [], h => by cases h

theorem half_whole : ∀ (tgt : List Nat) (t : List (Nat × Nat)) (tmpl : List Nat),
    List.Forall₂ (fun (r : Nat × Nat) (N : Nat) => r.1 < r.2 ∧ r.2 ≤ N) t tgt →
    List.Forall₂ (fun (r : Nat × Nat) (m : Nat) => m / 2 < r.2 - r.1) t tmpl →
    List.Forall₂ (fun (r : Nat × Nat) (N : Nat) => r.1 < r.2 ∧ r.2 ≤ N) (tgt.map (fun N => (0, N))) tgt ∧
    List.Forall₂ (fun (r : Nat × Nat) (m : Nat) => m / 2 < r.2 - r.1) (tgt.map (fun N => (0, N))) tmpl
  | [], [], [], .nil, .nil => ⟨.nil, .nil⟩
  | N :: ns, s :: ss, m :: ms, .cons h1 hr1, .cons h2 hr2 => by
    obtain ⟨a, b⟩ := half_whole ns ss ms hr1 hr2
    exact ⟨.cons ⟨by simp only; omega, by simp⟩ a, .cons (by simp only; omega) b⟩

/-- **`padded_job_score_eq_unsplit` with its side conditions discharged from shapes**: for a job whose tiles are longer
than half the template on every axis (`m / 2 < L`: one reflection suffices), every cell `q` of its cropped array
(`CellOk`: slice inside the target, `q` inside the slice extent, FFT shapes large enough for the convolution) holds the
value the unsplit padded run holds at the global position `start + q` — given only C14's tile content for `T` and `U`. -/
theorem padded_job_cell_eq_unsplit_cell {α} [CommSemiring α] (pad : Bool) (tgt : List Nat) (t : List (Nat × Nat))
    (tmpl q FsT FsU : List Nat) (vol T U g : List Int → α)
    (hc : CellOk pad tgt t tmpl q FsT)
    (hC : CellOk pad tgt (tgt.map (fun N => (0, N))) tmpl (List.zipWith (· + ·) (t.map Prod.fst) q) FsU)
    (hhalf : List.Forall₂ (fun (r : Nat × Nat) (m : Nat) => m / 2 < r.2 - r.1) t tmpl)
    (hT : Supp (tileExt (jobAxes tgt t tmpl)) T)
    (hU : Supp (tileExt (jobAxes tgt (tgt.map (fun N => (0, N))) tmpl)) U) (hg : Supp tmpl g)
    (cT : ∀ x, InBoxI (tileExt (jobAxes tgt t tmpl)) x → T x = vol (tileSrc (jobAxes tgt t tmpl) x))
    (cU : ∀ x, InBoxI (tileExt (jobAxes tgt (tgt.map (fun N => (0, N))) tmpl)) x →
        U x = vol (tileSrc (jobAxes tgt (tgt.map (fun N => (0, N))) tmpl) x)) :
    implCorr FsT tmpl (shiftsOf pad tmpl) (validCrops pad (tileExt (jobAxes tgt t tmpl)) tmpl) T g (q.map Int.ofNat)
      = implCorr FsU tmpl (shiftsOf pad tmpl)
          (validCrops pad (tileExt (jobAxes tgt (tgt.map (fun N => (0, N))) tmpl)) tmpl) U g
          ((List.zipWith (· + ·) (t.map Prod.fst) q).map Int.ofNat) := by
  obtain ⟨l1, l2, l3, hb⟩ := CellOk.facts pad tgt t tmpl q FsT hc
  obtain ⟨hbU, hhU⟩ := half_whole tgt t tmpl hb hhalf
  exact padded_job_score_eq_unsplit pad tgt t tmpl q FsT FsU vol T U g l1 l2 l3
    (jobAxes_ok tgt t tmpl hb hhalf) (jobAxes_ok tgt _ tmpl hbU hhU) hT hU hg cT cU
    (job_validOk pad tgt t tmpl q FsT hc) (job_validOk pad tgt _ tmpl _ FsU hC)

example : CellOk true [9, 7] [(4, 9), (3, 6)] [3, 2] [1, 2] [9, 6] ∧
    CellOk true [9, 7] ([9, 7].map (fun N => (0, N))) [3, 2] (List.zipWith (· + ·) ([(4, 9), (3, 6)].map Prod.fst) [1, 2]) [13, 10] := by
  simp [CellOk, convLen]

end sideconditions

/-! ### nothing is reported outside the target; the merged result has a cell for every voxel of the target -/

section box
variable {R K : Type} [DecidableEq K]

theorem inShape_of_in_slice : ∀ (t : List (Nat × Nat)) (tgt p : List Nat),
    List.Forall₂ (fun (r : Nat × Nat) (N : Nat) => r.1 < r.2 ∧ r.2 ≤ N) t tgt →
    List.Forall₂ (fun (r : Nat × Nat) (i : Nat) => r.1 ≤ i ∧ i < r.2) t p → inShape tgt p = true
  | [], [], [], _, _ => rfl
  | _ :: t, N :: tgt, i :: p, .cons h1 hr1, .cons h2 hr2 => by
    rw [inShape_cons]
    exact ⟨by omega, inShape_of_in_slice t tgt p hr1 hr2⟩

open Pm.C04 in
/-- **No job reports anything outside the target**: at an absolute position that is not a voxel of the target the merged
result holds the threshold (or has no cell at all) — no tile is placed with an offset that pushes scores beyond the
target's ends.  (Whole template; with template parts and padding the boxes are larger, see
`template_split_box_current_defect`.) -/
theorem scan_subsets_nothing_outside_target {thr : Int} (score : ScoreFn R K) (tgt tmpl tS mS : List Nat) (o i : Nat)
    (rots : List R) (pe : Bool) (hi : 1 ≤ i)
    (h1 : tgt.length = tS.length) (h2 : tmpl.length = mS.length) (h3 : tgt.length = tmpl.length)
    (hpos : ∀ n ∈ tgt, 0 < n) (hm : splitShape tmpl mS = [tmpl.map (fun m => (0, m))])
    {M : Store K} (hM : scanSubsetsRun thr score (enumJobs tgt tmpl tS mS o i rots pe) = some M)
    (p : List Nat) (hp : inShape tgt p = false) :
    M.valOr thr p = thr := by
  rw [template_splits_combine_by_max score tgt tmpl tS mS o i rots pe hi h1 h2 h3 hM p]
  have : (splitPairs tgt tmpl tS mS).flatMap (fun tm => coreVals score p (coreOf tgt tmpl rots pe tm)) = [] := by
    rw [List.flatMap_eq_nil_iff]
    intro tm htm
    obtain ⟨ht, hmm⟩ := (mem_splitPairs _ _ _ _ tm).mp htm
    obtain ⟨t, m⟩ := tm
    rw [hm] at hmm
    simp only [List.mem_singleton] at hmm ht
    subst hmm
    obtain ⟨hoff, hshape⟩ := mkJob_box tgt tmpl tS 1 1 rots pe h1 h3 hpos t ht 0
    simp only [coreVals, coreOf, Job.core, tileVals]
    rw [hoff, hshape]
    cases hq : localIdx (t.map Prod.fst) (t.map (fun s => s.2 - s.1)) p with
    | none => rfl
    | some q =>
      exfalso
      have hb := splitShape_in_bounds tgt tS h1 hpos t ht
      have hin := in_slice_of_localIdx t p q (by
        intro s hs
        obtain ⟨N, _, h⟩ := forall₂_mem_left hb s hs
        omega) hq
      rw [inShape_of_in_slice t tgt p hb hin] at hp
      cases hp
  rw [this]
  rfl

open Pm.C04 in
/-- **The merged result has a cell for every voxel of the target** (at least one rotation): the value of
`scan_subsets_eq_unsplit` is read from the array, not a default. -/
theorem scan_subsets_covers_target {thr : Int} (score : ScoreFn R K) (tgt tmpl tS mS : List Nat) (o i : Nat)
    (rots : List R) (pe : Bool) (hi : 1 ≤ i) (hne : rots ≠ [])
    (h1 : tgt.length = tS.length) (h2 : tmpl.length = mS.length) (h3 : tgt.length = tmpl.length)
    (hpos : ∀ n ∈ tgt, 0 < n) (hm : splitShape tmpl mS = [tmpl.map (fun m => (0, m))])
    {M : Store K} (hM : scanSubsetsRun thr score (enumJobs tgt tmpl tS mS o i rots pe) = some M)
    (p : List Nat) (hp : inShape tgt p = true) :
    ∃ q, localIdx M.offset M.scores.shape p = some q := by
  cases hl : localIdx M.offset M.scores.shape p with
  | some q => exact ⟨q, rfl⟩
  | none =>
    exfalso
    have R := scanSubsetsRun_represents score _ (enumJobs_dims tgt tmpl tS mS o i rots pe h1 h2 h3) hM
    have hnil := R.outside p hl
    obtain ⟨r, hr⟩ := List.exists_mem_of_ne_nil rots hne
    obtain ⟨J, hJ, ⟨c, hc, hrc⟩, q, hq, _⟩ :=
      every_voxel_rotation_evaluated tgt tmpl tS mS o i rots pe h1 h3 hpos hi hm p hp r hr
    have hmem : (score J.targetSlice J.templateSlice r).1.getD q 0 ∈
        allVals ((enumJobs tgt tmpl tS mS o i rots pe).flatMap (jobTiles score)) p := by
      simp only [allVals, List.mem_flatMap]
      refine ⟨⟨J.offset, J.outShape, c.map (score J.targetSlice J.templateSlice)⟩,
        ⟨J, hJ, List.mem_map.mpr ⟨c, hc, rfl⟩⟩, ?_⟩
      simp only [tileVals, hq, valsAt, List.map_map, List.mem_map]
      exact ⟨r, hrc, rfl⟩
    rw [hnil] at hmem
    cases hmem

end box

/-! ### the headline: splits, schedule, job count and rotation order together -/

section headline
variable {R K : Type} [DecidableEq K]

open Pm.C04 in
/-- **Independent of the rotation order, of repeated rotations and of the schedule at once**: two runs on the same
tiling whose rotation lists have the same members (a permutation, a different chunking, duplicates) under any two
schedules hold the same value at every absolute voxel (template splits allowed, as coded). -/
theorem scan_subsets_rotation_order_free {thr : Int} (score : ScoreFn R K) (tgt tmpl tS mS : List Nat) (o i o' i' : Nat)
    (rots rots' : List R) (pe : Bool) (hi : 1 ≤ i) (hi' : 1 ≤ i') (hmem : ∀ r, r ∈ rots ↔ r ∈ rots')
    (h1 : tgt.length = tS.length) (h2 : tmpl.length = mS.length) (h3 : tgt.length = tmpl.length)
    {M M' : Store K}
    (hM : scanSubsetsRun thr score (enumJobs tgt tmpl tS mS o i rots pe) = some M)
    (hM' : scanSubsetsRun thr score (enumJobs tgt tmpl tS mS o' i' rots' pe) = some M') (p : List Nat) :
    M.valOr thr p = M'.valOr thr p := by
  rw [template_splits_combine_by_max score tgt tmpl tS mS o i rots pe hi h1 h2 h3 hM p,
      template_splits_combine_by_max score tgt tmpl tS mS o' i' rots' pe hi' h1 h2 h3 hM' p]
  apply specMax_congr_mem
  intro x
  have key : ∀ (ra rb : List R), (∀ r, r ∈ ra → r ∈ rb) → ∀ tm,
      x ∈ coreVals score p (coreOf tgt tmpl ra pe tm) → x ∈ coreVals score p (coreOf tgt tmpl rb pe tm) := by
    intro ra rb hsub tm hx
    simp only [coreVals, coreOf, Job.core, mkJob, tileVals, splitRotations_concat _ 1 (le_refl 1)] at hx ⊢
    split at hx
    · simp only [valsAt, List.map_map, List.mem_map] at hx ⊢
      obtain ⟨r, hr, rfl⟩ := hx
      exact ⟨r, hsub r hr, rfl⟩
    · cases hx
  constructor
  · intro hx
    obtain ⟨tm, htm, hxt⟩ := List.mem_flatMap.mp hx
    exact List.mem_flatMap.mpr ⟨tm, htm, key rots rots' (fun r => (hmem r).mp) tm hxt⟩
  · intro hx
    obtain ⟨tm, htm, hxt⟩ := List.mem_flatMap.mp hx
    exact List.mem_flatMap.mpr ⟨tm, htm, key rots' rots (fun r => (hmem r).mpr) tm hxt⟩

open Pm.C04 in
/-- **C02, the aggregated map** (exact arithmetic, whole template): two searches over the same target and template with
*different* split vectors `tS`, `tS'`, *different* schedules `(o, i)`, `(o', i')` (any job counts, also more inner jobs
than rotations) and rotation lists that are permutations of each other hold the same value at every voxel of the target
— provided each job's score array reads one global per-rotation map at the global position of its cells (with edge
padding: `padded_job_score_eq_unsplit`; without: only away from tile borders, the documented limitation). -/
theorem match_result_independent_of_splits_schedule_order {thr : Int} (score : ScoreFn R K) (g : R → List Nat → Int)
    (tgt tmpl tS tS' mS : List Nat) (o i o' i' : Nat) (rots rots' : List R) (pe : Bool)
    (hi : 1 ≤ i) (hi' : 1 ≤ i') (hperm : rots.Perm rots')
    (h1 : tgt.length = tS.length) (h1' : tgt.length = tS'.length) (h2 : tmpl.length = mS.length)
    (h3 : tgt.length = tmpl.length) (hpos : ∀ n ∈ tgt, 0 < n)
    (hm : splitShape tmpl mS = [tmpl.map (fun m => (0, m))])
    (hscore : ∀ t, t ∈ splitShape tgt tS ∨ t ∈ splitShape tgt tS' → ∀ r ∈ rots, ∀ p q,
        localIdx (t.map Prod.fst) (t.map (fun s => s.2 - s.1)) p = some q →
        (score t (tmpl.map (fun m => (0, m))) r).1.getD q 0 = g r p)
    {M M' : Store K}
    (hM : scanSubsetsRun thr score (enumJobs tgt tmpl tS mS o i rots pe) = some M)
    (hM' : scanSubsetsRun thr score (enumJobs tgt tmpl tS' mS o' i' rots' pe) = some M')
    (p : List Nat) (hp : inShape tgt p = true) :
    M.valOr thr p = M'.valOr thr p := by
  rw [scan_subsets_eq_unsplit score g tgt tmpl tS mS o i rots pe hi h1 h2 h3 hpos hm
        (fun t ht r hr => hscore t (Or.inl ht) r hr) hM p hp,
      scan_subsets_eq_unsplit score g tgt tmpl tS' mS o' i' rots' pe hi' h1' h2 h3 hpos hm
        (fun t ht r hr => hscore t (Or.inr ht) r (hperm.mem_iff.mpr hr)) hM' p hp]
  exact specMax_perm (hperm.map _)

end headline

/-! ### the crop mode; schedules computed on different machines -/

section machine
variable {R K : Type} [DecidableEq K]

/-- the analyzer is told "valid" exactly when edge padding was requested and some template extent is at least 2
(`_is_padded = sum(target_pad) > 0`, `target_pad = m - m % 2`) — otherwise "same" -/
theorem job_valid_iff (tgt tmpl tS mS : List Nat) (o i : Nat) (rots : List R) (pe : Bool)
    (J : Job R) (hJ : J ∈ enumJobs tgt tmpl tS mS o i rots pe) :
    J.valid = true ↔ pe = true ∧ ∃ m ∈ tmpl, 2 ≤ m := by
  obtain ⟨tm, _, k, rfl⟩ := mem_enumJobs _ _ _ _ _ _ _ _ _ hJ
  simp only [mkJob, decide_eq_true_eq]
  have hz := foldl_add_eq_zero (targetPad tmpl pe)
  constructor
  · intro hpos
    have hne : ¬ ∀ x ∈ targetPad tmpl pe, x = 0 := fun h => by have := hz.mpr h; omega
    cases pe with
    | false => exact absurd (by intro x hx; obtain ⟨m, _, rfl⟩ := List.mem_map.mp hx; rfl) hne
    | true =>
      refine ⟨rfl, ?_⟩
      by_contra hno
      apply hne
      intro x hx
      obtain ⟨m, hm, rfl⟩ := List.mem_map.mp hx
      have : ¬ 2 ≤ m := fun h => hno ⟨m, hm, h⟩
      simp only [if_true]
      omega
  · rintro ⟨rfl, m, hm, h2⟩
    by_contra hnp
    have h0 : (targetPad tmpl true).foldl (· + ·) 0 = 0 := by omega
    have := hz.mp h0 (m - m % 2) (List.mem_map.mpr ⟨m, hm, by simp⟩)
    omega

open Pm.C04 Pm.C14 in
/-- **The result does not depend on the machine**: `compute_parallelization_schedule` (C14 `schedule`) run for two
machines — different core counts, different memory limits, different memory estimators — returns split vectors and
(outer, inner) job counts `c`, `c'`; the two searches they configure hold the same value at every voxel of the target
(hypotheses as in `match_result_independent_of_splits_schedule_order`; a returned schedule always has `inner ≥ 1` because
`outer · inner = max_cores`, C14 `schedule_sound`). -/
theorem match_result_independent_of_machine {thr : Int} (score : ScoreFn R K) (g : R → List Nat → Int)
    (tgt tmpl mS : List Nat) (rots rots' : List R) (pe : Bool)
    (P P' : Problem) (fa fi fa' fi' : Nat) (c c' : Cand)
    (hc : schedule P fa fi = some c) (hc' : schedule P' fa' fi' = some c')
    (hP : 0 < P.maxCores) (hP' : 0 < P'.maxCores) (hperm : rots.Perm rots')
    (h1 : tgt.length = c.splits.length) (h1' : tgt.length = c'.splits.length) (h2 : tmpl.length = mS.length)
    (h3 : tgt.length = tmpl.length) (hpos : ∀ n ∈ tgt, 0 < n)
    (hm : splitShape tmpl mS = [tmpl.map (fun m => (0, m))])
    (hscore : ∀ t, t ∈ splitShape tgt c.splits ∨ t ∈ splitShape tgt c'.splits → ∀ r ∈ rots, ∀ p q,
        localIdx (t.map Prod.fst) (t.map (fun s => s.2 - s.1)) p = some q →
        (score t (tmpl.map (fun m => (0, m))) r).1.getD q 0 = g r p)
    {M M' : Store K}
    (hM : scanSubsetsRun thr score (enumJobs tgt tmpl c.splits mS c.outer c.inner rots pe) = some M)
    (hM' : scanSubsetsRun thr score (enumJobs tgt tmpl c'.splits mS c'.outer c'.inner rots' pe) = some M')
    (p : List Nat) (hp : inShape tgt p = true) :
    M.valOr thr p = M'.valOr thr p := by
  have hi : 1 ≤ c.inner := by
    have := (schedule_sound P fa fi c hc).1
    rcases Nat.eq_zero_or_pos c.inner with h | h
    · rw [h] at this; omega
    · exact h
  have hi' : 1 ≤ c'.inner := by
    have := (schedule_sound P' fa' fi' c' hc').1
    rcases Nat.eq_zero_or_pos c'.inner with h | h
    · rw [h] at this; omega
    · exact h
  exact match_result_independent_of_splits_schedule_order score g tgt tmpl c.splits c'.splits mS c.outer c.inner
    c'.outer c'.inner rots rots' pe hi hi' hperm h1 h1' h2 h3 hpos hm hscore hM hM' p hp

end machine

/-! ### without edge padding; tiles listed twice -/

section unpadded
open Pm.C01

theorem shiftL_specIdx : ∀ (ms : List Nat) (off t : List Int) (k : List Nat),
    shiftL off (specIdx ms t k) = specIdx ms (shiftL off t) k
  | [], off, t, k => by cases off <;> cases t <;> cases k <;> simp [shiftL, specIdx]
  | m :: ms, [], t, k => by cases t <;> cases k <;> simp [shiftL, specIdx]
  | m :: ms, o :: off, [], k => by cases k <;> simp [shiftL, specIdx]
  | m :: ms, o :: off, x :: t, [] => by simp [shiftL, specIdx]
  | m :: ms, o :: off, x :: t, k :: ks => by
    simp only [shiftL, specIdx, shiftL_specIdx ms off t ks]
    congr 1
    ring

/-- **Without edge padding: a job reports the unsplit value wherever the template window lies inside the job's tile.**
The tile `T` of a job with target slice `t` shows the target `U` shifted by the slice start — the offset the job hands to
its analyzer; a cell `c` of the job ("same" frame) whose window stays inside the tile holds what the unsplit run holds at
`start + c`.  (Windows that cross an internal tile border are the documented limitation, a known finding.) -/
theorem unpadded_job_score_eq_unsplit_interior {α} [CommSemiring α] (pad : Bool) (tgt : List Nat) (t : List (Nat × Nat))
    (tmpl NsT NsU : List Nat) (T U g : List Int → α) (c : List Int)
    (hT : Supp (t.map (fun s => s.2 - s.1)) T) (hU : Supp tgt U) (hg : Supp tmpl g)
    (cT : ∀ x, InBoxI (t.map (fun s => s.2 - s.1)) x → T x = U (shiftL (t.map (fun s => (s.1 : Int))) x))
    (hc : SameOk pad (t.map (fun s => s.2 - s.1)) tmpl NsT c)
    (hG : SameOk pad tgt tmpl NsU (shiftL (t.map (fun s => (s.1 : Int))) c))
    (hin : ∀ k, inShape tmpl k = true → InBoxI (t.map (fun s => s.2 - s.1)) (specIdx tmpl c k)) :
    implCorr NsT tmpl (shiftsOf pad tmpl) (sameCrops pad (t.map (fun s => s.2 - s.1)) tmpl) T g c
      = implCorr NsU tmpl (shiftsOf pad tmpl) (sameCrops pad tgt tmpl) U g (shiftL (t.map (fun s => (s.1 : Int))) c) := by
  apply tiled_eq_unsplit_interior pad _ _ tmpl NsT NsU T U g (t.map (fun s => (s.1 : Int))) c _ hT hU hg hc hG
  intro k hk
  rw [cT _ (hin k hk), shiftL_specIdx]

example : SameOk true [5, 3] [3, 2] [7, 4] [2, 1] ∧ SameOk true [9, 7] [3, 2] [11, 8] (shiftL [4, 3] [2, 1]) ∧
    (∀ k, inShape [3, 2] k = true → InBoxI [5, 3] (specIdx [3, 2] [2, 1] k)) := by
  refine ⟨by simp [SameOk, convLen], by simp [SameOk, convLen, shiftL], ?_⟩
  intro k hk
  match k, hk with
  | [a, b], hk =>
    simp only [inShape, Bool.and_true, Bool.and_eq_true, decide_eq_true_eq] at hk
    simp only [specIdx, InBoxI, and_true]
    omega
  | [], hk => simp [inShape] at hk
  | [_], hk => simp [inShape] at hk
  | _ :: _ :: _ :: _, hk => simp [inShape] at hk

/-- **No tile is reported with two different offsets**: two jobs with the same slices (which `split_shape` does produce
when the shifted-back last tiles coincide) get the same offset, tile shape, cropped shape and rotation chunks — the tile
is scored twice and both results land on the same cells, which the maximum does not notice. -/
theorem same_slices_same_box {R : Type} (tgt tmpl tS mS : List Nat) (o i : Nat) (rots : List R) (pe : Bool)
    (J J' : Job R) (hJ : J ∈ enumJobs tgt tmpl tS mS o i rots pe) (hJ' : J' ∈ enumJobs tgt tmpl tS mS o i rots pe)
    (h : J.targetSlice = J'.targetSlice) (h' : J.templateSlice = J'.templateSlice) :
    J.offset = J'.offset ∧ J.outShape = J'.outShape ∧ J.targetShape = J'.targetShape ∧ J.valid = J'.valid ∧
    J.chunks = J'.chunks := by
  obtain ⟨tm, _, k, rfl⟩ := mem_enumJobs _ _ _ _ _ _ _ _ _ hJ
  obtain ⟨tm', _, k', rfl⟩ := mem_enumJobs _ _ _ _ _ _ _ _ _ hJ'
  obtain ⟨a, b⟩ := tm
  obtain ⟨a', b'⟩ := tm'
  simp only [mkJob] at h h'
  subst h h'
  simp [mkJob]

/-- … and such duplicates exist: 5 voxels in 4 parts gives the tile `[3, 5)` twice -/
theorem duplicate_tiles_witness :
    (enumJobs [5] [1] [4] [0] 1 1 [0] false).map (fun J => (J.targetSlice, J.offset))
      = [([(0, 2)], [0]), ([(2, 4)], [2]), ([(3, 5)], [3]), ([(3, 5)], [3])] := by decide

end unpadded

/-! ### the hypotheses are satisfiable (non-trivial instances) -/

/-- 9×7 target in 2×3 tiles, 3×2 template, 3 rotations on 4 inner jobs (more jobs than rotations), padding on -/
example : ([9, 7] : List Nat).length = ([2, 3] : List Nat).length ∧ (∀ n ∈ ([9, 7] : List Nat), 0 < n) ∧
    splitShape [3, 2] [0, 0] = [([3, 2] : List Nat).map (fun m => (0, m))] ∧ inShape [9, 7] [8, 3] = true := by decide
example : (enumJobs [9, 7] [3, 2] [2, 3] [0, 0] 2 4 [10, 11, 12] true).map (fun J => (J.offset, J.outShape, J.chunks))
    = [([0, 0], [5, 3], [[], [], [], [10, 11, 12]]), ([0, 3], [5, 3], [[], [], [], [10, 11, 12]]),
       ([0, 4], [5, 3], [[], [], [], [10, 11, 12]]), ([4, 0], [5, 3], [[], [], [], [10, 11, 12]]),
       ([4, 3], [5, 3], [[], [], [], [10, 11, 12]]), ([4, 4], [5, 3], [[], [], [], [10, 11, 12]])] := by decide
example : (enumJobs [9, 7] [3, 2] [2, 3] [0, 0] 2 4 [10, 11, 12] true).map Job.core
    = (enumJobs [9, 7] [3, 2] [2, 3] [0, 0] 1 1 [10, 11, 12] true).map Job.core := by decide
/-- both runs of `scan_subsets_schedule_free` return a result: schedule (2, 3) — more inner jobs than rotations — and (1, 1) -/
example : (scanSubsetsRun 0 (globalScore (fun (r : Nat) p => (r : Int) * 10 - (p.headD 0 : Int)) (fun r => r))
      (enumJobs [5] [2] [2] [0] 2 3 [1, 2] true)).isSome = true ∧
    (scanSubsetsRun 0 (globalScore (fun (r : Nat) p => (r : Int) * 10 - (p.headD 0 : Int)) (fun r => r))
      (enumJobs [5] [2] [2] [0] 1 1 [1, 2] true)).isSome = true := by decide
/-- … and the merged map is the maximum over the rotations of the global map, at every voxel of the target -/
example : (scanSubsetsRun 0 (globalScore (fun (r : Nat) p => (r : Int) * 10 - (p.headD 0 : Int)) (fun r => r))
      (enumJobs [5] [2] [2] [0] 2 3 [1, 2] true)).map (fun M => (List.range 5).map (fun x => M.valOr 0 [x]))
    = some [20, 19, 18, 17, 16] := by decide
example : SamePos [3, 2] (tileOff (jobAxes [9, 7] [(4, 9), (3, 6)] [3, 2])) [1, 2]
    (tileOff (jobAxes [9, 7] [(0, 9), (0, 7)] [3, 2])) [5, 5] := by
  simp [SamePos, tileOff, jobAxes, AxSpec.left]

/-- the structural hypotheses of `padded_job_score_eq_unsplit` for the tile `[4,9)×[3,6)` of a 9×7 target, 3×2 template:
margins within one reflection, cells `(1,2)` / `(5,5)` inside the two `valid` crops (the fields `T`, `U` are
`vol ∘ tileSrc` on their boxes, zero outside) -/
example : (∀ a ∈ jobAxes [9, 7] [(4, 9), (3, 6)] [3, 2], a.Ok) ∧ (∀ a ∈ jobAxes [9, 7] [(0, 9), (0, 7)] [3, 2], a.Ok) := by
  simp [jobAxes, AxSpec.Ok, AxSpec.left, AxSpec.ta, Pm.C14.tileAxis]
example : Pm.C01.ValidOk true (tileExt (jobAxes [9, 7] [(4, 9), (3, 6)] [3, 2])) [3, 2] [9, 6] [1, 2] ∧
    Pm.C01.ValidOk true (tileExt (jobAxes [9, 7] [(0, 9), (0, 7)] [3, 2])) [3, 2] [13, 10] [5, 5] := by
  simp [Pm.C01.ValidOk, tileExt, jobAxes, AxSpec.ta, Pm.C14.tileAxis, Pm.C14.TileAxis.extent, Pm.C01.convLen, Pm.C01.validExt]

/-- `match_result_independent_of_splits_schedule_order`: 2 tiles / schedule (2, 3) / rotations [1, 2] against 3 tiles /
schedule (1, 2) / rotations [2, 1]: both runs return a result and the maps agree on the target -/
example : (scanSubsetsRun 0 (globalScore (fun (r : Nat) p => (r : Int) * 10 - (p.headD 0 : Int)) (fun r => r))
      (enumJobs [5] [2] [2] [0] 2 3 [1, 2] true)).map (fun M => (List.range 5).map (fun x => M.valOr 0 [x]))
    = (scanSubsetsRun 0 (globalScore (fun (r : Nat) p => (r : Int) * 10 - (p.headD 0 : Int)) (fun r => r))
      (enumJobs [5] [2] [3] [0] 1 2 [2, 1] true)).map (fun M => (List.range 5).map (fun x => M.valOr 0 [x])) := by decide

/-! ## rotation chunking and max-aggregation: further facts (deepen7) -/

/-- every rotation is handed to some chunk and chunks hold only listed rotations (`_split_rotations_on_jobs`) -/
theorem splitRotations_mem_iff {α} (rots : List α) (n : Nat) (hn : 1 ≤ n) (r : α) :
    r ∈ rots ↔ ∃ c ∈ splitRotations rots n, r ∈ c := by
  rw [← List.mem_flatten, splitRotations_concat rots n hn]

/-- every rotation is in exactly as many chunks (with multiplicity) as it is listed: nothing is evaluated twice or dropped -/
theorem splitRotations_count {α} [DecidableEq α] (rots : List α) (n : Nat) (hn : 1 ≤ n) (r : α) :
    ((splitRotations rots n).map (List.count r)).sum = rots.count r := by
  rw [← List.count_flatten, splitRotations_concat rots n hn]

/-- the chunk sizes add up to the number of rotations -/
theorem splitRotations_total_length {α} (rots : List α) (n : Nat) (hn : 1 ≤ n) :
    ((splitRotations rots n).map List.length).sum = rots.length := by
  rw [← List.length_flatten, splitRotations_concat rots n hn]

/-- `n_jobs = 1`: one chunk holding the whole rotation list -/
theorem splitRotations_one {α} (rots : List α) : splitRotations rots 1 = [rots] := by
  simp [splitRotations]

/-- the chunking for any two job counts (in particular `n_jobs > n_rotations` against `n_jobs = n_rotations`) evaluates
the same rotations in the same overall order -/
theorem splitRotations_flatten_jobs_free {α} (rots : List α) (n m : Nat) (hn : 1 ≤ n) (hm : 1 ≤ m) :
    (splitRotations rots n).flatten = (splitRotations rots m).flatten := by
  rw [splitRotations_concat rots n hn, splitRotations_concat rots m hm]

theorem foldl_max_init (l : List Int) : ∀ (a b : Int), l.foldl max (max b a) = max b (l.foldl max a) := by
  induction l with
  | nil => intro a b; rfl
  | cons x l ih => intro a b; simp only [List.foldl_cons]; rw [max_assoc]; exact ih _ _

/-- **regrouping**: the running maximum over a concatenation is the maximum of the running maxima of the parts -/
theorem foldl_max_append (a : Int) (l₁ l₂ : List Int) :
    (l₁ ++ l₂).foldl max a = max (l₁.foldl max a) (l₂.foldl max a) := by
  rw [List.foldl_append, ← foldl_max_init]
  congr 1
  have : ∀ (l : List Int) (a : Int), a ≤ l.foldl max a := by
    intro l; induction l with
    | nil => intro a; exact Int.le_refl _
    | cons x l ih => intro a; simp only [List.foldl_cons]; exact Int.le_trans (by omega) (ih _)
  have := this l₁ a
  omega

/-- the running maximum dominates the start value and every score seen -/
theorem foldl_max_ge (l : List Int) : ∀ a : Int, a ≤ l.foldl max a ∧ ∀ x ∈ l, x ≤ l.foldl max a := by
  induction l with
  | nil => intro a; simp
  | cons x l ih =>
    intro a
    simp only [List.foldl_cons, List.mem_cons]
    obtain ⟨h1, h2⟩ := ih (max a x)
    refine ⟨by omega, ?_⟩
    rintro y (rfl | hy)
    · omega
    · exact h2 y hy

/-- **the maximum is attained**: the aggregated score is the start value (threshold) or the score of a listed rotation -/
theorem foldl_max_attained (l : List Int) : ∀ a : Int, l.foldl max a = a ∨ l.foldl max a ∈ l := by
  induction l with
  | nil => intro a; simp
  | cons x l ih =>
    intro a
    simp only [List.foldl_cons, List.mem_cons]
    rcases ih (max a x) with h | h
    · rw [h]; rcases Int.le_total a x with hx | hx
      · right; left; omega
      · left; omega
    · right; right; exact h

/-- **rotation order**: the aggregated maximum is invariant under any permutation of the rotation list -/
theorem foldl_max_perm {l₁ l₂ : List Int} (h : l₁.Perm l₂) : ∀ a : Int, l₁.foldl max a = l₂.foldl max a := by
  induction h with
  | nil => intro a; rfl
  | cons x _ ih => intro a; simp only [List.foldl_cons]; exact ih _
  | swap x y l => intro a; simp only [List.foldl_cons]; congr 1; omega
  | trans _ _ ih₁ ih₂ => intro a; rw [ih₁, ih₂]

/-- **max over chunks = max over the list**: reducing each chunk from the threshold `a` and then the chunk results gives
the running maximum of the concatenated list -/
theorem foldl_max_chunks (a : Int) (L : List (List Int)) : ∀ b : Int, a ≤ b →
    (L.map (fun c => c.foldl max a)).foldl max b = L.flatten.foldl max b := by
  induction L with
  | nil => intro b _; rfl
  | cons c L ih =>
    intro b hb
    simp only [List.map_cons, List.foldl_cons, List.flatten_cons, List.foldl_append]
    have e : max b (c.foldl max a) = c.foldl max b := by
      rw [← foldl_max_init]; congr 1; omega
    rw [e]
    exact ih _ (Int.le_trans hb (foldl_max_ge c b).1)

/-- **job count**: per-voxel max over the chunks of `_split_rotations_on_jobs(n_jobs)` equals the max over the whole
rotation list, for every `n_jobs ≥ 1` — so `n_jobs > n_rotations` gives the same value as `n_jobs = n_rotations` -/
theorem chunked_max_eq_whole (a : Int) (scores : List Int) (n : Nat) (hn : 1 ≤ n) :
    ((splitRotations scores n).map (fun c => c.foldl max a)).foldl max a = scores.foldl max a := by
  rw [foldl_max_chunks a _ a (Int.le_refl _), splitRotations_concat scores n hn]

example : ((splitRotations [3, -1, 7, 2] 6).map (fun c => c.foldl max (0 : Int))).foldl max 0 = 7 ∧
    ((splitRotations [3, -1, 7, 2] 4).map (fun c => c.foldl max (0 : Int))).foldl max 0 = 7 := by decide
example : ([3, -1, 7] : List Int).Perm [7, 3, -1] := by decide


/-- **more jobs than rotations**: all chunks but the last are empty and the last worker evaluates the whole list -/
theorem splitRotations_more_jobs {α} (rots : List α) (n : Nat) (h : rots.length < n) :
    splitRotations rots n = List.replicate (n - 1) [] ++ [rots] := by
  obtain ⟨J, rfl⟩ : ∃ J, n = J + 1 := ⟨n - 1, by omega⟩
  unfold splitRotations
  simp only [Nat.add_sub_cancel, Nat.div_eq_of_lt h, Nat.mul_zero, List.drop_zero, List.take_zero]
  rw [List.range_succ, List.map_append]
  congr 1
  · rw [List.eq_replicate_iff]
    refine ⟨by simp, ?_⟩
    intro x hx
    simp only [List.mem_map, List.mem_range] at hx
    obtain ⟨k, hk, rfl⟩ := hx
    have : k ≠ J := by omega
    simp [this]
  · simp

/-- **schedule and order together**: chunking a permuted rotation list on another number of jobs gives the same per-voxel maximum -/
theorem chunked_max_perm_jobs_free (a : Int) {s₁ s₂ : List Int} (h : s₁.Perm s₂) (n m : Nat) (hn : 1 ≤ n) (hm : 1 ≤ m) :
    ((splitRotations s₁ n).map (fun c => c.foldl max a)).foldl max a
      = ((splitRotations s₂ m).map (fun c => c.foldl max a)).foldl max a := by
  rw [chunked_max_eq_whole a s₁ n hn, chunked_max_eq_whole a s₂ m hm]
  exact foldl_max_perm h a

/-- the chunked per-voxel maximum is the threshold or the score of a listed rotation, and dominates every listed score -/
theorem chunked_max_attained (a : Int) (scores : List Int) (n : Nat) (hn : 1 ≤ n) :
    let M := ((splitRotations scores n).map (fun c => c.foldl max a)).foldl max a
    (M = a ∨ M ∈ scores) ∧ a ≤ M ∧ ∀ x ∈ scores, x ≤ M := by
  simp only [chunked_max_eq_whole a scores n hn]
  exact ⟨foldl_max_attained scores a, foldl_max_ge scores a⟩

example : splitRotations [10, 11] 4 = [[], [], [], [10, 11]] := by decide

/-- the merge calls: one `scan` result per job for the outer `merge`, `inner` analyzers per job for the inner one -/
theorem mergePlan_lengths {R : Type} (tgt tmpl tS mS : List Nat) (o i : Nat) (rots : List R) (pe : Bool) :
    (mergePlan (enumJobs tgt tmpl tS mS o i rots pe)).map List.length
      = List.replicate (splitPairs tgt tmpl tS mS).length i := by
  rw [List.eq_replicate_iff]
  refine ⟨by simp [mergePlan, enumJobs_length], ?_⟩
  intro n hn
  simp only [mergePlan, List.map_map, List.mem_map] at hn
  obtain ⟨J, hJ, rfl⟩ := hn
  obtain ⟨tm, _, k, rfl⟩ := mem_enumJobs _ _ _ _ _ _ _ _ _ hJ
  simp [mkJob, splitRotations]

example : (enumJobs [9, 7] [3, 2] [2, 3] [0, 0] 2 4 [10, 11, 12] true).length = 6 ∧
    mergePlan (enumJobs [5] [2] [2] [0] 2 3 [1, 2] true) = [[(0, 0), (0, 1), (0, 2)], [(1, 0), (1, 1), (1, 2)]] := by decide
/-- `scan_subsets_nothing_outside_target` / `scan_subsets_covers_target`: position 7 is outside the 5-voxel target and holds
the threshold, every voxel of the target has a cell -/
example : inShape [5] [7] = false ∧
    (scanSubsetsRun 0 (globalScore (fun (r : Nat) p => (r : Int) * 10 - (p.headD 0 : Int)) (fun r => r))
      (enumJobs [5] [2] [2] [0] 2 3 [1, 2] true)).map (fun M => (M.valOr 0 [7], (List.range 5).map (fun x =>
        (Pm.C04.localIdx M.offset M.scores.shape [x]).isSome))) = some (0, [true, true, true, true, true]) := by decide
/-- `scan_subsets_rotation_order_free`: rotation lists with the same members (reordered, one repeated), other schedule -/
example : (∀ r : Nat, r ∈ [1, 2] ↔ r ∈ [2, 1, 1]) ∧
    (scanSubsetsRun 0 (globalScore (fun (r : Nat) p => (r : Int) * 10 - (p.headD 0 : Int)) (fun r => r))
      (enumJobs [5] [2] [2] [0] 2 3 [1, 2] true)).map (fun M => (List.range 5).map (fun x => M.valOr 0 [x]))
    = (scanSubsetsRun 0 (globalScore (fun (r : Nat) p => (r : Int) * 10 - (p.headD 0 : Int)) (fun r => r))
      (enumJobs [5] [2] [2] [0] 1 2 [2, 1, 1] true)).map (fun M => (List.range 5).map (fun x => M.valOr 0 [x])) := by
  refine ⟨by intro r; simp; tauto, by decide⟩
/-- `scan_subsets_rotation_attains`: the stored identifiers are not the marker and map to rotation 2 (the maximiser) -/
example : (scanSubsetsRun 0 (globalScore (fun (r : Nat) p => (r : Int) * 10 - (p.headD 0 : Int)) (fun r => r))
      (enumJobs [5] [2] [2] [0] 2 3 [1, 2] true)).map (fun M => (List.range 5).map (fun x =>
        Pm.C04.keyOf M.table (M.rots.getD [x] 0))) = some [some 2, some 2, some 2, some 2, some 2] := by decide

/-- `job_valid_iff`: padding requested, template 1×1: "same"; template 3×2: "valid" -/
example : (enumJobs [4, 4] [1, 1] [2, 0] [0, 0] 1 1 [0] true).map Job.valid = [false, false] ∧
    (enumJobs [4, 4] [3, 2] [2, 0] [0, 0] 1 1 [0] true).map Job.valid = [true, true] := by decide

/-- `match_result_independent_of_machine`: a 5-voxel target on a 2-core machine with plenty of memory (no split, schedule
(1, 2)) and on a 3-core machine with little memory (3 tiles, schedule (3, 1)); both configured searches return a result
and agree on the target -/
def exMachine (cores ram : Nat) : Pm.C14.Problem :=
  { ndim := 1, widths := fun f => (Pm.C14.splitShape [5] f).map (fun t => t.map (fun s => s.2 - s.1)),
    est := fun w inner => prodL w * 10 * inner, maxCores := cores, maxRam := ram, maxSplits := 8, onlyOuter := false,
    splitAxes := [0], firstAxis := 0 }
example : (Pm.C14.schedule (exMachine 2 1000) 0 0).map (fun c => (c.splits, c.outer, c.inner)) = some ([1], 1, 2) ∧
    (Pm.C14.schedule (exMachine 3 70) 0 0).map (fun c => (c.splits, c.outer, c.inner)) = some ([3], 3, 1) := by
  decide +kernel
example : (scanSubsetsRun 0 (globalScore (fun (r : Nat) p => (r : Int) * 10 - (p.headD 0 : Int)) (fun r => r))
      (enumJobs [5] [2] [1] [0] 1 2 [1, 2] true)).map (fun M => (List.range 5).map (fun x => M.valOr 0 [x]))
    = (scanSubsetsRun 0 (globalScore (fun (r : Nat) p => (r : Int) * 10 - (p.headD 0 : Int)) (fun r => r))
      (enumJobs [5] [2] [3] [0] 3 1 [2, 1] true)).map (fun M => (List.range 5).map (fun x => M.valOr 0 [x])) := by decide

end Pm.C02
