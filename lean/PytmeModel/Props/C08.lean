import PytmeModel.Model.C08
import PytmeModel.Proofs.C08
import Mathlib.Tactic.Ring
import Mathlib.Tactic.Linarith
import Mathlib.Tactic.FieldSimp
import Mathlib.Data.Rat.Floor

/-! # C08 — density files round-trip and subset reads equal slicing the full volume

Voxels are bit patterns (`Nat < 256^b`), files are byte lists; see `Model/C08.lean`. -/
namespace Pm.C08

/-! ## EM: decode ∘ encode = id (shape and axis order, sampling word, every voxel) -/

/-- header fields read back from an encoded file -/
theorem emParse_emEncode (code b nz ny nx : Nat) (rate : Int) (data : List Nat)
    (hz : nz < 2147483648) (hy : ny < 2147483648) (hx : nx < 2147483648)
    (hr1 : -2147483648 ≤ rate) (hr2 : rate < 2147483648) :
    emParse (emEncode code b [nz, ny, nx] rate data) = some ⟨code, [nz, ny, nx], rate, 512⟩ := by
  have hlen : (emEncode code b [nz, ny, nx] rate data).length = 512 + data.length * b := by
    unfold emEncode; rw [List.length_append, emHeader_length, length_payload]
  have h256 : (256 : Nat) ^ 4 = 4294967296 := by norm_num
  -- the dimension words
  have hsplit1 : emEncode code b [nz, ny, nx] rate data =
      [0, 0, 0, code] ++ payload 4 [nx, ny, nz] ++
        (spaces 80 ++ (emUserParams rate ++ (spaces 256 ++ payload b data))) := by
    unfold emEncode emHeader
    simp only [List.append_assoc]
    rfl
  have hd : ∀ i (hi : i < 3), rdTok (emEncode code b [nz, ny, nx] rate data) (4 + i * 4) 4 = [nx, ny, nz][i] := by
    intro i hi
    rw [hsplit1]
    have := rdTok_file [0, 0, 0, code] (spaces 80 ++ (emUserParams rate ++ (spaces 256 ++ payload b data)))
      4 [nx, ny, nz] i (by simpa using hi) (by
        rw [h256]
        have : i = 0 ∨ i = 1 ∨ i = 2 := by omega
        rcases this with h | h | h <;> subst h <;> simp <;> omega)
    simpa using this
  have hd0 := hd 0 (by omega)
  have hd1 := hd 1 (by omega)
  have hd2 := hd 2 (by omega)
  -- the sampling word (user parameter 6)
  have hsplit2 : emEncode code b [nz, ny, nx] rate data =
      ([0, 0, 0, code] ++ payload 4 [nx, ny, nz] ++ spaces 80) ++
        payload 4 ((List.range 40).map (fun i => if i = 6 then i32ToU rate else 0)) ++
        (spaces 256 ++ payload b data) := by
    unfold emEncode emHeader emUserParams
    simp only [List.append_assoc]
    rfl
  have hr : rdTok (emEncode code b [nz, ny, nx] rate data) (96 + 4 * 6) 4 = i32ToU rate := by
    rw [hsplit2]
    have := rdTok_file ([0, 0, 0, code] ++ payload 4 [nx, ny, nz] ++ spaces 80)
      (spaces 256 ++ payload b data) 4
      ((List.range 40).map (fun i => if i = 6 then i32ToU rate else 0)) 6 (by simp)
      (by simp; exact i32ToU_lt rate)
    simpa [length_payload, length_spaces] using this
  have hc : (emEncode code b [nz, ny, nx] rate data).getD 3 0 = code := by
    rw [hsplit1, List.append_assoc, List.getD_append _ _ _ _ (by simp)]
    rfl
  unfold emParse
  rw [if_neg (by omega)]
  simp only [List.range_succ, List.range_zero, List.nil_append, List.map_cons, List.map_nil, List.cons_append,
    Nat.mul_zero, Nat.add_zero, Nat.mul_one]
  simp only [Nat.zero_mul, Nat.add_zero, Nat.one_mul] at hd0 hd1 hd2
  have e8 : 4 + 4 = 8 := rfl
  have e12 : 4 + 4 * 2 = 12 := rfl
  have e12' : 4 + 2 * 4 = 12 := rfl
  rw [e12'] at hd2
  rw [e8] at hd1
  simp only [e8, e12, hd0, hd1, hd2, hr, hc, uToI32_i32ToU rate hr1 hr2]
  simp

/-- **decode ∘ encode = id** for EM files: the type code, the shape *in the same axis order*,
the sampling word and every voxel (bit pattern) come back, for every 3-D shape. -/
theorem decode_encode_em (code b nz ny nx : Nat) (rate : Int) (data : List Nat)
    (hb : emItemsize code = some b)
    (hz : nz < 2147483648) (hy : ny < 2147483648) (hx : nx < 2147483648)
    (hr1 : -2147483648 ≤ rate) (hr2 : rate < 2147483648)
    (hlen : data.length = nz * ny * nx) (hv : ∀ v ∈ data, v < 256 ^ b) :
    emDecode (emEncode code b [nz, ny, nx] rate data) = some (⟨code, [nz, ny, nx], rate, 512⟩, data) := by
  have hprod : prodL [nz, ny, nx] = data.length := by simp [prodL, hlen]; ring
  have hflen : (emEncode code b [nz, ny, nx] rate data).length = 512 + data.length * b := by
    unfold emEncode; rw [List.length_append, emHeader_length, length_payload]
  unfold emDecode
  rw [emParse_emEncode code b nz ny nx rate data hz hy hx hr1 hr2]
  simp only [hb, hprod]
  rw [if_neg (by omega)]
  have hrow := readRow_all (emHeader code [nz, ny, nx] rate) [] b data hv
  rw [emHeader_length, List.append_nil] at hrow
  unfold emEncode
  rw [hrow]

/-- the memory-mapped EM read returns the same header fields and voxels as the in-memory read -/
theorem decode_encode_em_memmap (code b nz ny nx : Nat) (rate : Int) (data : List Nat)
    (hb : emItemsize code = some b) (hb0 : 0 < b)
    (hz : nz < 2147483648) (hy : ny < 2147483648) (hx : nx < 2147483648)
    (hr1 : -2147483648 ≤ rate) (hr2 : rate < 2147483648)
    (hlen : data.length = nz * ny * nx) (hv : ∀ v ∈ data, v < 256 ^ b) :
    emDecodeMemmap (emEncode code b [nz, ny, nx] rate data) = emDecode (emEncode code b [nz, ny, nx] rate data) := by
  rw [decode_encode_em code b nz ny nx rate data hb hz hy hx hr1 hr2 hlen hv]
  have hprod : prodL [nz, ny, nx] = data.length := by simp [prodL, hlen]; ring
  have hflen : (emEncode code b [nz, ny, nx] rate data).length = 512 + data.length * b := by
    unfold emEncode; rw [List.length_append, emHeader_length, length_payload]
  unfold emDecodeMemmap
  rw [emParse_emEncode code b nz ny nx rate data hz hy hx hr1 hr2]
  simp only [hb, hprod, hflen]
  rw [if_neg (by omega)]
  have hn : (512 + data.length * b - 512) / b = data.length := by
    rw [Nat.add_sub_cancel_left, Nat.mul_div_cancel _ hb0]
  rw [hn]
  simp only [ne_eq, not_true_eq_false, if_false]
  have hrow := readRow_all (emHeader code [nz, ny, nx] rate) [] b data hv
  rw [emHeader_length, List.append_nil] at hrow
  unfold emEncode
  rw [hrow]

/-- the type-code tables of writer and reader are inverse to each other, and every code the
writer can emit (incl. the default 5) has an item size -/
theorem em_tables_inverse :
    (∀ p ∈ emSaveTable, emDtypeOf p.2 = some p.1) ∧ (∀ p ∈ emLoadTable, emCodeOf p.2 = p.1) ∧
    emDtypeOf (emCodeOf "anything else") = some "float32" ∧
    (∀ p ∈ emSaveTable, emItemsize p.2 = dtypeSize p.1 ∧ (dtypeSize p.1).isSome) := by
  decide

/-- what the tree did before `fix: write EM header dimensions fastest axis first`: a (2,3,4)
volume parsed back as (4,3,2) (cubic test volumes hide it) -/
theorem em_shape_order_current_defect :
    (emParse (emEncodeOld 5 4 [2, 3, 4] 1000 (List.replicate 24 0))).map (·.shape) = some [4, 3, 2] ∧
    (emParse (emEncode 5 4 [2, 3, 4] 1000 (List.replicate 24 0))).map (·.shape) = some [2, 3, 4] := by
  set_option maxRecDepth 20000 in decide

/-- the sampling word: 0 means "missing" and is read as 1 Å; everything else is returned as is -/
theorem emRateOut_id (r : Int) (h : r ≠ 0) : emRateOut r = r := by
  simp [emRateOut, h]

/-! ## the row-wise sub-box reader returns the slice -/

/-- **Reading a sub-box returns exactly the corresponding slice** (`_read_binary_subset`):
for every header size, 3-D shape, item size, payload, trailing bytes and every in-bounds box
(incl. empty, single-voxel and full), the reader succeeds, the result has the box's extents and
element `(i, j, k)` is element `(z0+i, y0+j, x0+k)` of the row-major volume. -/
theorem readSubset_eq_slice (pre post : Bytes) (b nz ny nx : Nat) (data : List Nat)
    (z0 z1 y0 y1 x0 x1 : Nat)
    (hlen : data.length = nz * ny * nx) (hv : ∀ v ∈ data, v < 256 ^ b)
    (hz : z0 ≤ z1 ∧ z1 ≤ nz) (hy : y0 ≤ y1 ∧ y1 ≤ ny) (hx : x0 ≤ x1 ∧ x1 ≤ nx) :
    ∃ r, readSubset (pre ++ payload b data ++ post) pre.length [nz, ny, nx] b
          [((z0 : Int), (z1 : Int)), ((y0 : Int), (y1 : Int)), ((x0 : Int), (x1 : Int))] = .ok r ∧
      r.shape = [z1 - z0, y1 - y0, x1 - x0] ∧
      ∀ i j k, i < z1 - z0 → j < y1 - y0 → k < x1 - x0 →
        r.getD [i, j, k] 0 = (⟨[nz, ny, nx], data.toArray⟩ : Arr Nat).getD [z0 + i, y0 + j, x0 + k] 0 := by
  have hval : validateSlices [((z0 : Int), (z1 : Int)), ((y0 : Int), (y1 : Int)), ((x0 : Int), (x1 : Int))] [nz, ny, nx] = none := by
    simp [validateSlices]
    rw [if_neg (by omega), if_neg (by omega)]
  have hflen : (pre ++ payload b data ++ post).length = pre.length + nz * ny * nx * b + post.length := by
    simp [length_payload, hlen]; omega
  refine ⟨⟨[z1 - z0, y1 - y0, x1 - x0],
    (readRows (pre ++ payload b data ++ post) pre.length ny nx b z0 z1 y0 y1 x0 x1).toArray⟩, ?_, rfl, ?_⟩
  · unfold readSubset
    simp only [hval]
    rw [if_neg (by omega)]
    simp only [Int.toNat_natCast]
    rw [if_neg]
    rintro ⟨h1, h2, _, h4⟩
    have := box_inside nz ny nx z1 y1 x0 x1 b hz.2 hy.2 hx.2 (by omega) (by omega) hx.1
    unfold rowOffset at h4
    rw [hflen] at h4
    have e : (z1 - 1) * ny * (nx * b) + (y1 - 1) * (nx * b) = ((z1 - 1) * ny + (y1 - 1)) * nx * b := by ring
    omega
  · intro i j k hi hj hk
    have hin : inShape [z1 - z0, y1 - y0, x1 - x0] [i, j, k] = true := by simp [inShape, hi, hj, hk]
    have hin2 : inShape [nz, ny, nx] [z0 + i, y0 + j, x0 + k] = true := by
      simp [inShape]; omega
    have hf2 := flatIdx_lt hin2
    simp only [Arr.getD, hin, hin2, if_true]
    have e1 : flatIdx [z1 - z0, y1 - y0, x1 - x0] [i, j, k] = i * ((y1 - y0) * (x1 - x0)) + (j * (x1 - x0) + k) := by
      simp [flatIdx, prodL]
    have e2 : flatIdx [nz, ny, nx] [z0 + i, y0 + j, x0 + k] = ((z0 + i) * ny + (y0 + j)) * nx + x0 + k := by
      simp [flatIdx, prodL]; ring
    have hlt : ((z0 + i) * ny + (y0 + j)) * nx + x0 + k < data.length := by
      rw [← e2, hlen]; simpa [prodL, Nat.mul_assoc] using hf2
    rw [e1, e2]
    simp only [Array.getD_eq_getD_getElem?, List.getElem?_toArray, ← List.getD_eq_getElem?_getD]
    rw [readRows_getD _ _ _ _ _ _ _ _ _ _ _ i j k hi hj hk, rowOffset_eq]
    rw [rdTok_file pre post b data _ hlt (hv _ (List.getElem_mem hlt)), List.getD_eq_getElem _ _ hlt]

/-- the guard of the sub-box reader is sound: whatever it accepts lies inside the volume with
non-negative bounds, so the reader never returns data for an out-of-range box (no silent wrap) -/
theorem validate_sound (z0 z1 y0 y1 x0 x1 : Int) (nz ny nx : Nat)
    (h : validateSlices [(z0, z1), (y0, y1), (x0, x1)] [nz, ny, nx] = none) :
    (0 ≤ z0 ∧ z0 ≤ nz ∧ 0 ≤ z1 ∧ z1 ≤ nz) ∧ (0 ≤ y0 ∧ y0 ≤ ny ∧ 0 ≤ y1 ∧ y1 ≤ ny) ∧
    (0 ≤ x0 ∧ x0 ≤ nx ∧ 0 ≤ x1 ∧ x1 ≤ nx) := by
  simp only [validateSlices, List.length_cons, List.length_nil, ne_eq, not_true_eq_false, if_false,
    List.zip_cons_cons, List.zip_nil_right, List.any_cons, List.any_nil, Bool.or_false] at h
  split at h
  · simp at h
  · split at h
    · simp at h
    · simp at *
      omega

theorem readSubset_ok_inbounds (f : Bytes) (header b : Nat) (z0 z1 y0 y1 x0 x1 : Int) (nz ny nx : Nat) (r : Arr Nat)
    (h : readSubset f header [nz, ny, nx] b [(z0, z1), (y0, y1), (x0, x1)] = .ok r) :
    (0 ≤ z0 ∧ z0 ≤ z1 ∧ z1 ≤ nz) ∧ (0 ≤ y0 ∧ y0 ≤ y1 ∧ y1 ≤ ny) ∧ (0 ≤ x0 ∧ x0 ≤ x1 ∧ x1 ≤ nx) := by
  unfold readSubset at h
  cases hv : validateSlices [(z0, z1), (y0, y1), (x0, x1)] [nz, ny, nx] with
  | some e => simp [hv] at h
  | none =>
    have hs := validate_sound z0 z1 y0 y1 x0 x1 nz ny nx hv
    simp only [hv] at h
    split at h
    · simp at h
    · omega

/-! ## full-box shortcut + reader = slice; the shortcut as it was -/

/-- `_load_mrc` / `_load_em` with `subset`: whichever branch is taken (full-volume shortcut or
row reader), an in-bounds box yields the slice. -/
theorem loadSubset_eq_slice (pre post : Bytes) (b nz ny nx : Nat) (data : List Nat)
    (z0 z1 y0 y1 x0 x1 : Nat)
    (hlen : data.length = nz * ny * nx) (hv : ∀ v ∈ data, v < 256 ^ b)
    (hz : z0 ≤ z1 ∧ z1 ≤ nz) (hy : y0 ≤ y1 ∧ y1 ≤ ny) (hx : x0 ≤ x1 ∧ x1 ≤ nx) :
    ∃ r, loadSubset (pre ++ payload b data ++ post) pre.length [nz, ny, nx] b
          [((z0 : Int), (z1 : Int)), ((y0 : Int), (y1 : Int)), ((x0 : Int), (x1 : Int))] = .ok r ∧
      r.shape = [z1 - z0, y1 - y0, x1 - x0] ∧
      ∀ i j k, i < z1 - z0 → j < y1 - y0 → k < x1 - x0 →
        r.getD [i, j, k] 0 = (⟨[nz, ny, nx], data.toArray⟩ : Arr Nat).getD [z0 + i, y0 + j, x0 + k] 0 := by
  unfold loadSubset
  by_cases hfull : isFullBox [((z0 : Int), (z1 : Int)), ((y0 : Int), (y1 : Int)), ((x0 : Int), (x1 : Int))] [nz, ny, nx] = true
  · rw [if_pos hfull]
    have hb : z1 - z0 = nz ∧ y1 - y0 = ny ∧ x1 - x0 = nx := by
      simp [isFullBox, boxShape] at hfull
      omega
    have hz0 : z0 = 0 := by omega
    have hy0 : y0 = 0 := by omega
    have hx0 : x0 = 0 := by omega
    subst hz0 hy0 hx0
    have hprod : prodL [nz, ny, nx] = data.length := by simp [prodL, hlen]; ring
    have hflen : (pre ++ payload b data ++ post).length = pre.length + data.length * b + post.length := by
      simp [length_payload]; omega
    rw [if_neg (by rw [hprod, hflen]; omega)]
    refine ⟨_, rfl, by simp [hb.1, hb.2.1, hb.2.2], ?_⟩
    intro i j k hi hj hk
    rw [hprod, readRow_all pre post b data hv]
    simp
  · rw [if_neg hfull]
    exact readSubset_eq_slice pre post b nz ny nx data z0 z1 y0 y1 x0 x1 hlen hv hz hy hx

/-- before `fix: take the full-volume shortcut only when … exactly` the shortcut compared
shapes with `np.allclose`: a (1,1,100001) volume asked for its first 100000 voxels took the
shortcut and came back whole -/
theorem allclose_shortcut_current_defect :
    allcloseShape (boxShape [(0, 1), (0, 1), (0, 100000)]) [1, 1, 100001] = true ∧
    isFullBox [(0, 1), (0, 1), (0, 100000)] [1, 1, 100001] = false := by
  decide

/-- below 100000 voxels per axis the old and the new shortcut coincide -/
theorem allclose_eq_exact_small (a : Int) (n : Nat) (hn : n < 100000) :
    decide (100000 * (a - (n : Int)).natAbs ≤ n) = decide (a = (n : Int)) := by
  by_cases h : a = (n : Int)
  · subst h; simp
  · have : 1 ≤ (a - (n : Int)).natAbs := by omega
    simp only [h, decide_false, decide_eq_false_iff_not]
    omega


/-! ## corollaries for the two binary formats -/

/-- EM: a sub-box read of a file written by `_save_em` is the slice (header = 512 bytes) -/
theorem em_subset_eq_slice (code b nz ny nx : Nat) (rate : Int) (data : List Nat)
    (z0 z1 y0 y1 x0 x1 : Nat)
    (hlen : data.length = nz * ny * nx) (hv : ∀ v ∈ data, v < 256 ^ b)
    (hz : z0 ≤ z1 ∧ z1 ≤ nz) (hy : y0 ≤ y1 ∧ y1 ≤ ny) (hx : x0 ≤ x1 ∧ x1 ≤ nx) :
    ∃ r, loadSubset (emEncode code b [nz, ny, nx] rate data) 512 [nz, ny, nx] b
          [((z0 : Int), (z1 : Int)), ((y0 : Int), (y1 : Int)), ((x0 : Int), (x1 : Int))] = .ok r ∧
      r.shape = [z1 - z0, y1 - y0, x1 - x0] ∧
      ∀ i j k, i < z1 - z0 → j < y1 - y0 → k < x1 - x0 →
        r.getD [i, j, k] 0 = (⟨[nz, ny, nx], data.toArray⟩ : Arr Nat).getD [z0 + i, y0 + j, x0 + k] 0 := by
  have h := loadSubset_eq_slice (emHeader code [nz, ny, nx] rate) [] b nz ny nx data z0 z1 y0 y1 x0 x1 hlen hv hz hy hx
  rw [emHeader_length, List.append_nil] at h
  exact h

/-- MRC: 1024 header bytes, `nsymbt` bytes of extended header, float32 payload — a sub-box
read is the slice whatever the header bytes and the extended header contain -/
theorem mrc_subset_eq_slice (hdr ext : Bytes) (hh : hdr.length = 1024) (nz ny nx : Nat) (data : List Nat)
    (z0 z1 y0 y1 x0 x1 : Nat)
    (hlen : data.length = nz * ny * nx) (hv : ∀ v ∈ data, v < 256 ^ 4)
    (hz : z0 ≤ z1 ∧ z1 ≤ nz) (hy : y0 ≤ y1 ∧ y1 ≤ ny) (hx : x0 ≤ x1 ∧ x1 ≤ nx) :
    ∃ r, loadSubset (hdr ++ ext ++ payload 4 data) (1024 + ext.length) [nz, ny, nx] 4
          [((z0 : Int), (z1 : Int)), ((y0 : Int), (y1 : Int)), ((x0 : Int), (x1 : Int))] = .ok r ∧
      r.shape = [z1 - z0, y1 - y0, x1 - x0] ∧
      ∀ i j k, i < z1 - z0 → j < y1 - y0 → k < x1 - x0 →
        r.getD [i, j, k] 0 = (⟨[nz, ny, nx], data.toArray⟩ : Arr Nat).getD [z0 + i, y0 + j, x0 + k] 0 := by
  have h := loadSubset_eq_slice (hdr ++ ext) [] 4 nz ny nx data z0 z1 y0 y1 x0 x1 hlen hv hz hy hx
  rw [List.append_nil, List.length_append, hh] at h
  exact h

/-- `_load_mrc` leaves a complete 3-slice subset untouched (it only completes short ones) -/
theorem mrcPadBox_id (a b c : Int × Int) (nz ny nx : Nat) : mrcPadBox [a, b, c] [nz, ny, nx] = [a, b, c] := by
  simp [mrcPadBox, List.range_succ]

/-- the reference every sub-box read is compared with: numpy basic slicing -/
theorem sliceArr_getD (a : Arr Nat) (z0 z1 y0 y1 x0 x1 i j k : Nat)
    (hi : i < z1 - z0) (hj : j < y1 - y0) (hk : k < x1 - x0) :
    (sliceArr a [((z0 : Int), (z1 : Int)), ((y0 : Int), (y1 : Int)), ((x0 : Int), (x1 : Int))]).getD [i, j, k] 0
      = a.getD [z0 + i, y0 + j, x0 + k] 0 := by
  unfold sliceArr
  have hs : (boxShape [((z0 : Int), (z1 : Int)), ((y0 : Int), (y1 : Int)), ((x0 : Int), (x1 : Int))]).map Int.toNat
      = [z1 - z0, y1 - y0, x1 - x0] := by
    simp [boxShape]
  rw [hs, Arr.getD_ofFn _ _ _ _ (by simp [inShape, hi, hj, hk])]
  simp

/-! ## MRC header fields: what `_save_mrc` stores is what `_load_mrc` returns -/

/-- **MRC round trip of shape, axis order, origin and sampling rate** in exact arithmetic:
for every non-empty shape, every origin and every non-degenerate use of the start indices the
reader returns shape, origin and rate in the same (z, y, x) order, the payload offset 1024 and
the standard axis permutation.  The hypothesis is exactly the reader's special case: an origin
within 1e-8 of zero *with* a non-zero start index is replaced by start × rate (known finding,
`mrc_origin_tiny_current_defect`). -/
theorem mrc_roundtrip_fields (nz ny nx : Nat) (oz oy ox sz sy sx : Rat)
    (hz : 0 < nz) (hy : 0 < ny) (hx : 0 < nx)
    (ho : allTiny [oz, oy, ox] = false ∨ (rint (oz / sz) = 0 ∧ rint (oy / sy) = 0 ∧ rint (ox / sx) = 0)) :
    mrcRead (mrcFields [nz, ny, nx] [oz, oy, ox] [sz, sy, sx])
      = .ok ⟨[nz, ny, nx], [oz, oy, ox], [sz, sy, sx], 1024, [0, 1, 2]⟩ := by
  have hz' : (nz : Rat) ≠ 0 := by exact_mod_cast hz.ne'
  have hy' : (ny : Rat) ≠ 0 := by exact_mod_cast hy.ne'
  have hx' : (nx : Rat) ≠ 0 := by exact_mod_cast hx.ne'
  have hcond : (allTiny [oz, oy, ox] && !([rint (oz / sz), rint (oy / sy), rint (ox / sx)].all (· == 0))) = false := by
    rcases ho with h | ⟨h1, h2, h3⟩
    · simp [h]
    · simp [h1, h2, h3]
  unfold mrcRead mrcFields
  simp only [List.map_cons, List.map_nil, List.reverse_cons, List.reverse_nil, List.nil_append, List.cons_append,
    List.zipWith_cons_cons, List.zipWith_nil_right, zipMul, zipDiv]
  simp only [mul_div_cancel_right₀ _ hz', mul_div_cancel_right₀ _ hy', mul_div_cancel_right₀ _ hx']
  rw [hcond]
  simp

/-- the header words themselves: dimensions and cell in x, y, z order, start = rint(origin/rate) -/
theorem mrcFields_words (nz ny nx : Nat) (oz oy ox sz sy sx : Rat) :
    let h := mrcFields [nz, ny, nx] [oz, oy, ox] [sz, sy, sx]
    h.nxyz = [nx, ny, nz] ∧ h.mxyz = [nx, ny, nz] ∧ h.mode = 2 ∧ h.mapcrs = [1, 2, 3] ∧
    h.origin = [ox, oy, oz] ∧ h.cella = [sx * nx, sy * ny, sz * nz] ∧
    h.nstart = [rint (ox / sx), rint (oy / sy), rint (oz / sz)] := by
  simp [mrcFields, zipMul]

/-- today's reader on an origin of 5.04e-9 with a sampling rate of 1e-10 (SI units): the
origin comes back as 5.0e-9 -/
theorem mrc_origin_tiny_current_defect :
    (match mrcRead (mrcFields [2, 3, 4] [63 / 12500000000, 0, 0] [1 / 10000000000, 1 / 10000000000, 1 / 10000000000]) with
      | .ok p => p.origin | .err _ => []) = [1 / 200000000, 0, 0] := by
  decide +kernel

/-- a malformed axis permutation is refused -/
theorem mrcRead_malformed_crs (h : MrcFields) (hc : h.mapcrs = [1, 1, 3]) : mrcRead h = .err "MalformedCRS" := by
  simp [mrcRead, hc]

/-! ## gzip sniffing -/

/-- an EM file is never taken for a gzip file: it starts with a 0 byte -/
theorem em_not_gz (code b : Nat) (shape : List Nat) (rate : Int) (data : List Nat) :
    isGz (emEncode code b shape rate data) = false := by
  simp [isGz, emEncode, emHeader]

/-- an HDF5 file starts with `\x89HDF`: never taken for gzip -/
theorem h5_not_gz (rest : Bytes) : isGz ([137, 72, 68, 70] ++ rest) = false := by
  simp [isGz]

/-- an MRC file starts with `nx` as a little-endian int32; it carries the gzip magic number
**iff** `nx ≡ 35615 (mod 65536)` — the exact exception (known finding) -/
theorem mrc_gz_iff (nx : Nat) (rest : Bytes) :
    isGz (leBytes 4 nx ++ rest) = true ↔ nx % 65536 = 35615 := by
  simp only [isGz, leBytes, List.cons_append, List.take_succ_cons, List.take_zero, beq_iff_eq,
    List.cons.injEq, and_true]
  omega

/-- writing (optionally through gzip) and opening by magic number returns the bytes written,
for *every* compressor that satisfies the gzip contract, provided the plain content does not
itself start with the magic number -/
theorem open_write_maybe_gz (gz gunz : Bytes → Bytes) (hc : GzipContract gz gunz) (gzip : Bool)
    (content : Bytes) (hplain : isGz content = false) :
    openMaybeGz gunz (writeMaybeGz gz gzip content) = content := by
  cases gzip with
  | false => simp [openMaybeGz, writeMaybeGz, hplain]
  | true => simp [openMaybeGz, writeMaybeGz, hc.magic, hc.inv]

/-- EM round trip through the file system layer, compressed or not -/
theorem em_file_roundtrip (gz gunz : Bytes → Bytes) (hc : GzipContract gz gunz) (gzip : Bool)
    (code b nz ny nx : Nat) (rate : Int) (data : List Nat)
    (hb : emItemsize code = some b)
    (hz : nz < 2147483648) (hy : ny < 2147483648) (hx : nx < 2147483648)
    (hr1 : -2147483648 ≤ rate) (hr2 : rate < 2147483648)
    (hlen : data.length = nz * ny * nx) (hv : ∀ v ∈ data, v < 256 ^ b) :
    emDecode (openMaybeGz gunz (writeMaybeGz gz gzip (emEncode code b [nz, ny, nx] rate data)))
      = some (⟨code, [nz, ny, nx], rate, 512⟩, data) := by
  rw [open_write_maybe_gz gz gunz hc gzip _ (em_not_gz _ _ _ _ _)]
  exact decode_encode_em code b nz ny nx rate data hb hz hy hx hr1 hr2 hlen hv

/-! ## format dispatch -/

/-- reader and writer pick the same format for every file name -/
theorem load_fmt_eq_save_fmt (name : List Char) : loadFmt name = saveFmt name := rfl

/-- with `gzip` the final name ends in ".gz"; without, it is unchanged -/
theorem finalName_spec (name : List Char) :
    finalName name false = name ∧ endsWith (finalName name true) ".gz".toList = true := by
  constructor
  · simp [finalName]
  · unfold finalName
    cases h : endsWith name ".gz".toList
    · simp [endsWith]
    · simpa using h

/-- compressing does not change the format the file name selects -/
theorem fmt_stable_under_gz (name : List Char) (gzip : Bool) : saveFmt (finalName name gzip) = saveFmt name := by
  cases gzip with
  | false => simp [finalName]
  | true =>
    unfold finalName
    cases h : endsWith name ".gz".toList
    · have e1 := endsWith_append_gz name ['e', 'm']
      have e2 := endsWith_append_gz name ['h', '5']
      have e3 := not_endsWith_em_of_gz name
      have h' : endsWith name ['.', 'g', 'z'] = false := h
      simp only [List.cons_append, List.nil_append] at e1 e2
      simp [saveFmt, e1, e2, e3.1, e3.2, long_suffix name _ _ h']
    · simp

/-! ## the gzip layer for MRC and HDF5 files -/

/-- an MRC file written (compressed or not) is opened as the bytes written — unless its first
dimension carries the magic number -/
theorem mrc_open_write (gz gunz : Bytes → Bytes) (hc : GzipContract gz gunz) (gzip : Bool) (nx : Nat) (rest : Bytes)
    (h : nx % 65536 ≠ 35615) :
    openMaybeGz gunz (writeMaybeGz gz gzip (leBytes 4 nx ++ rest)) = leBytes 4 nx ++ rest := by
  apply open_write_maybe_gz gz gunz hc
  cases hg : isGz (leBytes 4 nx ++ rest)
  · rfl
  · exact absurd ((mrc_gz_iff nx rest).mp hg) h

/-- today's reader hands a *plain* MRC file with `nx = 35615` to gunzip (known finding) -/
theorem mrc_magic_current_defect (gunz : Bytes → Bytes) (rest : Bytes) :
    openMaybeGz gunz (leBytes 4 35615 ++ rest) = gunz (leBytes 4 35615 ++ rest) := by
  have : isGz (leBytes 4 35615 ++ rest) = true := (mrc_gz_iff 35615 rest).mpr (by decide)
  simp [openMaybeGz, this]

/-- an HDF5 file is always opened as written (its compression is internal to the file) -/
theorem h5_open (gunz : Bytes → Bytes) (rest : Bytes) :
    openMaybeGz gunz ([137, 72, 68, 70] ++ rest) = [137, 72, 68, 70] ++ rest := by
  unfold openMaybeGz
  rw [h5_not_gz]
  simp

/-! ## dtypes without an EM type code -/

/-- **whatever dtype the density is held in, the EM type code written describes the payload**: the reader
decodes the code to exactly the dtype the writer put on disk, so item size and interpretation agree
(with `decode_encode_em`: the voxels come back).  `dtype` ranges over all names, listed or not
(unsigned, half precision, 64-bit integers, bool, non-native byte order …). -/
theorem em_write_code_describes_payload (dtype : String) :
    emDtypeOf (emWriteCode dtype) = some (emWriteDtype dtype) ∧
    emItemsize (emWriteCode dtype) = dtypeSize (emWriteDtype dtype) ∧ (dtypeSize (emWriteDtype dtype)).isSome := by
  unfold emWriteCode emWriteDtype
  by_cases h : emSaveTable.any (·.1 == dtype) = true
  · rw [if_pos h]
    simp only [emSaveTable, List.any_cons, List.any_nil, Bool.or_false, Bool.or_eq_true, beq_iff_eq] at h
    rcases h with h | h | h | h | h | h | h <;> subst h <;> decide
  · rw [if_neg h]; decide

/-- a dtype with a type code is written as it is; every other one as float32 -/
theorem emWriteDtype_spec (dtype : String) :
    (dtype ∈ emSaveTable.map (·.1) → emWriteDtype dtype = dtype) ∧
    (dtype ∉ emSaveTable.map (·.1) → emWriteDtype dtype = "float32") := by
  unfold emWriteDtype
  constructor
  · intro h
    rw [if_pos]
    simp only [List.mem_map] at h
    obtain ⟨p, hp, rfl⟩ := h
    exact List.any_eq_true.mpr ⟨p, hp, by simp⟩
  · intro h
    rw [if_neg]
    intro hc
    obtain ⟨p, hp, he⟩ := List.any_eq_true.mp hc
    exact h (List.mem_map.mpr ⟨p, hp, by simpa using he⟩)

/-- before `fix: store dtypes without an EM type code as float32`: a uint16 volume went to disk as
2-byte items under type code 5 (float32), which the reader cannot even decode -/
theorem em_unlisted_dtype_current_defect :
    emCodeOf (emWriteDtypeOld "uint16") = 5 ∧
    emDecode (emEncode (emCodeOf (emWriteDtypeOld "uint16")) 2 [1, 1, 2] 1000 [7, 9]) = none ∧
    emDecode (emEncode (emWriteCode "uint16") 4 [1, 1, 2] 1000 [7, 9]) = some (⟨5, [1, 1, 2], 1000, 512⟩, [7, 9]) := by
  set_option maxRecDepth 20000 in decide

/-! ## MRC files of any data mode and any axis order -/

/-- the MRC sub-box read is the slice for every item size (modes int8 / int16 / uint16 / float16 / float32 …) -/
theorem mrc_mode_subset_eq_slice (hdr ext : Bytes) (hh : hdr.length = 1024) (b nz ny nx : Nat) (data : List Nat)
    (z0 z1 y0 y1 x0 x1 : Nat)
    (hlen : data.length = nz * ny * nx) (hv : ∀ v ∈ data, v < 256 ^ b)
    (hz : z0 ≤ z1 ∧ z1 ≤ nz) (hy : y0 ≤ y1 ∧ y1 ≤ ny) (hx : x0 ≤ x1 ∧ x1 ≤ nx) :
    ∃ r, loadSubset (hdr ++ ext ++ payload b data) (1024 + ext.length) [nz, ny, nx] b
          [((z0 : Int), (z1 : Int)), ((y0 : Int), (y1 : Int)), ((x0 : Int), (x1 : Int))] = .ok r ∧
      r.shape = [z1 - z0, y1 - y0, x1 - x0] ∧
      ∀ i j k, i < z1 - z0 → j < y1 - y0 → k < x1 - x0 →
        r.getD [i, j, k] 0 = (⟨[nz, ny, nx], data.toArray⟩ : Arr Nat).getD [z0 + i, y0 + j, x0 + k] 0 := by
  have h := loadSubset_eq_slice (hdr ++ ext) [] b nz ny nx data z0 z1 y0 y1 x0 x1 hlen hv hz hy hx
  rw [List.append_nil, List.length_append, hh] at h
  exact h

/-- with the standard axis order the file-order box is the completed request -/
theorem mrcCrsBox_standard (box : Box) (nz ny nx : Nat) :
    mrcCrsBox [0, 1, 2] box [nz, ny, nx] = mrcPadBox box [nz, ny, nx] := by
  simp [mrcCrsBox, mrcPadBox, invPerm, List.range_succ, List.idxOf, List.findIdx_cons]

/-- **a sub-box of an MRC file with any `mapc/mapr/maps` is the corresponding slice of the volume the
full read returns** (`np.transpose(data, crs)`): for each of the six axis orders, every header size, item
size, payload and every in-bounds box.  The box is written as `permute crs fb` for a file-order box `fb`
— as `fb` ranges over the in-bounds boxes of the file this is every in-bounds box of the returned
volume — and `permute crs [i, j, k]` is every index of the result. -/
theorem mrc_crs_subset_eq_slice (pre post : Bytes) (b n0 n1 n2 : Nat) (data : List Nat) (crs : List Nat)
    (hcrs : crs ∈ [[0, 1, 2], [0, 2, 1], [1, 0, 2], [1, 2, 0], [2, 0, 1], [2, 1, 0]])
    (z0 z1 y0 y1 x0 x1 : Nat)
    (hlen : data.length = n0 * n1 * n2) (hv : ∀ v ∈ data, v < 256 ^ b)
    (hz : z0 ≤ z1 ∧ z1 ≤ n0) (hy : y0 ≤ y1 ∧ y1 ≤ n1) (hx : x0 ≤ x1 ∧ x1 ≤ n2) :
    ∃ r, mrcLoadSubsetCrs (pre ++ payload b data ++ post) pre.length [n0, n1, n2] b crs
          (permute crs [((z0 : Int), (z1 : Int)), ((y0 : Int), (y1 : Int)), ((x0 : Int), (x1 : Int))] (0, 0)) = .ok r ∧
      r.shape = permute crs [z1 - z0, y1 - y0, x1 - x0] 0 ∧
      ∀ i j k, i < z1 - z0 → j < y1 - y0 → k < x1 - x0 →
        r.getD (permute crs [i, j, k] 0) 0
          = (transposeArr ⟨[n0, n1, n2], data.toArray⟩ crs).getD (permute crs [z0 + i, y0 + j, x0 + k] 0) 0 := by
  obtain ⟨r0, hr0, hs0, hg0⟩ := loadSubset_eq_slice pre post b n0 n1 n2 data z0 z1 y0 y1 x0 x1 hlen hv hz hy hx
  simp only [List.mem_cons, List.not_mem_nil, or_false] at hcrs
  refine ⟨transposeArr r0 crs, ?_, ?_, ?_⟩
  · unfold mrcLoadSubsetCrs
    rcases hcrs with rfl | rfl | rfl | rfl | rfl | rfl <;>
    · simp only [mrcCrsBox, permute, invPerm, List.map, List.range_succ, List.range_zero, List.nil_append, List.cons_append,
        List.length_cons, List.length_nil, List.getD_cons_zero, List.getD_cons_succ, List.idxOf, List.findIdx_cons,
        Nat.reduceBEq, Nat.reduceAdd, cond_true, cond_false, Nat.zero_add] at hr0 ⊢
      rw [hr0]
  · rcases hcrs with rfl | rfl | rfl | rfl | rfl | rfl <;> simp [transposeArr, Arr.ofFn, permute, hs0]
  · intro i j k hi hj hk
    unfold transposeArr
    rcases hcrs with rfl | rfl | rfl | rfl | rfl | rfl <;>
    · rw [Arr.getD_ofFn _ _ _ _ (by simp [permute, hs0, inShape, hi, hj, hk])]
      rw [Arr.getD_ofFn _ _ _ _ (by simp [permute, inShape]; omega)]
      simpa [permute, invPerm, List.range_succ, List.idxOf, List.findIdx_cons] using hg0 i j k hi hj hk

/-- before `fix: sub-box of an MRC file with permuted MAPC/MAPR/MAPS …` file axis `j` was given the
caller's entry `crs[j]` instead of `argsort(crs)[j]`: for the cyclic order (1, 2, 0) a request of extents
(1, 1, 2) on a (3, 4, 2)-shaped volume came back with extents (2, 1, 1); for the orders that are their own
inverse both coincide -/
theorem crs_cyclic_current_defect :
    (boxShape (mrcCrsBoxOld [1, 2, 0] [(0, 1), (1, 2), (0, 2)] [2, 3, 4])) = [1, 2, 1] ∧
    (boxShape (mrcCrsBox [1, 2, 0] [(0, 1), (1, 2), (0, 2)] [2, 3, 4])) = [2, 1, 1] ∧
    permute [1, 2, 0] [2, 1, 1] 0 = [1, 1, 2] ∧ permute [1, 2, 0] [1, 2, 1] 0 = [2, 1, 1] ∧
    (∀ box : Box, ∀ crs ∈ [[0, 1, 2], [0, 2, 1], [1, 0, 2], [2, 1, 0]], box.length = 3 →
      mrcCrsBoxOld crs box [2, 3, 4] = mrcCrsBox crs box [2, 3, 4]) := by
  refine ⟨by decide, by decide, by decide, by decide, ?_⟩
  intro box crs hcrs hl
  match box, hl with
  | [a, b, c], _ =>
    simp only [List.mem_cons, List.not_mem_nil, or_false] at hcrs
    rcases hcrs with rfl | rfl | rfl | rfl <;>
      simp [mrcCrsBoxOld, mrcCrsBox, invPerm, List.range_succ, List.idxOf, List.findIdx_cons]

/-! ## non-vacuity -/

example : validateSlices [(0, 2), (1, 3), (1, 4)] [2, 3, 4] = none ∧
    validateSlices [(0, 3), (1, 3), (1, 4)] [2, 3, 4] = some "Exceeds" ∧
    validateSlices [(-1, 2), (1, 3), (1, 4)] [2, 3, 4] = some "Negative" := by decide

example : emDecode (emEncode 5 4 [1, 2, 2] 1500 [1, 2, 3, 4000000000])
    = some (⟨5, [1, 2, 2], 1500, 512⟩, [1, 2, 3, 4000000000]) := by
  set_option maxRecDepth 20000 in decide
example : emItemsize 5 = some 4 ∧ emItemsize 6 = some 8 ∧ emItemsize 4 = none := by decide
example : (match readSubset ([9, 9] ++ payload 2 [10, 11, 12, 13, 14, 15, 16, 17, 18, 19, 20, 21] ++ [7]) 2 [2, 2, 3] 2
    [(1, 2), (0, 2), (1, 3)] with | .ok r => (r.shape, r.toList) | .err _ => ([], [])) = ([1, 2, 2], [17, 18, 20, 21]) := by decide
example : isGz (leBytes 4 35615 ++ [0]) = true ∧ isGz (leBytes 4 101151) = true ∧ isGz (leBytes 4 64) = false := by decide
example : mrcRead (mrcFields [2, 3, 4] [3 / 2, -9 / 4, 3] [3 / 2, 2, 1 / 2])
    = .ok ⟨[2, 3, 4], [3 / 2, -9 / 4, 3], [3 / 2, 2, 1 / 2], 1024, [0, 1, 2]⟩ :=
  mrc_roundtrip_fields 2 3 4 _ _ _ _ _ _ (by decide) (by decide) (by decide) (Or.inl (by decide +kernel))
example : saveFmt "a.em.gz".toList = .em ∧ saveFmt "a.h5".toList = .h5 ∧ saveFmt "a.map".toList = .mrc ∧
    finalName "a.mrc".toList true = "a.mrc.gz".toList ∧ saveFmt (finalName "stem".toList true) = .em := by decide

example : emWriteDtype "int16" = "int16" ∧ emWriteCode "int16" = 2 ∧ emWriteDtype "uint16" = "float32" ∧
    emWriteCode "float32-be" = 5 ∧ emWriteCode "float64" = 6 := by decide
example : invPerm [1, 2, 0] = [2, 0, 1] ∧ permute [1, 2, 0] [10, 20, 30] 0 = [20, 30, 10] ∧
    mrcCrsBox [1, 2, 0] [(0, 1), (1, 2), (0, 2)] [2, 3, 4] = [(0, 2), (0, 1), (1, 2)] ∧
    mrcCrsBox [1, 2, 0] [(1, 2)] [2, 3, 4] = [(0, 2), (1, 2), (0, 4)] := by decide
example : (transposeArr ⟨[1, 2, 3], #[0, 1, 2, 3, 4, 5]⟩ [1, 2, 0]).shape = [2, 3, 1] ∧
    (transposeArr ⟨[1, 2, 3], #[0, 1, 2, 3, 4, 5]⟩ [2, 0, 1]).toList = [0, 3, 1, 4, 2, 5] := by decide
example : (match mrcLoadSubsetCrs ([9, 9] ++ payload 1 [0, 1, 2, 3, 4, 5]) 2 [1, 2, 3] 1 [2, 0, 1] [(1, 3), (0, 1), (1, 2)] with
    | .ok r => (r.shape, r.toList) | .err _ => ([], [])) = ([2, 1, 1], [4, 5]) := by decide

/-! ## deepen3 — the `subset` argument as python slices -/

/-- the binary readers take start and stop and never look at the step -/
theorem sliceBounds_some (a b : Int) (st : Option Int) : sliceBounds ⟨some a, some b, st⟩ = some (a, b) := rfl

/-- a `None` bound is the only way a slice is refused at this stage (`TypeError`) -/
theorem sliceBounds_none_iff (s : PySlice) : sliceBounds s = none ↔ s.start = none ∨ s.stop = none := by
  rcases s with ⟨_ | a, _ | b, st⟩ <;> simp [sliceBounds]

/-- `slice.indices(n)` of an in-range `start ≤ stop` with step `None` or 1 is `(start, stop, 1)` -/
theorem pyIndices_canonical (n a b : Nat) (st : Option Int) (hst : st = none ∨ st = some 1) (hab : a ≤ b) (hb : b ≤ n) :
    pyIndices n ⟨some (a : Int), some (b : Int), st⟩ = some (a, b, 1) := by
  have h1 : ¬ ((a : Int) < 0) := by omega
  have h2 : ¬ ((b : Int) < 0) := by omega
  rcases hst with rfl | rfl <;>
    simp [pyIndices, h1, h2, Nat.min_eq_left (Nat.le_trans hab hb), Nat.min_eq_left hb]

/-- `range(a, b, 1)` is `a, a+1, …, b-1` -/
theorem pyRange_unit (a b : Nat) : pyRange (a, b, 1) = (List.range (b - a)).map (fun k => a + k) := by
  simp [pyRange]

/-- whatever the slice (None, negative, beyond the end, any positive step), python selects indices inside the axis -/
theorem pyIndices_inside (n : Nat) (s : PySlice) (t : Nat × Nat × Nat) (h : pyIndices n s = some t) :
    1 ≤ t.2.2 ∧ t.1 ≤ n ∧ t.2.1 ≤ n ∧ ∀ i ∈ pyRange t, i < n := by
  unfold pyIndices at h
  simp only at h
  split at h
  · simp at h
  · rename_i hst
    injection h with h
    subst h
    have hnorm : ∀ v : Int, (if v < 0 then (v + n).toNat else min v.toNat n) ≤ n := by
      intro v; split <;> omega
    have ha : (Option.map (fun v : Int => if v < 0 then (v + n).toNat else min v.toNat n) s.start).getD 0 ≤ n := by
      cases s.start <;> simp [hnorm]
    have hb : (Option.map (fun v : Int => if v < 0 then (v + n).toNat else min v.toNat n) s.stop).getD n ≤ n := by
      cases s.stop <;> simp [hnorm]
    refine ⟨by show 1 ≤ (s.step.getD 1).toNat; omega, ha, hb, ?_⟩
    intro i hi
    simp only [pyRange, List.mem_map, List.mem_range] at hi
    obtain ⟨k, hk, rfl⟩ := hi
    generalize (Option.map (fun v : Int => if v < 0 then (v + n).toNat else min v.toNat n) s.start).getD 0 = A at *
    generalize (Option.map (fun v : Int => if v < 0 then (v + n).toNat else min v.toNat n) s.stop).getD n = B at *
    generalize hS : (s.step.getD 1).toNat = S at *
    have hS1 : 1 ≤ S := by omega
    have h1 := (Nat.le_div_iff_mul_le (by omega : 0 < S)).mp (show k + 1 ≤ _ from hk)
    have h2 : (k + 1) * S = k * S + S := Nat.succ_mul k S
    show A + k * S < n
    omega

/-- numpy slicing with three in-range unit-step slices: extents `stop - start`, element `(i, j, k)` is element
`(z0+i, y0+j, x0+k)` -/
theorem pySliceArr_canonical (data : Array Nat) (nz ny nx z0 z1 y0 y1 x0 x1 : Nat) (s0 s1 s2 : Option Int)
    (h0 : s0 = none ∨ s0 = some 1) (h1 : s1 = none ∨ s1 = some 1) (h2 : s2 = none ∨ s2 = some 1)
    (hz : z0 ≤ z1 ∧ z1 ≤ nz) (hy : y0 ≤ y1 ∧ y1 ≤ ny) (hx : x0 ≤ x1 ∧ x1 ≤ nx) :
    ∃ r, pySliceArr ⟨[nz, ny, nx], data⟩
        [⟨some (z0 : Int), some (z1 : Int), s0⟩, ⟨some (y0 : Int), some (y1 : Int), s1⟩, ⟨some (x0 : Int), some (x1 : Int), s2⟩] = .ok r ∧
      r.shape = [z1 - z0, y1 - y0, x1 - x0] ∧
      ∀ i j k, i < z1 - z0 → j < y1 - y0 → k < x1 - x0 →
        r.getD [i, j, k] 0 = (⟨[nz, ny, nx], data⟩ : Arr Nat).getD [z0 + i, y0 + j, x0 + k] 0 := by
  unfold pySliceArr
  simp only [List.length_cons, List.length_nil, Nat.lt_irrefl, if_false, List.range_succ, List.range_zero,
    List.nil_append, List.cons_append, List.map_cons, List.map_nil, List.getD_cons_zero, List.getD_cons_succ,
    Nat.reduceAdd, Nat.zero_add,
    pyIndices_canonical nz z0 z1 s0 h0 hz.1 hz.2, pyIndices_canonical ny y0 y1 s1 h1 hy.1 hy.2,
    pyIndices_canonical nx x0 x1 s2 h2 hx.1 hx.2]
  simp only [List.mapM_cons, List.mapM_nil, id, Option.pure_def, Option.bind_eq_bind, Option.bind_some]
  have hsel : List.map pyRange [(z0, z1, 1), (y0, y1, 1), (x0, x1, 1)] =
      [(List.range (z1 - z0)).map (fun k => z0 + k), (List.range (y1 - y0)).map (fun k => y0 + k),
       (List.range (x1 - x0)).map (fun k => x0 + k)] := by
    simp only [List.map_cons, List.map_nil, pyRange_unit]
  rw [hsel]
  have hshape : List.map List.length [(List.range (z1 - z0)).map (fun k => z0 + k), (List.range (y1 - y0)).map (fun k => y0 + k),
       (List.range (x1 - x0)).map (fun k => x0 + k)] = [z1 - z0, y1 - y0, x1 - x0] := by simp
  rw [hshape]
  refine ⟨_, rfl, rfl, ?_⟩
  intro i j k hi hj hk
  rw [Arr.getD_ofFn _ _ _ _ (by simp [inShape, hi, hj, hk])]
  simp [List.getD_eq_getElem?_getD, hi, hj, hk]

/-- **on every request the binary readers accept in the property's range, they agree with python slicing**: an EM
sub-box given as three slices with in-range `start ≤ stop` and step `None` or 1 is read successfully and equals
`volume[slices]` as numpy / h5py compute it (`pySliceArr`, the semantics `_load_hdf5` delegates to) -/
theorem em_slices_eq_python_slicing (pre post : Bytes) (b nz ny nx : Nat) (data : List Nat)
    (z0 z1 y0 y1 x0 x1 : Nat) (s0 s1 s2 : Option Int)
    (h0 : s0 = none ∨ s0 = some 1) (h1 : s1 = none ∨ s1 = some 1) (h2 : s2 = none ∨ s2 = some 1)
    (hlen : data.length = nz * ny * nx) (hv : ∀ v ∈ data, v < 256 ^ b)
    (hz : z0 ≤ z1 ∧ z1 ≤ nz) (hy : y0 ≤ y1 ∧ y1 ≤ ny) (hx : x0 ≤ x1 ∧ x1 ≤ nx) :
    ∃ r r', emLoadSlices (pre ++ payload b data ++ post) pre.length [nz, ny, nx] b
        [⟨some (z0 : Int), some (z1 : Int), s0⟩, ⟨some (y0 : Int), some (y1 : Int), s1⟩, ⟨some (x0 : Int), some (x1 : Int), s2⟩] = .ok r ∧
      pySliceArr ⟨[nz, ny, nx], data.toArray⟩
        [⟨some (z0 : Int), some (z1 : Int), s0⟩, ⟨some (y0 : Int), some (y1 : Int), s1⟩, ⟨some (x0 : Int), some (x1 : Int), s2⟩] = .ok r' ∧
      r.shape = r'.shape ∧
      ∀ i j k, i < z1 - z0 → j < y1 - y0 → k < x1 - x0 → r.getD [i, j, k] 0 = r'.getD [i, j, k] 0 := by
  obtain ⟨r, hr, hrs, hrg⟩ := loadSubset_eq_slice pre post b nz ny nx data z0 z1 y0 y1 x0 x1 hlen hv hz hy hx
  obtain ⟨r', hr', hrs', hrg'⟩ := pySliceArr_canonical data.toArray nz ny nx z0 z1 y0 y1 x0 x1 s0 s1 s2 h0 h1 h2 hz hy hx
  refine ⟨r, r', ?_, hr', by rw [hrs, hrs'], ?_⟩
  · simpa [emLoadSlices, emSliceBox, sliceBounds] using hr
  · intro i j k hi hj hk
    rw [hrg i j k hi hj hk, hrg' i j k hi hj hk]

/-- the same for MRC files (any item size, any extended header), also when the caller passes only the leading
one or two slices: `_load_mrc` completes them with full axes, as python slicing does -/
theorem mrc_slices_eq_python_slicing (pre post : Bytes) (b nz ny nx : Nat) (data : List Nat)
    (z0 z1 y0 y1 x0 x1 : Nat) (s0 s1 s2 : Option Int)
    (h0 : s0 = none ∨ s0 = some 1) (h1 : s1 = none ∨ s1 = some 1) (h2 : s2 = none ∨ s2 = some 1)
    (hlen : data.length = nz * ny * nx) (hv : ∀ v ∈ data, v < 256 ^ b)
    (hz : z0 ≤ z1 ∧ z1 ≤ nz) (hy : y0 ≤ y1 ∧ y1 ≤ ny) (hx : x0 ≤ x1 ∧ x1 ≤ nx) :
    ∃ r r', mrcLoadSlices (pre ++ payload b data ++ post) pre.length [nz, ny, nx] b
        [⟨some (z0 : Int), some (z1 : Int), s0⟩, ⟨some (y0 : Int), some (y1 : Int), s1⟩, ⟨some (x0 : Int), some (x1 : Int), s2⟩] = .ok r ∧
      pySliceArr ⟨[nz, ny, nx], data.toArray⟩
        [⟨some (z0 : Int), some (z1 : Int), s0⟩, ⟨some (y0 : Int), some (y1 : Int), s1⟩, ⟨some (x0 : Int), some (x1 : Int), s2⟩] = .ok r' ∧
      r.shape = r'.shape ∧
      ∀ i j k, i < z1 - z0 → j < y1 - y0 → k < x1 - x0 → r.getD [i, j, k] 0 = r'.getD [i, j, k] 0 := by
  obtain ⟨r, hr, hrs, hrg⟩ := loadSubset_eq_slice pre post b nz ny nx data z0 z1 y0 y1 x0 x1 hlen hv hz hy hx
  obtain ⟨r', hr', hrs', hrg'⟩ := pySliceArr_canonical data.toArray nz ny nx z0 z1 y0 y1 x0 x1 s0 s1 s2 h0 h1 h2 hz hy hx
  refine ⟨r, r', ?_, hr', by rw [hrs, hrs'], ?_⟩
  · simpa [mrcLoadSlices, mrcSliceBox, sliceBounds, List.range_succ] using hr
  · intro i j k hi hj hk
    rw [hrg i j k hi hj hk, hrg' i j k hi hj hk]

/-- a short MRC request is the request completed with `slice(0, n)`; entries beyond the third are never looked at
(not even a `None` in them) -/
theorem mrcSliceBox_short (s0 s1 s2 extra : PySlice) (nz ny nx : Nat) :
    mrcSliceBox [s0] [nz, ny, nx] = mrcSliceBox [s0, ⟨some 0, some (ny : Int), none⟩, ⟨some 0, some (nx : Int), none⟩] [nz, ny, nx] ∧
    mrcSliceBox [s0, s1] [nz, ny, nx] = mrcSliceBox [s0, s1, ⟨some 0, some (nx : Int), none⟩] [nz, ny, nx] ∧
    mrcSliceBox [s0, s1, s2, extra] [nz, ny, nx] = mrcSliceBox [s0, s1, s2] [nz, ny, nx] := by
  simp [mrcSliceBox, List.range_succ]

theorem length_mapM_sliceBounds : ∀ (l : List PySlice) (box : Box), l.mapM sliceBounds = some box → box.length = l.length
  | [], box, h => by simp at h; subst h; rfl
  | s :: l, box, h => by
    rw [List.mapM_cons] at h
    cases hs : sliceBounds s with
    | none => simp [hs] at h
    | some p =>
      cases hl : l.mapM sliceBounds with
      | none => simp [hs, hl] at h
      | some bs =>
        simp [hs, hl] at h
        subst h
        simp [length_mapM_sliceBounds l bs hl]

/-- the EM reader does not complete: any other number of slices than three is refused -/
theorem em_slices_wrong_length (f : Bytes) (header b nz ny nx : Nat) (sl : List PySlice) (hl : sl.length ≠ 3) :
    ∃ e, emLoadSlices f header [nz, ny, nx] b sl = .err e := by
  unfold emLoadSlices
  cases hb : emSliceBox sl with
  | none => exact ⟨_, rfl⟩
  | some box =>
    have hlen : box.length ≠ 3 := by
      rw [length_mapM_sliceBounds sl box hb]; exact hl
    have hfull : isFullBox box [nz, ny, nx] = false := by
      cases hf : isFullBox box [nz, ny, nx]
      · rfl
      · exfalso
        apply hlen
        have := congrArg List.length (beq_iff_eq.mp hf)
        simpa [boxShape] using this
    simp only [loadSubset, hfull, Bool.false_eq_true, if_false, readSubset]
    have hv : validateSlices box [nz, ny, nx] = some "Length" := by
      unfold validateSlices
      rw [if_pos (by simpa using hlen)]
    rw [hv]
    exact ⟨_, rfl⟩

/-- **what is accepted**: a 3-slice request on which the binary readers return data lies inside the volume with
`0 ≤ start ≤ stop ≤ n` on every axis — *or* its extents equal the volume's (`stop - start = n` on every axis), in
which case the full-volume shortcut answers before any bound is looked at -/
theorem loadSubset_ok_box (f : Bytes) (header b : Nat) (z0 z1 y0 y1 x0 x1 : Int) (nz ny nx : Nat) (r : Arr Nat)
    (h : loadSubset f header [nz, ny, nx] b [(z0, z1), (y0, y1), (x0, x1)] = .ok r) :
    ((0 ≤ z0 ∧ z0 ≤ z1 ∧ z1 ≤ nz) ∧ (0 ≤ y0 ∧ y0 ≤ y1 ∧ y1 ≤ ny) ∧ (0 ≤ x0 ∧ x0 ≤ x1 ∧ x1 ≤ nx)) ∨
    (z1 - z0 = nz ∧ y1 - y0 = ny ∧ x1 - x0 = nx ∧ r.shape = [nz, ny, nx]) := by
  unfold loadSubset at h
  split at h
  · rename_i hfull
    right
    simp [isFullBox, boxShape] at hfull
    split at h
    · simp at h
    · injection h with h
      subst h
      exact ⟨hfull.1, hfull.2.1, hfull.2.2, rfl⟩
  · left
    exact readSubset_ok_inbounds f header b z0 z1 y0 y1 x0 x1 nz ny nx r h

/-- today's readers on a full-sized box that is *shifted* out of the volume (`1:3, 1:4, 1:5` of a (2, 3, 4)
volume): the shortcut returns the whole volume, where python slicing clips to extents (1, 2, 3) and
`_validate_slices` would have refused; a step is ignored where python slicing honours it -/
theorem shifted_full_box_and_step_witness :
    (match loadSubset (payload 1 (List.range 24)) 0 [2, 3, 4] 1 [(1, 3), (1, 4), (1, 5)] with
      | .ok r => (r.shape, r.toList) | .err _ => ([], [])) = ([2, 3, 4], List.range 24) ∧
    validateSlices [(1, 3), (1, 4), (1, 5)] [2, 3, 4] = some "Exceeds" ∧
    (match pySliceArr ⟨[2, 3, 4], (List.range 24).toArray⟩ [⟨some 1, some 3, none⟩, ⟨some 1, some 4, none⟩, ⟨some 1, some 5, none⟩] with
      | .ok r => r.shape | .err _ => []) = [1, 2, 3] ∧
    (match emLoadSlices (payload 1 (List.range 24)) 0 [2, 3, 4] 1 [⟨some 0, some 1, none⟩, ⟨some 0, some 1, none⟩, ⟨some 0, some 4, some 2⟩] with
      | .ok r => (r.shape, r.toList) | .err _ => ([], [])) = ([1, 1, 4], [0, 1, 2, 3]) ∧
    (match pySliceArr ⟨[2, 3, 4], (List.range 24).toArray⟩ [⟨some 0, some 1, none⟩, ⟨some 0, some 1, none⟩, ⟨some 0, some 4, some 2⟩] with
      | .ok r => (r.shape, r.toList) | .err _ => ([], [])) = ([1, 1, 2], [0, 2]) ∧
    (match pySliceArr ⟨[2, 3, 4], (List.range 24).toArray⟩ [⟨some (-1), none, none⟩, ⟨none, some (-2), none⟩, ⟨some 1, some 9, some 2⟩] with
      | .ok r => (r.shape, r.toList) | .err _ => ([], [])) = ([1, 1, 2], [13, 15]) ∧
    (match emLoadSlices (payload 1 (List.range 24)) 0 [2, 3, 4] 1 [⟨some (-1), some 2, none⟩, ⟨some 0, some 3, none⟩, ⟨some 0, some 4, none⟩] with
      | .ok _ => "ok" | .err e => e) = "Negative" ∧
    (match emLoadSlices (payload 1 (List.range 24)) 0 [2, 3, 4] 1 [⟨none, some 2, none⟩, ⟨some 0, some 3, none⟩, ⟨some 0, some 3, none⟩] with
      | .ok _ => "ok" | .err e => e) = "TypeError" := by
  refine ⟨by decide, by decide, by decide, by decide, by decide, by decide, by decide, by decide⟩

/-! ## deepen3 — MRC data modes (`mrcfile.utils.dtype_from_mode` / `mode_from_dtype`) -/

/-- reader's and writer's mode tables are inverse to each other on the six supported modes; `uint8` has no mode of
its own and is widened to mode 6 (uint16) -/
theorem mrc_modes_inverse :
    (∀ p ∈ mrcModeTable, mrcModeOfDtype p.2.1 = some p.1 ∧ mrcModeDtype p.1 = some p.2.1 ∧ mrcModeSize p.1 = some p.2.2 ∧
      (dtypeSize p.2.1 = none ∨ dtypeSize p.2.1 = some p.2.2)) ∧
    mrcModeOfDtype "uint8" = some 6 ∧ mrcModeDtype 6 = some "uint16" ∧
    mrcModeOfDtype "float64" = none ∧ mrcModeOfDtype "int32" = none := by
  decide

/-- exactly the modes 0, 1, 2, 4, 6, 12 have a dtype; their item sizes are 1, 2, 4, 8, 2, 2 -/
theorem mrcModeSize_iff (mode b : Nat) :
    mrcModeSize mode = some b ↔
      (mode = 0 ∧ b = 1) ∨ (mode = 1 ∧ b = 2) ∨ (mode = 2 ∧ b = 4) ∨ (mode = 4 ∧ b = 8) ∨ (mode = 6 ∧ b = 2) ∨ (mode = 12 ∧ b = 2) := by
  unfold mrcModeSize mrcModeTable
  simp only [List.find?_cons, List.find?_nil]
  by_cases h0 : mode = 0
  · subst h0; simp; omega
  by_cases h1 : mode = 1
  · subst h1; simp; omega
  by_cases h2 : mode = 2
  · subst h2; simp; omega
  by_cases h4 : mode = 4
  · subst h4; simp; omega
  by_cases h6 : mode = 6
  · subst h6; simp; omega
  by_cases h12 : mode = 12
  · subst h12; simp; omega
  · have e0 : ((0 : Nat) == mode) = false := by simpa using fun h => h0 h.symm
    have e1 : ((1 : Nat) == mode) = false := by simpa using fun h => h1 h.symm
    have e2 : ((2 : Nat) == mode) = false := by simpa using fun h => h2 h.symm
    have e4 : ((4 : Nat) == mode) = false := by simpa using fun h => h4 h.symm
    have e6 : ((6 : Nat) == mode) = false := by simpa using fun h => h6 h.symm
    have e12 : ((12 : Nat) == mode) = false := by simpa using fun h => h12 h.symm
    simp [e0, e1, e2, e4, e6, e12]
    omega

/-- **for every data mode `mrcfile` knows, with the item size of that mode**: the MRC sub-box read is the slice
(any extended header); supersedes `mrc_subset_eq_slice` (mode 2) and instantiates `mrc_mode_subset_eq_slice` -/
theorem mrc_every_mode_subset_eq_slice (mode b : Nat) (hm : mrcModeSize mode = some b)
    (hdr ext : Bytes) (hh : hdr.length = 1024) (nz ny nx : Nat) (data : List Nat)
    (z0 z1 y0 y1 x0 x1 : Nat)
    (hlen : data.length = nz * ny * nx) (hv : ∀ v ∈ data, v < 256 ^ b)
    (hz : z0 ≤ z1 ∧ z1 ≤ nz) (hy : y0 ≤ y1 ∧ y1 ≤ ny) (hx : x0 ≤ x1 ∧ x1 ≤ nx) :
    0 < b ∧ ∃ r, loadSubset (hdr ++ ext ++ payload b data) (1024 + ext.length) [nz, ny, nx] b
          [((z0 : Int), (z1 : Int)), ((y0 : Int), (y1 : Int)), ((x0 : Int), (x1 : Int))] = .ok r ∧
      r.shape = [z1 - z0, y1 - y0, x1 - x0] ∧
      ∀ i j k, i < z1 - z0 → j < y1 - y0 → k < x1 - x0 →
        r.getD [i, j, k] 0 = (⟨[nz, ny, nx], data.toArray⟩ : Arr Nat).getD [z0 + i, y0 + j, x0 + k] 0 := by
  refine ⟨?_, mrc_mode_subset_eq_slice hdr ext hh b nz ny nx data z0 z1 y0 y1 x0 x1 hlen hv hz hy hx⟩
  have := (mrcModeSize_iff mode b).mp hm
  omega

/-! ## deepen3 — the MRC header under a permuted `mapc/mapr/maps` -/

/-- with the standard order the general header read is `mrcRead` -/
theorem mrcReadCrs_standard (h : MrcFields) (hc : h.mapcrs = [1, 2, 3]) : mrcReadCrs h = mrcRead h := by
  unfold mrcReadCrs
  cases hr : mrcRead h with
  | err e => rfl
  | ok p =>
    have : p.crs = [0, 1, 2] := by
      unfold mrcRead at hr
      simp only [hc] at hr
      split at hr
      · simp at hr
      · injection hr with hr; subst hr; rfl
    simp [this]

/-- round trip of shape, origin, sampling rate through the general header read (corollary of `mrc_roundtrip_fields`) -/
theorem mrcReadCrs_roundtrip (nz ny nx : Nat) (oz oy ox sz sy sx : Rat)
    (hz : 0 < nz) (hy : 0 < ny) (hx : 0 < nx)
    (ho : allTiny [oz, oy, ox] = false ∨ (rint (oz / sz) = 0 ∧ rint (oy / sy) = 0 ∧ rint (ox / sx) = 0)) :
    mrcReadCrs (mrcFields [nz, ny, nx] [oz, oy, ox] [sz, sy, sx])
      = .ok ⟨[nz, ny, nx], [oz, oy, ox], [sz, sy, sx], 1024, [0, 1, 2]⟩ := by
  rw [mrcReadCrs_standard _ (by simp [mrcFields])]
  exact mrc_roundtrip_fields nz ny nx oz oy ox sz sy sx hz hy hx ho

/-- **header read for each of the six axis orders**: shape and origin are reported through the same permutation as
the voxel data (`transposeArr … crs`), the payload starts after `1024 + nsymbt` bytes; the sampling rate is reported
in file order (not permuted — see `mrc_crs_rate_unpermuted_witness`).  Origin not within 1e-8 of zero (else the
start-index rule of `mrcRead` applies). -/
theorem mrcReadCrs_permuted (crs : List Nat)
    (hcrs : crs ∈ [[0, 1, 2], [0, 2, 1], [1, 0, 2], [1, 2, 0], [2, 0, 1], [2, 1, 0]])
    (nz ny nx mz my mx mode nsymbt : Nat) (st : List Int) (cx cy cz ox oy oz : Rat)
    (ho : allTiny [oz, oy, ox] = false) (data : Array Nat) :
    mrcReadCrs ⟨[nx, ny, nz], mode, st, [mx, my, mz], [cx, cy, cz], crs.map (· + 1), [ox, oy, oz], nsymbt⟩
      = .ok ⟨(transposeArr ⟨[nz, ny, nx], data⟩ crs).shape, permute crs [oz, oy, ox] 0,
             [cz / mz, cy / my, cx / mx], 1024 + nsymbt, crs⟩ := by
  simp only [List.mem_cons, List.not_mem_nil, or_false] at hcrs
  rcases hcrs with rfl | rfl | rfl | rfl | rfl | rfl <;>
    simp [mrcReadCrs, mrcRead, ho, zipDiv, transposeArr, Arr.ofFn, permute]

/-- today's reader on a (2, 3, 4)-voxel file with voxel sizes (z, y, x) = (3, 2, 1) Å and `mapc/mapr/maps = 2, 1, 3`:
the volume comes back with extents (3, 2, 4) and the origin permuted alike, the sampling rate stays (3, 2, 1) -/
theorem mrc_crs_rate_unpermuted_witness :
    (match mrcReadCrs ⟨[4, 3, 2], 2, [0, 0, 0], [4, 3, 2], [4, 6, 6], [2, 1, 3], [10, 20, 30], 0⟩ with
      | .ok p => (p.shape, p.origin, p.rate) | .err _ => ([], [], [])) = ([3, 2, 4], [20, 30, 10], [3, 2, 1]) := by
  decide +kernel

/-! ## deepen3 — EM files: unknown type codes, headers of non-3-D volumes -/

/-- the item size `_load_em` reads with is the table's for a listed code and 8 (float64) for every other one; for
whatever dtype a density is held in, it is the item size of what `_save_em` put on disk -/
theorem emReadItemsize_spec (code : Nat) :
    (∀ b, emItemsize code = some b → emReadItemsize code = b) ∧ (emItemsize code = none → emReadItemsize code = 8) ∧
    (∀ dtype : String, some (emReadItemsize (emWriteCode dtype)) = dtypeSize (emWriteDtype dtype)) := by
  refine ⟨fun b h => by simp [emReadItemsize, h], fun h => by simp [emReadItemsize, h], fun dtype => ?_⟩
  obtain ⟨_, h2, h3⟩ := em_write_code_describes_payload dtype
  cases hs : dtypeSize (emWriteDtype dtype) with
  | none => simp [hs] at h3
  | some b => simp [emReadItemsize, h2, hs]

/-- **a sub-box of an EM file is the slice whatever type code the header carries** — listed or not, the reader
takes the dimensions from the header and reads items of `emReadItemsize code` bytes (8 for an unknown code) -/
theorem em_subset_any_code_eq_slice (code nz ny nx : Nat) (rate : Int) (data : List Nat)
    (z0 z1 y0 y1 x0 x1 : Nat)
    (hdz : nz < 2147483648) (hdy : ny < 2147483648) (hdx : nx < 2147483648)
    (hr1 : -2147483648 ≤ rate) (hr2 : rate < 2147483648)
    (hlen : data.length = nz * ny * nx) (hv : ∀ v ∈ data, v < 256 ^ emReadItemsize code)
    (hz : z0 ≤ z1 ∧ z1 ≤ nz) (hy : y0 ≤ y1 ∧ y1 ≤ ny) (hx : x0 ≤ x1 ∧ x1 ≤ nx) :
    ∃ r, emLoadSubsetAny (emEncode code (emReadItemsize code) [nz, ny, nx] rate data)
          [((z0 : Int), (z1 : Int)), ((y0 : Int), (y1 : Int)), ((x0 : Int), (x1 : Int))] = .ok r ∧
      r.shape = [z1 - z0, y1 - y0, x1 - x0] ∧
      ∀ i j k, i < z1 - z0 → j < y1 - y0 → k < x1 - x0 →
        r.getD [i, j, k] 0 = (⟨[nz, ny, nx], data.toArray⟩ : Arr Nat).getD [z0 + i, y0 + j, x0 + k] 0 := by
  unfold emLoadSubsetAny
  rw [emParse_emEncode code _ nz ny nx rate data hdz hdy hdx hr1 hr2]
  exact em_subset_eq_slice code (emReadItemsize code) nz ny nx rate data z0 z1 y0 y1 x0 x1 hlen hv hz hy hx

/-- `_save_em` writes one dimension word per axis of the density: the header has `500 + 4·rank` bytes for a volume
of any rank, the 512 bytes `_load_em` skips exactly for rank 3 -/
theorem emHeader_length_rank (code : Nat) (shape : List Nat) (rate : Int) :
    (emHeader code shape rate).length = emHeaderLen shape.length ∧ (emHeaderLen shape.length = 512 ↔ shape.length = 3) := by
  constructor
  · unfold emHeader emUserParams emHeaderLen
    simp only [List.length_append, length_payload, length_spaces, List.length_map, List.length_range, List.length_cons,
      List.length_nil]
    rw [length_flatMap_const shape.reverse (leBytes 4) 4 (fun v _ => length_leBytes 4 v), List.length_reverse]
    omega
  · unfold emHeaderLen; omega

/-- today's writer on a 2-D density (2, 3): the header is 508 bytes, so the reader takes the first four padding
blanks for the slowest dimension (0x20202020 = 538976288) and starts the payload 4 bytes late — `to_file` does not
refuse a non-3-D density for the EM format -/
theorem em_rank2_witness :
    (emHeader 5 [2, 3] 1000).length = 508 ∧
    (emParse (emEncode 5 4 [2, 3] 1000 [1, 2, 3, 4, 5, 6])).map (·.shape) = some [538976288, 2, 3] := by
  set_option maxRecDepth 20000 in decide

/-! ## deepen3 — format dispatch: exact characterisation, `.gz` handling, case -/

/-- which names select which format, exactly -/
theorem saveFmt_iff (name : List Char) :
    (saveFmt name = .em ↔ (endsWith name "em".toList = true ∨ endsWith name "em.gz".toList = true)) ∧
    (saveFmt name = .h5 ↔ (¬ (endsWith name "em".toList = true ∨ endsWith name "em.gz".toList = true) ∧
      (endsWith name "h5".toList = true ∨ endsWith name "h5.gz".toList = true))) := by
  unfold saveFmt
  generalize endsWith name "em".toList = a
  generalize endsWith name "em.gz".toList = b
  generalize endsWith name "h5".toList = c
  generalize endsWith name "h5.gz".toList = d
  cases a <;> cases b <;> cases c <;> cases d <;> simp

/-- `to_file(name, gzip)` applied to its own final name changes nothing (".gz" is appended at most once) -/
theorem finalName_idem (name : List Char) (gzip : Bool) : finalName (finalName name gzip) gzip = finalName name gzip := by
  cases gzip with
  | false => simp [finalName]
  | true =>
    have h := (finalName_spec name).2
    show (if (true && !(endsWith (finalName name true) ".gz".toList)) = true then _ else _) = _
    rw [h]
    rfl

/-- the dispatch is by suffix, not by extension, and case-sensitive: no dot is needed ("stem" is an EM file), upper-case
extensions fall through to MRC, an upper-case ".GZ" gets a second ".gz" -/
theorem dispatch_suffix_witness :
    saveFmt "stem".toList = .em ∧ saveFmt "oh5".toList = .h5 ∧ saveFmt "a.EM".toList = .mrc ∧ saveFmt "a.H5".toList = .mrc ∧
    saveFmt "a.em.GZ".toList = .mrc ∧ finalName "a.mrc.GZ".toList true = "a.mrc.GZ.gz".toList ∧
    saveFmt "a.em.bak".toList = .mrc ∧ saveFmt "a.em.gz.gz".toList = .mrc ∧ saveFmt "a.hdf5".toList = .mrc ∧
    loadFmt "theorem.h5".toList = .h5 ∧ loadFmt "xh5.em.gz".toList = .em := by
  decide

example : mrcModeSize 12 = some 2 ∧ mrcModeSize 4 = some 8 ∧ mrcModeSize 3 = none ∧ mrcModeSize 101 = none := by decide
example : emReadItemsize 5 = 4 ∧ emReadItemsize 7 = 8 ∧ emReadItemsize 200 = 8 := by decide
example : emHeaderLen 3 = 512 ∧ emHeaderLen 2 = 508 ∧ emHeaderLen 4 = 516 := by decide
example : allTiny [30, 20, 10] = false := by decide +kernel
example : pyIndices 4 ⟨some (-1), none, none⟩ = some (3, 4, 1) ∧ pyIndices 4 ⟨some 1, some 9, some 2⟩ = some (1, 4, 2) ∧
    pyRange (1, 4, 2) = [1, 3] ∧ pyIndices 4 ⟨none, none, some 0⟩ = none ∧ pyIndices 4 ⟨some (-9), some (-1), none⟩ = some (0, 3, 1) := by decide
example : mrcSliceBox [⟨some 1, some 2, some 5⟩] [2, 3, 4] = some [(1, 2), (0, 3), (0, 4)] ∧
    mrcSliceBox [⟨none, some 2, none⟩] [2, 3, 4] = none ∧ emSliceBox [⟨some 1, some 2, none⟩] = some [(1, 2)] := by decide
example : (match emLoadSubsetAny (emEncode 7 8 [1, 1, 2] 1000 [4607182418800017408, 4611686018427387904]) [(0, 1), (0, 1), (1, 2)] with
    | .ok r => (r.shape, r.toList) | .err _ => ([], [])) = ([1, 1, 1], [4611686018427387904]) := by
  set_option maxRecDepth 20000 in decide

example : ∃ r r', emLoadSlices ([9, 9] ++ payload 2 (List.range 12) ++ [7]) 2 [2, 2, 3] 2
      [⟨some 1, some 2, none⟩, ⟨some 0, some 2, some 1⟩, ⟨some 1, some 3, none⟩] = .ok r ∧
    pySliceArr ⟨[2, 2, 3], (List.range 12).toArray⟩ [⟨some 1, some 2, none⟩, ⟨some 0, some 2, some 1⟩, ⟨some 1, some 3, none⟩] = .ok r' ∧
    r.shape = r'.shape ∧ ∀ i j k, i < 2 - 1 → j < 2 - 0 → k < 3 - 1 → r.getD [i, j, k] 0 = r'.getD [i, j, k] 0 :=
  em_slices_eq_python_slicing [9, 9] [7] 2 2 2 3 (List.range 12) 1 2 0 2 1 3 none (some 1) none (Or.inl rfl) (Or.inr rfl) (Or.inl rfl)
    (by decide) (by decide) (by decide) (by decide) (by decide)
example := mrc_slices_eq_python_slicing (List.replicate 1028 0) [] 1 2 2 3 (List.range 12) 0 1 1 2 0 3 (some 1) none none
    (Or.inr rfl) (Or.inl rfl) (Or.inl rfl) (by decide) (by decide) (by decide) (by decide) (by decide)
example : ∃ e, emLoadSlices [] 512 [2, 3, 4] 4 [⟨some 0, some 1, none⟩] = .err e :=
  em_slices_wrong_length [] 512 4 2 3 4 _ (by decide)
example := mrc_every_mode_subset_eq_slice 12 2 (by decide) (List.replicate 1024 0) [1, 2, 3, 4] List.length_replicate 2 2 3 (List.range 12)
    1 2 0 2 1 3 (by decide) (by decide) (by decide) (by decide) (by decide)
example := mrcReadCrs_permuted [1, 2, 0] (by decide) 2 3 4 2 3 4 12 80 [0, 0, 0] 4 6 6 10 20 30 (by decide +kernel) #[]
example := em_subset_any_code_eq_slice 7 1 2 2 1500 [1, 2, 3, 18446744073709551615] 0 1 1 2 0 2 (by decide) (by decide) (by decide)
    (by decide) (by decide) (by decide) (by decide) (by decide) (by decide) (by decide)
example : loadSubset (payload 1 (List.range 24)) 0 [2, 3, 4] 1 [(0, 1), (1, 3), (2, 4)] = .ok ⟨[1, 2, 2], #[6, 7, 10, 11]⟩ ∧
    pyRange (2, 4, 1) = [2, 3] := by
  constructor
  · rfl
  · decide
example : mrcReadCrs (mrcFields [2, 3, 4] [3 / 2, -9 / 4, 3] [3 / 2, 2, 1 / 2])
    = .ok ⟨[2, 3, 4], [3 / 2, -9 / 4, 3], [3 / 2, 2, 1 / 2], 1024, [0, 1, 2]⟩ :=
  mrcReadCrs_roundtrip 2 3 4 _ _ _ _ _ _ (by decide) (by decide) (by decide) (Or.inl (by decide +kernel))
example : finalName (finalName "a.em".toList true) true = "a.em.gz".toList := by decide

/-! ## deepen3 — byte offsets for any rank; the MRC round trip without side condition -/

/-- **offset of element `idx` = header + itemsize · ravel(idx)**, for a C-ordered payload of any rank, item size,
header and trailing bytes: the token at that offset is the element -/
theorem element_offset_any_rank (pre post : Bytes) (b : Nat) (shape idx : List Nat) (data : List Nat)
    (hlen : data.length = prodL shape) (hv : ∀ v ∈ data, v < 256 ^ b) (hin : inShape shape idx = true) :
    rdTok (pre ++ payload b data ++ post) (pre.length + flatIdx shape idx * b) b
      = (⟨shape, data.toArray⟩ : Arr Nat).getD idx 0 := by
  have hlt : flatIdx shape idx < data.length := by rw [hlen]; exact flatIdx_lt hin
  rw [rdTok_file pre post b data _ hlt (hv _ (List.getElem_mem hlt))]
  simp only [Arr.getD, hin, if_true, Array.getD_eq_getD_getElem?, List.getElem?_toArray, ← List.getD_eq_getElem?_getD]
  rw [List.getD_eq_getElem _ _ hlt]

/-- the row offsets `_read_binary_subset` seeks to are that formula for rank 3 -/
theorem rowOffset_eq_ravel (header nz ny nx b z y x0 : Nat) :
    rowOffset header ny nx b z y x0 = header + flatIdx [nz, ny, nx] [z, y, x0] * b := by
  simp [rowOffset, flatIdx, prodL]
  ring

/-- **MRC round trip of the header fields for every origin** (no side condition): shape, sampling rate, payload offset
and axis order always come back; the origin comes back unless it is within 1e-8 of zero while some start index
`rint(origin / rate)` is non-zero, in which case `start × rate` is reported (the known finding, stated exactly);
`mrc_roundtrip_fields` is the corollary for the other case -/
theorem mrc_roundtrip_fields_exact (nz ny nx : Nat) (oz oy ox sz sy sx : Rat)
    (hz : 0 < nz) (hy : 0 < ny) (hx : 0 < nx) :
    mrcRead (mrcFields [nz, ny, nx] [oz, oy, ox] [sz, sy, sx])
      = .ok ⟨[nz, ny, nx],
          (if allTiny [oz, oy, ox] && !([rint (oz / sz), rint (oy / sy), rint (ox / sx)].all (· == 0))
            then [(rint (oz / sz) : Rat) * sz, (rint (oy / sy) : Rat) * sy, (rint (ox / sx) : Rat) * sx] else [oz, oy, ox]),
          [sz, sy, sx], 1024, [0, 1, 2]⟩ := by
  have hz' : (nz : Rat) ≠ 0 := by exact_mod_cast hz.ne'
  have hy' : (ny : Rat) ≠ 0 := by exact_mod_cast hy.ne'
  have hx' : (nx : Rat) ≠ 0 := by exact_mod_cast hx.ne'
  unfold mrcRead mrcFields
  simp only [List.map_cons, List.map_nil, List.reverse_cons, List.reverse_nil, List.nil_append, List.cons_append,
    List.zipWith_cons_cons, List.zipWith_nil_right, zipMul, zipDiv]
  simp only [mul_div_cancel_right₀ _ hz', mul_div_cancel_right₀ _ hy', mul_div_cancel_right₀ _ hx']
  generalize (allTiny [oz, oy, ox] && !([rint (oz / sz), rint (oy / sy), rint (ox / sx)].all (· == 0))) = c
  cases c <;> simp

example : rdTok ([9, 9] ++ payload 2 (List.range 24) ++ [1]) (2 + flatIdx [2, 3, 4] [1, 2, 3] * 2) 2 = 23 := by decide
example : rowOffset 1024 3 4 2 1 2 3 = 1024 + 23 * 2 := by decide
example : (allTiny [63 / 12500000000, 0, 0] && !([rint ((63 / 12500000000 : Rat) / (1 / 10000000000)), rint ((0 : Rat) / (1 / 10000000000)),
    rint ((0 : Rat) / (1 / 10000000000))].all (· == 0))) = true ∧ allTiny [3 / 2, 0, 0] = false := by decide +kernel


/-! ## deepen3 — short reads on truncated files, as coded -/

/-- a row that lies inside the file is read whole -/
theorem readRowExact_complete (f : Bytes) (off k b : Nat) (hb : 0 < b) (h : off + k * b ≤ f.length) :
    readRowExact f off k b = some (readRow f off k b) := by
  unfold readRowExact
  have h1 : min (k * b) (f.length - off) = k * b := by omega
  simp only [h1, Nat.mul_mod_left, ne_eq, not_true_eq_false, if_false, Nat.mul_div_cancel _ hb, if_true]

/-- what a row read can return: the row, or — when exactly one item is left in the file — that item repeated -/
theorem readRowExact_outcomes (f : Bytes) (off k b : Nat) (r : List Nat) (h : readRowExact f off k b = some r) :
    r.length = k ∧ (r = readRow f off k b ∨ r = List.replicate k (rdTok f off b)) := by
  unfold readRowExact at h
  simp only at h
  split at h
  · simp at h
  · split at h
    · injection h with h; subst h; exact ⟨length_readRow _ _ _ _, Or.inl rfl⟩
    · split at h
      · injection h with h; subst h; exact ⟨by simp, Or.inr rfl⟩
      · simp at h

theorem optFlat_map_some {α : Type} (l : List α) (g : α → List Nat) :
    optFlat (l.map (fun x => some (g x))) = some (l.flatMap g) := by
  induction l with
  | nil => rfl
  | cons a l ih =>
    have : optFlat ((a :: l).map (fun x => some (g x))) =
        (match some (g a), optFlat (l.map (fun x => some (g x))) with
          | some a, some r => some (a ++ r)
          | _, _ => none) := rfl
    rw [this, ih]
    simp [List.flatMap_cons]

/-- on a file that holds the whole payload every row of every in-range box is read whole -/
theorem readRowsExact_complete (f : Bytes) (header nz ny nx b z0 z1 y0 y1 x0 x1 : Nat) (hb : 0 < b)
    (hf : header + nz * ny * nx * b ≤ f.length) (hz : z1 ≤ nz) (hy : y1 ≤ ny) (hx : x0 ≤ x1 ∧ x1 ≤ nx) :
    readRowsExact f header ny nx b z0 z1 y0 y1 x0 x1 = some (readRows f header ny nx b z0 z1 y0 y1 x0 x1) := by
  unfold readRowsExact readRows
  have hrow : ∀ i ∈ List.range (z1 - z0), ∀ j ∈ List.range (y1 - y0),
      readRowExact f (rowOffset header ny nx b (z0 + i) (y0 + j) x0) (x1 - x0) b
        = some (readRow f (rowOffset header ny nx b (z0 + i) (y0 + j) x0) (x1 - x0) b) := by
    intro i hi j hj
    simp only [List.mem_range] at hi hj
    apply readRowExact_complete _ _ _ _ hb
    have := box_inside nz ny nx (z0 + i + 1) (y0 + j + 1) x0 x1 b (by omega) (by omega) hx.2 (by omega) (by omega) hx.1
    simp only [Nat.add_sub_cancel] at this
    unfold rowOffset
    have e : (z0 + i) * ny * (nx * b) + (y0 + j) * (nx * b) = ((z0 + i) * ny + (y0 + j)) * nx * b := by ring
    omega
  have hinner : ∀ i ∈ List.range (z1 - z0),
      optFlat ((List.range (y1 - y0)).map (fun j =>
        readRowExact f (rowOffset header ny nx b (z0 + i) (y0 + j) x0) (x1 - x0) b))
      = some ((List.range (y1 - y0)).flatMap (fun j =>
        readRow f (rowOffset header ny nx b (z0 + i) (y0 + j) x0) (x1 - x0) b)) := by
    intro i hi
    rw [List.map_congr_left (fun j hj => hrow i hi j hj)]
    exact optFlat_map_some _ _
  rw [List.map_congr_left hinner]
  exact optFlat_map_some _ _

/-- **the item-by-item reader is the row reader of the theorems above on every file that holds the whole payload**,
for every box (accepted or refused): short reads only matter for truncated files -/
theorem readSubsetExact_eq_readSubset (f : Bytes) (header b nz ny nx : Nat) (box : Box) (hb : 0 < b)
    (hf : header + nz * ny * nx * b ≤ f.length) :
    readSubsetExact f header [nz, ny, nx] b box = readSubset f header [nz, ny, nx] b box := by
  unfold readSubsetExact readSubset
  cases hv : validateSlices box [nz, ny, nx] with
  | some e => rfl
  | none =>
    simp only
    match box, hv with
    | [(z0, z1), (y0, y1), (x0, x1)], hv =>
      have hs := validate_sound z0 z1 y0 y1 x0 x1 nz ny nx hv
      simp only
      by_cases hneg : z1 < z0 ∨ y1 < y0 ∨ x1 < x0
      · simp [hneg]
      · rw [if_neg hneg, if_neg hneg]
        have hrows := readRowsExact_complete f header nz ny nx b z0.toNat z1.toNat y0.toNat y1.toNat x0.toNat x1.toNat hb hf
          (by omega) (by omega) (by omega)
        simp only [hrows]
        rw [if_neg]
        rintro ⟨h1, h2, h3, h4⟩
        have := box_inside nz ny nx z1.toNat y1.toNat x0.toNat x1.toNat b (by omega) (by omega) (by omega) (by omega) (by omega) (by omega)
        unfold rowOffset at h4
        have e : (z1.toNat - 1) * ny * (nx * b) + (y1.toNat - 1) * (nx * b) = ((z1.toNat - 1) * ny + (y1.toNat - 1)) * nx * b := by ring
        omega
    | [], hv => rfl
    | [_], hv => rfl
    | [_, _], hv => rfl
    | _ :: _ :: _ :: _ :: _, hv => rfl

theorem loadSubsetExact_eq_loadSubset (f : Bytes) (header b nz ny nx : Nat) (box : Box) (hb : 0 < b)
    (hf : header + nz * ny * nx * b ≤ f.length) :
    loadSubsetExact f header [nz, ny, nx] b box = loadSubset f header [nz, ny, nx] b box := by
  unfold loadSubsetExact loadSubset
  rw [readSubsetExact_eq_readSubset f header b nz ny nx box hb hf]

/-- **sub-box = slice for the reader exactly as coded** (corollary of `loadSubset_eq_slice`) -/
theorem loadSubsetExact_eq_slice (pre post : Bytes) (b nz ny nx : Nat) (data : List Nat) (hb : 0 < b)
    (z0 z1 y0 y1 x0 x1 : Nat)
    (hlen : data.length = nz * ny * nx) (hv : ∀ v ∈ data, v < 256 ^ b)
    (hz : z0 ≤ z1 ∧ z1 ≤ nz) (hy : y0 ≤ y1 ∧ y1 ≤ ny) (hx : x0 ≤ x1 ∧ x1 ≤ nx) :
    ∃ r, loadSubsetExact (pre ++ payload b data ++ post) pre.length [nz, ny, nx] b
          [((z0 : Int), (z1 : Int)), ((y0 : Int), (y1 : Int)), ((x0 : Int), (x1 : Int))] = .ok r ∧
      r.shape = [z1 - z0, y1 - y0, x1 - x0] ∧
      ∀ i j k, i < z1 - z0 → j < y1 - y0 → k < x1 - x0 →
        r.getD [i, j, k] 0 = (⟨[nz, ny, nx], data.toArray⟩ : Arr Nat).getD [z0 + i, y0 + j, x0 + k] 0 := by
  rw [loadSubsetExact_eq_loadSubset _ _ _ _ _ _ _ hb (by simp [length_payload, hlen])]
  exact loadSubset_eq_slice pre post b nz ny nx data z0 z1 y0 y1 x0 x1 hlen hv hz hy hx

/-- today's reader on a (2, 3, 4) volume whose file lost its last voxel: the row `[1, 2, 2:4]` holds 23, 24; one item
is left in the file, numpy broadcasts it, and the caller gets 23, 23 without an error; with two voxels lost the
same request is refused.  (Outside the property: `to_file` never writes a truncated file.) -/
theorem truncated_row_broadcast_witness :
    (match loadSubsetExact (payload 1 (List.range 23)) 0 [2, 3, 4] 1 [(1, 2), (2, 3), (2, 4)] with
      | .ok r => (r.shape, r.toList) | .err _ => ([], [])) = ([1, 1, 2], [22, 22]) ∧
    (match loadSubsetExact (payload 1 (List.range 24)) 0 [2, 3, 4] 1 [(1, 2), (2, 3), (2, 4)] with
      | .ok r => (r.shape, r.toList) | .err _ => ([], [])) = ([1, 1, 2], [22, 23]) ∧
    (match loadSubsetExact (payload 1 (List.range 22)) 0 [2, 3, 4] 1 [(1, 2), (2, 3), (2, 4)] with
      | .ok _ => "ok" | .err e => e) = "ShortRead" ∧
    (match loadSubset (payload 1 (List.range 23)) 0 [2, 3, 4] 1 [(1, 2), (2, 3), (2, 4)] with
      | .ok _ => "ok" | .err e => e) = "ShortRead" := by
  decide

example : readRowExact (payload 2 [1, 2, 3]) 2 2 2 = some [2, 3] ∧ readRowExact (payload 2 [1, 2, 3]) 4 2 2 = some [3, 3] ∧
    readRowExact (payload 2 [1, 2, 3] ++ [0]) 4 2 2 = none ∧ readRowExact (payload 2 [1, 2, 3]) 6 2 2 = none ∧
    readRowExact (payload 2 [1, 2, 3]) 6 0 2 = some [] := by decide
example := readSubsetExact_eq_readSubset ([9, 9] ++ payload 2 (List.range 24) ++ [1]) 2 2 2 3 4 [(1, 2), (0, 2), (1, 9)] (by decide) (by decide)
example := loadSubsetExact_eq_slice [9, 9] [1] 2 2 3 4 (List.range 24) (by decide) 1 2 0 2 1 3 (by decide) (by decide) (by decide) (by decide) (by decide)


/-! ## deepen3 — the EM sampling-rate word -/

/-- **EM sampling rate to the precision of the format**: a rate of at least 0.001 Å is stored as a whole number of
1/1000 Å (truncated) and read back at most 0.001 Å too small, never too large -/
theorem em_rate_roundtrip_precision (q : Rat) (h : 1 / 1000 ≤ q) :
    emRateRead (emRateMilliOf q) ≤ q ∧ q - emRateRead (emRateMilliOf q) < 1 / 1000 ∧
    emRateRead (emRateMilliOf q) = (emRateOut (emRateMilliOf q) : Rat) / 1000 := by
  have hq : 0 ≤ q := by linarith
  have hm : emRateMilliOf q = (q * 1000).floor := by simp [emRateMilliOf, hq]
  have h1 : (1 : Int) ≤ (q * 1000).floor := Rat.le_floor_iff.mpr (by push_cast; linarith)
  have hne : (q * 1000).floor ≠ 0 := by omega
  have hle : (((q * 1000).floor : Int) : Rat) ≤ q * 1000 := Rat.floor_le _
  have hlt : q * 1000 < (((q * 1000).floor : Int) : Rat) + 1 := by
    have := Rat.lt_floor_add_one (q * 1000)
    push_cast at this
    exact this
  rw [hm]
  simp only [emRateRead, emRateOut, hne, if_false]
  refine ⟨by linarith, by linarith, trivial⟩

/-- a whole number of 1/1000 Å (any sign, any size) is stored and read back exactly — unless it is 0 -/
theorem em_rate_roundtrip_exact (m : Int) (hm : m ≠ 0) : emRateRead (emRateMilliOf ((m : Rat) / 1000)) = (m : Rat) / 1000 := by
  have e : ((m : Rat) / 1000) * 1000 = (m : Rat) := by ring
  have e2 : (-((m : Rat) / 1000)) * 1000 = ((-m : Int) : Rat) := by push_cast; ring
  unfold emRateMilliOf
  split
  · rw [e, Rat.floor_intCast]; simp [emRateRead, hm]
  · rw [e2, Rat.floor_intCast]; simp [emRateRead, hm]

/-- today's format on rates below 0.001 Å (and on 0): the word is 0, which the reader takes for "missing" and
reports as 1 Å; 1.2345 Å comes back as 1.234 Å; −2.5 Å as −2.5 Å (truncation is toward zero) -/
theorem em_rate_small_witness :
    emRateRead (emRateMilliOf (1 / 2000)) = 1 ∧ emRateRead (emRateMilliOf 0) = 1 ∧
    emRateRead (emRateMilliOf (2469 / 2000)) = 617 / 500 ∧ emRateRead (emRateMilliOf (-5 / 2)) = -5 / 2 ∧
    emRateMilliOf (-12345 / 10000) = -1234 := by
  decide +kernel

example : (1 : Rat) / 1000 ≤ 2469 / 2000 ∧ emRateMilliOf (2469 / 2000) = 1234 := by decide +kernel


/-! ## deepen3 — short requests; what an accepted request looks like -/

/-- python slicing completes a short tuple with full axes, exactly like `_load_mrc` (`mrcSliceBox_short`) -/
theorem pySliceArr_short (data : Array Nat) (nz ny nx : Nat) (s0 s1 : PySlice) :
    pySliceArr ⟨[nz, ny, nx], data⟩ [s0]
      = pySliceArr ⟨[nz, ny, nx], data⟩ [s0, ⟨some 0, some (ny : Int), none⟩, ⟨some 0, some (nx : Int), none⟩] ∧
    pySliceArr ⟨[nz, ny, nx], data⟩ [s0, s1]
      = pySliceArr ⟨[nz, ny, nx], data⟩ [s0, s1, ⟨some 0, some (nx : Int), none⟩] := by
  have full : ∀ n : Nat, pyIndices n ⟨none, none, none⟩ = pyIndices n ⟨some 0, some (n : Int), none⟩ := by
    intro n
    have h2 : ¬ ((n : Int) < 0) := by omega
    simp [pyIndices, h2]
  constructor <;>
    simp [pySliceArr, List.range_succ, full]

/-- **an MRC request of one leading slice** (what tiling along the slowest axis asks for) is read like python slices it -/
theorem mrc_one_slice_eq_python_slicing (pre post : Bytes) (b nz ny nx : Nat) (data : List Nat)
    (z0 z1 : Nat) (s0 : Option Int) (h0 : s0 = none ∨ s0 = some 1)
    (hlen : data.length = nz * ny * nx) (hv : ∀ v ∈ data, v < 256 ^ b) (hz : z0 ≤ z1 ∧ z1 ≤ nz) :
    ∃ r r', mrcLoadSlices (pre ++ payload b data ++ post) pre.length [nz, ny, nx] b [⟨some (z0 : Int), some (z1 : Int), s0⟩] = .ok r ∧
      pySliceArr ⟨[nz, ny, nx], data.toArray⟩ [⟨some (z0 : Int), some (z1 : Int), s0⟩] = .ok r' ∧
      r.shape = r'.shape ∧ r.shape = [z1 - z0, ny, nx] ∧
      ∀ i j k, i < z1 - z0 → j < ny → k < nx → r.getD [i, j, k] 0 = r'.getD [i, j, k] 0 := by
  obtain ⟨r, r', hr, hr', hs, hg⟩ := mrc_slices_eq_python_slicing pre post b nz ny nx data z0 z1 0 ny 0 nx s0 none none h0
    (Or.inl rfl) (Or.inl rfl) hlen hv hz ⟨Nat.zero_le _, Nat.le_refl _⟩ ⟨Nat.zero_le _, Nat.le_refl _⟩
  refine ⟨r, r', ?_, ?_, hs, ?_, ?_⟩
  · unfold mrcLoadSlices at hr ⊢
    rw [(mrcSliceBox_short _ ⟨none, none, none⟩ ⟨none, none, none⟩ ⟨none, none, none⟩ nz ny nx).1]
    exact hr
  · rw [(pySliceArr_short data.toArray nz ny nx _ ⟨none, none, none⟩).1]
    exact hr'
  · obtain ⟨r0, hr0, hs0, _⟩ := loadSubset_eq_slice pre post b nz ny nx data z0 z1 0 ny 0 nx hlen hv hz
      ⟨Nat.zero_le _, Nat.le_refl _⟩ ⟨Nat.zero_le _, Nat.le_refl _⟩
    have : mrcLoadSlices (pre ++ payload b data ++ post) pre.length [nz, ny, nx] b
        [⟨some (z0 : Int), some (z1 : Int), s0⟩, ⟨some ((0 : Nat) : Int), some (ny : Int), none⟩, ⟨some ((0 : Nat) : Int), some (nx : Int), none⟩] = .ok r0 := by
      simpa [mrcLoadSlices, mrcSliceBox, sliceBounds, List.range_succ] using hr0
    rw [hr] at this
    injection this with this
    subst this
    simpa using hs0
  · intro i j k hi hj hk
    exact hg i j k hi (by simpa using hj) (by simpa using hk)

/-- **what an accepted EM request looks like**: if `_load_em` returns data for three slices, all six bounds were given
and either lie inside the volume (`0 ≤ start ≤ stop ≤ n`) or have the volume's extents (the shortcut) -/
theorem em_slices_ok_box (f : Bytes) (header b nz ny nx : Nat) (s0 s1 s2 : PySlice) (r : Arr Nat)
    (h : emLoadSlices f header [nz, ny, nx] b [s0, s1, s2] = .ok r) :
    ∃ z0 z1 y0 y1 x0 x1 : Int,
      (s0.start = some z0 ∧ s0.stop = some z1 ∧ s1.start = some y0 ∧ s1.stop = some y1 ∧ s2.start = some x0 ∧ s2.stop = some x1) ∧
      (((0 ≤ z0 ∧ z0 ≤ z1 ∧ z1 ≤ nz) ∧ (0 ≤ y0 ∧ y0 ≤ y1 ∧ y1 ≤ ny) ∧ (0 ≤ x0 ∧ x0 ≤ x1 ∧ x1 ≤ nx)) ∨
       (z1 - z0 = nz ∧ y1 - y0 = ny ∧ x1 - x0 = nx ∧ r.shape = [nz, ny, nx])) := by
  rcases s0 with ⟨_ | z0, _ | z1, t0⟩ <;> rcases s1 with ⟨_ | y0, _ | y1, t1⟩ <;> rcases s2 with ⟨_ | x0, _ | x1, t2⟩ <;>
    first
    | (exfalso; simp [emLoadSlices, emSliceBox, sliceBounds] at h; done)
    | skip
  refine ⟨z0, z1, y0, y1, x0, x1, ⟨rfl, rfl, rfl, rfl, rfl, rfl⟩, ?_⟩
  have h' : loadSubset f header [nz, ny, nx] b [(z0, z1), (y0, y1), (x0, x1)] = .ok r := by
    simpa [emLoadSlices, emSliceBox, sliceBounds] using h
  exact loadSubset_ok_box f header b z0 z1 y0 y1 x0 x1 nz ny nx r h'

example := mrc_one_slice_eq_python_slicing (List.replicate 1024 0) [] 2 2 3 4 (List.range 24) 1 2 none (Or.inl rfl)
    (by decide) (by decide) (by decide)
example : mrcLoadSlices (payload 1 (List.range 24)) 0 [2, 3, 4] 1 [⟨some 1, some 2, none⟩]
    = .ok ⟨[1, 3, 4], #[12, 13, 14, 15, 16, 17, 18, 19, 20, 21, 22, 23]⟩ := rfl
example : emLoadSlices (payload 1 (List.range 24)) 0 [2, 3, 4] 1 [⟨some 1, some 2, none⟩, ⟨some 0, some 1, some 7⟩, ⟨some 2, some 4, none⟩]
    = .ok ⟨[1, 1, 2], #[14, 15]⟩ := rfl

/-- **`_validate_slices` for any rank, exactly**: a box is accepted iff it has one entry per axis and every bound lies
in `[0, n]` (`start ≤ stop` is *not* asked for; the binary reader refuses that later, numpy returns an empty axis);
`validate_sound` is the 3-D corollary -/
theorem validateSlices_none_iff (box : Box) (shape : List Nat) :
    validateSlices box shape = none ↔
      box.length = shape.length ∧ ∀ p ∈ List.zip box shape, (0 ≤ p.1.1 ∧ p.1.1 ≤ (p.2 : Int)) ∧ (0 ≤ p.1.2 ∧ p.1.2 ≤ (p.2 : Int)) := by
  unfold validateSlices
  constructor
  · intro h
    split at h
    · simp at h
    · rename_i hl
      split at h
      · simp at h
      · rename_i hex
        split at h
        · simp at h
        · rename_i hneg
          refine ⟨by simpa using hl, ?_⟩
          intro p hp
          have h1 : ¬ (decide (p.1.2 > (p.2 : Int)) || decide (p.1.1 > (p.2 : Int))) = true := by
            intro hc
            exact hex (List.any_eq_true.mpr ⟨p, hp, by simpa using hc⟩)
          have h2 : ¬ (decide (p.1.2 < 0) || decide (p.1.1 < 0)) = true := by
            intro hc
            exact hneg (List.any_eq_true.mpr ⟨p.1, (List.of_mem_zip hp).1, hc⟩)
          simp at h1 h2
          omega
  · rintro ⟨hl, hall⟩
    rw [if_neg (by simpa using hl)]
    rw [if_neg]
    · rw [if_neg]
      intro hc
      obtain ⟨s, hs, hc⟩ := List.any_eq_true.mp hc
      obtain ⟨i, hi, rfl⟩ := List.getElem_of_mem hs
      have hi' : i < shape.length := by omega
      have hp : (box[i], shape[i]) ∈ List.zip box shape := by
        rw [List.mem_iff_getElem]
        exact ⟨i, by simp [List.length_zip]; omega, by simp⟩
      have := hall _ hp
      simp only at this
      simp at hc
      omega
    · intro hc
      obtain ⟨p, hp, hc⟩ := List.any_eq_true.mp hc
      have := hall p hp
      simp at hc
      omega

example : validateSlices [(0, 2), (3, 1)] [2, 3] = none ∧ validateSlices [(0, 5)] [5] = none ∧
    validateSlices [(0, 1), (0, 1), (0, 1), (0, 2)] [1, 1, 1, 1] = some "Exceeds" ∧ validateSlices [] [] = none := by decide

/-- the same for every origin: when the origin words are within 1e-8 of zero and a start index is not zero, the
origin reported is `start × rate`, taken through the permutation as well -/
theorem mrcReadCrs_permuted_exact (crs : List Nat)
    (hcrs : crs ∈ [[0, 1, 2], [0, 2, 1], [1, 0, 2], [1, 2, 0], [2, 0, 1], [2, 1, 0]])
    (nz ny nx mz my mx mode nsymbt : Nat) (ax ay az : Int) (cx cy cz ox oy oz : Rat) :
    mrcReadCrs ⟨[nx, ny, nz], mode, [ax, ay, az], [mx, my, mz], [cx, cy, cz], crs.map (· + 1), [ox, oy, oz], nsymbt⟩
      = .ok ⟨permute crs [nz, ny, nx] 0,
             permute crs (if allTiny [oz, oy, ox] && !([az, ay, ax].all (· == 0))
               then [(az : Rat) * (cz / mz), (ay : Rat) * (cy / my), (ax : Rat) * (cx / mx)] else [oz, oy, ox]) 0,
             [cz / mz, cy / my, cx / mx], 1024 + nsymbt, crs⟩ := by
  simp only [List.mem_cons, List.not_mem_nil, or_false] at hcrs
  rcases hcrs with rfl | rfl | rfl | rfl | rfl | rfl <;>
  · unfold mrcReadCrs mrcRead
    simp only [List.map_cons, List.map_nil, List.reverse_cons, List.reverse_nil, List.nil_append, List.cons_append,
      List.zipWith_cons_cons, List.zipWith_nil_right, zipDiv, Nat.add_sub_cancel]
    cases hc : (allTiny [oz, oy, ox] && !([az, ay, ax].all (· == 0))) <;> simp [permute]

example : (match mrcReadCrs ⟨[4, 3, 2], 2, [1, 2, 3], [4, 3, 2], [4, 6, 6], [3, 1, 2], [0, 0, 0], 0⟩ with
      | .ok p => (p.shape, p.origin, p.rate) | .err _ => ([], [], [])) = ([4, 2, 3], [1, 9, 4], [3, 2, 1]) := by
  decide +kernel

/-! ## deepen3 — `use_memmap` on compressed input -/

/-- a memory-mapped read is granted exactly for files without the gzip magic number: always for a plain EM file,
never for anything written through gzip, and for a plain MRC file unless `nx ≡ 35615 (mod 65536)` (the known finding) -/
theorem effMemmap_spec (gz gunz : Bytes → Bytes) (hc : GzipContract gz gunz) (code b : Nat) (shape : List Nat) (rate : Int)
    (data : List Nat) (content : Bytes) (nx : Nat) (rest : Bytes) :
    effMemmap (emEncode code b shape rate data) true = true ∧
    effMemmap (writeMaybeGz gz true content) true = false ∧
    (effMemmap (leBytes 4 nx ++ rest) true = true ↔ nx % 65536 ≠ 35615) ∧
    (∀ f, effMemmap f false = false) := by
  refine ⟨by simp [effMemmap, em_not_gz], by simp [effMemmap, writeMaybeGz, hc.magic], ?_, fun f => by simp [effMemmap]⟩
  have h := mrc_gz_iff nx rest
  cases hg : isGz (leBytes 4 nx ++ rest)
  · simp only [effMemmap, hg, Bool.not_false, Bool.and_self, true_iff]
    intro h'
    rw [h.mpr h'] at hg
    exact absurd hg (by decide)
  · simp only [effMemmap, hg, Bool.not_true, Bool.and_false, Bool.false_eq_true, false_iff, ne_eq, not_not]
    exact h.mp hg

example : effMemmap (leBytes 4 64 ++ [0]) true = true ∧ effMemmap (leBytes 4 35615 ++ [0]) true = false ∧
    effMemmap [31, 139, 8] true = false := by decide


/-! ## deepen3 — sub-boxes through the gzip layer; the two slicing references agree -/

/-- **a sub-box of an EM file written through `to_file(…, gzip)` — compressed or not — is the slice**, for every
compressor meeting the gzip contract: the reader sniffs the magic number, gunzips into memory and runs the same
row loop on the bytes written -/
theorem em_gz_subset_eq_slice (gz gunz : Bytes → Bytes) (hc : GzipContract gz gunz) (gzip : Bool)
    (code b nz ny nx : Nat) (rate : Int) (data : List Nat) (hb : 0 < b)
    (z0 z1 y0 y1 x0 x1 : Nat)
    (hlen : data.length = nz * ny * nx) (hv : ∀ v ∈ data, v < 256 ^ b)
    (hz : z0 ≤ z1 ∧ z1 ≤ nz) (hy : y0 ≤ y1 ∧ y1 ≤ ny) (hx : x0 ≤ x1 ∧ x1 ≤ nx) :
    ∃ r, loadSubsetExact (openMaybeGz gunz (writeMaybeGz gz gzip (emEncode code b [nz, ny, nx] rate data))) 512 [nz, ny, nx] b
          [((z0 : Int), (z1 : Int)), ((y0 : Int), (y1 : Int)), ((x0 : Int), (x1 : Int))] = .ok r ∧
      r.shape = [z1 - z0, y1 - y0, x1 - x0] ∧
      ∀ i j k, i < z1 - z0 → j < y1 - y0 → k < x1 - x0 →
        r.getD [i, j, k] 0 = (⟨[nz, ny, nx], data.toArray⟩ : Arr Nat).getD [z0 + i, y0 + j, x0 + k] 0 := by
  rw [open_write_maybe_gz gz gunz hc gzip _ (em_not_gz _ _ _ _ _)]
  have h := loadSubsetExact_eq_slice (emHeader code [nz, ny, nx] rate) [] b nz ny nx data hb z0 z1 y0 y1 x0 x1 hlen hv hz hy hx
  rw [emHeader_length, List.append_nil] at h
  exact h

/-- the same for an MRC file (any mode's item size, any extended header) whose first dimension word does not carry the
gzip magic number (`nx ≢ 35615 mod 65536`, the known finding) -/
theorem mrc_gz_subset_eq_slice (gz gunz : Bytes → Bytes) (hc : GzipContract gz gunz) (gzip : Bool)
    (hdrRest ext : Bytes) (hh : hdrRest.length = 1020) (b nz ny nx : Nat) (hnx : nx % 65536 ≠ 35615) (data : List Nat) (hb : 0 < b)
    (z0 z1 y0 y1 x0 x1 : Nat)
    (hlen : data.length = nz * ny * nx) (hv : ∀ v ∈ data, v < 256 ^ b)
    (hz : z0 ≤ z1 ∧ z1 ≤ nz) (hy : y0 ≤ y1 ∧ y1 ≤ ny) (hx : x0 ≤ x1 ∧ x1 ≤ nx) :
    ∃ r, loadSubsetExact (openMaybeGz gunz (writeMaybeGz gz gzip (leBytes 4 nx ++ (hdrRest ++ ext ++ payload b data))))
          (1024 + ext.length) [nz, ny, nx] b
          [((z0 : Int), (z1 : Int)), ((y0 : Int), (y1 : Int)), ((x0 : Int), (x1 : Int))] = .ok r ∧
      r.shape = [z1 - z0, y1 - y0, x1 - x0] ∧
      ∀ i j k, i < z1 - z0 → j < y1 - y0 → k < x1 - x0 →
        r.getD [i, j, k] 0 = (⟨[nz, ny, nx], data.toArray⟩ : Arr Nat).getD [z0 + i, y0 + j, x0 + k] 0 := by
  rw [mrc_open_write gz gunz hc gzip nx _ hnx]
  have h := loadSubsetExact_eq_slice (leBytes 4 nx ++ hdrRest ++ ext) [] b nz ny nx data hb z0 z1 y0 y1 x0 x1 hlen hv hz hy hx
  simp only [List.append_nil, List.length_append, length_leBytes, hh] at h
  have e : leBytes 4 nx ++ (hdrRest ++ ext ++ payload b data) = leBytes 4 nx ++ hdrRest ++ ext ++ payload b data := by
    simp [List.append_assoc]
  rw [e]
  have e2 : 4 + 1020 + ext.length = 1024 + ext.length := by omega
  rw [e2] at h
  exact h

/-- for in-range unit-step requests the numpy-semantics model (`pySliceArr`, what the HDF5 path is compared with) is
the reference `sliceArr` of the sub-box theorems -/
theorem pySliceArr_eq_sliceArr (data : Array Nat) (nz ny nx z0 z1 y0 y1 x0 x1 : Nat)
    (hz : z0 ≤ z1 ∧ z1 ≤ nz) (hy : y0 ≤ y1 ∧ y1 ≤ ny) (hx : x0 ≤ x1 ∧ x1 ≤ nx) :
    ∃ r, pySliceArr ⟨[nz, ny, nx], data⟩
        [⟨some (z0 : Int), some (z1 : Int), none⟩, ⟨some (y0 : Int), some (y1 : Int), none⟩, ⟨some (x0 : Int), some (x1 : Int), none⟩] = .ok r ∧
      r.shape = (sliceArr ⟨[nz, ny, nx], data⟩ [((z0 : Int), (z1 : Int)), ((y0 : Int), (y1 : Int)), ((x0 : Int), (x1 : Int))]).shape ∧
      ∀ i j k, i < z1 - z0 → j < y1 - y0 → k < x1 - x0 →
        r.getD [i, j, k] 0 =
          (sliceArr ⟨[nz, ny, nx], data⟩ [((z0 : Int), (z1 : Int)), ((y0 : Int), (y1 : Int)), ((x0 : Int), (x1 : Int))]).getD [i, j, k] 0 := by
  obtain ⟨r, hr, hs, hg⟩ := pySliceArr_canonical data nz ny nx z0 z1 y0 y1 x0 x1 none none none (Or.inl rfl) (Or.inl rfl) (Or.inl rfl) hz hy hx
  refine ⟨r, hr, ?_, ?_⟩
  · rw [hs]; simp [sliceArr, Arr.ofFn, boxShape]
  · intro i j k hi hj hk
    rw [hg i j k hi hj hk, sliceArr_getD _ z0 z1 y0 y1 x0 x1 i j k hi hj hk]

example (gz gunz : Bytes → Bytes) (hc : GzipContract gz gunz) :=
  em_gz_subset_eq_slice gz gunz hc true 5 4 2 3 4 1000 (List.range 24) (by decide) 1 2 0 2 1 3 (by decide) (by decide) (by decide) (by decide) (by decide)
example (gz gunz : Bytes → Bytes) (hc : GzipContract gz gunz) :=
  mrc_gz_subset_eq_slice gz gunz hc true (List.replicate 1020 0) [1, 2] List.length_replicate 2 2 3 4 (by decide) (List.range 24) (by decide)
    1 2 0 2 1 3 (by decide) (by decide) (by decide) (by decide) (by decide)
example : GzipContract (fun x => [31, 139] ++ x) (fun x => x.drop 2) := ⟨fun x => by simp [isGz], fun x => by simp⟩

theorem mapM_map_congr {α β γ : Type} (f : β → Option γ) (g g' : α → β) (h : ∀ i, f (g i) = f (g' i)) :
    ∀ l : List α, (l.map g).mapM f = (l.map g').mapM f
  | [] => rfl
  | a :: l => by simp only [List.map_cons, List.mapM_cons, h a, mapM_map_congr f g g' h l]

/-- **the step of a slice never reaches the binary readers**: for MRC and EM the outcome of a request (data or
refusal) is the same for every choice of the three steps — whereas numpy / HDF5 honour them
(`shifted_full_box_and_step_witness`) -/
theorem binary_readers_ignore_step (f : Bytes) (header b : Nat) (shape : List Nat)
    (a0 b0 a1 b1 a2 b2 s0 s1 s2 t0 t1 t2 : Option Int) :
    emLoadSlices f header shape b [⟨a0, b0, s0⟩, ⟨a1, b1, s1⟩, ⟨a2, b2, s2⟩]
      = emLoadSlices f header shape b [⟨a0, b0, t0⟩, ⟨a1, b1, t1⟩, ⟨a2, b2, t2⟩] ∧
    mrcLoadSlices f header shape b [⟨a0, b0, s0⟩, ⟨a1, b1, s1⟩, ⟨a2, b2, s2⟩]
      = mrcLoadSlices f header shape b [⟨a0, b0, t0⟩, ⟨a1, b1, t1⟩, ⟨a2, b2, t2⟩] := by
  have hb : ∀ (a b s t : Option Int), sliceBounds ⟨a, b, s⟩ = sliceBounds ⟨a, b, t⟩ := by
    intro a b s t; cases a <;> cases b <;> rfl
  constructor
  · simp only [emLoadSlices, emSliceBox, List.mapM_cons, List.mapM_nil, hb a0 b0 s0 t0, hb a1 b1 s1 t1, hb a2 b2 s2 t2]
  · have hg : ∀ i : Nat, sliceBounds ((([⟨a0, b0, s0⟩, ⟨a1, b1, s1⟩, ⟨a2, b2, s2⟩] : List PySlice)).getD i ⟨some 0, some (shape.getD i 0 : Int), none⟩)
        = sliceBounds ((([⟨a0, b0, t0⟩, ⟨a1, b1, t1⟩, ⟨a2, b2, t2⟩] : List PySlice)).getD i ⟨some 0, some (shape.getD i 0 : Int), none⟩) := by
      intro i
      match i with
      | 0 => exact hb _ _ _ _
      | 1 => exact hb _ _ _ _
      | 2 => exact hb _ _ _ _
      | _ + 3 => rfl
    have hm : mrcSliceBox [⟨a0, b0, s0⟩, ⟨a1, b1, s1⟩, ⟨a2, b2, s2⟩] shape = mrcSliceBox [⟨a0, b0, t0⟩, ⟨a1, b1, t1⟩, ⟨a2, b2, t2⟩] shape := by
      unfold mrcSliceBox
      exact mapM_map_congr sliceBounds _ _ hg _
    simp only [mrcLoadSlices, hm]

example : emLoadSlices (payload 1 (List.range 24)) 0 [2, 3, 4] 1 [⟨some 0, some 1, some 2⟩, ⟨some 0, some 1, some 0⟩, ⟨some 0, some 4, some (-1)⟩]
    = emLoadSlices (payload 1 (List.range 24)) 0 [2, 3, 4] 1 [⟨some 0, some 1, none⟩, ⟨some 0, some 1, none⟩, ⟨some 0, some 4, none⟩] :=
  (binary_readers_ignore_step _ _ _ _ _ _ _ _ _ _ _ _ _ _ _ _).1


/-- **a short sub-box under any axis order is completed in the caller's axes**: for each of the six
`mapc/mapr/maps` orders, a request of one or two leading entries is the request completed with the full extents of
the *returned* (transposed) volume's remaining axes — with `mrc_crs_subset_eq_slice`: it is that slice -/
theorem mrcCrsBox_short (crs : List Nat)
    (hcrs : crs ∈ [[0, 1, 2], [0, 2, 1], [1, 0, 2], [1, 2, 0], [2, 0, 1], [2, 1, 0]])
    (a b : Int × Int) (n0 n1 n2 : Nat) :
    mrcCrsBox crs [a] [n0, n1, n2]
      = mrcCrsBox crs [a, (0, ((permute crs [n0, n1, n2] 0).getD 1 0 : Int)), (0, ((permute crs [n0, n1, n2] 0).getD 2 0 : Int))] [n0, n1, n2] ∧
    mrcCrsBox crs [a, b] [n0, n1, n2]
      = mrcCrsBox crs [a, b, (0, ((permute crs [n0, n1, n2] 0).getD 2 0 : Int))] [n0, n1, n2] := by
  simp only [List.mem_cons, List.not_mem_nil, or_false] at hcrs
  rcases hcrs with rfl | rfl | rfl | rfl | rfl | rfl <;>
    simp [mrcCrsBox, permute, invPerm, List.range_succ, List.idxOf, List.findIdx_cons]

example : mrcCrsBox [1, 2, 0] [(1, 2)] [2, 3, 4] = mrcCrsBox [1, 2, 0] [(1, 2), (0, 4), (0, 2)] [2, 3, 4] ∧
    permute [1, 2, 0] [2, 3, 4] 0 = [3, 4, 2] := by decide

/-- **the numpy-semantics model for every request** (None, negative, clipped, any positive step): extents
`ceil((stop - start) / step)` of the normalised slices, element `(i, j, k)` is element
`(start₀ + i·step₀, start₁ + j·step₁, start₂ + k·step₂)` of the volume — which lies inside it (`pyIndices_inside`) -/
theorem pySliceArr_general (data : Array Nat) (nz ny nx : Nat) (s0 s1 s2 : PySlice) (t0 t1 t2 : Nat × Nat × Nat)
    (h0 : pyIndices nz s0 = some t0) (h1 : pyIndices ny s1 = some t1) (h2 : pyIndices nx s2 = some t2) :
    ∃ r, pySliceArr ⟨[nz, ny, nx], data⟩ [s0, s1, s2] = .ok r ∧
      r.shape = [(pyRange t0).length, (pyRange t1).length, (pyRange t2).length] ∧
      ∀ i j k, i < (pyRange t0).length → j < (pyRange t1).length → k < (pyRange t2).length →
        r.getD [i, j, k] 0 = (⟨[nz, ny, nx], data⟩ : Arr Nat).getD [t0.1 + i * t0.2.2, t1.1 + j * t1.2.2, t2.1 + k * t2.2.2] 0 := by
  unfold pySliceArr
  simp only [List.length_cons, List.length_nil, Nat.lt_irrefl, if_false, List.range_succ, List.range_zero,
    List.nil_append, List.cons_append, List.map_cons, List.map_nil, List.getD_cons_zero, List.getD_cons_succ,
    Nat.reduceAdd, Nat.zero_add, h0, h1, h2]
  simp only [List.mapM_cons, List.mapM_nil, id, Option.pure_def, Option.bind_eq_bind, Option.bind_some]
  refine ⟨_, rfl, rfl, ?_⟩
  intro i j k hi hj hk
  rw [Arr.getD_ofFn _ _ _ _ (by simp [inShape, hi, hj, hk])]
  have e : ∀ (t : Nat × Nat × Nat) (i : Nat), i < (pyRange t).length → (pyRange t).getD i 0 = t.1 + i * t.2.2 := by
    intro t i hi
    unfold pyRange at hi ⊢
    simp only [List.length_map, List.length_range] at hi
    simp [List.getD_eq_getElem?_getD, hi]
  have e0 := e t0 i hi
  have e1 := e t1 j hj
  have e2 := e t2 k hk
  rw [List.getD_eq_getElem?_getD] at e0 e1 e2
  simp [e0, e1, e2]

example : ∃ r, pySliceArr ⟨[2, 3, 4], (List.range 24).toArray⟩ [⟨some (-1), none, none⟩, ⟨none, some (-2), none⟩, ⟨some 1, some 9, some 2⟩] = .ok r ∧
    r.shape = [1, 1, 2] := by
  obtain ⟨r, hr, hs, _⟩ := pySliceArr_general (List.range 24).toArray 2 3 4 ⟨some (-1), none, none⟩ ⟨none, some (-2), none⟩ ⟨some 1, some 9, some 2⟩
    (3 - 2, 2, 1) (0, 1, 1) (1, 4, 2) (by decide) (by decide) (by decide)
  exact ⟨r, hr, by rw [hs]; decide⟩

/-! ## deepen8 — extents, offset arithmetic, axis bookkeeping -/

/-- sub-box extents: one extent per axis of the box -/
theorem boxShape_length (box : Box) : (boxShape box).length = box.length := by
  simp [boxShape]

/-- **sub-box shape = slice lengths**: the reference slice has shape `stop - start` per axis -/
theorem sliceArr_shape (a : Arr Nat) (box : Box) :
    (sliceArr a box).shape = box.map (fun s => (s.2 - s.1).toNat) := by
  simp [sliceArr, Arr.ofFn, boxShape, List.map_map, Function.comp_def]

/-- the full-box shortcut is taken only when every extent equals the stored axis length exactly -/
theorem isFullBox_iff (box : Box) (shape : List Nat) :
    isFullBox box shape = true ↔ boxShape box = shape.map (fun (n : Nat) => (n : Int)) := by
  simp [isFullBox]

/-- row-major offsets: the next row starts one row (`nx` items) further -/
theorem rowOffset_succ_row (header ny nx b z y x0 : Nat) :
    rowOffset header ny nx b z (y + 1) x0 = rowOffset header ny nx b z y x0 + nx * b := by
  simp only [rowOffset]; ring

/-- row-major offsets: the next plane starts one plane (`ny·nx` items) further -/
theorem rowOffset_succ_plane (header ny nx b z y x0 : Nat) :
    rowOffset header ny nx b (z + 1) y x0 = rowOffset header ny nx b z y x0 + ny * (nx * b) := by
  simp only [rowOffset]; ring

/-- row-major offsets: moving the start column by `k` moves the offset by `k` items; never before the header -/
theorem rowOffset_add_col (header ny nx b z y x0 k : Nat) :
    rowOffset header ny nx b z y (x0 + k) = rowOffset header ny nx b z y x0 + k * b ∧
    header ≤ rowOffset header ny nx b z y x0 := by
  refine ⟨by simp only [rowOffset]; ring, by simp only [rowOffset]; omega⟩

/-- row-major offsets within a row are injective in the column for a positive item size -/
theorem rowOffset_col_injective (header ny nx b z y x0 x0' : Nat) (hb : 0 < b)
    (h : rowOffset header ny nx b z y x0 = rowOffset header ny nx b z y x0') : x0 = x0' := by
  simp only [rowOffset] at h
  exact Nat.eq_of_mul_eq_mul_right hb (by omega)

/-- the completed MRC box and the box in file axes always have one entry per stored axis -/
theorem mrc_boxes_length (crs : List Nat) (box : Box) (shape : List Nat) :
    (mrcPadBox box shape).length = shape.length ∧ (mrcCrsBox crs box shape).length = shape.length := by
  simp [mrcPadBox, mrcCrsBox]

/-- axis-order bookkeeping: `transpose` by `p` yields shape `shape[p]`, of rank `|p|`, and `argsort p` has `|p|` entries -/
theorem transposeArr_shape (a : Arr Nat) (p : List Nat) :
    (transposeArr a p).shape = permute p a.shape 0 ∧ (permute p a.shape 0).length = p.length ∧
    (invPerm p).length = p.length := by
  simp [transposeArr, Arr.ofFn, permute, invPerm]

/-- **sub-box by the full box = full read**: on the shortcut the result is the whole payload in the stored shape -/
theorem loadSubset_full_box (f : Bytes) (header : Nat) (shape : List Nat) (b : Nat) (box : Box) (r : Arr Nat)
    (hfull : isFullBox box shape = true) (h : loadSubset f header shape b box = .ok r) :
    r = ⟨shape, (readRow f header (prodL shape) b).toArray⟩ ∧ header + prodL shape * b ≤ f.length := by
  simp only [loadSubset, hfull, if_true] at h
  split at h
  · cases h
  · injection h with h; exact ⟨h.symm, by omega⟩

example : isFullBox [(0, 1), (0, 1), (0, 2)] [1, 1, 2] = true ∧
    ∃ r, loadSubset [7, 8] 0 [1, 1, 2] 1 [(0, 1), (0, 1), (0, 2)] = .ok r := ⟨by decide, _, rfl⟩

end Pm.C08
