import PytmeModel.Model.C08
import PytmeModel.Proofs.C08
import Mathlib.Tactic.Ring
import Mathlib.Tactic.Linarith
import Mathlib.Tactic.FieldSimp

/-! # C08 — density files round-trip and subset reads equal slicing the full volume

Voxels are bit patterns (`Nat < 256^b`), files are byte lists; see `Model/C08.lean`. -/
namespace Pm.C08

/-! ## EM: decode ∘ encode = id (shape and axis order, sampling word, every voxel) -/

/-- header fields read back from an encoded file -/
theorem emParse_emEncode (code b nz ny nx : Nat) (rate : Int) (data : List Nat)
    (hz : nz < 2147483648) (hy : ny < 2147483648) (hx : nx < 2147483648)
    (hr1 : -2147483648 ≤ rate) (hr2 : rate < 2147483648) :
    emParse (emEncode code b [nz, ny, nx] rate data) = some ⟨code, [nz, ny, nx], rate, 512⟩ := by
  have hlen : (emEncode code b [nz, ny, nx] rate data).length = 512 + data.length * b := by
    unfold emEncode; rw [List.length_append, emHeader_length, length_payload]
  have h256 : (256 : Nat) ^ 4 = 4294967296 := by norm_num
  -- the dimension words
  have hsplit1 : emEncode code b [nz, ny, nx] rate data =
      [0, 0, 0, code] ++ payload 4 [nx, ny, nz] ++
        (spaces 80 ++ (emUserParams rate ++ (spaces 256 ++ payload b data))) := by
    unfold emEncode emHeader
    simp only [List.append_assoc]
    rfl
  have hd : ∀ i (hi : i < 3), rdTok (emEncode code b [nz, ny, nx] rate data) (4 + i * 4) 4 = [nx, ny, nz][i] := by
    intro i hi
    rw [hsplit1]
    have := rdTok_file [0, 0, 0, code] (spaces 80 ++ (emUserParams rate ++ (spaces 256 ++ payload b data)))
      4 [nx, ny, nz] i (by simpa using hi) (by
        rw [h256]
        have : i = 0 ∨ i = 1 ∨ i = 2 := by omega
        rcases this with h | h | h <;> subst h <;> simp <;> omega)
    simpa using this
  have hd0 := hd 0 (by omega)
  have hd1 := hd 1 (by omega)
  have hd2 := hd 2 (by omega)
  -- the sampling word (user parameter 6)
  have hsplit2 : emEncode code b [nz, ny, nx] rate data =
      ([0, 0, 0, code] ++ payload 4 [nx, ny, nz] ++ spaces 80) ++
        payload 4 ((List.range 40).map (fun i => if i = 6 then i32ToU rate else 0)) ++
        (spaces 256 ++ payload b data) := by
    unfold emEncode emHeader emUserParams
    simp only [List.append_assoc]
    rfl
  have hr : rdTok (emEncode code b [nz, ny, nx] rate data) (96 + 4 * 6) 4 = i32ToU rate := by
    rw [hsplit2]
    have := rdTok_file ([0, 0, 0, code] ++ payload 4 [nx, ny, nz] ++ spaces 80)
      (spaces 256 ++ payload b data) 4
      ((List.range 40).map (fun i => if i = 6 then i32ToU rate else 0)) 6 (by simp)
      (by simp; exact i32ToU_lt rate)
    simpa [length_payload, length_spaces] using this
  have hc : (emEncode code b [nz, ny, nx] rate data).getD 3 0 = code := by
    rw [hsplit1, List.append_assoc, List.getD_append _ _ _ _ (by simp)]
    rfl
  unfold emParse
  rw [if_neg (by omega)]
  simp only [List.range_succ, List.range_zero, List.nil_append, List.map_cons, List.map_nil, List.cons_append,
    Nat.mul_zero, Nat.add_zero, Nat.mul_one]
  simp only [Nat.zero_mul, Nat.add_zero, Nat.one_mul] at hd0 hd1 hd2
  have e8 : 4 + 4 = 8 := rfl
  have e12 : 4 + 4 * 2 = 12 := rfl
  have e12' : 4 + 2 * 4 = 12 := rfl
  rw [e12'] at hd2
  rw [e8] at hd1
  simp only [e8, e12, hd0, hd1, hd2, hr, hc, uToI32_i32ToU rate hr1 hr2]
  simp

/-- **decode ∘ encode = id** for EM files: the type code, the shape *in the same axis order*,
the sampling word and every voxel (bit pattern) come back, for every 3-D shape. -/
theorem decode_encode_em (code b nz ny nx : Nat) (rate : Int) (data : List Nat)
    (hb : emItemsize code = some b)
    (hz : nz < 2147483648) (hy : ny < 2147483648) (hx : nx < 2147483648)
    (hr1 : -2147483648 ≤ rate) (hr2 : rate < 2147483648)
    (hlen : data.length = nz * ny * nx) (hv : ∀ v ∈ data, v < 256 ^ b) :
    emDecode (emEncode code b [nz, ny, nx] rate data) = some (⟨code, [nz, ny, nx], rate, 512⟩, data) := by
  have hprod : prodL [nz, ny, nx] = data.length := by simp [prodL, hlen]; ring
  have hflen : (emEncode code b [nz, ny, nx] rate data).length = 512 + data.length * b := by
    unfold emEncode; rw [List.length_append, emHeader_length, length_payload]
  unfold emDecode
  rw [emParse_emEncode code b nz ny nx rate data hz hy hx hr1 hr2]
  simp only [hb, hprod]
  rw [if_neg (by omega)]
  have hrow := readRow_all (emHeader code [nz, ny, nx] rate) [] b data hv
  rw [emHeader_length, List.append_nil] at hrow
  unfold emEncode
  rw [hrow]

/-- the memory-mapped EM read returns the same header fields and voxels as the in-memory read -/
theorem decode_encode_em_memmap (code b nz ny nx : Nat) (rate : Int) (data : List Nat)
    (hb : emItemsize code = some b) (hb0 : 0 < b)
    (hz : nz < 2147483648) (hy : ny < 2147483648) (hx : nx < 2147483648)
    (hr1 : -2147483648 ≤ rate) (hr2 : rate < 2147483648)
    (hlen : data.length = nz * ny * nx) (hv : ∀ v ∈ data, v < 256 ^ b) :
    emDecodeMemmap (emEncode code b [nz, ny, nx] rate data) = emDecode (emEncode code b [nz, ny, nx] rate data) := by
  rw [decode_encode_em code b nz ny nx rate data hb hz hy hx hr1 hr2 hlen hv]
  have hprod : prodL [nz, ny, nx] = data.length := by simp [prodL, hlen]; ring
  have hflen : (emEncode code b [nz, ny, nx] rate data).length = 512 + data.length * b := by
    unfold emEncode; rw [List.length_append, emHeader_length, length_payload]
  unfold emDecodeMemmap
  rw [emParse_emEncode code b nz ny nx rate data hz hy hx hr1 hr2]
  simp only [hb, hprod, hflen]
  rw [if_neg (by omega)]
  have hn : (512 + data.length * b - 512) / b = data.length := by
    rw [Nat.add_sub_cancel_left, Nat.mul_div_cancel _ hb0]
  rw [hn]
  simp only [ne_eq, not_true_eq_false, if_false]
  have hrow := readRow_all (emHeader code [nz, ny, nx] rate) [] b data hv
  rw [emHeader_length, List.append_nil] at hrow
  unfold emEncode
  rw [hrow]

/-- the type-code tables of writer and reader are inverse to each other, and every code the
writer can emit (incl. the default 5) has an item size -/
theorem em_tables_inverse :
    (∀ p ∈ emSaveTable, emDtypeOf p.2 = some p.1) ∧ (∀ p ∈ emLoadTable, emCodeOf p.2 = p.1) ∧
    emDtypeOf (emCodeOf "anything else") = some "float32" ∧
    (∀ p ∈ emSaveTable, emItemsize p.2 = dtypeSize p.1 ∧ (dtypeSize p.1).isSome) := by
  decide

/-- what the tree did before `fix: write EM header dimensions fastest axis first`: a (2,3,4)
volume parsed back as (4,3,2) (cubic test volumes hide it) -/
theorem em_shape_order_current_defect :
    (emParse (emEncodeOld 5 4 [2, 3, 4] 1000 (List.replicate 24 0))).map (·.shape) = some [4, 3, 2] ∧
    (emParse (emEncode 5 4 [2, 3, 4] 1000 (List.replicate 24 0))).map (·.shape) = some [2, 3, 4] := by
  set_option maxRecDepth 20000 in decide

/-- the sampling word: 0 means "missing" and is read as 1 Å; everything else is returned as is -/
theorem emRateOut_id (r : Int) (h : r ≠ 0) : emRateOut r = r := by
  simp [emRateOut, h]

/-! ## the row-wise sub-box reader returns the slice -/

/-- **Reading a sub-box returns exactly the corresponding slice** (`_read_binary_subset`):
for every header size, 3-D shape, item size, payload, trailing bytes and every in-bounds box
(incl. empty, single-voxel and full), the reader succeeds, the result has the box's extents and
element `(i, j, k)` is element `(z0+i, y0+j, x0+k)` of the row-major volume. -/
theorem readSubset_eq_slice (pre post : Bytes) (b nz ny nx : Nat) (data : List Nat)
    (z0 z1 y0 y1 x0 x1 : Nat)
    (hlen : data.length = nz * ny * nx) (hv : ∀ v ∈ data, v < 256 ^ b)
    (hz : z0 ≤ z1 ∧ z1 ≤ nz) (hy : y0 ≤ y1 ∧ y1 ≤ ny) (hx : x0 ≤ x1 ∧ x1 ≤ nx) :
    ∃ r, readSubset (pre ++ payload b data ++ post) pre.length [nz, ny, nx] b
          [((z0 : Int), (z1 : Int)), ((y0 : Int), (y1 : Int)), ((x0 : Int), (x1 : Int))] = .ok r ∧
      r.shape = [z1 - z0, y1 - y0, x1 - x0] ∧
      ∀ i j k, i < z1 - z0 → j < y1 - y0 → k < x1 - x0 →
        r.getD [i, j, k] 0 = (⟨[nz, ny, nx], data.toArray⟩ : Arr Nat).getD [z0 + i, y0 + j, x0 + k] 0 := by
  have hval : validateSlices [((z0 : Int), (z1 : Int)), ((y0 : Int), (y1 : Int)), ((x0 : Int), (x1 : Int))] [nz, ny, nx] = none := by
    simp [validateSlices]
    rw [if_neg (by omega), if_neg (by omega)]
  have hflen : (pre ++ payload b data ++ post).length = pre.length + nz * ny * nx * b + post.length := by
    simp [length_payload, hlen]; omega
  refine ⟨⟨[z1 - z0, y1 - y0, x1 - x0],
    (readRows (pre ++ payload b data ++ post) pre.length ny nx b z0 z1 y0 y1 x0 x1).toArray⟩, ?_, rfl, ?_⟩
  · unfold readSubset
    simp only [hval]
    rw [if_neg (by omega)]
    simp only [Int.toNat_natCast]
    rw [if_neg]
    rintro ⟨h1, h2, _, h4⟩
    have := box_inside nz ny nx z1 y1 x0 x1 b hz.2 hy.2 hx.2 (by omega) (by omega) hx.1
    unfold rowOffset at h4
    rw [hflen] at h4
    have e : (z1 - 1) * ny * (nx * b) + (y1 - 1) * (nx * b) = ((z1 - 1) * ny + (y1 - 1)) * nx * b := by ring
    omega
  · intro i j k hi hj hk
    have hin : inShape [z1 - z0, y1 - y0, x1 - x0] [i, j, k] = true := by simp [inShape, hi, hj, hk]
    have hin2 : inShape [nz, ny, nx] [z0 + i, y0 + j, x0 + k] = true := by
      simp [inShape]; omega
    have hf2 := flatIdx_lt hin2
    simp only [Arr.getD, hin, hin2, if_true]
    have e1 : flatIdx [z1 - z0, y1 - y0, x1 - x0] [i, j, k] = i * ((y1 - y0) * (x1 - x0)) + (j * (x1 - x0) + k) := by
      simp [flatIdx, prodL]
    have e2 : flatIdx [nz, ny, nx] [z0 + i, y0 + j, x0 + k] = ((z0 + i) * ny + (y0 + j)) * nx + x0 + k := by
      simp [flatIdx, prodL]; ring
    have hlt : ((z0 + i) * ny + (y0 + j)) * nx + x0 + k < data.length := by
      rw [← e2, hlen]; simpa [prodL, Nat.mul_assoc] using hf2
    rw [e1, e2]
    simp only [Array.getD_eq_getD_getElem?, List.getElem?_toArray, ← List.getD_eq_getElem?_getD]
    rw [readRows_getD _ _ _ _ _ _ _ _ _ _ _ i j k hi hj hk, rowOffset_eq]
    rw [rdTok_file pre post b data _ hlt (hv _ (List.getElem_mem hlt)), List.getD_eq_getElem _ _ hlt]

/-- the guard of the sub-box reader is sound: whatever it accepts lies inside the volume with
non-negative bounds, so the reader never returns data for an out-of-range box (no silent wrap) -/
theorem validate_sound (z0 z1 y0 y1 x0 x1 : Int) (nz ny nx : Nat)
    (h : validateSlices [(z0, z1), (y0, y1), (x0, x1)] [nz, ny, nx] = none) :
    (0 ≤ z0 ∧ z0 ≤ nz ∧ 0 ≤ z1 ∧ z1 ≤ nz) ∧ (0 ≤ y0 ∧ y0 ≤ ny ∧ 0 ≤ y1 ∧ y1 ≤ ny) ∧
    (0 ≤ x0 ∧ x0 ≤ nx ∧ 0 ≤ x1 ∧ x1 ≤ nx) := by
  simp only [validateSlices, List.length_cons, List.length_nil, ne_eq, not_true_eq_false, if_false,
    List.zip_cons_cons, List.zip_nil_right, List.any_cons, List.any_nil, Bool.or_false] at h
  split at h
  · simp at h
  · split at h
    · simp at h
    · simp at *
      omega

theorem readSubset_ok_inbounds (f : Bytes) (header b : Nat) (z0 z1 y0 y1 x0 x1 : Int) (nz ny nx : Nat) (r : Arr Nat)
    (h : readSubset f header [nz, ny, nx] b [(z0, z1), (y0, y1), (x0, x1)] = .ok r) :
    (0 ≤ z0 ∧ z0 ≤ z1 ∧ z1 ≤ nz) ∧ (0 ≤ y0 ∧ y0 ≤ y1 ∧ y1 ≤ ny) ∧ (0 ≤ x0 ∧ x0 ≤ x1 ∧ x1 ≤ nx) := by
  unfold readSubset at h
  cases hv : validateSlices [(z0, z1), (y0, y1), (x0, x1)] [nz, ny, nx] with
  | some e => simp [hv] at h
  | none =>
    have hs := validate_sound z0 z1 y0 y1 x0 x1 nz ny nx hv
    simp only [hv] at h
    split at h
    · simp at h
    · omega

/-! ## full-box shortcut + reader = slice; the shortcut as it was -/

/-- `_load_mrc` / `_load_em` with `subset`: whichever branch is taken (full-volume shortcut or
row reader), an in-bounds box yields the slice. -/
theorem loadSubset_eq_slice (pre post : Bytes) (b nz ny nx : Nat) (data : List Nat)
    (z0 z1 y0 y1 x0 x1 : Nat)
    (hlen : data.length = nz * ny * nx) (hv : ∀ v ∈ data, v < 256 ^ b)
    (hz : z0 ≤ z1 ∧ z1 ≤ nz) (hy : y0 ≤ y1 ∧ y1 ≤ ny) (hx : x0 ≤ x1 ∧ x1 ≤ nx) :
    ∃ r, loadSubset (pre ++ payload b data ++ post) pre.length [nz, ny, nx] b
          [((z0 : Int), (z1 : Int)), ((y0 : Int), (y1 : Int)), ((x0 : Int), (x1 : Int))] = .ok r ∧
      r.shape = [z1 - z0, y1 - y0, x1 - x0] ∧
      ∀ i j k, i < z1 - z0 → j < y1 - y0 → k < x1 - x0 →
        r.getD [i, j, k] 0 = (⟨[nz, ny, nx], data.toArray⟩ : Arr Nat).getD [z0 + i, y0 + j, x0 + k] 0 := by
  unfold loadSubset
  by_cases hfull : isFullBox [((z0 : Int), (z1 : Int)), ((y0 : Int), (y1 : Int)), ((x0 : Int), (x1 : Int))] [nz, ny, nx] = true
  · rw [if_pos hfull]
    have hb : z1 - z0 = nz ∧ y1 - y0 = ny ∧ x1 - x0 = nx := by
      simp [isFullBox, boxShape] at hfull
      omega
    have hz0 : z0 = 0 := by omega
    have hy0 : y0 = 0 := by omega
    have hx0 : x0 = 0 := by omega
    subst hz0 hy0 hx0
    have hprod : prodL [nz, ny, nx] = data.length := by simp [prodL, hlen]; ring
    have hflen : (pre ++ payload b data ++ post).length = pre.length + data.length * b + post.length := by
      simp [length_payload]; omega
    rw [if_neg (by rw [hprod, hflen]; omega)]
    refine ⟨_, rfl, by simp [hb.1, hb.2.1, hb.2.2], ?_⟩
    intro i j k hi hj hk
    rw [hprod, readRow_all pre post b data hv]
    simp
  · rw [if_neg hfull]
    exact readSubset_eq_slice pre post b nz ny nx data z0 z1 y0 y1 x0 x1 hlen hv hz hy hx

/-- before `fix: take the full-volume shortcut only when … exactly` the shortcut compared
shapes with `np.allclose`: a (1,1,100001) volume asked for its first 100000 voxels took the
shortcut and came back whole -/
theorem allclose_shortcut_current_defect :
    allcloseShape (boxShape [(0, 1), (0, 1), (0, 100000)]) [1, 1, 100001] = true ∧
    isFullBox [(0, 1), (0, 1), (0, 100000)] [1, 1, 100001] = false := by
  decide

/-- below 100000 voxels per axis the old and the new shortcut coincide -/
theorem allclose_eq_exact_small (a : Int) (n : Nat) (hn : n < 100000) :
    decide (100000 * (a - (n : Int)).natAbs ≤ n) = decide (a = (n : Int)) := by
  by_cases h : a = (n : Int)
  · subst h; simp
  · have : 1 ≤ (a - (n : Int)).natAbs := by omega
    simp only [h, decide_false, decide_eq_false_iff_not]
    omega


/-! ## corollaries for the two binary formats -/

/-- EM: a sub-box read of a file written by `_save_em` is the slice (header = 512 bytes) -/
theorem em_subset_eq_slice (code b nz ny nx : Nat) (rate : Int) (data : List Nat)
    (z0 z1 y0 y1 x0 x1 : Nat)
    (hlen : data.length = nz * ny * nx) (hv : ∀ v ∈ data, v < 256 ^ b)
    (hz : z0 ≤ z1 ∧ z1 ≤ nz) (hy : y0 ≤ y1 ∧ y1 ≤ ny) (hx : x0 ≤ x1 ∧ x1 ≤ nx) :
    ∃ r, loadSubset (emEncode code b [nz, ny, nx] rate data) 512 [nz, ny, nx] b
          [((z0 : Int), (z1 : Int)), ((y0 : Int), (y1 : Int)), ((x0 : Int), (x1 : Int))] = .ok r ∧
      r.shape = [z1 - z0, y1 - y0, x1 - x0] ∧
      ∀ i j k, i < z1 - z0 → j < y1 - y0 → k < x1 - x0 →
        r.getD [i, j, k] 0 = (⟨[nz, ny, nx], data.toArray⟩ : Arr Nat).getD [z0 + i, y0 + j, x0 + k] 0 := by
  have h := loadSubset_eq_slice (emHeader code [nz, ny, nx] rate) [] b nz ny nx data z0 z1 y0 y1 x0 x1 hlen hv hz hy hx
  rw [emHeader_length, List.append_nil] at h
  exact h

/-- MRC: 1024 header bytes, `nsymbt` bytes of extended header, float32 payload — a sub-box
read is the slice whatever the header bytes and the extended header contain -/
theorem mrc_subset_eq_slice (hdr ext : Bytes) (hh : hdr.length = 1024) (nz ny nx : Nat) (data : List Nat)
    (z0 z1 y0 y1 x0 x1 : Nat)
    (hlen : data.length = nz * ny * nx) (hv : ∀ v ∈ data, v < 256 ^ 4)
    (hz : z0 ≤ z1 ∧ z1 ≤ nz) (hy : y0 ≤ y1 ∧ y1 ≤ ny) (hx : x0 ≤ x1 ∧ x1 ≤ nx) :
    ∃ r, loadSubset (hdr ++ ext ++ payload 4 data) (1024 + ext.length) [nz, ny, nx] 4
          [((z0 : Int), (z1 : Int)), ((y0 : Int), (y1 : Int)), ((x0 : Int), (x1 : Int))] = .ok r ∧
      r.shape = [z1 - z0, y1 - y0, x1 - x0] ∧
      ∀ i j k, i < z1 - z0 → j < y1 - y0 → k < x1 - x0 →
        r.getD [i, j, k] 0 = (⟨[nz, ny, nx], data.toArray⟩ : Arr Nat).getD [z0 + i, y0 + j, x0 + k] 0 := by
  have h := loadSubset_eq_slice (hdr ++ ext) [] 4 nz ny nx data z0 z1 y0 y1 x0 x1 hlen hv hz hy hx
  rw [List.append_nil, List.length_append, hh] at h
  exact h

/-- `_load_mrc` leaves a complete 3-slice subset untouched (it only completes short ones) -/
theorem mrcPadBox_id (a b c : Int × Int) (nz ny nx : Nat) : mrcPadBox [a, b, c] [nz, ny, nx] = [a, b, c] := by
  simp [mrcPadBox, List.range_succ]

/-- the reference every sub-box read is compared with: numpy basic slicing -/
theorem sliceArr_getD (a : Arr Nat) (z0 z1 y0 y1 x0 x1 i j k : Nat)
    (hi : i < z1 - z0) (hj : j < y1 - y0) (hk : k < x1 - x0) :
    (sliceArr a [((z0 : Int), (z1 : Int)), ((y0 : Int), (y1 : Int)), ((x0 : Int), (x1 : Int))]).getD [i, j, k] 0
      = a.getD [z0 + i, y0 + j, x0 + k] 0 := by
  unfold sliceArr
  have hs : (boxShape [((z0 : Int), (z1 : Int)), ((y0 : Int), (y1 : Int)), ((x0 : Int), (x1 : Int))]).map Int.toNat
      = [z1 - z0, y1 - y0, x1 - x0] := by
    simp [boxShape]
  rw [hs, Arr.getD_ofFn _ _ _ _ (by simp [inShape, hi, hj, hk])]
  simp

/-! ## MRC header fields: what `_save_mrc` stores is what `_load_mrc` returns -/

/-- **MRC round trip of shape, axis order, origin and sampling rate** in exact arithmetic:
for every non-empty shape, every origin and every non-degenerate use of the start indices the
reader returns shape, origin and rate in the same (z, y, x) order, the payload offset 1024 and
the standard axis permutation.  The hypothesis is exactly the reader's special case: an origin
within 1e-8 of zero *with* a non-zero start index is replaced by start × rate (known finding,
`mrc_origin_tiny_current_defect`). -/
theorem mrc_roundtrip_fields (nz ny nx : Nat) (oz oy ox sz sy sx : Rat)
    (hz : 0 < nz) (hy : 0 < ny) (hx : 0 < nx)
    (ho : allTiny [oz, oy, ox] = false ∨ (rint (oz / sz) = 0 ∧ rint (oy / sy) = 0 ∧ rint (ox / sx) = 0)) :
    mrcRead (mrcFields [nz, ny, nx] [oz, oy, ox] [sz, sy, sx])
      = .ok ⟨[nz, ny, nx], [oz, oy, ox], [sz, sy, sx], 1024, [0, 1, 2]⟩ := by
  have hz' : (nz : Rat) ≠ 0 := by exact_mod_cast hz.ne'
  have hy' : (ny : Rat) ≠ 0 := by exact_mod_cast hy.ne'
  have hx' : (nx : Rat) ≠ 0 := by exact_mod_cast hx.ne'
  have hcond : (allTiny [oz, oy, ox] && !([rint (oz / sz), rint (oy / sy), rint (ox / sx)].all (· == 0))) = false := by
    rcases ho with h | ⟨h1, h2, h3⟩
    · simp [h]
    · simp [h1, h2, h3]
  unfold mrcRead mrcFields
  simp only [List.map_cons, List.map_nil, List.reverse_cons, List.reverse_nil, List.nil_append, List.cons_append,
    List.zipWith_cons_cons, List.zipWith_nil_right, zipMul, zipDiv]
  simp only [mul_div_cancel_right₀ _ hz', mul_div_cancel_right₀ _ hy', mul_div_cancel_right₀ _ hx']
  rw [hcond]
  simp

/-- the header words themselves: dimensions and cell in x, y, z order, start = rint(origin/rate) -/
theorem mrcFields_words (nz ny nx : Nat) (oz oy ox sz sy sx : Rat) :
    let h := mrcFields [nz, ny, nx] [oz, oy, ox] [sz, sy, sx]
    h.nxyz = [nx, ny, nz] ∧ h.mxyz = [nx, ny, nz] ∧ h.mode = 2 ∧ h.mapcrs = [1, 2, 3] ∧
    h.origin = [ox, oy, oz] ∧ h.cella = [sx * nx, sy * ny, sz * nz] ∧
    h.nstart = [rint (ox / sx), rint (oy / sy), rint (oz / sz)] := by
  simp [mrcFields, zipMul]

/-- today's reader on an origin of 5.04e-9 with a sampling rate of 1e-10 (SI units): the
origin comes back as 5.0e-9 -/
theorem mrc_origin_tiny_current_defect :
    (match mrcRead (mrcFields [2, 3, 4] [63 / 12500000000, 0, 0] [1 / 10000000000, 1 / 10000000000, 1 / 10000000000]) with
      | .ok p => p.origin | .err _ => []) = [1 / 200000000, 0, 0] := by
  decide +kernel

/-- a malformed axis permutation is refused -/
theorem mrcRead_malformed_crs (h : MrcFields) (hc : h.mapcrs = [1, 1, 3]) : mrcRead h = .err "MalformedCRS" := by
  simp [mrcRead, hc]

/-! ## gzip sniffing -/

/-- an EM file is never taken for a gzip file: it starts with a 0 byte -/
theorem em_not_gz (code b : Nat) (shape : List Nat) (rate : Int) (data : List Nat) :
    isGz (emEncode code b shape rate data) = false := by
  simp [isGz, emEncode, emHeader]

/-- an HDF5 file starts with `\x89HDF`: never taken for gzip -/
theorem h5_not_gz (rest : Bytes) : isGz ([137, 72, 68, 70] ++ rest) = false := by
  simp [isGz]

/-- an MRC file starts with `nx` as a little-endian int32; it carries the gzip magic number
**iff** `nx ≡ 35615 (mod 65536)` — the exact exception (known finding) -/
theorem mrc_gz_iff (nx : Nat) (rest : Bytes) :
    isGz (leBytes 4 nx ++ rest) = true ↔ nx % 65536 = 35615 := by
  simp only [isGz, leBytes, List.cons_append, List.take_succ_cons, List.take_zero, beq_iff_eq,
    List.cons.injEq, and_true]
  omega

/-- writing (optionally through gzip) and opening by magic number returns the bytes written,
for *every* compressor that satisfies the gzip contract, provided the plain content does not
itself start with the magic number -/
theorem open_write_maybe_gz (gz gunz : Bytes → Bytes) (hc : GzipContract gz gunz) (gzip : Bool)
    (content : Bytes) (hplain : isGz content = false) :
    openMaybeGz gunz (writeMaybeGz gz gzip content) = content := by
  cases gzip with
  | false => simp [openMaybeGz, writeMaybeGz, hplain]
  | true => simp [openMaybeGz, writeMaybeGz, hc.magic, hc.inv]

/-- EM round trip through the file system layer, compressed or not -/
theorem em_file_roundtrip (gz gunz : Bytes → Bytes) (hc : GzipContract gz gunz) (gzip : Bool)
    (code b nz ny nx : Nat) (rate : Int) (data : List Nat)
    (hb : emItemsize code = some b)
    (hz : nz < 2147483648) (hy : ny < 2147483648) (hx : nx < 2147483648)
    (hr1 : -2147483648 ≤ rate) (hr2 : rate < 2147483648)
    (hlen : data.length = nz * ny * nx) (hv : ∀ v ∈ data, v < 256 ^ b) :
    emDecode (openMaybeGz gunz (writeMaybeGz gz gzip (emEncode code b [nz, ny, nx] rate data)))
      = some (⟨code, [nz, ny, nx], rate, 512⟩, data) := by
  rw [open_write_maybe_gz gz gunz hc gzip _ (em_not_gz _ _ _ _ _)]
  exact decode_encode_em code b nz ny nx rate data hb hz hy hx hr1 hr2 hlen hv

/-! ## format dispatch -/

/-- reader and writer pick the same format for every file name -/
theorem load_fmt_eq_save_fmt (name : List Char) : loadFmt name = saveFmt name := rfl

/-- with `gzip` the final name ends in ".gz"; without, it is unchanged -/
theorem finalName_spec (name : List Char) :
    finalName name false = name ∧ endsWith (finalName name true) ".gz".toList = true := by
  constructor
  · simp [finalName]
  · unfold finalName
    cases h : endsWith name ".gz".toList
    · simp [endsWith]
    · simpa using h

/-- compressing does not change the format the file name selects -/
theorem fmt_stable_under_gz (name : List Char) (gzip : Bool) : saveFmt (finalName name gzip) = saveFmt name := by
  cases gzip with
  | false => simp [finalName]
  | true =>
    unfold finalName
    cases h : endsWith name ".gz".toList
    · have e1 := endsWith_append_gz name ['e', 'm']
      have e2 := endsWith_append_gz name ['h', '5']
      have e3 := not_endsWith_em_of_gz name
      have h' : endsWith name ['.', 'g', 'z'] = false := h
      simp only [List.cons_append, List.nil_append] at e1 e2
      simp [saveFmt, e1, e2, e3.1, e3.2, long_suffix name _ _ h']
    · simp

/-! ## the gzip layer for MRC and HDF5 files -/

/-- an MRC file written (compressed or not) is opened as the bytes written — unless its first
dimension carries the magic number -/
theorem mrc_open_write (gz gunz : Bytes → Bytes) (hc : GzipContract gz gunz) (gzip : Bool) (nx : Nat) (rest : Bytes)
    (h : nx % 65536 ≠ 35615) :
    openMaybeGz gunz (writeMaybeGz gz gzip (leBytes 4 nx ++ rest)) = leBytes 4 nx ++ rest := by
  apply open_write_maybe_gz gz gunz hc
  cases hg : isGz (leBytes 4 nx ++ rest)
  · rfl
  · exact absurd ((mrc_gz_iff nx rest).mp hg) h

/-- today's reader hands a *plain* MRC file with `nx = 35615` to gunzip (known finding) -/
theorem mrc_magic_current_defect (gunz : Bytes → Bytes) (rest : Bytes) :
    openMaybeGz gunz (leBytes 4 35615 ++ rest) = gunz (leBytes 4 35615 ++ rest) := by
  have : isGz (leBytes 4 35615 ++ rest) = true := (mrc_gz_iff 35615 rest).mpr (by decide)
  simp [openMaybeGz, this]

/-- an HDF5 file is always opened as written (its compression is internal to the file) -/
theorem h5_open (gunz : Bytes → Bytes) (rest : Bytes) :
    openMaybeGz gunz ([137, 72, 68, 70] ++ rest) = [137, 72, 68, 70] ++ rest := by
  unfold openMaybeGz
  rw [h5_not_gz]
  simp

/-! ## dtypes without an EM type code -/

/-- **whatever dtype the density is held in, the EM type code written describes the payload**: the reader
decodes the code to exactly the dtype the writer put on disk, so item size and interpretation agree
(with `decode_encode_em`: the voxels come back).  `dtype` ranges over all names, listed or not
(unsigned, half precision, 64-bit integers, bool, non-native byte order …). -/
theorem em_write_code_describes_payload (dtype : String) :
    emDtypeOf (emWriteCode dtype) = some (emWriteDtype dtype) ∧
    emItemsize (emWriteCode dtype) = dtypeSize (emWriteDtype dtype) ∧ (dtypeSize (emWriteDtype dtype)).isSome := by
  unfold emWriteCode emWriteDtype
  by_cases h : emSaveTable.any (·.1 == dtype) = true
  · rw [if_pos h]
    simp only [emSaveTable, List.any_cons, List.any_nil, Bool.or_false, Bool.or_eq_true, beq_iff_eq] at h
    rcases h with h | h | h | h | h | h | h <;> subst h <;> decide
  · rw [if_neg h]; decide

/-- a dtype with a type code is written as it is; every other one as float32 -/
theorem emWriteDtype_spec (dtype : String) :
    (dtype ∈ emSaveTable.map (·.1) → emWriteDtype dtype = dtype) ∧
    (dtype ∉ emSaveTable.map (·.1) → emWriteDtype dtype = "float32") := by
  unfold emWriteDtype
  constructor
  · intro h
    rw [if_pos]
    simp only [List.mem_map] at h
    obtain ⟨p, hp, rfl⟩ := h
    exact List.any_eq_true.mpr ⟨p, hp, by simp⟩
  · intro h
    rw [if_neg]
    intro hc
    obtain ⟨p, hp, he⟩ := List.any_eq_true.mp hc
    exact h (List.mem_map.mpr ⟨p, hp, by simpa using he⟩)

/-- before `fix: store dtypes without an EM type code as float32`: a uint16 volume went to disk as
2-byte items under type code 5 (float32), which the reader cannot even decode -/
theorem em_unlisted_dtype_current_defect :
    emCodeOf (emWriteDtypeOld "uint16") = 5 ∧
    emDecode (emEncode (emCodeOf (emWriteDtypeOld "uint16")) 2 [1, 1, 2] 1000 [7, 9]) = none ∧
    emDecode (emEncode (emWriteCode "uint16") 4 [1, 1, 2] 1000 [7, 9]) = some (⟨5, [1, 1, 2], 1000, 512⟩, [7, 9]) := by
  set_option maxRecDepth 20000 in decide

/-! ## MRC files of any data mode and any axis order -/

/-- the MRC sub-box read is the slice for every item size (modes int8 / int16 / uint16 / float16 / float32 …) -/
theorem mrc_mode_subset_eq_slice (hdr ext : Bytes) (hh : hdr.length = 1024) (b nz ny nx : Nat) (data : List Nat)
    (z0 z1 y0 y1 x0 x1 : Nat)
    (hlen : data.length = nz * ny * nx) (hv : ∀ v ∈ data, v < 256 ^ b)
    (hz : z0 ≤ z1 ∧ z1 ≤ nz) (hy : y0 ≤ y1 ∧ y1 ≤ ny) (hx : x0 ≤ x1 ∧ x1 ≤ nx) :
    ∃ r, loadSubset (hdr ++ ext ++ payload b data) (1024 + ext.length) [nz, ny, nx] b
          [((z0 : Int), (z1 : Int)), ((y0 : Int), (y1 : Int)), ((x0 : Int), (x1 : Int))] = .ok r ∧
      r.shape = [z1 - z0, y1 - y0, x1 - x0] ∧
      ∀ i j k, i < z1 - z0 → j < y1 - y0 → k < x1 - x0 →
        r.getD [i, j, k] 0 = (⟨[nz, ny, nx], data.toArray⟩ : Arr Nat).getD [z0 + i, y0 + j, x0 + k] 0 := by
  have h := loadSubset_eq_slice (hdr ++ ext) [] b nz ny nx data z0 z1 y0 y1 x0 x1 hlen hv hz hy hx
  rw [List.append_nil, List.length_append, hh] at h
  exact h

/-- with the standard axis order the file-order box is the completed request -/
theorem mrcCrsBox_standard (box : Box) (nz ny nx : Nat) :
    mrcCrsBox [0, 1, 2] box [nz, ny, nx] = mrcPadBox box [nz, ny, nx] := by
  simp [mrcCrsBox, mrcPadBox, invPerm, List.range_succ, List.idxOf, List.findIdx_cons]

/-- **a sub-box of an MRC file with any `mapc/mapr/maps` is the corresponding slice of the volume the
full read returns** (`np.transpose(data, crs)`): for each of the six axis orders, every header size, item
size, payload and every in-bounds box.  The box is written as `permute crs fb` for a file-order box `fb`
— as `fb` ranges over the in-bounds boxes of the file this is every in-bounds box of the returned
volume — and `permute crs [i, j, k]` is every index of the result. -/
theorem mrc_crs_subset_eq_slice (pre post : Bytes) (b n0 n1 n2 : Nat) (data : List Nat) (crs : List Nat)
    (hcrs : crs ∈ [[0, 1, 2], [0, 2, 1], [1, 0, 2], [1, 2, 0], [2, 0, 1], [2, 1, 0]])
    (z0 z1 y0 y1 x0 x1 : Nat)
    (hlen : data.length = n0 * n1 * n2) (hv : ∀ v ∈ data, v < 256 ^ b)
    (hz : z0 ≤ z1 ∧ z1 ≤ n0) (hy : y0 ≤ y1 ∧ y1 ≤ n1) (hx : x0 ≤ x1 ∧ x1 ≤ n2) :
    ∃ r, mrcLoadSubsetCrs (pre ++ payload b data ++ post) pre.length [n0, n1, n2] b crs
          (permute crs [((z0 : Int), (z1 : Int)), ((y0 : Int), (y1 : Int)), ((x0 : Int), (x1 : Int))] (0, 0)) = .ok r ∧
      r.shape = permute crs [z1 - z0, y1 - y0, x1 - x0] 0 ∧
      ∀ i j k, i < z1 - z0 → j < y1 - y0 → k < x1 - x0 →
        r.getD (permute crs [i, j, k] 0) 0
          = (transposeArr ⟨[n0, n1, n2], data.toArray⟩ crs).getD (permute crs [z0 + i, y0 + j, x0 + k] 0) 0 := by
  obtain ⟨r0, hr0, hs0, hg0⟩ := loadSubset_eq_slice pre post b n0 n1 n2 data z0 z1 y0 y1 x0 x1 hlen hv hz hy hx
  simp only [List.mem_cons, List.not_mem_nil, or_false] at hcrs
  refine ⟨transposeArr r0 crs, ?_, ?_, ?_⟩
  · unfold mrcLoadSubsetCrs
    rcases hcrs with rfl | rfl | rfl | rfl | rfl | rfl <;>
    · simp only [mrcCrsBox, permute, invPerm, List.map, List.range_succ, List.range_zero, List.nil_append, List.cons_append,
        List.length_cons, List.length_nil, List.getD_cons_zero, List.getD_cons_succ, List.idxOf, List.findIdx_cons,
        Nat.reduceBEq, Nat.reduceAdd, cond_true, cond_false, Nat.zero_add] at hr0 ⊢
      rw [hr0]
  · rcases hcrs with rfl | rfl | rfl | rfl | rfl | rfl <;> simp [transposeArr, Arr.ofFn, permute, hs0]
  · intro i j k hi hj hk
    unfold transposeArr
    rcases hcrs with rfl | rfl | rfl | rfl | rfl | rfl <;>
    · rw [Arr.getD_ofFn _ _ _ _ (by simp [permute, hs0, inShape, hi, hj, hk])]
      rw [Arr.getD_ofFn _ _ _ _ (by simp [permute, inShape]; omega)]
      simpa [permute, invPerm, List.range_succ, List.idxOf, List.findIdx_cons] using hg0 i j k hi hj hk

/-- before `fix: sub-box of an MRC file with permuted MAPC/MAPR/MAPS …` file axis `j` was given the
caller's entry `crs[j]` instead of `argsort(crs)[j]`: for the cyclic order (1, 2, 0) a request of extents
(1, 1, 2) on a (3, 4, 2)-shaped volume came back with extents (2, 1, 1); for the orders that are their own
inverse both coincide -/
theorem crs_cyclic_current_defect :
    (boxShape (mrcCrsBoxOld [1, 2, 0] [(0, 1), (1, 2), (0, 2)] [2, 3, 4])) = [1, 2, 1] ∧
    (boxShape (mrcCrsBox [1, 2, 0] [(0, 1), (1, 2), (0, 2)] [2, 3, 4])) = [2, 1, 1] ∧
    permute [1, 2, 0] [2, 1, 1] 0 = [1, 1, 2] ∧ permute [1, 2, 0] [1, 2, 1] 0 = [2, 1, 1] ∧
    (∀ box : Box, ∀ crs ∈ [[0, 1, 2], [0, 2, 1], [1, 0, 2], [2, 1, 0]], box.length = 3 →
      mrcCrsBoxOld crs box [2, 3, 4] = mrcCrsBox crs box [2, 3, 4]) := by
  refine ⟨by decide, by decide, by decide, by decide, ?_⟩
  intro box crs hcrs hl
  match box, hl with
  | [a, b, c], _ =>
    simp only [List.mem_cons, List.not_mem_nil, or_false] at hcrs
    rcases hcrs with rfl | rfl | rfl | rfl <;>
      simp [mrcCrsBoxOld, mrcCrsBox, invPerm, List.range_succ, List.idxOf, List.findIdx_cons]

/-! ## non-vacuity -/

example : validateSlices [(0, 2), (1, 3), (1, 4)] [2, 3, 4] = none ∧
    validateSlices [(0, 3), (1, 3), (1, 4)] [2, 3, 4] = some "Exceeds" ∧
    validateSlices [(-1, 2), (1, 3), (1, 4)] [2, 3, 4] = some "Negative" := by decide

example : emDecode (emEncode 5 4 [1, 2, 2] 1500 [1, 2, 3, 4000000000])
    = some (⟨5, [1, 2, 2], 1500, 512⟩, [1, 2, 3, 4000000000]) := by
  set_option maxRecDepth 20000 in decide
example : emItemsize 5 = some 4 ∧ emItemsize 6 = some 8 ∧ emItemsize 4 = none := by decide
example : (match readSubset ([9, 9] ++ payload 2 [10, 11, 12, 13, 14, 15, 16, 17, 18, 19, 20, 21] ++ [7]) 2 [2, 2, 3] 2
    [(1, 2), (0, 2), (1, 3)] with | .ok r => (r.shape, r.toList) | .err _ => ([], [])) = ([1, 2, 2], [17, 18, 20, 21]) := by decide
example : isGz (leBytes 4 35615 ++ [0]) = true ∧ isGz (leBytes 4 101151) = true ∧ isGz (leBytes 4 64) = false := by decide
example : mrcRead (mrcFields [2, 3, 4] [3 / 2, -9 / 4, 3] [3 / 2, 2, 1 / 2])
    = .ok ⟨[2, 3, 4], [3 / 2, -9 / 4, 3], [3 / 2, 2, 1 / 2], 1024, [0, 1, 2]⟩ :=
  mrc_roundtrip_fields 2 3 4 _ _ _ _ _ _ (by decide) (by decide) (by decide) (Or.inl (by decide +kernel))
example : saveFmt "a.em.gz".toList = .em ∧ saveFmt "a.h5".toList = .h5 ∧ saveFmt "a.map".toList = .mrc ∧
    finalName "a.mrc".toList true = "a.mrc.gz".toList ∧ saveFmt (finalName "stem".toList true) = .em := by decide

example : emWriteDtype "int16" = "int16" ∧ emWriteCode "int16" = 2 ∧ emWriteDtype "uint16" = "float32" ∧
    emWriteCode "float32-be" = 5 ∧ emWriteCode "float64" = 6 := by decide
example : invPerm [1, 2, 0] = [2, 0, 1] ∧ permute [1, 2, 0] [10, 20, 30] 0 = [20, 30, 10] ∧
    mrcCrsBox [1, 2, 0] [(0, 1), (1, 2), (0, 2)] [2, 3, 4] = [(0, 2), (0, 1), (1, 2)] ∧
    mrcCrsBox [1, 2, 0] [(1, 2)] [2, 3, 4] = [(0, 2), (1, 2), (0, 4)] := by decide
example : (transposeArr ⟨[1, 2, 3], #[0, 1, 2, 3, 4, 5]⟩ [1, 2, 0]).shape = [2, 3, 1] ∧
    (transposeArr ⟨[1, 2, 3], #[0, 1, 2, 3, 4, 5]⟩ [2, 0, 1]).toList = [0, 3, 1, 4, 2, 5] := by decide
example : (match mrcLoadSubsetCrs ([9, 9] ++ payload 1 [0, 1, 2, 3, 4, 5]) 2 [1, 2, 3] 1 [2, 0, 1] [(1, 3), (0, 1), (1, 2)] with
    | .ok r => (r.shape, r.toList) | .err _ => ([], [])) = ([2, 1, 1], [4, 5]) := by decide

end Pm.C08
