import PytmeModel.Model.C01
import PytmeModel.Proofs.Circ
import PytmeModel.Proofs.Common
import PytmeModel.Proofs.C01Field
import PytmeModel.Proofs.C01Textbook
import PytmeModel.Proofs.DftConv
import PytmeModel.Proofs.DftInv
import Mathlib.Algebra.BigOperators.Group.Finset.Basic
import Mathlib.Tactic.Ring
import Mathlib.Tactic.Linarith

/-! # C01 — FFT-computed scores equal their spatial-domain definitions (index algebra, any dimension) -/
namespace Pm.C01

/-- a field vanishes outside the box `[0, ns)` -/


def Supp {α} [Zero α] (ns : List Nat) (f : List Int → α) : Prop := ∀ j, OutOfBox ns j → f j = 0

/-- well-formed index pair for the support lemma: same rank as the shapes -/
theorem outOfRange_cases (ns ms : List Nat) (j r : List Int) (h : OutOfRange ns ms j r) :
    OutOfBox ns j ∨ OutOfBox ms r := by
  induction ns generalizing ms j r with
  | nil => cases ms <;> cases j <;> cases r <;> simp [OutOfRange] at h
  | cons n ns ih =>
    cases ms with
    | nil => cases j <;> cases r <;> simp [OutOfRange] at h
    | cons m ms =>
      cases j with
      | nil => simp [OutOfRange] at h
      | cons j0 js =>
        cases r with
        | nil => simp [OutOfRange] at h
        | cons r0 rs =>
          simp only [OutOfRange] at h
          rcases h with (h | h | h | h) | h
          · exact Or.inl (Or.inl (Or.inl h))
          · exact Or.inl (Or.inl (Or.inr h))
          · exact Or.inr (Or.inl (Or.inl h))
          · exact Or.inr (Or.inl (Or.inr h))
          · rcases ih ms js rs h with h' | h'
            · exact Or.inl (Or.inr h')
            · exact Or.inr (Or.inr h')

/-- reversing twice is the identity on in-shape template indices -/
theorem revIdx_revK : ∀ (ms k : List Nat), inShape ms k = true → revIdx ms (revK ms k) = natsToInts k
  | [], [], _ => rfl
  | [], _ :: _, h => by simp [inShape] at h
  | _ :: _, [], h => by simp [inShape] at h
  | m :: ms, k :: ks, h => by
    have hr := (inShape_cons.mp h).2
    simp only [revK, revIdx, natsToInts, List.map_cons]
    have := revIdx_revK ms ks hr
    simp only [natsToInts] at this
    rw [this]
    congr 1
    simp

/-- the reversed field vanishes outside the template box when the field does -/
theorem outIdx_revIdx (ms : List Nat) (r : List Int) (hr : OutOfBox ms r) : OutOfBox ms (revIdx ms r) := by
  induction ms generalizing r with
  | nil => cases r <;> simp [OutOfBox] at hr
  | cons m ms ih =>
    cases r with
    | nil => simp [OutOfBox] at hr
    | cons r0 rs =>
      simp only [OutOfBox, revIdx] at hr ⊢
      rcases hr with (h | h) | h
      · left; right; omega
      · left; left; omega
      · right; exact ih rs h

theorem supp_rev {α} [Zero α] (ms : List Nat) (g : List Int → α) (hg : Supp ms g) : Supp ms (rev ms g) := by
  intro r hr
  unfold rev
  split
  · exact hg _ (outIdx_revIdx ms r hr)
  · exact hg _ hr

theorem revK_length : ∀ (ms k : List Nat), inShape ms k = true → (revK ms k).length = ms.length
  | [], [], _ => rfl
  | [], _ :: _, h => by simp [inShape] at h
  | _ :: _, [], h => by simp [inShape] at h
  | m :: ms, k :: ks, h => by
    simp only [revK, List.length_cons]
    rw [revK_length ms ks (inShape_cons.mp h).2]

/-- raw position minus `(m-1)` plus `k` is the window position `t + k - m/2` -/
theorem winIdx_rawPos : ∀ (ms : List Nat) (t : List Int) (k : List Nat),
    (∀ m ∈ ms, 0 < m) → winIdx ms (rawPos ms t) k = specIdx ms t k
  | [], _, _, _ => by simp [winIdx, specIdx]
  | _ :: _, [], _, _ => by simp [winIdx, specIdx, rawPos]
  | _ :: _, _ :: _, [], _ => by simp [winIdx, specIdx, rawPos]
  | m :: ms, t :: ts, k :: ks, hpos => by
    simp only [winIdx, rawPos, specIdx]
    rw [winIdx_rawPos ms ts ks (fun x hx => hpos x (List.mem_cons_of_mem _ hx))]
    congr 1
    have := hpos m List.mem_cons_self
    omega

/-- **Theorem A (any dimension, any commutative semiring).**  The FFT product of the zero-padded
target with the zero-padded *reversed* template, read at raw position `t + (m-1)/2`, is the
correlation of the zero-extended target with the template whose voxel `m/2` sits at `t`. -/
theorem rawCorr_eq_corrSpec {α} [CommSemiring α] (ns ms Ns : List Nat) (t : List Int)
    (f g : List Int → α) (hf : Supp ns f) (hg : Supp ms g)
    (hax : AxesOk ns ms Ns (rawPos ms t)) (hpos : ∀ m ∈ ms, 0 < m) :
    circ Ns f (rev ms g) (rawPos ms t) = corrSpec ms f g t := by
  unfold circ corrSpec
  rw [circ_reindex_nd ns ms Ns (rawPos ms t) (fun j r => f j * rev ms g r) hax]
  · apply sumShape_congr
    intro k hk
    simp only [rev, revK_length ms k hk, if_true]
    rw [winIdx_rawPos ms t k hpos, revIdx_revK ms k hk]
  · intro j r h
    rcases outOfRange_cases ns ms j r h with h' | h'
    · rw [hf j h']; simp
    · rw [supp_rev ms g hg r h']; simp

/-! ## Frames: `roll(fourier_shift)`, `[:conv]`, `same` / `valid` crop -/

/-- side conditions of the `same` frame, per axis: template not larger than the target, fast shape at
least the convolution shape, `t` a target voxel and — without Fourier padding — the window inside -/
def SameOk (pad : Bool) : List Nat → List Nat → List Nat → List Int → Prop
  | [], [], [], [] => True
  | n :: ns, m :: ms, N :: Ns, t :: ts =>
      (0 < m ∧ m ≤ n ∧ convLen n m pad ≤ N ∧ 0 ≤ t ∧ t < n ∧
        (pad = false → (((m / 2 : Nat) : Int) ≤ t ∧ t ≤ (n : Int) - 1 - (((m - 1) / 2 : Nat) : Int)))) ∧
      SameOk pad ns ms Ns ts
  | _, _, _, _ => False

theorem convLen_pad (n m : Nat) (h : m ≤ n) : convLen n m true = n + m - 1 := by
  simp [convLen, Nat.max_eq_left h]
theorem convLen_nopad (n m : Nat) (h : m ≤ n) : convLen n m false = n := by
  simp [convLen, Nat.max_eq_left h]
theorem fourierShift_pad (m : Nat) : fourierShift m true = 0 := by simp [fourierShift]
theorem fourierShift_nopad (m : Nat) :
    fourierShift m false = 1 - ((m / 2 : Nat) : Int) - ((m % 2 : Nat) : Int) := by simp [fourierShift]

/-- one axis of the `same` frame: the raw index read for `t` is `t + (m-1)/2`, and the side
conditions of the reindexing lemma hold there -/
theorem same_axis (pad : Bool) (n m N : Nat) (t : Int) (hm : 0 < m) (hmn : m ≤ n) (hN : convLen n m pad ≤ N)
    (ht0 : 0 ≤ t) (ht1 : t < n)
    (hwin : pad = false → (((m / 2 : Nat) : Int) ≤ t ∧ t ≤ (n : Int) - 1 - (((m - 1) / 2 : Nat) : Int))) :
    let u := t + (((m - 1) / 2 : Nat) : Int)
    rawIdx N (fourierShift m pad) (cropStart (convLen n m pad) n) t = u ∧
    (0 < m ∧ n ≤ N ∧ (u + N - ((n:Int) - 1) ≥ m ∨ u ≥ (n:Int) - 1) ∧ u < N ∧ 0 ≤ u) := by
  cases pad with
  | true =>
    rw [convLen_pad n m hmn] at hN ⊢
    rw [fourierShift_pad]
    simp only [rawIdx, cropStart]
    have e : t + ((((n + m - 1 : Nat) : Int) - n) / 2) - 0 = t + (((m - 1) / 2 : Nat) : Int) := by omega
    rw [e]
    refine ⟨Int.emod_eq_of_lt (by omega) (by omega), hm, by omega, Or.inl (by omega), by omega, by omega⟩
  | false =>
    obtain ⟨hw0, hw1⟩ := hwin rfl
    rw [convLen_nopad n m hmn] at hN ⊢
    rw [fourierShift_nopad]
    simp only [rawIdx, cropStart]
    have e : t + (((n : Int) - n) / 2) - (1 - (((m / 2 : Nat)) : Int) - ((m % 2 : Nat) : Int))
        = t + (((m - 1) / 2 : Nat) : Int) := by omega
    rw [e]
    refine ⟨Int.emod_eq_of_lt (by omega) (by omega), hm, by omega, Or.inl (by omega), by omega, by omega⟩

theorem frame_same (pad : Bool) : ∀ (ns ms Ns : List Nat) (t : List Int), SameOk pad ns ms Ns t →
    frameIdx Ns (shiftsOf pad ms) (sameCrops pad ns ms) t = rawPos ms t ∧ AxesOk ns ms Ns (rawPos ms t) ∧
    (∀ m ∈ ms, 0 < m)
  | [], [], [], [], _ => by simp [frameIdx, rawPos, AxesOk]
  | n :: ns, m :: ms, N :: Ns, t :: ts, h => by
    obtain ⟨⟨hm, hmn, hN, ht0, ht1, hwin⟩, hrest⟩ := h
    obtain ⟨e, hax⟩ := same_axis pad n m N t hm hmn hN ht0 ht1 hwin
    obtain ⟨e', hax', hpos'⟩ := frame_same pad ns ms Ns ts hrest
    refine ⟨?_, ⟨hax, hax'⟩, ?_⟩
    · simp only [shiftsOf, List.map_cons, sameCrops, frameIdx, rawPos]
      simp only [shiftsOf] at e'
      rw [e, e']
    · intro x hx
      rcases List.mem_cons.mp hx with rfl | hx
      · exact hm
      · exact hpos' x hx
  | [], _ :: _, _, _, h => by cases h
  | [], [], _ :: _, _, h => by cases h
  | [], [], [], _ :: _, h => by cases h
  | _ :: _, [], _, _, h => by cases h
  | _ :: _, _ :: _, [], _, h => by cases h
  | _ :: _, _ :: _, _ :: _, [], h => by cases h

/-- **C01, `same` frame (unsplit search), any dimension.**  The value the pipeline reports at a target
voxel `t` is the correlation of the zero-extended target with the template window whose voxel
`m/2` sits at `t` — for every `t` with full Fourier padding, and for every `t` whose window lies
inside the target without it. -/
theorem implCorr_same {α} [CommSemiring α] (pad : Bool) (ns ms Ns : List Nat) (t : List Int)
    (f g : List Int → α) (hf : Supp ns f) (hg : Supp ms g) (h : SameOk pad ns ms Ns t) :
    implCorr Ns ms (shiftsOf pad ms) (sameCrops pad ns ms) f g t = corrSpec ms f g t := by
  obtain ⟨e, hax, hpos⟩ := frame_same pad ns ms Ns t h
  unfold implCorr
  rw [e]
  exact rawCorr_eq_corrSpec ns ms Ns t f g hf hg hax hpos

/-! ### full Fourier padding, template of any extent (also larger than the target on some axes) -/

/-- one axis of the `same` frame with full Fourier padding, *all* branches of `_fourier_padding`: whatever the relation of
template and target extent, output position `t` reads raw position `t + (m-1)/2` -/
theorem same_axis_full (n m N : Nat) (t : Int) (hm : 0 < m) (hn : 0 < n) (hN : convLen n m true ≤ N)
    (ht0 : 0 ≤ t) (ht1 : t < n) :
    let u := t + (((m - 1) / 2 : Nat) : Int)
    rawIdx N (fourierShiftFull n m true) (cropStart (convLen n m true) n) t = u ∧
    (0 < m ∧ n ≤ N ∧ (u + N - ((n:Int) - 1) ≥ m ∨ u ≥ (n:Int) - 1) ∧ u < N ∧ 0 ≤ u) := by
  by_cases hmn : m ≤ n
  · have : fourierShiftFull n m true = fourierShift m true := by
      unfold fourierShiftFull
      have : ¬ ((n : Int) - m < 0) := by omega
      simp [this]
    rw [this]
    exact same_axis true n m N t hm hmn hN ht0 ht1 (by intro h; cases h)
  · have hlt : n < m := by omega
    have hconv : convLen n m true = m + m - 1 := by simp [convLen, Nat.max_eq_right (le_of_lt hlt)]
    rw [hconv] at hN ⊢
    intro u
    have hneg : (n : Int) - m < 0 := by omega
    have key : (t + cropStart (m + m - 1) n - fourierShiftFull n m true) = u := by
      unfold fourierShiftFull fourierShift cropStart
      simp only [if_true, hneg]
      rcases Nat.mod_two_eq_zero_or_one n with hn2 | hn2 <;> rcases Nat.mod_two_eq_zero_or_one m with hm2 | hm2
      · have hoff : ((n : Int) - m) % 2 = 0 := by omega
        simp only [hn2, hm2, hoff]
        simp
        rw [Int.tdiv_eq_ediv_of_nonneg (by omega)]
        omega
      · have hoff : ((n : Int) - m) % 2 = 1 := by omega
        simp only [hn2, hm2, hoff]
        simp
        rw [Int.tdiv_eq_ediv_of_nonneg (by omega)]
        omega
      · have hoff : ((n : Int) - m) % 2 = 1 := by omega
        simp only [hn2, hm2, hoff]
        simp
        rw [Int.tdiv_eq_ediv_of_nonneg (by omega)]
        omega
      · have hoff : ((n : Int) - m) % 2 = 0 := by omega
        simp only [hn2, hm2, hoff]
        simp
        rw [Int.tdiv_eq_ediv_of_nonneg (by omega)]
        omega
    have hu0 : 0 ≤ u := by omega
    have huN : u < N := by omega
    refine ⟨?_, hm, by omega, Or.inl (by omega), huN, hu0⟩
    unfold rawIdx
    rw [key]
    exact Int.emod_eq_of_lt hu0 huN


/-- side conditions with full Fourier padding: any positive extents -/
def SameFullOk : List Nat → List Nat → List Nat → List Int → Prop
  | [], [], [], [] => True
  | n :: ns, m :: ms, N :: Ns, t :: ts =>
      (0 < m ∧ 0 < n ∧ convLen n m true ≤ N ∧ 0 ≤ t ∧ t < n) ∧ SameFullOk ns ms Ns ts
  | _, _, _, _ => False

theorem frame_same_full : ∀ (ns ms Ns : List Nat) (t : List Int), SameFullOk ns ms Ns t →
    frameIdx Ns (shiftsOfFull true ns ms) (sameCrops true ns ms) t = rawPos ms t ∧ AxesOk ns ms Ns (rawPos ms t) ∧
    (∀ m ∈ ms, 0 < m)
  | [], [], [], [], _ => by simp [frameIdx, rawPos, AxesOk]
  | n :: ns, m :: ms, N :: Ns, t :: ts, h => by
    obtain ⟨⟨hm, hn, hN, ht0, ht1⟩, hrest⟩ := h
    obtain ⟨e, hax⟩ := same_axis_full n m N t hm hn hN ht0 ht1
    obtain ⟨e', hax', hpos'⟩ := frame_same_full ns ms Ns ts hrest
    refine ⟨?_, ⟨hax, hax'⟩, ?_⟩
    · simp only [shiftsOfFull, sameCrops, frameIdx, rawPos]
      rw [e, e']
    · intro x hx
      rcases List.mem_cons.mp hx with rfl | hx
      · exact hm
      · exact hpos' x hx
  | [], _ :: _, _, _, h => by cases h
  | [], [], _ :: _, _, h => by cases h
  | [], [], [], _ :: _, h => by cases h
  | _ :: _, [], _, _, h => by cases h
  | _ :: _, _ :: _, [], _, h => by cases h
  | _ :: _, _ :: _, _ :: _, [], h => by cases h

/-- **C01 with full Fourier padding, no restriction on the template's extent.**  Also when the template is larger than
the target on some axes (the correction branch of `_fourier_padding`: halved shape difference, parity offsets, truncating
cast), the value reported at every target voxel `t` is the windowed sum over the zero-extended target with template voxel
`m/2` at `t`. -/
theorem implCorr_same_full {α} [CommSemiring α] (ns ms Ns : List Nat) (t : List Int)
    (f g : List Int → α) (hf : Supp ns f) (hg : Supp ms g) (h : SameFullOk ns ms Ns t) :
    implCorr Ns ms (shiftsOfFull true ns ms) (sameCrops true ns ms) f g t = corrSpec ms f g t := by
  obtain ⟨e, hax, hpos⟩ := frame_same_full ns ms Ns t h
  unfold implCorr
  rw [e]
  exact rawCorr_eq_corrSpec ns ms Ns t f g hf hg hax hpos

/-- non-vacuity: a 5-voxel template on a 3-voxel target, fast length 9 -/
example : SameFullOk [3] [5] [9] [2] := by simp [SameFullOk, convLen]

/-- side conditions of the `valid` frame (padded tiles): `j` indexes the cropped map -/
def ValidOk (pad : Bool) : List Nat → List Nat → List Nat → List Int → Prop
  | [], [], [], [] => True
  | n :: ns, m :: ms, N :: Ns, j :: js =>
      (0 < m ∧ m ≤ n ∧ convLen n m pad ≤ N ∧ 0 ≤ j ∧ j < validExt n m) ∧ ValidOk pad ns ms Ns js
  | _, _, _, _ => False

theorem valid_axis (pad : Bool) (n m N : Nat) (j : Int) (hm : 0 < m) (hmn : m ≤ n) (hN : convLen n m pad ≤ N)
    (hj0 : 0 ≤ j) (hj1 : j < validExt n m) :
    let u := (j + ((m / 2 : Nat) : Int)) + (((m - 1) / 2 : Nat) : Int)
    rawIdx N (fourierShift m pad) (cropStart (convLen n m pad) (validExt n m)) j = u ∧
    (0 < m ∧ n ≤ N ∧ (u + N - ((n:Int) - 1) ≥ m ∨ u ≥ (n:Int) - 1) ∧ u < N ∧ 0 ≤ u) := by
  cases pad with
  | true =>
    rw [convLen_pad n m hmn] at hN ⊢
    rw [fourierShift_pad]
    simp only [rawIdx, cropStart, validExt] at *
    have e : j + ((((n + m - 1 : Nat) : Int) - ((n - m + m % 2 : Nat) : Int)) / 2) - 0
        = (j + ((m / 2 : Nat) : Int)) + (((m - 1) / 2 : Nat) : Int) := by omega
    rw [e]
    refine ⟨Int.emod_eq_of_lt (by omega) (by omega), hm, by omega, Or.inl (by omega), by omega, by omega⟩
  | false =>
    rw [convLen_nopad n m hmn] at hN ⊢
    rw [fourierShift_nopad]
    simp only [rawIdx, cropStart, validExt] at *
    have e : j + (((n : Int) - ((n - m + m % 2 : Nat) : Int)) / 2)
          - (1 - (((m / 2 : Nat)) : Int) - ((m % 2 : Nat) : Int))
        = (j + ((m / 2 : Nat) : Int)) + (((m - 1) / 2 : Nat) : Int) := by omega
    rw [e]
    refine ⟨Int.emod_eq_of_lt (by omega) (by omega), hm, by omega, Or.inl (by omega), by omega, by omega⟩

theorem frame_valid (pad : Bool) : ∀ (ns ms Ns : List Nat) (j : List Int), ValidOk pad ns ms Ns j →
    frameIdx Ns (shiftsOf pad ms) (validCrops pad ns ms) j = rawPos ms (validT ms j) ∧
    AxesOk ns ms Ns (rawPos ms (validT ms j)) ∧ (∀ m ∈ ms, 0 < m)
  | [], [], [], [], _ => by simp [frameIdx, rawPos, AxesOk, validT]
  | n :: ns, m :: ms, N :: Ns, j :: js, h => by
    obtain ⟨⟨hm, hmn, hN, hj0, hj1⟩, hrest⟩ := h
    obtain ⟨e, hax⟩ := valid_axis pad n m N j hm hmn hN hj0 hj1
    obtain ⟨e', hax', hpos'⟩ := frame_valid pad ns ms Ns js hrest
    refine ⟨?_, ⟨hax, hax'⟩, ?_⟩
    · simp only [shiftsOf, List.map_cons, validCrops, frameIdx, rawPos, validT]
      simp only [shiftsOf] at e'
      rw [e, e']
    · intro x hx
      rcases List.mem_cons.mp hx with rfl | hx
      · exact hm
      · exact hpos' x hx
  | [], _ :: _, _, _, h => by cases h
  | [], [], _ :: _, _, h => by cases h
  | [], [], [], _ :: _, h => by cases h
  | _ :: _, [], _, _, h => by cases h
  | _ :: _, _ :: _, [], _, h => by cases h
  | _ :: _, _ :: _, _ :: _, [], h => by cases h

/-- **C01/C02, `valid` frame (padded tiles), any dimension.**  Output position `j` of the cropped map is
the correlation at translation `j + m/2` of the scored (padded) array; every such window lies
inside that array, so neither zero padding nor wrap-around contributes. -/
theorem implCorr_valid {α} [CommSemiring α] (pad : Bool) (ns ms Ns : List Nat) (j : List Int)
    (f g : List Int → α) (hf : Supp ns f) (hg : Supp ms g) (h : ValidOk pad ns ms Ns j) :
    implCorr Ns ms (shiftsOf pad ms) (validCrops pad ns ms) f g j = corrSpec ms f g (validT ms j) := by
  obtain ⟨e, hax, hpos⟩ := frame_valid pad ns ms Ns j h
  unfold implCorr
  rw [e]
  exact rawCorr_eq_corrSpec ns ms Ns (validT ms j) f g hf hg hax hpos

/-! ## Grid (signed-permutation) rotations of the template, 2-D and 3-D -/

/-- reversal (point reflection about the geometric centre) commutes with every grid rotation -/
theorem pull_rev_comm3 (R : GridRot) (a b c : Nat) (h : GridOk3 R a b c) (x0 x1 x2 : Int) :
    revIdx [a,b,c] (R.pull [a,b,c] [x0,x1,x2]) = R.pull [a,b,c] (revIdx [a,b,c] [x0,x1,x2]) := by
  obtain ⟨⟨f0, f1, f2, hf⟩, hp⟩ := h
  rcases hp with hp | ⟨hp, e⟩ | ⟨hp, e⟩ | ⟨hp, e1, e2⟩ | ⟨hp, e1, e2⟩ | ⟨hp, e⟩ <;>
  cases f0 <;> cases f1 <;> cases f2 <;>
  simp [GridRot.pull, revIdx, hp, hf, List.range, List.range.loop] <;> omega

theorem pull_rev_comm2 (R : GridRot) (a b : Nat) (h : GridOk2 R a b) (x0 x1 : Int) :
    revIdx [a,b] (R.pull [a,b] [x0,x1]) = R.pull [a,b] (revIdx [a,b] [x0,x1]) := by
  obtain ⟨⟨f0, f1, hf⟩, hp⟩ := h
  rcases hp with hp | ⟨hp, e⟩ <;> cases f0 <;> cases f1 <;>
  simp [GridRot.pull, revIdx, hp, hf, List.range, List.range.loop] <;> omega

/-- a grid rotation maps the outside of the template box to the outside -/
theorem outIdx_pull3 (R : GridRot) (a b c : Nat) (h : GridOk3 R a b c) (x0 x1 x2 : Int)
    (hx : OutOfBox [a,b,c] [x0,x1,x2]) : OutOfBox [a,b,c] (R.pull [a,b,c] [x0,x1,x2]) := by
  obtain ⟨⟨f0, f1, f2, hf⟩, hp⟩ := h
  simp only [OutOfBox, or_false] at hx
  rcases hp with hp | ⟨hp, e⟩ | ⟨hp, e⟩ | ⟨hp, e1, e2⟩ | ⟨hp, e1, e2⟩ | ⟨hp, e⟩ <;>
  cases f0 <;> cases f1 <;> cases f2 <;>
  simp [GridRot.pull, OutOfBox, hp, hf, List.range, List.range.loop] <;> omega

theorem outIdx_pull2 (R : GridRot) (a b : Nat) (h : GridOk2 R a b) (x0 x1 : Int)
    (hx : OutOfBox [a,b] [x0,x1]) : OutOfBox [a,b] (R.pull [a,b] [x0,x1]) := by
  obtain ⟨⟨f0, f1, hf⟩, hp⟩ := h
  simp only [OutOfBox, or_false] at hx
  rcases hp with hp | ⟨hp, e⟩ <;> cases f0 <;> cases f1 <;>
  simp [GridRot.pull, OutOfBox, hp, hf, List.range, List.range.loop] <;> omega

theorem supp_rot3 {α} [Zero α] (R : GridRot) (a b c : Nat) (h : GridOk3 R a b c) (g : List Int → α)
    (hg : Supp [a,b,c] g) : Supp [a,b,c] (rotF R [a,b,c] g) := by
  intro x hx
  unfold rotF
  split
  · rename_i hl
    match x, hl with
    | [x0, x1, x2], _ => exact hg _ (outIdx_pull3 R a b c h x0 x1 x2 hx)
  · exact hg x hx

theorem supp_rot2 {α} [Zero α] (R : GridRot) (a b : Nat) (h : GridOk2 R a b) (g : List Int → α)
    (hg : Supp [a,b] g) : Supp [a,b] (rotF R [a,b] g) := by
  intro x hx
  unfold rotF
  split
  · rename_i hl
    match x, hl with
    | [x0, x1], _ => exact hg _ (outIdx_pull2 R a b h x0 x1 hx)
  · exact hg x hx

@[simp] theorem pull_length (R : GridRot) (ms : List Nat) (x : List Int) : (R.pull ms x).length = ms.length := by
  simp [GridRot.pull]

@[simp] theorem revIdx_length3 (a b c : Nat) (x0 x1 x2 : Int) : (revIdx [a,b,c] [x0,x1,x2]).length = 3 := by
  simp [revIdx]
@[simp] theorem revIdx_length2 (a b : Nat) (x0 x1 : Int) : (revIdx [a,b] [x0,x1]).length = 2 := by
  simp [revIdx]

/-- `rot(rev g) = rev(rot g)` as fields (3-D): rotating the stored template = storing the rotated one -/
theorem rot_rev_comm3 {α} (R : GridRot) (a b c : Nat) (hR : GridOk3 R a b c) (g : List Int → α) :
    rotF R [a,b,c] (rev [a,b,c] g) = rev [a,b,c] (rotF R [a,b,c] g) := by
  funext x
  by_cases hx : x.length = 3
  · match x, hx with
    | [x0, x1, x2], _ =>
      simp only [rotF, rev, pull_length, revIdx_length3, List.length_cons, List.length_nil, if_true]
      rw [pull_rev_comm3 R a b c hR]
  · simp [rotF, rev, hx]

theorem rot_rev_comm2 {α} (R : GridRot) (a b : Nat) (hR : GridOk2 R a b) (g : List Int → α) :
    rotF R [a,b] (rev [a,b] g) = rev [a,b] (rotF R [a,b] g) := by
  funext x
  by_cases hx : x.length = 2
  · match x, hx with
    | [x0, x1], _ =>
      simp only [rotF, rev, pull_length, revIdx_length2, List.length_cons, List.length_nil, if_true]
      rw [pull_rev_comm2 R a b hR]
  · simp [rotF, rev, hx]

/-- **C01 with a grid rotation, 3-D.**  The code rotates the *stored* (reversed) template; because
reversal commutes with every grid rotation about the geometric centre, the reported value at `t` is the
correlation with the rotated template `g ∘ R⁻¹`, window centred as before. -/
theorem implCorr_same_rot3 {α} [CommSemiring α] (pad : Bool) (R : GridRot) (a b c : Nat) (n0 n1 n2 N0 N1 N2 : Nat)
    (t0 t1 t2 : Int) (f g : List Int → α) (hR : GridOk3 R a b c)
    (hf : Supp [n0,n1,n2] f) (hg : Supp [a,b,c] g)
    (h : SameOk pad [n0,n1,n2] [a,b,c] [N0,N1,N2] [t0,t1,t2]) :
    circ [N0,N1,N2] f (rotF R [a,b,c] (rev [a,b,c] g))
        (frameIdx [N0,N1,N2] (shiftsOf pad [a,b,c]) (sameCrops pad [n0,n1,n2] [a,b,c]) [t0,t1,t2])
      = corrSpec [a,b,c] f (rotF R [a,b,c] g) [t0,t1,t2] := by
  rw [rot_rev_comm3 R a b c hR]
  exact implCorr_same pad [n0,n1,n2] [a,b,c] [N0,N1,N2] [t0,t1,t2] f (rotF R [a,b,c] g) hf
    (supp_rot3 R a b c hR g hg) h

theorem implCorr_same_rot2 {α} [CommSemiring α] (pad : Bool) (R : GridRot) (a b : Nat) (n0 n1 N0 N1 : Nat)
    (t0 t1 : Int) (f g : List Int → α) (hR : GridOk2 R a b)
    (hf : Supp [n0,n1] f) (hg : Supp [a,b] g)
    (h : SameOk pad [n0,n1] [a,b] [N0,N1] [t0,t1]) :
    circ [N0,N1] f (rotF R [a,b] (rev [a,b] g))
        (frameIdx [N0,N1] (shiftsOf pad [a,b]) (sameCrops pad [n0,n1] [a,b]) [t0,t1])
      = corrSpec [a,b] f (rotF R [a,b] g) [t0,t1] := by
  rw [rot_rev_comm2 R a b hR]
  exact implCorr_same pad [n0,n1] [a,b] [N0,N1] [t0,t1] f (rotF R [a,b] g) hf
    (supp_rot2 R a b hR g hg) h

/-! ## The seven scores: implementation formula (stored-frame template, FFT products) = textbook formula
(natural-frame template, windowed sums).  Over any field, with uninterpreted `sqrt`, comparison and `eps`,
so the identities hold whatever the guards decide. -/

section Scores
variable {α : Type} [Field α] (sqrt : α → α) (lt : α → α → Bool) (eps : α)

/-- a rotation of template fields that commutes with reversal and preserves the box support -/
structure RotOk (ms : List Nat) (rot : (List Int → α) → (List Int → α)) : Prop where
  comm : ∀ g, rot (rev ms g) = rev ms (rot g)
  supp : ∀ g, Supp ms g → Supp ms (rot g)

theorem idRot_ok (ms : List Nat) : RotOk (α := α) ms id := ⟨fun _ => rfl, fun _ h => h⟩

theorem gridRot3_ok (R : GridRot) (a b c : Nat) (hR : GridOk3 R a b c) : RotOk (α := α) [a,b,c] (rotF R [a,b,c]) :=
  ⟨rot_rev_comm3 R a b c hR, supp_rot3 R a b c hR⟩

theorem gridRot2_ok (R : GridRot) (a b : Nat) (hR : GridOk2 R a b) : RotOk (α := α) [a,b] (rotF R [a,b]) :=
  ⟨rot_rev_comm2 R a b hR, supp_rot2 R a b hR⟩

/-- context of one reported voxel: shapes, raw position, side conditions of Theorem A -/
structure Ctx where
  ns : List Nat
  ms : List Nat
  Ns : List Nat
  t : List Int
  hax : AxesOk ns ms Ns (rawPos ms t)
  hpos : ∀ m ∈ ms, 0 < m

/-- the implementation's functional: FFT product with a *stored-frame* template field, read at the raw position -/
def Ctx.Cimpl (c : Ctx) : (List Int → α) → (List Int → α) → α := fun a s => circ c.Ns a s (rawPos c.ms c.t)
/-- the textbook functional: windowed sum with a natural-frame template field -/
def Ctx.Cspec (c : Ctx) : (List Int → α) → (List Int → α) → α := fun a b => corrSpec c.ms a b c.t

theorem Ctx.impl_rev (c : Ctx) (a b : List Int → α) (ha : Supp c.ns a) (hb : Supp c.ms b) :
    c.Cimpl a (rev c.ms b) = c.Cspec a b :=
  rawCorr_eq_corrSpec c.ns c.ms c.Ns c.t a b ha hb c.hax c.hpos

theorem supp_mul_right (ms : List Nat) (g w : List Int → α) (hw : Supp ms w) :
    Supp ms (fun x => (fieldOps sqrt lt eps).mul (g x) (w x)) := by
  intro j hj; simp [fieldOps, hw j hj]

theorem supp_sq (ms : List Nat) (g : List Int → α) (hg : Supp ms g) :
    Supp ms (fun x => (fieldOps sqrt lt eps).sq (g x)) := by
  intro j hj; simp [fieldOps, Ops.sq, hg j hj]

/-- **CC / LCC** with any admissible rotation -/
theorem cc_impl_eq_spec (c : Ctx) (rot) (hrot : RotOk (α := α) c.ms rot) (f g : List Int → α)
    (hf : Supp c.ns f) (hg : Supp c.ms g) :
    scoreCC c.Cimpl f (rot (rev c.ms g)) = scoreCC c.Cspec f (rot g) := by
  unfold scoreCC
  rw [hrot.comm]
  exact c.impl_rev f (rot g) hf (hrot.supp g hg)

/-- **FLC**: template and mask rotated together, standardised per rotation -/
theorem flc_impl_eq_spec (c : Ctx) (rot) (hrot : RotOk (α := α) c.ms rot) (f f2 g w : List Int → α)
    (hf : Supp c.ns f) (hf2 : Supp c.ns f2) (hw : Supp c.ms w) :
    scoreFLC (fieldOps sqrt lt eps) c.Cimpl c.ms f f2 (rot (rev c.ms g)) (rot (rev c.ms w))
      = scoreFLC (fieldOps sqrt lt eps) c.Cspec c.ms f f2 (rot g) (rot w) := by
  unfold scoreFLC
  have hW := hrot.supp w hw
  simp only [hrot.comm, maskSum_rev, normStats_rev, normT_rev]
  rw [c.impl_rev f (rot w) hf hW, c.impl_rev f2 (rot w) hf2 hW,
      c.impl_rev f _ hf (supp_normT sqrt lt eps _ c.ms (rot g) (rot w) hW)]

/-- **CORR / CAM** (CAM = CORR on globally standardised inputs): mask not rotated -/
theorem corr_impl_eq_spec (c : Ctx) (rot) (hrot : RotOk (α := α) c.ms rot) (f f2 g w : List Int → α)
    (hf : Supp c.ns f) (hf2 : Supp c.ns f2) (hw : Supp c.ms w) :
    scoreCORR (fieldOps sqrt lt eps) c.Cimpl c.ms rot f f2 (rev c.ms g) (rev c.ms w)
      = scoreCORR (fieldOps sqrt lt eps) c.Cspec c.ms rot f f2 g w := by
  unfold scoreCORR
  simp only [maskSum_rev, normStats_rev, normT_rev]
  -- rewrite every stored-frame integrand / field as the reversal of its natural-frame counterpart
  set n := maskSum (fieldOps sqrt lt eps) c.ms w
  set gh := normT (fieldOps sqrt lt eps) (normStats (fieldOps sqrt lt eps) c.ms g w n) g w
  have e1 : (fun k => (fieldOps sqrt lt eps).mul (rev c.ms gh (natsToInts k)) (rev c.ms w (natsToInts k)))
      = fun k => rev c.ms (fun x => (fieldOps sqrt lt eps).mul (gh x) (w x)) (natsToInts k) := by
    funext k; exact congrFun (rev_map2 c.ms _ gh w) _
  simp only [e1, boxSum_rev]
  set meanT := (fieldOps sqrt lt eps).div
    (boxSum (fieldOps sqrt lt eps) c.ms (fun k => (fieldOps sqrt lt eps).mul (gh (natsToInts k)) (w (natsToInts k)))) n
  have e2 : (fun k => (fieldOps sqrt lt eps).mul ((fieldOps sqrt lt eps).sq ((fieldOps sqrt lt eps).sub (rev c.ms gh (natsToInts k)) meanT))
        (rev c.ms w (natsToInts k)))
      = fun k => rev c.ms (fun x => (fieldOps sqrt lt eps).mul ((fieldOps sqrt lt eps).sq ((fieldOps sqrt lt eps).sub (gh x) meanT)) (w x)) (natsToInts k) := by
    funext k
    exact congrFun (rev_map2 c.ms (fun a b => (fieldOps sqrt lt eps).mul ((fieldOps sqrt lt eps).sq ((fieldOps sqrt lt eps).sub a meanT)) b) gh w) _
  simp only [e2, boxSum_rev]
  have e3 : (fun x => (fieldOps sqrt lt eps).mul (rev c.ms gh x) (rev c.ms w x))
      = rev c.ms (fun x => (fieldOps sqrt lt eps).mul (gh x) (w x)) := rev_map2 c.ms _ gh w
  simp only [e3, hrot.comm]
  rw [c.impl_rev f w hf hw, c.impl_rev f2 w hf2 hw,
      c.impl_rev f _ hf (hrot.supp _ (supp_mul_right sqrt lt eps c.ms gh w hw))]

/-- **FLCSphericalMask**: mask not rotated, template standardised at setup and again after rotation -/
theorem flcSph_impl_eq_spec (c : Ctx) (rot) (hrot : RotOk (α := α) c.ms rot) (f f2 g w : List Int → α)
    (hf : Supp c.ns f) (hf2 : Supp c.ns f2) (hw : Supp c.ms w) :
    scoreFLCSph (fieldOps sqrt lt eps) c.Cimpl c.ms rot f f2 (rev c.ms g) (rev c.ms w)
      = scoreFLCSph (fieldOps sqrt lt eps) c.Cspec c.ms rot f f2 g w := by
  unfold scoreFLCSph
  simp only [maskSum_rev, normStats_rev, normT_rev, hrot.comm]
  rw [c.impl_rev f w hf hw, c.impl_rev f2 w hf2 hw,
      c.impl_rev f _ hf (supp_normT sqrt lt eps _ c.ms _ w hw)]

/-- **MCC**, the per-voxel numerator / denominator / mask overlap (the two map-global thresholds are then
applied by the same code to both sides) -/
theorem mcc_parts_impl_eq_spec (c : Ctx) (rot) (hrot : RotOk (α := α) c.ms rot) (fm fm2 tm g w : List Int → α)
    (hf : Supp c.ns fm) (hf2 : Supp c.ns fm2) (htm : Supp c.ns tm) (hw : Supp c.ms w) :
    mccParts (fieldOps sqrt lt eps) c.Cimpl c.ms fm fm2 tm (rot (rev c.ms g)) (rot (rev c.ms w))
      = mccParts (fieldOps sqrt lt eps) c.Cspec c.ms fm fm2 tm (rot g) (rot w) := by
  unfold mccParts
  have hW := hrot.supp w hw
  simp only [hrot.comm, maskSum_rev, normStats_rev, normT_rev]
  set gh := normT (fieldOps sqrt lt eps)
    (normStats (fieldOps sqrt lt eps) c.ms (rot g) (rot w) (maskSum (fieldOps sqrt lt eps) c.ms (rot w))) (rot g) (rot w)
  have hgh : Supp c.ms gh := supp_normT sqrt lt eps _ c.ms (rot g) (rot w) hW
  have e : (fun x => (fieldOps sqrt lt eps).sq (rev c.ms gh x)) = rev c.ms (fun x => (fieldOps sqrt lt eps).sq (gh x)) :=
    rev_map1 c.ms _ gh
  simp only [e]
  rw [c.impl_rev tm gh htm hgh, c.impl_rev fm gh hf hgh, c.impl_rev tm (rot w) htm hW,
      c.impl_rev fm (rot w) hf hW, c.impl_rev fm2 (rot w) hf2 hW,
      c.impl_rev tm _ htm (supp_sq sqrt lt eps c.ms gh hgh)]

/-- every reported voxel of an unsplit search (`same` frame) provides such a context … -/
def Ctx.ofSame (pad : Bool) (ns ms Ns : List Nat) (t : List Int) (h : SameOk pad ns ms Ns t) : Ctx :=
  { ns := ns, ms := ms, Ns := Ns, t := t, hax := (frame_same pad ns ms Ns t h).2.1, hpos := (frame_same pad ns ms Ns t h).2.2 }

/-- … and the implementation's functional there is exactly "read the raw map at the frame index" -/
theorem Ctx.ofSame_Cimpl (pad : Bool) (ns ms Ns : List Nat) (t : List Int) (h : SameOk pad ns ms Ns t) :
    (Ctx.ofSame pad ns ms Ns t h).Cimpl (α := α)
      = fun a s => circ Ns a s (frameIdx Ns (shiftsOf pad ms) (sameCrops pad ns ms) t) := by
  funext a s
  simp only [Ctx.Cimpl, Ctx.ofSame]
  rw [(frame_same pad ns ms Ns t h).1]

/-- the same for every voxel of a padded tile (`valid` frame): translation `j + m/2` of the tile -/
def Ctx.ofValid (pad : Bool) (ns ms Ns : List Nat) (j : List Int) (h : ValidOk pad ns ms Ns j) : Ctx :=
  { ns := ns, ms := ms, Ns := Ns, t := validT ms j, hax := (frame_valid pad ns ms Ns j h).2.1,
    hpos := (frame_valid pad ns ms Ns j h).2.2 }

theorem Ctx.ofValid_Cimpl (pad : Bool) (ns ms Ns : List Nat) (j : List Int) (h : ValidOk pad ns ms Ns j) :
    (Ctx.ofValid pad ns ms Ns j h).Cimpl (α := α)
      = fun a s => circ Ns a s (frameIdx Ns (shiftsOf pad ms) (validCrops pad ns ms) j) := by
  funext a s
  simp only [Ctx.Cimpl, Ctx.ofValid]
  rw [(frame_valid pad ns ms Ns j h).1]

/-- **C01 headline (FLC, 3-D, grid rotation, unsplit search)**, fully instantiated: the number the FFT pipeline
reports at target voxel `t` is the textbook fast-local-correlation of the window centred (`m/2`) at `t`. -/
theorem flc_same_rot3 (pad : Bool) (R : GridRot) (a b c n0 n1 n2 N0 N1 N2 : Nat) (t0 t1 t2 : Int)
    (hR : GridOk3 R a b c) (f f2 g w : List Int → α)
    (hf : Supp [n0,n1,n2] f) (hf2 : Supp [n0,n1,n2] f2) (hw : Supp [a,b,c] w)
    (h : SameOk pad [n0,n1,n2] [a,b,c] [N0,N1,N2] [t0,t1,t2]) :
    scoreFLC (fieldOps sqrt lt eps)
        (fun x s => circ [N0,N1,N2] x s (frameIdx [N0,N1,N2] (shiftsOf pad [a,b,c]) (sameCrops pad [n0,n1,n2] [a,b,c]) [t0,t1,t2]))
        [a,b,c] f f2 (rotF R [a,b,c] (rev [a,b,c] g)) (rotF R [a,b,c] (rev [a,b,c] w))
      = scoreFLC (fieldOps sqrt lt eps) (fun x y => corrSpec [a,b,c] x y [t0,t1,t2]) [a,b,c] f f2
          (rotF R [a,b,c] g) (rotF R [a,b,c] w) := by
  have := flc_impl_eq_spec sqrt lt eps (Ctx.ofSame pad _ _ _ _ h) (rotF R [a,b,c]) (gridRot3_ok R a b c hR) f f2 g w hf hf2 hw
  rw [Ctx.ofSame_Cimpl] at this
  exact this

end Scores

/-! ## the code's double standardisation is the textbook single one for binary masks -/

section textbook
open Pm.C03
variable {α : Type} [Field α] [LinearOrder α] [IsStrictOrderedRing α]

/-- **FLC as the code evaluates it = textbook FLC, for binary masks and grid rotations.**
`flc_setup` standardises the template under the mask and `flc_scoring` standardises the rotated result again under
the rotated mask.  For a mask with values in {0,1} (`w² = w`), positive mass, a template that is not constant under
it, and any rotation that permutes the box (identity, the 4 / 24 grid rotations), the value is the one obtained by
standardising the rotated *raw* template once — the textbook fast local correlation — whatever correlation functional
`C` (FFT or windowed), target and translation. -/
theorem flc_code_eq_textbook_binary (sqrt : α → α) (hs : SqrtOk sqrt) (eps : α)
    (C : (List Int → α) → (List Int → α) → α) (ms : List Nat) (rot) (hr : RotSum (α := α) ms rot)
    (f f2 g w : List Int → α) (hbin : ∀ x, w x * w x = w x)
    (hn : 0 < sumShape ms (fun k => w (natsToInts k)))
    (hvar : 0 < (Win.mk ms (fun k => w (natsToInts k)) (fun k => g (natsToInts k)) (fun k => g (natsToInts k))).B) :
    scoreFLC (ordOps sqrt eps) C ms f f2
        (rot (normT (ordOps sqrt eps) (normStats (ordOps sqrt eps) ms g w (maskSum (ordOps sqrt eps) ms w)) g w)) (rot w)
      = scoreFLC (ordOps sqrt eps) C ms f f2 (rot g) (rot w) := by
  have hn0 : maskSum (ordOps sqrt eps) ms w = sumShape ms (fun k => w (natsToInts k)) := by
    unfold maskSum; rw [boxSum_ord]
  obtain ⟨h1, h2⟩ := normT_idempotent_binary sqrt eps hs ms g w hbin hn hvar
  unfold scoreFLC
  simp only [maskSum_rot sqrt eps ms rot hr, normStats_rot sqrt eps ms rot hr, normT_rot sqrt eps ms rot hr, hn0, h1, h2]

/-- instance for the 24 grid rotations in 3-D -/
theorem flc_code_eq_textbook_binary_rot3 (sqrt : α → α) (hs : SqrtOk sqrt) (eps : α)
    (C : (List Int → α) → (List Int → α) → α) (R : GridRot) (a b c : Nat) (hR : GridOk3 R a b c)
    (f f2 g w : List Int → α) (hbin : ∀ x, w x * w x = w x)
    (hn : 0 < sumShape [a, b, c] (fun k => w (natsToInts k)))
    (hvar : 0 < (Win.mk [a, b, c] (fun k => w (natsToInts k)) (fun k => g (natsToInts k)) (fun k => g (natsToInts k))).B) :
    scoreFLC (ordOps sqrt eps) C [a, b, c] f f2
        (rotF R [a, b, c] (normT (ordOps sqrt eps) (normStats (ordOps sqrt eps) [a, b, c] g w (maskSum (ordOps sqrt eps) [a, b, c] w)) g w))
        (rotF R [a, b, c] w)
      = scoreFLC (ordOps sqrt eps) C [a, b, c] f f2 (rotF R [a, b, c] g) (rotF R [a, b, c] w) :=
  flc_code_eq_textbook_binary sqrt hs eps C [a, b, c] _ (rotSum_grid3 R a b c hR) f f2 g w hbin hn hvar

end textbook

/-! ## why a product of transforms is `circ`: the convolution theorem (1-D, any commutative ring) -/

/-- **Convolution theorem.**  For any commutative ring and any `ω` with `ω^N = 1` (for ℂ: `ω = exp(-2πi/N)`), the
length-`N` discrete Fourier transform of the model's circular convolution `circ` is the product of the transforms of
its operands — the fact behind reading `irfftn(rfftn(a)·rfftn(b))` as `circ` (n-D transforms are separable products
of 1-D ones).  What stays trusted is that pyFFTW computes this transform and its inverse. -/
theorem circ_dft_is_product_1d {R : Type} [CommRing R] (N : Nat) (ω : R) (hω : ω ^ N = 1) (a b : List Int → R) (k : Nat) :
    dftN N ω (fun u => circ [N] a b [(u : Int)]) k
      = dftN N ω (fun j => a [(j : Int)]) k * dftN N ω (fun r => b [(r : Int)]) k :=
  dft_circ1 N ω hω a b k

/-- **Convolution theorem, n-D.**  On every box, for every choice of per-axis roots of unity (over any commutative
ring), the separable DFT of the model's circular convolution `circ` is the pointwise product of the transforms. -/
theorem circ_dft_is_product_nd {R : Type} [CommRing R] (Ns : List Nat) (ωs : List R) (hω : RootsOk Ns ωs)
    (a b : List Int → R) (ks : List Nat) :
    dftS Ns ωs (fun u => circ Ns a b u) ks = dftS Ns ωs a ks * dftS Ns ωs b ks :=
  dftS_circ Ns ωs hω a b ks

/-- **… and `circ` is the only such array.**  Over a field with a primitive root of unity for every axis length and
invertible axis lengths (ℂ), an array on the box whose DFT is `â·b̂` at every frequency — the array an exact inverse
FFT of the product returns — equals `circ a b` at every voxel.  Together with `circ_reindex_nd` this derives the
windowed-sum reading of `irfftn(rfftn(f)·rfftn(g))` from the definition of the DFT alone; what stays trusted is that
pyFFTW computes the DFT and its inverse (and rounding). -/
theorem circ_unique_from_dft {K : Type} [Field K] (Ns : List Nat) (ωs : List K) (hp : RootsPrim Ns ωs)
    (a b X : List Int → K)
    (hX : ∀ ks, inShape Ns ks = true → dftS Ns ωs X ks = dftS Ns ωs a ks * dftS Ns ωs b ks)
    (u : List Nat) (hu : inShape Ns u = true) : X (natsToInts u) = circ Ns a b (natsToInts u) :=
  circ_unique_nd Ns ωs hp a b X hX u hu

/-- non-vacuity: `-1` is a primitive square root of unity in ℚ, so the hypotheses hold on the 2×2 torus -/
example : RootsPrim (K := ℚ) [2, 2] [-1, -1] := by
  have h : PrimRoot (K := ℚ) 2 (-1) := ⟨by norm_num, fun l h0 h2 => by
    have : l = 1 := by omega
    subst this; norm_num⟩
  exact ⟨h, by norm_num, h, by norm_num, trivial⟩

/-! ## zero extension of arrays has box support; non-vacuity -/

theorem getI_out {α} [Zero α] (a : Arr α) (j : List Int) (h : OutOfBox a.shape j) : ext a j = 0 := by
  unfold ext Arr.getI
  split
  · rename_i hall
    unfold Arr.getD
    split
    · rename_i hin
      exfalso
      -- in-shape and non-negative contradicts OutOfBox
      revert h hall hin
      generalize a.shape = sh
      induction sh generalizing j with
      | nil => cases j <;> simp [OutOfBox]
      | cons n ns ih =>
        cases j with
        | nil => simp [OutOfBox]
        | cons j0 js =>
          intro h hall hin
          simp only [List.all_cons, Bool.and_eq_true, decide_eq_true_eq] at hall
          simp only [List.map_cons, inShape, Bool.and_eq_true, decide_eq_true_eq] at hin
          rcases h with (h | h) | h
          · omega
          · omega
          · exact ih js h hall.2 hin.2
    · rfl
  · rfl

/-- the zero extension of any array is supported in its shape box -/
theorem supp_ext {α} [Zero α] (a : Arr α) : Supp a.shape (ext a) := fun j h => getI_out a j h


/-! ## Deepening: linearity of the correlation functionals, CORR numerator identity, centre-voxel and
valid-window index arithmetic -/

section Linearity
open Pm.C03
variable {α : Type} [CommRing α]

/-- the windowed (textbook) correlation is additive in the template — what lets every score split its template-side
field into summands (`(g-μ)·w = g·w - μ·w`) before transforming -/
theorem corrSpec_add_template (ms : List Nat) (f g₁ g₂ : List Int → α) (t : List Int) :
    corrSpec ms f (fun x => g₁ x + g₂ x) t = corrSpec ms f g₁ t + corrSpec ms f g₂ t := by
  unfold corrSpec
  rw [← sumShape_add]
  apply sumShape_congr; intro k _; ring

/-- the windowed correlation is additive in the target -/
theorem corrSpec_add_target (ms : List Nat) (f₁ f₂ g : List Int → α) (t : List Int) :
    corrSpec ms (fun x => f₁ x + f₂ x) g t = corrSpec ms f₁ g t + corrSpec ms f₂ g t := by
  unfold corrSpec
  rw [← sumShape_add]
  apply sumShape_congr; intro k _; ring

/-- the windowed correlation is homogeneous in the template: scaling the template scales the CC / LCC value -/
theorem corrSpec_smul_template (ms : List Nat) (c : α) (f g : List Int → α) (t : List Int) :
    corrSpec ms f (fun x => c * g x) t = c * corrSpec ms f g t := by
  unfold corrSpec
  rw [← sumShape_mul_left]
  apply sumShape_congr; intro k _; ring

/-- the windowed correlation is homogeneous in the target: scaling the target scales the CC / LCC value -/
theorem corrSpec_smul_target (ms : List Nat) (c : α) (f g : List Int → α) (t : List Int) :
    corrSpec ms (fun x => c * f x) g t = c * corrSpec ms f g t := by
  unfold corrSpec
  rw [← sumShape_mul_left]
  apply sumShape_congr; intro k _; ring

/-- **CORR / CAM numerator identity** at the level of correlation maps: correlating with the mean-subtracted masked
template `(g - μ)·w` is `corr(f, g·w) - μ · corr(f, w)` — the `C f (rot g2) - ws * meanT` of `corr_scoring` -/
theorem corrSpec_centered_template (ms : List Nat) (μ : α) (f g w : List Int → α) (t : List Int) :
    corrSpec ms f (fun x => (g x - μ) * w x) t
      = corrSpec ms f (fun x => g x * w x) t - μ * corrSpec ms f w t := by
  unfold corrSpec
  rw [← sumShape_mul_left, ← sumShape_sub]
  apply sumShape_congr; intro k _; ring

/-- a constant offset `a` of the target adds `a · Σ_k g[k]` to the windowed correlation (so it drops out of every score
whose template-side field sums to zero) -/
theorem corrSpec_target_offset (ms : List Nat) (a : α) (f g : List Int → α) (t : List Int) :
    corrSpec ms (fun x => f x + a) g t = corrSpec ms f g t + a * sumShape ms (fun k => g (natsToInts k)) := by
  unfold corrSpec
  rw [← sumShape_mul_left, ← sumShape_add]
  apply sumShape_congr; intro k _; ring

/-- the FFT product (circular convolution) is additive in its template-side operand -/
theorem circ_add_right (Ns : List Nat) (a b₁ b₂ : List Int → α) (u : List Int) :
    circ Ns a (fun x => b₁ x + b₂ x) u = circ Ns a b₁ u + circ Ns a b₂ u := by
  unfold circ
  rw [← sumShape_add]
  apply sumShape_congr; intro k _; ring

/-- the FFT product is additive in its target-side operand -/
theorem circ_add_left (Ns : List Nat) (a₁ a₂ b : List Int → α) (u : List Int) :
    circ Ns (fun x => a₁ x + a₂ x) b u = circ Ns a₁ b u + circ Ns a₂ b u := by
  unfold circ
  rw [← sumShape_add]
  apply sumShape_congr; intro k _; ring

/-- the FFT product is homogeneous in the template-side operand -/
theorem circ_smul_right (Ns : List Nat) (c : α) (a b : List Int → α) (u : List Int) :
    circ Ns a (fun x => c * b x) u = c * circ Ns a b u := by
  unfold circ
  rw [← sumShape_mul_left]
  apply sumShape_congr; intro k _; ring

/-- the FFT product is homogeneous in the target-side operand -/
theorem circ_smul_left (Ns : List Nat) (c : α) (a b : List Int → α) (u : List Int) :
    circ Ns (fun x => c * a x) b u = c * circ Ns a b u := by
  unfold circ
  rw [← sumShape_mul_left]
  apply sumShape_congr; intro k _; ring

/-- the whole implementation map (reverse, FFT product, roll, crop) is additive in the natural-frame template, in every
frame and at every output position — no side condition -/
theorem implCorr_add_template (Ns ms : List Nat) (shifts css : List Int) (f g₁ g₂ : List Int → α) (t : List Int) :
    implCorr Ns ms shifts css f (fun x => g₁ x + g₂ x) t
      = implCorr Ns ms shifts css f g₁ t + implCorr Ns ms shifts css f g₂ t := by
  unfold implCorr
  rw [← rev_map2 ms (fun a b => a + b) g₁ g₂]
  exact circ_add_right Ns f _ _ _

/-- … and homogeneous in it -/
theorem implCorr_smul_template (Ns ms : List Nat) (shifts css : List Int) (c : α) (f g : List Int → α) (t : List Int) :
    implCorr Ns ms shifts css f (fun x => c * g x) t = c * implCorr Ns ms shifts css f g t := by
  unfold implCorr
  rw [← rev_map1 ms (fun a => c * a) g]
  exact circ_smul_right Ns c f _ _

/-- the CORR / CAM numerator identity on the implementation side: the FFT map of the mean-subtracted masked template is
the FFT map of `g·w` minus `μ` times the FFT map of the mask -/
theorem implCorr_centered_template (Ns ms : List Nat) (shifts css : List Int) (μ : α) (f g w : List Int → α)
    (t : List Int) :
    implCorr Ns ms shifts css f (fun x => (g x - μ) * w x) t
      = implCorr Ns ms shifts css f (fun x => g x * w x) t - μ * implCorr Ns ms shifts css f w t := by
  have e : (fun x => (g x - μ) * w x) = fun x => g x * w x + (-μ) * w x := by funext x; ring
  rw [e, implCorr_add_template, implCorr_smul_template]; ring

end Linearity

/-! ### centre-voxel convention `shape // 2` and the valid-window range -/

/-- per axis, the centre voxel `m/2` splits the template into `m/2` voxels before and `(m-1)/2` after it (odd: equal
halves; even: one more before) -/
theorem centre_split (m : Nat) (hm : 0 < m) : m / 2 + (m - 1) / 2 = m - 1 := by omega

/-- odd extents: the centre voxel is the exact middle `(m-1)/2` -/
theorem centre_odd (m : Nat) (h : m % 2 = 1) : m / 2 = (m - 1) / 2 := by omega

/-- even extents: the centre voxel is the upper of the two middle voxels -/
theorem centre_even (m : Nat) (hm : 0 < m) (h : m % 2 = 0) : m / 2 = (m - 1) / 2 + 1 := by omega

/-- **centre-voxel convention.**  The window position of template voxel `shape // 2` is the translation `t` itself -/
theorem specIdx_centre : ∀ (ms : List Nat) (t : List Int), t.length = ms.length →
    specIdx ms t (ms.map (· / 2)) = t
  | [], [], _ => rfl
  | m :: ms, t :: ts, h => by
    simp only [List.map_cons, specIdx]
    rw [specIdx_centre ms ts (by simpa using h)]
    congr 1; omega
  | [], _ :: _, h => by simp at h
  | _ :: _, [], h => by simp at h

/-- the centre voxel `shape // 2` is a voxel of the template whenever all extents are positive -/
theorem centre_inShape : ∀ (ms : List Nat), (∀ m ∈ ms, 0 < m) → inShape ms (ms.map (· / 2)) = true
  | [], _ => rfl
  | m :: ms, h => by
    simp only [List.map_cons, inShape, Bool.and_eq_true, decide_eq_true_eq]
    refine ⟨?_, centre_inShape ms (fun x hx => h x (List.mem_cons_of_mem _ hx))⟩
    have := h m List.mem_cons_self
    omega

/-- **valid-window range without padding, per axis**: all `m` voxels of the window centred (`m/2`) at `t` lie inside a
target of extent `n` exactly when `m/2 ≤ t ≤ n - 1 - (m-1)/2` — the side condition of `SameOk false` is sharp -/
theorem window_inside_iff (n m : Nat) (t : Int) (hm : 0 < m) :
    (∀ k : Nat, k < m → 0 ≤ t + (k : Int) - ((m / 2 : Nat) : Int) ∧ t + (k : Int) - ((m / 2 : Nat) : Int) < n) ↔
    (((m / 2 : Nat) : Int) ≤ t ∧ t ≤ (n : Int) - 1 - (((m - 1) / 2 : Nat) : Int)) := by
  constructor
  · intro h
    have h0 := h 0 hm
    have h1 := h (m - 1) (by omega)
    omega
  · intro h k hk; omega

/-- there are exactly `n - m + 1` such translations per axis -/
theorem valid_range_count (n m : Nat) (hm : 0 < m) (hmn : m ≤ n) :
    ((n : Int) - 1 - (((m - 1) / 2 : Nat) : Int)) - ((m / 2 : Nat) : Int) + 1 = ((n - m + 1 : Nat) : Int) := by omega

/-- the `valid` crop keeps all of them for odd template extents and all but the last for even ones -/
theorem validExt_parity (n m : Nat) :
    (m % 2 = 1 → validExt n m = n - m + 1) ∧ (m % 2 = 0 → validExt n m = n - m) := by
  unfold validExt; omega

/-- every position of the `valid` crop stands for a translation inside the valid-window range of its axis -/
theorem validT_axis_inside (n m : Nat) (j : Int) (hm : 0 < m) (hmn : m ≤ n) (hj0 : 0 ≤ j) (hj1 : j < validExt n m) :
    ((m / 2 : Nat) : Int) ≤ j + ((m / 2 : Nat) : Int) ∧
      j + ((m / 2 : Nat) : Int) ≤ (n : Int) - 1 - (((m - 1) / 2 : Nat) : Int) := by
  unfold validExt at hj1; omega

/-- **without Fourier padding, in any dimension**: at every translation admitted by `SameOk false` the whole template
window lies inside the target box, so no zero-extended or wrapped voxel enters the score -/
theorem window_inside_nopad : ∀ (ns ms Ns : List Nat) (t : List Int) (k : List Nat),
    SameOk false ns ms Ns t → inShape ms k = true → ¬ OutOfBox ns (specIdx ms t k)
  | [], [], [], [], [], _, _ => by simp [OutOfBox]
  | [], [], [], [], _ :: _, _, hk => by simp [inShape] at hk
  | n :: ns, m :: ms, N :: Ns, t :: ts, [], _, hk => by simp [inShape] at hk
  | n :: ns, m :: ms, N :: Ns, t :: ts, k :: ks, h, hk => by
    obtain ⟨⟨hm, hmn, hN, ht0, ht1, hwin⟩, hrest⟩ := h
    obtain ⟨hw0, hw1⟩ := hwin rfl
    have hk' := inShape_cons.mp hk
    have ih := window_inside_nopad ns ms Ns ts ks hrest hk'.2
    have hk0 : k < m := hk'.1
    simp only [specIdx, OutOfBox]
    rintro ((h | h) | h)
    · omega
    · omega
    · exact ih h
  | [], _ :: _, _, _, _, h, _ => by cases h
  | [], [], _ :: _, _, _, h, _ => by cases h
  | [], [], [], _ :: _, _, h, _ => by cases h
  | _ :: _, [], _, _, _, h, _ => by cases h
  | _ :: _, _ :: _, [], _, _, h, _ => by cases h
  | _ :: _, _ :: _, _ :: _, [], _, h, _ => by cases h


/-! ### variance identity of FLC, offset invariances, translation covariance -/

section Variance
open Pm.C03

/-- **FLC variance term is non-negative before the clamp**: for a non-negative mask, `(Σ w)·corr(f², w) − corr(f, w)² ≥ 0`
at every translation (Cauchy–Schwarz), so `max0` in `flc_scoring` only ever absorbs rounding -/
theorem flc_variance_nonneg {α : Type} [CommRing α] [LinearOrder α] [IsStrictOrderedRing α] (ms : List Nat)
    (f w : List Int → α) (t : List Int) (hw : ∀ x, 0 ≤ w x) :
    (corrSpec ms f w t) ^ 2
      ≤ sumShape ms (fun k => w (natsToInts k)) * corrSpec ms (fun x => f x * f x) w t := by
  have h := box_cauchy_schwarz ms (fun k => w (natsToInts k)) (fun _ => 1) (fun k => f (specIdx ms t k))
    (fun k _ => hw _)
  have e1 : sumShape ms (fun k => w (natsToInts k) * ((1 : α) * f (specIdx ms t k))) = corrSpec ms f w t :=
    sumShape_congr _ _ _ (fun k _ => by ring)
  have e2 : sumShape ms (fun k => w (natsToInts k) * ((1 : α) * 1)) = sumShape ms (fun k => w (natsToInts k)) :=
    sumShape_congr _ _ _ (fun k _ => by ring)
  have e3 : sumShape ms (fun k => w (natsToInts k) * (f (specIdx ms t k) * f (specIdx ms t k)))
      = corrSpec ms (fun x => f x * f x) w t := sumShape_congr _ _ _ (fun k _ => by ring)
  rw [e1, e2, e3] at h
  exact h

/-- **equality case**: on a target that is constant the variance term vanishes identically (any mask, any ring) — the
windows the `sd < eps` guard of `flc_scoring` is there for -/
theorem flc_variance_const {α : Type} [CommRing α] (ms : List Nat) (c : α) (w : List Int → α) (t : List Int) :
    sumShape ms (fun k => w (natsToInts k)) * corrSpec ms (fun _ => c * c) w t
      - (corrSpec ms (fun _ => c) w t) ^ 2 = 0 := by
  unfold corrSpec
  rw [sumShape_mul_left, sumShape_mul_left]; ring

/-- a target offset drops out of the windowed correlation with any template-side field that sums to zero over the box
(the mean-subtracted masked templates of CORR / CAM / FLC / MCC) -/
theorem corrSpec_target_offset_invariant {α : Type} [CommRing α] (ms : List Nat) (a : α) (f g : List Int → α)
    (t : List Int) (h0 : sumShape ms (fun k => g (natsToInts k)) = 0) :
    corrSpec ms (fun x => f x + a) g t = corrSpec ms f g t := by
  rw [corrSpec_target_offset, h0]; ring

/-- mean of the template under the mask, `Σ g·w / Σ w` -/
def maskedMean {α : Type} [Field α] (ms : List Nat) (g w : List Int → α) : α :=
  sumShape ms (fun k => g (natsToInts k) * w (natsToInts k)) / sumShape ms (fun k => w (natsToInts k))

/-- the masked mean follows a constant offset of the template -/
theorem maskedMean_offset {α : Type} [Field α] (ms : List Nat) (a : α) (g w : List Int → α)
    (hn : sumShape ms (fun k => w (natsToInts k)) ≠ 0) :
    maskedMean ms (fun x => g x + a) w = maskedMean ms g w + a := by
  unfold maskedMean
  have e : (fun k => (g (natsToInts k) + a) * w (natsToInts k))
      = fun k => g (natsToInts k) * w (natsToInts k) + a * w (natsToInts k) := by funext k; ring
  rw [e, sumShape_add, sumShape_mul_left]
  field_simp

/-- **template offset invariance of the mean-subtracted scores**: the mean-subtracted masked template, hence its
correlation with any target at any translation, does not change when a constant is added to the template -/
theorem corrSpec_template_offset_invariant {α : Type} [Field α] (ms : List Nat) (a : α) (f g w : List Int → α)
    (t : List Int) (hn : sumShape ms (fun k => w (natsToInts k)) ≠ 0) :
    corrSpec ms f (fun x => ((g x + a) - maskedMean ms (fun y => g y + a) w) * w x) t
      = corrSpec ms f (fun x => (g x - maskedMean ms g w) * w x) t := by
  rw [maskedMean_offset ms a g w hn]
  congr 1; funext x; ring

/-- the mean-subtracted masked template sums to zero over the box (so target offsets drop out, previous theorem but one) -/
theorem centered_template_sum_zero {α : Type} [Field α] (ms : List Nat) (g w : List Int → α)
    (hn : sumShape ms (fun k => w (natsToInts k)) ≠ 0) :
    sumShape ms (fun k => (g (natsToInts k) - maskedMean ms g w) * w (natsToInts k)) = 0 := by
  have e : (fun k => (g (natsToInts k) - maskedMean ms g w) * w (natsToInts k))
      = fun k => g (natsToInts k) * w (natsToInts k) - maskedMean ms g w * w (natsToInts k) := by funext k; ring
  rw [e, sumShape_sub, sumShape_mul_left]
  unfold maskedMean
  field_simp
  ring

example : sumShape [2] (fun k => (fun _ : List Int => (1 : ℚ)) (natsToInts k)) ≠ 0 := by
  simp only [sumShape, sumRange]; norm_num

end Variance

/-- window positions follow the translation: moving `t` by `s` moves every window voxel by `s` -/
theorem specIdx_shift : ∀ (ms : List Nat) (t s : List Int) (k : List Nat),
    specIdx ms (List.zipWith (· + ·) t s) k = List.zipWith (· + ·) (specIdx ms t k) s
  | [], _, _, _ => by simp [specIdx]
  | _ :: _, [], _, _ => by simp [specIdx]
  | _ :: _, _ :: _, [], _ => by simp [specIdx]
  | _ :: _, _ :: _, _ :: _, [] => by simp [specIdx]
  | m :: ms, t :: ts, s :: ss, k :: ks => by
    simp only [List.zipWith_cons_cons, specIdx]
    rw [specIdx_shift ms ts ss ks]
    congr 1; omega

/-- **translation covariance of the score map**: translating the target by `s` translates the windowed correlation by
`s` — the map reports, at `t`, the score of the window that sits at `t` -/
theorem corrSpec_translate {α : Type} [Add α] [Mul α] [Zero α] (ms : List Nat) (f g : List Int → α) (t s : List Int) :
    corrSpec ms (fun x => f (List.zipWith (· + ·) x s)) g t = corrSpec ms f g (List.zipWith (· + ·) t s) := by
  unfold corrSpec
  apply sumShape_congr
  intro k _
  rw [specIdx_shift]


/-! ### target-side linearity of the implementation map, pointwise invariances of the standardisation, MCC numerator -/

section More
open Pm.C03

/-- the implementation map is additive in the target -/
theorem implCorr_add_target {α : Type} [CommRing α] (Ns ms : List Nat) (shifts css : List Int)
    (f₁ f₂ g : List Int → α) (t : List Int) :
    implCorr Ns ms shifts css (fun x => f₁ x + f₂ x) g t
      = implCorr Ns ms shifts css f₁ g t + implCorr Ns ms shifts css f₂ g t := by
  unfold implCorr
  exact circ_add_left Ns f₁ f₂ _ _

/-- the implementation map is homogeneous in the target (CC / LCC scale with the target's intensity) -/
theorem implCorr_smul_target {α : Type} [CommRing α] (Ns ms : List Nat) (shifts css : List Int) (c : α)
    (f g : List Int → α) (t : List Int) :
    implCorr Ns ms shifts css (fun x => c * f x) g t = c * implCorr Ns ms shifts css f g t := by
  unfold implCorr
  exact circ_smul_left Ns c f _ _

/-- one voxel of `normalize_template` is unchanged when template value, mean and standard deviation are scaled by the
same non-zero factor — the pointwise reason the normalised scores ignore the template's intensity scale -/
theorem normApply_scale {α : Type} [Field α] (sqrt : α → α) (lt : α → α → Bool) (eps c mu sd gx wx : α) (hc : c ≠ 0) :
    normApply (fieldOps sqrt lt eps) (c * mu, c * sd) (c * gx) wx
      = normApply (fieldOps sqrt lt eps) (mu, sd) gx wx := by
  simp only [normApply, fieldOps]
  rw [← mul_sub, mul_div_mul_left _ _ hc]

/-- … and when template value and mean are offset by the same constant -/
theorem normApply_offset {α : Type} [Field α] (sqrt : α → α) (lt : α → α → Bool) (eps a mu sd gx wx : α) :
    normApply (fieldOps sqrt lt eps) (mu + a, sd) (gx + a) wx
      = normApply (fieldOps sqrt lt eps) (mu, sd) gx wx := by
  simp only [normApply, fieldOps]
  rw [add_sub_add_right_eq_sub]

/-- **MCC numerator with two masks**: with target mask `tm`, template mask `W`, overlap `ov = corr(tm, W) ≠ 0`, the
code's `corr(f·tm, h·W) − corr(f·tm, W)·corr(tm, h·W)/ov` is the covariance of target and template over the overlap of
the two masks, each centred by its own mean over that overlap -/
theorem mcc_numerator_identity {α : Type} [Field α] (ms : List Nat) (f tm h W : List Int → α) (t : List Int)
    (hov : corrSpec ms tm W t ≠ 0) :
    corrSpec ms (fun x => f x * tm x) (fun x => h x * W x) t
        - corrSpec ms (fun x => f x * tm x) W t * corrSpec ms tm (fun x => h x * W x) t / corrSpec ms tm W t
      = sumShape ms (fun k => tm (specIdx ms t k) * W (natsToInts k) *
          ((f (specIdx ms t k) - corrSpec ms (fun x => f x * tm x) W t / corrSpec ms tm W t) *
           (h (natsToInts k) - corrSpec ms tm (fun x => h x * W x) t / corrSpec ms tm W t))) := by
  have e : ∀ fb hb : α,
      (fun k => tm (specIdx ms t k) * W (natsToInts k) * ((f (specIdx ms t k) - fb) * (h (natsToInts k) - hb)))
      = fun k => f (specIdx ms t k) * tm (specIdx ms t k) * (h (natsToInts k) * W (natsToInts k))
          + ((-hb) * (f (specIdx ms t k) * tm (specIdx ms t k) * W (natsToInts k))
          + ((-fb) * (tm (specIdx ms t k) * (h (natsToInts k) * W (natsToInts k)))
          + (fb * hb) * (tm (specIdx ms t k) * W (natsToInts k)))) := by
    intro fb hb; funext k; ring
  rw [e, sumShape_add, sumShape_add, sumShape_add, sumShape_mul_left, sumShape_mul_left, sumShape_mul_left]
  simp only [corrSpec] at hov ⊢
  field_simp
  ring

/-- **MCC target-side denominator with two masks**: `corr(f²·tm, W) − corr(f·tm, W)²/ov` is the sum of squared
deviations of the target from its mean over the overlap of the two masks -/
theorem mcc_denominator_identity {α : Type} [Field α] (ms : List Nat) (f tm W : List Int → α) (t : List Int)
    (hov : corrSpec ms tm W t ≠ 0) :
    corrSpec ms (fun x => f x * f x * tm x) W t - (corrSpec ms (fun x => f x * tm x) W t) ^ 2 / corrSpec ms tm W t
      = sumShape ms (fun k => tm (specIdx ms t k) * W (natsToInts k) *
          ((f (specIdx ms t k) - corrSpec ms (fun x => f x * tm x) W t / corrSpec ms tm W t) *
           (f (specIdx ms t k) - corrSpec ms (fun x => f x * tm x) W t / corrSpec ms tm W t))) := by
  have e : ∀ fb : α,
      (fun k => tm (specIdx ms t k) * W (natsToInts k) * ((f (specIdx ms t k) - fb) * (f (specIdx ms t k) - fb)))
      = fun k => f (specIdx ms t k) * f (specIdx ms t k) * tm (specIdx ms t k) * W (natsToInts k)
          + ((-(2 * fb)) * (f (specIdx ms t k) * tm (specIdx ms t k) * W (natsToInts k))
          + (fb * fb) * (tm (specIdx ms t k) * W (natsToInts k))) := by
    intro fb; funext k; ring
  rw [e, sumShape_add, sumShape_add, sumShape_mul_left, sumShape_mul_left]
  simp only [corrSpec] at hov ⊢
  field_simp
  ring

example : corrSpec [2] (fun _ : List Int => (1 : ℚ)) (fun _ => 1) [0] ≠ 0 := by
  simp only [corrSpec, sumShape, sumRange]; norm_num

end More


/-- raw position `j + (m - 1)` per axis: first position of the full convolution at which the template overlaps the
scored array completely, advanced by `j` -/
def fullOverlapPos : List Nat → List Int → List Int
  | m :: ms, j :: js => (j + ((m - 1 : Nat) : Int)) :: fullOverlapPos ms js
  | _, _ => []

/-- position `j` of the `valid` crop reads the raw FFT product at `j + (m - 1)` on every axis, for odd and even extents -/
theorem rawPos_validT : ∀ (ms : List Nat) (j : List Int), (∀ m ∈ ms, 0 < m) →
    rawPos ms (validT ms j) = fullOverlapPos ms j
  | [], _, _ => by simp [rawPos, validT, fullOverlapPos]
  | _ :: _, [], _ => by simp [rawPos, validT, fullOverlapPos]
  | m :: ms, j :: js, h => by
    simp only [validT, rawPos, fullOverlapPos]
    rw [rawPos_validT ms js (fun x hx => h x (List.mem_cons_of_mem _ hx))]
    congr 1
    have := h m List.mem_cons_self
    omega

/-- the identity is one of the grid rotations (3-D) and leaves every template field unchanged -/
theorem rotF_id3 {α : Type} (a b c : Nat) (g : List Int → α) :
    GridOk3 ⟨[0,1,2], [false,false,false]⟩ a b c ∧ rotF ⟨[0,1,2], [false,false,false]⟩ [a,b,c] g = g := by
  refine ⟨⟨⟨_, _, _, rfl⟩, Or.inl rfl⟩, ?_⟩
  funext x
  by_cases hx : x.length = 3
  · match x, hx with
    | [x0, x1, x2], _ => simp [rotF, GridRot.pull, List.range, List.range.loop]
  · simp [rotF, hx]

/-- the identity is one of the grid rotations (2-D) and leaves every template field unchanged -/
theorem rotF_id2 {α : Type} (a b : Nat) (g : List Int → α) :
    GridOk2 ⟨[0,1], [false,false]⟩ a b ∧ rotF ⟨[0,1], [false,false]⟩ [a,b] g = g := by
  refine ⟨⟨⟨_, _, rfl⟩, Or.inl rfl⟩, ?_⟩
  funext x
  by_cases hx : x.length = 2
  · match x, hx with
    | [x0, x1], _ => simp [rotF, GridRot.pull, List.range, List.range.loop]
  · simp [rotF, hx]

example : SameOk true [5,4] [3,2] [7,5] [0,3] := by simp [SameOk, convLen]
example : SameOk false [5,4] [3,2] [5,4] [1,1] := by simp [SameOk, convLen]
example : ValidOk true [7,6] [3,2] [9,7] [4,3] := by simp [ValidOk, convLen, validExt]
example : GridOk3 ⟨[1,0,2],[true,false,false]⟩ 3 3 4 := ⟨⟨_, _, _, rfl⟩, Or.inr (Or.inr (Or.inl ⟨rfl, rfl⟩))⟩
example : corrSpec [2] (ext (⟨[4], #[1,2,3,4]⟩ : Arr Int)) (ext (⟨[2], #[10,1]⟩ : Arr Int)) [0] = 1 ∧
          implCorr [5] [2] (shiftsOf true [2]) (sameCrops true [4] [2])
            (ext (⟨[4], #[1,2,3,4]⟩ : Arr Int)) (ext (⟨[2], #[10,1]⟩ : Arr Int)) [0] = 1 := by decide

end Pm.C01
