import PytmeModel.Model.C16
import PytmeModel.Proofs.C16

/-! # C16 — a failing worker fails the whole search; no shared memory is left behind

All statements are for every configuration (`Cfg`: tiles, rotations, job schedule, analyzer, segment
counts), every fault plan (any number of positions, single or repeated), every schedule (`Sched`:
completion orders of both pools and the progress of tasks in flight) and every initial world.
`amb` is the exception the caller is handling on entry (`sys.exc_info()`); the property quantifies
over `amb = none`, the other case is exposed by `ambient_reraised`.
-/
namespace Pm.C16

/-! ## tiles and the whole search: when do they return -/

open Classical in
/-- `scan_subsets` returns normally exactly when `n_jobs ≠ 0`, every tile is fine and the final merge is -/
theorem scanSubsets_returns_iff (cfg : Cfg) (plan : Plan) (amb : Option Exc) (pol : Policy) (sch : Sched)
    (w : World) :
    (scanSubsets cfg plan amb pol sch w).1 = none ↔
      cfg.outer ≠ 0 ∧ (∀ t < cfg.ntiles, TileOK cfg plan amb t) ∧ StepsOK plan (outerPost cfg) := by
  unfold scanSubsets
  by_cases ho : cfg.outer = 0
  · simp [ho]
  · simp only [ho, if_false, ne_eq, not_false_eq_true, true_and]
    have hpool := runPool_fst_none (tileFull cfg plan amb sch) (tilePart cfg plan amb pol sch) cfg.outer
      (fun t => decide (¬ TileOK cfg plan amb t))
      (tileFull_fst_none' cfg plan amb sch _ (fun t => by simp))
      (poolOrder cfg.outer sch.outerPicks (List.range cfg.ntiles)) w
    rcases hr : runPool (tileFull cfg plan amb sch) (tilePart cfg plan amb pol sch) cfg.outer
        (poolOrder cfg.outer sch.outerPicks (List.range cfg.ntiles)) w with ⟨_ | e, w1⟩
    · rw [hr] at hpool; simp only at hpool ⊢
      have ht := hpool.mp trivial
      rw [execSteps_fst_none]
      constructor
      · intro hpost
        refine ⟨fun t htl => ?_, hpost⟩
        have := ht t ((poolOrder_mem _ _ _ _).mpr (List.mem_range.mpr htl))
        simpa using this
      · exact fun h => h.2
    · rw [hr] at hpool; simp only at hpool ⊢
      constructor
      · intro h; exact absurd h (by simp)
      · rintro ⟨htl, _⟩
        exfalso
        have : ∀ t ∈ poolOrder cfg.outer sch.outerPicks (List.range cfg.ntiles),
            decide (¬ TileOK cfg plan amb t) = false := by
          intro t ht
          have := htl t (List.mem_range.mp ((poolOrder_mem _ _ _ _).mp ht))
          simpa using this
        simpa using hpool.mpr this

/-! ## clause 1: any fault ⇒ the search raises, whatever the schedule -/

/-- **fault_raises.**  If the plan holds a position that the search has (any phase: `subset_by_slice`,
entry of `scan`, setup before/after, analyzer construction, entry of a scoring job, any rotation, any
analyzer call, `_postprocess`, either merge; any tile, job, rotation), `scan_subsets` raises — for
every other content of the plan (repeated faults), every job schedule, every completion order and
either pool policy.  It never returns a partial result. -/
theorem fault_raises (cfg : Cfg) (plan : Plan) (amb : Option Exc) (pol : Policy) (sch : Sched) (w : World)
    (p : Pos) (hp : p ∈ plan) (hlive : p ∈ allPoints cfg) :
    ∃ e, (scanSubsets cfg plan amb pol sch w).1 = some e := by
  rcases hr : (scanSubsets cfg plan amb pol sch w).1 with _ | e
  · exfalso
    obtain ⟨_, htiles, hpost⟩ := (scanSubsets_returns_iff cfg plan amb pol sch w).mp hr
    rcases (mem_allPoints cfg p).mp hlive with ⟨t, ht, hpt⟩ | hpt
    · obtain ⟨hsub, hbody, _⟩ := htiles t ht
      rcases hpt with rfl | hpt
      · exact hsub hp
      · obtain ⟨s, hs, hb⟩ := bad_of_pt plan _ p hpt hp
        have := ((bodyOK_iff cfg plan t).mp hbody).2 s hs
        rw [this] at hb; cases hb
    · obtain ⟨s, hs, hb⟩ := bad_of_pt plan _ p hpt hp
      have := hpost s hs
      rw [this] at hb; cases hb
  · exact ⟨e, rfl⟩

/-- every `to_sharedarr` of the setup function and the one of the template filter are program points of the
search (so `fault_raises` / `scan_ledger_empty_after` speak about a segment that cannot be created), and so are
the user's filters when `matching_data` carries them -/
theorem setup_alloc_is_point (cfg : Cfg) (t k : Nat) (ht : t < cfg.ntiles) (hk : k < cfg.setupSegs + 1) :
    (⟨.alloc, t, k⟩ : Pos) ∈ allPoints cfg := by
  refine (mem_allPoints cfg _).mpr (Or.inl ⟨t, ht, Or.inr ?_⟩)
  rw [flatSteps_eq]
  simp only [ptsOf, List.flatMap_append, List.mem_append]
  refine Or.inl (Or.inl ?_)
  unfold preSteps
  simp only [List.flatMap_append, List.mem_append, List.flatMap_cons]
  refine Or.inl (Or.inr ?_)
  by_cases h : k < cfg.setupSegs
  · refine Or.inl (Or.inr ?_)
    unfold allocSteps
    simp only [List.mem_flatMap, List.mem_range]
    exact ⟨_, ⟨k, h, List.mem_cons_self⟩, by simp [Step.pts]⟩
  · refine Or.inr (Or.inr ?_)
    have hk' : k = cfg.setupSegs := by omega
    subst hk'
    unfold allocSteps
    simp only [List.mem_flatMap, List.mem_range]
    exact ⟨_, ⟨0, by omega, List.mem_cons_self⟩, by simp [Step.pts]⟩

theorem filter_is_point (cfg : Cfg) (t : Nat) (ht : t < cfg.ntiles) :
    (cfg.tfilter = true → (⟨.filter, t, 0⟩ : Pos) ∈ allPoints cfg) ∧
    (cfg.gfilter = true → (⟨.filter, t, 1⟩ : Pos) ∈ allPoints cfg) := by
  constructor <;> intro h <;>
  · refine (mem_allPoints cfg _).mpr (Or.inl ⟨t, ht, Or.inr ?_⟩)
    rw [flatSteps_eq]
    simp only [ptsOf, List.flatMap_append, List.mem_append]
    refine Or.inl (Or.inl ?_)
    unfold preSteps filterSteps
    simp [h, Step.pts]

/-- the same for `scan` called directly -/
theorem scan_fault_raises (cfg : Cfg) (plan : Plan) (amb : Option Exc) (ts : TileSched) (w : World)
    (p : Pos) (hp : p ∈ plan) (hlive : p ∈ scanPoints cfg) :
    ∃ e, (scanDirect cfg plan amb ts w).1 = some e := by
  rcases hr : (scanDirect cfg plan amb ts w).1 with _ | e
  · exfalso
    unfold scanDirect at hr
    rw [handler_fst_none, scanBody_fst_none] at hr
    obtain ⟨s, hs, hb⟩ := bad_of_pt plan _ p hlive hp
    have := ((bodyOK_iff cfg plan 0).mp hr.1).2 s hs
    rw [this] at hb; cases hb
  · exact ⟨e, rfl⟩

/-- what `scan` lets out is wrapped exactly once by `_handle_traceback` and is a fault of the plan at a point
of this scan (or the `n_jobs = 0` error, or the caller's ambient exception): nothing is invented, nothing
is swallowed into a different outcome -/
theorem scan_raised_origin (cfg : Cfg) (plan : Plan) (amb : Option Exc) (ts : TileSched) (w : World) (e : Exc)
    (h : (scanDirect cfg plan amb ts w).1 = some e) :
    ∃ e0, e = .wrapped e0 ∧ ((∃ p ∈ plan, p ∈ scanPoints cfg ∧ e0 = .fault p) ∨ e0 = .badArg ∨ amb = some e0) := by
  unfold scanDirect at h
  rcases handler_some _ _ _ _ _ h with ⟨e0, hb, rfl⟩ | ⟨_, a, ha, rfl⟩
  · refine ⟨e0, rfl, ?_⟩
    rcases scanBody_some cfg plan ts 0 w e0 hb with ⟨p, hpl, hpt, rfl⟩ | rfl
    · exact Or.inl ⟨p, hpl, hpt, rfl⟩
    · exact Or.inr (Or.inl rfl)
  · exact ⟨a, rfl, Or.inr (Or.inr ha)⟩

/-- **raised_origin.**  Whatever `scan_subsets` raises is: a fault of the plan at a point the search has —
bare when it fired in the parent (`subset_by_slice`, final merge), wrapped exactly once by `_handle_traceback`
when it fired inside a tile's `scan`, for every pool schedule —, or the `n_jobs = 0` error, or the caller's
ambient exception.  Failures are neither invented nor turned into something else. -/
theorem raised_origin (cfg : Cfg) (plan : Plan) (amb : Option Exc) (pol : Policy) (sch : Sched) (w : World) (e : Exc)
    (h : (scanSubsets cfg plan amb pol sch w).1 = some e) :
    (∃ p ∈ plan, p ∈ allPoints cfg ∧ (e = .fault p ∨ e = .wrapped (.fault p))) ∨
      e = .badArg ∨ e = .wrapped .badArg ∨ (∃ a, amb = some a ∧ e = .wrapped a) := by
  unfold scanSubsets at h
  by_cases ho : cfg.outer = 0
  · simp only [ho, if_true, Option.some.injEq] at h; exact Or.inr (Or.inl h.symm)
  · simp only [ho, if_false] at h
    rcases hr : runPool (tileFull cfg plan amb sch) (tilePart cfg plan amb pol sch) cfg.outer
        (poolOrder cfg.outer sch.outerPicks (List.range cfg.ntiles)) w with ⟨_ | e1, w1⟩
    · rw [hr] at h; simp only at h
      rcases execSteps_some _ _ _ _ _ h with ⟨p, hps, hpl, rfl⟩ | hf
      · refine Or.inl ⟨p, hpl, (mem_allPoints cfg p).mpr (Or.inr ?_), Or.inl rfl⟩
        exact List.mem_flatMap.mpr ⟨_, hps, by simp [Step.pts]⟩
      · exfalso
        unfold outerPost at hf
        split at hf <;> simp at hf
    · rw [hr] at h; simp only [Option.some.injEq] at h
      subst h
      have hr' : (runPool (tileFull cfg plan amb sch) (tilePart cfg plan amb pol sch) cfg.outer
        (poolOrder cfg.outer sch.outerPicks (List.range cfg.ntiles)) w).1 = some e1 := by rw [hr]
      obtain ⟨t, ht, w0, ht0⟩ := runPool_some _ _ _ _ _ _ hr'
      have htl : t < cfg.ntiles := List.mem_range.mp ((poolOrder_mem _ _ _ _).mp ht)
      unfold tileFull at ht0
      rcases hs : execSteps plan none [.point ⟨.subset, t, 0⟩] w0 with ⟨_ | e2, w2⟩
      · rw [hs] at ht0; simp only at ht0
        rcases handler_some _ _ _ _ _ ht0 with ⟨e0, hb, rfl⟩ | ⟨_, a, ha, rfl⟩
        · rcases scanBody_some cfg plan _ t w2 e0 hb with ⟨p, hpl, hpt, rfl⟩ | rfl
          · exact Or.inl ⟨p, hpl, (mem_allPoints cfg p).mpr (Or.inl ⟨t, htl, Or.inr hpt⟩), Or.inr rfl⟩
          · exact Or.inr (Or.inr (Or.inl rfl))
        · refine Or.inr (Or.inr (Or.inr ⟨a, ?_, rfl⟩))
          unfold ambientFor at ha
          split at ha
          · exact ha
          · cases ha
      · rw [hs] at ht0; simp only [Option.some.injEq] at ht0
        subst ht0
        have hs' : (execSteps plan none [.point ⟨.subset, t, 0⟩] w0).1 = some e2 := by rw [hs]
        rcases execSteps_some _ _ _ _ _ hs' with ⟨p, hps, hpl, rfl⟩ | hf
        · simp only [List.mem_cons, List.not_mem_nil, or_false, Step.point.injEq] at hps
          subst hps
          exact Or.inl ⟨_, hpl, (mem_allPoints cfg _).mpr (Or.inl ⟨t, htl, Or.inl rfl⟩), Or.inl rfl⟩
        · simp at hf

/-! ## clause 1': no fault ⇒ the search returns, and a returned search is complete -/

/-- **no_fault_returns.**  With no planned position among the search's program points (in particular
the empty plan), a non-degenerate job schedule and no ambient exception the search returns. -/
theorem no_fault_returns (cfg : Cfg) (plan : Plan) (pol : Policy) (sch : Sched) (w : World)
    (hplan : ∀ p ∈ plan, p ∉ allPoints cfg) (ho : 1 ≤ cfg.outer) (hi : 1 ≤ cfg.inner) :
    (scanSubsets cfg plan none pol sch w).1 = none := by
  rw [scanSubsets_returns_iff]
  refine ⟨by omega, ?_, ?_⟩
  · intro t ht
    refine ⟨?_, ?_, ?_⟩
    · intro hmem
      exact hplan _ hmem ((mem_allPoints cfg _).mpr (Or.inl ⟨t, ht, Or.inl rfl⟩))
    · rw [bodyOK_iff]
      refine ⟨by omega, stepsOK_of_no_planned_point plan _ (flatSteps_nofail cfg t) ?_⟩
      intro p hp hmem
      exact hplan p hp ((mem_allPoints cfg p).mpr (Or.inl ⟨t, ht, Or.inr hmem⟩))
    · unfold ambientFor; split <;> rfl
  · refine stepsOK_of_no_planned_point plan _ ?_ ?_
    · intro s hs e he
      unfold outerPost at hs
      split at hs
      · simp only [List.mem_cons, List.not_mem_nil, or_false] at hs; rw [hs] at he; cases he
      · simp at hs
    · intro p hp hmem
      exact hplan p hp ((mem_allPoints cfg p).mpr (Or.inr hmem))

/-- **returned_complete.**  Whatever the plan and the schedule: if `scan_subsets` returns, then every
program point of every tile was reached — every tile was set up, every rotation of every job was scored
and handed to the analyzer, every analyzer was post-processed and merged.  A returned result is never a
partial one. -/
theorem returned_complete (cfg : Cfg) (plan : Plan) (amb : Option Exc) (pol : Policy) (sch : Sched) (w : World)
    (h : (scanSubsets cfg plan amb pol sch w).1 = none) :
    ∀ p ∈ allPoints cfg, p ∈ (scanSubsets cfg plan amb pol sch w).2.trace := by
  unfold scanSubsets at h ⊢
  by_cases ho : cfg.outer = 0
  · simp [ho] at h
  · simp only [ho, if_false] at h ⊢
    have hpool := runPool_trace_of_none (tileFull cfg plan amb sch) (tilePart cfg plan amb pol sch) cfg.outer
      (fun t => (⟨.subset, t, 0⟩ : Pos) :: ptsOf (flatSteps cfg t)) (tileFull_trace cfg plan amb sch)
      (poolOrder cfg.outer sch.outerPicks (List.range cfg.ntiles)) w
    rcases hr : runPool (tileFull cfg plan amb sch) (tilePart cfg plan amb pol sch) cfg.outer
        (poolOrder cfg.outer sch.outerPicks (List.range cfg.ntiles)) w with ⟨_ | e, w1⟩
    · rw [hr] at hpool h; simp only at hpool h ⊢
      obtain ⟨_, htiles⟩ := hpool trivial
      have hpost := execSteps_trace_of_none plan none (outerPost cfg) w1 h
      have hsub := execSteps_traceSub plan none (outerPost cfg) w1
      intro p hp
      rcases (mem_allPoints cfg p).mp hp with ⟨t, ht, hpt⟩ | hpt
      · apply hsub
        refine htiles t ((poolOrder_mem _ _ _ _).mpr (List.mem_range.mpr ht)) p ?_
        rcases hpt with rfl | hpt
        · exact List.mem_cons_self
        · exact List.mem_cons_of_mem _ hpt
      · rw [hpost]; exact List.mem_append_right _ hpt
    · rw [hr] at h; simp at h

/-- rotations are partitioned over the jobs (`_split_rotations_on_jobs`): each one is in exactly one chunk -/
theorem rotations_partitioned (R n g : Nat) (hn : 1 ≤ n) (hg : g < R) :
    ∃ j < n, g ∈ chunk R n j ∧ ∀ i < n, g ∈ chunk R n i → i = j := by
  obtain ⟨j, hj, hm⟩ := chunk_cover R n g hn hg
  exact ⟨j, hj, hm, fun i hi him => chunk_disjoint R n i j g hi hj him hm⟩

/-- in particular: a returned search has scored every rotation on every tile and passed it to the analyzer -/
theorem returned_scored_every_rotation (cfg : Cfg) (plan : Plan) (amb : Option Exc) (pol : Policy) (sch : Sched)
    (w : World) (h : (scanSubsets cfg plan amb pol sch w).1 = none) (t g : Nat) (ht : t < cfg.ntiles)
    (hg : g < cfg.nrot) :
    (⟨.rotate, t, g⟩ : Pos) ∈ (scanSubsets cfg plan amb pol sch w).2.trace ∧
      (cfg.hasCb = true → (⟨.callback, t, g⟩ : Pos) ∈ (scanSubsets cfg plan amb pol sch w).2.trace) := by
  have hall := returned_complete cfg plan amb pol sch w h
  obtain ⟨_, htiles, _⟩ := (scanSubsets_returns_iff cfg plan amb pol sch w).mp h
  have hin : 1 ≤ cfg.inner := by
    have := (htiles t ht).2.1.2.1; omega
  obtain ⟨j, hj, hm⟩ := chunk_cover cfg.nrot cfg.inner g hin hg
  have hsteps : ∀ s ∈ rotSteps cfg t g, s ∈ flatSteps cfg t := by
    intro s hs
    rw [flatSteps_eq]
    refine List.mem_append_left _ (List.mem_append_right _ ?_)
    refine List.mem_flatten.mpr ⟨jobSteps cfg t j, List.mem_map.mpr ⟨j, List.mem_range.mpr hj, rfl⟩, ?_⟩
    unfold jobSteps
    exact List.mem_cons_of_mem _ (List.mem_flatMap.mpr ⟨g, hm, hs⟩)
  have hpts : ∀ q, Step.point q ∈ rotSteps cfg t g → q ∈ allPoints cfg := by
    intro q hq
    refine (mem_allPoints cfg q).mpr (Or.inl ⟨t, ht, Or.inr ?_⟩)
    exact List.mem_flatMap.mpr ⟨_, hsteps _ hq, by simp [Step.pts]⟩
  refine ⟨hall _ (hpts _ (by simp [rotSteps])), fun hcb => hall _ (hpts _ (by simp [rotSteps, hcb]))⟩

/-! ## clause 2: the ledger of shared-memory segments -/

/-- **ledger_empty_after (successful run).**  Whatever the schedule and policy: when the search returns,
every segment it created has been released (the ledger is what it was before the call). -/
theorem ledger_empty_after_return (cfg : Cfg) (plan : Plan) (amb : Option Exc) (pol : Policy) (sch : Sched)
    (w : World) (hw : ∀ s ∈ w.live, s.mgr = none) (h : (scanSubsets cfg plan amb pol sch w).1 = none) :
    (scanSubsets cfg plan amb pol sch w).2.live = w.live := by
  unfold scanSubsets at h ⊢
  by_cases ho : cfg.outer = 0
  · simp [ho]
  · simp only [ho, if_false] at h ⊢
    rcases hr : runPool (tileFull cfg plan amb sch) (tilePart cfg plan amb pol sch) cfg.outer
        (poolOrder cfg.outer sch.outerPicks (List.range cfg.ntiles)) w with ⟨_ | e, w1⟩
    · have hpool := runPool_inv_of_none (tileFull cfg plan amb sch) (tilePart cfg plan amb pol sch) cfg.outer
        (fun w' => w'.live = w.live)
        (fun t w' hw' => by rw [tileFull_live cfg plan amb sch t w' (by rw [hw']; exact hw), hw'])
        (poolOrder cfg.outer sch.outerPicks (List.range cfg.ntiles)) w rfl (by rw [hr])
      rw [hr] at hpool; simp only at hpool ⊢
      rw [outerPost_live, hpool]
    · rw [hr] at h; simp at h

/-- **ledger_empty_after_partial (today's code).**  Full clause: `∀ cfg plan amb sch w, (scanSubsets cfg plan amb
.kill sch w).2.live = w.live` — false for today's outer pool, see `ledger_leak_current_defect`.  Proved part: with
`job_schedule[0] ≤ 1` (tiles one after the other) the ledger is empty after the call whether it returns or
raises, for every fault plan and every inner schedule: each failing `scan` leaves its
`with SharedMemoryManager()` block first.  Missing: `job_schedule[0] > 1` with a sibling tile in flight
(covered for the corrected pool by `ledger_empty_after`, and for returning runs by `ledger_empty_after_return`). -/
theorem ledger_empty_after_partial (cfg : Cfg) (plan : Plan) (amb : Option Exc) (pol : Policy) (sch : Sched)
    (w : World) (hw : ∀ s ∈ w.live, s.mgr = none) (ho : cfg.outer ≤ 1) :
    (scanSubsets cfg plan amb pol sch w).2.live = w.live := by
  unfold scanSubsets
  by_cases h0 : cfg.outer = 0
  · simp [h0]
  · simp only [h0, if_false]
    have hpool := runPool_inv (tileFull cfg plan amb sch) (tilePart cfg plan amb pol sch) cfg.outer
      (fun w' => w'.live = w.live)
      (fun t w' hw' => by rw [tileFull_live cfg plan amb sch t w' (by rw [hw']; exact hw), hw'])
      (Or.inl (by unfold inFlight; simp [ho]))
      (poolOrder cfg.outer sch.outerPicks (List.range cfg.ntiles)) w rfl
    rcases hr : runPool (tileFull cfg plan amb sch) (tilePart cfg plan amb pol sch) cfg.outer
        (poolOrder cfg.outer sch.outerPicks (List.range cfg.ntiles)) w with ⟨_ | e, w1⟩
    · rw [hr] at hpool; simp only at hpool ⊢
      rw [outerPost_live, hpool]
    · rw [hr] at hpool; exact hpool

/-- **ledger_empty_after (any schedule, corrected pool).**  If tiles in flight are allowed to finish when a
sibling fails (`Policy.drain`) the ledger is empty after the call for every job schedule, completion order
and fault plan, returned or raised. -/
theorem ledger_empty_after (cfg : Cfg) (plan : Plan) (amb : Option Exc) (sch : Sched) (w : World)
    (hw : ∀ s ∈ w.live, s.mgr = none) : (scanSubsets cfg plan amb .drain sch w).2.live = w.live := by
  unfold scanSubsets
  by_cases h0 : cfg.outer = 0
  · simp [h0]
  · simp only [h0, if_false]
    have hpool := runPool_inv (tileFull cfg plan amb sch) (tilePart cfg plan amb .drain sch) cfg.outer
      (fun w' => w'.live = w.live)
      (fun t w' hw' => by rw [tileFull_live cfg plan amb sch t w' (by rw [hw']; exact hw), hw'])
      (Or.inr (fun t w' hw' => by
        show (tileFull cfg plan amb sch t w').2.live = w.live
        rw [tileFull_live cfg plan amb sch t w' (by rw [hw']; exact hw), hw']))
      (poolOrder cfg.outer sch.outerPicks (List.range cfg.ntiles)) w rfl
    rcases hr : runPool (tileFull cfg plan amb sch) (tilePart cfg plan amb .drain sch) cfg.outer
        (poolOrder cfg.outer sch.outerPicks (List.range cfg.ntiles)) w with ⟨_ | e, w1⟩
    · rw [hr] at hpool; simp only at hpool ⊢
      rw [outerPost_live, hpool]
    · rw [hr] at hpool; exact hpool

/-- the full clause for today's pool (`Policy.kill`, loky tears the pool down with `kill_workers=True`) is
FALSE: two tiles on two workers, tile 0 fails in its first analyzer call while tile 1 has allocated its
setup segments — they stay behind (their manager process is killed with the worker).
Full statement that does not hold: `∀ cfg plan sch, (scanSubsets cfg plan none .kill sch w).2.live = w.live`. -/
theorem ledger_leak_current_defect :
    ∃ (cfg : Cfg) (plan : Plan) (sch : Sched),
      (scanSubsets cfg plan none .kill sch {}).1 ≠ none ∧ (scanSubsets cfg plan none .kill sch {}).2.live ≠ [] :=
  ⟨{ ntiles := 2, nrot := 1, outer := 2, inner := 1, hasCb := true, shared := true, jpc := 8,
     setupSegs := 4, cbSegs := 2, postSegs := 2, copies := true },
   [⟨.callback, 0, 0⟩], { outerPicks := [], tiles := [], progress := [{}, { steps := 5, exited := false }] },
   by decide⟩

/-- `scan` called directly: the ledger is empty after the call, returned or raised, every inner schedule -/
theorem scan_ledger_empty_after (cfg : Cfg) (plan : Plan) (amb : Option Exc) (ts : TileSched) (w : World)
    (hw : ∀ s ∈ w.live, s.mgr ≠ some 0) : (scanDirect cfg plan amb ts w).2.live = w.live := by
  unfold scanDirect
  exact handler_live _ _ _ _ (scanBody_liveExt cfg plan ts 0 w) hw

/-- every segment a `scan` allocates goes through its manager (`to_sharedarr` is given the handler) -/
theorem scan_allocates_through_manager (cfg : Cfg) (plan : Plan) (ts : TileSched) (t : Nat) (w : World) :
    ∃ l, (scanBody cfg plan ts t w).2.live = w.live ++ l ∧ ∀ s ∈ l, s.mgr = some t :=
  scanBody_liveExt cfg plan ts t w

/-! ## clause 3: the caller's arrays -/

/-- **inputs_untouched.**  Because conversion to the backend copies (`MatchingData.to_backend`:
`attr_value.copy()`), no step of the search writes into the caller's arrays — for every plan, schedule
and policy, returned or raised. -/
theorem inputs_untouched (cfg : Cfg) (plan : Plan) (amb : Option Exc) (pol : Policy) (sch : Sched) (w : World)
    (hc : cfg.copies = true) : (scanSubsets cfg plan amb pol sch w).2.inputs = w.inputs := by
  unfold scanSubsets
  by_cases h0 : cfg.outer = 0
  · simp [h0]
  · simp only [h0, if_false]
    have hpool := runPool_inv (tileFull cfg plan amb sch) (tilePart cfg plan amb pol sch) cfg.outer
      (fun w' => w'.inputs = w.inputs)
      (fun t w' hw' => by rw [tileFull_inputs cfg plan amb sch t w' hc, hw'])
      (Or.inr (fun t w' hw' => by rw [tilePart_inputs cfg plan amb pol sch t w' hc, hw']))
      (poolOrder cfg.outer sch.outerPicks (List.range cfg.ntiles)) w rfl
    rcases hr : runPool (tileFull cfg plan amb sch) (tilePart cfg plan amb pol sch) cfg.outer
        (poolOrder cfg.outer sch.outerPicks (List.range cfg.ntiles)) w with ⟨_ | e, w1⟩
    · rw [hr] at hpool; simp only at hpool ⊢
      rw [execSteps_inputs plan none (outerPost cfg) w1, hpool]
      intro s hs
      unfold outerPost at hs
      split at hs
      · simp only [List.mem_cons, List.not_mem_nil, or_false] at hs; rw [hs]; rfl
      · simp at hs
    · rw [hr] at hpool; exact hpool

theorem scan_inputs_untouched (cfg : Cfg) (plan : Plan) (amb : Option Exc) (ts : TileSched) (w : World)
    (hc : cfg.copies = true) : (scanDirect cfg plan amb ts w).2.inputs = w.inputs := by
  unfold scanDirect
  rw [handler_inputs, scanBody_inputs cfg plan ts 0 w hc]

/-! ## the ambient exception (observation kept in the model) -/

/-- the decorator reads `sys.exc_info()` on entry: a `scan` issued while the caller handles another
exception re-raises *that* exception (wrapped) even though the search itself succeeded -/
theorem ambient_reraised (cfg : Cfg) (plan : Plan) (a : Exc) (ts : TileSched) (w : World)
    (hbody : (scanBody cfg plan ts 0 w).1 = none) :
    (scanDirect cfg plan (some a) ts w).1 = some (.wrapped a) := by
  unfold scanDirect
  rw [handler_fst, hbody]; rfl

/-! ## non-vacuity -/

def exCfg : Cfg := { ntiles := 2, nrot := 3, outer := 2, inner := 2, hasCb := true, shared := true, jpc := 8,
                     setupSegs := 4, cbSegs := 2, postSegs := 2, copies := true }

-- fault_raises: a live position (second tile, analyzer call of the last rotation), repeated fault, parallel schedule
example : (⟨.callback, 1, 2⟩ : Pos) ∈ allPoints exCfg := by decide
example : (scanSubsets exCfg [⟨.callback, 1, 2⟩, ⟨.merge, 0, 0⟩] none .kill { outerPicks := [1] } {}).1
    = some (.wrapped (.fault ⟨.callback, 1, 2⟩)) := by decide
-- a segment that cannot be created (second tile, the analyzer's second array; last allocation of post-processing)
-- and a failing user filter fail the search; nothing is left
example : (⟨.alloc, 1, 6⟩ : Pos) ∈ allPoints exCfg ∧ (⟨.alloc, 0, 12⟩ : Pos) ∈ allPoints exCfg ∧
    (⟨.alloc, 0, 13⟩ : Pos) ∉ allPoints exCfg := by decide
example : (scanSubsets exCfg [⟨.alloc, 1, 6⟩] none .kill {} {}).1 = some (.wrapped (.fault ⟨.alloc, 1, 6⟩)) ∧
    (scanSubsets exCfg [⟨.alloc, 1, 6⟩] none .kill {} {}).2.live = [] ∧
    (scanSubsets exCfg [⟨.alloc, 1, 6⟩] none .kill {} {}).2.nalloc = 13 + 6 := by decide
-- results that cannot be collected (`__iter__` of the second job's analyzer raises): the search fails, nothing is left
example : (scanSubsets exCfg [⟨.collect, 1, 1⟩] none .kill {} {}).1 = some (.wrapped (.fault ⟨.collect, 1, 1⟩)) ∧
    (scanSubsets exCfg [⟨.collect, 1, 1⟩] none .kill {} {}).2.live = [] := by decide
example : (scanSubsets { exCfg with gfilter := true } [⟨.filter, 0, 1⟩] none .kill {} {}).1
    = some (.wrapped (.fault ⟨.filter, 0, 1⟩)) ∧
    (scanSubsets { exCfg with gfilter := true } [⟨.filter, 0, 0⟩] none .kill {} {}).1 = none := by decide
-- raised_origin: a parent-side fault is not wrapped; n_jobs = 0
example : (scanSubsets exCfg [⟨.subset, 1, 0⟩] none .kill {} {}).1 = some (.fault ⟨.subset, 1, 0⟩) := by decide
example : (scanSubsets { exCfg with outer := 0 } [] none .kill {} {}).1 = some .badArg ∧
    (scanSubsets { exCfg with outer := 1, inner := 0 } [] none .kill {} {}).1 = some (.wrapped .badArg) := by decide
-- no_fault_returns / returned_complete: a plan with a dead position only
example : (scanSubsets exCfg [⟨.rotate, 5, 0⟩] none .kill {} {}).1 = none := by decide
example : (allPoints exCfg).length = 65 := by decide
example : (scanSubsets exCfg [] none .kill {} {}).2.trace.length = 65 ∧
    (scanSubsets exCfg [] none .kill {} {}).2.nalloc = 26 ∧ (scanSubsets exCfg [] none .kill {} {}).2.live = [] := by decide
-- ledger hypotheses are satisfiable with a non-empty initial ledger; segments really are allocated
example : (scanSubsets exCfg [⟨.postprocess, 1, 1⟩] none .drain {} { live := [⟨none, 7⟩] }).2.live = [⟨none, 7⟩] := by decide
example : (scanBody exCfg [] {} 1 {}).2.live.length = 13 := by decide
-- inputs: the copy matters
example : (scanDirect { exCfg with copies := false } [] none {} {}).2.inputs = 1 := by decide
example : (scanDirect exCfg [] none {} {}).2.inputs = 0 := by decide
-- ambient
example : (scanDirect exCfg [] (some .ambient) {} {}).1 = some (.wrapped .ambient) := by decide
example : chunk 7 3 0 = [0, 1] ∧ chunk 7 3 1 = [2, 3] ∧ chunk 7 3 2 = [4, 5, 6] ∧ chunk 2 4 3 = [0, 1] := by decide

/-! ## deepening: schedule independence, monotonicity in the fault plan, per-tile decomposition -/

/-- a step that survives a larger fault plan survives every smaller one -/
theorem bad_mono (plan plan' : Plan) (h : ∀ p ∈ plan, p ∈ plan') (s : Step) (hb : s.bad plan' = false) :
    s.bad plan = false := by
  cases s with
  | point p =>
    simp [Step.bad] at hb ⊢
    exact fun hm => hb (h _ hm)
  | alloc n => rfl
  | write c => rfl
  | fail e => simp [Step.bad] at hb

/-- straight-line code that survives a larger fault plan survives every smaller one -/
theorem stepsOK_mono (plan plan' : Plan) (h : ∀ p ∈ plan, p ∈ plan') (ss : List Step)
    (hs : StepsOK plan' ss) : StepsOK plan ss :=
  fun s m => bad_mono plan plan' h s (hs s m)

/-- a tile (`subset_by_slice` + decorated `scan`) that survives a larger fault plan survives every smaller one -/
theorem tileOK_mono (cfg : Cfg) (plan plan' : Plan) (amb : Option Exc) (t : Nat) (h : ∀ p ∈ plan, p ∈ plan')
    (ht : TileOK cfg plan' amb t) : TileOK cfg plan amb t :=
  ⟨fun hm => ht.1 (h _ hm),
   ⟨stepsOK_mono plan plan' h _ ht.2.1.1, ht.2.1.2.1,
    fun j hj => stepsOK_mono plan plan' h _ (ht.2.1.2.2.1 j hj), stepsOK_mono plan plan' h _ ht.2.1.2.2.2⟩,
   ht.2.2⟩

/-- **outcome_schedule_independent.**  Whether `scan_subsets` raises or returns does not depend on the completion
order of either pool, on the progress of tasks in flight, on the pool policy, nor on the initial ledger / trace:
any two schedules give the same raise / return decision. -/
theorem outcome_schedule_independent (cfg : Cfg) (plan : Plan) (amb : Option Exc) (pol pol' : Policy)
    (sch sch' : Sched) (w w' : World) :
    (scanSubsets cfg plan amb pol sch w).1 = none ↔ (scanSubsets cfg plan amb pol' sch' w').1 = none := by
  rw [scanSubsets_returns_iff, scanSubsets_returns_iff]

/-- the same for a direct `scan`: the raise / return decision is the same for every completion order of the
scoring jobs and every progress of the jobs in flight -/
theorem scan_outcome_schedule_independent (cfg : Cfg) (plan : Plan) (amb : Option Exc) (ts ts' : TileSched)
    (w w' : World) :
    (scanDirect cfg plan amb ts w).1 = none ↔ (scanDirect cfg plan amb ts' w').1 = none := by
  unfold scanDirect
  rw [handler_fst_none, handler_fst_none, scanBody_fst_none, scanBody_fst_none]

/-- **add_fault_monotone.**  Adding faults to the plan never turns a raise into a return: a search that returns under
a plan returns under every sub-plan (schedules may differ). -/
theorem add_fault_monotone (cfg : Cfg) (plan plan' : Plan) (amb : Option Exc) (pol pol' : Policy)
    (sch sch' : Sched) (w w' : World) (h : ∀ p ∈ plan, p ∈ plan')
    (hret : (scanSubsets cfg plan' amb pol' sch' w').1 = none) :
    (scanSubsets cfg plan amb pol sch w).1 = none := by
  rw [scanSubsets_returns_iff] at hret ⊢
  exact ⟨hret.1, fun t ht => tileOK_mono cfg plan plan' amb t h (hret.2.1 t ht),
    stepsOK_mono plan plan' h _ hret.2.2⟩

/-- the contrapositive: a search that raises still raises after any number of further faults are added -/
theorem raise_persists_under_more_faults (cfg : Cfg) (plan plan' : Plan) (amb : Option Exc) (pol pol' : Policy)
    (sch sch' : Sched) (w w' : World) (h : ∀ p ∈ plan, p ∈ plan')
    (hr : (scanSubsets cfg plan amb pol sch w).1 ≠ none) :
    (scanSubsets cfg plan' amb pol' sch' w').1 ≠ none :=
  fun hret => hr (add_fault_monotone cfg plan plan' amb pol pol' sch sch' w w' h hret)

/-- monotonicity for a direct `scan` -/
theorem scan_add_fault_monotone (cfg : Cfg) (plan plan' : Plan) (amb : Option Exc) (ts ts' : TileSched)
    (w w' : World) (h : ∀ p ∈ plan, p ∈ plan') (hret : (scanDirect cfg plan' amb ts' w').1 = none) :
    (scanDirect cfg plan amb ts w).1 = none := by
  unfold scanDirect at hret ⊢
  rw [handler_fst_none, scanBody_fst_none] at hret ⊢
  exact ⟨⟨stepsOK_mono plan plan' h _ hret.1.1, hret.1.2.1,
    fun j hj => stepsOK_mono plan plan' h _ (hret.1.2.2.1 j hj), stepsOK_mono plan plan' h _ hret.1.2.2.2⟩, hret.2⟩

/-- the raise / return decision depends on the *set* of planned faults only: order and repetition of the faults in
the plan are irrelevant -/
theorem outcome_depends_on_fault_set (cfg : Cfg) (plan plan' : Plan) (amb : Option Exc) (pol pol' : Policy)
    (sch sch' : Sched) (w w' : World) (h : ∀ p, p ∈ plan ↔ p ∈ plan') :
    (scanSubsets cfg plan amb pol sch w).1 = none ↔ (scanSubsets cfg plan' amb pol' sch' w').1 = none :=
  ⟨add_fault_monotone cfg plan' plan amb pol' pol sch' sch w' w (fun p hp => (h p).mpr hp),
   add_fault_monotone cfg plan plan' amb pol pol' sch sch' w w' (fun p hp => (h p).mp hp)⟩

/-- **returns_iff_no_live_fault.**  With a non-degenerate job schedule and no ambient exception the search returns
exactly when no planned fault sits on one of its program points (success iff the effective fault list is empty) -/
theorem returns_iff_no_live_fault (cfg : Cfg) (plan : Plan) (pol : Policy) (sch : Sched) (w : World)
    (ho : 1 ≤ cfg.outer) (hi : 1 ≤ cfg.inner) :
    (scanSubsets cfg plan none pol sch w).1 = none ↔ ∀ p ∈ plan, p ∉ allPoints cfg := by
  constructor
  · intro hret p hp hlive
    obtain ⟨e, he⟩ := fault_raises cfg plan none pol sch w p hp hlive
    rw [hret] at he; cases he
  · intro h
    exact no_fault_returns cfg plan pol sch w h ho hi

/-- **tile_failure_blocks_result.**  If the `scan` of one tile raises (under some inner schedule, from some world),
the whole search raises for every schedule — whatever the other tiles do -/
theorem tile_failure_blocks_result (cfg : Cfg) (plan : Plan) (amb : Option Exc) (pol : Policy) (sch : Sched)
    (w : World) (t : Nat) (ht : t < cfg.ntiles) (ts : TileSched) (w0 : World)
    (hfail : (scanBody cfg plan ts t w0).1 ≠ none) :
    (scanSubsets cfg plan amb pol sch w).1 ≠ none := by
  intro hret
  obtain ⟨_, htiles, _⟩ := (scanSubsets_returns_iff cfg plan amb pol sch w).mp hret
  exact hfail ((scanBody_fst_none cfg plan ts t w0).mpr (htiles t ht).2.1)

/-- **returns_iff_every_tile_returns.**  The search returns exactly when `n_jobs ≠ 0`, every tile run on its own
(from any world, under any schedule) returns, and the final merge does: no tile's failure can be masked by the
others, and nothing but a tile / merge failure makes the search raise -/
theorem returns_iff_every_tile_returns (cfg : Cfg) (plan : Plan) (amb : Option Exc) (pol : Policy)
    (sch sch' : Sched) (w w1 w2 : World) :
    (scanSubsets cfg plan amb pol sch w).1 = none ↔
      cfg.outer ≠ 0 ∧ (∀ t < cfg.ntiles, (tileFull cfg plan amb sch' t w1).1 = none) ∧
        (execSteps plan none (outerPost cfg) w2).1 = none := by
  rw [scanSubsets_returns_iff, execSteps_fst_none]
  constructor
  · rintro ⟨h0, ht, hp⟩
    exact ⟨h0, fun t htl => (tileFull_fst_none cfg plan amb sch' t w1).mpr (ht t htl), hp⟩
  · rintro ⟨h0, ht, hp⟩
    exact ⟨h0, fun t htl => (tileFull_fst_none cfg plan amb sch' t w1).mp (ht t htl), hp⟩

/-- the original cause (below the `Exception(...)` wrappers) of whatever the search raises is a planned fault at one
of its program points, the `n_jobs = 0` error, or the cause of the caller's ambient exception -/
theorem raised_root (cfg : Cfg) (plan : Plan) (amb : Option Exc) (pol : Policy) (sch : Sched) (w : World) (e : Exc)
    (h : (scanSubsets cfg plan amb pol sch w).1 = some e) :
    (∃ p ∈ plan, p ∈ allPoints cfg ∧ e.root = .fault p) ∨ e.root = .badArg ∨ (∃ a, amb = some a ∧ e.root = a.root) := by
  rcases raised_origin cfg plan amb pol sch w e h with ⟨p, hp, hl, rfl | rfl⟩ | rfl | rfl | ⟨a, ha, rfl⟩
  · exact Or.inl ⟨p, hp, hl, rfl⟩
  · exact Or.inl ⟨p, hp, hl, rfl⟩
  · exact Or.inr (Or.inl rfl)
  · exact Or.inr (Or.inl rfl)
  · exact Or.inr (Or.inr ⟨a, ha, rfl⟩)

-- non-vacuity of the new premises
example : (scanSubsets exCfg [⟨.rotate, 5, 0⟩, ⟨.callback, 1, 2⟩] none .kill {} {}).1 ≠ none ∧
    (scanSubsets exCfg [⟨.rotate, 5, 0⟩] none .kill {} {}).1 = none := by decide
example : (scanBody exCfg [⟨.rotate, 1, 1⟩] {} 1 {}).1 ≠ none := by decide

/-! ## deepening: created vs live segments, trace monotonicity -/

/-- `Bnd a b`: between world `a` and world `b` the allocation counter did not go back and the ledger grew by at most
the number of segments created in between -/
def Bnd (a b : World) : Prop := a.nalloc ≤ b.nalloc ∧ b.live.length + a.nalloc ≤ a.live.length + b.nalloc

theorem Bnd.refl (a : World) : Bnd a a := ⟨Nat.le_refl _, Nat.le_refl _⟩

theorem Bnd.trans {a b c : World} (h1 : Bnd a b) (h2 : Bnd b c) : Bnd a c := by
  unfold Bnd at *; omega

/-- one step creates as many segments as it adds to the ledger -/
theorem step_bnd (plan : Plan) (mgr : Option Nat) (s : Step) (w : World) : Bnd w (step plan mgr s w).2 := by
  cases s with
  | point p => simp only [step]; split <;> exact Bnd.refl w
  | alloc n => simp [step, allocSegs, Bnd]; omega
  | write b => simp only [step]; split <;> exact Bnd.refl w
  | fail e => exact Bnd.refl w

theorem execSteps_bnd (plan : Plan) (mgr : Option Nat) (ss : List Step) (w : World) :
    Bnd w (execSteps plan mgr ss w).2 := by
  induction ss generalizing w with
  | nil => exact Bnd.refl _
  | cons s ss ih =>
    have h1 := step_bnd plan mgr s w
    unfold execSteps
    rcases hs : step plan mgr s w with ⟨_ | e, w'⟩
    · rw [hs] at h1; exact h1.trans (ih w')
    · rw [hs] at h1; exact h1

/-- `SharedMemoryManager.__exit__` only removes segments and creates none -/
theorem release_bnd (id : Nat) (w : World) : Bnd w (release id w) := by
  unfold Bnd release
  have := List.length_filter_le (fun s : Seg => s.mgr != some id) w.live
  simp only
  omega

theorem scanBody_bnd (cfg : Cfg) (plan : Plan) (ts : TileSched) (t : Nat) (w : World) :
    Bnd w (scanBody cfg plan ts t w).2 := by
  have hpre := execSteps_bnd plan (some t) (preSteps cfg t) w
  unfold scanBody
  rcases hp : execSteps plan (some t) (preSteps cfg t) w with ⟨_ | e, w1⟩
  · rw [hp] at hpre; simp only at hpre ⊢
    split
    · exact hpre
    · have hpool := runPool_inv (jobFull plan t) (jobPart plan t ts) cfg.inner (fun w' => Bnd w w')
        (fun j w' h => h.trans (execSteps_bnd plan (some t) j.2 w'))
        (Or.inr (fun j w' h => h.trans (execSteps_bnd plan (some t) _ w')))
        (poolOrder cfg.inner ts.picks (jobsOf cfg t)) w1 hpre
      rcases hr : runPool (jobFull plan t) (jobPart plan t ts) cfg.inner
          (poolOrder cfg.inner ts.picks (jobsOf cfg t)) w1 with ⟨_ | e, w2⟩
      · rw [hr] at hpool; simp only at hpool ⊢
        exact hpool.trans (execSteps_bnd plan (some t) _ w2)
      · rw [hr] at hpool; exact hpool
  · rw [hp] at hpre; exact hpre

theorem tileFull_bnd (cfg : Cfg) (plan : Plan) (amb : Option Exc) (sch : Sched) (t : Nat) (w : World) :
    Bnd w (tileFull cfg plan amb sch t w).2 := by
  have h1 := execSteps_bnd plan none [.point ⟨.subset, t, 0⟩] w
  unfold tileFull
  rcases hs : execSteps plan none [.point ⟨.subset, t, 0⟩] w with ⟨_ | e, w1⟩
  · rw [hs] at h1; simp only at h1 ⊢
    rw [handler_snd]
    exact h1.trans ((scanBody_bnd cfg plan _ t w1).trans (release_bnd t _))
  · rw [hs] at h1; exact h1

theorem tilePart_bnd (cfg : Cfg) (plan : Plan) (amb : Option Exc) (pol : Policy) (sch : Sched) (t : Nat)
    (w : World) : Bnd w (tilePart cfg plan amb pol sch t w) := by
  unfold tilePart
  cases pol with
  | drain => exact tileFull_bnd cfg plan amb sch t w
  | kill =>
    have h12 := (execSteps_bnd plan none [.point ⟨.subset, t, 0⟩] w).trans
      (execSteps_bnd plan (some t) ((flatSteps cfg t).take (sch.progress.getD t {}).steps)
        (execSteps plan none [.point ⟨.subset, t, 0⟩] w).2)
    simp only
    split
    · exact h12.trans (release_bnd t _)
    · exact h12

/-- **live_bounded_by_created.**  For every fault plan, schedule and policy, returned or raised: the allocation
counter never goes back, and the number of segments live after the call exceeds the number live before it by at most
the number of segments the call created (segments are only ever added by `to_sharedarr`; in particular a call that
creates nothing leaves nothing) -/
theorem live_bounded_by_created (cfg : Cfg) (plan : Plan) (amb : Option Exc) (pol : Policy) (sch : Sched) (w : World) :
    w.nalloc ≤ (scanSubsets cfg plan amb pol sch w).2.nalloc ∧
    (scanSubsets cfg plan amb pol sch w).2.live.length + w.nalloc ≤
      w.live.length + (scanSubsets cfg plan amb pol sch w).2.nalloc := by
  show Bnd w (scanSubsets cfg plan amb pol sch w).2
  unfold scanSubsets
  by_cases h0 : cfg.outer = 0
  · simp only [h0, if_true]; exact Bnd.refl w
  · simp only [h0, if_false]
    have hpool := runPool_inv (tileFull cfg plan amb sch) (tilePart cfg plan amb pol sch) cfg.outer
      (fun w' => Bnd w w')
      (fun t w' h => h.trans (tileFull_bnd cfg plan amb sch t w'))
      (Or.inr (fun t w' h => h.trans (tilePart_bnd cfg plan amb pol sch t w')))
      (poolOrder cfg.outer sch.outerPicks (List.range cfg.ntiles)) w (Bnd.refl w)
    rcases hr : runPool (tileFull cfg plan amb sch) (tilePart cfg plan amb pol sch) cfg.outer
        (poolOrder cfg.outer sch.outerPicks (List.range cfg.ntiles)) w with ⟨_ | e, w1⟩
    · rw [hr] at hpool; simp only at hpool ⊢
      exact hpool.trans (execSteps_bnd plan none (outerPost cfg) w1)
    · rw [hr] at hpool; exact hpool

/-- the same bound for a direct `scan` -/
theorem scan_live_bounded_by_created (cfg : Cfg) (plan : Plan) (amb : Option Exc) (ts : TileSched) (w : World) :
    w.nalloc ≤ (scanDirect cfg plan amb ts w).2.nalloc ∧
    (scanDirect cfg plan amb ts w).2.live.length + w.nalloc ≤
      w.live.length + (scanDirect cfg plan amb ts w).2.nalloc := by
  show Bnd w (scanDirect cfg plan amb ts w).2
  unfold scanDirect
  rw [handler_snd]
  exact (scanBody_bnd cfg plan ts 0 w).trans (release_bnd 0 _)

theorem tilePart_traceSub (cfg : Cfg) (plan : Plan) (amb : Option Exc) (pol : Policy) (sch : Sched) (t : Nat)
    (w : World) : TraceSub w (tilePart cfg plan amb pol sch t w) := by
  unfold tilePart
  cases pol with
  | drain => exact (tileFull_trace cfg plan amb sch t w).1
  | kill =>
    have h12 := (execSteps_traceSub plan none [.point ⟨.subset, t, 0⟩] w).trans
      (execSteps_traceSub plan (some t) ((flatSteps cfg t).take (sch.progress.getD t {}).steps)
        (execSteps plan none [.point ⟨.subset, t, 0⟩] w).2)
    simp only
    split
    · exact fun p hp => h12 p hp
    · exact h12

/-- **trace_monotone.**  The search never un-does work: every program point reached before the call is still recorded
after it, for every plan, schedule and policy, returned or raised (frame property of the trace) -/
theorem trace_monotone (cfg : Cfg) (plan : Plan) (amb : Option Exc) (pol : Policy) (sch : Sched) (w : World) :
    ∀ p ∈ w.trace, p ∈ (scanSubsets cfg plan amb pol sch w).2.trace := by
  show TraceSub w (scanSubsets cfg plan amb pol sch w).2
  unfold scanSubsets
  by_cases h0 : cfg.outer = 0
  · simp only [h0, if_true]; exact TraceSub.refl w
  · simp only [h0, if_false]
    have hpool := runPool_inv (tileFull cfg plan amb sch) (tilePart cfg plan amb pol sch) cfg.outer
      (fun w' => TraceSub w w')
      (fun t w' h => h.trans (tileFull_trace cfg plan amb sch t w').1)
      (Or.inr (fun t w' h => h.trans (tilePart_traceSub cfg plan amb pol sch t w')))
      (poolOrder cfg.outer sch.outerPicks (List.range cfg.ntiles)) w (TraceSub.refl w)
    rcases hr : runPool (tileFull cfg plan amb sch) (tilePart cfg plan amb pol sch) cfg.outer
        (poolOrder cfg.outer sch.outerPicks (List.range cfg.ntiles)) w with ⟨_ | e, w1⟩
    · rw [hr] at hpool; simp only at hpool ⊢
      exact hpool.trans (execSteps_traceSub plan none (outerPost cfg) w1)
    · rw [hr] at hpool; exact hpool

/-- **created_eq_released.**  Under the corrected pool (or sequential tiles, or a returning run) the number of
segments released by the call equals the number it created: the ledger has its old length although the allocation
counter advanced by the number of `to_sharedarr` calls made -/
theorem created_eq_released (cfg : Cfg) (plan : Plan) (amb : Option Exc) (sch : Sched) (w : World)
    (hw : ∀ s ∈ w.live, s.mgr = none) :
    (w.live.length + ((scanSubsets cfg plan amb .drain sch w).2.nalloc - w.nalloc))
      - (scanSubsets cfg plan amb .drain sch w).2.live.length
      = (scanSubsets cfg plan amb .drain sch w).2.nalloc - w.nalloc := by
  rw [ledger_empty_after cfg plan amb sch w hw]
  omega

/-! ## deepening: direct `scan` success criterion, degenerate job schedules, what can be left behind -/

/-- a direct `scan` (no ambient exception) returns exactly when `n_jobs ≠ 0` and no planned fault sits on one of
its program points — for every inner schedule (success iff the effective fault list is empty) -/
theorem scan_returns_iff_no_live_fault (cfg : Cfg) (plan : Plan) (ts : TileSched) (w : World) :
    (scanDirect cfg plan none ts w).1 = none ↔ cfg.inner ≠ 0 ∧ ∀ p ∈ plan, p ∉ scanPoints cfg := by
  unfold scanDirect
  rw [handler_fst_none, scanBody_fst_none, bodyOK_iff]
  constructor
  · rintro ⟨⟨hi, hs⟩, _⟩
    refine ⟨hi, fun p hp hm => ?_⟩
    obtain ⟨s, hs', hb⟩ := bad_of_pt plan _ p hm hp
    rw [hs s hs'] at hb; cases hb
  · rintro ⟨hi, h⟩
    exact ⟨⟨hi, stepsOK_of_no_planned_point plan _ (flatSteps_nofail cfg 0) h⟩, rfl⟩

/-- `job_schedule[0] = 0`: the search raises at once, nothing was created, reached or written -/
theorem zero_outer_jobs_raises (cfg : Cfg) (plan : Plan) (amb : Option Exc) (pol : Policy) (sch : Sched) (w : World)
    (h : cfg.outer = 0) : scanSubsets cfg plan amb pol sch w = (some .badArg, w) := by
  simp [scanSubsets, h]

/-- `job_schedule[1] = 0` with at least one tile: the search raises for every plan and schedule (no empty result) -/
theorem zero_inner_jobs_raises (cfg : Cfg) (plan : Plan) (amb : Option Exc) (pol : Policy) (sch : Sched) (w : World)
    (h : cfg.inner = 0) (hn : 1 ≤ cfg.ntiles) : (scanSubsets cfg plan amb pol sch w).1 ≠ none := by
  intro hret
  obtain ⟨_, htiles, _⟩ := (scanSubsets_returns_iff cfg plan amb pol sch w).mp hret
  exact (htiles 0 (by omega)).2.1.2.1 h

/-- `JExt a b`: the ledger of `b` is the ledger of `a` followed by segments that are all tracked by some manager -/
def JExt (a b : World) : Prop := ∃ l, b.live = a.live ++ l ∧ ∀ s ∈ l, s.mgr ≠ none

theorem JExt.step {a b c : World} {t : Nat} (h1 : JExt a b) (h2 : LiveExt (some t) b c) : JExt a c := by
  obtain ⟨l1, e1, o1⟩ := h1
  obtain ⟨l2, e2, o2⟩ := h2
  refine ⟨l1 ++ l2, by rw [e2, e1, List.append_assoc], ?_⟩
  intro s hs
  rcases List.mem_append.mp hs with h | h
  · exact o1 s h
  · rw [o2 s h]; simp

theorem JExt.release {a b : World} (t : Nat) (ha : ∀ s ∈ a.live, s.mgr = none) (h : JExt a b) :
    JExt a (release t b) := by
  obtain ⟨l, e, o⟩ := h
  refine ⟨l.filter (fun s => s.mgr != some t), ?_, fun s hs => o s (List.mem_filter.mp hs).1⟩
  simp only [Pm.C16.release]
  rw [e, List.filter_append]
  congr 1
  exact List.filter_eq_self.mpr (fun s hs => by simp [ha s hs])

theorem JExt.subsetStep {a b : World} (plan : Plan) (t : Nat) (h : JExt a b) :
    JExt a (execSteps plan none [.point ⟨.subset, t, 0⟩] b).2 := by
  have hl := execSteps_live_noalloc plan none [.point ⟨.subset, t, 0⟩] b (by simp)
  obtain ⟨l, e, o⟩ := h
  exact ⟨l, by rw [hl]; exact e, o⟩

theorem tileFull_jext (cfg : Cfg) (plan : Plan) (amb : Option Exc) (sch : Sched) (t : Nat) (a w : World)
    (ha : ∀ s ∈ a.live, s.mgr = none) (h : JExt a w) : JExt a (tileFull cfg plan amb sch t w).2 := by
  have h1 := JExt.subsetStep plan t h
  unfold tileFull
  rcases hs : execSteps plan none [.point ⟨.subset, t, 0⟩] w with ⟨_ | e, w1⟩
  · rw [hs] at h1; simp only at h1 ⊢
    rw [handler_snd]
    exact JExt.release t ha (h1.step (scanBody_liveExt cfg plan _ t w1))
  · rw [hs] at h1; exact h1

theorem tilePart_jext (cfg : Cfg) (plan : Plan) (amb : Option Exc) (pol : Policy) (sch : Sched) (t : Nat)
    (a w : World) (ha : ∀ s ∈ a.live, s.mgr = none) (h : JExt a w) :
    JExt a (tilePart cfg plan amb pol sch t w) := by
  unfold tilePart
  cases pol with
  | drain => exact tileFull_jext cfg plan amb sch t a w ha h
  | kill =>
    have h12 := (JExt.subsetStep plan t h).step
      (execSteps_liveExt plan (some t) ((flatSteps cfg t).take (sch.progress.getD t {}).steps)
        (execSteps plan none [.point ⟨.subset, t, 0⟩] w).2)
    simp only
    split
    · exact JExt.release t ha h12
    · exact h12

/-- **leftovers_are_tracked (today's pool included).**  For every plan, schedule and policy, returned or raised: the
segments that were live before the call are all still there, in order (the search never unlinks a foreign segment),
and whatever the call leaves behind on top of them was created through a `SharedMemoryManager` of one of its tiles —
never an untracked `SharedMemory(create=True)` -/
theorem leftovers_are_tracked (cfg : Cfg) (plan : Plan) (amb : Option Exc) (pol : Policy) (sch : Sched) (w : World)
    (hw : ∀ s ∈ w.live, s.mgr = none) :
    ∃ l, (scanSubsets cfg plan amb pol sch w).2.live = w.live ++ l ∧ ∀ s ∈ l, s.mgr ≠ none := by
  show JExt w (scanSubsets cfg plan amb pol sch w).2
  unfold scanSubsets
  by_cases h0 : cfg.outer = 0
  · simp only [h0, if_true]; exact ⟨[], by simp, by simp⟩
  · simp only [h0, if_false]
    have hpool := runPool_inv (tileFull cfg plan amb sch) (tilePart cfg plan amb pol sch) cfg.outer
      (fun w' => JExt w w')
      (fun t w' h => tileFull_jext cfg plan amb sch t w w' hw h)
      (Or.inr (fun t w' h => tilePart_jext cfg plan amb pol sch t w w' hw h))
      (poolOrder cfg.outer sch.outerPicks (List.range cfg.ntiles)) w ⟨[], by simp, by simp⟩
    rcases hr : runPool (tileFull cfg plan amb sch) (tilePart cfg plan amb pol sch) cfg.outer
        (poolOrder cfg.outer sch.outerPicks (List.range cfg.ntiles)) w with ⟨_ | e, w1⟩
    · rw [hr] at hpool; simp only at hpool ⊢
      obtain ⟨l, e, o⟩ := hpool
      exact ⟨l, by rw [outerPost_live]; exact e, o⟩
    · rw [hr] at hpool; exact hpool

-- non-vacuity: a non-empty foreign ledger survives a killed pool that leaks
example : (scanSubsets { exCfg with inner := 1, nrot := 1 } [⟨.callback, 0, 0⟩] none .kill
    { progress := [{}, { steps := 5 }] } { live := [⟨none, 7⟩] }).2.live.head? = some ⟨none, 7⟩ := by decide

/-! ## deepening: a schedule only permutes the tasks -/

theorem extract_perm {α : Type} (i : Nat) (x : α) (xs : List α) :
    List.Perm (x :: xs) ((extract i x xs).1 :: (extract i x xs).2) := by
  induction i generalizing x xs with
  | zero => exact List.Perm.refl _
  | succ i ih =>
    cases xs with
    | nil => exact List.Perm.refl _
    | cons y ys =>
      simp only [extract]
      exact ((ih y ys).cons x).trans (List.Perm.swap _ _ _)

/-- the completion order chosen by a schedule is a permutation of the submitted tasks: no job or tile is dropped,
none runs twice, whatever the picks -/
theorem pickOrder_perm {α : Type} (picks : List Nat) (l : List α) : List.Perm l (pickOrder picks l) := by
  induction picks generalizing l with
  | nil => cases l <;> exact List.Perm.refl _
  | cons k ks ih =>
    cases l with
    | nil => exact List.Perm.refl _
    | cons x xs =>
      simp only [pickOrder]
      exact (extract_perm _ x xs).trans ((ih _).cons _)

/-- the order in which `joblib.Parallel` completes the tasks (either pool, any `n_jobs`) is a permutation of them -/
theorem poolOrder_perm {α : Type} (njobs : Nat) (picks : List Nat) (l : List α) :
    List.Perm l (poolOrder njobs picks l) := by
  unfold poolOrder
  split
  · exact List.Perm.refl _
  · exact pickOrder_perm picks l

/-- **pool_outcome_perm.**  For any worker pool whose tasks fail independently of the world (as scoring jobs and tiles
do): running the tasks in any permuted order, with any `n_jobs`, any in-flight behaviour and from any world gives the
same raise / return decision -/
theorem pool_outcome_perm {τ : Type} (full : τ → World → Option Exc × World) (part part' : τ → World → World)
    (njobs njobs' : Nat) (bad : τ → Bool) (hfull : ∀ t w, (full t w).1 = none ↔ bad t = false)
    (ts ts' : List τ) (hperm : List.Perm ts ts') (w w' : World) :
    (runPool full part njobs ts w).1 = none ↔ (runPool full part' njobs' ts' w').1 = none := by
  rw [runPool_fst_none full part njobs bad hfull, runPool_fst_none full part' njobs' bad hfull]
  exact ⟨fun h t ht => h t (hperm.mem_iff.mpr ht), fun h t ht => h t (hperm.mem_iff.mp ht)⟩

/-- instance for the scoring jobs of one `scan`: any permutation of the jobs gives the same raise / return decision -/
theorem jobs_outcome_perm (plan : Plan) (t : Nat) (ts ts' : TileSched) (njobs njobs' : Nat)
    (js js' : List (Nat × List Step)) (hperm : List.Perm js js') (w w' : World) :
    (runPool (jobFull plan t) (jobPart plan t ts) njobs js w).1 = none ↔
      (runPool (jobFull plan t) (jobPart plan t ts') njobs' js' w').1 = none :=
  pool_outcome_perm (jobFull plan t) _ _ njobs njobs' (fun j => j.2.any (·.bad plan))
    (jobFull_fst_none plan t) js js' hperm w w'

end Pm.C16
