import PytmeModel.Model.Common
/-!
C05 — peak callers (`tme/analyzer.py`): `PeakCaller.__call__`, `_update`, `merge`, `_postprocess`,
the five `call_peaks` strategies, `filter_points_indices` / C++ `find_candidate_indices<int64>`,
`NumpyFFTWBackend.topk_indices` / `max_filter_coordinates`, `matching_utils.split_shape`
(as used by `PeakCallerFast`).

Scores are `Int` (the harness feeds integer-valued float arrays, so `min(scores) - 1`, the
masking value `0` and every comparison are exact).  A rotation matrix is represented by an id.
Library calls whose tie behaviour is unspecified (`argpartition`/`argsort`) and
`skimage.feature.peak_local_max` enter as *oracle* arguments; when no oracle is given the
deterministic `topkSort` / `sortDesc` is used (exact on tie-free data).
-/
namespace Pm.C05

structure Peak where
  pos : List Int
  rot : Nat
  score : Int
deriving DecidableEq, Repr

structure Cfg where
  nPeaks : Nat            -- number_of_peaks (constructor rejects 0)
  minDist : Nat           -- min_distance
  minBoundary : Nat       -- min_boundary_distance
  minScore : Option Int   -- minimum_score
  maxScore : Option Int   -- maximum_score
deriving Repr

/-! ## distance filter (`filter_points_indices` → C++ `find_candidate_indices<int64_t>`) -/

/-- squared Euclidean distance of two integer coordinates -/
def d2 : List Int → List Int → Int
  | a :: as, b :: bs => (a - b) * (a - b) + d2 as bs
  | _, _ => 0

/-- The C++ keeps `i` next to a kept `j` iff NOT `(int64) sqrt((int64) Σ (Δ²)) <= min_distance`,
i.e. iff `⌊√d²⌋ > md`, i.e. iff `(md+1)² ≤ d²` (the root is truncated because `T = int64_t`). -/
def far (md : Nat) (p q : List Int) : Bool :=
  decide (((md : Int) + 1) * ((md : Int) + 1) ≤ d2 p q)

/-- greedy pass in the given order: `kept` grows at the end (`candidate_indices.push_back`) -/
def greedyAux (md : Nat) : List Peak → List Peak → List Peak
  | kept, [] => kept
  | kept, x :: xs =>
      if kept.all (fun k => far md x.pos k.pos) then greedyAux md (kept ++ [x]) xs
      else greedyAux md kept xs

/-- `filter_points_indices`: `min_distance <= 0` keeps everything -/
def filterPoints (md : Nat) (xs : List Peak) : List Peak :=
  if md = 0 then xs else greedyAux md [] xs

/-! ## top-k (`topk_indices`) -/

/-- insert `i` into a list of indices sorted by descending score -/
def insDesc (s : Nat → Int) (i : Nat) : List Nat → List Nat
  | [] => [i]
  | j :: js => if s j < s i then i :: j :: js else j :: insDesc s i js

def sortDescL (s : Nat → Int) : List Nat → List Nat
  | [] => []
  | i :: is => insDesc s i (sortDescL s is)

/-- indices `0..n-1` by descending score -/
def sortDesc (scores : List Int) : List Nat :=
  sortDescL (fun i => scores.getD i 0) (List.range scores.length)

/-- deterministic top-k: the first `k` indices by descending score -/
def topkSort (scores : List Int) (k : Nat) : List Nat := (sortDesc scores).take k

/-- the recorded library answer if there is one, else the deterministic one -/
def selectTopk (scores : List Int) (k : Nat) (o : Option (List Nat)) : List Nat :=
  match o with
  | some l => l
  | none => topkSort scores k

/-- scores along the list never increase -/
def descB (s : Nat → Int) : List Nat → Bool
  | a :: b :: r => decide (s b ≤ s a) && descB s (b :: r)
  | _ => true

/-- full contract of `topk_indices(scores, k)` checked on every recorded answer:
`k` distinct valid indices, descending scores, nothing left out beats a selected one. -/
def isTopK (scores : List Int) (k : Nat) (order : List Nat) : Bool :=
  let s := fun i => scores.getD i 0
  decide (order.length = k) && order.all (fun i => decide (i < scores.length)) &&
  decide (order.Nodup) && descB s order &&
  (List.range scores.length).all (fun j => order.contains j || order.all (fun i => decide (s j ≤ s i)))

/-- same for `argsort(-scores)`: a permutation of all indices with descending scores -/
def isArgsortDesc (scores : List Int) (order : List Nat) : Bool :=
  isTopK scores scores.length order && (List.range scores.length).all (fun i => order.contains i)

/-! ## `_update` -/

/-- `PeakCaller._update` (batch_dims = None): concatenate with the running list, take the
top `min(size, number_of_peaks)` by score, greedy distance filter in that order. -/
def update (cfg : Cfg) (st cands : List Peak) (o : Option (List Nat)) : List Peak :=
  let all := st ++ cands
  let k := min all.length cfg.nPeaks
  let order := selectTopk (all.map (·.score)) k o
  filterPoints cfg.minDist (order.filterMap (fun i => all[i]?))

/-! ## `__call__`: margin and score window -/

/-- `min_boundary_distance <= p < shape - min_boundary_distance` on every axis -/
def inMargin (mb : Nat) : List Nat → List Nat → Bool
  | s :: ss, p :: ps => decide (mb ≤ p) && decide ((p : Int) < (s : Int) - (mb : Int)) && inMargin mb ss ps
  | _, _ => true

def inWindow (cfg : Cfg) (v : Int) : Bool :=
  (match cfg.minScore with | some m => decide (m ≤ v) | none => true) &&
  (match cfg.maxScore with | some m => decide (v ≤ m) | none => true)

def mkPeak (scores : Arr Int) (rot : Nat) (c : List Nat) : Peak :=
  ⟨c.map Int.ofNat, rot, scores.getD c 0⟩

/-- the part of `__call__` after `call_peaks`: margin filter, score look-up, score window -/
def callStage (cfg : Cfg) (scores : Arr Int) (rot : Nat) (cands : List (List Nat)) : List Peak :=
  let c1 := if cfg.minBoundary > 0 then cands.filter (inMargin cfg.minBoundary scores.shape) else cands
  (c1.map (mkPeak scores rot)).filter (fun p => inWindow cfg p.score)

/-! ## strategies -/

inductive Strategy | sort | maxFilter | fast | recursive | scipy
deriving DecidableEq, Repr

/-- recorded answers of library calls with unspecified tie behaviour / external algorithms -/
structure Orc where
  callTopk : Option (List Nat) := none   -- PeakCallerSort: topk_indices(flat scores)
  argsort : Option (List Nat) := none    -- PeakCallerFast: argsort(-scores[candidates])
  plm : List (List Nat) := []            -- PeakCallerScipy: peak_local_max output (squeezed coordinates)
  updTopk : Option (List Nat) := none    -- _update: topk_indices(concatenated scores)
deriving Repr

/-- `PeakCallerSort.call_peaks` -/
def callSort (cfg : Cfg) (a : Arr Int) (o : Option (List Nat)) : List (List Nat) :=
  let data := a.data.toList
  (selectTopk data (min cfg.nPeaks data.length) o).map (unflat a.shape)

/-- `scipy.ndimage` `mode="nearest"` source index -/
def clampIdx (n : Nat) (x : Int) : Nat := if x < 0 then 0 else min x.toNat (n - 1)

/-- `P` holds at every position of the `d`-window of `maximum_filter(size=d)` around `idx`:
per axis offsets `-(d/2) … d-1-d/2`, clamped into the array (`mode="nearest"`). -/
def winAll (d : Nat) : List Nat → List Nat → (List Nat → Bool) → Bool
  | s :: ss, i :: is, P =>
      (List.range d).all (fun o =>
        winAll d ss is (fun rest => P (clampIdx s ((i : Int) + (o : Int) - ((d / 2 : Nat) : Int)) :: rest)))
  | _, _, P => P []

/-- the pre-fix behaviour (`mode="constant"`, cval 0): positions outside read `0` -/
def winAllConst (d : Nat) : List Nat → List Int → (List Int → Bool) → Bool
  | _ :: ss, i :: is, P =>
      (List.range d).all (fun o =>
        winAllConst d ss is (fun rest => P (((i : Int) + (o : Int) - ((d / 2 : Nat) : Int)) :: rest)))
  | _, _, P => P []

def isWinMax (d : Nat) (a : Arr Int) (idx : List Nat) : Bool :=
  winAll d a.shape idx (fun j => decide (a.getD j 0 ≤ a.getD idx 0))

/-- `max_filter_coordinates` (after the fix: `mode="nearest"`): positions equal to the maximum
of their window, in row-major order (`np.nonzero`). -/
def callMaxFilter (d : Nat) (a : Arr Int) : List (List Nat) :=
  (allIdx a.shape).filter (isWinMax d a)

/-- `max_filter_coordinates` before the fix (`mode="constant"`): outside the array reads `0` -/
def callMaxFilterConst (d : Nat) (a : Arr Int) : List (List Nat) :=
  (allIdx a.shape).filter (fun idx =>
    winAllConst d a.shape (idx.map Int.ofNat) (fun j => decide (a.getI j 0 ≤ a.getD idx 0)))

/-- first maximiser of `f` in list order (`np.argmax` returns the first occurrence) -/
def argmaxOf (f : List Nat → Int) : List (List Nat) → Option (List Nat)
  | [] => none
  | x :: xs =>
      match argmaxOf f xs with
      | none => some x
      | some y => if f x < f y then some y else some x

/-- cartesian product in `itertools.product` order -/
def prodLists : List (List Nat) → List (List Nat)
  | [] => [[]]
  | l :: ls => l.flatMap (fun x => (prodLists ls).map (fun r => x :: r))

/-- number of tiles `PeakCallerFast` asks for on an axis: `max(n // md, 1)` -/
def nTiles (n md : Nat) : Nat := max (n / md) 1
/-- tile length `ceil(n / k)` -/
def tileLen (n md : Nat) : Nat := cdiv n (nTiles n md)
/-- `split_shape(equal_shape=True)` (after the fix): start `min(j*L, n-L)` -/
def tileStarts (n md : Nat) : List Nat :=
  (List.range (nTiles n md)).map (fun j => min (j * tileLen n md) (n - tileLen n md))
/-- `split_shape` before the fix: `j*L` except the last tile, which starts at `n-L` -/
def tileStartsOld (n md : Nat) : List Nat :=
  (List.range (nTiles n md)).map (fun j => if j < nTiles n md - 1 then j * tileLen n md else n - tileLen n md)

/-- all indices of the box `[start, start+len)` per axis, row-major -/
def boxIdx (starts lens : List Nat) : List (List Nat) :=
  (allIdx lens).map (fun r => List.zipWith (· + ·) starts r)

/-- `P` on every index of the box `[lo, hi)` per axis -/
def boxAll : List (Nat × Nat) → (List Nat → Bool) → Bool
  | (lo, hi) :: bs, P => (List.range (hi - lo)).all (fun o => boxAll bs (fun rest => P ((lo + o) :: rest)))
  | [], P => P []

/-- recheck window of `PeakCallerFast`: `[max(c-md,0), min(c+md, n))` per axis -/
def recheckBox (md : Nat) : List Nat → List Nat → List (Nat × Nat)
  | s :: ss, c :: cs => (c - md, min (c + md) s) :: recheckBox md ss cs
  | _, _ => []

/-- tile maxima of `PeakCallerFast` (before sorting) -/
def fastTileMax (md : Nat) (a : Arr Int) : List (List Nat) :=
  let lens := a.shape.map (fun n => tileLen n md)
  (prodLists (a.shape.map (fun n => tileStarts n md))).filterMap (fun st =>
    argmaxOf (fun i => a.getD i 0) (boxIdx st lens))

/-- `PeakCallerFast.call_peaks` -/
def callFast (md : Nat) (a : Arr Int) (o : Option (List Nat)) : List (List Nat) :=
  let cs := fastTileMax md a
  let perm := match o with
    | some l => l
    | none => sortDesc (cs.map (fun c => a.getD c 0))
  let sorted := perm.filterMap (fun i => cs[i]?)
  sorted.filter (fun c => boxAll (recheckBox md a.shape c) (fun j => decide (a.getD j 0 ≤ a.getD c 0)))

/-- `_mask_scores_box`: `[max(p-md,0), min(p+md,n))` per axis set to `0` -/
def inBox (md : Nat) : List Nat → List Nat → Bool
  | p :: ps, i :: is => decide (p - md ≤ i) && decide (i < p + md) && inBox md ps is
  | _, _ => true

def maskBox (md : Nat) (a : Arr Int) (peak : List Nat) : Arr Int :=
  Arr.ofFn a.shape (fun idx => if inBox md peak idx then 0 else a.getD idx 0)

/-- the `while True` loop of `PeakCallerRecursiveMasking.call_peaks`; `fuel = peak_limit` -/
def recLoop (md : Nat) (minimum : Int) : Nat → Arr Int → List (List Nat)
  | 0, _ => []
  | f + 1, a =>
      match argmaxOf (fun i => a.getD i 0) (allIdx a.shape) with
      | none => []
      | some pk =>
          if a.getD pk 0 < minimum then [] else pk :: recLoop md minimum f (maskBox md a pk)

def listMin : List Int → Int
  | [] => 0
  | [x] => x
  | x :: xs => min x (listMin xs)

/-- `PeakCallerRecursiveMasking.call_peaks` (default box mask) -/
def callRecursive (cfg : Cfg) (a : Arr Int) : List (List Nat) :=
  match cfg.minScore with
  | some m => recLoop cfg.minDist m a.data.size a
  | none => recLoop cfg.minDist (listMin a.data.toList - 1) cfg.nPeaks a

/-- `peaks_full[..., non_squeezable_dims] = peaks` -/
def unsqueeze : List Nat → List Nat → List Nat
  | [], _ => []
  | s :: ss, cs =>
      if s = 1 then 0 :: unsqueeze ss cs
      else match cs with
        | c :: cs' => c :: unsqueeze ss cs'
        | [] => 0 :: unsqueeze ss []

/-- `PeakCallerScipy.call_peaks`: the library's answer, un-squeezed -/
def callScipy (a : Arr Int) (plm : List (List Nat)) : List (List Nat) :=
  plm.map (unsqueeze a.shape)

def callPeaks (cfg : Cfg) (st : Strategy) (a : Arr Int) (o : Orc) : List (List Nat) :=
  match st with
  | .sort => callSort cfg a o.callTopk
  | .maxFilter => callMaxFilter cfg.minDist a
  | .fast => callFast cfg.minDist a o.argsort
  | .recursive => callRecursive cfg a
  | .scipy => callScipy a o.plm

/-! ## histories -/

structure Sub where
  scores : Arr Int
  rot : Nat
  orc : Orc

/-- one `PeakCaller.__call__` -/
def submit (cfg : Cfg) (strat : Strategy) (st : List Peak) (s : Sub) : List Peak :=
  let ps := callStage cfg s.scores s.rot (callPeaks cfg strat s.scores s.orc)
  if ps.isEmpty then st else update cfg st ps s.orc.updTopk

/-- `tuple(peak_caller)` after a sequence of calls -/
def run (cfg : Cfg) (strat : Strategy) (subs : List Sub) : List Peak :=
  subs.foldl (submit cfg strat) []

/-- the running list after every call (for the correspondence check) -/
def runTrace (cfg : Cfg) (strat : Strategy) : List Peak → List Sub → List (List Peak)
  | _, [] => []
  | st, s :: ss => let st' := submit cfg strat st s; st' :: runTrace cfg strat st' ss

def shiftPeak (off : Option (List Int)) (p : Peak) : Peak :=
  match off with
  | none => p
  | some o => { p with pos := List.zipWith (· + ·) p.pos o }

/-- `PeakCaller.merge`: a fresh caller updated with every non-empty candidate tuple
(`none` stands for the empty tuple of a caller that never stored anything), the same
`offset` added to each. -/
def merge (cfg : Cfg) (off : Option (List Int)) : List Peak → List (Option (List Peak) × Option (List Nat)) → List Peak
  | base, [] => base
  | base, (none, _) :: rest => merge cfg off base rest
  | base, (some c, o) :: rest => merge cfg off (update cfg base (c.map (shiftPeak off)) o) rest

/-! ## `_postprocess` -/

structure Axis where
  fast : Nat        -- fast_shape
  conv : Nat        -- convolution_shape
  out : Int         -- output extent: conv | target | target - template + template % 2
  shift : Int       -- fourier_shift
deriving Repr

inductive ConvMode | other | same | valid
deriving DecidableEq, Repr

def outLen (mode : ConvMode) (conv target template : Nat) : Int :=
  match mode with
  | .same => target
  | .valid => (target : Int) - template + ((template % 2 : Nat) : Int)
  | .other => conv

/-- crop start `astype(int)((conv - out) / 2)` (truncation) -/
def cropStart (ax : Axis) : Int := Int.tdiv ((ax.conv : Int) - ax.out) 2

/-- one axis of `_postprocess` (after the fixes: modular wrap, window `start <= p < stop`) -/
def ppAxis (wrap : Bool) (ax : Axis) (p : Int) : Option Int :=
  let w := if wrap then (p + ax.shift) % (ax.fast : Int) else p
  if cropStart ax ≤ w ∧ w < cropStart ax + ax.out then some (w - cropStart ax) else none

/-- the same axis before the fixes: truncating wrap, window `start < p <= stop` -/
def ppAxisOld (wrap : Bool) (ax : Axis) (p : Int) : Option Int :=
  let w := if wrap then (p + ax.shift) - Int.tdiv (p + ax.shift) (ax.fast : Int) * (ax.fast : Int) else p
  if cropStart ax < w ∧ w ≤ cropStart ax + ax.out then some (w - cropStart ax) else none

def ppPos (wrap : Bool) : List Axis → List Int → Option (List Int)
  | ax :: axs, p :: ps =>
      match ppAxis wrap ax p, ppPos wrap axs ps with
      | some q, some qs => some (q :: qs)
      | _, _ => none
  | _, _ => some []

def postprocess (wrap : Bool) (axes : List Axis) (peaks : List Peak) : List Peak :=
  peaks.filterMap (fun p => (ppPos wrap axes p.pos).map (fun q => { p with pos := q }))

/-- where `MaxScoreOverRotations._postprocess` reads the value it reports at `t`:
`roll` by `shift` (modular), cut to `conv`, crop from `cropStart` — raw index of output `t`. -/
def mapSrc (ax : Axis) (t : Nat) : Nat := rollSrc ax.fast ax.shift ((t : Int) + cropStart ax).toNat

/-! ## the property's clauses as executable predicates (used on the real outputs) -/

/-- Euclidean distance strictly larger than `md` -/
def sepOk (md : Nat) (p q : List Int) : Bool := decide ((md : Int) * (md : Int) < d2 p q)

def pairwiseB {α} (r : α → α → Bool) : List α → Bool
  | [] => true
  | x :: xs => xs.all (r x) && pairwiseB r xs

def specSeparated (md : Nat) (ps : List (List Int)) : Bool := pairwiseB (sepOk md) ps

def inBoundsI : List Nat → List Int → Bool
  | s :: ss, p :: ps => decide (0 ≤ p) && decide (p < (s : Int)) && inBoundsI ss ps
  | [], [] => true
  | _, _ => false

end Pm.C05
