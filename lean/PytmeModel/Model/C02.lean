import PytmeModel.Model.Common
/-!
C02 — independence of splitting, schedule and rotation order.

* `splitRotations` mirrors `MatchingData._split_rotations_on_jobs`.
* A tiny buffer language for the per-rotation loop bodies of `corr_scoring`, `flc_scoring`, `mcc_scoring`:
  which work arrays are zero-filled, partly written (`out[out_slice]`), fully overwritten, read.  The
  programs themselves are *extracted from /repo's source on every run* (`Extracted/C02.lean`).
-/
namespace Pm.C02

/-- `_split_rotations_on_jobs`: `n_jobs` consecutive chunks of `len // n_jobs`, the last takes the rest -/
def splitRotations {α} (rots : List α) (nJobs : Nat) : List (List α) :=
  let per := rots.length / nJobs
  (List.range nJobs).map (fun n =>
    if n = nJobs - 1 then rots.drop (n * per) else (rots.drop (n * per)).take per)

/-- one statement of a loop body, over buffer numbers -/
inductive Op where
  | fill (b : Nat)                          -- `b = be.fill(b, 0)`
  | partialW (b : Nat) (reads : List Nat)   -- writes part of `b` (e.g. `rigid_transform(out=b)`, `b[mask] = …`): old content survives elsewhere
  | fullW (b : Nat) (reads : List Nat)      -- every element of `b` is recomputed from `reads` (FFT into `b`, ufunc with `out=b`)
  | read (reads : List Nat)                 -- scalar computed from buffers (`be.sum(temp)`, `be.max(…)`)
  | out (b : Nat)                           -- `callback(b, rotation)`
deriving Repr, DecidableEq

abbrev Prog := List Op

/-- static check: every buffer is fully defined in this iteration before it is read / partly written / emitted,
and the read-only inputs (`inputs`) are never written.  `D` = buffers defined so far. -/
def defBeforeUse (inputs : List Nat) : List Nat → Prog → Bool
  | _, [] => true
  | D, .fill b :: p => !inputs.contains b && defBeforeUse inputs (b :: D) p
  | D, .partialW b rs :: p => !inputs.contains b && D.contains b && rs.all D.contains && defBeforeUse inputs D p
  | D, .fullW b rs :: p => !inputs.contains b && rs.all D.contains && defBeforeUse inputs (b :: D) p
  | D, .read rs :: p => rs.all D.contains && defBeforeUse inputs D p
  | D, .out b :: p => D.contains b && defBeforeUse inputs D p

/-- semantics over abstract values: `sem i vals` is the (deterministic, rotation-dependent) function computed
by statement number `i` from the values it reads; a partial write also sees the old value of its target -/
def exec {V : Type} (sem : Nat → List V → V) : Nat → (Nat → V) → Prog → (Nat → V) × List V
  | _, s, [] => (s, [])
  | i, s, .fill b :: p =>
      exec sem (i + 1) (fun x => if x = b then sem i [] else s x) p
  | i, s, .partialW b rs :: p =>
      exec sem (i + 1) (fun x => if x = b then sem i (s b :: rs.map s) else s x) p
  | i, s, .fullW b rs :: p =>
      exec sem (i + 1) (fun x => if x = b then sem i (rs.map s) else s x) p
  | i, s, .read _ :: p => exec sem (i + 1) s p
  | i, s, .out b :: p =>
      let (s', o) := exec sem (i + 1) s p
      (s', s b :: o)

/-- a worker evaluating a history of rotations in one process: the buffers persist between iterations;
`sem r` is the statement semantics for rotation `r` -/
def runHistory {V R : Type} (sem : R → Nat → List V → V) (prog : Prog) : (Nat → V) → List R → List (List V)
  | _, [] => []
  | s, r :: rs =>
      let (s', o) := exec (sem r) 0 s prog
      o :: runHistory sem prog s' rs

end Pm.C02
