import PytmeModel.Model.Common
/-!
C02 — independence of splitting, schedule and rotation order.

* `splitRotations` mirrors `MatchingData._split_rotations_on_jobs`.
* A tiny buffer language for the per-rotation loop bodies of `corr_scoring`, `flc_scoring`, `mcc_scoring`:
  which work arrays are zero-filled, partly written (`out[out_slice]`), fully overwritten, read.  The
  programs themselves are *extracted from /repo's source on every run* (`Extracted/C02.lean`).
* `enumJobs` (second half of this file): the jobs `scan_subsets` creates — target / template slices, padding, offset,
  crop mode, tile and cropped shapes, device number, rotation chunks per analyzer — and the merge calls (`mergePlan`);
  `Model/C02Run.lean` runs them through C04's analyzer / `merge` model (`scanSubsetsRun`).
-/
namespace Pm.C02

/-- `_split_rotations_on_jobs`: `n_jobs` consecutive chunks of `len // n_jobs`, the last takes the rest -/
def splitRotations {α} (rots : List α) (nJobs : Nat) : List (List α) :=
  let per := rots.length / nJobs
  (List.range nJobs).map (fun n =>
    if n = nJobs - 1 then rots.drop (n * per) else (rots.drop (n * per)).take per)

/-- one statement of a loop body, over buffer numbers -/
inductive Op where
  | fill (b : Nat)                          -- `b = be.fill(b, 0)`
  | partialW (b : Nat) (reads : List Nat)   -- writes part of `b` (e.g. `rigid_transform(out=b)`, `b[mask] = …`): old content survives elsewhere
  | fullW (b : Nat) (reads : List Nat)      -- every element of `b` is recomputed from `reads` (FFT into `b`, ufunc with `out=b`)
  | read (reads : List Nat)                 -- scalar computed from buffers (`be.sum(temp)`, `be.max(…)`)
  | out (b : Nat)                           -- `callback(b, rotation)`
deriving Repr, DecidableEq

abbrev Prog := List Op

/-- static check: every buffer is fully defined in this iteration before it is read / partly written / emitted,
and the read-only inputs (`inputs`) are never written.  `D` = buffers defined so far. -/
def defBeforeUse (inputs : List Nat) : List Nat → Prog → Bool
  | _, [] => true
  | D, .fill b :: p => !inputs.contains b && defBeforeUse inputs (b :: D) p
  | D, .partialW b rs :: p => !inputs.contains b && D.contains b && rs.all D.contains && defBeforeUse inputs D p
  | D, .fullW b rs :: p => !inputs.contains b && rs.all D.contains && defBeforeUse inputs (b :: D) p
  | D, .read rs :: p => rs.all D.contains && defBeforeUse inputs D p
  | D, .out b :: p => D.contains b && defBeforeUse inputs D p

/-- semantics over abstract values: `sem i vals` is the (deterministic, rotation-dependent) function computed
by statement number `i` from the values it reads; a partial write also sees the old value of its target -/
def exec {V : Type} (sem : Nat → List V → V) : Nat → (Nat → V) → Prog → (Nat → V) × List V
  | _, s, [] => (s, [])
  | i, s, .fill b :: p =>
      exec sem (i + 1) (fun x => if x = b then sem i [] else s x) p
  | i, s, .partialW b rs :: p =>
      exec sem (i + 1) (fun x => if x = b then sem i (s b :: rs.map s) else s x) p
  | i, s, .fullW b rs :: p =>
      exec sem (i + 1) (fun x => if x = b then sem i (rs.map s) else s x) p
  | i, s, .read _ :: p => exec sem (i + 1) s p
  | i, s, .out b :: p =>
      let (s', o) := exec sem (i + 1) s p
      (s', s b :: o)

/-- a worker evaluating a history of rotations in one process: the buffers persist between iterations;
`sem r` is the statement semantics for rotation `r` -/
def runHistory {V R : Type} (sem : R → Nat → List V → V) (prog : Prog) : (Nat → V) → List R → List (List V)
  | _, [] => []
  | s, r :: rs =>
      let (s', o) := exec (sem r) 0 s prog
      o :: runHistory sem prog s' rs

/-! ## the orchestration: which jobs `scan_subsets` creates, what each `scan` hands to its analyzers

`scan_subsets` (tme/matching_exhaustive.py): `split_shape` of target and template, `itertools.product` of the two
(target outer loop), `target_padding(pad_target_edges)`, one `subset_by_slice` + one `scan(n_jobs = inner)` per pair
(`gpu_index = index % outer`), `callback_class.merge(results, **callback_class_args)`.
`scan`: `_split_rotations_on_jobs(n_jobs)`, one analyzer per chunk (`n_callback_classes = n_jobs` for the shared
`MaxScoreOverRotations`), constructed with `offset = _translation_offset` (= the *target* slice starts),
`convolution_mode = "valid" if _is_padded else "same"`, `targetshape` = shape of the (padded) tile,
`templateshape` = shape of the template part; `_postprocess` crops, `merge(callbacks, **default_callback_args)`.
Ranks of target and template are equal, no batch axes (the only case `scan_subsets` is documented for). -/

/-- `split_shape(equal_shape=True)`; copies of `Pm.C14` (model files are independent of each other;
`Props/C02.lean` proves `splitShape = Pm.C14.splitShape`) -/
def tileLen (N k : Nat) : Nat := cdiv N k
def tileStart (N k j : Nat) : Nat := min (j * tileLen N k) (N - tileLen N k)
def tile (N k j : Nat) : Nat × Nat := (tileStart N k j, tileStart N k j + tileLen N k)
def splitAxis (N k : Nat) : List (Nat × Nat) := (List.range (max k 1)).map (tile N (max k 1))
def productL {α : Type} : List (List α) → List (List α)
  | [] => [[]]
  | l :: ls => l.flatMap (fun x => (productL ls).map (fun r => x :: r))
def splitShape (shape splits : List Nat) : List (List (Nat × Nat)) :=
  productL (List.zipWith splitAxis shape splits)

/-- `MatchingData.target_padding(pad_target)`: `m - m % 2` per axis of the *whole* template, or zeros -/
def targetPad (tmpl : List Nat) (padEdges : Bool) : List Nat :=
  tmpl.map (fun m => if padEdges then m - m % 2 else 0)

/-- extent of the array `subset_array` builds on one axis of extent `N` for the slice `sl` and padding `p`
(neighbouring voxels where the target has them, mirrored voxels beyond its ends) -/
def paddedExtent (N : Nat) (sl : Nat × Nat) (p : Nat) : Nat :=
  let left := (p + p % 2) / 2
  let dl := min sl.1 left
  let dr := min (N - sl.2) left
  (left - dl) + ((sl.2 + dr) - (sl.1 - dl)) + (left - dr)

def zipWith3 {α β γ δ : Type} (f : α → β → γ → δ) : List α → List β → List γ → List δ
  | a :: as, b :: bs, c :: cs => f a b c :: zipWith3 f as bs cs
  | _, _, _ => []

/-- extent of the score array after `_postprocess` on one axis: `apply_convolution_mode` with `s1` the (padded)
tile extent, `s2` the template-part extent: `s1 - s2 + s2 % 2` for "valid", `s1` for "same" -/
def outExtent (valid : Bool) (s1 s2 : Nat) : Nat := if valid then s1 - s2 + s2 % 2 else s1

/-- one call of `scan` issued by `scan_subsets`, with everything `scan` derives from its arguments -/
structure Job (R : Type) where
  index : Nat
  gpuIndex : Nat                      -- `index % outer_jobs`
  targetSlice : List (Nat × Nat)      -- `subset_by_slice(target_slice = …)`
  templateSlice : List (Nat × Nat)    -- `subset_by_slice(template_slice = …)`
  pad : List Nat                      -- `subset_by_slice(target_pad = …)`
  offset : List Nat                   -- `_translation_offset` → analyzer `offset`
  valid : Bool                        -- `_is_padded` → `convolution_mode` "valid" (else "same")
  targetShape : List Nat              -- analyzer `targetshape` (padded tile)
  templateShape : List Nat            -- analyzer `templateshape` (template part)
  outShape : List Nat                 -- shape of `scores` after `_postprocess`
  nJobs : Nat                         -- `scan(n_jobs = inner)`
  threadSafe : Bool                   -- analyzer `thread_safe = n_jobs > 1`
  chunks : List (List R)              -- `_split_rotations_on_jobs(inner)`: chunk `i` goes to analyzer `i`
deriving Repr, DecidableEq

/-- the `(target_split, template_split)` pairs in the order `product(target_splits, template_splits)` yields them -/
def splitPairs (tgt tmpl tSplits mSplits : List Nat) : List (List (Nat × Nat) × List (Nat × Nat)) :=
  (splitShape tgt tSplits).flatMap (fun t => (splitShape tmpl mSplits).map (fun m => (t, m)))

def mkJob {R : Type} (tgt tmpl : List Nat) (outer inner : Nat) (rots : List R) (padEdges : Bool)
    (tm : List (Nat × Nat) × List (Nat × Nat)) (index : Nat) : Job R :=
  let pad := targetPad tmpl padEdges
  let valid := decide (0 < pad.foldl (· + ·) 0)
  let tShape := zipWith3 paddedExtent tgt tm.1 pad
  let mShape := tm.2.map (fun s => s.2 - s.1)
  { index := index, gpuIndex := index % outer, targetSlice := tm.1, templateSlice := tm.2, pad := pad,
    offset := tm.1.map Prod.fst, valid := valid, targetShape := tShape, templateShape := mShape,
    outShape := List.zipWith (outExtent valid) tShape mShape,
    nJobs := inner, threadSafe := decide (1 < inner), chunks := splitRotations rots inner }

/-- **the jobs of `scan_subsets`**, in the order the generator handed to `joblib.Parallel` creates them -/
def enumJobs {R : Type} (tgt tmpl tSplits mSplits : List Nat) (outer inner : Nat) (rots : List R)
    (padEdges : Bool) : List (Job R) :=
  (splitPairs tgt tmpl tSplits mSplits).zipIdx.map (fun p => mkJob tgt tmpl outer inner rots padEdges p.1 p.2)

/-- the merge calls: `scan` merges its analyzers (one per chunk; the single-entry shortcut of `merge` applies when
`inner = 1`), `scan_subsets` merges the `scan` results in job order.  Returned as the tree of (job index, chunk index). -/
def mergePlan {R : Type} (jobs : List (Job R)) : List (List (Nat × Nat)) :=
  jobs.map (fun J => (List.range J.chunks.length).map (fun c => (J.index, c)))

/-- what the schedule cannot change: the job without its index, device number, job count and chunking -/
structure JobCore (R : Type) where
  targetSlice : List (Nat × Nat)
  templateSlice : List (Nat × Nat)
  pad : List Nat
  offset : List Nat
  valid : Bool
  targetShape : List Nat
  templateShape : List Nat
  outShape : List Nat
  rots : List R                       -- all chunks, concatenated
deriving Repr, DecidableEq

def Job.core {R : Type} (J : Job R) : JobCore R :=
  ⟨J.targetSlice, J.templateSlice, J.pad, J.offset, J.valid, J.targetShape, J.templateShape, J.outShape, J.chunks.flatten⟩

end Pm.C02
