import PytmeModel.Model.Common
/-!
C14 — target tiling, tile extraction with margins, parallelisation schedule.

Mirrors `matching_utils.split_shape` (equal_shape=True), `MatchingData.subset_array` /
`subset_by_slice` (per-axis source index of every voxel of a padded tile, offsets),
`matching_utils.compute_parallelization_schedule` and `memory.estimate_ram_usage`.
-/
namespace Pm.C14

/-! ## split_shape -/

/-- per-axis tile extent `ceil(N / k)` -/
def tileLen (N k : Nat) : Nat := cdiv N k

/-- tile start as in the pinned tree (before the `fix:` commit): only the *last* tile is shifted back -/
def tileStartOld (N k j : Nat) : Nat := if j < k - 1 then j * tileLen N k else N - tileLen N k

/-- tile start of the current code: every tile that would leave the axis is shifted back -/
def tileStart (N k j : Nat) : Nat := min (j * tileLen N k) (N - tileLen N k)

/-- `(start, stop)` of tile `j` of `k` on an axis of extent `N` -/
def tile (N k j : Nat) : Nat × Nat := (tileStart N k j, tileStart N k j + tileLen N k)
def tileOld (N k j : Nat) : Nat × Nat := (tileStartOld N k j, tileStartOld N k j + tileLen N k)

def splitAxis (N k : Nat) : List (Nat × Nat) := (List.range (max k 1)).map (tile N (max k 1))
def splitAxisOld (N k : Nat) : List (Nat × Nat) := (List.range (max k 1)).map (tileOld N (max k 1))

/-- cartesian product, first axis slowest (itertools.product) -/
def productL {α : Type} : List (List α) → List (List α)
  | [] => [[]]
  | l :: ls => l.flatMap (fun x => (productL ls).map (fun r => x :: r))

/-- `split_shape(shape, splits)`; `splits` gives the part count per axis (missing/0 ⇒ 1) -/
def splitShape (shape splits : List Nat) : List (List (Nat × Nat)) :=
  productL (List.zipWith splitAxis shape splits)
def splitShapeOld (shape splits : List Nat) : List (List (Nat × Nat)) :=
  productL (List.zipWith splitAxisOld shape splits)

/-! ### `equal_shape=False`: tiles of extent `floor(N/k)`, the last one takes the remainder -/
def tileU (N k j : Nat) : Nat × Nat :=
  if j < k - 1 then (j * (N / k), (j + 1) * (N / k)) else (j * (N / k), N)
def splitAxisU (N k : Nat) : List (Nat × Nat) := (List.range (max k 1)).map (tileU N (max k 1))
def splitShapeU (shape splits : List Nat) : List (List (Nat × Nat)) :=
  productL (List.zipWith splitAxisU shape splits)

/-! ## subset_array: one axis of a tile with margin -/

structure TileAxis where
  left : Nat        -- requested margin per side (`(p + p%2)/2`)
  dl : Nat          -- real neighbours on the low side
  dr : Nat          -- real neighbours on the high side
  arrStart : Nat    -- extracted range of the volume
  arrStop : Nat
  padLo : Nat       -- mirrored voxels
  padHi : Nat
deriving Repr

/-- bookkeeping of `subset_array` for an axis of extent `N`, slice `[start, stop)`, padding `p` -/
def tileAxis (N start stop p : Nat) : TileAxis :=
  let p' := p + p % 2
  let left := p' / 2
  let dl := min start left
  let dr := min (N - stop) left
  { left := left, dl := dl, dr := dr, arrStart := start - dl, arrStop := stop + dr,
    padLo := left - dl, padHi := left - dr }

/-- extent of the tile along the axis -/
def TileAxis.extent (t : TileAxis) : Nat := t.padLo + (t.arrStop - t.arrStart) + t.padHi

/-- source voxel (in the full volume) of output position `q` of the tile:
numpy `pad(mode="reflect")` of the extracted range -/
def TileAxis.src (t : TileAxis) (q : Nat) : Nat :=
  t.arrStart + reflectIdx (t.arrStop - t.arrStart) ((q : Int) - t.padLo)

/-- `target_padding(pad_target=True)` per axis -/
def targetPadding (m : Nat) : Nat := m - m % 2

/-- … multiplied by `1 - is_target_batch`: no margin along a batch axis of the target -/
def targetPaddingB (m : Nat) (batch : Bool) : Nat := if batch then 0 else targetPadding m

/-! ## memory model -/

/-- coefficients of one registry class: bytes = Σ coefficient · (real|complex size) · (float|complex bytes) -/
structure MemCoef where
  name : String
  bRF : Nat  -- base: real_array_size * float_nbytes
  bRC : Nat  -- base: real_array_size * complex_nbytes
  bCF : Nat  -- base: complex_array_size * float_nbytes
  bCC : Nat  -- base: complex_array_size * complex_nbytes
  fRF : Nat  -- per fork …
  fRC : Nat
  fCF : Nat
  fCC : Nat
deriving Repr

/-- `MATCHING_MEMORY_REGISTRY` (extracted from /repo by reflection on every run and compared) -/
def memTable : List MemCoef := [
  ⟨"CC", 1,0,0,1, 1,0,0,1⟩,
  ⟨"LCC", 1,0,0,1, 1,0,0,1⟩,
  ⟨"CORR", 4,0,0,1, 1,0,0,1⟩,
  ⟨"CAM", 4,0,0,1, 1,0,0,1⟩,
  ⟨"MCC", 2,0,0,3, 6,0,0,1⟩,
  ⟨"FLCSphericalMask", 4,0,0,1, 1,0,0,1⟩,
  ⟨"FLC", 2,0,0,2, 3,0,0,2⟩,
  ⟨"MaxScoreOverRotations", 2,0,0,0, 0,0,0,0⟩,
  ⟨"PeakCallerMaximumFilter", 1,0,0,0, 1,0,0,0⟩,
  ⟨"cupy", 0,3,2,0, 0,0,0,0⟩,
  ⟨"pytorch", 0,3,2,0, 0,0,0,0⟩ ]

def lookupMem (n : String) : Option MemCoef := memTable.find? (·.name == n)

/-- remove all factors `p` (copy of C13.strip to keep model files independent) -/
def strip (p : Nat) : Nat → Nat → Nat
  | 0, n => n
  | f+1, n => if 1 < p ∧ 0 < n ∧ n % p = 0 then strip p f (n / p) else n
def isFast (n : Nat) : Bool :=
  let r := strip 7 n (strip 5 n (strip 3 n (strip 2 n n)))
  r == 1 || r == 11 || r == 13
def nextFastFrom : Nat → Nat → Nat
  | 0, n => n
  | f+1, n => if isFast n then n else nextFastFrom f (n + 1)
def nextFastLen (n : Nat) : Nat := if n = 0 then 0 else nextFastFrom (n + 1) n

def usage (c : MemCoef) (real cplx fb cb ncores : Nat) : Nat :=
  (c.bRF * real * fb + c.bRC * real * cb + c.bCF * cplx * fb + c.bCC * cplx * cb)
  + (c.fRF * real * fb + c.fRC * real * cb + c.fCF * cplx * fb + c.fCC * cplx * cb) * ncores

/-- `estimate_ram_usage`; `none` for an unregistered score (the code raises ValueError) -/
def estimateRam (shape1 shape2 : List Nat) (method : String) (ncores : Nat)
    (analyzer backend : Option String) (fb cb : Nat) : Option Nat :=
  match lookupMem method with
  | none => none
  | some c =>
    let conv := List.zipWith (fun a b => a + b - 1) shape1 shape2
    let fast := conv.map nextFastLen
    let ft := match fast.reverse with
      | [] => []
      | l :: rest => ((l / 2 + 1) :: rest).reverse
    let real := prodL fast
    let cplx := prodL ft
    let opt (o : Option String) : Nat := match o.bind lookupMem with
      | some c' => usage c' real cplx fb cb ncores
      | none => 0
    some (usage c real cplx fb cb ncores + opt analyzer + opt backend)

/-! ## schedule search -/

/-- `(inner, outer)` pairs in the order the code generates them -/
def coreAssignments (maxCores : Nat) (onlyOuter : Bool) : List (Nat × Nat) :=
  if onlyOuter then [(1, maxCores)] else
  (List.range (Nat.sqrt maxCores)).flatMap (fun i0 =>
    let i := i0 + 1
    if maxCores % i = 0 then [(i, maxCores / i), (maxCores / i, i)] else [])

/-- peak of the summed estimate over consecutive groups of `outer` tiles -/
def maxGroupUsage (usages : List Nat) (outer : Nat) : Nat → Nat → Nat
  | 0, acc => acc
  | fuel+1, acc =>
    match usages with
    | [] => acc
    | _ => let g := (usages.take outer).foldl (· + ·) 0
           maxGroupUsage (usages.drop (max outer 1)) outer fuel (max acc g)

structure Cand where
  splits : List Nat
  outer : Nat
  inner : Nat
  nSplits : Nat
  inits : Nat
deriving Repr, BEq

/-- what the search knows about the problem: tile widths for a split vector and the memory estimate
of one tile for a number of inner cores (the real code plugs in `split_shape` and `estimate_ram_usage`) -/
structure Problem where
  ndim : Nat
  widths : List Nat → List (List Nat)
  est : List Nat → Nat → Nat
  maxCores : Nat
  maxRam : Nat
  maxSplits : Nat
  onlyOuter : Bool
  splitAxes : List Nat       -- axes that may be split, in cycling order (non-empty)
  firstAxis : Nat            -- index into `splitAxes` … of the first axis to grow

/-- candidates contributed by one split vector -/
def candsFor (P : Problem) (factor : List Nat) : List Cand :=
  let n := prodL factor
  let ws := P.widths factor
  (coreAssignments P.maxCores P.onlyOuter).filterMap (fun (inner, outer) =>
    if outer > n then none else
    let us := ws.map (fun w => P.est w inner)
    if maxGroupUsage us outer (us.length + 1) 0 < P.maxRam then
      some ⟨factor, outer, inner, n, n / outer⟩
    else none)

def bump (l : List Nat) (ax : Nat) : List Nat := l.set ax (l.getD ax 0 + 1)

/-- the `while n_splits <= max_splits` loop (n_splits is the value computed in the previous pass, 0 at entry) -/
def searchLoop (P : Problem) : Nat → List Nat → Nat → Nat → Nat → List Cand → List Cand
  | 0, _, _, _, _, acc => acc
  | fuel+1, factor, axis, axisIdx, nPrev, acc =>
    if nPrev > P.maxSplits then acc else
    let acc' := acc ++ candsFor P factor
    let factor' := bump factor axis
    let axisIdx' := if axisIdx + 1 = P.splitAxes.length then 0 else axisIdx + 1
    searchLoop P fuel factor' (P.splitAxes.getD axisIdx' 0) axisIdx' (prodL factor) acc'

/-- stable minimum by `(nSplits, inits)` — numpy `lexsort((inits, n_splits))` then row 0 -/
def pickBest : List Cand → Option Cand
  | [] => none
  | c :: cs => some (cs.foldl (fun b x =>
      if x.nSplits < b.nSplits ∨ (x.nSplits = b.nSplits ∧ x.inits < b.inits) then x else b) c)

/-- `compute_parallelization_schedule`: first axis grown is `firstAxisValue` (argmax of the shape, or
`split_axes[0]`), then the code cycles through `splitAxes` starting after index `firstIdx` -/
def schedule (P : Problem) (firstAxisValue firstIdx : Nat) : Option Cand :=
  pickBest (searchLoop P (P.maxSplits + 2) (List.replicate P.ndim 1) firstAxisValue firstIdx 0 [])

end Pm.C14
