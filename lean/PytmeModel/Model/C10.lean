import PytmeModel.Model.Common
/-!
C10 — atoms are deposited on the grid at the right voxel and no mass is lost.

Mirrors `tme/structure.py`: `Structure.subset_by_chain`, `Structure._coordinate_to_position`
(x,y,z → z,y,x reversal, `np.rint((coordinates - origin) / sampling_rate)`, derived origin / shape,
left shift, bounds filter, out-of-bounds count), `Structure._get_atom_weights` over the `Elements`
table, the point-weight branch of `Structure.to_volume` (`np.add.at`), and the sampling-rate
normalisation at the head of `to_volume`.  `Density.from_structure` passes all of it through.

Numbers: coordinates, origins and sampling rates are exact rationals (`Rat`, core Lean) — every
float64/float32 is one; weights are integers (atomic weight in units of 1e-9, atomic number in units of 1).
-/
namespace Pm.C10

/-- `Elements._elements`: symbol ↦ (atomic_number, atomic_weight·10⁹).  Compared with the table
extracted from the repository by reflection on every run (`ctx.obligation "element-table"`). -/
def elementTable : List (String × Nat × Nat) := [
  ("H", 1, 1008000000),
  ("HE", 2, 4002602000),
  ("LI", 3, 6940000000),
  ("BE", 4, 9012183100),
  ("B", 5, 10810000000),
  ("C", 6, 12011000000),
  ("N", 7, 14007000000),
  ("O", 8, 15999000000),
  ("F", 9, 18998403163),
  ("NE", 10, 20179700000),
  ("NA", 11, 22989769280),
  ("MG", 12, 24305000000),
  ("AL", 13, 26981538500),
  ("SI", 14, 28085000000),
  ("P", 15, 30973761998),
  ("S", 16, 32060000000),
  ("CL", 17, 35450000000),
  ("AR", 18, 39948000000),
  ("K", 19, 39098300000),
  ("CA", 20, 40078000000),
  ("SC", 21, 44955908000),
  ("TI", 22, 47867000000),
  ("V", 23, 50941500000),
  ("CR", 24, 51996100000),
  ("MN", 25, 54938044000),
  ("FE", 26, 55845000000),
  ("CO", 27, 58933194000),
  ("NI", 28, 58693400000),
  ("CU", 29, 63546000000),
  ("ZN", 30, 65380000000),
  ("GA", 31, 69723000000),
  ("GE", 32, 72630000000),
  ("AS", 33, 74921595000),
  ("SE", 34, 78971000000),
  ("BR", 35, 79904000000),
  ("KR", 36, 83798000000),
  ("RB", 37, 85467800000),
  ("SR", 38, 87620000000),
  ("Y", 39, 88905840000),
  ("ZR", 40, 91224000000),
  ("NB", 41, 92906370000),
  ("MO", 42, 95950000000),
  ("TC", 43, 97907210000),
  ("RU", 44, 101070000000),
  ("RH", 45, 102905500000),
  ("PD", 46, 106420000000),
  ("AG", 47, 107868200000),
  ("CD", 48, 112414000000),
  ("IN", 49, 114818000000),
  ("SN", 50, 118710000000),
  ("SB", 51, 121760000000),
  ("TE", 52, 127600000000),
  ("I", 53, 126904470000),
  ("XE", 54, 131293000000),
  ("CS", 55, 132905451960),
  ("BA", 56, 137327000000),
  ("LA", 57, 138905470000),
  ("CE", 58, 140116000000),
  ("PR", 59, 140907660000),
  ("ND", 60, 144242000000),
  ("PM", 61, 144912760000),
  ("SM", 62, 150360000000),
  ("EU", 63, 151964000000),
  ("GD", 64, 157250000000),
  ("TB", 65, 158925350000),
  ("DY", 66, 162500000000),
  ("HO", 67, 164930330000),
  ("ER", 68, 167259000000),
  ("TM", 69, 168934220000),
  ("YB", 70, 173045000000),
  ("LU", 71, 174966800000),
  ("HF", 72, 178490000000),
  ("TA", 73, 180947880000),
  ("W", 74, 183840000000),
  ("RE", 75, 186207000000),
  ("OS", 76, 190230000000),
  ("IR", 77, 192217000000),
  ("PT", 78, 195084000000),
  ("AU", 79, 196966569000),
  ("HG", 80, 200592000000),
  ("TL", 81, 204380000000),
  ("PB", 82, 207200000000),
  ("BI", 83, 208980400000),
  ("PO", 84, 209000000000),
  ("AT", 85, 210000000000),
  ("RN", 86, 222000000000),
  ("FR", 87, 223000000000),
  ("RA", 88, 226000000000),
  ("AC", 89, 227000000000),
  ("TH", 90, 232037700000),
  ("PA", 91, 231035880000),
  ("U", 92, 238028910000),
  ("NP", 93, 237000000000),
  ("PU", 94, 244000000000),
  ("AM", 95, 243000000000),
  ("CM", 96, 247000000000),
  ("BK", 97, 247000000000),
  ("CF", 98, 251000000000),
  ("ES", 99, 252000000000),
  ("FM", 100, 257000000000),
  ("MD", 101, 258000000000),
  ("NO", 102, 259000000000),
  ("LR", 103, 262000000000),
  ("RF", 104, 267000000000),
  ("DB", 105, 268000000000),
  ("SG", 106, 271000000000),
  ("BH", 107, 274000000000),
  ("HS", 108, 269000000000),
  ("MT", 109, 276000000000),
  ("DS", 110, 281000000000),
  ("RG", 111, 281000000000),
  ("CN", 112, 285000000000),
  ("NH", 113, 286000000000),
  ("FL", 114, 289000000000),
  ("MC", 115, 288000000000),
  ("LV", 116, 293000000000),
  ("TS", 117, 294000000000),
  ("OG", 118, 294000000000)]

inductive WType | atomicWeight | atomicNumber
deriving DecidableEq, Repr

/-- `Elements.__getitem__`: exact (case-sensitive) key, `_default` (all zeros) otherwise -/
def lookup (sym : String) : Option (Nat × Nat) :=
  (elementTable.find? (fun e => e.1 == sym)).map (·.2)

/-- `_get_atom_weights` for one atom; unknown symbols weigh 0 -/
def weightOf (wt : WType) (sym : String) : Int :=
  match lookup sym with
  | none => 0
  | some (z, w) => match wt with
    | .atomicWeight => (w : Int)
    | .atomicNumber => (z : Int)

/-- `numpy.rint` on an exact value: nearest integer, ties to the even neighbour -/
def rint (q : Rat) : Int :=
  let f := q.floor
  let d := q - (f : Rat)
  if d < 1/2 then f else if 1/2 < d then f + 1 else if f % 2 = 0 then f else f + 1

/-- `q` sits exactly between two integers -/
def isTie (q : Rat) : Bool := q - (q.floor : Rat) == 1/2

structure Atom where
  xyz : List Rat
  elem : String
  chain : String

def zip3 {α β γ δ : Type} (f : α → β → γ → δ) : List α → List β → List γ → List δ
  | a :: as, b :: bs, c :: cs => f a b c :: zip3 f as bs cs
  | _, _, _ => []

/-- one axis of `np.rint((coordinates - origin) / sampling_rate)` -/
def axisIdx (c o r : Rat) : Int := rint ((c - o) / r)

/-- voxel index of a coordinate given in z,y,x order -/
def idxOf (origin rate : List Rat) (czyx : List Rat) : List Int := zip3 axisIdx czyx origin rate

def minL : List Int → Int
  | [] => 0
  | x :: xs => xs.foldl min x

def maxL : List Int → Int
  | [] => 0
  | x :: xs => xs.foldl max x

def qmin (a b : Rat) : Rat := if a ≤ b then a else b

def minQ : List Rat → Rat
  | [] => 0
  | x :: xs => xs.foldl qmin x

/-- column `k` of a list of rows -/
def col {α : Type} (d : α) (k : Nat) (rows : List (List α)) : List α := rows.map (fun r => r.getD k d)

def subPos (p shift : List Int) : List Int := List.zipWith (· - ·) p shift

/-- everything `_coordinate_to_position` settles before filtering -/
structure Frame where
  origin0 : List Rat    -- origin used inside `rint`
  shift : List Int      -- `left_shift` (zeros unless the origin is given and the shape derived)
  shape : List Int
  origin : List Rat     -- returned origin

/-- position (after the left shift) of one z,y,x coordinate -/
def posOf (rate : List Rat) (fr : Frame) (czyx : List Rat) : List Int :=
  subPos (idxOf fr.origin0 rate czyx) fr.shift

/-- `coords` are already in z,y,x order -/
def frame (nd : Nat) (coords : List (List Rat)) (shape : Option (List Int)) (rate : List Rat)
    (origin : Option (List Rat)) : Frame :=
  let origin0 := match origin with
    | some o => o
    | none => (List.range nd).map (fun k => minQ (col 0 k coords))
  let pos0 := coords.map (idxOf origin0 rate)
  let adjust := origin.isSome && shape.isNone
  let shift := if adjust then (List.range nd).map (fun k => minL (col 0 k pos0)) else List.replicate nd 0
  let pos := pos0.map (fun p => subPos p shift)
  let shape1 := match shape with
    | some s => s
    | none => (List.range nd).map (fun k => maxL (col 0 k pos) + 1)
  let origin1 := if adjust then zip3 (fun (o : Rat) (l : Int) (r : Rat) => o + (l : Rat) * r) origin0 shift rate else origin0
  ⟨origin0, shift, shape1, origin1⟩

/-- `np.logical_and(positions < shape, positions >= 0)` on every axis -/
def inBox : List Int → List Int → Bool
  | [], [] => true
  | s :: ss, x :: xs => (decide (0 ≤ x) && decide (x < s)) && inBox ss xs
  | _, _ => false

/-- `Structure.subset_by_chain` (`chain.split(",")`, `np.in1d`) -/
def subsetByChain (chain : Option String) (atoms : List Atom) : List Atom :=
  match chain with
  | none => atoms
  | some c => atoms.filter (fun a => (c.splitOn ",").contains a.chain)

/-- head of `to_volume`: `None` → ones, size 1 → repeated, size `nd` → as is, else ValueError -/
def resolveRate (nd : Nat) : Option (List Rat) → Option (List Rat)
  | none => some (List.replicate nd 1)
  | some [x] => some (List.replicate nd x)
  | some l => if l.length = nd then some l else none

def zeros (shape : List Nat) : Arr Int := ⟨shape, Array.replicate (prodL shape) 0⟩

/-- one step of `np.add.at` -/
def addAt (g : Arr Int) (idx : List Nat) (w : Int) : Arr Int :=
  if inShape g.shape idx then
    let k := flatIdx g.shape idx
    ⟨g.shape, g.data.setIfInBounds k (g.data.getD k 0 + w)⟩
  else g

/-- `np.add.at(volume, positions, weights)`: accumulating, duplicates add up -/
def deposit (shape : List Nat) (ps : List (List Nat × Int)) : Arr Int :=
  ps.foldl (fun g pw => addAt g pw.1 pw.2) (zeros shape)

def toNats (p : List Int) : List Nat := p.map Int.toNat

structure Out where
  shape : List Int
  origin : List Rat
  rate : List Rat
  outside : Nat
  kept : List (List Int × Int)   -- (position, weight) of the atoms inside, in input order
  grid : Arr Int

/-- atoms (after the chain subset) with their positions and weights -/
def placed (rate : List Rat) (fr : Frame) (wt : WType) (atoms : List Atom) : List (List Int × Int) :=
  atoms.map (fun a => (posOf rate fr a.xyz.reverse, weightOf wt a.elem))

/-- `to_volume` after the rate is normalised and the chain subset taken: frame, bounds filter, deposit -/
def toVolumeCore (nd : Nat) (sub : List Atom) (shape : Option (List Int)) (r : List Rat)
    (origin : Option (List Rat)) (wt : WType) : Out :=
  let fr := frame nd (sub.map (fun a => a.xyz.reverse)) shape r origin
  let all := placed r fr wt sub
  let kept := all.filter (fun pw => inBox fr.shape pw.1)
  let g := deposit (toNats fr.shape) (kept.map (fun pw => (toNats pw.1, pw.2)))
  ⟨fr.shape, fr.origin, r, sub.length - kept.length, kept, g⟩

/-- `Structure.to_volume` for `weight_type ∈ {atomic_weight, atomic_number}` -/
def toVolume (nd : Nat) (atoms : List Atom) (shape : Option (List Int)) (rate : Option (List Rat))
    (origin : Option (List Rat)) (chain : Option String) (wt : WType) : Except String Out :=
  match resolveRate nd rate with
  | none => .error "BadRate"
  | some r =>
    let sub := subsetByChain chain atoms
    -- an empty subset raises inside `coordinates.min` / `positions.max` (zero-size reduction) unless both the
    -- origin and the shape are given, in which case an all-zero grid comes back
    if sub.isEmpty && !(origin.isSome && shape.isSome) then .error "Empty"
    else .ok (toVolumeCore nd sub shape r origin wt)

/-- every axis: the quotient is not exactly a half-integer, or the shift is even -/
def tieFree : List Rat → List Rat → List Int → List Rat → Bool
  | c :: cs, o :: os, l :: ls, r :: rs => (!isTie ((c - o) / r) || l % 2 == 0) && tieFree cs os ls rs
  | _, _, _, _ => true

/-! ## the statement of the property, as a function (used by the harness on the *real* outputs) -/

/-- summed weight of the atoms whose voxel (w.r.t. the given origin / rate, half-even rounding of the
z,y,x coordinate) is `v` -/
def specVoxel (origin rate : List Rat) (atoms : List (List Rat × Int)) (v : List Int) : Int :=
  ((atoms.filter (fun a => idxOf origin rate a.1.reverse == v)).map (·.2)).sum

/-- atoms whose voxel lies outside `shape` -/
def specOutside (origin rate : List Rat) (shape : List Int) (atoms : List (List Rat × Int)) : Nat :=
  (atoms.filter (fun a => !inBox shape (idxOf origin rate a.1.reverse))).length

/-- summed weight of the atoms whose voxel lies inside `shape` -/
def specTotal (origin rate : List Rat) (shape : List Int) (atoms : List (List Rat × Int)) : Int :=
  ((atoms.filter (fun a => inBox shape (idxOf origin rate a.1.reverse))).map (·.2)).sum

end Pm.C10
