import PytmeModel.Model.Common
/-!
C12 — Fourier filters: shapes, symmetry, bounds, statelessness, composition.

Mirrors (tme/preprocessing): `_utils.fftfreqn` (centre `n//2`, norm `int(n*sampling_rate)`, the
`shape_is_real_fourier` last axis `0..h-1` over `h-1`), `_utils.shift_fourier` (roll by `n//2 + n%2`,
last axis not rolled for a half-spectrum shape), `_utils.crop_real_fourier` (`[..., : n//2+1]`),
`_utils.compute_fourier_shape`, `BandPassFilter.discrete_bandpass / gaussian_bandpass`,
`LinearWhiteningFilter._interpolate_spectrum` (+ the `ifftshift` of the leading axes),
`WedgeReconstructed.continuous_wedge` + the frequency cut-off mask of `WedgeReconstructed.__call__`,
the argument merging of every filter's `__call__` (`vars(self).copy(); update(kwargs)`; the
pre-fix `BandPassFilter` variant `vars(self).update(kwargs)` is kept as `callLeaky`), and the loop
of `Compose.__call__`.

Voxel values are computed over an explicit record of scalar operations `Ops α`, so that the same
definitions run on `Float` (driver: compared with the real arrays) and are reasoned about for every
`α` (theorems need only the sign laws of `SignLaws`, which IEEE floats and fields both satisfy).
-/
namespace Pm.C12

/-! ## scalar operations -/

structure Ops (α : Type) where
  zero : α
  one : α
  ofNat : Nat → α
  ofInt : Int → α
  add : α → α → α
  sub : α → α → α
  mul : α → α → α
  div : α → α → α
  neg : α → α
  sqrt : α → α
  exp : α → α
  le : α → α → Bool
  /-- `floor` of a non-negative value (anything for negative ones) -/
  floorNat : α → Nat
  /-- `np.finfo(np.float32).eps` -/
  eps : α
  /-- `sqrt(2 * log 2)` -/
  gnorm : α

def floatOps : Ops Float where
  zero := 0.0
  one := 1.0
  ofNat := Float.ofNat
  ofInt := Float.ofInt
  add := (· + ·)
  sub := (· - ·)
  mul := (· * ·)
  div := (· / ·)
  neg := fun x => -x
  sqrt := Float.sqrt
  exp := Float.exp
  le := fun a b => decide (a ≤ b)
  floorNat := fun x => (Float.floor x).toUInt64.toNat
  eps := Float.ofScientific 11920928955078125 true 23   -- 2^-23
  gnorm := Float.sqrt (2.0 * Float.log 2.0)

/-- exact instance used for the non-vacuity examples (kernel-evaluable).  `sqrt` is the identity
on `{0, 1}` only and `exp x = 1/(1-x)` is a stand-in with `exp 0 = 1`, `0 < exp x ≤ 1` for `x ≤ 0`;
no theorem depends on them being the real functions. -/
def ratOps : Ops Rat where
  zero := 0
  one := 1
  ofNat := fun n => (n : Rat)
  ofInt := fun n => (n : Rat)
  add := (· + ·)
  sub := (· - ·)
  mul := (· * ·)
  div := (· / ·)
  neg := fun x => -x
  sqrt := fun x => x
  exp := fun x => 1 / (1 - x)
  le := fun a b => decide (a ≤ b)
  floorNat := fun x => x.floor.toNat
  eps := 1 / 8388608
  gnorm := 1

/-! ## per-axis index arithmetic -/

/-- `fftfreqn`: `center = astype(divide(shape, 2), int)` -/
def center (n : Nat) : Nat := n / 2

/-- `shift_fourier`: `shift = shape/2 + shape%2` (`= ⌈n/2⌉`, i.e. `ifftshift`) -/
def shiftAmt (n : Nat) : Nat := n / 2 + n % 2

/-- position of the centred array that lands at `j` after `np.roll(·, shiftAmt n)` -/
def shiftSrc (n j : Nat) : Nat := rollSrc n (shiftAmt n) j

/-- signed frequency index stored at position `j` of a DC-first axis of length `n`
(`np.fft.fftfreq(n) * n`, with the Nyquist term of an even axis negative) -/
def freqIndex (n j : Nat) : Int := (((j + n / 2) % n : Nat) : Int) - ((n / 2 : Nat) : Int)

/-- position holding the negated frequency: `(-j) mod n` -/
def negPos (n j : Nat) : Nat := (n - j) % n

/-- `crop_real_fourier`: `stop = 1 + n // 2` -/
def halfLen (n : Nat) : Nat := n / 2 + 1

/-- shape with the last axis replaced by its half-spectrum length -/
def cropShape : List Nat → List Nat
  | [] => []
  | n :: ns => (if ns.isEmpty then halfLen n else n) :: cropShape ns

/-- `compute_fourier_shape` -/
def fourierShape (shape : List Nat) (shapeIsRealFourier : Bool) : List Nat :=
  if shapeIsRealFourier then shape else cropShape shape

/-- one axis of a frequency grid -/
structure Ax where
  /-- extent of the axis in the array being produced -/
  n : Nat
  /-- last axis of a half-spectrum shape: grid `0..n-1`, not shifted -/
  rf : Bool
  /-- divisor of the grid (`int(n * sampling_rate)`, resp. `(n-1)*2*sampling_rate`) -/
  norm : Nat
deriving Repr, DecidableEq

/-- centred integer grid value at array position `i` (before the shift) -/
def Ax.k (a : Ax) (i : Nat) : Int := if a.rf then (i : Int) else (i : Int) - (center a.n : Int)

/-- source position of the roll along this axis -/
def Ax.src (a : Ax) (j : Nat) : Nat := if a.rf then j else shiftSrc a.n j

/-- axes of `fftfreqn(shape, sampling_rate = 1/2, shape_is_real_fourier = rf)` -/
def axesHalf : List Nat → Bool → List Ax
  | [], _ => []
  | n :: ns, rf => (if ns.isEmpty && rf then ⟨n, true, n - 1⟩ else ⟨n, false, n / 2⟩) :: axesHalf ns rf

/-- axes of `fftfreqn(shape, sampling_rate = 1)` -/
def axesOne (shape : List Nat) : List Ax := shape.map (fun n => ⟨n, false, n⟩)

def srcIdx (axs : List Ax) (idx : List Nat) : List Nat := List.zipWith Ax.src axs idx

/-! ## radial grid -/

section
variable {α : Type} (o : Ops α)

/-- `square((arange(n) - center) / norm)` at position `i` -/
def term (a : Ax) (i : Nat) : α :=
  let g := o.div (o.ofInt (a.k i)) (o.ofNat a.norm)
  o.mul g g

/-- `sum(square(x) for x in grids)` (python `sum` starts from `0`) -/
def radial2 (axs : List Ax) (idx : List Nat) : α :=
  (List.zipWith (term o) axs idx).foldl o.add o.zero

/-- `fftfreqn(..., compute_euclidean_norm=True)` -/
def radial (axs : List Ax) (idx : List Nat) : α := o.sqrt (radial2 o axs idx)

/-! ## array plumbing -/

/-- `shift_fourier` -/
def shiftFourier (a : Arr α) (axs : List Ax) (d : α) : Arr α :=
  Arr.ofFn a.shape (fun idx => a.getD (srcIdx axs idx) d)

/-- `crop_real_fourier` -/
def cropRealFourier (a : Arr α) (d : α) : Arr α :=
  Arr.ofFn (cropShape a.shape) (fun idx => a.getD idx d)

/-- a mask that is a function `val` of the radial frequency: centred grid → shift → optional crop.
`sirf` = `shape_is_real_fourier`, `rrf` = `return_real_fourier` (forced off when `sirf`). -/
def radialMask (shape : List Nat) (sirf rrf : Bool) (val : α → α) : Arr α :=
  let axs := axesHalf shape sirf
  let m := Arr.ofFn shape (fun idx => val (radial o axs idx))
  let m := shiftFourier m axs o.zero
  if rrf && !sirf then cropRealFourier m o.zero else m

/-! ## band-pass -/

def maxL (l : List α) (d : α) : α :=
  match l with
  | [] => d
  | x :: xs => xs.foldl (fun m y => if o.le m y then y else m) x

/-- `be.max(2 * sampling_rate / cutoff)` -/
def cutOf (srs : List α) (c : α) : α :=
  maxL o (srs.map (fun s => o.div (o.mul (o.ofNat 2) s) c)) o.zero

/-- `((grid <= highcut) & (grid >= lowcut)) * 1.0`; `highcut = grid.max()` / `lowcut = 0` when the
cut-off is absent (always satisfied) -/
def discreteVal (hi lo : Option α) (r : α) : α :=
  if (match hi with | none => true | some h => o.le r h) &&
     (match lo with | none => true | some l => o.le l r) then o.one else o.zero

def omax (a b : α) : α := if o.le a b then b else a

/-- `2 * square(upper / (max(c, eps) * norm))` -/
def gaussDen (upper c : α) : α :=
  let c := omax o c o.eps
  let s := o.div upper (o.mul c o.gnorm)
  o.mul (o.ofNat 2) (o.mul s s)

def gaussVal (lp hp : Option α) (upper : α) (r : α) : α :=
  let g := o.neg (o.mul r r)
  let lpf := match lp with
    | none => o.one
    | some l => o.exp (o.div g (gaussDen o upper l))
  let hpf := match hp with
    | none => o.one
    | some h => o.sub o.one (o.exp (o.div g (gaussDen o upper h)))
  o.mul lpf hpf

structure BPArgs (α : Type) where
  shape : List Nat
  lowpass : Option α
  highpass : Option α
  srs : List α
  gaussian : Bool
  rrf : Bool
  sirf : Bool

def bandpassVal (a : BPArgs α) : α → α :=
  if a.gaussian then
    gaussVal o a.lowpass a.highpass (maxL o (a.srs.map (fun s => o.mul (o.ofNat 2) s)) o.zero)
  else
    discreteVal o (a.lowpass.map (cutOf o a.srs)) (a.highpass.map (cutOf o a.srs))

/-- `BandPassFilter.discrete_bandpass` / `gaussian_bandpass` -/
def bandpass (a : BPArgs α) : Arr α := radialMask o a.shape a.sirf a.rrf (bandpassVal o a)

/-! ## whitening: interpolation of a radial spectrum -/

/-- `map_coordinates(spectrum, c, order=1)` (`mode="constant"`, `cval=0`: no interpolation beyond
the last sample) for `c ≥ 0` -/
def interp1 (spec : Array α) (c : α) : α :=
  if o.le c (o.ofNat (spec.size - 1)) then
    let i := o.floorNat c
    let t := o.sub c (o.ofNat i)
    let v0 := spec.getD i o.zero
    let v1 := spec.getD (i + 1) o.zero
    o.add (o.mul (o.sub o.one t) v0) (o.mul t v1)
  else o.zero

/-- `LinearWhiteningFilter.__call__` for `order` not `None`, given the radial averages:
the filter lives on the half-spectrum shape, only the leading axes are un-shifted. -/
def whiten (spec : Array α) (shape : List Nat) (sirf : Bool) : Arr α :=
  radialMask o (fourierShape shape sirf) true false
    (fun r => interp1 o spec (o.mul r (o.ofNat (spec.size - 1))))

/-! ### which axes of the whitening mask are un-shifted when `data_rfft` carries a batch axis

`nd` is the rank of `data_rfft`, `batch` its batch axis (if any).  The mask never has a batch axis
(`bins` is built from the shape without it), so its rank is `nd` or `nd - 1`. -/

/-- rank of the whitening mask -/
def maskRank (nd : Nat) (batch : Option Nat) : Nat :=
  match batch with
  | none => nd
  | some _ => nd - 1

/-- `axes=tuple(range(filter_mask.ndim - 1))`: the repaired code -/
def whitenShiftAxes (nd : Nat) (batch : Option Nat) : List Nat := List.range (maskRank nd batch - 1)

/-- `axes=tuple(i for i in range(data_rfft.ndim - 1) if i != batch_dimension)`: the code before the repair
(axes of the batched input, applied to the mask) -/
def whitenShiftAxesOld (nd : Nat) (batch : Option Nat) : List Nat :=
  (List.range (nd - 1)).filter (fun i => decide (some i ≠ batch))

/-! ## continuous wedge -/

/-- `start <= ratio  or  stop >= ratio`, `ratio = big` where the opening-axis index is 0 -/
def wedgeVal (start stop big : α) (kt ko : Int) : Bool :=
  let ratio := if ko = 0 then big else o.div (o.ofInt kt) (o.ofInt ko)
  o.le start ratio || o.le ratio stop

structure WArgs (α : Type) where
  shape : List Nat
  start : α
  stop : α
  big : α
  opening : Nat
  tilt : Nat
  cutoff : Option α
  rrf : Bool

/-- centred value: `(wedge * (freq <= cutoff)) > 0` -/
def wedgeCentred (a : WArgs α) (idx : List Nat) : α :=
  let axs := axesOne a.shape
  let kt := (axs.getD a.tilt ⟨1, false, 1⟩).k (idx.getD a.tilt 0)
  let ko := (axs.getD a.opening ⟨1, false, 1⟩).k (idx.getD a.opening 0)
  let inside := match a.cutoff with
    | none => true
    | some c => o.le (radial o axs idx) c
  if wedgeVal o a.start a.stop a.big kt ko && inside then o.one else o.zero

/-- `WedgeReconstructed.__call__` with `create_continuous_wedge=True` -/
def contWedge (a : WArgs α) : Arr α :=
  let axs := axesOne a.shape
  let m := Arr.ofFn a.shape (wedgeCentred o a)
  let m := shiftFourier m axs o.zero
  if a.rrf then cropRealFourier m o.zero else m

end

/-! ## index negation -/

/-- negate the frequency on the axes flagged `true` -/
def negIdx : List Bool → List Nat → List Nat → List Nat
  | f :: fs, n :: ns, j :: js => (if f then negPos n j else j) :: negIdx fs ns js
  | _, _, _ => []

/-- which axes may be negated: never the (one-sided) last axis of a half-spectrum shape -/
def flagsOk : List Ax → List Bool → Bool
  | [], [] => true
  | a :: as, f :: fs => !(a.rf && f) && flagsOk as fs
  | _, _ => false

/-! ## call-time argument merging (statelessness) -/

abbrev Kw := List (String × String)

def kwLookup (k : String) : Kw → Option String
  | [] => none
  | (k', v) :: r => if k' = k then some v else kwLookup k r

/-- `dict.__setitem__`: replace in place, or append -/
def kwSet (k v : String) : Kw → Kw
  | [] => [(k, v)]
  | (k', v') :: r => if k' = k then (k', v) :: r else (k', v') :: kwSet k v r

/-- `dict.update` -/
def kwUpdate (base : Kw) : Kw → Kw
  | [] => base
  | (k, v) :: r => kwUpdate (kwSet k v base) r

/-- `func_args = vars(self).copy(); func_args.update(kwargs)` → (object state afterwards, effective arguments) -/
def callCopy (cfg kw : Kw) : Kw × Kw := (cfg, kwUpdate cfg kw)

/-- pre-fix `BandPassFilter.__call__`: `func_args = vars(self); func_args.update(kwargs)` -/
def callLeaky (cfg kw : Kw) : Kw × Kw := (kwUpdate cfg kw, kwUpdate cfg kw)

/-- a history of calls on one object: final state and the effective arguments of every call -/
def runCalls (call : Kw → Kw → Kw × Kw) : Kw → List Kw → Kw × List Kw
  | cfg, [] => (cfg, [])
  | cfg, kw :: rest =>
      let (cfg', eff) := call cfg kw
      let (fin, effs) := runCalls call cfg' rest
      (fin, eff :: effs)

/-! ## composition -/

/-- what a transform returns: optional `data`, the multiplicative flag, other metadata -/
structure Ret (α : Type) where
  data : Option (List α)
  mult : Bool
  info : Kw

/-- a transform sees the keyword arguments and the `data` keyword (which `Compose` overwrites with
the running product) -/
abbrev Transform (α : Type) := Kw → Option (List α) → Ret α

/-- loop body state of `Compose.__call__`: (kwargs, data kwarg, meta) -/
def composeLoop {α : Type} (mul : α → α → α) :
    List (Transform α) → Kw → Option (List α) → Ret α → Ret α
  | [], _, _, m => m
  | t :: ts, kw, dkw, m =>
      -- kwargs.update(meta)
      let kw := kwUpdate kw m.info
      let dkw := match m.data with | some d => some d | none => dkw
      let ret := t kw dkw
      match ret.data with
      | none => composeLoop mul ts kw dkw m
      | some rd =>
          if ret.mult then
            match m.data with
            | some pd => composeLoop mul ts kw dkw { ret with data := some (List.zipWith mul rd pd) }
            | none => composeLoop mul ts kw dkw ret   -- `meta.pop("data")` would raise; not reached for filters
          else composeLoop mul ts kw dkw ret

def compose {α : Type} (mul : α → α → α) (ts : List (Transform α)) (kw : Kw) (dkw : Option (List α)) :
    Option (Ret α) :=
  match ts with
  | [] => none
  | t :: rest => some (composeLoop mul rest kw dkw (t kw dkw))

end Pm.C12
