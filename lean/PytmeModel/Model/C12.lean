import PytmeModel.Model.Common
/-!
C12 — Fourier filters: shapes, symmetry, bounds, statelessness, composition.

Mirrors (tme/preprocessing): `_utils.fftfreqn` (centre `n//2`, norm `int(n*sampling_rate)`, the
`shape_is_real_fourier` last axis `0..h-1` over `h-1`), `_utils.shift_fourier` (roll by `n//2 + n%2`,
last axis not rolled for a half-spectrum shape), `_utils.crop_real_fourier` (`[..., : n//2+1]`),
`_utils.compute_fourier_shape`, `BandPassFilter.discrete_bandpass / gaussian_bandpass`,
`LinearWhiteningFilter._interpolate_spectrum` (+ the `ifftshift` of the leading axes),
`WedgeReconstructed.continuous_wedge` + the frequency cut-off mask of `WedgeReconstructed.__call__`,
the argument merging of every filter's `__call__` (`vars(self).copy(); update(kwargs)`; the
pre-fix `BandPassFilter` variant `vars(self).update(kwargs)` is kept as `callLeaky`), and the loop
of `Compose.__call__`.

Second part: the radial bins of `LinearWhiteningFilter._compute_spectrum` (`max_bins`, `n_bins`, the label
`floor(r*(n_bins-1)+0.5)` of every voxel) and the `order=None` mask; the plane bookkeeping of
`WedgeReconstructed.step_wedge` (padded plane shape, `centered` crop, `fmin` clip, `moveaxis`/`reshape`/`tile`) and
the tail of `WedgeReconstructed.__call__` common to both wedge kinds (cut-off, threshold unless `weight_wedge`,
shift, crop); the tilt-series `Wedge` (`weight_type` dispatch, stack shape, planes of untilted images for
`weight_angle` / `weight_relion` / `weight_grigorieff`); the layout logic of `CTF.__call__` / `CTF.weight` and the
non-astigmatic CTF as a function of the radial grid; the legacy `tme.preprocessor.Preprocessor` mask constructors;
the keys every filter class hands back to `Compose`.

Voxel values are computed over an explicit record of scalar operations `Ops α`, so that the same
definitions run on `Float` (driver: compared with the real arrays) and are reasoned about for every
`α` (theorems need only the sign laws of `SignLaws`, which IEEE floats and fields both satisfy).
-/
namespace Pm.C12

/-! ## scalar operations -/

structure Ops (α : Type) where
  zero : α
  one : α
  ofNat : Nat → α
  ofInt : Int → α
  add : α → α → α
  sub : α → α → α
  mul : α → α → α
  div : α → α → α
  neg : α → α
  sqrt : α → α
  exp : α → α
  /-- `np.power` -/
  pow : α → α → α
  le : α → α → Bool
  /-- strict comparison (`ret > 0` in the wedge tail; differs from `!le` on NaN only) -/
  lt : α → α → Bool
  /-- rounding to single precision (a result written into a `float32` array); the identity for exact scalars -/
  f32 : α → α
  /-- `floor` of a non-negative value (anything for negative ones) -/
  floorNat : α → Nat
  /-- `np.finfo(np.float32).eps` -/
  eps : α
  /-- `sqrt(2 * log 2)` -/
  gnorm : α

def floatOps : Ops Float where
  zero := 0.0
  one := 1.0
  ofNat := Float.ofNat
  ofInt := Float.ofInt
  add := (· + ·)
  sub := (· - ·)
  mul := (· * ·)
  div := (· / ·)
  neg := fun x => -x
  sqrt := Float.sqrt
  exp := Float.exp
  pow := Float.pow
  le := fun a b => decide (a ≤ b)
  lt := fun a b => decide (a < b)
  f32 := fun x => x.toFloat32.toFloat
  floorNat := fun x => (Float.floor x).toUInt64.toNat
  eps := Float.ofScientific 11920928955078125 true 23   -- 2^-23
  gnorm := Float.sqrt (2.0 * Float.log 2.0)

/-- exact instance used for the non-vacuity examples (kernel-evaluable).  `sqrt` is the identity
on `{0, 1}` only, `pow x p = x` and `exp x = 1/(1-x)` are stand-ins with `exp 0 = 1`, `0 < exp x ≤ 1` for `x ≤ 0`;
no theorem depends on them being the real functions. -/
def ratOps : Ops Rat where
  zero := 0
  one := 1
  ofNat := fun n => (n : Rat)
  ofInt := fun n => (n : Rat)
  add := (· + ·)
  sub := (· - ·)
  mul := (· * ·)
  div := (· / ·)
  neg := fun x => -x
  sqrt := fun x => x
  exp := fun x => 1 / (1 - x)
  pow := fun x _ => x
  le := fun a b => decide (a ≤ b)
  lt := fun a b => decide (a < b)
  f32 := fun x => x
  floorNat := fun x => x.floor.toNat
  eps := 1 / 8388608
  gnorm := 1

/-! ## per-axis index arithmetic -/

/-- `fftfreqn`: `center = astype(divide(shape, 2), int)` -/
def center (n : Nat) : Nat := n / 2

/-- `shift_fourier`: `shift = shape/2 + shape%2` (`= ⌈n/2⌉`, i.e. `ifftshift`) -/
def shiftAmt (n : Nat) : Nat := n / 2 + n % 2

/-- position of the centred array that lands at `j` after `np.roll(·, shiftAmt n)` -/
def shiftSrc (n j : Nat) : Nat := rollSrc n (shiftAmt n) j

/-- signed frequency index stored at position `j` of a DC-first axis of length `n`
(`np.fft.fftfreq(n) * n`, with the Nyquist term of an even axis negative) -/
def freqIndex (n j : Nat) : Int := (((j + n / 2) % n : Nat) : Int) - ((n / 2 : Nat) : Int)

/-- position holding the negated frequency: `(-j) mod n` -/
def negPos (n j : Nat) : Nat := (n - j) % n

/-- `crop_real_fourier`: `stop = 1 + n // 2` -/
def halfLen (n : Nat) : Nat := n / 2 + 1

/-- shape with the last axis replaced by its half-spectrum length -/
def cropShape : List Nat → List Nat
  | [] => []
  | n :: ns => (if ns.isEmpty then halfLen n else n) :: cropShape ns

/-- `compute_fourier_shape` -/
def fourierShape (shape : List Nat) (shapeIsRealFourier : Bool) : List Nat :=
  if shapeIsRealFourier then shape else cropShape shape

/-- one axis of a frequency grid -/
structure Ax where
  /-- extent of the axis in the array being produced -/
  n : Nat
  /-- last axis of a half-spectrum shape: grid `0..n-1`, not shifted -/
  rf : Bool
  /-- divisor of the grid (`int(n * sampling_rate)`, resp. `(n-1)*2*sampling_rate`) -/
  norm : Nat
deriving Repr, DecidableEq

/-- centred integer grid value at array position `i` (before the shift) -/
def Ax.k (a : Ax) (i : Nat) : Int := if a.rf then (i : Int) else (i : Int) - (center a.n : Int)

/-- source position of the roll along this axis -/
def Ax.src (a : Ax) (j : Nat) : Nat := if a.rf then j else shiftSrc a.n j

/-- axes of `fftfreqn(shape, sampling_rate = 1/2, shape_is_real_fourier = rf)` -/
def axesHalf : List Nat → Bool → List Ax
  | [], _ => []
  | n :: ns, rf => (if ns.isEmpty && rf then ⟨n, true, n - 1⟩ else ⟨n, false, n / 2⟩) :: axesHalf ns rf

/-- axes of `fftfreqn(shape, sampling_rate = 1)` -/
def axesOne (shape : List Nat) : List Ax := shape.map (fun n => ⟨n, false, n⟩)

def srcIdx (axs : List Ax) (idx : List Nat) : List Nat := List.zipWith Ax.src axs idx

/-! ## radial grid -/

section
variable {α : Type} (o : Ops α)

/-- `square((arange(n) - center) / norm)` at position `i` -/
def term (a : Ax) (i : Nat) : α :=
  let g := o.div (o.ofInt (a.k i)) (o.ofNat a.norm)
  o.mul g g

/-- `sum(square(x) for x in grids)` (python `sum` starts from `0`) -/
def radial2 (axs : List Ax) (idx : List Nat) : α :=
  (List.zipWith (term o) axs idx).foldl o.add o.zero

/-- `fftfreqn(..., compute_euclidean_norm=True)` -/
def radial (axs : List Ax) (idx : List Nat) : α := o.sqrt (radial2 o axs idx)

/-! ## array plumbing -/

/-- `shift_fourier` -/
def shiftFourier (a : Arr α) (axs : List Ax) (d : α) : Arr α :=
  Arr.ofFn a.shape (fun idx => a.getD (srcIdx axs idx) d)

/-- `crop_real_fourier` -/
def cropRealFourier (a : Arr α) (d : α) : Arr α :=
  Arr.ofFn (cropShape a.shape) (fun idx => a.getD idx d)

/-- a mask that is a function `val` of the radial frequency: centred grid → shift → optional crop.
`sirf` = `shape_is_real_fourier`, `rrf` = `return_real_fourier` (forced off when `sirf`). -/
def radialMask (shape : List Nat) (sirf rrf : Bool) (val : α → α) : Arr α :=
  let axs := axesHalf shape sirf
  let m := Arr.ofFn shape (fun idx => val (radial o axs idx))
  let m := shiftFourier m axs o.zero
  if rrf && !sirf then cropRealFourier m o.zero else m

/-! ## band-pass -/

def maxL (l : List α) (d : α) : α :=
  match l with
  | [] => d
  | x :: xs => xs.foldl (fun m y => if o.le m y then y else m) x

/-- `be.max(2 * sampling_rate / cutoff)` -/
def cutOf (srs : List α) (c : α) : α :=
  maxL o (srs.map (fun s => o.div (o.mul (o.ofNat 2) s) c)) o.zero

/-- `((grid <= highcut) & (grid >= lowcut)) * 1.0`; `highcut = grid.max()` / `lowcut = 0` when the
cut-off is absent (always satisfied) -/
def discreteVal (hi lo : Option α) (r : α) : α :=
  if (match hi with | none => true | some h => o.le r h) &&
     (match lo with | none => true | some l => o.le l r) then o.one else o.zero

def omax (a b : α) : α := if o.le a b then b else a

/-- `2 * square(upper / (max(c, eps) * norm))` -/
def gaussDen (upper c : α) : α :=
  let c := omax o c o.eps
  let s := o.div upper (o.mul c o.gnorm)
  o.mul (o.ofNat 2) (o.mul s s)

def gaussVal (lp hp : Option α) (upper : α) (r : α) : α :=
  let g := o.neg (o.mul r r)
  let lpf := match lp with
    | none => o.one
    | some l => o.exp (o.div g (gaussDen o upper l))
  let hpf := match hp with
    | none => o.one
    | some h => o.sub o.one (o.exp (o.div g (gaussDen o upper h)))
  o.mul lpf hpf

structure BPArgs (α : Type) where
  shape : List Nat
  lowpass : Option α
  highpass : Option α
  srs : List α
  gaussian : Bool
  rrf : Bool
  sirf : Bool

def bandpassVal (a : BPArgs α) : α → α :=
  if a.gaussian then
    gaussVal o a.lowpass a.highpass (maxL o (a.srs.map (fun s => o.mul (o.ofNat 2) s)) o.zero)
  else
    discreteVal o (a.lowpass.map (cutOf o a.srs)) (a.highpass.map (cutOf o a.srs))

/-- `BandPassFilter.discrete_bandpass` / `gaussian_bandpass` -/
def bandpass (a : BPArgs α) : Arr α := radialMask o a.shape a.sirf a.rrf (bandpassVal o a)

/-! ## whitening: interpolation of a radial spectrum -/

/-- `map_coordinates(spectrum, c, order=1)` (`mode="constant"`, `cval=0`: no interpolation beyond
the last sample) for `c ≥ 0` -/
def interp1 (spec : Array α) (c : α) : α :=
  if o.le c (o.ofNat (spec.size - 1)) then
    let i := o.floorNat c
    let t := o.sub c (o.ofNat i)
    let v0 := spec.getD i o.zero
    let v1 := spec.getD (i + 1) o.zero
    o.add (o.mul (o.sub o.one t) v0) (o.mul t v1)
  else o.zero

/-- `LinearWhiteningFilter.__call__` for `order` not `None`, given the radial averages:
the filter lives on the half-spectrum shape, only the leading axes are un-shifted. -/
def whiten (spec : Array α) (shape : List Nat) (sirf : Bool) : Arr α :=
  radialMask o (fourierShape shape sirf) true false
    (fun r => interp1 o spec (o.mul r (o.ofNat (spec.size - 1))))

/-! ### which axes of the whitening mask are un-shifted when `data_rfft` carries a batch axis

`nd` is the rank of `data_rfft`, `batch` its batch axis (if any).  The mask never has a batch axis
(`bins` is built from the shape without it), so its rank is `nd` or `nd - 1`. -/

/-- rank of the whitening mask -/
def maskRank (nd : Nat) (batch : Option Nat) : Nat :=
  match batch with
  | none => nd
  | some _ => nd - 1

/-- `axes=tuple(range(filter_mask.ndim - 1))`: the repaired code -/
def whitenShiftAxes (nd : Nat) (batch : Option Nat) : List Nat := List.range (maskRank nd batch - 1)

/-- `axes=tuple(i for i in range(data_rfft.ndim - 1) if i != batch_dimension)`: the code before the repair
(axes of the batched input, applied to the mask) -/
def whitenShiftAxesOld (nd : Nat) (batch : Option Nat) : List Nat :=
  (List.range (nd - 1)).filter (fun i => decide (some i ≠ batch))

/-! ## continuous wedge -/

/-- `start <= ratio  or  stop >= ratio`, `ratio = big` where the opening-axis index is 0 -/
def wedgeVal (start stop big : α) (kt ko : Int) : Bool :=
  let ratio := if ko = 0 then big else o.div (o.ofInt kt) (o.ofInt ko)
  o.le start ratio || o.le ratio stop

structure WArgs (α : Type) where
  shape : List Nat
  start : α
  stop : α
  big : α
  opening : Nat
  tilt : Nat
  cutoff : Option α
  rrf : Bool

/-- centred value: `(wedge * (freq <= cutoff)) > 0` -/
def wedgeCentred (a : WArgs α) (idx : List Nat) : α :=
  let axs := axesOne a.shape
  let kt := (axs.getD a.tilt ⟨1, false, 1⟩).k (idx.getD a.tilt 0)
  let ko := (axs.getD a.opening ⟨1, false, 1⟩).k (idx.getD a.opening 0)
  let inside := match a.cutoff with
    | none => true
    | some c => o.le (radial o axs idx) c
  if wedgeVal o a.start a.stop a.big kt ko && inside then o.one else o.zero

/-- `WedgeReconstructed.__call__` with `create_continuous_wedge=True` -/
def contWedge (a : WArgs α) : Arr α :=
  let axs := axesOne a.shape
  let m := Arr.ofFn a.shape (wedgeCentred o a)
  let m := shiftFourier m axs o.zero
  if a.rrf then cropRealFourier m o.zero else m

/-- centred integer grid vector of the tilt-plane position `idx` (`fftfreqn(tilt_shape, sampling_rate=None)`):
the opening axis has extent 1, centre 0, coordinate 0 -/
def tiltK (tshape : List Nat) (opening : Nat) (idx : List Nat) : List Int :=
  let ks := List.zipWith (fun (n i : Nat) => (i : Int) - ((n / 2 : Nat) : Int)) tshape idx
  ks.take opening ++ (0 : Int) :: ks.drop opening

/-! ## radial masks over an arbitrary list of axes

`radialMask` above fixes the grid of `fftfreqn(sampling_rate = 1/2)`; the wedge tail, the tilt
planes of `Wedge` and the non-astigmatic `CTF` use `sampling_rate = 1` (`axesOne`). -/

/-- centred grid → `val` of the radial frequency → `shift_fourier` → optional `crop_real_fourier` -/
def radialMaskAx (shape : List Nat) (axs : List Ax) (crop : Bool) (val : α → α) : Arr α :=
  let m := Arr.ofFn shape (fun idx => val (radial o axs idx))
  let m := shiftFourier m axs o.zero
  if crop then cropRealFourier m o.zero else m

/-- a function of `fftfreqn(shape, sampling_rate=1, compute_euclidean_norm=True)`, DC first:
what `CTF.weight` returns for one tilt at angle 0 without astigmatism / defocus gradient
(`val` = the CTF as a function of the spatial frequency) -/
def radialMaskOne (shape : List Nat) (rrf : Bool) (val : α → α) : Arr α :=
  radialMaskAx o shape (axesOne shape) rrf val

/-! ## whitening: radial bins of `LinearWhiteningFilter._compute_spectrum` and the `order=None` mask -/

/-- `0.5` -/
def half : α := o.div o.one (o.ofNat 2)

/-- `np.floor(r * (n_bins - 1) + 0.5).astype(int)` -/
def binOf (nb : Nat) (r : α) : Nat := o.floorNat (o.add (o.mul r (o.ofNat (nb - 1))) (half o))

/-- label of the centred position `idx` of the half-spectrum shape (`bins[idx]`) -/
def binCentred (rfshape : List Nat) (nb : Nat) (idx : List Nat) : Nat :=
  binOf o nb (radial o (axesHalf rfshape true) idx)

/-- the label array `bins` (centred on the leading axes, like the `fftshift`-ed spectrum it labels) -/
def binsArr (rfshape : List Nat) (nb : Nat) : Arr Nat := Arr.ofFn rfshape (binCentred o rfshape nb)

/-- label of the voxel `idx` of `data_rfft` itself (DC first): `fftshift` moves it to `srcIdx idx` -/
def binOfVoxel (rfshape : List Nat) (nb : Nat) (idx : List Nat) : Nat :=
  binCentred o rfshape nb (srcIdx (axesHalf rfshape true) idx)

/-- `order=None`: `filter_mask[bins < size] = radial_averages[bins[bins < size]]`, zero elsewhere,
then `ifftshift` of the leading axes -/
def whitenNoneVal (spec : Array α) (nb : Nat) (r : α) : α :=
  let b := binOf o nb r
  if b < spec.size then spec.getD b o.zero else o.zero

def whitenNone (spec : Array α) (rfshape : List Nat) (nb : Nat) : Arr α :=
  radialMask o rfshape true false (whitenNoneVal o spec nb)

/-! ## per-tilt (step) wedge: plane bookkeeping, tiling, and the common tail of `WedgeReconstructed.__call__` -/

/-- shape of the plane that is rotated: `(shape[opening], shape[tilt] + (1 - shape[tilt] % 2))` (odd tilt extent) -/
def planeShape (shape : List Nat) (opening tilt : Nat) : List Nat :=
  [shape.getD opening 0, shape.getD tilt 0 + (1 - shape.getD tilt 0 % 2)]

/-- row of the plane set to one before every rotation: `slice(x // 2, x // 2 + 1)` on axis 0 -/
def planeRow (shape : List Nat) (opening : Nat) : Nat := shape.getD opening 0 / 2

/-- `np.fmin(x, w, out=x)` on a `float32` array `x` with a double `w`: the minimum is taken in double
precision and rounded back to single -/
def fmin (x w : α) : α := o.f32 (if o.le x w then x else w)

/-- `centered(wedge_volume, (shape[opening], shape[tilt]))` (start offsets from `_center_slice`), then
`np.fmin(·, max(weights))` -/
def cropPlane (plane : Arr α) (so st : Nat) (wmax : α) (d : α) : Arr α :=
  let s0 := (plane.shape.getD 0 0 - so) / 2
  let s1 := (plane.shape.getD 1 0 - st) / 2
  Arr.ofFn [so, st] (fun ij => fmin o (plane.getD [ij.getD 0 0 + s0, ij.getD 1 0 + s1] d) wmax)

/-- `np.moveaxis(a, 1, 0)` of a 2-D array -/
def transpose2 (a : Arr α) (d : α) : Arr α :=
  Arr.ofFn [a.shape.getD 1 0, a.shape.getD 0 0] (fun ij => a.getD [ij.getD 1 0, ij.getD 0 0] d)

/-- `moveaxis` when `opening > tilt`, `reshape` to extent 1 on the other axes, `np.tile` -/
def tilePlane (plane : Arr α) (shape : List Nat) (opening tilt : Nat) (d : α) : Arr α :=
  let p := if tilt < opening then transpose2 plane d else plane
  Arr.ofFn shape (fun idx => p.getD [idx.getD (min opening tilt) 0, idx.getD (max opening tilt) 0] d)

/-- what `step_wedge` returns, given the accumulated rotated planes (before `centered`) -/
def stepVolume (plane : Arr α) (shape : List Nat) (opening tilt : Nat) (wmax : α) : Arr α :=
  tilePlane (cropPlane o plane (shape.getD opening 0) (shape.getD tilt 0) wmax o.zero) shape opening tilt o.zero

structure WTail (α : Type) where
  shape : List Nat
  cutoff : Option α
  weightWedge : Bool
  rrf : Bool

/-- centred value after `ret *= (freq <= cutoff)` and, unless `weight_wedge`, `(ret > 0) * 1.0` -/
def tailCentred (vol : Arr α) (a : WTail α) (idx : List Nat) : α :=
  let v := vol.getD idx o.zero
  let v := match a.cutoff with
    | none => v
    | some c => o.mul v (if o.le (radial o (axesOne a.shape) idx) c then o.one else o.zero)
  if a.weightWedge then v else (if o.lt o.zero v then o.one else o.zero)

/-- tail of `WedgeReconstructed.__call__` applied to the centred volume `vol` of either wedge kind -/
def wedgeTail (vol : Arr α) (a : WTail α) : Arr α :=
  let axs := axesOne a.shape
  let m := Arr.ofFn a.shape (tailCentred o vol a)
  let m := shiftFourier m axs o.zero
  if a.rrf then cropRealFourier m o.zero else m

/-- `continuous_wedge` alone (centred, before the tail) -/
def contVolume (a : WArgs α) : Arr α :=
  Arr.ofFn a.shape (fun idx =>
    let axs := axesOne a.shape
    let kt := (axs.getD a.tilt ⟨1, false, 1⟩).k (idx.getD a.tilt 0)
    let ko := (axs.getD a.opening ⟨1, false, 1⟩).k (idx.getD a.opening 0)
    if wedgeVal o a.start a.stop a.big kt ko then o.one else o.zero)

/-! ## tilt-series `Wedge`: weight dispatch, stack shape, the `weight_angle` planes -/

/-- `compute_tilt_shape(shape, opening_axis, reduce_dim=True)` -/
def tiltShape (shape : List Nat) (opening : Nat) : List Nat := shape.eraseIdx opening

/-- plane `i` of `weight_angle` after the frequency cut-off of `Wedge.__call__`, for a tilt whose
angle is exactly 0 (`frequency_grid_at_angle` is then the plain radial grid of the tilt shape):
constant `w`, times `grid <= cutoff`; centred (the tilt stack is never shifted) -/
def tiltPlaneZero (tshape : List Nat) (w : α) (cutoff : Option α) : Arr α :=
  Arr.ofFn tshape (fun idx =>
    match cutoff with
    | none => w
    | some c => o.mul w (if o.le (radial o (axesOne tshape) idx) c then o.one else o.zero))

/-- plane of a tilt at angle 0 under any radial weighting `val`, after the cut-off of `Wedge.__call__` -/
def tiltPlaneFn (tshape : List Nat) (val : α → α) (cutoff : Option α) : Arr α :=
  Arr.ofFn tshape (fun idx =>
    let r := radial o (axesOne tshape) idx
    match cutoff with
    | none => val r
    | some c => o.mul (val r) (if o.le r c then o.one else o.zero))

/-- `weight_relion`: `exp(sigma * f²) * cos(angle)` (`sigma = -2π²·sqrt(w·4/(8π²))²`, computed by the caller) -/
def relionVal (sigma cosA : α) (f : α) : α := o.mul (o.exp (o.mul sigma (o.mul f f))) cosA

/-- `weight_grigorieff`: `exp(w / (-2 * (amplitude * f**power + offset)))` -/
def grigorieffVal (w amplitude power offset : α) (f : α) : α :=
  o.exp (o.div w (o.mul (o.neg (o.ofNat 2)) (o.add (o.mul amplitude (o.pow f power)) offset)))

/-! ### tilted images: `frequency_grid_at_angle(angle != 0)` -/

/-- one component of `einsum("ij,j...->i...", rotation_matrix, index_grid)` -/
def linForm (row : List α) (kvec : List Int) : α :=
  (List.zipWith (fun r k => o.mul r (o.ofInt k)) row kvec).foldl o.add o.zero

/-- rotate the centred integer grid vector, divide component `i` by `int(1 * shape[i])`, `np.linalg.norm(axis=0)` -/
def tiltedRadial (R : List (List α)) (shape : List Nat) (kvec : List Int) : α :=
  let w := List.zipWith (fun row n => o.div (linForm o row kvec) (o.ofNat n)) R shape
  o.sqrt ((w.map (fun x => o.mul x x)).foldl o.add o.zero)

/-- plane of a tilted image under the radial weighting `val`, after the cut-off of `Wedge.__call__`;
`R` is the (single-precision) rotation matrix `euler_to_rotationmatrix` returned -/
def tiltedPlane (R : List (List α)) (shape : List Nat) (opening : Nat) (val : α → α) (cutoff : Option α) : Arr α :=
  Arr.ofFn (tiltShape shape opening) (fun idx =>
    let r := tiltedRadial o R shape (tiltK (tiltShape shape opening) opening idx)
    match cutoff with
    | none => val r
    | some c => o.mul (val r) (if o.le r c then o.one else o.zero))

/-! ### reconstruction filters of the per-tilt wedge (`create_reconstruction_filter`) -/

/-- the radial kinds (`ram-lak`: `val = id`; `shepp-logan`, `cosine`, `hamming`: `f ↦ f * g(f)`) as `step_wedge`
uses them, `create_reconstruction_filter(plane.shape[::-1], ...).T`: entry `(i, j)` of the plane-shaped filter is
`val` of the `sampling_rate = 1/2` radial grid of the reversed shape at `(j, i)`; centred -/
def recFilterRadial (pshape : List Nat) (val : α → α) : Arr α :=
  Arr.ofFn pshape (fun ij => val (radial o (axesHalf pshape.reverse false) ij.reverse))

/-- `ramp`: `fmin(|k| / size * (min_increment * size), 1)` along the (padded) tilt extent `size = plane.shape[1]`,
tiled along the opening extent; `scale = min_increment * size` is computed by the caller -/
def recFilterRamp (pshape : List Nat) (scale : α) : Arr α :=
  Arr.ofFn pshape (fun ij =>
    let v := o.mul (radial o (axesOne [pshape.getD 1 0]) [ij.getD 1 0]) scale
    if o.le v o.one then v else o.one)

end

/-- `weight_types` of `Wedge.__call__`: the constructor called, `none` = `ValueError` -/
def wedgeWeightFunc : Option String → Option String
  | none => some "weight_angle"
  | some "angle" => some "weight_angle"
  | some "relion" => some "weight_relion"
  | some "grigorieff" => some "weight_grigorieff"
  | some _ => none

/-- `weight_type == "angle"` replaces the weights by `cos(radians(self.angles))` -/
def wedgeWeightsReplaced (wt : Option String) : Bool := wt == some "angle"

/-- shape of the stack every weighting returns: `(len(angles), *tilt_shape)` -/
def wedgeStackShape (shape : List Nat) (opening nAngles : Nat) : List Nat := nAngles :: tiltShape shape opening

/-! ## `CTF`: argument override and output layout -/

structure CtfPlan where
  /-- shape of the returned array -/
  shape : List Nat
  /-- `shift_fourier` applied (DC first) -/
  shifted : Bool
  /-- `crop_real_fourier` applied -/
  cropped : Bool
  /-- `opening_axis` in effect -/
  opening : Option Nat
deriving Repr, DecidableEq

/-- `CTF.__call__` + the layout part of `CTF.weight`: `nAngles = len(func_args["angles"])`,
`nSelfAngles = len(self.angles)`, `nDefocus = len(defocus_x)`.  When the call's angles do not match
the defoci the constructor's angles are used, the axes are dropped and the full spectrum is forced.
`np.squeeze` removes the stack axis of a single tilt (extents ≥ 2 assumed for the rest). -/
def ctfPlan (shape : List Nat) (opening : Option Nat) (nAngles nSelfAngles nDefocus : Nat) (rrf : Bool) : CtfPlan :=
  let mismatch := nAngles != nDefocus
  let n := if mismatch then nSelfAngles else nAngles
  let rrf := if mismatch then false else rrf
  let opening := if mismatch then none else opening
  let tshape := match opening with | none => shape | some oa => tiltShape shape oa
  if n = 1 then ⟨if rrf then cropShape tshape else tshape, true, rrf, opening⟩
  else ⟨n :: tshape, false, false, opening⟩

/-! ## `tme.preprocessor.Preprocessor`: how the legacy mask constructors call the filter classes -/

/-- `bandpass_mask`: `use_gaussian = (gaussian_sigma == 0.0)`, `return_real_fourier = omit_negative_frequencies` -/
def ppBandpass (sigmaIsZero omitNeg : Bool) : Bool × Bool := (sigmaIsZero, omitNeg)

/-- `step_wedge_mask` / `continuous_wedge_mask`: (frequency cut-off present (0.5), weight_wedge, return_real_fourier) -/
def ppWedge (infinitePlane hasWeights omitNeg : Bool) : Bool × Bool × Bool := (!infinitePlane, hasWeights, omitNeg)

/-! ## whitening: number of bins -/

/-- `max(max(shape[:-1]) // 2 + 1, shape[-1])` for the half-spectrum shape (rank ≥ 2) -/
def maxBins (rfshape : List Nat) : Nat :=
  max (rfshape.dropLast.foldl max 0 / 2 + 1) (rfshape.getLastD 0)

/-- `n_bins = max_bins if n_bins is None else int(min(n_bins, max_bins))` -/
def nBins (rfshape : List Nat) (req : Option Nat) : Nat :=
  match req with
  | none => maxBins rfshape
  | some n => min n (maxBins rfshape)

/-! ## index negation -/

/-- negate the frequency on the axes flagged `true` -/
def negIdx : List Bool → List Nat → List Nat → List Nat
  | f :: fs, n :: ns, j :: js => (if f then negPos n j else j) :: negIdx fs ns js
  | _, _, _ => []

/-- which axes may be negated: never the (one-sided) last axis of a half-spectrum shape -/
def flagsOk : List Ax → List Bool → Bool
  | [], [] => true
  | a :: as, f :: fs => !(a.rf && f) && flagsOk as fs
  | _, _ => false

/-- no component is the Nyquist term of an even extent -/
def offNyquist : List Nat → List Nat → Bool
  | n :: ns, i :: is => decide (2 * i ≠ n) && offNyquist ns is
  | _, _ => true

/-! ## call-time argument merging (statelessness) -/

abbrev Kw := List (String × String)

def kwLookup (k : String) : Kw → Option String
  | [] => none
  | (k', v) :: r => if k' = k then some v else kwLookup k r

/-- `dict.__setitem__`: replace in place, or append -/
def kwSet (k v : String) : Kw → Kw
  | [] => [(k, v)]
  | (k', v') :: r => if k' = k then (k', v) :: r else (k', v') :: kwSet k v r

/-- `dict.update` -/
def kwUpdate (base : Kw) : Kw → Kw
  | [] => base
  | (k, v) :: r => kwUpdate (kwSet k v base) r

/-- `func_args = vars(self).copy(); func_args.update(kwargs)` → (object state afterwards, effective arguments) -/
def callCopy (cfg kw : Kw) : Kw × Kw := (cfg, kwUpdate cfg kw)

/-- pre-fix `BandPassFilter.__call__`: `func_args = vars(self); func_args.update(kwargs)` -/
def callLeaky (cfg kw : Kw) : Kw × Kw := (kwUpdate cfg kw, kwUpdate cfg kw)

/-- a history of calls on one object: final state and the effective arguments of every call -/
def runCalls (call : Kw → Kw → Kw × Kw) : Kw → List Kw → Kw × List Kw
  | cfg, [] => (cfg, [])
  | cfg, kw :: rest =>
      let (cfg', eff) := call cfg kw
      let (fin, effs) := runCalls call cfg' rest
      (fin, eff :: effs)

/-! ## composition -/

/-- what a transform returns: optional `data`, the multiplicative flag, other metadata -/
structure Ret (α : Type) where
  data : Option (List α)
  mult : Bool
  info : Kw

/-- a transform sees the keyword arguments and the `data` keyword (which `Compose` overwrites with
the running product) -/
abbrev Transform (α : Type) := Kw → Option (List α) → Ret α

/-- loop body state of `Compose.__call__`: (kwargs, data kwarg, meta) -/
def composeLoop {α : Type} (mul : α → α → α) :
    List (Transform α) → Kw → Option (List α) → Ret α → Ret α
  | [], _, _, m => m
  | t :: ts, kw, dkw, m =>
      -- kwargs.update(meta)
      let kw := kwUpdate kw m.info
      let dkw := match m.data with | some d => some d | none => dkw
      let ret := t kw dkw
      match ret.data with
      | none => composeLoop mul ts kw dkw m
      | some rd =>
          if ret.mult then
            match m.data with
            | some pd => composeLoop mul ts kw dkw { ret with data := some (List.zipWith mul rd pd) }
            | none => composeLoop mul ts kw dkw ret   -- `meta.pop("data")` would raise; not reached for filters
          else composeLoop mul ts kw dkw ret

def compose {α : Type} (mul : α → α → α) (ts : List (Transform α)) (kw : Kw) (dkw : Option (List α)) :
    Option (Ret α) :=
  match ts with
  | [] => none
  | t :: rest => some (composeLoop mul rest kw dkw (t kw dkw))


/-! ## what every filter class hands back to `Compose` -/

inductive Cls where
  | bandpass | whitening | wedgeRec | wedge | ctf | reconstruct
deriving Repr, DecidableEq

/-- keys of the returned dict besides `data` (forwarded by `Compose` to every later filter through `kwargs.update(meta)`) -/
def emits : Cls → List String
  | .bandpass => ["sampling_rate", "is_multiplicative_filter"]
  | .whitening => ["is_multiplicative_filter"]
  | .wedgeRec => ["shape_is_real_fourier", "shape", "tilt_axis", "opening_axis", "is_multiplicative_filter", "angles"]
  | .wedge => ["angles", "tilt_axis", "opening_axis", "sampling_rate", "is_multiplicative_filter"]
  | .ctf => ["angles", "tilt_axis", "opening_axis", "is_multiplicative_filter"]
  | .reconstruct => ["shape", "shape_is_real_fourier", "angles", "tilt_axis", "opening_axis", "is_multiplicative_filter"]

/-- value of `is_multiplicative_filter` -/
def multFlag : Cls → Bool
  | .reconstruct => false
  | _ => true

/-- whether the class looks at `shape_is_real_fourier` at all -/
def readsSirf : Cls → Bool
  | .bandpass => true
  | .whitening => true
  | _ => false

def allCls : List Cls := [.bandpass, .whitening, .wedgeRec, .wedge, .ctf, .reconstruct]



/-- `upper_sampling = max(2 * sampling_rate)` of the Gaussian edge -/
def gaussUpper {α : Type} (o : Ops α) (a : BPArgs α) : α := maxL o (a.srs.map (fun s => o.mul (o.ofNat 2) s)) o.zero


/-- filter types accepted by `create_reconstruction_filter` after `str(filter_type).lower()`;
`none` = `ValueError("Unsupported filter type")` -/
def recFilterKind (s : String) : Option String :=
  let t := s.toLower
  if t ∈ ["ram-lak", "ramp-cont", "ramp", "shepp-logan", "cosine", "hamming"] then some t else none


/-- shape `_compute_spectrum` builds its bins for: the shape of `data_rfft` without the batch axis -/
def binShape (dataShape : List Nat) (batch : Option Nat) : List Nat :=
  match batch with
  | none => dataShape
  | some b => dataShape.eraseIdx b

/-- `WedgeReconstructed.__call__`: `if func_args.get("wedge_weights") is None and weight_wedge: weights = cos(angles)`.
Nothing ever sets `wedge_weights`, so with `weight_wedge=True` the caller's `weights` are always replaced by the
cosines of the tilt angles (`Preprocessor.step_wedge_mask` passes `weight_wedge = weights is not None`) -/
def stepWeightsFromCos (weightWedge wedgeWeightsGiven : Bool) : Bool := weightWedge && !wedgeWeightsGiven


/-! ## `Wedge.__call__`: which tilt angles are used where

The merged arguments reach `weight_angle` only: `weight_relion` / `weight_grigorieff`, the cosine weights of
`weight_type="angle"` and the cut-off loop read `self.angles` / `self.weights` / `self.opening_axis` /
`self.tilt_axis`, while the returned dict reports the merged `angles`.  (`nSelf`: constructor angles = number of
weights; `nCall`: angles in effect for the call, `= nSelf` unless overridden.) -/

structure WedgeCall where
  /-- `IndexError` -/
  raises : Bool
  /-- planes in the returned stack -/
  nPlanes : Nat
  /-- length of the reported `angles` -/
  nReported : Nat
  /-- plane `i` was multiplied by the cut-off mask -/
  cut : List Bool
deriving Repr, DecidableEq

def wedgeCallPlan (func : String) (nSelf nCall : Nat) (cutoff : Bool) : WedgeCall :=
  let nPlanes := if func == "weight_angle" then nCall else nSelf
  -- `weight_angle` indexes the (constructor-length) weights with the call's tilt index; the cut-off loop indexes
  -- the stack with the constructor's tilt index
  let raises := (func == "weight_angle" && decide (nSelf < nCall)) || (cutoff && decide (nPlanes < nSelf))
  ⟨raises, nPlanes, nCall, if raises then [] else (List.range nPlanes).map (fun i => cutoff && decide (i < nSelf))⟩

end Pm.C12
