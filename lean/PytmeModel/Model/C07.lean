import PytmeModel.Model.Common
/-!
C07 — rotation sets, quaternion / Euler conversions, cone sampling.

Mirrors (tme/matching_utils.py):
* `quaternion_to_rotation_matrix`  (`quatToMat`, scalar-first quaternion; `s = 2‖q‖` exactly as the
  code computes it — the code does *not* divide by `‖q‖²`, see `Props/C07.lean`)
* `load_quaternions_by_angle`      (`closestSet`: `min(set_diffs, key=set_diffs.get)` = first minimum,
  `shipped` = `tme/data/metadata.yaml` in file order)
* `get_rotation_matrices`          (`fixRotations`: flip the last column where `det < 0`, identity forced
  first; `numRandom`)
* `euler_to_rotationmatrix` / `euler_from_rotationmatrix` (scipy: lower case = extrinsic, upper = intrinsic)
* `get_rotations_around_vector`    (`coneAngles`, `coneMatrices` for the default axis)
  and `coneMatricesVec` for a general axis (`V · R_zyx(a, b, φ + a_V)`)
* `rotation_aligning_vectors`      (`cross3`, `skew`, `rodrigues`, `alignRot`; float: `alignRotF` with the float32
  normalisation, the `allclose` shortcut and the `0/0` of antiparallel vectors as coded)
* the `convention` string          (`parseSeq`, `conventionDispatch`, `eulerToMatConvF`), the algebraic inverse
  reading `eulerZYXFrom` / `eulerZYXRoundTrip`

Algebra is polymorphic over the scalar (`Add/Sub/Mul/Neg/Zero/One` only) so the very same
definitions are executed on `Float` by the driver and reasoned about over any commutative ring.
-/
namespace Pm.C07

/-- 3×3 matrix, row major `aRC` -/
structure M3 (α : Type) where
  a00 : α
  a01 : α
  a02 : α
  a10 : α
  a11 : α
  a12 : α
  a20 : α
  a21 : α
  a22 : α
deriving Repr, DecidableEq

/-- 2×2 matrix -/
structure M2 (α : Type) where
  b00 : α
  b01 : α
  b10 : α
  b11 : α
deriving Repr, DecidableEq

/-- scalar-first quaternion `(w, x, y, z)` -/
structure Q4 (α : Type) where
  w : α
  x : α
  y : α
  z : α
deriving Repr, DecidableEq

section algebra
variable {α : Type} [Add α] [Sub α] [Mul α] [Neg α] [Zero α] [One α]

namespace M3
def id : M3 α := ⟨1, 0, 0, 0, 1, 0, 0, 0, 1⟩

def mul (A B : M3 α) : M3 α :=
  ⟨A.a00 * B.a00 + A.a01 * B.a10 + A.a02 * B.a20,
   A.a00 * B.a01 + A.a01 * B.a11 + A.a02 * B.a21,
   A.a00 * B.a02 + A.a01 * B.a12 + A.a02 * B.a22,
   A.a10 * B.a00 + A.a11 * B.a10 + A.a12 * B.a20,
   A.a10 * B.a01 + A.a11 * B.a11 + A.a12 * B.a21,
   A.a10 * B.a02 + A.a11 * B.a12 + A.a12 * B.a22,
   A.a20 * B.a00 + A.a21 * B.a10 + A.a22 * B.a20,
   A.a20 * B.a01 + A.a21 * B.a11 + A.a22 * B.a21,
   A.a20 * B.a02 + A.a21 * B.a12 + A.a22 * B.a22⟩

def tr (A : M3 α) : M3 α := ⟨A.a00, A.a10, A.a20, A.a01, A.a11, A.a21, A.a02, A.a12, A.a22⟩

def det (A : M3 α) : α :=
  A.a00 * (A.a11 * A.a22 - A.a12 * A.a21) - A.a01 * (A.a10 * A.a22 - A.a12 * A.a20)
    + A.a02 * (A.a10 * A.a21 - A.a11 * A.a20)

/-- matrix · column vector -/
def mulVec (A : M3 α) (v : α × α × α) : α × α × α :=
  (A.a00 * v.1 + A.a01 * v.2.1 + A.a02 * v.2.2,
   A.a10 * v.1 + A.a11 * v.2.1 + A.a12 * v.2.2,
   A.a20 * v.1 + A.a21 * v.2.1 + A.a22 * v.2.2)

/-- `ret[..., :, -1] *= -1` -/
def negLastCol (A : M3 α) : M3 α :=
  ⟨A.a00, A.a01, -A.a02, A.a10, A.a11, -A.a12, A.a20, A.a21, -A.a22⟩

def map {β : Type} (f : α → β) (A : M3 α) : M3 β :=
  ⟨f A.a00, f A.a01, f A.a02, f A.a10, f A.a11, f A.a12, f A.a20, f A.a21, f A.a22⟩

def toRows (A : M3 α) : List (List α) :=
  [[A.a00, A.a01, A.a02], [A.a10, A.a11, A.a12], [A.a20, A.a21, A.a22]]

def toList (A : M3 α) : List α := [A.a00, A.a01, A.a02, A.a10, A.a11, A.a12, A.a20, A.a21, A.a22]

def ofRows : List (List α) → Option (M3 α)
  | [[a, b, c], [d, e, f], [g, h, i]] => some ⟨a, b, c, d, e, f, g, h, i⟩
  | _ => none
end M3

namespace M2
def id : M2 α := ⟨1, 0, 0, 1⟩
def mul (A B : M2 α) : M2 α :=
  ⟨A.b00 * B.b00 + A.b01 * B.b10, A.b00 * B.b01 + A.b01 * B.b11,
   A.b10 * B.b00 + A.b11 * B.b10, A.b10 * B.b01 + A.b11 * B.b11⟩
def tr (A : M2 α) : M2 α := ⟨A.b00, A.b10, A.b01, A.b11⟩
def det (A : M2 α) : α := A.b00 * A.b11 - A.b01 * A.b10
def negLastCol (A : M2 α) : M2 α := ⟨A.b00, -A.b01, A.b10, -A.b11⟩
def toRows (A : M2 α) : List (List α) := [[A.b00, A.b01], [A.b10, A.b11]]
def ofRows : List (List α) → Option (M2 α)
  | [[a, b], [c, d]] => some ⟨a, b, c, d⟩
  | _ => none
end M2

/-! ## the property's predicates (spec side) -/

/-- `Aᵀ·A = 1` and `A·Aᵀ = 1` -/
def M3.Orthonormal (A : M3 α) : Prop := A.tr.mul A = M3.id ∧ A.mul A.tr = M3.id
/-- proper rotation: orthonormal with determinant `+1` -/
def M3.Proper (A : M3 α) : Prop := A.Orthonormal ∧ A.det = 1
def M2.Orthonormal (A : M2 α) : Prop := A.tr.mul A = M2.id ∧ A.mul A.tr = M2.id
def M2.Proper (A : M2 α) : Prop := A.Orthonormal ∧ A.det = 1
/-- Euclidean inner product -/
def dot3 (u v : α × α × α) : α := u.1 * v.1 + u.2.1 * v.2.1 + u.2.2 * v.2.2

/-! ## quaternions -/

def normSq (q : Q4 α) : α := q.w * q.w + q.x * q.x + q.y * q.y + q.z * q.z

/-- Hamilton product -/
def Q4.mul (p q : Q4 α) : Q4 α :=
  ⟨p.w * q.w - p.x * q.x - p.y * q.y - p.z * q.z,
   p.w * q.x + p.x * q.w + p.y * q.z - p.z * q.y,
   p.w * q.y - p.x * q.z + p.y * q.w + p.z * q.x,
   p.w * q.z + p.x * q.y - p.y * q.x + p.z * q.w⟩

def Q4.conj (q : Q4 α) : Q4 α := ⟨q.w, -q.x, -q.y, -q.z⟩
def Q4.neg (q : Q4 α) : Q4 α := ⟨-q.w, -q.x, -q.y, -q.z⟩
/-- a vector as a pure quaternion -/
def Q4.pure (v : α × α × α) : Q4 α := ⟨0, v.1, v.2.1, v.2.2⟩
def Q4.vec (q : Q4 α) : α × α × α := (q.x, q.y, q.z)

/-- `quaternion_to_rotation_matrix`, the nine assignments, with `s` the value of
`np.linalg.norm(quaternions, axis=1) * 2` (before `np.around`). -/
def quatToMat (s : α) (q : Q4 α) : M3 α :=
  let q0 := q.w; let q1 := q.x; let q2 := q.y; let q3 := q.z
  ⟨1 - s * ((q2 * q2) + (q3 * q3)), s * ((q1 * q2) - (q0 * q3)), s * ((q1 * q3) + (q0 * q2)),
   s * ((q2 * q1) + (q0 * q3)), 1 - s * ((q3 * q3) + (q1 * q1)), s * ((q2 * q3) - (q0 * q1)),
   s * ((q3 * q1) - (q0 * q2)), s * ((q3 * q2) + (q0 * q1)), 1 - s * ((q1 * q1) + (q2 * q2))⟩

/-! ## Euler angles (algebraic: every angle enters through its cosine and sine) -/

/-- elementary rotation about coordinate axis 0 (`x`), 1 (`y`), 2 (`z`), scipy's matrices -/
def rotX (c s : α) : M3 α := ⟨1, 0, 0, 0, c, -s, 0, s, c⟩
def rotY (c s : α) : M3 α := ⟨c, 0, s, 0, 1, 0, -s, 0, c⟩
def rotZ (c s : α) : M3 α := ⟨c, -s, 0, s, c, 0, 0, 0, 1⟩

def axisRot (ax : Nat) (c s : α) : M3 α :=
  match ax with
  | 0 => rotX c s
  | 1 => rotY c s
  | _ => rotZ c s

/-- extrinsic sequence (scipy lower-case `seq`): rotations applied one after the other about the
fixed axes, i.e. each new factor multiplies on the left -/
def eulerExtrinsic (l : List (Nat × α × α)) : M3 α :=
  l.foldl (fun acc r => (axisRot r.1 r.2.1 r.2.2).mul acc) M3.id

/-- intrinsic sequence (scipy upper-case `seq`): each new factor multiplies on the right -/
def eulerIntrinsic (l : List (Nat × α × α)) : M3 α :=
  l.foldl (fun acc r => acc.mul (axisRot r.1 r.2.1 r.2.2)) M3.id

/-- the default convention `"zyx"`: `Rx(c) · Ry(b) · Rz(a)` for angles `(a, b, c)` -/
def eulerZYX (ca sa cb sb cc sc : α) : M3 α := (rotX cc sc).mul ((rotY cb sb).mul (rotZ ca sa))

/-- algebraic reading of `euler_from_rotationmatrix(R, "zyx")`: cosine / sine of the three angles from the
entries (`R02 = sin b`, `R00 = cos b cos a`, `R01 = -cos b sin a`, `R12 = -sin c cos b`, `R22 = cos c cos b`),
`cb` standing for `cos b = sqrt(R00² + R01²)`; result `(cos a, sin a, cos b, sin b, cos c, sin c)` -/
def eulerZYXFrom [Div α] (R : M3 α) (cb : α) : α × α × α × α × α × α :=
  (R.a00 / cb, -R.a01 / cb, cb, R.a02, R.a22 / cb, -R.a12 / cb)

/-- `euler_to_rotationmatrix(euler_from_rotationmatrix(R))` in that reading -/
def eulerZYXRoundTrip [Div α] (R : M3 α) (cb : α) : M3 α :=
  let e := eulerZYXFrom R cb
  eulerZYX e.1 e.2.1 e.2.2.1 e.2.2.2.1 e.2.2.2.2.1 e.2.2.2.2.2

/-- `euler_from_rotationmatrix`, 2×2 input: `temp_matrix = np.eye(3); temp_matrix[:2, :2] = rotation_matrix` -/
def embed2 (m : M2 α) : M3 α := ⟨m.b00, m.b01, 0, m.b10, m.b11, 0, 0, 0, 1⟩

/-- upper-left 2×2 block -/
def M3.block2 (A : M3 α) : M2 α := ⟨A.a00, A.a01, A.a10, A.a11⟩

/-- planar rotation `[[c, -s], [s, c]]` -/
def rot2 (c s : α) : M2 α := ⟨c, -s, s, c⟩

/-! ## QR branch of `get_rotation_matrices` (any dimension, matrices as lists of rows) -/

def negLast : List α → List α
  | [] => []
  | [x] => [-x]
  | x :: xs => x :: negLast xs

/-- `m[:, -1] *= -1` -/
def negLastColL (m : List (List α)) : List (List α) := m.map negLast

def identL (n : Nat) : List (List α) :=
  (List.range n).map (fun i => (List.range n).map (fun j => if i = j then (1 : α) else 0))

def dropNth {β : Type} : List β → Nat → List β
  | [], _ => []
  | _ :: xs, 0 => xs
  | x :: xs, n + 1 => x :: dropNth xs n

/-- Laplace expansion along the first row (fuel = dimension) -/
def detL : Nat → List (List α) → α
  | 0, _ => 1
  | f + 1, m =>
    match m with
    | [] => 1
    | r :: rest =>
      let terms := (List.range r.length).map (fun j =>
        let minor := rest.map (fun row => dropNth row j)
        let t := r.getD j 0 * detL f minor
        if j % 2 = 0 then t else -t)
      terms.foldl (· + ·) 0

/-- lines 651–654: `ret[dets < 0, :, -1] *= -1; ret[0] = eye(dim)`.  `negdet i` is the outcome of
`np.linalg.det(ret)[i] < 0`.  (`ret[0] = …` on an empty batch raises `IndexError`: `none`.) -/
def fixRotations (dim : Nat) (ms : List (List (List α))) (negdet : List Bool) : Option (List (List (List α))) :=
  match List.zipWith (fun m (b : Bool) => if b then negLastColL m else m) ms negdet with
  | [] => none
  | _ :: t => some (identL dim :: t)

/-! ## `rotation_aligning_vectors` (Rodrigues form, lines 900–907) -/

/-- `np.cross` of two 3-vectors -/
def cross3 (u v : α × α × α) : α × α × α :=
  (u.2.1 * v.2.2 - u.2.2 * v.2.1, u.2.2 * v.1 - u.1 * v.2.2, u.1 * v.2.1 - u.2.1 * v.1)

/-- `K = [[0, -k[2], k[1]], [k[2], 0, -k[0]], [-k[1], k[0], 0]]` -/
def skew (k : α × α × α) : M3 α := ⟨0, -k.2.2, k.2.1, k.2.2, 0, -k.1, -k.2.1, k.1, 0⟩

def M3.add (A B : M3 α) : M3 α :=
  ⟨A.a00 + B.a00, A.a01 + B.a01, A.a02 + B.a02, A.a10 + B.a10, A.a11 + B.a11, A.a12 + B.a12,
   A.a20 + B.a20, A.a21 + B.a21, A.a22 + B.a22⟩

/-- scalar · matrix -/
def M3.smul (t : α) (A : M3 α) : M3 α :=
  ⟨t * A.a00, t * A.a01, t * A.a02, t * A.a10, t * A.a11, t * A.a12, t * A.a20, t * A.a21, t * A.a22⟩

/-- `eye(3) + sin(angle) * K + (1 - cos(angle)) * np.dot(K, K)` with `c = cos(angle)`, `s = sin(angle)` -/
def rodrigues (k : α × α × α) (c s : α) : M3 α :=
  (M3.id.add (M3.smul s (skew k))).add (M3.smul (1 - c) ((skew k).mul (skew k)))

/-- the branch taken when the vectors are not `allclose`: `k = cross(u, v) / n` with `n` the value of
`np.linalg.norm(rotation_axis)`, `c` / `s` cosine / sine of `arccos(dot(u, v))` -/
def alignRot [Div α] (u v : α × α × α) (n c s : α) : M3 α :=
  let a := cross3 u v
  rodrigues (a.1 / n, a.2.1 / n, a.2.2 / n) c s

end algebra

/-! ## closest-angle set lookup -/

/-- running minimum of Python's `min(iterable, key=f)`: a later element replaces the running best
only when its key is strictly smaller -/
def runMin {ι β : Type} [LT β] [DecidableLT β] (f : ι → β) (x : ι) (xs : List ι) : ι :=
  xs.foldl (fun best y => if f y < f best then y else best) x

/-- Python `min(iterable, key=f)`: the first element whose key is minimal -/
def argminFirst {ι β : Type} [LT β] [DecidableLT β] (f : ι → β) : List ι → Option ι
  | [] => none
  | x :: xs => some (runMin f x xs)

/-- `abs(a - b)` -/
def absDiff {β : Type} [Sub β] [Neg β] [Zero β] [LT β] [DecidableLT β] (a b : β) : β :=
  if a - b < 0 then -(a - b) else a - b

/-- `load_quaternions_by_angle`: entry of the table (name, size, nominal angle) closest to `req` -/
def closestSet {β : Type} [Sub β] [Neg β] [Zero β] [LT β] [DecidableLT β]
    (table : List (String × Nat × β)) (req : β) : Option (String × Nat × β) :=
  argminFirst (fun e => absDiff req e.2.2) table

/-- `tme/data/metadata.yaml` in file order: (file, number of orientations, nominal angle in 1/100 degree).
Compared with the file on every run (`ctx.obligation "metadata.yaml == Pm.C07.shipped"`). -/
def shipped : List (String × Nat × Int) := [
  ("c48n309.npy", 7416, 972), ("c48n527.npy", 12648, 817), ("c48n9.npy", 216, 3647),
  ("c48u1.npy", 24, 6280), ("c48u1153.npy", 27672, 660), ("c48u1201.npy", 28824, 648),
  ("c48u1641.npy", 39384, 575), ("c48u181.npy", 4344, 1229), ("c48u2219.npy", 53256, 527),
  ("c48u27.npy", 648, 2083), ("c48u2947.npy", 70728, 471), ("c48u3733.npy", 89592, 437),
  ("c48u4749.npy", 113976, 400), ("c48u5879.npy", 141096, 374), ("c48u7111.npy", 170664, 353),
  ("c48u815.npy", 19560, 740), ("c48u83.npy", 1992, 1629), ("c48u8649.npy", 207576, 326),
  ("c600v.npy", 60, 4448), ("c600vc.npy", 360, 2778)]

/-! ## the `convention` string (`euler_to_rotationmatrix`: `convention[:len(angles)]` handed to scipy's
`Rotation.from_euler`) -/

def axisOfChar (c : Char) : Option Nat :=
  if c = 'x' ∨ c = 'X' then some 0 else if c = 'y' ∨ c = 'Y' then some 1
  else if c = 'z' ∨ c = 'Z' then some 2 else none

def consecDistinct : List Nat → Bool
  | a :: b :: t => a != b && consecDistinct (b :: t)
  | _ => true

/-- scipy's reading of `seq`: 1 to 3 letters, all of `xyz` (extrinsic, `false`) or all of `XYZ` (intrinsic,
`true`), consecutive axes different; anything else is a `ValueError` (`none`) -/
def parseSeq (cs : List Char) : Option (Bool × List Nat) :=
  if cs.length = 0 ∨ 3 < cs.length then none else
  let lower := cs.all (fun c => c = 'x' ∨ c = 'y' ∨ c = 'z')
  let upper := cs.all (fun c => c = 'X' ∨ c = 'Y' ∨ c = 'Z')
  if ¬ (lower ∨ upper) then none else
  match cs.mapM axisOfChar with
  | none => none
  | some axes => if consecDistinct axes then some (upper, axes) else none

/-- `euler_to_rotationmatrix(angles, convention)`: the elementary rotations used and their reading.
One angle: the code builds `(angles, 0, 0)` (a tuple inside a tuple), which scipy rejects — `none` as coded.
More angles than letters: scipy rejects the length mismatch. -/
def conventionDispatch (convention : List Char) (nAngles : Nat) : Option (Bool × List Nat) :=
  if nAngles = 1 then none else
  match parseSeq (convention.take nAngles) with
  | some (intr, axes) => if axes.length = nAngles then some (intr, axes) else none
  | none => none

/-! ## Float execution (what the driver runs against the real code) -/

instance : One Float := ⟨1.0⟩

/-- IEEE double nearest to π (= `numpy.pi`), given exactly as `m · 2^-48` -/
def piF : Float := (Float.ofInt 884279719003555).scaleB (-48)

/-- `numpy.deg2rad`: `x * (π / 180)` -/
def deg2rad (x : Float) : Float := x * (piF / 180.0)
def rad2deg (x : Float) : Float := x * (180.0 / piF)

/-- round half to even (`numpy.rint`, Python `round`) -/
def rintF (x : Float) : Float :=
  let f := x.floor
  let d := x - f
  if d < 0.5 then f else if d > 0.5 then f + 1.0
  else if (f / 2.0).floor * 2.0 == f then f else f + 1.0

/-- `np.around(x, decimals=8)`: `rint(x * 1e8) / 1e8` -/
def around8 (x : Float) : Float := rintF (x * 100000000.0) / 100000000.0

def floatNormSq (q : Q4 Float) : Float := q.w * q.w + q.x * q.x + q.y * q.y + q.z * q.z

/-- one row of `quaternion_to_rotation_matrix` -/
def quatToMatF (q : Q4 Float) : M3 Float :=
  (quatToMat (Float.sqrt (floatNormSq q) * 2.0) q).map around8

def toNatF (x : Float) : Nat := if x < 0.0 || x.isNaN then 0 else x.toUInt64.toNat

/-- `int((360 / angular_sampling) ** (dim * (dim - 1) // 2))` -/
def numRandom (angle : Float) (dim : Nat) : Nat :=
  toNatF (Float.pow (360.0 / angle) (Float.ofNat (dim * (dim - 1) / 2))).floor

def toF32 (x : Float) : Float := x.toFloat32.toFloat

/-- scipy `Rotation.from_euler(seq, angles, degrees=True).as_matrix().astype(float32)`;
`seq` as a list of (axis, angle in degrees) and the case of the letters -/
def eulerToMatF (intrinsic : Bool) (l : List (Nat × Float)) : M3 Float :=
  let cs := l.map (fun (ax, a) => (ax, Float.cos (deg2rad a), Float.sin (deg2rad a)))
  ((if intrinsic then eulerIntrinsic cs else eulerExtrinsic cs)).map toF32

/-- `euler_to_rotationmatrix(angles, convention)` with the string dispatch; `none` = `ValueError` -/
def eulerToMatConvF (convention : String) (angles : List Float) : Option (M3 Float) :=
  (conventionDispatch convention.toList angles.length).map (fun r => eulerToMatF r.1 (r.2.zip angles))

/-- `euler_from_rotationmatrix(R, "zyx")` away from gimbal lock: the angles read off the entries
`R02 = sin b`, `R00 = cos b cos a`, `R01 = -cos b sin a`, `R12 = -sin c cos b`, `R22 = cos c cos b` -/
def eulerFromMatF (R : M3 Float) : List Float :=
  [toF32 (rad2deg (Float.atan2 (-R.a01) R.a00)),
   toF32 (rad2deg (Float.asin R.a02)),
   toF32 (rad2deg (Float.atan2 (-R.a12) R.a22))]

/-- `np.linspace(0, stop, num)` -/
def linspace0 (stop : Float) (num : Nat) : List Float :=
  if num = 0 then [] else if num = 1 then [0.0] else
  let step := stop / Float.ofNat (num - 1)
  (List.range num).map (fun i => if i = num - 1 then stop else Float.ofNat i * step)

/-- the values `360 * sin(radians(theta_k)) / cone_sampling` whose ceilings are summed -/
def coneRingCounts (coneAngle coneSampling : Float) : List Float :=
  let num := toNatF (rintF (coneAngle / coneSampling)) + 1
  (linspace0 coneAngle num).map (fun t => 360.0 * (Float.sin (deg2rad t) / coneSampling))

/-- `number_of_points` (lines 704–708) -/
def coneNumPoints (coneAngle coneSampling : Float) : Nat :=
  let s := (coneRingCounts coneAngle coneSampling).foldl (fun acc x => acc + (x.ceil + 1.0)) 0.0
  toNatF (s + 2.0)

/-- number of steps about the axis (lines 722–723) -/
def conePhiSteps (axisAngle axisSampling : Float) (nSym : Nat) : Nat :=
  let aa := axisAngle / Float.ofNat nSym
  let r := rintF (aa / axisSampling)
  toNatF (if r < 1.0 || r.isNaN then 1.0 else r)

/-- the Euler triples `(a, b, phi)` (degrees, `zyx`) in output order: golden spiral point `i`
repeated for every `phi` -/
def coneAngles (coneAngle coneSampling axisAngle axisSampling : Float) (nSym : Nat) :
    List (Float × Float × Float) :=
  let n := coneNumPoints coneAngle coneSampling
  let steps := conePhiSteps axisAngle axisSampling nSym
  let aa := axisAngle / Float.ofNat nSym
  let phis := (linspace0 aa (steps + 1)).take steps
  let golden := piF * (1.0 + Float.sqrt 5.0)
  (List.range n).flatMap (fun i =>
    let idx := Float.ofNat i + 0.5
    let radius := coneAngle * Float.sqrt (idx / Float.ofNat n)
    let theta := golden * idx
    phis.map (fun p => (radius * Float.cos theta, radius * Float.sin theta, p)))

/-- `get_rotations_around_vector(...)` for the default axis, `convention=None` -/
def coneMatrices (coneAngle coneSampling axisAngle axisSampling : Float) (nSym : Nat) : List (M3 Float) :=
  (coneAngles coneAngle coneSampling axisAngle axisSampling nSym).map (fun (a, b, c) =>
    eulerZYX (Float.cos (deg2rad a)) (Float.sin (deg2rad a)) (Float.cos (deg2rad b)) (Float.sin (deg2rad b))
      (Float.cos (deg2rad c)) (Float.sin (deg2rad c)))

/-! ## `rotation_aligning_vectors`, float execution -/

def norm3F (v : Float × Float × Float) : Float := Float.sqrt (v.1 * v.1 + v.2.1 * v.2.1 + v.2.2 * v.2.2)

/-- `x = np.asarray(x, dtype=np.float32); x /= np.linalg.norm(x)` (values rounded to float32) -/
def normalize32 (v : Float × Float × Float) : Float × Float × Float :=
  let w := (toF32 v.1, toF32 v.2.1, toF32 v.2.2)
  let n := toF32 (norm3F w)
  (toF32 (w.1 / n), toF32 (w.2.1 / n), toF32 (w.2.2 / n))

/-- one element of `np.isclose(a, b)` with the default `rtol=1e-05, atol=1e-08` (false on NaN) -/
def isclose (a b : Float) : Bool := (a - b).abs <= 0.00000001 + 0.00001 * b.abs

def allclose3 (a b : Float × Float × Float) : Bool :=
  isclose a.1 b.1 && isclose a.2.1 b.2.1 && isclose a.2.2 b.2.2

/-- `rotation_aligning_vectors(initial, target, convention=None)` for 3-vectors: identity when the
normalised vectors are `allclose`, the Rodrigues matrix otherwise (antiparallel vectors: the axis is
`0 / 0`, every entry NaN — as the code) -/
def alignRotF (u0 v0 : Float × Float × Float) : M3 Float :=
  let u := normalize32 u0
  let v := normalize32 v0
  if allclose3 u v then M3.id else
  let ang := toF32 (Float.acos (toF32 (dot3 u v)))
  alignRot u v (toF32 (norm3F (cross3 u v))) (Float.cos ang) (Float.sin ang)

/-- `get_rotations_around_vector(..., vector=w)`, `convention=None`, for a cone axis `w` whose aligning
rotation is off gimbal lock: `V · R_zyx(a, b, φ + a_V)` with `V = rotation_aligning_vectors([1,0,0], w)` and
`a_V` its first `zyx` Euler angle (lines 712–716, 724, 732–733; the detour of the code through float32 Euler
angles of `V` is within the comparison tolerance) -/
def coneMatricesVec (coneAngle coneSampling axisAngle axisSampling : Float) (nSym : Nat)
    (w : Float × Float × Float) : List (M3 Float) :=
  let V := alignRotF (1.0, 0.0, 0.0) w
  let aV := rad2deg (Float.atan2 (-V.a01) V.a00)
  (coneAngles coneAngle coneSampling axisAngle axisSampling nSym).map (fun (a, b, c) =>
    V.mul (eulerZYX (Float.cos (deg2rad a)) (Float.sin (deg2rad a)) (Float.cos (deg2rad b)) (Float.sin (deg2rad b))
      (Float.cos (deg2rad (c + aV))) (Float.sin (deg2rad (c + aV)))))

end Pm.C07
