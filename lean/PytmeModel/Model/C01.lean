import PytmeModel.Model.Common
/-!
C01 — FFT-computed scores vs their spatial-domain definitions: index plumbing.

`circ` is the *meaning* of `irfftn(rfftn(a) * rfftn(b))` on arrays of shape `Ns` (trusted: DFT
convolution theorem, pyFFTW).  Everything else mirrors the code: top-left zero padding (reads
outside an array's shape give 0), template stored reversed, rotation of the stored template about
its geometric centre, the analyzer's `roll(fourier_shift)`, `[:conv]` and `same`/`valid` crop.
-/
namespace Pm.C01

/-- `Σ` over all multi-indices of a shape, first axis outermost -/
def sumShape {α} [Add α] [Zero α] : List Nat → (List Nat → α) → α
  | [], F => F []
  | n :: ns, F => sumRange n (fun i => sumShape ns (fun idx => F (i :: idx)))

/-- per-axis `(u - j) mod N` -/
def wrapSub : List Nat → List Int → List Nat → List Int
  | N :: Ns, u :: us, j :: js => ((u - (j : Int)) % (N : Int)) :: wrapSub Ns us js
  | _, _, _ => []

def natsToInts (l : List Nat) : List Int := l.map Int.ofNat

/-- circular convolution of two fields on the torus `Ns`, read at `u` -/
def circ {α} [Add α] [Mul α] [Zero α] (Ns : List Nat) (a b : List Int → α) (u : List Int) : α :=
  sumShape Ns (fun j => a (natsToInts j) * b (wrapSub Ns u j))

/-- zero extension of an array: the field the properties talk about -/
def ext {α} [Zero α] (a : Arr α) : List Int → α := fun idx => a.getI idx 0

/-- reversed index `(m-1) - r` per axis -/
def revIdx : List Nat → List Int → List Int
  | m :: ms, r :: rs => (((m : Int) - 1) - r) :: revIdx ms rs
  | _, _ => []

/-- `be.reverse` at the level of fields of shape `ms` -/
def rev {α} (ms : List Nat) (g : List Int → α) : List Int → α :=
  fun r => if r.length = ms.length then g (revIdx ms r) else g r

/-- window position of template voxel `k` when the raw convolution is read at `u` -/
def winIdx : List Nat → List Int → List Nat → List Int
  | m :: ms, u :: us, k :: ks => (u - ((m : Int) - 1) + (k : Int)) :: winIdx ms us ks
  | _, _, _ => []

/-- reversed template index of voxel `k` -/
def revK : List Nat → List Nat → List Int
  | m :: ms, k :: ks => (((m : Int) - 1) - (k : Int)) :: revK ms ks
  | _, _ => []

/-- window position `t + k - m/2` per axis -/
def specIdx : List Nat → List Int → List Nat → List Int
  | m :: ms, t :: ts, k :: ks => (t + (k : Int) - ((m / 2 : Nat) : Int)) :: specIdx ms ts ks
  | _, _, _ => []

/-- **Spec.**  correlation of the zero-extended target with the template whose voxel
`m/2` (per axis) sits at translation `t`:  `Σ_k f[t + k - m/2] · g[k]` -/
def corrSpec {α} [Add α] [Mul α] [Zero α] (ms : List Nat) (f g : List Int → α) (t : List Int) : α :=
  sumShape ms (fun k => f (specIdx ms t k) * g (natsToInts k))

/-! ### Fourier padding / frame bookkeeping (`_fourier_padding`, analyzer `_postprocess`), per axis, `m ≤ n` -/

/-- `conv_shape` per axis -/
def convLen (n m : Nat) (padFourier : Bool) : Nat := if padFourier then max n m + m - 1 else max n m + 1 - 1

/-- `fourier_shift` per axis (branch `m ≤ n`) -/
def fourierShift (m : Nat) (padFourier : Bool) : Int :=
  if padFourier then 0 else 1 - ((m / 2 : Nat) : Int) - ((m % 2 : Nat) : Int)

/-- `_fourier_padding` including the template-larger-than-target correction (all branches) -/
def fourierShiftFull (n m : Nat) (padFourier : Bool) : Int :=
  let base := fourierShift m padFourier
  let diff : Int := (n : Int) - m
  if diff < 0 then
    -- shape_shift = diff / 2 (true division), offset = diff mod 2; both integers after the addition below
    let off : Int := diff % 2
    let off' : Int := if padFourier then -(off - (if n % 2 = 0 ∧ m % 2 = 1 then 1 else 0)) else off
    -- (diff/2 + off') truncated toward zero by astype(int) after the subtraction from an integer shift:
    -- 2*(base - diff/2 - off') is an integer; numpy casts the float result with truncation
    let twice : Int := 2 * base - diff - 2 * off'
    Int.tdiv twice 2
  else base

/-- start of the crop the analyzer applies after `roll` and `[:conv]` (`same`: extent `n`; `valid`: `n - m + m%2`) -/
def cropStart (conv ext : Nat) : Int := ((conv : Int) - ext) / 2

/-- raw (pre-roll) index read for output position `t`: `out[t] = raw[(t + cropStart - shift) mod N]` -/
def rawIdx (N : Nat) (shift cs t : Int) : Int := (t + cs - shift) % (N : Int)

/-! ### signed-permutation (grid) rotations of a template of shape `ms`, about the geometric centre -/

/-- a grid rotation: output axis `i` reads input axis `perm[i]`, flipped when `flip[i]` -/
structure GridRot where
  perm : List Nat
  flip : List Bool

/-- pull-back index `R⁻¹(x - c) + c` for a grid rotation on a shape invariant under the permutation -/
def GridRot.pull (R : GridRot) (ms : List Nat) (x : List Int) : List Int :=
  (List.range ms.length).map (fun i =>
    let a := R.perm.getD i 0
    let v := x.getD a 0
    if R.flip.getD i false then ((ms.getD i 0 : Nat) : Int) - 1 - v else v)

/-- rotated field `(rot g)[x] = g[R⁻¹(x-c)+c]` -/
def rotF {α} (R : GridRot) (ms : List Nat) (g : List Int → α) : List Int → α :=
  fun x => if x.length = ms.length then g (R.pull ms x) else g x

end Pm.C01

namespace Pm.C01

/-- raw read position `t + (m-1)/2` per axis (what `roll` + crop turn a translation into) -/
def rawPos : List Nat → List Int → List Int
  | m :: ms, t :: ts => (t + (((m - 1) / 2 : Nat) : Int)) :: rawPos ms ts
  | _, _ => []

/-- per-axis `rawIdx`: the raw index the analyzer reads for output position `t` -/
def frameIdx : List Nat → List Int → List Int → List Int → List Int
  | N :: Ns, s :: ss, c :: cs, t :: ts => rawIdx N s c t :: frameIdx Ns ss cs ts
  | _, _, _, _ => []

/-- **Implementation model of one correlation map**: FFT product (= circular convolution on the
fast shape `Ns`) of the zero-padded target `f` with the zero-padded *stored* (reversed) template,
then `roll(shift)`, `[:conv]`, crop start `cs`. -/
def implCorr {α} [Add α] [Mul α] [Zero α] (Ns ms : List Nat) (shifts css : List Int)
    (f g : List Int → α) (t : List Int) : α :=
  circ Ns f (rev ms g) (frameIdx Ns shifts css t)

end Pm.C01

namespace Pm.C01

/-- `valid` extent per axis: `n - m + m % 2` -/
def validExt (n m : Nat) : Nat := n - m + m % 2

def shiftsOf (pad : Bool) (ms : List Nat) : List Int := ms.map (fun m => fourierShift m pad)

/-- `fourier_shift` of `_fourier_padding` with every branch (template larger than the target on some axis included) -/
def shiftsOfFull (pad : Bool) : List Nat → List Nat → List Int
  | n :: ns, m :: ms => fourierShiftFull n m pad :: shiftsOfFull pad ns ms
  | _, _ => []

/-- crop starts of the `same` mode (extent `n`) -/
def sameCrops (pad : Bool) : List Nat → List Nat → List Int
  | n :: ns, m :: ms => cropStart (convLen n m pad) n :: sameCrops pad ns ms
  | _, _ => []

/-- crop starts of the `valid` mode (extent `n - m + m%2`) -/
def validCrops (pad : Bool) : List Nat → List Nat → List Int
  | n :: ns, m :: ms => cropStart (convLen n m pad) (validExt n m) :: validCrops pad ns ms
  | _, _ => []

/-- translation (in the frame of the scored array) that output position `j` of the `valid` crop stands for -/
def validT : List Nat → List Int → List Int
  | m :: ms, j :: js => (j + ((m / 2 : Nat) : Int)) :: validT ms js
  | _, _ => []

end Pm.C01

/-! ## Score formulas (mirroring `matching_scores.py`), parametric in the scalar operations and in the
correlation functional `C a b` (= value at the voxel of interest of the correlation map of a
target-derived field `a` with a template-derived field `b`).  The implementation model plugs in
`implCorr … t`, the spec plugs in `corrSpec … t`. -/
namespace Pm.C01

structure Ops (α : Type) where
  zero : α
  one : α
  add : α → α → α
  sub : α → α → α
  mul : α → α → α
  div : α → α → α
  sqrt : α → α
  lt : α → α → Bool
  ofNat : Nat → α
  eps : α

variable {α : Type}

def Ops.max0 (o : Ops α) (x : α) : α := if o.lt x o.zero then o.zero else x
def Ops.sq (o : Ops α) (x : α) : α := o.mul x x

/-- `Σ_k g[k]` over the template box with the `Ops` addition -/
def boxSum (o : Ops α) : List Nat → (List Nat → α) → α
  | [], F => F []
  | n :: ns, F => (List.range n).foldl (fun acc i => o.add acc (boxSum o ns (fun idx => F (i :: idx)))) o.zero

/-- mean and standard deviation of `g` under the mask `w` (`n` = Σ w): the scalars of `normalize_template` -/
def normStats (o : Ops α) (ms : List Nat) (g w : List Int → α) (n : α) : α × α :=
  let mu := o.div (boxSum o ms (fun k => o.mul (g (natsToInts k)) (w (natsToInts k)))) n
  let ex2 := o.div (boxSum o ms (fun k => o.mul (o.sq (g (natsToInts k))) (w (natsToInts k)))) n
  (mu, o.sqrt (o.max0 (o.sub ex2 (o.sq mu))))

/-- one voxel of the standardised template: `(g - μ)/σ · w` -/
def normApply (o : Ops α) (st : α × α) (gx wx : α) : α := o.mul (o.div (o.sub gx st.1) st.2) wx

/-- `normalize_template(g, w, n)`: `(g - μ_w)/σ_w · w` with mean / variance under the mask.
(The score formulas below inline this as `normStats` + a local closure so that the compiled driver
computes the two box sums once per call instead of once per voxel read.) -/
def normTemplate (o : Ops α) (ms : List Nat) (g w : List Int → α) (n : α) : List Int → α :=
  fun x => normApply o (normStats o ms g w n) (g x) (w x)

/-- the standardised template given its (already computed) statistics — cheap, pointwise -/
def normT (o : Ops α) (st : α × α) (g w : List Int → α) : List Int → α := fun x => normApply o st (g x) (w x)

def maskSum (o : Ops α) (ms : List Nat) (w : List Int → α) : α := boxSum o ms (fun k => w (natsToInts k))

/-- CC / LCC (after the Laplace filter has been applied to both inputs): `G` = rotated template field -/
def scoreCC (C : (List Int → α) → (List Int → α) → α) (f G : List Int → α) : α := C f G

/-- CORR (`corr_setup` + `corr_scoring`): `g`, `w` the *unrotated* template and mask fields of the frame
the functional `C` works in, `rot` the rotation in that frame (only the standardised, masked template is
rotated — as in the code) -/
def scoreCORR (o : Ops α) (C : (List Int → α) → (List Int → α) → α) (ms : List Nat)
    (rot : (List Int → α) → (List Int → α)) (f f2 g w : List Int → α) : α :=
  let n := maskSum o ms w
  let st := normStats o ms g w n
  let gh : List Int → α := normT o st g w
  let meanT := o.div (boxSum o ms (fun k => o.mul (gh (natsToInts k)) (w (natsToInts k)))) n
  let ssd := boxSum o ms (fun k => o.mul (o.sq (o.sub (gh (natsToInts k)) meanT)) (w (natsToInts k)))
  let vol := o.ofNat (prodL ms)
  let g2 : List Int → α := fun x => o.mul (gh x) (w x)
  let ws := C f w
  let den0 := o.sub (C f2 w) (o.div (o.sq ws) vol)
  let den := o.sqrt (o.max0 (o.mul den0 ssd))
  let num := o.sub (C f (rot g2)) (o.mul ws meanT)
  if o.lt o.eps den then o.mul num (o.div o.one den) else o.zero

/-- FLCSphericalMask: mask not rotated; template standardised at setup and again after rotation -/
def scoreFLCSph (o : Ops α) (C : (List Int → α) → (List Int → α) → α) (ms : List Nat)
    (rot : (List Int → α) → (List Int → α)) (f f2 g w : List Int → α) : α :=
  let n := maskSum o ms w
  let st := normStats o ms g w n
  let gh : List Int → α := normT o st g w
  let stR := normStats o ms (rot gh) w n
  let ghR : List Int → α := normT o stR (rot gh) w
  let e2 := o.div (C f2 w) n
  let e1 := o.sq (o.div (C f w) n)
  let sd := o.sqrt (o.max0 (o.sub e2 e1))
  if o.lt o.eps sd then o.mul (C f ghR) (o.div o.one (o.mul sd n)) else o.zero

/-- FLC (`flc_scoring` + `norm_scores`): `G`, `W` = template and mask rotated together -/
def scoreFLC (o : Ops α) (C : (List Int → α) → (List Int → α) → α) (ms : List Nat)
    (f f2 G W : List Int → α) : α :=
  let n := maskSum o ms W
  let st := normStats o ms G W n
  let gh : List Int → α := normT o st G W
  let s1 := C f W
  let s2 := C f2 W
  let sd0 := o.sqrt (o.max0 (o.sub (o.div s2 n) (o.sq (o.div s1 n))))
  let sd := if o.lt sd0 o.eps then o.one else sd0
  o.div (C f gh) (o.mul sd n)

/-- the per-voxel quantities of MCC before the two map-global thresholds are applied:
`(numerator, denominator, overlap)`; `G`, `W` rotated template and mask, `fm = f·[tm>0]` -/
def mccParts (o : Ops α) (C : (List Int → α) → (List Int → α) → α) (ms : List Nat)
    (fm fm2 tm G W : List Int → α) : α × α × α :=
  let st := normStats o ms G W (maskSum o ms W)
  let gh : List Int → α := normT o st G W
  let gh2 : List Int → α := fun x => o.sq (gh x)
  let t2 := C tm gh
  let num0 := C fm gh
  let ov0 := C tm W
  let ov := if o.lt ov0 o.eps then o.eps else ov0
  let t := C fm W
  let num := o.sub num0 (o.div (o.mul t t2) ov)
  let d3 := o.max0 (o.sub (C fm2 W) (o.div (o.sq t) ov))
  let d := o.max0 (o.sub (C tm gh2) (o.div (o.sq t2) ov))
  (num, o.sqrt (o.mul d3 d), ov)

/-- MCC final step given the two global maxima of the raw maps (`maxDen = max |den|`, `maxOv = max ov`) -/
def mccFinish (o : Ops α) (thousand ratio : α) (parts : α × α × α) (maxDen maxOv : α) : α :=
  let (num, den, ov) := parts
  let tol := o.mul (o.mul thousand o.eps) maxDen
  let den' := if o.lt tol den then den else o.one     -- `temp2[temp2 <= tol] = 1`
  let s := o.div num den'
  let s := if o.lt s (o.sub o.zero o.one) then o.sub o.zero o.one else if o.lt o.one s then o.one else s
  if o.lt ov (o.mul ratio maxOv) then o.zero else s

end Pm.C01

/-! ## Executable glue used by the driver -/
namespace Pm.C01

/-- materialise a template-side field on its box (identity on box-supported fields at in-box indices,
see `ext_mat_inbox`); keeps the driver fast -/
def matA {α} (ms : List Nat) (b : List Int → α) : Arr α :=
  Arr.ofFn ms (fun k => b (natsToInts k))

/-- periodic discrete Laplacian (`scipy.ndimage.laplace(mode="wrap")`) -/
def lapWrap (a : Arr Int) : Arr Int :=
  let d := a.shape.length
  Arr.ofFn a.shape (fun idx =>
    (List.range d).foldl (fun acc ax =>
      let n := a.shape.getD ax 1
      let i := idx.getD ax 0
      let up := idx.set ax ((i + 1) % n)
      let dn := idx.set ax ((i + n - 1) % n)
      acc + a.getD up 0 + a.getD dn 0 - 2 * a.getD idx 0) 0)

/-- all raw positions of the torus as integer multi-indices -/
def torusIdx (Ns : List Nat) : List (List Int) := (allIdx Ns).map natsToInts

end Pm.C01

namespace Pm.C01
/-- What `scipy.ndimage.affine_transform(order=3, prefilter=False)` does to an array on the grid (identity or
any grid rotation): the samples are used as cubic B-spline *coefficients*, so every axis is filtered with
`(1, 4, 1)/6`, mirrored at the edges (`x[-1] = x[1]`, `x[n] = x[n-2]`; an extent-1 axis is unchanged).
pyTME transforms template *masks* this way ("data prefiltered, mask not"). -/
def smoothAxis {α} (o : Ops α) (a : Arr α) (ax : Nat) : Arr α :=
  let n := a.shape.getD ax 1
  if n ≤ 1 then a else
  Arr.ofFn a.shape (fun idx =>
    let i := idx.getD ax 0
    let up := if i + 1 < n then i + 1 else n - 2
    let dn := if 1 ≤ i then i - 1 else 1
    let x := a.getD idx o.zero
    let xu := a.getD (idx.set ax up) o.zero
    let xd := a.getD (idx.set ax dn) o.zero
    o.div (o.add (o.mul (o.ofNat 4) x) (o.add xu xd)) (o.ofNat 6))

def smooth3 {α} (o : Ops α) (a : Arr α) : Arr α :=
  (List.range a.shape.length).foldl (fun acc ax => smoothAxis o acc ax) a
end Pm.C01

namespace Pm.C01
/-- valid grid rotation of a 3-D shape: a permutation of the axes under which the shape is invariant -/
def GridOk3 (R : GridRot) (a b c : Nat) : Prop :=
  (∃ f0 f1 f2, R.flip = [f0, f1, f2]) ∧
  ((R.perm = [0,1,2]) ∨ (R.perm = [0,2,1] ∧ b = c) ∨ (R.perm = [1,0,2] ∧ a = b) ∨
   (R.perm = [1,2,0] ∧ a = b ∧ b = c) ∨ (R.perm = [2,0,1] ∧ a = b ∧ b = c) ∨ (R.perm = [2,1,0] ∧ a = c))

def GridOk2 (R : GridRot) (a b : Nat) : Prop :=
  (∃ f0 f1, R.flip = [f0, f1]) ∧ ((R.perm = [0,1]) ∨ (R.perm = [1,0] ∧ a = b))

end Pm.C01
