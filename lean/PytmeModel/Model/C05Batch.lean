import PytmeModel.Model.C05
/-!
C05 (continued) — the helpers around the peak callers that `Model/C05.lean` left out
(`tme/analyzer.py`, `tme/external/bindings.cpp`):

* `PeakCaller._batchify(shape, batch_dims)`: the subsets (`slice(None)` / `slice(i, i+1)` per axis)
  and offsets `__call__` iterates over;
* the `batch_dims` rescaling inside `filter_points_indices` (batch axes multiplied by
  `2 * min_distance` before the C++ greedy pass; the *original* rows are reported);
* `__call__`, `_update` and `merge` of a caller built with `batch_dims` (`submitB` / `runB`, `updateB`, `mergeB`):
  one `call_peaks` per yielded subset, offset added back, margin exempting the batch axes, scores read from
  the whole array, per-batch top-k under the batch id the code computes; deterministic (tie-free scores);
* `_filter_bucket` (the path taken by `filter_points_indices` when the coordinates are not a
  `numpy.ndarray`, i.e. on the cupy / jax backends);
* the C++ `max_index_by_label` and the selection of representatives in `PeakClustering.merge`
  (DBSCAN's labels are an oracle argument).

Everything mirrors the code as it is, including its quirks: `_batchify` advances its `batch_index`
in axis order while the indices were enumerated in `batch_dims` order (they differ when `batch_dims`
is not ascending); `_filter_bucket` flattens a bucket vector with the multipliers `(max_j + 1) ^ j`,
which is not injective; `PeakClustering.merge` ranks the members of a cluster by
`candidate[2]` — the third *coordinate* of a peak — and returns those values as scores.
-/
namespace Pm.C05

/-! ## `PeakCaller._batchify` -/

/-- the loop `for i in range(len(shape))` of `_generate_slices_recursive`: `k` axes left, axis `i`,
`batch_index = bi`.  `some v` is `slice(v, v + 1)` with offset `v`, `none` is `slice(None)` with offset 0. -/
def batchAxes (bd cur : List Nat) : Nat → Nat → Nat → List (Option Nat)
  | 0, _, _ => []
  | k + 1, i, bi =>
      if bd.contains i then some (cur.getD bi 0) :: batchAxes bd cur k (i + 1) (bi + 1)
      else none :: batchAxes bd cur k (i + 1) bi

/-- `_batchify(shape, batch_dims)`: one entry per yielded `(subset, offset)` pair, in order.
The index tuples are enumerated in `itertools.product` order of `range(shape[dim]) for dim in batch_dims`. -/
def batchify (shape : List Nat) : Option (List Nat) → List (List (Option Nat))
  | none => [shape.map (fun _ => none)]
  | some bd =>
      (prodLists (bd.map (fun d => List.range (shape.getD d 0)))).map
        (fun cur => batchAxes bd cur shape.length 0 0)

/-- the offset tuple yielded with a subset -/
def selOffset (sel : List (Option Nat)) : List Nat := sel.map (fun o => o.getD 0)

/-- shape of `scores[subset]` (numpy clips `slice(v, v+1)` to the extent) -/
def selShape : List Nat → List (Option Nat) → List Nat
  | s :: ss, none :: r => s :: selShape ss r
  | s :: ss, some v :: r => (if v < s then 1 else 0) :: selShape ss r
  | _, _ => []

/-- the global index `idx` belongs to the subset -/
def inSel : List (Option Nat) → List Nat → Bool
  | none :: r, _ :: is => inSel r is
  | some v :: r, i :: is => decide (i = v) && inSel r is
  | [], [] => true
  | _, _ => false

/-! ## `filter_points_indices(..., batch_dims)` -/

def rescaleAux (md : Nat) (bd : List Nat) : Nat → List Int → List Int
  | _, [] => []
  | i, x :: xs => (if bd.contains i then x * (2 * (md : Int)) else x) :: rescaleAux md bd (i + 1) xs

/-- `coordinates_new[..., batch_dims] = coordinates[..., batch_dims] * (2 * min_distance)` -/
def rescale (md : Nat) (bd : List Nat) (pos : List Int) : List Int := rescaleAux md bd 0 pos

/-- the C++ distance test on the rows `filter_points_indices` hands over -/
def farB (md : Nat) (bd : Option (List Nat)) (p q : List Int) : Bool :=
  match bd with
  | none => far md p q
  | some b => far md (rescale md b p) (rescale md b q)

/-- `find_candidate_indices` on the rescaled rows; the rows themselves are reported unchanged
(`final_order = top_scores[filter_points_indices(...)]`) -/
def greedyAuxB (md : Nat) (bd : Option (List Nat)) : List Peak → List Peak → List Peak
  | kept, [] => kept
  | kept, x :: xs =>
      if kept.all (fun k => farB md bd x.pos k.pos) then greedyAuxB md bd (kept ++ [x]) xs
      else greedyAuxB md bd kept xs

/-- `filter_points_indices(coordinates, min_distance, batch_dims=bd)` on the numpy backend -/
def filterPointsB (md : Nat) (bd : Option (List Nat)) (xs : List Peak) : List Peak :=
  if md = 0 then xs else greedyAuxB md bd [] xs

/-! ## `_filter_bucket` -/

def listMaxN : List Nat → Nat
  | [] => 0
  | x :: xs => max x (listMaxN xs)

def dotN : List Nat → List Nat → Nat
  | a :: as, b :: bs => a * b + dotN as bs
  | _, _ => 0

/-- `astype(divide(coordinates - min(coordinates, axis=0), min_distance), int)` -/
def bucketRows (md : Nat) (coords : List (List Int)) : List (List Nat) :=
  let d := (coords.headD []).length
  let mins := (List.range d).map (fun j => listMin (coords.map (fun p => p.getD j 0)))
  coords.map (fun p => (List.range d).map (fun j => (p.getD j 0 - mins.getD j 0).toNat / md))

/-- `multiplier = power(max(bucket_indices, axis=0) + 1, arange(d))` -/
def bucketMult (b : List (List Nat)) : List Nat :=
  (List.range (b.headD []).length).map (fun j => (listMaxN (b.map (fun r => r.getD j 0)) + 1) ^ j)

/-- `sum(bucket_indices * multiplier, axis=1)` -/
def bucketFlat (b : List (List Nat)) : List Nat := b.map (fun r => dotN r (bucketMult b))

/-- `unique(flat, return_index=True)[1]`, sorted: the first position of every distinct value -/
def firstOcc (flat : List Nat) : List Nat :=
  (List.range flat.length).filter (fun i => !(flat.take i).contains (flat.getD i 0))

/-- `_filter_bucket(coordinates, min_distance)`: kept row indices -/
def filterBucket (md : Nat) (coords : List (List Int)) : List Nat :=
  firstOcc (bucketFlat (bucketRows md coords))

/-! ## C++ `max_index_by_label`, `PeakClustering.merge` -/

/-- `max_scores.insert({label, {score, i}})`, then replace the stored pair if `score >` the stored score -/
def miblIns (l s : Int) (i : Nat) : List (Int × Int × Nat) → List (Int × Int × Nat)
  | [] => [(l, s, i)]
  | e :: r => if e.1 = l then (if e.2.1 < s then (l, s, i) else e) :: r else e :: miblIns l s i r

def miblGo : Nat → List Int → List Int → List (Int × Int × Nat) → List (Int × Int × Nat)
  | i, l :: ls, s :: ss, acc => miblGo (i + 1) ls ss (miblIns l s i acc)
  | _, _, _, acc => acc

/-- `max_index_by_label(labels, scores)` as `(label, index)` pairs in order of first appearance
(the C++ returns a dict: the order is not observable) -/
def maxIndexByLabel (labels scores : List Int) : List (Int × Nat) :=
  (miblGo 0 labels scores []).map (fun e => (e.1, e.2.2))

/-- rows kept by `PeakClustering.merge`: the representatives of all labels but the noise label `-1`,
in row order -/
def clusterKeep (labels scores : List Int) : List Nat :=
  let reps := ((maxIndexByLabel labels scores).filter (fun e => e.1 != -1)).map (fun e => e.2)
  (List.range labels.length).filter (fun i => reps.contains i)

/-- what `PeakClustering.merge` ranks by and returns as score today: `candidate[2]`, the third coordinate -/
def clusterScore (p : Peak) : Int := p.pos.getD 2 0

/-- `PeakClustering.merge` after `super().merge`, given DBSCAN's labels: today's code
(`scores = np.array([candidate[2] for candidate in peaks])`) -/
def clusterMerge (peaks : List Peak) (labels : List Int) : List Peak :=
  (clusterKeep labels (peaks.map clusterScore)).filterMap (fun i =>
    (peaks[i]?).map (fun p => { p with score := clusterScore p }))

/-- the same selection ranking by the peaks' scores (what the docstring describes) -/
def clusterMergeByScore (peaks : List Peak) (labels : List Int) : List Peak :=
  (clusterKeep labels (peaks.map (fun p => p.score))).filterMap (fun i => peaks[i]?)

/-! ## `__call__` / `_update` with `batch_dims` -/

/-- `scores[subset]` -/
def subArr (a : Arr Int) (sel : List (Option Nat)) : Arr Int :=
  Arr.ofFn (selShape a.shape sel) (fun loc => a.getD (List.zipWith (· + ·) loc (selOffset sel)) 0)

/-- the margin test of `__call__` with `valid_peaks[..., batch_dims] = True`: batch axes are exempt -/
def inMarginB (mb : Nat) (bd : List Nat) : Nat → List Nat → List Nat → Bool
  | i, s :: ss, p :: ps =>
      (bd.contains i || (decide (mb ≤ p) && decide ((p : Int) < (s : Int) - (mb : Int)))) && inMarginB mb bd (i + 1) ss ps
  | _, _, _ => true

/-- the batch id `_update` computes: batch coordinates minus their column minimum, flattened with the
multipliers `(max_j + 1) ^ j` (the same non-injective flattening as in `_filter_bucket`) -/
def batchIds (bd : List Nat) (ps : List Peak) : List Nat :=
  let mins := bd.map (fun d => listMin (ps.map (fun p => p.pos.getD d 0)))
  let rows := ps.map (fun p => (List.range bd.length).map (fun j => (p.pos.getD (bd.getD j 0) 0 - mins.getD j 0).toNat))
  rows.map (fun r => dotN r ((List.range bd.length).map (fun j => (listMaxN (rows.map (fun r => r.getD j 0)) + 1) ^ j)))

/-- `_update` with `batch_dims`: per batch id (ascending) the top `min(count, number_of_peaks)` rows by score, then the
distance filter on the rescaled rows, in that order.  (Tie-free scores: `topkSort`.) -/
def updateB (cfg : Cfg) (bd : List Nat) (st cands : List Peak) : List Peak :=
  let all := st ++ cands
  let ids := batchIds bd all
  let uniq := (List.range (listMaxN ids + 1)).filter (fun x => ids.contains x)
  let order := uniq.flatMap (fun x =>
    let idxs := (List.range all.length).filter (fun i => ids.getD i 0 == x)
    let sc := idxs.map (fun i => (all.getD i ⟨[], 0, 0⟩).score)
    (topkSort sc (min idxs.length cfg.nPeaks)).map (fun k => idxs.getD k 0))
  filterPointsB cfg.minDist (some bd) (order.filterMap (fun i => all[i]?))

/-- the peaks one yielded `(subset, offset)` contributes: `call_peaks(scores[subset])`, offset added, margin on the
non-batch axes, score read from the whole array, score window -/
def batchCands (cfg : Cfg) (strat : Strategy) (bd : List Nat) (s : Sub) (sel : List (Option Nat)) : List Peak :=
  let cands := (callPeaks cfg strat (subArr s.scores sel) s.orc).map (fun c => List.zipWith (· + ·) c (selOffset sel))
  let c1 := if cfg.minBoundary > 0 then cands.filter (inMarginB cfg.minBoundary bd 0 s.scores.shape) else cands
  (c1.map (mkPeak s.scores s.rot)).filter (fun p => inWindow cfg p.score)

/-- one pass of the loop in `__call__` over a yielded `(subset, offset)` -/
def batchStep (cfg : Cfg) (strat : Strategy) (bd : List Nat) (s : Sub) (st : List Peak) (sel : List (Option Nat)) : List Peak :=
  if (batchCands cfg strat bd s sel).isEmpty then st else updateB cfg bd st (batchCands cfg strat bd s sel)

/-- one `PeakCaller.__call__` of a caller built with `batch_dims = bd` -/
def submitB (cfg : Cfg) (strat : Strategy) (bd : List Nat) (st : List Peak) (s : Sub) : List Peak :=
  (batchify s.scores.shape (some bd)).foldl (batchStep cfg strat bd s) st

/-- `tuple(peak_caller)` after a sequence of calls -/
def runB (cfg : Cfg) (strat : Strategy) (bd : List Nat) (subs : List Sub) : List Peak :=
  subs.foldl (submitB cfg strat bd) []

def runTraceB (cfg : Cfg) (strat : Strategy) (bd : List Nat) : List Peak → List Sub → List (List Peak)
  | _, [] => []
  | st, s :: ss => let st' := submitB cfg strat bd st s; st' :: runTraceB cfg strat bd st' ss

/-- `PeakCaller.merge(candidates, batch_dims=bd, offset=off, ...)`: a fresh caller with `batch_dims`, updated with every
non-empty candidate tuple (`none`: the empty tuple of a caller that stored nothing), the offset added to each -/
def mergeB (cfg : Cfg) (bd : List Nat) (off : Option (List Int)) : List Peak → List (Option (List Peak)) → List Peak
  | base, [] => base
  | base, none :: rest => mergeB cfg bd off base rest
  | base, some c :: rest => mergeB cfg bd off (updateB cfg bd base (c.map (shiftPeak off))) rest

end Pm.C05
