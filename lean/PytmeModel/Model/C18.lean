import PytmeModel.Model.Common
import PytmeModel.Model.C01
/-!
C18 — command-line pipeline: the multi-object pickle container (`matching_utils.write_pickle` / `load_pickle`)
and the reference position of a planted template in target voxel coordinates.
-/
namespace Pm.C18

/-- an item handed to `write_pickle`: an ordinary picklable object (payload abstracted to a string),
an ordinary *tuple* object (first element recorded, since `load_pickle` inspects it), or a `numpy.memmap`
(shape, dtype, backing file, content id) -/
inductive Item where
  | obj (payload : String)
  | tup (first : String) (rest : String)
  | memmap (shape : List Nat) (dtype : String) (file : String) (content : Nat)
deriving Repr, DecidableEq

/-- what is pickled for one item (`("np.memmap", shape, dtype, new_filename)` for memmaps) -/
inductive Rec where
  | obj (payload : String)
  | tup (first : String) (rest : String)
deriving Repr, DecidableEq

/-- file system: name ↦ content id -/
abbrev FS := List (String × Nat)

def FS.get (fs : FS) (f : String) : Option Nat := (fs.find? (·.1 == f)).map (·.2)
def FS.move (fs : FS) (src dst : String) : FS :=
  match FS.get fs src with
  | some c => (dst, c) :: fs.filter (fun p => p.1 != src && p.1 != dst)
  | none => fs

def encShape (shape : List Nat) (dtype : String) (file : String) : String :=
  toString shape ++ "|" ++ dtype ++ "|" ++ file

/-- `write_pickle`: memmaps are moved next to the output file (fresh names `fresh i`) and replaced by a marker -/
def writeItems (fresh : Nat → String) : Nat → FS → List Item → List Rec × FS
  | _, fs, [] => ([], fs)
  | i, fs, .obj p :: rest =>
      let (rs, fs') := writeItems fresh (i + 1) fs rest
      (.obj p :: rs, fs')
  | i, fs, .tup a b :: rest =>
      let (rs, fs') := writeItems fresh (i + 1) fs rest
      (.tup a b :: rs, fs')
  | i, fs, .memmap sh dt f _ :: rest =>
      let fs1 := FS.move fs f (fresh i)
      let (rs, fs') := writeItems fresh (i + 1) fs1 rest
      (.tup "np.memmap" (encShape sh dt (fresh i)) :: rs, fs')

/-- what `load_pickle` rebuilds from one record -/
inductive Loaded where
  | obj (payload : String)
  | tup (first : String) (rest : String)
  | memmap (enc : String)       -- np.memmap(filename, shape=shape, dtype=dtype)
deriving Repr, DecidableEq

def loadRec : Rec → Loaded
  | .obj p => .obj p
  | .tup a b => if a == "np.memmap" then .memmap b else .tup a b

/-- `load_pickle`: all records; a single record is returned bare, otherwise the list -/
def loadAll (rs : List Rec) : List Loaded := rs.map loadRec

/-- what the caller expects back for an item -/
def expected (fresh : Nat → String) (i : Nat) : Item → Loaded
  | .obj p => .obj p
  | .tup a b => .tup a b
  | .memmap sh dt _ _ => .memmap (encShape sh dt (fresh i))

def expectedAll (fresh : Nat → String) : Nat → List Item → List Loaded
  | _, [] => []
  | i, it :: rest => expected fresh i it :: expectedAll fresh (i + 1) rest

/-- no ordinary tuple item starts with the marker string (the container cannot tell it from a memmap record) -/
def NoFakeMarker : List Item → Prop
  | [] => True
  | .tup a _ :: rest => a ≠ "np.memmap" ∧ NoFakeMarker rest
  | _ :: rest => NoFakeMarker rest

/-- result files on disk: path ↦ the records last written there.  `write_pickle` opens its file with "wb": whatever an earlier
call (an earlier run of the tool with the same `-o`) left under that path is gone -/
abbrev Disk := List (String × List Rec)

def Disk.write (d : Disk) (path : String) (rs : List Rec) : Disk := (path, rs) :: d.filter (fun e => e.1 != path)
def Disk.read (d : Disk) (path : String) : Option (List Rec) := (d.find? (fun e => e.1 == path)).map (·.2)

/-- `--min_boundary_distance d` on an axis of extent `n`: the voxels post-processing may report (`centered_mask` keeps
`[d, n-d)`, the peak callers keep `d ≤ x < n - d`) -/
def keptAt (d n x : Nat) : Bool := decide (d ≤ x) && decide (x + d < n)

/-- reference position of a planted template: its box corner `P0` plus the voxel `m//2` the score frame uses -/
def refPos : List Nat → List Int → List Int
  | m :: ms, p :: ps => (p + ((m / 2 : Nat) : Int)) :: refPos ms ps
  | _, _ => []

/-- `P0 + k` -/
def boxPos : List Int → List Nat → List Int
  | p :: ps, k :: ks => (p + (k : Int)) :: boxPos ps ks
  | _, _ => []

end Pm.C18
