import PytmeModel.Model.Common
/-!
C04 — aggregation over rotations (`tme.analyzer.MaxScoreOverRotations`).

Mirrors
* `NumpyFFTWBackend.max_score_over_rotations` (strict `>` in-place update)            → `maxUpdate`
* `MaxScoreOverRotations.__init__/__call__` (lock path: `setdefault(bytes, len)`)     → `init`, `setdefault`, `submit`, `run`
* `MaxScoreOverRotations._postprocess` (roll by the Fourier shift, crop)              → `postprocess`
* `MaxScoreOverRotations.merge` (offset boxes, `lookup_table` re-mapping, strict `>`) → `merge`
* the read / write / write sequence of one submission as separate steps, with and
  without the lock                                                                   → `Sys`, `step`, `runSched`
* `__call__` on backends with unshared arrays (`lock_is_nullcontext`), with and without
  `only_unique_rotations`; `__iter__`'s inversion of the identifier → matrix dict     → `submitNoLock`, `submitInv`, `invertMap`, `iterInv`
* rotation keys = `rotation_matrix.tobytes()`, the docstring's way to read one back    → `matKey`, `keyMat`, `decodeRot`
* `use_memmap` in `__iter__` and `merge` (files = path → array store)                  → `FS`, `iterMem`, `storeToFiles`, `mergeStepMem`, `mergeOptMem`
* `MemmapHandler.__call__` (`array[indices] += scores` on the rotation's file)         → `memmapHandlerCall`, `memmapHandlerRun`

Score values are `Int`: the harness maps the (NaN-free) floats of a case to their ranks, an
order isomorphism, and only `>`/`=` are ever used on them.  Rotation keys are any type with
decidable equality (the driver uses the hex string of `rotation_matrix.tobytes()`).
-/
namespace Pm.C04

/-! ## rotation table: an insertion-ordered `dict` bytes → int -/

abbrev Table (K : Type) := List (K × Nat)

def lookup {K : Type} [DecidableEq K] (k : K) : Table K → Option Nat
  | [] => none
  | (k', i) :: t => if k' = k then some i else lookup k t

/-- `mapping.setdefault(key, len(mapping))`: the table afterwards and the identifier -/
def setdefault {K : Type} [DecidableEq K] (t : Table K) (k : K) : Table K × Nat :=
  match lookup k t with
  | some i => (t, i)
  | none => (t ++ [(k, t.length)], t.length)

/-! ## one analyzer -/

structure State (K : Type) where
  scores : Arr Int
  rots : Arr Int
  table : Table K

/-- `be.full(shape, score_threshold)`, `be.full(shape, -1)`, empty mapping -/
def init {K : Type} (shape : List Nat) (thr : Int) : State K :=
  ⟨Arr.ofFn shape (fun _ => thr), Arr.ofFn shape (fun _ => -1), []⟩

/-- `indices = scores > max_scores; max_scores[indices] = scores[indices];
rotations[indices] = rotation_index` -/
def maxUpdate (sc mx rt : Arr Int) (ri : Int) : Arr Int × Arr Int :=
  (Arr.ofFn mx.shape (fun idx => if sc.getD idx 0 > mx.getD idx 0 then sc.getD idx 0 else mx.getD idx 0),
   Arr.ofFn mx.shape (fun idx => if sc.getD idx 0 > mx.getD idx 0 then ri else rt.getD idx 0))

/-- `MaxScoreOverRotations.__call__` (lock path) as one atomic action -/
def submit {K : Type} [DecidableEq K] (s : State K) (a : Arr Int) (k : K) : State K :=
  let ti := setdefault s.table k
  let mr := maxUpdate a s.scores s.rots ti.2
  ⟨mr.1, mr.2, ti.1⟩

def runFrom {K : Type} [DecidableEq K] (s : State K) (h : List (Arr Int × K)) : State K :=
  h.foldl (fun s ak => submit s ak.1 ak.2) s

/-- a fresh analyzer after the history `h` -/
def run {K : Type} [DecidableEq K] (shape : List Nat) (thr : Int) (h : List (Arr Int × K)) : State K :=
  runFrom (init shape thr) h

/-! ## specification side: what the property says a voxel must hold -/

/-- largest of the threshold and the submitted values -/
def specMax (thr : Int) (vals : List Int) : Int := vals.foldl max thr

/-- the values a history submitted at one voxel -/
def valsAt {K : Type} (h : List (Arr Int × K)) (idx : List Nat) : List Int := h.map (fun ak => ak.1.getD idx 0)

/-! ## `_postprocess`: roll by the Fourier shift, then crop `[start, start+ext)` per axis -/

/-- source index of output voxel `idx`: crop start added, roll undone (per axis, modular) -/
def postSrc (shape : List Nat) (shift : List Int) (starts : List Nat) (idx : List Nat) : List Nat :=
  match shape, shift, starts, idx with
  | n :: ns, s :: ss, st :: sts, i :: is => rollSrc n s (i + st) :: postSrc ns ss sts is
  | _, _, _, _ => []

def postArr (a : Arr Int) (shift : List Int) (starts exts : List Nat) : Arr Int :=
  Arr.ofFn exts (fun idx => a.getD (postSrc a.shape shift starts idx) 0)

def postprocess {K : Type} (s : State K) (shift : List Int) (starts exts : List Nat) : State K :=
  ⟨postArr s.scores shift starts exts, postArr s.rots shift starts exts, s.table⟩

/-! ## merge -/

/-- `tuple(analyzer)`: scores, offset, rotations, mapping -/
structure Store (K : Type) where
  scores : Arr Int
  offset : List Nat
  rots : Arr Int
  table : Table K

def State.toStore {K : Type} (s : State K) (offset : List Nat) : Store K := ⟨s.scores, offset, s.rots, s.table⟩

/-- position of the absolute voxel `p` inside the box `[off, off+shape)`, if it lies in it -/
def localIdx : List Nat → List Nat → List Nat → Option (List Nat)
  | [], [], [] => some []
  | o :: os, s :: ss, x :: xs =>
      if o ≤ x ∧ x < o + s then (localIdx os ss xs).map (fun q => (x - o) :: q) else none
  | _, _, _ => none

/-- `np.maximum(out_shape, np.add(offset, scores.shape))` -/
def growShape (acc off shape : List Nat) : List Nat :=
  List.zipWith max acc (List.zipWith (· + ·) off shape)

def outShape {K : Type} (ss : List (Store K)) : List Nat :=
  match ss with
  | [] => []
  | s :: _ => ss.foldl (fun acc s => growShape acc s.offset s.scores.shape) (List.replicate s.scores.shape.length 0)

/-- `if key not in new_rotation_mapping: new_rotation_mapping[key] = len(new_rotation_mapping)` -/
def addKey {K : Type} [DecidableEq K] (t : Table K) (k : K) : Table K := (setdefault t k).1

def addKeys {K : Type} [DecidableEq K] (t : Table K) (src : Table K) : Table K :=
  src.foldl (fun t kv => addKey t kv.1) t

def newTable {K : Type} [DecidableEq K] (ss : List (Store K)) : Table K :=
  ss.foldl (fun t s => addKeys t s.table) []

/-- `lookup_table = arange(len(mapping)+1); for key, value: lookup_table[value] = new[key]` -/
def lookupTable {K : Type} [DecidableEq K] (t new : Table K) : List Int :=
  t.foldl (fun l kv => l.set kv.2 (Int.ofNat ((lookup kv.1 new).getD 0)))
    ((List.range (t.length + 1)).map Int.ofNat)

/-- numpy indexing `lut[r]` with a possibly negative `r`; `-2` stands for IndexError -/
def lutGet (l : List Int) (r : Int) : Int :=
  if r < 0 then (if r.natAbs ≤ l.length then l.getD (l.length - r.natAbs) (-2) else -2)
  else l.getD r.toNat (-2)

/-- one pass of the second loop of `merge` for the store `s` -/
def mergeStep {K : Type} [DecidableEq K] (out : List Nat) (new : Table K)
    (acc : Arr Int × Arr Int) (s : Store K) : Arr Int × Arr Int :=
  let lut := lookupTable s.table new
  (Arr.ofFn out (fun p =>
      match localIdx s.offset s.scores.shape p with
      | some q => if s.scores.getD q 0 > acc.1.getD p 0 then s.scores.getD q 0 else acc.1.getD p 0
      | none => acc.1.getD p 0),
   Arr.ofFn out (fun p =>
      match localIdx s.offset s.scores.shape p with
      | some q => if s.scores.getD q 0 > acc.1.getD p 0 then lutGet lut (s.rots.getD q 0) else acc.2.getD p 0
      | none => acc.2.getD p 0))

/-- the general path of `merge` (two or more stores, or zero) -/
def mergeMany {K : Type} [DecidableEq K] (thr : Int) (ss : List (Store K)) : Store K :=
  let out := outShape ss
  let new := newTable ss
  let r := ss.foldl (mergeStep out new) (Arr.ofFn out (fun _ => thr), Arr.ofFn out (fun _ => -1))
  ⟨r.1, List.replicate out.length 0, r.2, new⟩

/-- `MaxScoreOverRotations.merge(param_stores, score_threshold=thr)`; `none` for an empty list -/
def merge {K : Type} [DecidableEq K] (thr : Int) (ss : List (Store K)) : Option (Store K) :=
  match ss with
  | [] => none
  | [s] => some s          -- `if len(param_stores) == 1: return param_stores[0]`
  | _ => some (mergeMany thr ss)

/-- `merge` as called: entries may be `None` (skipped by both loops); the single-entry shortcut is taken on the
raw list length, before `None`s are skipped -/
def mergeOpt {K : Type} [DecidableEq K] (thr : Int) (ps : List (Option (Store K))) : Option (Store K) :=
  match ps with
  | [p] => p
  | _ =>
    match ps.filterMap id with
    | [] => none                 -- `if out_shape is None: return None`
    | ss => some (mergeMany thr ss)

/-- value a store holds for the absolute voxel `p`, if its box covers it -/
def Store.valAt? {K : Type} (s : Store K) (p : List Nat) : Option Int :=
  (localIdx s.offset s.scores.shape p).map (fun q => s.scores.getD q 0)

/-- rotation identifier a store holds for the absolute voxel `p` -/
def Store.rotAt? {K : Type} (s : Store K) (p : List Nat) : Option Int :=
  (localIdx s.offset s.scores.shape p).map (fun q => s.rots.getD q 0)

/-- rotation key stored for `p` (through the store's own table) -/
def keyOf {K : Type} (t : Table K) (r : Int) : Option K :=
  if r < 0 then none else (t.find? (fun kv => kv.2 = r.toNat)).map Prod.fst

/-! ## specification side for tilings: a partial problem and everything submitted anywhere -/

/-- one partial problem: a box of the larger volume and the history submitted to its analyzer -/
structure Tile (K : Type) where
  offset : List Nat
  shape : List Nat
  hist : List (Arr Int × K)

/-- `tuple(analyzer)` of the tile's analyzer -/
def tileStore {K : Type} [DecidableEq K] (thr : Int) (t : Tile K) : Store K :=
  (run t.shape thr t.hist).toStore t.offset

/-- values submitted at the absolute voxel `p` through tile `t` -/
def tileVals {K : Type} (t : Tile K) (p : List Nat) : List Int :=
  match localIdx t.offset t.shape p with
  | some q => valsAt t.hist q
  | none => []

/-- everything submitted at the absolute voxel `p`, through any tile -/
def allVals {K : Type} (ts : List (Tile K)) (p : List Nat) : List Int := ts.flatMap (fun t => tileVals t p)

/-! ## several submitters, one shared analyzer: the steps of `__call__` one at a time -/

inductive PC where
  | idle                                   -- outside `with self.lock`
  | locked                                 -- inside, before `setdefault`
  | indexed (i : Nat)                      -- `rotation_index` known
  | masked (i : Nat) (m : Arr Bool)        -- `indices = scores > max_scores` evaluated (the read)
  | wrote (i : Nat) (m : Arr Bool)         -- `max_scores[indices] = scores[indices]` done

structure Proc (K : Type) where
  todo : List (Arr Int × K)
  pc : PC

structure Sys (K : Type) where
  shared : State K
  lock : Option Nat
  procs : Nat → Proc K

def setProc {K : Type} (procs : Nat → Proc K) (pid : Nat) (p : Proc K) : Nat → Proc K :=
  fun j => if j = pid then p else procs j

/-- one step of process `pid`.  With `useLock` a process that finds the lock taken does not move. -/
def step {K : Type} [DecidableEq K] (useLock : Bool) (sys : Sys K) (pid : Nat) : Sys K :=
  let p := sys.procs pid
  match p.todo with
  | [] => sys
  | (a, k) :: rest =>
    match p.pc with
    | .idle =>
        if useLock then
          match sys.lock with
          | none => { sys with lock := some pid, procs := setProc sys.procs pid ⟨p.todo, .locked⟩ }
          | some _ => sys
        else { sys with procs := setProc sys.procs pid ⟨p.todo, .locked⟩ }
    | .locked =>
        let ti := setdefault sys.shared.table k
        { sys with shared := { sys.shared with table := ti.1 }, procs := setProc sys.procs pid ⟨p.todo, .indexed ti.2⟩ }
    | .indexed i =>
        let m := Arr.ofFn sys.shared.scores.shape (fun idx => decide (a.getD idx 0 > sys.shared.scores.getD idx 0))
        { sys with procs := setProc sys.procs pid ⟨p.todo, .masked i m⟩ }
    | .masked i m =>
        let sc := Arr.ofFn sys.shared.scores.shape (fun idx => if m.getD idx false then a.getD idx 0 else sys.shared.scores.getD idx 0)
        { sys with shared := { sys.shared with scores := sc }, procs := setProc sys.procs pid ⟨p.todo, .wrote i m⟩ }
    | .wrote i m =>
        let rt := Arr.ofFn sys.shared.scores.shape (fun idx => if m.getD idx false then (i : Int) else sys.shared.rots.getD idx 0)
        { shared := { sys.shared with rots := rt },
          lock := if useLock then none else sys.lock,
          procs := setProc sys.procs pid ⟨rest, .idle⟩ }

def runSched {K : Type} [DecidableEq K] (useLock : Bool) (sys : Sys K) (sched : List Nat) : Sys K :=
  sched.foldl (step useLock) sys

def sysInit {K : Type} (shape : List Nat) (thr : Int) (work : List (List (Arr Int × K))) : Sys K :=
  ⟨init shape thr, none, fun j => ⟨work.getD j [], .idle⟩⟩

/-- every one of the first `n` processes has finished its work -/
def allDone {K : Type} (sys : Sys K) (n : Nat) : Bool :=
  (List.range n).all (fun j => (sys.procs j).todo.isEmpty)

/-! ## the path without a lock, and `only_unique_rotations`

Backends whose arrays are not shared between processes (`to_sharedarr` is the identity: cupy, jax, mlx)
make `lock_is_nullcontext` true; `__call__` then runs without the lock, and with `only_unique_rotations`
it keeps an identifier → matrix dict that `__iter__` inverts. -/

/-- `rotation_index = len(mapping); rotation_index = mapping.setdefault(bytes, rotation_index)`, then the
backend's update -/
def submitNoLock {K : Type} [DecidableEq K] (s : State K) (a : Arr Int) (k : K) : State K :=
  let i := s.table.length
  let j := match lookup k s.table with
    | some j => j
    | none => i
  let t := match lookup k s.table with
    | some _ => s.table
    | none => s.table ++ [(k, i)]
  let mr := maxUpdate a s.scores s.rots j
  ⟨mr.1, mr.2, t⟩

def runNoLock {K : Type} [DecidableEq K] (shape : List Nat) (thr : Int) (h : List (Arr Int × K)) : State K :=
  h.foldl (fun s ak => submitNoLock s ak.1 ak.2) (init shape thr)

/-- python `d[key] = value` on an insertion-ordered dict: an existing key keeps its position -/
def dictSet {A B : Type} [DecidableEq A] : List (A × B) → A → B → List (A × B)
  | [], k, v => [(k, v)]
  | (k', v') :: t, k, v => if k' = k then (k', v) :: t else (k', v') :: dictSet t k v

/-- analyzer on the `_inversion_mapping` path: `rotation_mapping` maps identifier → matrix -/
structure IState (K : Type) where
  scores : Arr Int
  rots : Arr Int
  imap : List (Nat × K)

def initInv {K : Type} (shape : List Nat) (thr : Int) : IState K :=
  ⟨Arr.ofFn shape (fun _ => thr), Arr.ofFn shape (fun _ => -1), []⟩

/-- `rotation_index = len(mapping); mapping[rotation_index] = rotation_matrix`, then the backend's update -/
def submitInv {K : Type} (s : IState K) (a : Arr Int) (k : K) : IState K :=
  let i := s.imap.length
  let mr := maxUpdate a s.scores s.rots i
  ⟨mr.1, mr.2, dictSet s.imap i k⟩

def runInv {K : Type} (shape : List Nat) (thr : Int) (h : List (Arr Int × K)) : IState K :=
  h.foldl (fun s ak => submitInv s ak.1 ak.2) (initInv shape thr)

/-- `{be.tobytes(v): k for k, v in self.rotation_mapping.items()}` -/
def invertMap {K : Type} [DecidableEq K] (m : List (Nat × K)) : Table K :=
  m.foldl (fun t ik => dictSet t ik.2 ik.1) []

/-- `tuple(analyzer)` on the `_inversion_mapping` path -/
def iterInv {K : Type} [DecidableEq K] (s : IState K) (offset : List Nat) : Store K :=
  ⟨s.scores, offset, s.rots, invertMap s.imap⟩

/-! ## rotation keys are the bytes of the matrix; reading a rotation back from a result

A matrix is a list of rows of machine words (`W`: one float of the matrix' dtype); `tobytes()` lists them in
C order, `np.frombuffer(key, dtype).reshape(n, n)` cuts the key into rows again. -/

/-- `rotation_matrix.tobytes()` -/
def matKey {W : Type} (m : List (List W)) : List W := m.flatten

def rowsOf {W : Type} (n : Nat) : Nat → List W → List (List W)
  | 0, _ => []
  | r + 1, l => l.take n :: rowsOf n r (l.drop n)

/-- `np.frombuffer(key, dtype).reshape(n, n)` -/
def keyMat {W : Type} (n : Nat) (key : List W) : List (List W) := rowsOf n n key

/-- an `n × n` matrix -/
def IsMat {W : Type} (n : Nat) (m : List (List W)) : Prop := m.length = n ∧ ∀ row ∈ m, row.length = n

instance {W : Type} (n : Nat) (m : List (List W)) : Decidable (IsMat n m) := by
  unfold IsMat; exact inferInstance

/-- the procedure of the class docstring: the key whose value is the identifier, read as a matrix -/
def decodeRot {W : Type} (n : Nat) (t : Table (List W)) (r : Int) : Option (List (List W)) :=
  (keyOf t r).map (keyMat n)

/-! ## `use_memmap`: the arrays of a result live in files

A file system is a list of file contents, a path is a position in it, a fresh name
(`generate_tempfile_name`) is the next free position. -/

abbrev FS := List (Arr Int)

def FS.read (fs : FS) (p : Nat) : Arr Int := fs.getD p ⟨[], #[]⟩
def FS.write (fs : FS) (p : Nat) (a : Arr Int) : FS := fs.set p a
/-- `array_to_memmap(arr)` / `np.memmap(generate_tempfile_name(), mode="w+")` + fill: contents and the new path -/
def FS.create (fs : FS) (a : Arr Int) : FS × Nat := (fs ++ [a], fs.length)

/-- a store whose two arrays are memory maps of files -/
structure MStore (K : Type) where
  scores : Nat
  offset : List Nat
  rots : Nat
  table : Table K

/-- what one reads through the memory maps -/
def MStore.load {K : Type} (fs : FS) (m : MStore K) : Store K :=
  ⟨fs.read m.scores, m.offset, fs.read m.rots, m.table⟩

/-- `tuple(analyzer)` with `use_memmap=True`: both arrays are written to fresh files and mapped read-only -/
def iterMem {K : Type} (fs : FS) (s : State K) (offset : List Nat) : FS × MStore K :=
  let c1 := fs.create s.scores
  let c2 := c1.1.create s.rots
  (c2.1, ⟨c1.2, offset, c2.2, s.table⟩)

/-- the same for a result that is already a tuple (`array_to_memmap` on both arrays) -/
def storeToFiles {K : Type} (fs : FS) (s : Store K) : FS × MStore K :=
  let c1 := fs.create s.scores
  let c2 := c1.1.create s.rots
  (c2.1, ⟨c1.2, s.offset, c2.2, s.table⟩)

/-- several analyzers hand out their memory maps one after the other -/
def iterMemAll {K : Type} (fs : FS) : List (Store K) → FS × List (MStore K)
  | [] => (fs, [])
  | s :: ss =>
    let c := storeToFiles fs s
    let r := iterMemAll c.1 ss
    (r.1, c.2 :: r.2)

/-- one pass of the second loop of `merge(use_memmap=True)`: the output files are re-opened `r+`, updated through
the same comparison as in memory, flushed -/
def mergeStepMem {K : Type} [DecidableEq K] (out : List Nat) (new : Table K) (po pr : Nat) (fs : FS)
    (m : MStore K) : FS :=
  let r := mergeStep out new (fs.read po, fs.read pr) (m.load fs)
  (fs.write po r.1).write pr r.2

/-- the general path of `merge(use_memmap=True)` -/
def mergeManyMem {K : Type} [DecidableEq K] (thr : Int) (fs : FS) (ms : List (MStore K)) : FS × MStore K :=
  let ss := ms.map (MStore.load fs)
  let out := outShape ss
  let new := newTable ss
  let c1 := fs.create (Arr.ofFn out (fun _ => thr))
  let c2 := c1.1.create (Arr.ofFn out (fun _ => -1))
  (ms.foldl (mergeStepMem out new c1.2 c2.2) c2.1, ⟨c1.2, List.replicate out.length 0, c2.2, new⟩)

/-- `merge(param_stores, use_memmap=True)` as called (`None` entries, single-entry shortcut) -/
def mergeOptMem {K : Type} [DecidableEq K] (thr : Int) (fs : FS) (ps : List (Option (MStore K))) :
    FS × Option (MStore K) :=
  match ps with
  | [p] => (fs, p)
  | _ =>
    match ps.filterMap id with
    | [] => (fs, none)
    | ms => ((mergeManyMem thr fs ms).1, some (mergeManyMem thr fs ms).2)

/-! ## `MemmapHandler`: one file per rotation, `array[indices] += scores` -/

/-- `MemmapHandler.__call__`: the file of the rotation (`_path_translation`) is opened `r+` and the submitted
array is added to the box `[start, start+shape)` of it; `none` when the rotation has no file (`KeyError`) -/
def memmapHandlerCall {K : Type} [DecidableEq K] (paths : Table K) (starts : List Nat) (fs : FS)
    (a : Arr Int) (k : K) : Option FS :=
  match lookup k paths with
  | none => none
  | some p =>
    let f := fs.read p
    some (fs.write p (Arr.ofFn f.shape (fun idx =>
      match localIdx starts a.shape idx with
      | some q => f.getD idx 0 + a.getD q 0
      | none => f.getD idx 0)))

def memmapHandlerRun {K : Type} [DecidableEq K] (paths : Table K) (starts : List Nat) (fs : FS)
    (h : List (Arr Int × K)) : Option FS :=
  h.foldl (fun o ak => o.bind (fun fs => memmapHandlerCall paths starts fs ak.1 ak.2)) (some fs)

/-- specification side: what a history adds to voxel `idx` of the file `p` -/
def handlerAdded {K : Type} [DecidableEq K] (paths : Table K) (starts : List Nat) (h : List (Arr Int × K))
    (p : Nat) (idx : List Nat) : Int :=
  match h with
  | [] => 0
  | ak :: t =>
    (if lookup ak.2 paths = some p then
      (match localIdx starts ak.1.shape idx with
        | some q => ak.1.getD q 0
        | none => 0)
     else 0) + handlerAdded paths starts t p idx

/-! ## specification side: everything submitted to a tiling, as one history of one analyzer of the merged volume -/

/-- first-seen numbering of a sequence of rotations -/
def tableOf {K : Type} [DecidableEq K] (t0 : Table K) (ks : List K) : Table K := ks.foldl addKey t0

/-- keys of everything submitted through the tiles, in the order of the tiles -/
def allKeys {K : Type} (ts : List (Tile K)) : List K := ts.flatMap (fun t => t.hist.map Prod.snd)

/-- a partial array placed in the larger volume, the threshold outside its box -/
def embed (thr : Int) (out off shp : List Nat) (a : Arr Int) : Arr Int :=
  Arr.ofFn out (fun p => match localIdx off shp p with
    | some q => a.getD q 0
    | none => thr)

def tileEmb {K : Type} (thr : Int) (out : List Nat) (t : Tile K) : List (Arr Int × K) :=
  t.hist.map (fun ak => (embed thr out t.offset t.shape ak.1, ak.2))

/-- everything submitted to any tile, as submissions to one analyzer of the whole volume, tile after tile -/
def bigHist {K : Type} (thr : Int) (out : List Nat) (ts : List (Tile K)) : List (Arr Int × K) := ts.flatMap (tileEmb thr out)

end Pm.C04
