import PytmeModel.Model.Common
/-!
C13 — FFT shapes, padding and cropping helpers (per-axis arithmetic and n-D array ops).

Mirrors: `NumpyFFTWBackend.compute_convolution_shapes`, `memory._compute_convolution_shapes`,
`pyfftw.next_fast_len`, `topleft_pad`, `extract_center`, `matching_utils._center_slice`,
`centered`, `apply_convolution_mode`.
-/
namespace Pm.C13

/-- remove all factors `p` from `n` (fuel-bounded; `fuel = n` always suffices) -/
def strip (p : Nat) : Nat → Nat → Nat
  | 0, n => n
  | f+1, n => if 1 < p ∧ 0 < n ∧ n % p = 0 then strip p f (n / p) else n

/-- FFTW-fast length: `2^a 3^b 5^c 7^d 11^e 13^f`, `e + f ≤ 1` -/
def isFast (n : Nat) : Bool :=
  let r := strip 7 n (strip 5 n (strip 3 n (strip 2 n n)))
  r == 1 || r == 11 || r == 13

def nextFastFrom : Nat → Nat → Nat
  | 0, n => n
  | f+1, n => if isFast n then n else nextFastFrom f (n + 1)

/-- `pyfftw.next_fast_len` (a power of two lies in `[n, 2n)`, so fuel `n+1` is enough;
`next_fast_len 0 = 0`). -/
def nextFastLen (n : Nat) : Nat := if n = 0 then 0 else nextFastFrom (n + 1) n

/-- per-axis linear convolution extent -/
def convLen (a b : Nat) : Nat := a + b - 1

def convShape (s1 s2 : List Nat) : List Nat := List.zipWith convLen s1 s2
def fastShape (s1 s2 : List Nat) : List Nat := (convShape s1 s2).map nextFastLen

/-- half-spectrum length of a real transform of length `N` -/
def halfLen (N : Nat) : Nat := N / 2 + 1

/-- `fast_ft_shape`: last axis halved -/
def fastFtShape (fast : List Nat) : List Nat :=
  match fast.reverse with
  | [] => []
  | l :: rest => (halfLen l :: rest).reverse

/-- `_center_slice`: start (floor division, may be negative when growing) and stop -/
def centerStart (cur new : Nat) : Int := ((cur : Int) - (new : Int)) / 2   -- Int `/` is floor for positive divisor
def centerStop (cur new : Nat) : Int := centerStart cur new + new

/-- `extract_center`: `astype(int)` truncates toward zero -/
def extractStart (cur new : Nat) : Int := Int.tdiv ((cur : Int) - (new : Int)) 2
def extractStop (cur new : Nat) : Int := extractStart cur new + new

/-- python slice semantics on an axis of length `n` for `slice(start, stop)` with possibly
negative bounds (negative = counted from the end, then clipped).  Returns (lo, hi) with the
selected indices `lo ≤ i < hi`. -/
def pySlice (n : Nat) (start stop : Int) : Nat × Nat :=
  let norm (x : Int) : Nat := if x < 0 then (x + n).toNat else min x.toNat n
  let lo := norm start
  let hi := norm stop
  (lo, max lo hi)

/-- extent per axis of `apply_convolution_mode` (arr first cut to the convolution shape) -/
def validLen (s1 s2 : Nat) : Int := (s1 : Int) - s2 + (s2 % 2 : Nat)

inductive Mode | full | same | valid
deriving DecidableEq, Repr

/-- (start, extent) of the crop that `apply_convolution_mode` takes out of an axis of the
convolution shape `conv`; `none` when the requested extent is negative. -/
def convCrop (mode : Mode) (conv s1 s2 : Nat) : Option (Nat × Nat) :=
  match mode with
  | .full => some (0, conv)
  | .same =>
      let (lo, hi) := pySlice conv (centerStart conv s1) (centerStop conv s1)
      some (lo, hi - lo)
  | .valid =>
      let v := validLen s1 s2
      if v < 0 then none else
      let (lo, hi) := pySlice conv (centerStart conv v.toNat) (centerStop conv v.toNat)
      some (lo, hi - lo)

/-- `topleft_pad`: data in the leading corner, `pad` elsewhere, larger input cropped. -/
def topleftPad {α : Type} (a : Arr α) (shape : List Nat) (pad : α) : Arr α :=
  Arr.ofFn shape (fun idx => if inShape a.shape idx then a.getD idx pad else pad)

/-- crop `[start, start+ext)` per axis -/
def crop {α : Type} (a : Arr α) (starts exts : List Nat) (d : α) : Arr α :=
  Arr.ofFn exts (fun idx => a.getD (List.zipWith (· + ·) starts idx) d)

/-- n-D box `[lo, hi)` per axis that `centered` / `_center_slice` cut out of an array of shape `cur` -/
def centeredBox (cur new : List Nat) : List (Nat × Nat) :=
  List.zipWith (fun c n => pySlice c (centerStart c n) (centerStop c n)) cur new

/-- n-D box of `extract_center` (truncating division) -/
def extractBox (cur new : List Nat) : List (Nat × Nat) :=
  List.zipWith (fun c n => pySlice c (extractStart c n) (extractStop c n)) cur new

/-- index inside a box `[lo, hi)` per axis -/
def inBox : List (Nat × Nat) → List Nat → Bool
  | [], [] => true
  | (lo, hi) :: bs, i :: is => decide (lo ≤ i) && decide (i < hi) && inBox bs is
  | _, _ => false

/-- `centered_mask`: the array keeps its shape, values inside the centre box are kept, the rest is zero -/
def centeredMask (a : Arr Int) (new : List Nat) : Arr Int :=
  Arr.ofFn a.shape (fun idx => if inBox (centeredBox a.shape new) idx then a.getD idx 0 else 0)

/-- `apply_convolution_mode(..., mask_output=True)`: the array is first cut to the convolution shape
`conv` (leading corner), then the centre box of the mode is kept and the rest zeroed. -/
def convMask (mode : Mode) (a : Arr Int) (conv s1 s2 : List Nat) : Option (Arr Int) :=
  let c := crop a (conv.map fun _ => 0) (List.zipWith min conv a.shape) 0
  match mode with
  | .full => some c
  | .same => some (centeredMask c s1)
  | .valid =>
      let v := List.zipWith validLen s1 s2
      if v.any (· < 0) then none else some (centeredMask c (v.map Int.toNat))

end Pm.C13
