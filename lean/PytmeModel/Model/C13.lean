import PytmeModel.Model.Common
/-!
C13 — FFT shapes, padding and cropping helpers (per-axis arithmetic and n-D array ops).

Mirrors: `NumpyFFTWBackend.compute_convolution_shapes`, `memory._compute_convolution_shapes`,
`pyfftw.next_fast_len`, `topleft_pad`, `extract_center`, `matching_utils._center_slice`,
`centered`, `apply_convolution_mode`.
-/
namespace Pm.C13

/-- remove all factors `p` from `n` (fuel-bounded; `fuel = n` always suffices) -/
def strip (p : Nat) : Nat → Nat → Nat
  | 0, n => n
  | f+1, n => if 1 < p ∧ 0 < n ∧ n % p = 0 then strip p f (n / p) else n

/-- FFTW-fast length: `2^a 3^b 5^c 7^d 11^e 13^f`, `e + f ≤ 1` -/
def isFast (n : Nat) : Bool :=
  let r := strip 7 n (strip 5 n (strip 3 n (strip 2 n n)))
  r == 1 || r == 11 || r == 13

def nextFastFrom : Nat → Nat → Nat
  | 0, n => n
  | f+1, n => if isFast n then n else nextFastFrom f (n + 1)

/-- `pyfftw.next_fast_len` (a power of two lies in `[n, 2n)`, so fuel `n+1` is enough;
`next_fast_len 0 = 0`). -/
def nextFastLen (n : Nat) : Nat := if n = 0 then 0 else nextFastFrom (n + 1) n

/-- per-axis linear convolution extent -/
def convLen (a b : Nat) : Nat := a + b - 1

def convShape (s1 s2 : List Nat) : List Nat := List.zipWith convLen s1 s2
def fastShape (s1 s2 : List Nat) : List Nat := (convShape s1 s2).map nextFastLen

/-- half-spectrum length of a real transform of length `N` -/
def halfLen (N : Nat) : Nat := N / 2 + 1

/-- `fast_ft_shape`: last axis halved -/
def fastFtShape (fast : List Nat) : List Nat :=
  match fast.reverse with
  | [] => []
  | l :: rest => (halfLen l :: rest).reverse

/-- `_center_slice`: start (floor division, may be negative when growing) and stop -/
def centerStart (cur new : Nat) : Int := ((cur : Int) - (new : Int)) / 2   -- Int `/` is floor for positive divisor
def centerStop (cur new : Nat) : Int := centerStart cur new + new

/-- `extract_center`: `astype(int)` truncates toward zero -/
def extractStart (cur new : Nat) : Int := Int.tdiv ((cur : Int) - (new : Int)) 2
def extractStop (cur new : Nat) : Int := extractStart cur new + new

/-- python slice semantics on an axis of length `n` for `slice(start, stop)` with possibly
negative bounds (negative = counted from the end, then clipped).  Returns (lo, hi) with the
selected indices `lo ≤ i < hi`. -/
def pySlice (n : Nat) (start stop : Int) : Nat × Nat :=
  let norm (x : Int) : Nat := if x < 0 then (x + n).toNat else min x.toNat n
  let lo := norm start
  let hi := norm stop
  (lo, max lo hi)

/-- extent per axis of `apply_convolution_mode` (arr first cut to the convolution shape) -/
def validLen (s1 s2 : Nat) : Int := (s1 : Int) - s2 + (s2 % 2 : Nat)

inductive Mode | full | same | valid
deriving DecidableEq, Repr

/-- (start, extent) of the crop that `apply_convolution_mode` takes out of an axis of the
convolution shape `conv`; `none` when the requested extent is negative. -/
def convCrop (mode : Mode) (conv s1 s2 : Nat) : Option (Nat × Nat) :=
  match mode with
  | .full => some (0, conv)
  | .same =>
      let (lo, hi) := pySlice conv (centerStart conv s1) (centerStop conv s1)
      some (lo, hi - lo)
  | .valid =>
      let v := validLen s1 s2
      if v < 0 then none else
      let (lo, hi) := pySlice conv (centerStart conv v.toNat) (centerStop conv v.toNat)
      some (lo, hi - lo)

/-- `topleft_pad`: data in the leading corner, `pad` elsewhere, larger input cropped. -/
def topleftPad {α : Type} (a : Arr α) (shape : List Nat) (pad : α) : Arr α :=
  Arr.ofFn shape (fun idx => if inShape a.shape idx then a.getD idx pad else pad)

/-- crop `[start, start+ext)` per axis -/
def crop {α : Type} (a : Arr α) (starts exts : List Nat) (d : α) : Arr α :=
  Arr.ofFn exts (fun idx => a.getD (List.zipWith (· + ·) starts idx) d)

/-- n-D box `[lo, hi)` per axis that `centered` / `_center_slice` cut out of an array of shape `cur` -/
def centeredBox (cur new : List Nat) : List (Nat × Nat) :=
  List.zipWith (fun c n => pySlice c (centerStart c n) (centerStop c n)) cur new

/-- n-D box of `extract_center` (truncating division) -/
def extractBox (cur new : List Nat) : List (Nat × Nat) :=
  List.zipWith (fun c n => pySlice c (extractStart c n) (extractStop c n)) cur new

/-- index inside a box `[lo, hi)` per axis -/
def inBox : List (Nat × Nat) → List Nat → Bool
  | [], [] => true
  | (lo, hi) :: bs, i :: is => decide (lo ≤ i) && decide (i < hi) && inBox bs is
  | _, _ => false

/-- `centered_mask`: the array keeps its shape, values inside the centre box are kept, the rest is zero -/
def centeredMask (a : Arr Int) (new : List Nat) : Arr Int :=
  Arr.ofFn a.shape (fun idx => if inBox (centeredBox a.shape new) idx then a.getD idx 0 else 0)

/-- `apply_convolution_mode(..., mask_output=True)`: the array is first cut to the convolution shape
`conv` (leading corner), then the centre box of the mode is kept and the rest zeroed. -/
def convMask (mode : Mode) (a : Arr Int) (conv s1 s2 : List Nat) : Option (Arr Int) :=
  let c := crop a (conv.map fun _ => 0) (List.zipWith min conv a.shape) 0
  match mode with
  | .full => some c
  | .same => some (centeredMask c s1)
  | .valid =>
      let v := List.zipWith validLen s1 s2
      if v.any (· < 0) then none else some (centeredMask c (v.map Int.toNat))

/-! ## `MatchingData._fourier_padding` (tme/matching_data.py): the four-tuple the searches plan with

The numpy code works on whole vectors; true divisions (`np.divide(·, 2)`) produce halves, which the model
carries as *twice* the value (an integer) until the final `astype(int)` (truncation toward zero). -/

def zip3With {α β γ δ : Type} (f : α → β → γ → δ) : List α → List β → List γ → List δ
  | a :: as, b :: bs, c :: cs => f a b c :: zip3With f as bs cs
  | _, _, _ => []

/-- `fourier_pad` per axis: `template * (1 - batch) + batch` with padding, `1 * (1 - batch) + batch` without
(`batch ∈ {0,1}` is carried as a `Bool`) -/
def fourierPadAxis (pad : Bool) (m : Nat) (b : Bool) : Nat := if b then 1 else if pad then m else 1

/-- `fourier_shift` before the template-larger-than-target correction: zeros with padding,
`1 - int(m / 2) - m % 2` without -/
def baseShift (pad : Bool) (m : Nat) : Int :=
  if pad then 0 else 1 - ((m / 2 : Nat) : Int) - ((m % 2 : Nat) : Int)

/-- `shape_diff = (target - template) * (1 - batch_mask)` -/
def shapeDiff (n m : Nat) (b : Bool) : Int := if b then 0 else (n : Int) - m

/-- `offset`: `shape_diff mod 2` (numpy `mod`: result in `{0,1}`), with padding negated after subtracting
`(target even ∧ template odd)` -/
def padOffset (pad : Bool) (n m : Nat) (diff : Int) : Int :=
  let off := diff % 2
  if pad then -(off - (if n % 2 = 0 ∧ m % 2 = 1 then 1 else 0)) else off

/-- one axis of the returned `fourier_shift`.  `anyNeg` is the vector-wide gate `np.sum(shape_mask)`;
inside it `shape_shift = (diff / 2 + offset) * shape_mask` and
`fourier_shift = (fourier_shift - shape_shift).astype(int)` -/
def shiftAxis (pad anyNeg : Bool) (n m : Nat) (b : Bool) : Int :=
  let base := baseShift pad m
  if anyNeg then
    let diff := shapeDiff n m b
    let mask : Int := if diff < 0 then 1 else 0
    Int.tdiv (2 * base - (diff + 2 * padOffset pad n m diff) * mask) 2
  else base

structure FourierPad where
  conv : List Nat
  fast : List Nat
  ft : List Nat
  shift : List Int
deriving Repr, DecidableEq

/-- `MatchingData._fourier_padding(target_shape, template_shape, batch_mask, pad_fourier)` -/
def fourierPadding (target template : List Nat) (batch : List Bool) (pad : Bool) : FourierPad :=
  let padShape := List.zipWith max target template
  let fpad := List.zipWith (fourierPadAxis pad) template batch
  let conv := convShape padShape fpad
  let fast := conv.map nextFastLen
  let diffs := zip3With shapeDiff target template batch
  let anyNeg := diffs.any (· < 0)
  ⟨conv, fast, fastFtShape fast, zip3With (shiftAxis pad anyNeg) target template batch⟩

/-! ## `MatchingData._set_matching_dimension`: the shapes and the batch mask `fourier_padding` hands to `_fourier_padding` -/

/-- the loop over the matching dimensions.  `ti` counts the *template* batch axes met so far (the code's `target_index`),
`pi` the *target* batch axes (`template_index`); every entry is (target extent, template extent, batch flag); extents not
assigned stay `1`.  `none` stands for the `IndexError` of reading a shape beyond its rank. -/
def matchLoop (ts ps tdims pdims : List Nat) : Nat → Nat → Nat → Nat → Nat → Option (List (Nat × Nat × Bool))
  | 0, _, _, _, _ => some []
  | r + 1, k, ti, pi, col =>
    let td := k - ti
    let pd := k - pi
    if tdims.contains td then
      if td < ts.length then
        if ti = pdims.length ∧ 0 < col then
          if pd < ps.length then
            (matchLoop ts ps tdims pdims r (k + 1) ti (pi + 1) (col - 1)).map ((ts.getD td 1, ps.getD pd 1, true) :: ·)
          else none
        else (matchLoop ts ps tdims pdims r (k + 1) ti (pi + 1) col).map ((ts.getD td 1, 1, true) :: ·)
      else none
    else if pdims.contains pd then
      if pd < ps.length then
        (matchLoop ts ps tdims pdims r (k + 1) (ti + 1) pi col).map ((1, ps.getD pd 1, true) :: ·)
      else none
    else
      (matchLoop ts ps tdims pdims r (k + 1) ti pi col).map ((ts.getD td 1, ps.getD pd 1, false) :: ·)

structure MatchDims where
  target : List Nat
  template : List Nat
  batch : List Bool
deriving Repr, DecidableEq

/-- `_set_matching_dimension(target_dims, template_dims)` for distinct, non-negative batch axes (`[]` = `None`):
`ValueError` when a batch axis is not below the rank -/
def matchingDims (ts ps tdims pdims : List Nat) : Except String MatchDims :=
  if tdims.any (fun x => decide (ts.length ≤ x)) ∨ pdims.any (fun x => decide (ps.length ≤ x)) then throw "ValueError" else
  let meas := ts.length - tdims.length
  let collapse := ps.length - pdims.length - meas
  match matchLoop ts ps tdims pdims (meas + (tdims.length + pdims.length)) 0 0 0 collapse with
  | none => throw "IndexError"
  | some es => pure ⟨es.map (·.1), es.map (·.2.1), es.map (·.2.2)⟩

/-- `MatchingData.target_padding(pad_target)`: `template - template % 2` per axis (zero on target batch axes), zeros without -/
def targetPadding (padTarget : Bool) (template : List Nat) (batch : List Bool) : List Nat :=
  List.zipWith (fun m b => if padTarget then (m - m % 2) * (if b then 0 else 1) else 0) template batch

/-! ## `roll` by the Fourier shift followed by the convolution-mode crop (analyzers' `_postprocess`) -/

/-- numpy `roll(a, shift, axis = all axes)`: `out[i] = a[(i - shift) mod N]` on every axis -/
def rollIdx (shape : List Nat) (shift : List Int) (idx : List Nat) : List Nat :=
  zip3With rollSrc shape shift idx

def rollArr {α : Type} (a : Arr α) (shift : List Int) (d : α) : Arr α :=
  Arr.ofFn a.shape (fun idx => a.getD (rollIdx a.shape shift idx) d)

/-- per-axis (start, extent) of the crop of `apply_convolution_mode` out of convolution shape `conv` -/
def convCrops (mode : Mode) (conv s1 s2 : List Nat) : Option (List (Nat × Nat)) :=
  (zip3With (convCrop mode) conv s1 s2).mapM id

/-- `MaxScoreOverRotations._postprocess`: roll by `shift`, cut to the convolution shape, crop for the mode.
(The leading-corner cut to `conv` is implied by the crop starts and extents lying inside `conv`.) -/
def postMap {α : Type} (a : Arr α) (shift : List Int) (mode : Mode) (conv s1 s2 : List Nat) (d : α) : Option (Arr α) :=
  match convCrops mode conv s1 s2 with
  | none => none
  | some boxes => some (crop (rollArr a shift d) (boxes.map (·.1)) (boxes.map (·.2)) d)

/-- raw (pre-roll) index that output position `t` of the post-processed map reads on one axis -/
def postSrc (fast : Nat) (shift : Int) (start : Nat) (t : Nat) : Nat := rollSrc fast shift (start + t)

/-! ## `topk_indices` -/

/-- order used for the selection: larger value first -/
def geVal (x y : Int × Nat) : Bool := decide (y.1 ≤ x.1)

/-- (value, flat index) pairs of an array -/
def valIdx (vals : List Int) : List (Int × Nat) := vals.zipIdx

/-- flat indices of the `k` largest values, largest first (`argpartition(-k)[-k:]`, `argsort`, `[::-1]`);
`none` when `k` exceeds the number of elements (numpy raises `ValueError: kth out of bounds`).  Ties are
ordered by the sort in use (numpy's introselect / quicksort leave their order unspecified). -/
def topkFlat (vals : List Int) (k : Nat) : Option (List Nat) :=
  if vals.length < k ∨ vals.length = 0 then none
  else some (((valIdx vals).mergeSort geVal).take k |>.map (·.2))

/-- `topk_indices`: the flat indices unravelled, one list per axis (numpy `unravel_index` layout) -/
def topkIndices (a : Arr Int) (k : Nat) : Option (List (List Nat)) :=
  (topkFlat a.toList k).map fun fl =>
    (List.range a.shape.length).map fun ax => fl.map fun f => (unflat a.shape f).getD ax 0

/-! ## `indices` -/

/-- `np.indices(shape)`: array of shape `(ndim, *shape)` whose entry `[a, i₀, …]` is `i_a` -/
def indicesArr (shape : List Nat) : Arr Nat :=
  Arr.ofFn (shape.length :: shape) (fun idx => match idx with
    | a :: rest => rest.getD a 0
    | [] => 0)

/-! ## `center_of_mass` (integer weights: numerator and denominator of the rational result) -/

/-- `where(arr > cutoff, arr, 0)`; `cutoff = None` stands for `min(arr) - 1`: everything is kept -/
def keepW (cut : Option Int) (w : Int) : Int :=
  match cut with
  | none => w
  | some c => if c < w then w else 0

/-- `Σ w` over (coordinate, weight) entries after the cutoff -/
def wSum (cut : Option Int) : List (Nat × Int) → Int
  | [] => 0
  | (_, w) :: es => keepW cut w + wSum cut es

/-- `Σ w · x` -/
def wMoment (cut : Option Int) : List (Nat × Int) → Int
  | [] => 0
  | (x, w) :: es => keepW cut w * (x : Int) + wMoment cut es

/-- (coordinate along `axis`, value) of every voxel -/
def axisEntries (a : Arr Int) (axis : Nat) : List (Nat × Int) :=
  (allIdx a.shape).map fun idx => (idx.getD axis 0, a.getD idx 0)

/-- `center_of_mass(arr, cutoff)`: per axis the pair (numerator, denominator) of the rational coordinate -/
def centerOfMass (a : Arr Int) (cut : Option Int) : List (Int × Int) :=
  (List.range a.shape.length).map fun ax =>
    let es := axisEntries a ax
    (wMoment cut es, wSum cut es)

/-! ## `build_fft`: which shapes and axes the two plans are built for -/

structure FftPlan where
  fwdIn : List Nat      -- shape of the real buffer the forward plan reads
  fwdOut : List Nat     -- shape of the half spectrum it writes
  fwdAxes : List Nat
  invIn : List Nat      -- shape of the complex buffer the inverse plan reads
  invOut : List Nat     -- real shape it writes (`s = inverse_fast_shape`)
  invAxes : List Nat
deriving Repr, DecidableEq

/-- `build_fft(fast_shape, fast_ft_shape, …, inverse_fast_shape=None)`: buffers are allocated with the given shapes,
`rfftn_builder(temp_real, s=fast_shape)`, `irfftn_builder(temp_fft, s=inverse_fast_shape or fast_shape)`; both over all axes -/
def buildFft (fast ft : List Nat) (inverse : Option (List Nat)) : Option FftPlan :=
  let inv := inverse.getD fast
  -- pyFFTW (`avoid_copy`) refuses an inverse whose half-spectrum shape is not the shape of the complex buffer
  if fastFtShape inv = ft then
    some ⟨fast, fastFtShape fast, List.range fast.length, ft, inv, List.range inv.length⟩
  else none

/-! ## `to_sharedarr` / `from_sharedarr` as (buffer, shape, item size) triples -/

structure Shared where
  buf : List Nat        -- the bytes of the block (the OS may hand out more than was asked for)
  shape : List Nat
  itemsize : Nat
deriving Repr, DecidableEq

/-- `to_sharedarr`: a block of at least `nbytes` bytes (`slack` extra ones), the array's bytes at its start -/
def toShared (shape : List Nat) (itemsize : Nat) (bytes : List Nat) (slack : Nat) : Shared :=
  ⟨bytes ++ List.replicate slack 0, shape, itemsize⟩

/-- `from_sharedarr`: `ndarray(shape, dtype, buffer)` reads the first `prod(shape) * itemsize` bytes -/
def fromShared (s : Shared) : List Nat := s.buf.take (prodL s.shape * s.itemsize)

/-! ## `max_filter_coordinates` (1-D per axis window arithmetic and the n-D predicate) -/

/-- scipy `maximum_filter(size = s, mode = "nearest")` footprint on one axis: offsets `-(s/2) … s - 1 - s/2`,
positions outside the array clamped to the border -/
def clampIdx (n : Nat) (i : Int) : Nat := if i < 0 then 0 else min i.toNat (n - 1)

def windowAxis (n s i : Nat) : List Nat :=
  (List.range s).map fun (j : Nat) => clampIdx n ((i : Int) - ((s / 2 : Nat) : Int) + (j : Int))

/-- all multi-indices of the (clamped) window around `idx` -/
def windowIdx : List Nat → Nat → List Nat → List (List Nat)
  | n :: ns, s, i :: is => (windowAxis n s i).flatMap fun x => (windowIdx ns s is).map (x :: ·)
  | _, _, _ => [[]]

/-- a voxel is reported when no voxel of its window is larger -/
def isPeak (a : Arr Int) (s : Nat) (idx : List Nat) : Bool :=
  (windowIdx a.shape s idx).all fun j => decide (a.getD j 0 ≤ a.getD idx 0)

/-- `max_filter_coordinates(score_space, min_distance)`: coordinates (row-major order, as `np.nonzero`) -/
def maxFilterCoordinates (a : Arr Int) (s : Nat) : List (List Nat) :=
  (allIdx a.shape).filter (isPeak a s)

/-! ## `_rigid_transform_matrix`: integer part (inverse rotation given, integer centre and translation) -/

/-- `out_i = Σ_j M_ij v_j` -/
def dot : List Int → List Int → Int
  | a :: as, b :: bs => a * b + dot as bs
  | _, _ => 0

def matVec (M : List (List Int)) (v : List Int) : List Int := M.map fun row => dot row v

/-- offset column of `T(-t) · C(c) · R⁻¹ · C(-c)`: `-t + c - R⁻¹ c` -/
def rigidOffset (rinv : List (List Int)) (c t : List Int) : List Int :=
  zip3With (fun ti ci ri => -ti + ci - ri) t c (matVec rinv c)

/-- the affine map `x ↦ R⁻¹ x + offset` the matrix stands for -/
def rigidApply (rinv : List (List Int)) (c t x : List Int) : List Int :=
  List.zipWith (· + ·) (matVec rinv x) (rigidOffset rinv c t)

/-- homogeneous matrices, as the code builds them -/
def matMul (A B : List (List Int)) : List (List Int) :=
  A.map fun row => (List.range (B.headD []).length).map fun j =>
    (List.zipWith (fun a brow => a * brow.getD j 0) row B).foldl (· + ·) 0

def identM (n : Nat) : List (List Int) :=
  (List.range n).map fun i => (List.range n).map fun j => if i = j then 1 else 0

/-- identity with `v` in the last column (`M[:ndim, ndim] = v`) -/
def translM (v : List Int) : List (List Int) :=
  let n := v.length
  (List.range (n + 1)).map fun i => (List.range (n + 1)).map fun j =>
    if i = j then 1 else if j = n ∧ i < n then v.getD i 0 else 0

/-- identity with `R` in the leading block -/
def linM (R : List (List Int)) : List (List Int) :=
  let n := R.length
  (List.range (n + 1)).map fun i => (List.range (n + 1)).map fun j =>
    if i < n ∧ j < n then (R.getD i []).getD j 0 else if i = j then 1 else 0

/-- `_rigid_transform_matrix(rotation_matrix, translation, center)` with `rinv = inv(rotation_matrix)`:
`I · T(-t) · C(c) · R⁻¹ · C(-c)` (the final division by the corner entry `1` changes nothing) -/
def rigidMatrix (rinv : List (List Int)) (c t : List Int) : List (List Int) :=
  matMul (matMul (matMul (matMul (identM (c.length + 1)) (translM (t.map (- ·)))) (translM c)) (linM rinv)) (translM (c.map (- ·)))

end Pm.C13
