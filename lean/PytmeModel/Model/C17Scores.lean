import PytmeModel.Model.C17
/-!
C17 — the score FORMULAS of the registered refinement scores (tme/matching_optimization.py), as
functions of (integer voxel positions, weights, target array): the step the scratch-state model of
`Model/C17.lean` keeps as the parameter `final`.

Scalars are a parameter (`α`): the driver runs every function over `Rat`, the theorems are stated
over ordered fields / commutative rings, the `decide` witnesses are over `Int` / `Rat`.
Square roots never enter the model: a normalised score is returned as (numerator, denominator²);
`value = numerator / √denominator² · sign`.

* `_interpolate` (`map_coordinates(order ≤ 1, mode="constant")`) at integer positions → `sample`
* `CrossCorrelation.__call__`                          → `ccScore`
* `NormalizedCrossCorrelation.__call__`                → `nccParts`, `nccGuard`
* `NormalizedCrossCorrelationMean.__init__`            → `centreTarget`, `centreWeights` (then `nccParts`)
* `LaplaceCrossCorrelation.__init__`                   → `laplace1` per axis (`laplaceAt`), then `ccScore`
* `MaskedCrossCorrelation.__call__`                    → `mccParts` (coordinates as exact ratios, `astype(int)`)
* `PartialLeastSquareDifference.__call__`              → `plsq` (Model/C17.lean) · sign
* `MutualInformation.__call__`                         → `binOf`, `miScore`
* `Envelope.__init__ / __call__`                       → `envCode`, `envelopeParts`
* `Chamfer.__call__`                                   → `nnSq`, `chamferSqs`
* `NormalVectorScore.__call__`                         → `nvsParts`
* `score_sign`                                         → `scoreSign`
-/
namespace Pm.C17

/-! ## sign convention -/

/-- `self.score_sign = -1 if negate_score else 1` -/
def scoreSign {α : Type} [Neg α] (one : α) (negate : Bool) : α := if negate then -one else one

/-! ## sampling the target at integer voxel positions -/

/-- `0 ≤ p_k < shape_k` on every axis -/
def inVol : List Nat → List Int → Bool
  | [], [] => true
  | n :: ns, p :: ps => decide (0 ≤ p) && decide (p < (n : Int)) && inVol ns ps
  | _, _ => false

/-- `map_coordinates(target, positions, order ≤ 1, mode="constant", cval=0)` at an integer position:
the voxel's value inside the volume, 0 outside -/
def sample {α : Type} (zero : α) (shape : List Nat) (T : List Int → α) (p : List Int) : α :=
  if inVol shape p then T p else zero

def sampleAll {α : Type} (zero : α) (shape : List Nat) (T : List Int → α) (P : List (List Int)) : List α :=
  P.map (sample zero shape T)

/-- the template's positions under a pose that is a voxel translation -/
def shiftPts (t : List Int) (P : List (List Int)) : List (List Int) :=
  P.map (fun p => List.zipWith (· + ·) p t)

def sumL {α : Type} [Add α] (zero : α) : List α → α
  | [] => zero
  | a :: l => a + sumL zero l

/-! ## CrossCorrelation / NormalizedCrossCorrelation(+Mean) -/

/-- `score = dot(target_values, weights); score /= self.denominator * self.score_sign` -/
def ccScore {α : Type} [Add α] [Mul α] [Div α] (zero den sign : α) (v w : List α) : α :=
  dot zero v w / (den * sign)

/-- `NormalizedCrossCorrelation`: (⟨v,w⟩, ‖w‖²‖v‖²); the code's denominator is the square root of the
second component -/
def nccParts {α : Type} [Add α] [Mul α] (zero : α) (v w : List α) : α × α :=
  (dot zero v w, dot zero w w * dot zero v v)

/-- `if denominator <= 0: return 0.0` (‖w‖·‖v‖ ≤ 0 iff its square is) -/
def nccGuard {α : Type} [Add α] [Mul α] [LE α] [DecidableLE α] (zero : α) (v w : List α) : Bool :=
  decide ((nccParts zero v w).2 ≤ zero)

/-- `NormalizedCrossCorrelationMean.__init__`: `target - target.mean()` over the WHOLE map
(`cells` = all voxels, `invN = 1/len`) … -/
def centreTarget {α : Type} [Add α] [Sub α] [Mul α] (zero invN : α) (cells : List (List Int))
    (T : List Int → α) : List Int → α :=
  let mu := sumL zero (cells.map T) * invN
  fun p => T p - mu

/-- … and `template_weights - template_weights.mean()` over the template's points -/
def centreWeights {α : Type} [Add α] [Sub α] [Mul α] (zero invn : α) (w : List α) : List α :=
  let mu := sumL zero w * invn
  w.map (· - mu)

/-! ## LaplaceCrossCorrelation: `scipy.ndimage.laplace` (mode="reflect") -/

/-- neighbour index under scipy's `reflect` (d c b a | a b c d | d c b a): −1 ↦ 0, n ↦ n−1 -/
def reflIdx (n : Nat) (i : Int) : Int := if i < 0 then 0 else if (n : Int) ≤ i then (n : Int) - 1 else i

def setAt (p : List Int) (k : Nat) (x : Int) : List Int := p.set k x

/-- Σ_axes a[p−e_k] + a[p+e_k] − 2a[p] -/
def laplaceAt {α : Type} [Add α] [Sub α] (zero : α) (shape : List Nat) (T : List Int → α) (p : List Int) : α :=
  sumL zero ((List.range shape.length).map (fun k =>
    let n := shape.getD k 0
    let i := p.getD k 0
    (T (setAt p k (reflIdx n (i - 1))) + T (setAt p k (reflIdx n (i + 1)))) - (T p + T p)))

/-- the template side: weights deposited (`np.add.at`) on the bounding-box array at `positions − origin` -/
def deposit {α : Type} [Add α] (zero : α) (P : List (List Int)) (w : List α) (origin : List Int) : List Int → α :=
  fun q => sumL zero (((P.zip w).filter (fun pw => List.zipWith (· - ·) pw.1 origin == q)).map (·.2))

/-- `LaplaceCrossCorrelation.__init__`, template side: `origin = coordinates.min(axis=1)`, box shape
`positions.max(axis=1) + 1`, weights ↦ `laplace(arr)[positions]` -/
def colMin (P : List (List Int)) (k : Nat) : Int :=
  match P.map (fun p => p.getD k 0) with
  | [] => 0
  | a :: l => l.foldl min a

def colMax (P : List (List Int)) (k : Nat) : Int :=
  match P.map (fun p => p.getD k 0) with
  | [] => 0
  | a :: l => l.foldl max a

def laplaceWeights {α : Type} [Add α] [Sub α] (zero : α) (ndim : Nat) (P : List (List Int)) (w : List α) : List α :=
  let origin := (List.range ndim).map (colMin P)
  let box := (List.range ndim).map (fun k => (colMax P k - colMin P k + 1).toNat)
  let arr := deposit zero P w origin
  P.map (fun p => laplaceAt zero box arr (List.zipWith (· - ·) p origin))

/-- the target side: `laplace(target)` sampled like any target -/
def laplaceTarget {α : Type} [Add α] [Sub α] (zero : α) (shape : List Nat) (T : List Int → α) : List Int → α :=
  laplaceAt zero shape T

/-! ## MaskedCrossCorrelation -/

/-- the code's in-volume test on a float coordinate given as the exact ratio `a/d`: `0 ≤ x < N` -/
def inVolQ : List Nat → List (Int × Nat) → Bool
  | [], [] => true
  | n :: ns, (a, d) :: ps => decide (0 ≤ a) && decide (a < (n : Int) * (d : Int)) && inVolQ ns ps
  | _, _ => false

/-- `astype(int)`: truncation towards zero -/
def cellOf (p : List (Int × Nat)) : List Int := p.map (fun q => truncRatio q.1 q.2)

/-- the formula on the gathered vectors: `mt` target at the in-volume mask cells, `mtpl` weights ×
target mask at the in-volume template cells, `tv`/`tw` target values / weights at the in-volume
template cells, `ov` the overlap count after `fmax(·, eps)`; returns (numerator, denominator1,
denominator2) after the `fmax(·, 0)` clamps -/
def mccCore {α : Type} [Add α] [Sub α] [Mul α] [Div α] [Max α] (zero ov : α) (mt mtpl tv tw : List α) :
    α × α × α :=
  let s1 := sumL zero mt
  let s2 := sumL zero mtpl
  let d1 := dot zero mt mt - s1 * s1 / ov
  let d2 := dot zero mtpl mtpl - s2 * s2 / ov
  (dot zero tv tw - s1 * s2 / ov, max d1 zero, max d2 zero)

def mccParts {α : Type} [Add α] [Sub α] [Mul α] [Div α] [Max α] (zero eps : α) (shape : List Nat)
    (T M : List Int → α) (P Pm : List (List (Int × Nat))) (w : List α) : α × α × α :=
  let mp := (Pm.filter (inVolQ shape)).map cellOf
  let ov := max (sumL zero (mp.map M)) eps
  let tp := (P.zip w).filter (fun pw => inVolQ shape pw.1)
  mccCore zero ov (mp.map T) (tp.map (fun pw => pw.2 * M (cellOf pw.1)))
    (tp.map (fun pw => T (cellOf pw.1))) (tp.map (·.2))

/-- integer coordinates as ratios -/
def asRatio (p : List Int) : List (Int × Nat) := p.map (fun a => (a, 1))

/-! ## MutualInformation -/

/-- `np.histogram2d(..., bins=10)`: bin of `x` for the range `[lo, hi]` (number of inner edges
`lo + i·(hi−lo)/10 ≤ x`; the last edge belongs to the last bin); a degenerate range is widened to
`[lo − ½, hi + ½]` -/
def binOf {α : Type} [Add α] [Sub α] [Mul α] [Div α] [LE α] [DecidableLE α] [DecidableEq α]
    (ofNat : Nat → α) (lo hi x : α) : Nat :=
  let half := ofNat 1 / ofNat 2
  let lo' := if lo = hi then lo - half else lo
  let hi' := if lo = hi then hi + half else hi
  ((List.range 9).filter (fun i => decide (lo' + ofNat (i + 1) * (hi' - lo') / ofNat 10 ≤ x))).length

/-- `Σ p_xy · p_xy / (p_x p_y + eps)` over the 10 × 10 table of the paired bin indices -/
def miScore {α : Type} [Add α] [Mul α] [Div α] (zero eps : α) (ofNat : Nat → α) (bv bw : List Nat) : α :=
  let n := ofNat (bv.zip bw).length
  let pairs := bv.zip bw
  sumL zero ((List.range 10).map (fun i => sumL zero ((List.range 10).map (fun j =>
    let c := ofNat (pairs.count (i, j)) / n
    let px := ofNat ((pairs.map (·.1)).count i) / n
    let py := ofNat ((pairs.map (·.2)).count j) / n
    c * c / (px * py + eps)))))

def listMin {α : Type} [LE α] [DecidableLE α] (zero : α) : List α → α
  | [] => zero
  | a :: l => l.foldl (fun m x => if x ≤ m then x else m) a

def listMax {α : Type} [LE α] [DecidableLE α] (zero : α) : List α → α
  | [] => zero
  | a :: l => l.foldl (fun m x => if m ≤ x then x else m) a

/-- `MutualInformation.__call__` on (interpolated values, weights) -/
def miOf {α : Type} [Add α] [Sub α] [Mul α] [Div α] [LE α] [DecidableLE α] [DecidableEq α]
    (zero eps : α) (ofNat : Nat → α) (v w : List α) : α :=
  miScore zero eps ofNat (v.map (binOf ofNat (listMin zero v) (listMax zero v)))
    (w.map (binOf ofNat (listMin zero w) (listMax zero w)))

/-! ## Envelope -/

/-- `np.where(target > threshold, -1, 1)` -/
def envCode {α : Type} [LT α] [DecidableLT α] (thr x : α) : Int := if thr < x then -1 else 1

def cnt (x : Int) (v : List Int) : Int := (v.count x : Nat)

def sumI : List Int → Int
  | [] => 0
  | a :: l => a + sumI l

/-- the score before the affine normalisation: `Σv − (present − #(v = −1)) − 2·#(v = 0)` -/
def envRaw (present : Int) (v : List Int) : Int :=
  sumI v - (present - cnt (-1) v) - 2 * cnt 0 v

/-- `Envelope.__call__` as (numerator, denominator) of the returned value (before the sign):
`(raw − 2·min_score) / (2·present − min_score)`, `min_score = −present − 2·absent` -/
def envelopeParts (present absent : Int) (v : List Int) : Int × Int :=
  let mn := -present - 2 * absent
  (envRaw present v - 2 * mn, 2 * present - mn)

/-! ## Chamfer -/

/-- squared distance of `p` to its nearest neighbour among `q0 :: qs` -/
def nnSq {α : Type} [Add α] [Sub α] [Mul α] [Min α] (zero : α) (p q0 : List α) (qs : List (List α)) : α :=
  qs.foldr (fun q acc => min (plsq zero p q) acc) (plsq zero p q0)

/-- `KDTree.query` distances, squared; the score is the mean of their square roots -/
def chamferSqs {α : Type} [Add α] [Sub α] [Mul α] [Min α] (zero : α) (P : List (List α)) (q0 : List α)
    (qs : List (List α)) : List α :=
  P.map (fun p => nnSq zero p q0 qs)

/-! ## NormalVectorScore -/

/-- `mean(A∘B / (‖A‖·‖B‖))` over all `d·n` entries: (Σ A∘B, ‖A‖²‖B‖², d·n) -/
def nvsParts {α : Type} [Add α] [Mul α] (zero : α) (A B : List (List α)) : α × α × Nat :=
  (dot zero A.flatten B.flatten,
   dot zero A.flatten A.flatten * dot zero B.flatten B.flatten, A.flatten.length)

/-! ## FLC (density → density) -/

/-- Σ aᵢ·bᵢ·cᵢ -/
def dot3 {α : Type} [Add α] [Mul α] (zero : α) : List α → List α → List α → α
  | a :: as, b :: bs, c :: cs => a * b * c + dot3 zero as bs cs
  | _, _, _ => zero

/-- `FLC.__call__` after `normalize_template` (binary mask; the second normalisation of an already
standardised template changes nothing): `g`, `m` the rotated template and mask (all voxels), `n = Σ m`;
`gs`, `ms`, `fs` template, mask and target restricted to the overlap window.  Returns
(Σ m·(g − μ)·f, var_m(g), var_m(f)) with the variances clamped at 0 as in the code; the value is
`numerator / (σ_g · σ_f · n) · sign` with `σ_g := 1` when the template has no spread, and 0 when
`σ_f < eps` -/
def flcCore {α : Type} [Add α] [Sub α] [Mul α] [Div α] [Max α] (zero n : α) (g m gs ms fs : List α) : α × α × α :=
  let mu := dot zero g m / n
  let vg := max (dot3 zero g g m / n - mu * mu) zero
  let num := dot3 zero ms (gs.map (· - mu)) fs
  let ef := dot3 zero fs fs ms / n
  let sf := dot zero fs ms / n
  (num, vg, max (ef - sf * sf) zero)

/-- template voxels inside the overlap window of the voxel translation `v` (python slices of `flcWindow`) -/
def flcInWin (shape : List Nat) (wins : List Win) (idx : List Nat) : Bool :=
  (List.zip (List.zip shape wins) idx).all (fun q =>
    let r := pySlice q.1.1 q.1.2.tLo q.1.2.tHi
    decide (r.1 ≤ q.2) && decide (q.2 < r.2))

/-- target voxel under a template voxel: template index − template window start + target window start -/
def flcTgt (wins : List Win) (idx : List Nat) : List Int :=
  (List.zip wins idx).map (fun q => (q.2 : Int) - q.1.tLo + q.1.gLo)

/-- the whole `__call__` at a voxel translation: template `g`, mask `m` (functions of the voxel index),
target `f`; target voxel = template voxel − window start + target window start -/
def flcOf {α : Type} [Add α] [Sub α] [Mul α] [Div α] [Max α] (zero : α) (shape tshape : List Nat)
    (g m : List Nat → α) (f : List Int → α) (v : List Int) : α × α × α × α :=
  let cells := allIdx shape
  let wins := windows shape tshape v
  let sel := cells.filter (flcInWin shape wins)
  let n := sumL zero (cells.map m)
  let r := flcCore zero n (cells.map g) (cells.map m) (sel.map g) (sel.map m) (sel.map (fun i => f (flcTgt wins i)))
  (r.1, r.2.1, r.2.2, n)

end Pm.C17
